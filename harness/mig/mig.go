// Package mig holds the error types the migration scenarios (C17) rename between.
package mig

// T1, T2, T3: successive names of one leaf type.
type T1 struct{ Msg string }
type T2 struct{ Msg string }
type T3 struct{ Msg string }

func (e *T1) Error() string { return e.Msg }
func (e *T2) Error() string { return e.Msg }
func (e *T3) Error() string { return e.Msg }

// W1, W2, W3: successive names of one wrapper type.
type W1 struct{ Err error }
type W2 struct{ Err error }
type W3 struct{ Err error }

func (e *W1) Error() string { return e.Err.Error() }
func (e *W2) Error() string { return e.Err.Error() }
func (e *W3) Error() string { return e.Err.Error() }
func (e *W1) Unwrap() error { return e.Err }
func (e *W2) Unwrap() error { return e.Err }
func (e *W3) Unwrap() error { return e.Err }

// the wrapper family also carries an extension mark (as the library's domain wrapper does): renamed
// types that implement TypeKeyMarker are renamed types like any other
func (e *W1) ErrorKeyMarker() string { return "ext" }
func (e *W2) ErrorKeyMarker() string { return "ext" }
func (e *W3) ErrorKeyMarker() string { return "ext" }

// named slice types as error types (a list of codes): the type's own package path
// is that of the NAMED type, not of its element type
type S1 []int
type S2 []int
type S3 []int

func (e S1) Error() string { return "codes" }
func (e S2) Error() string { return "codes" }
func (e S3) Error() string { return "codes" }

// generic error types: the instantiation is part of the type's name
type G1[T any] struct{ V T }
type G2[T any] struct{ V T }
type G3[T any] struct{ V T }

func (e *G1[T]) Error() string { return "generic" }
func (e *G2[T]) Error() string { return "generic" }
func (e *G3[T]) Error() string { return "generic" }

// a multi-cause type and its two later names
type M1 struct{ Errs []error }
type M2 struct{ Errs []error }
type M3 struct{ Errs []error }

func multiText(es []error) string {
	s := "multi"
	for _, e := range es {
		s += "; " + e.Error()
	}
	return s
}
func (e *M1) Error() string   { return multiText(e.Errs) }
func (e *M2) Error() string   { return multiText(e.Errs) }
func (e *M3) Error() string   { return multiText(e.Errs) }
func (e *M1) Unwrap() []error { return e.Errs }
func (e *M2) Unwrap() []error { return e.Errs }
func (e *M3) Unwrap() []error { return e.Errs }
