package main

// C17: type renames.  (a) registration in every order of rename chains, compared
// with the model of RegisterTypeMigration; (b) every assignment of code
// versions {old name, new name, other rename, unknowing} to sender /
// intermediary / receiver, for a leaf and a wrapper type.

import (
	"context"
	"encoding/json"
	"fmt"
	"os"
	"path/filepath"
	"sort"
	"strings"

	"github.com/cockroachdb/errors"
	"github.com/cockroachdb/errors/errbase"
	"github.com/cockroachdb/errors/errorspb"
	"github.com/gogo/protobuf/proto"

	"verifharness/mig"
)

const migPkg = "verifharness/mig"

func permutations(n int) [][]int {
	if n == 0 {
		return [][]int{{}}
	}
	var out [][]int
	for _, p := range permutations(n - 1) {
		for i := 0; i <= len(p); i++ {
			q := append(append(append([]int{}, p[:i]...), n-1), p[i:]...)
			out = append(out, q)
		}
	}
	return out
}

type regStep struct {
	prevPkg, prevName string
	newType           error
}

func key(pkg, name string) string { return pkg + "/" + name }

func cmdMigrate(args []string) {
	outdir := args[0]
	os.MkdirAll(outdir, 0o755)
	var fails []OracleFail
	evals := 0
	fail := func(id, what, detail string) {
		fails = append(fails, OracleFail{Prop: "C17", CaseID: id, Oracle: "C17", What: what, Detail: detail, Recipe: id,
			ReplayArgs: map[string]interface{}{"prop": "C17", "case": id}})
	}
	cf, _ := os.Create(filepath.Join(outdir, "cases.sexp"))
	of, _ := os.Create(filepath.Join(outdir, "observed.sexp"))
	var samples []string
	ncases := 0

	// ---- (a) registration orders ----
	families := []struct {
		kind  string
		types []error
		names []string
	}{
		{"leaf", []error{&mig.T1{}, &mig.T2{}, &mig.T3{}}, []string{"*mig.T1", "*mig.T2", "*mig.T3"}},
		{"wrapper", []error{&mig.W1{}, &mig.W2{}, &mig.W3{}}, []string{"*mig.W1", "*mig.W2", "*mig.W3"}},
		// moved types: the first rename changes the import path only (same package name, same type name)
		{"moved-leaf", []error{&mig.T1{}, &mig.T2{}, &mig.T3{}}, []string{"*mig.T1", "*mig.T2", "*mig.T3"}},
		// error types of other kinds than (pointer to) struct: a named slice; instantiations of a generic type
		{"slice-leaf", []error{mig.S1{1}, mig.S2{1}, mig.S3{1}}, []string{"mig.S1", "mig.S2", "mig.S3"}},
		{"generic-leaf", []error{&mig.G1[int]{}, &mig.G2[int]{}, &mig.G3[int]{}}, []string{"*mig.G1[int]", "*mig.G2[int]", "*mig.G3[int]"}},
		// the rename also moved the type from value receivers to pointer receivers
		{"value-to-pointer", []error{&mig.T1{}, &mig.T2{}, &mig.T3{}}, []string{"*mig.T1", "*mig.T2", "*mig.T3"}},
	}
	for _, fam := range families {
		for n := 1; n <= 3; n++ {
			// chain k0 -> T1 -> ... -> Tn ; edge i renames (i-1) to i
			var edges []regStep
			origName := "old/pkg/*pkg.T0"
			if fam.kind == "value-to-pointer" {
				// the original type had value receivers: its documented name has no asterisk
				origName = "old/pkg/pkg.T0"
				edges = append(edges, regStep{"old/pkg", "pkg.T0", fam.types[0]})
			} else if strings.HasPrefix(fam.kind, "moved") {
				origName = "an/older/import/path/mig/" + fam.names[0]
				edges = append(edges, regStep{"an/older/import/path/mig", fam.names[0], fam.types[0]})
			} else {
				edges = append(edges, regStep{"old/pkg", "*pkg.T0", fam.types[0]})
			}
			for i := 1; i < n; i++ {
				edges = append(edges, regStep{migPkg, fam.names[i-1], fam.types[i]})
			}
			orders := permutations(n)
			// plus orders with a duplicated registration
			dups := [][]int{}
			for i := 0; i < n; i++ {
				dups = append(dups, append(append([]int{}, orders[0]...), i))
			}
			for oi, ord := range append(orders, dups...) {
				id := fmt.Sprintf("C17-%s-chain%d-order%d", fam.kind, n, oi)
				ncases++
				evals++
				var regsSx []Sx
				panicked := ""
				var reg map[string]string
				keys := map[string]string{}
				func() {
					restore := errbase.TestingWithEmptyMigrationRegistry()
					defer restore()
					defer func() {
						if p := recover(); p != nil {
							panicked = fmt.Sprint(p)
						}
					}()
					for _, ei := range ord {
						e := edges[ei]
						regsSx = append(regsSx, L(A(key(e.prevPkg, e.prevName)), A(string(goFullName(e.newType)))))
					}
					for _, ei := range ord {
						e := edges[ei]
						// through the public API (a forwarding wrapper)
						errors.RegisterTypeMigration(e.prevPkg, e.prevName, e.newType)
						// the keys are in use between registrations (errors are compared / encoded while
						// packages are still initialising): nothing computed now may go stale later
						for i := 0; i < n; i++ {
							_ = errbase.GetTypeKey(fam.types[i])
							_ = errors.Is(fam.types[i], fam.types[(i+1)%n])
						}
					}
					reg = errbase.VerifMigrations()
					for i := 0; i < n; i++ {
						keys[fam.names[i]] = string(errbase.GetTypeKey(fam.types[i]))
					}
				}()
				var res Sx
				if panicked != "" {
					res = L(Sym("panic"))
				} else {
					var ks []string
					for k := range reg {
						ks = append(ks, k)
					}
					sort.Strings(ks)
					pairs := L()
					for _, k := range ks {
						pairs.List = append(pairs.List, L(A(k), A(reg[k])))
					}
					res = L(Sym("ok"), pairs)
				}
				fmt.Fprintln(cf, L(Sym("migcase"), A(id), L(regsSx...)).String())
				fmt.Fprintln(of, L(Sym("result"), A(id), res).String())
				isDup := oi >= len(orders)
				if isDup && panicked == "" {
					fail(id, "registering the same target type twice is not rejected", "")
				}
				if !isDup {
					if panicked != "" {
						fail(id, "registering a rename chain panics: "+panicked, "")
						continue
					}
					for i := 0; i < n; i++ {
						if keys[fam.names[i]] != origName {
							fail(id, fmt.Sprintf("after registering the chain in order %v, type %s is encoded under %q instead of the original name", ord, fam.names[i], keys[fam.names[i]]), fmt.Sprint(reg))
							break
						}
					}
				}
				if len(samples) < 4 {
					samples = append(samples, L(Sym("migcase"), A(id), L(regsSx...)).String())
				}
			}
		}
	}
	cf.Close()
	of.Close()

	// ---- (b) version assignments ----
	type version struct {
		name  string
		mk    func(kind string, msg string, cause error) error // nil: does not know the type
		migr  map[string]string
		local string // Go type name suffix
	}
	t1key := func(kind string) string {
		if kind == "leaf" {
			return migPkg + "/*mig.T1"
		}
		if kind == "multi" {
			return migPkg + "/*mig.M1"
		}
		return migPkg + "/*mig.W1"
	}
	second := errors.New("second branch")
	versions := []version{
		{name: "old", mk: func(kind, msg string, cause error) error {
			if kind == "leaf" {
				return &mig.T1{Msg: msg}
			}
			if kind == "multi" {
				return &mig.M1{Errs: []error{cause, second}}
			}
			return &mig.W1{Err: cause}
		}, migr: map[string]string{}},
		{name: "new", mk: func(kind, msg string, cause error) error {
			if kind == "leaf" {
				return &mig.T2{Msg: msg}
			}
			if kind == "multi" {
				return &mig.M2{Errs: []error{cause, second}}
			}
			return &mig.W2{Err: cause}
		}, migr: map[string]string{migPkg + "/*mig.T2": migPkg + "/*mig.T1", migPkg + "/*mig.W2": migPkg + "/*mig.W1", migPkg + "/*mig.M2": migPkg + "/*mig.M1"}},
		{name: "other", mk: func(kind, msg string, cause error) error {
			if kind == "leaf" {
				return &mig.T3{Msg: msg}
			}
			if kind == "multi" {
				return &mig.M3{Errs: []error{cause, second}}
			}
			return &mig.W3{Err: cause}
		}, migr: map[string]string{migPkg + "/*mig.T3": migPkg + "/*mig.T1", migPkg + "/*mig.W3": migPkg + "/*mig.W1", migPkg + "/*mig.M3": migPkg + "/*mig.M1"}},
		{name: "unknowing", mk: nil, migr: map[string]string{}},
	}
	// run f "inside" version v: its migration registry and its decoders installed
	inVersion := func(v version, kind string, f func()) {
		restoreM := errbase.VerifInstallMigrations(v.migr)
		defer restoreM()
		k := errbase.TypeKey(t1key(kind))
		if v.mk != nil {
			// the type has its own codec (registered under its type key, as documented): the
			// decoder relies on the payload its encoder sends
			if kind == "multi" {
				// a multi-cause type is rebuilt by a multi-cause decoder registered under its (original) key
				errbase.RegisterMultiCauseDecoder(k, func(_ context.Context, causes []error, _ string, _ []string, _ proto.Message) error {
					if len(causes) != 2 {
						return nil
					}
					rebuilt := v.mk(kind, "", causes[0])
					rebuilt.(interface{ Unwrap() []error }).Unwrap()[1] = causes[1]
					return rebuilt
				})
			} else if kind == "leaf" {
				errbase.RegisterLeafEncoder(k, func(_ context.Context, err error) (string, []string, proto.Message) {
					return err.Error(), nil, &errorspb.StringPayload{Msg: "P:" + err.Error()}
				})
				errbase.RegisterLeafDecoder(k, func(_ context.Context, msg string, _ []string, pl proto.Message) error {
					p, ok := pl.(*errorspb.StringPayload)
					if !ok || p.Msg != "P:"+msg {
						return nil
					}
					return v.mk(kind, msg, nil)
				})
			} else {
				errbase.RegisterWrapperEncoder(k, func(_ context.Context, err error) (string, []string, proto.Message) {
					return "", nil, &errorspb.StringPayload{Msg: "PW"}
				})
				errbase.RegisterWrapperDecoder(k, func(_ context.Context, cause error, _ string, _ []string, pl proto.Message) error {
					p, ok := pl.(*errorspb.StringPayload)
					if !ok || p.Msg != "PW" {
						return nil
					}
					return v.mk(kind, "", cause)
				})
			}
		}
		defer func() {
			if kind == "multi" {
				errbase.RegisterMultiCauseDecoder(k, nil)
			} else if kind == "leaf" {
				errbase.RegisterLeafDecoder(k, nil)
				errbase.RegisterLeafEncoder(k, nil)
			} else {
				errbase.RegisterWrapperDecoder(k, nil)
				errbase.RegisterWrapperEncoder(k, nil)
			}
		}()
		f()
	}
	encodeIn := func(v version, kind string, e error) []byte {
		var b []byte
		inVersion(v, kind, func() { b = marshalEnc(e) })
		return b
	}
	decodeIn := func(v version, kind string, b []byte) error {
		var e error
		inVersion(v, kind, func() {
			var dec errorspb.EncodedError
			if err := proto.Unmarshal(b, &dec); err != nil {
				panic(err)
			}
			e = errors.DecodeError(context.Background(), dec)
		})
		return e
	}
	for _, kind := range []string{"leaf", "wrapper", "multi"} {
		cause := errors.New("cause")
		for _, s := range versions {
			if s.mk == nil {
				continue
			}
			for _, im := range versions {
				for _, r := range versions {
					id := fmt.Sprintf("C17-%s-%s-%s-%s", kind, s.name, im.name, r.name)
					evals++
					ncases++
					func() {
						defer func() {
							if p := recover(); p != nil {
								fail(id, "panic: "+fmt.Sprint(p), "")
							}
						}()
						var orig error
						inVersion(s, kind, func() { orig = s.mk(kind, "boom", cause) })
						wire1 := encodeIn(s, kind, orig)
						atI := decodeIn(im, kind, wire1)
						wire2 := encodeIn(im, kind, atI)
						atR := decodeIn(r, kind, wire2)
						direct := decodeIn(r, kind, wire1)
						inVersion(r, kind, func() {
							// the family the receiver sees is the original name
							fam := errors.GetSafeDetails(atR).ErrorTypeMark.FamilyName
							if fam != t1key(kind) {
								fail(id, fmt.Sprintf("the receiver sees family %q, expected the original name %q", fam, t1key(kind)), "")
								return
							}
							if !errors.Is(atR, direct) || !errors.Is(direct, atR) {
								fail(id, "the error received through the intermediary is not recognised as the one received directly", "")
								return
							}
							if r.mk != nil {
								local := r.mk(kind, "boom", errors.New("cause"))
								if !errors.Is(atR, local) || !errors.Is(local, atR) {
									fail(id, "Is does not recognise the received error as the receiver's own (renamed) type", fmt.Sprintf("%T vs %T", atR, local))
									return
								}
								if fmt.Sprintf("%T", atR) != fmt.Sprintf("%T", local) {
									fail(id, fmt.Sprintf("an error arriving under the original name is decoded to %T, not to the receiver's type %T", atR, local), "")
									return
								}
							}
							// senders of other versions are recognised as the same error
							for _, s2 := range versions {
								if s2.mk == nil {
									continue
								}
								var o2 error
								inVersion(s2, kind, func() { o2 = s2.mk(kind, "boom", errors.New("cause")) })
								other := decodeIn(r, kind, encodeIn(s2, kind, o2))
								if !errors.Is(atR, other) || !errors.Is(other, atR) {
									fail(id, fmt.Sprintf("errors of the same (renamed) type sent by versions %s and %s are not recognised as the same at %s", s.name, s2.name, r.name), "")
									return
								}
							}
						})
					}()
				}
			}
		}
	}
	// ---- (c) the rename the library itself declares: os.PathError became fs.PathError in Go 1.16;
	// every earlier peer sends and expects "os/*os.PathError" ----
	func() {
		id := "C17-builtin-os.PathError"
		ncases++
		evals++
		defer func() {
			if p := recover(); p != nil {
				fail(id, "panic: "+fmt.Sprint(p), "")
			}
		}()
		const oldName = "os/*os.PathError"
		local := &os.PathError{Op: "open", Path: "/p", Err: errors.New("cause")}
		if k := string(errbase.GetTypeKey(local)); k != oldName {
			fail(id, fmt.Sprintf("*fs.PathError is encoded under %q, not under its original name %q", k, oldName), "")
			return
		}
		enc := errors.EncodeError(context.Background(), local)
		w := enc.GetWrapper()
		if w == nil || w.Details.ErrorTypeMark.FamilyName != oldName {
			fail(id, "the wire family of a path error is not the original name", fmt.Sprint(enc))
			return
		}
		// what a peer built before the rename sends
		w.Details.ErrorTypeMark.FamilyName = oldName
		w.Details.OriginalTypeName = oldName
		dec := errors.DecodeError(context.Background(), enc)
		if _, ok := dec.(*os.PathError); !ok {
			fail(id, fmt.Sprintf("a path error arriving under the original name decodes to %T, not to the local (renamed) type", dec), "")
			return
		}
		if !errors.Is(dec, local) || !errors.Is(local, dec) {
			fail(id, "Is does not recognise a path error received from a peer built before the rename", "")
		}
	}()
	// ---- (d) a renamed error type that is itself a protobuf message (no decoder: the payload is the error) ----
	func() {
		id := "C17-proto-error-renamed"
		ncases++
		evals++
		defer func() {
			if p := recover(); p != nil {
				fail(id, "panic: "+fmt.Sprint(p), "")
			}
		}()
		restore := errbase.TestingWithEmptyMigrationRegistry()
		defer restore()
		errbase.RegisterTypeMigration("old/proto/pkg", "*pkg.OldProtoError", &errorspb.TestError{})
		const oldName = "old/proto/pkg/*pkg.OldProtoError"
		local := &errorspb.TestError{}
		if k := string(errbase.GetTypeKey(local)); k != oldName {
			fail(id, fmt.Sprintf("the renamed protobuf error type is encoded under %q, not under its original name %q", k, oldName), "")
			return
		}
		for hop, cur := 1, error(errors.WithHint(local, "h")); hop <= 2; hop++ {
			cur = transferOnce(cur, nil)
			root := errors.UnwrapAll(cur)
			if _, ok := root.(*errorspb.TestError); !ok {
				fail(id, fmt.Sprintf("after hop %d an error arriving under the original name of a renamed protobuf error type is a %T, not the local type", hop, root), "")
				return
			}
			if !errors.Is(cur, local) || !errors.HasType(cur, local) {
				fail(id, fmt.Sprintf("after hop %d Is / HasType do not recognise the renamed protobuf error", hop), "")
				return
			}
		}
	}()
	_ = strings.Join
	meta := map[string]interface{}{"prop": "C17", "cases": ncases, "distinct_nontrivial": ncases, "ops": map[string]int{},
		"depth_hist": map[string]int{}, "samples": samples, "oracle_failures": fails, "oracle_evaluations": evals}
	if fails == nil {
		meta["oracle_failures"] = []OracleFail{}
	}
	mb, _ := json.MarshalIndent(meta, "", " ")
	os.WriteFile(filepath.Join(outdir, "meta.json"), mb, 0o644)
	fmt.Printf("C17: %d cases, %d failures\n", ncases, len(fails))
}
