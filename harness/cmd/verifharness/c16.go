package main

// C16: every stack-capturing constructor records its caller (the d-th caller
// above it for the depth variants) as first frame; the domain functions denote
// that caller's package.

import (
	"encoding/json"
	goerr "errors"
	"fmt"
	pkgerr "github.com/pkg/errors"
	"os"
	"path/filepath"
	"reflect"
	"runtime"
	"sort"
	"strings"
	"verifharness/ut"

	"github.com/cockroachdb/errors"
	"github.com/cockroachdb/errors/domains"
	"github.com/cockroachdb/errors/errbase"
	"github.com/cockroachdb/errors/errutil"
	"github.com/cockroachdb/errors/withstack"

	"verifharness/dp1"
	"verifharness/dp2"
	"verifharness/dp3"
)

type depthEntry struct {
	name     string
	hasDepth bool
	// exactly one of the two
	mk  func(d int) error
	dom func(d int) errors.Domain
	// the stack to look at is that of the layer `skip` unwraps below the top
	skip int
}

var leafErr = fmt.Errorf("x")

// every exported stack-capturing / domain-computing function named by the property
func depthEntries() []depthEntry {
	return []depthEntry{
		{name: ".New", mk: func(d int) error { return errors.New("m") }},
		{name: ".Newf", mk: func(d int) error { return errors.Newf("m %d", 1) }},
		{name: ".Errorf", mk: func(d int) error { return errors.Errorf("m %d", 1) }},
		{name: ".NewWithDepth", hasDepth: true, mk: func(d int) error { return errors.NewWithDepth(d, "m") }},
		{name: ".NewWithDepthf", hasDepth: true, mk: func(d int) error { return errors.NewWithDepthf(d, "m %d", 1) }},
		{name: ".Wrap", mk: func(d int) error { return errors.Wrap(leafErr, "m") }},
		{name: ".Wrap", mk: func(d int) error { return errors.Wrap(leafErr, "") }},
		{name: ".Wrapf", mk: func(d int) error { return errors.Wrapf(leafErr, "m %d", 1) }},
		{name: ".Wrapf", mk: func(d int) error { return errors.Wrapf(leafErr, "") }},
		{name: ".WrapWithDepth", hasDepth: true, mk: func(d int) error { return errors.WrapWithDepth(d, leafErr, "m") }},
		{name: ".WrapWithDepth", hasDepth: true, mk: func(d int) error { return errors.WrapWithDepth(d, leafErr, "") }},
		{name: ".WrapWithDepthf", hasDepth: true, mk: func(d int) error { return errors.WrapWithDepthf(d, leafErr, "m %d", 1) }},
		{name: ".WrapWithDepthf", hasDepth: true, mk: func(d int) error { return errors.WrapWithDepthf(d, leafErr, "") }},
		{name: ".WithStack", mk: func(d int) error { return errors.WithStack(leafErr) }},
		{name: ".WithStackDepth", hasDepth: true, mk: func(d int) error { return errors.WithStackDepth(leafErr, d) }},
		{name: ".AssertionFailedf", mk: func(d int) error { return errors.AssertionFailedf("m %d", 1) }, skip: 1},
		{name: ".AssertionFailedWithDepthf", hasDepth: true, mk: func(d int) error { return errors.AssertionFailedWithDepthf(d, "m %d", 1) }, skip: 1},
		{name: ".HandleAsAssertionFailure", mk: func(d int) error { return errors.HandleAsAssertionFailure(leafErr) }, skip: 1},
		{name: ".HandleAsAssertionFailureDepth", hasDepth: true, mk: func(d int) error { return errors.HandleAsAssertionFailureDepth(d, leafErr) }, skip: 1},
		{name: ".NewAssertionErrorWithWrappedErrf", mk: func(d int) error { return errors.NewAssertionErrorWithWrappedErrf(leafErr, "m %d", 1) }, skip: 1},
		{name: ".Join", mk: func(d int) error { return errors.Join(leafErr, leafErr) }},
		{name: ".JoinWithDepth", hasDepth: true, mk: func(d int) error { return errors.JoinWithDepth(d, leafErr, leafErr) }},
		{name: ".PackageDomain", dom: func(d int) errors.Domain { return errors.PackageDomain() }},
		{name: ".PackageDomainAtDepth", hasDepth: true, dom: func(d int) errors.Domain { return errors.PackageDomainAtDepth(d) }},

		{name: "errutil.New", mk: func(d int) error { return errutil.New("m") }},
		{name: "errutil.Newf", mk: func(d int) error { return errutil.Newf("m %d", 1) }},
		{name: "errutil.NewWithDepth", hasDepth: true, mk: func(d int) error { return errutil.NewWithDepth(d, "m") }},
		{name: "errutil.NewWithDepthf", hasDepth: true, mk: func(d int) error { return errutil.NewWithDepthf(d, "m %d", 1) }},
		{name: "errutil.Wrap", mk: func(d int) error { return errutil.Wrap(leafErr, "m") }},
		{name: "errutil.Wrap", mk: func(d int) error { return errutil.Wrap(leafErr, "") }},
		{name: "errutil.Wrapf", mk: func(d int) error { return errutil.Wrapf(leafErr, "m %d", 1) }},
		{name: "errutil.WrapWithDepth", hasDepth: true, mk: func(d int) error { return errutil.WrapWithDepth(d, leafErr, "m") }},
		{name: "errutil.WrapWithDepth", hasDepth: true, mk: func(d int) error { return errutil.WrapWithDepth(d, leafErr, "") }},
		{name: "errutil.WrapWithDepthf", hasDepth: true, mk: func(d int) error { return errutil.WrapWithDepthf(d, leafErr, "m %d", 1) }},
		{name: "errutil.WrapWithDepthf", hasDepth: true, mk: func(d int) error { return errutil.WrapWithDepthf(d, leafErr, "") }},
		{name: "errutil.AssertionFailedf", mk: func(d int) error { return errutil.AssertionFailedf("m %d", 1) }, skip: 1},
		{name: "errutil.AssertionFailedWithDepthf", hasDepth: true, mk: func(d int) error { return errutil.AssertionFailedWithDepthf(d, "m %d", 1) }, skip: 1},
		{name: "errutil.HandleAsAssertionFailure", mk: func(d int) error { return errutil.HandleAsAssertionFailure(leafErr) }, skip: 1},
		{name: "errutil.HandleAsAssertionFailureDepth", hasDepth: true, mk: func(d int) error { return errutil.HandleAsAssertionFailureDepth(d, leafErr) }, skip: 1},
		{name: "errutil.NewAssertionErrorWithWrappedErrf", mk: func(d int) error { return errutil.NewAssertionErrorWithWrappedErrf(leafErr, "m %d", 1) }, skip: 1},
		{name: "errutil.NewAssertionErrorWithWrappedErrDepthf", hasDepth: true, mk: func(d int) error { return errutil.NewAssertionErrorWithWrappedErrDepthf(d, leafErr, "m %d", 1) }, skip: 1},
		{name: "errutil.JoinWithDepth", hasDepth: true, mk: func(d int) error { return errutil.JoinWithDepth(d, leafErr, leafErr) }},

		{name: "withstack.WithStack", mk: func(d int) error { return withstack.WithStack(leafErr) }},
		{name: "withstack.WithStackDepth", hasDepth: true, mk: func(d int) error { return withstack.WithStackDepth(leafErr, d) }},

		{name: "domains.PackageDomain", dom: func(d int) errors.Domain { return domains.PackageDomain() }},
		{name: "domains.PackageDomainAtDepth", hasDepth: true, dom: func(d int) errors.Domain { return domains.PackageDomainAtDepth(d) }},
		{name: "domains.New", dom: func(d int) errors.Domain { return domains.GetDomain(domains.New("m")) }},
		{name: "domains.Handled", dom: func(d int) errors.Domain { return domains.GetDomain(domains.Handled(leafErr)) }},
	}
}

// the chain: dp3.Call -> dp2.Call -> dp1.Call -> lvl0 (package main) -> the constructor.
// With depth d the expected frame is lvl0, dp1.Call, dp2.Call, dp3.Call for d = 0..3.
//
//go:noinline
func lvl0(e depthEntry, d int) interface{} {
	// reference: the frames above the closure that calls the constructor
	// (frame 0 = lvl0 itself, the closure's caller)
	var pcs [32]uintptr
	n := runtime.Callers(1, pcs[:])
	refStack = refStack[:0]
	fr := runtime.CallersFrames(pcs[:n])
	for {
		f, more := fr.Next()
		refStack = append(refStack, Frame{Fn: f.Function, File: f.File, Line: f.Line})
		if !more {
			break
		}
	}
	if e.mk != nil {
		r := e.mk(d)
		return r
	}
	r := e.dom(d)
	return r
}

var refStack []Frame

func runChain(e depthEntry, d int) interface{} {
	return dp3.Call(func() interface{} {
		return dp2.Call(func() interface{} {
			return dp1.Call(func() interface{} {
				return lvl0(e, d)
			})
		})
	})
}

func cmdDepth(args []string) {
	outdir := args[0]
	entriesJSON := args[1]
	os.MkdirAll(outdir, 0o755)
	var want []struct {
		Name     string `json:"name"`
		HasDepth bool   `json:"has_depth"`
	}
	raw, _ := os.ReadFile(entriesJSON)
	json.Unmarshal(raw, &want)
	entries := depthEntries()
	var fails []OracleFail
	evals := 0
	fail := func(id, what, detail string) {
		fails = append(fails, OracleFail{Prop: "C16", CaseID: id, Oracle: "C16", What: what, Detail: detail,
			Recipe: id, ReplayArgs: map[string]interface{}{"prop": "C16", "case": id}})
	}
	// completeness: every function the property names (as found in the source) is exercised
	covered := map[string]bool{}
	for _, e := range entries {
		covered[e.name] = true
	}
	for _, w := range want {
		if !isC16Entry(w.Name) {
			continue
		}
		if !covered[w.Name] {
			fail("coverage-"+w.Name, "exported stack-capturing function "+w.Name+" is not exercised by the harness (new function in the source?)", "")
		}
	}
	// the closures passed to the chain are themselves frames between lvl0 and the
	// constructor? No: e.mk is called by lvl0 through a func value, so the
	// constructor's caller is the closure e.mk.  Expected frame for d = 0 is that
	// closure; for d = k >= 1 it is the (k-1)-th function above it: lvl0, dp1.Call, dp2.Call.
	var samples []string
	for idx, e := range entries {
		maxd := 0
		if e.hasDepth {
			maxd = 3
		}
		for d := 0; d <= maxd; d++ {
			id := fmt.Sprintf("%s#%d-d%d", e.name, idx, d)
			evals++
			var closurePC uintptr
			if e.mk != nil {
				closurePC = reflect.ValueOf(e.mk).Pointer()
			} else {
				closurePC = reflect.ValueOf(e.dom).Pointer()
			}
			closureName := runtime.FuncForPC(closurePC).Name()
			closureFile, _ := runtime.FuncForPC(closurePC).FileLine(closurePC)
			res := runChain(e, d)
			// depth 0: the closure that calls the constructor; depth k: the (k-1)-th frame above it
			expectFn, expectFile := closureName, closureFile
			if d > 0 {
				expectFn, expectFile = refStack[d-1].Fn, refStack[d-1].File
			}
			expectPkg := filepath.Dir(expectFile)
			if e.mk != nil {
				err, _ := res.(error)
				if err == nil {
					fail(id, "constructor returned nil", "")
					continue
				}
				layer := err
				for i := 0; i < e.skip; i++ {
					layer = errors.UnwrapOnce(layer)
				}
				sp, ok := layer.(errbase.StackTraceProvider)
				if !ok {
					fail(id, fmt.Sprintf("no stack trace on the expected layer (%T)", layer), "")
					continue
				}
				fr := framesOf(sp.StackTrace())
				if len(fr) == 0 {
					fail(id, "empty stack trace", "")
					continue
				}
				if fr[0].Fn != expectFn {
					fail(id, fmt.Sprintf("first frame of the stack captured by %s (depth %d) is %s, expected the caller %s", e.name, d, fr[0].Fn, expectFn), "")
					continue
				}
				// GetOneLineSource reports file, line and function of the innermost such frame
				f, l, fn, ok := withstack.GetOneLineSource(err)
				short := expectFn[strings.LastIndex(expectFn, ".")+1:]
				if strings.Contains(expectFn, ".func") {
					short = expectFn[strings.LastIndex(expectFn[:strings.LastIndex(expectFn, ".func")], ".")+1:]
					// functionName() keeps what follows the last dot only
					short = expectFn[strings.LastIndex(expectFn, ".")+1:]
				}
				if !ok || f != filepath.Base(fr[0].File) || l != fr[0].Line || fn != short {
					fail(id, fmt.Sprintf("GetOneLineSource = (%s, %d, %s, %v), first frame is (%s, %d, %s)", f, l, fn, ok, filepath.Base(fr[0].File), fr[0].Line, short), "")
					continue
				}
				if len(samples) < 6 {
					samples = append(samples, fmt.Sprintf("%s depth %d -> first frame %s", e.name, d, fr[0].Fn))
				}
			} else {
				dom, _ := res.(errors.Domain)
				want := errors.Domain("error domain: pkg " + expectPkg)
				if e.name == ".PackageDomain" || strings.HasPrefix(e.name, "domains.") || e.name == ".PackageDomainAtDepth" {
					if dom != want {
						fail(id, fmt.Sprintf("%s (depth %d) denotes %q, expected the caller's package %q", e.name, d, dom, want), "")
						continue
					}
				}
				if len(samples) < 8 {
					samples = append(samples, fmt.Sprintf("%s depth %d -> %s", e.name, d, dom))
				}
			}
		}
	}
	// the same domain functions called from several packages in turn: each must
	// denote ITS caller (a result remembered from an earlier caller would show here)
	_, thisFile, _, _ := runtime.Caller(0)
	harnessDir := filepath.Dir(filepath.Dir(filepath.Dir(thisFile)))
	for round := 0; round < 2; round++ {
		for pi, fns := range [][]func() string{
			{dp1.PkgDomain, dp1.NewDomain, func() string { return dp1.HandledDomain(leafErr) }, dp1.RootPkgDomain, dp1.AtDepth0},
			{dp2.PkgDomain, dp2.NewDomain, func() string { return dp2.HandledDomain(leafErr) }, dp2.RootPkgDomain, dp2.AtDepth0},
			{dp3.PkgDomain, dp3.NewDomain, func() string { return dp3.HandledDomain(leafErr) }, dp3.RootPkgDomain, dp3.AtDepth0},
		} {
			want := "error domain: pkg " + filepath.Join(harnessDir, fmt.Sprintf("dp%d", pi+1))
			for fi, f := range fns {
				evals++
				if got := f(); got != want {
					fail(fmt.Sprintf("domain-from-dp%d-%d-round%d", pi+1, fi, round),
						fmt.Sprintf("a domain function called from package dp%d denotes %q, expected that package (%q)", pi+1, got, want), "")
				}
			}
		}
	}
	// an error that another package already handled into ITS domain: handling it again denotes the
	// package that does so now (nothing is taken over from the earlier barrier)
	for pi, hd := range []func(error) string{dp1.HandledDomain, dp2.HandledDomain, dp3.HandledDomain} {
		for qi, h := range []func(error) error{dp1.Handled, dp2.Handled, dp3.Handled} {
			evals++
			want := "error domain: pkg " + filepath.Join(harnessDir, fmt.Sprintf("dp%d", pi+1))
			if got := hd(h(leafErr)); got != want {
				fail(fmt.Sprintf("rehandled-dp%d-over-dp%d", pi+1, qi+1),
					fmt.Sprintf("domains.Handled called from package dp%d on an error already handled by dp%d denotes %q, expected the caller (%q)", pi+1, qi+1, got, want), "")
			}
			evals++
			if got := hd(errors.WithDomain(leafErr, errors.Domain("error domain: \"other\""))); got != want {
				fail(fmt.Sprintf("handled-dp%d-over-domain", pi+1),
					fmt.Sprintf("domains.Handled called from package dp%d on an error with a domain of its own denotes %q, expected the caller (%q)", pi+1, got, want), "")
			}
		}
	}
	// GetOneLineSource names the innermost stack-capturing frame, whichever layers were added on
	// top, whether the layers are local or were received from another process, and however
	// deep the call was made
	src := func(e error) string {
		f, l, fn, ok := withstack.GetOneLineSource(e)
		return fmt.Sprintf("%s:%d %s %v", f, l, fn, ok)
	}
	firstFrame := func(e error) string {
		for c := e; c != nil; c = errors.UnwrapOnce(c) {
			// the stack of the layer that created the error (errors.New = a stack layer over a leaf)
			if st := withstack.GetReportableStackTrace(c); st != nil && len(st.Frames) > 0 && errors.UnwrapOnce(errors.UnwrapOnce(c)) == nil {
				// sentry order: innermost call last
				fr := st.Frames[len(st.Frames)-1]
				return fmt.Sprintf("%s:%d %s", filepath.Base(fr.Filename), fr.Lineno, fr.Function)
			}
		}
		return "none"
	}
	// a barrier hides the stack of what it hides: the constructors that handle an error AND capture a stack name
	// their own caller, not the place where the hidden error was made
	for name, mk := range map[string]func(error) error{"HandleAsAssertionFailure": c16HandleHere, "NewAssertionErrorWithWrappedErrf": c16AssertWrappedHere} {
		evals++
		e := mk(c16Origin())
		cur := e
		for hop := 0; hop <= 2; hop++ {
			if hop > 0 {
				cur = transferOnce(cur, nil)
			}
			if got := src(cur); !strings.Contains(got, "c16"+map[string]string{"HandleAsAssertionFailure": "HandleHere", "NewAssertionErrorWithWrappedErrf": "AssertWrappedHere"}[name]+" true") {
				fail("barrier-source-"+name, fmt.Sprintf("GetOneLineSource of %s(err) after %d hop(s) is %q, expected the function that called the constructor (the hidden error's own stack is behind the barrier)", name, hop, got), "")
				break
			}
		}
	}
	// an error made in an outer frame and handed DOWN to where a stack is added: both records are kept, the
	// innermost one is where the error was made
	for name, mk := range map[string]func() error{"WithStack": c16PassDownStack, "WithStackDepth(1)": c16PassDownDepth, "Wrap(err, \"\")": c16PassDownWrapEmpty} {
		evals++
		e := mk()
		nst := 0
		for c := e; c != nil; c = errors.UnwrapOnce(c) {
			if withstack.GetReportableStackTrace(c) != nil {
				nst++
			}
		}
		if got := src(e); nst != 2 || !strings.Contains(got, "c16PassDown") || strings.Contains(got, "c16Low") {
			fail("passed-down-"+name, fmt.Sprintf("an error made by errors.New in an outer frame and given to %s two calls further down has %d stack layers (expected 2) and one-line source %q (expected the frame that made it)", name, nst, got), "")
		}
	}
	for _, depth := range []int{0, 3, 9, 15, 16, 17, 24, 40} {
		id := fmt.Sprintf("innermost-depth%d", depth)
		evals++
		e := c16Recurse(depth, c16Origin)
		want := src(e)
		if !strings.Contains(want, "c16Origin true") {
			fail(id, "GetOneLineSource of a fresh error does not name the function that created it: "+want, "")
			continue
		}
		ff := firstFrame(e)
		cur := e
		for hop := 1; hop <= 2; hop++ {
			cur = transferOnce(cur, nil)
			if got := src(cur); got != want {
				fail(id, fmt.Sprintf("GetOneLineSource after %d hop(s) is %q, at the origin it was %q (constructor called %d frames deep)", hop, got, want, depth), "")
				break
			}
			if got := firstFrame(cur); got != ff {
				fail(id, fmt.Sprintf("innermost reportable frame after %d hop(s) is %q, at the origin %q (constructor called %d frames deep)", hop, got, ff, depth), "")
				break
			}
			for wi, w := range []error{c16WrapLocally(cur), c16StackLocally(cur), c16WrapLocally(c16StackLocally(cur))} {
				evals++
				if got := src(w); got != want {
					fail(fmt.Sprintf("%s-hop%d-localwrap%d", id, hop, wi), fmt.Sprintf("GetOneLineSource of a local stack-capturing wrapper over a received error is %q, the innermost frame is %q", got, want), "")
					break
				}
			}
		}
		// also through wrappers that expose their cause by Cause() only, by Unwrap() only, or
		// that are not comparable
		for wi, w := range []error{c16WrapLocally(e), c16StackLocally(e),
			c16WrapLocally(&ut.WCause{Msg: "legacy", Err: e}), c16StackLocally(&ut.WUnwrap{Msg: "std", Err: c16WrapLocally(e)}),
			c16WrapLocally(ut.WNoCmp{Msg: "v", Err: &ut.WCause{Msg: "legacy", Err: e}, Junk: []int{1}})} {
			evals++
			if got := src(w); got != want {
				fail(fmt.Sprintf("%s-localwrap%d", id, wi), fmt.Sprintf("GetOneLineSource of a wrapper is %q, the innermost frame is %q", got, want), "")
			}
		}
	}
	// a constructor given a cause that already has a stack (%w) still records ITS caller
	outermostStackFn := func(e error) string {
		for c := e; c != nil; c = errors.UnwrapOnce(c) {
			if sp, ok := c.(errbase.StackTraceProvider); ok {
				fr := framesOf(sp.StackTrace())
				if len(fr) > 0 {
					return fr[0].Fn
				}
			}
		}
		return "none"
	}
	for ri, relabel := range []func(error) error{c16RelabelNewf, c16RelabelAssert, c16RelabelWrapf} {
		evals++
		want := []string{"c16RelabelNewf", "c16RelabelAssert", "c16RelabelWrapf"}[ri]
		for ci, cause := range []error{c16Origin(), c16StackLocally(goerr.New("plain")), pkgerr.New("pkg")} {
			if got := outermostStackFn(relabel(cause)); !strings.HasSuffix(got, "."+want) {
				fail(fmt.Sprintf("relabel-%d-%d", ri, ci), fmt.Sprintf("the outermost stack recorded by a constructor wrapping (%%w) a cause that already has a stack starts in %s, expected its caller %s", got, want), "")
			}
		}
	}
	// long chains: the innermost frame, however many layers were added on top
	for _, layers := range []int{8, 9, 12, 17, 30} {
		evals++
		e := c16Origin()
		want := src(e)
		var w error = e
		for i := 0; i < layers; i++ {
			if i%2 == 0 {
				w = errors.Wrapf(w, "layer %d", i)
			} else {
				w = errors.WithHint(w, "h")
			}
		}
		for hop := 0; hop <= 1; hop++ {
			if hop == 1 {
				w = transferOnce(w, nil)
			}
			if got := src(w); got != want {
				fail(fmt.Sprintf("long-chain-%d-hop%d", layers, hop), fmt.Sprintf("GetOneLineSource below %d added layers is %q, the innermost frame is %q", layers, got, want), "")
				break
			}
		}
		var hints error = goerr.New("no stack at all")
		for i := 0; i < layers+8; i++ {
			hints = errors.WithHint(hints, "h")
		}
		if got := src(c16StackLocally(hints)); !strings.Contains(got, "c16StackLocally true") {
			fail(fmt.Sprintf("long-hints-%d", layers), "GetOneLineSource of a stack layer above many annotation layers: "+got, "")
		}
	}
	// unusual symbol and file names
	for _, tc := range []struct {
		id   string
		mk   func() error
		want string
	}{
		{"generic-method", func() error { return (&c16Box[int]{}).fail() }, "c16line.go:11 fail true"},
		{"generic-closure", func() error { return c16Validate("x") }, "c16line.go:15 func1 true"},
		{"path-with-space", c16SpacedPath, "ledger.go:101 c16SpacedPath true"},
	} {
		evals++
		e := tc.mk()
		cur := e
		for hop := 0; hop <= 2; hop++ {
			if hop > 0 {
				cur = transferOnce(cur, nil)
			}
			if got := src(cur); got != tc.want {
				fail("source-"+tc.id, fmt.Sprintf("GetOneLineSource after %d hop(s) is %q, expected %q", hop, got, tc.want), "")
				break
			}
		}
	}
	names := map[string]bool{}
	for _, e := range entries {
		names[e.name] = true
	}
	var nl []string
	for n := range names {
		nl = append(nl, n)
	}
	sort.Strings(nl)
	meta := map[string]interface{}{"prop": "C16", "cases": evals, "distinct_nontrivial": evals, "ops": map[string]int{"functions": len(nl), "call-sites": len(entries)},
		"depth_hist": map[string]int{}, "samples": samples, "oracle_failures": fails, "oracle_evaluations": evals}
	mb, _ := json.MarshalIndent(meta, "", " ")
	os.WriteFile(filepath.Join(outdir, "meta.json"), mb, 0o644)
	fmt.Printf("C16: %d function x depth cases, %d failures\n", evals, len(fails))
}

// mirrors Model/Depth.v is_entry: the constructors and domain functions the property names
func isC16Entry(name string) bool {
	i := strings.LastIndex(name, ".")
	pkg, base := name[:i], name[i+1:]
	okPkg := pkg == "" || pkg == "errutil" || pkg == "withstack" || pkg == "domains"
	if !okPkg || base == "" || !(base[0] >= 'A' && base[0] <= 'Z') {
		return false
	}
	for _, p := range []string{"New", "Errorf", "Wrap", "WithStack", "AssertionFailed", "HandleAsAssertionFailure", "Join", "PackageDomain", "Handled"} {
		if strings.HasPrefix(base, p) {
			return true
		}
	}
	return false
}

//go:noinline
func c16Origin() error { return errors.New("origin") }

//go:noinline
func c16Recurse(n int, f func() error) error {
	if n <= 0 {
		return f()
	}
	e := c16Recurse(n-1, f)
	return e
}

//go:noinline
func c16WrapLocally(e error) error { return errors.Wrap(e, "local") }

//go:noinline
func c16StackLocally(e error) error { return errors.WithStack(e) }

//go:noinline
func c16RelabelNewf(cause error) error { return errors.Newf("relabel: %w", cause) }

//go:noinline
func c16RelabelAssert(cause error) error { return errors.AssertionFailedf("relabel: %w", cause) }

//go:noinline
func c16RelabelWrapf(cause error) error { return errors.Wrapf(cause, "relabel %d", 1) }

//go:noinline
func c16HandleHere(e error) error { return errors.HandleAsAssertionFailure(e) }

//go:noinline
func c16AssertWrappedHere(e error) error {
	return errors.NewAssertionErrorWithWrappedErrf(e, "wrapped %d", 1)
}

//go:noinline
func c16PassDownStack() error { e := errors.New("made at the top"); return c16Mid(e, 0) }

//go:noinline
func c16PassDownDepth() error { e := errors.New("made at the top"); return c16Mid(e, 1) }

//go:noinline
func c16PassDownWrapEmpty() error { e := errors.New("made at the top"); return c16Mid(e, 2) }

//go:noinline
func c16Mid(e error, how int) error { r := c16Low(e, how); return r }

//go:noinline
func c16Low(e error, how int) error {
	switch how {
	case 0:
		return errors.WithStack(e)
	case 1:
		return errors.WithStackDepth(e, 1)
	default:
		return errors.Wrap(e, "")
	}
}
