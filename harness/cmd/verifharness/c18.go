package main

// C18: many goroutines run every observer on the same error value; the binary
// is built with -race, so the race detector is the search for conflicting
// accesses, and each goroutine's results are compared with the solo run.

import (
	"crypto/sha256"
	"encoding/json"
	"flag"
	"fmt"
	"os"
	"path/filepath"
	"runtime"
	"sync"

	"github.com/cockroachdb/errors"
	"github.com/cockroachdb/errors/report"
	"github.com/cockroachdb/redact"
)

func observeAll(e error, refs []error, yield bool) string {
	h := sha256.New()
	w := func(s string) {
		h.Write([]byte(s))
		h.Write([]byte{0})
		if yield {
			runtime.Gosched()
		}
	}
	w(e.Error())
	w(fmt.Sprintf("%v", e))
	w(fmt.Sprintf("%+v", e))
	w(fmt.Sprintf("%+v", errors.Formattable(e)))
	w(string(redact.Sprint(e)))
	w(string(redact.Sprintf("%+v", e).Redact()))
	w(string(marshalEnc(e)))
	for _, r := range refs {
		w(fmt.Sprint(errors.Is(e, r)))
	}
	w(fmt.Sprint(errors.IsAny(e, refs...)))
	// a search that finds nothing walks the whole chain, Mark layers included
	var none []error
	for _, r := range refs {
		if r != nil && !errors.Is(e, r) {
			none = append(none, r)
		}
	}
	none = append(none, neverRef, neverWrapped)
	w(fmt.Sprint(errors.IsAny(e, none...)))
	w(fmt.Sprint(errors.IsAny(e, neverWrapped, neverRef)))
	for _, t := range asTypeTargets {
		w(asTarget(e, "type", t).String())
	}
	for _, t := range asIfaceTargets {
		w(asTarget(e, "iface", t).String())
	}
	for _, p := range errors.GetAllSafeDetails(e) {
		w(fmt.Sprint(p.OriginalTypeName, p.ErrorTypeMark, p.SafeDetails))
	}
	w(fmt.Sprint(errors.GetAllHints(e), errors.GetAllDetails(e), errors.FlattenHints(e), errors.FlattenDetails(e)))
	w(accVec(e, true).String())
	ev, extras := report.BuildSentryReport(e)
	w(ev.Message)
	for _, ex := range ev.Exception {
		w(ex.Type + ex.Value + ex.Module)
		if ex.Stacktrace != nil {
			w(fmt.Sprint(len(ex.Stacktrace.Frames)))
		}
	}
	w(fmt.Sprint(extras["error types"]))
	// the event is the caller's: what it holds besides the message and the exceptions is what a fresh event holds,
	// and decorating it (as ReportError does before sending) is nobody else's business
	w(fmt.Sprint(len(ev.Tags), len(ev.Extra), len(ev.Contexts), len(ev.Modules), len(ev.Fingerprint), len(ev.Breadcrumbs)))
	if ev.Tags != nil {
		ev.Tags["verif"] = "decorated"
	}
	if ev.Extra != nil {
		ev.Extra["verif"] = 1
	}
	return fmt.Sprintf("%x", h.Sum(nil))
}

func cmdRace(args []string) {
	fl := flag.NewFlagSet("race", flag.ExitOnError)
	seed := fl.Uint64("seed", 1, "seed")
	n := fl.Int("n", 100, "number of trees")
	out := fl.String("out", "", "output directory")
	fl.Parse(args)
	os.MkdirAll(*out, 0o755)
	g := NewGen(*seed)
	g.MaxSize = 14
	var fails []OracleFail
	evals := 0
	var samples []string
	const workers = 16
	// every wrapper / leaf / multi kind at least once (over a few leaves), then random trees
	var corpus []*R
	seenKind := map[string]bool{}
	for _, r := range enumPairs(g) {
		k := r.Op
		if r.Op == "uwrap" || r.Op == "uleaf" {
			k += r.S[0]
		}
		if !seenKind[k] {
			seenKind[k] = true
			corpus = append(corpus, r)
		}
	}
	for i := 0; i < *n; i++ {
		corpus = append(corpus, g.Tree(1+g.r.intn(4)))
	}
	for i, r := range corpus {
		var e error
		var refs []error
		func() {
			defer func() { recover() }()
			ctx := &BuildCtx{}
			e = r.Build(ctx)
			for _, rf := range sentRefs() {
				refs = append(refs, rf.Build(ctx, e))
			}
			if e != nil {
				refs = append(refs, e, errors.UnwrapOnce(e))
			}
		}()
		if e == nil {
			continue
		}
		r.CountOps(g.Stats)
		// the local error is observed concurrently BEFORE anything else touches it
		// (encoding it for the decoded variants would fill a lazily computed field)
		type target struct {
			name string
			mk   func() error
		}
		targets := []target{{"local", func() error { return e }}, {"decoded", func() error { return transferOnce(e, nil) }}}
		if i%3 == 0 {
			unk := g.proc(1)
			targets = append(targets, target{"opaque", func() error { return transferOnce(e, unk) }})
		}
		for _, tgt := range targets {
			tg := struct {
				name string
				e    error
			}{tgt.name, tgt.mk()}
			// concurrent first: a lazily filled cache would be raced on its first use
			for _, procs := range []int{16, 2} {
				old := runtime.GOMAXPROCS(procs)
				results := make([]string, workers)
				var wg sync.WaitGroup
				start := make(chan struct{})
				for k := 0; k < workers; k++ {
					wg.Add(1)
					go func(k int) {
						defer wg.Done()
						defer func() {
							if p := recover(); p != nil {
								results[k] = fmt.Sprint("panic: ", p)
							}
						}()
						<-start
						results[k] = observeAll(tg.e, refs, k%2 == 0)
					}(k)
				}
				close(start)
				wg.Wait()
				runtime.GOMAXPROCS(old)
				solo := observeAll(tg.e, refs, false)
				evals += workers
				for k, res := range results {
					if res != solo {
						fails = append(fails, OracleFail{Prop: "C18", CaseID: fmt.Sprintf("C18-%d-%s", i, tg.name), Oracle: "C18",
							What:   fmt.Sprintf("goroutine %d of %d observing the shared %s error concurrently got a result different from the solo run (GOMAXPROCS %d)", k, workers, tg.name, procs),
							Recipe: r.Sx().String(), Detail: res + " vs " + solo,
							ReplayArgs: map[string]interface{}{"prop": "C18", "recipe": r.Sx().String(), "seed": *seed}})
						break
					}
				}
			}
		}
		if len(samples) < 5 {
			s := r.Sx().String()
			if len(s) > 300 {
				s = s[:300] + "..."
			}
			samples = append(samples, s)
		}
	}
	meta := map[string]interface{}{"prop": "C18", "cases": evals, "distinct_nontrivial": *n, "ops": g.Stats,
		"depth_hist": map[string]int{}, "samples": samples, "oracle_failures": fails, "oracle_evaluations": evals}
	if fails == nil {
		meta["oracle_failures"] = []OracleFail{}
	}
	mb, _ := json.MarshalIndent(meta, "", " ")
	os.WriteFile(filepath.Join(*out, "meta.json"), mb, 0o644)
	fmt.Printf("C18: %d concurrent observer runs, %d result differences\n", evals, len(fails))
}

var neverRef = errors.New("never matches anything")
var neverWrapped = errors.WithHint(errors.WithDomain(errors.Newf("never %d", 1), errors.NamedDomain("never")), "h")
