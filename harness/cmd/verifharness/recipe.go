package main

import (
	"context"
	goerr "errors"
	"fmt"
	"io/fs"
	"net"
	"os"
	"runtime"
	"strings"
	"syscall"

	"github.com/cockroachdb/errors"
	"github.com/cockroachdb/errors/barriers"
	"github.com/cockroachdb/errors/errbase"
	"github.com/cockroachdb/errors/errorspb"
	"github.com/cockroachdb/errors/extgrpc"
	"github.com/cockroachdb/errors/exthttp"
	"github.com/cockroachdb/logtags"
	"github.com/cockroachdb/redact"
	"github.com/gogo/protobuf/proto"
	"github.com/gogo/protobuf/types"
	gogostatus "github.com/gogo/status"
	pkgerr "github.com/pkg/errors"
	"google.golang.org/grpc/codes"
	grpcstatus "google.golang.org/grpc/status"

	"verifharness/ut"
)

// FP is one piece of a format call.
type FP struct {
	Kind string // lit str safestr int safeint err
	Verb string // s v d w +v
	S    string
	I    int64
	R    *R
}

// TagKV is one logtags tag.
type TagKV struct {
	K    string
	Kind string // nil str int safe
	V    string
}

// R is a recipe: a program that builds an error through the public API.
type R struct {
	Op    string
	S     []string // string arguments in order
	I     []int64  // integer arguments in order
	Kids  []*R     // error arguments in order
	Fmt   []FP
	Tags  []TagKV
	Strs  []string   // list-of-strings argument (keys, details)
	Procs [][]string // transfer: unknown keys per process
}

func fmtSx(f []FP) Sx {
	out := L()
	for _, p := range f {
		switch p.Kind {
		case "lit":
			out.List = append(out.List, L(Sym("lit"), A(p.S)))
		case "str", "safestr":
			out.List = append(out.List, L(Sym(p.Kind), Sym(p.Verb), A(p.S)))
		case "int", "safeint":
			out.List = append(out.List, L(Sym(p.Kind), Sym(p.Verb), N(p.I)))
		case "err":
			out.List = append(out.List, L(Sym("err"), Sym(p.Verb), p.R.Sx()))
		case "xstr", "xsafestr":
			out.List = append(out.List, L(Sym(p.Kind), Sym("s"), A(p.S)))
		case "xint":
			out.List = append(out.List, L(Sym(p.Kind), Sym("s"), N(p.I)))
		default:
			panic("bad piece kind " + p.Kind)
		}
	}
	return out
}

func procsSx(ps [][]string) Sx {
	out := L()
	for _, p := range ps {
		out.List = append(out.List, Strs(p))
	}
	return out
}

// Sx prints the recipe in the syntax Model/Parse.v reads.
func (r *R) Sx() Sx {
	k := func(i int) Sx { return r.Kids[i].Sx() }
	s := func(i int) Sx { return A(r.S[i]) }
	switch r.Op {
	case "nil", "testerror":
		return L(Sym(r.Op))
	case "sentinel":
		return L(Sym(r.Op), N(r.I[0]))
	case "stdnew", "new", "pkgnew":
		return L(Sym(r.Op), s(0))
	case "newf", "assertf", "fmterrorf":
		return L(Sym(r.Op), fmtSx(r.Fmt))
	case "errno", "foreignerrno":
		return L(Sym(r.Op), N(r.I[0]))
	case "unimpl":
		return L(Sym(r.Op), s(0), s(1), s(2))
	case "grpcstatus", "gogostatus":
		return L(Sym(r.Op), N(r.I[0]), s(0))
	case "uleaf":
		return L(Sym(r.Op), Sym(r.S[0]), s(1), N(r.I[0]), Strs(r.Strs))
	case "wrap", "withmessage", "hint", "detail", "domain", "handledmsg", "handledindomain", "pkgmsg", "syscallerror":
		return L(Sym(r.Op), k(0), s(0))
	case "wrapf", "withmessagef", "safedetails", "handledmsgf", "newassertwrapped", "hintf", "detailf":
		return L(Sym(r.Op), k(0), fmtSx(r.Fmt))
	case "withstack", "assert", "handled", "handleassert", "pkgstack":
		return L(Sym(r.Op), k(0))
	case "issuelink", "handledindomainmsg", "patherror":
		return L(Sym(r.Op), k(0), s(0), s(1))
	case "linkerror":
		return L(Sym(r.Op), k(0), s(0), s(1), s(2))
	case "operror":
		return L(Sym(r.Op), k(0), s(0), s(1), s(2), s(3))
	case "telemetry":
		return L(Sym(r.Op), k(0), Strs(r.Strs))
	case "tags":
		ts := L()
		for _, t := range r.Tags {
			ts.List = append(ts.List, L(A(t.K), Sym(t.Kind), A(t.V)))
		}
		return L(Sym(r.Op), k(0), ts)
	case "mark", "secondary", "combine":
		return L(Sym(r.Op), k(0), k(1))
	case "http", "grpc":
		return L(Sym(r.Op), k(0), N(r.I[0]))
	case "join", "stdjoin":
		ks := L()
		for i := range r.Kids {
			ks.List = append(ks.List, k(i))
		}
		return L(Sym(r.Op), ks)
	case "uwrap":
		return L(Sym(r.Op), Sym(r.S[0]), k(0), s(1), Strs(r.Strs))
	case "transfer":
		return L(Sym(r.Op), k(0), procsSx(r.Procs))
	}
	panic("Sx: unknown op " + r.Op)
}

// Frame is what the model needs to know about a captured stack frame.
type Frame struct {
	PC   uint64
	Fn   string
	File string
	Line int
}

// BuildCtx records the stacks captured while building, in capture order.
type BuildCtx struct {
	Stacks [][]Frame
}

func (c *BuildCtx) StacksSx() Sx {
	out := L()
	for _, st := range c.Stacks {
		s := L()
		for _, f := range st {
			s.List = append(s.List, L(U(f.PC), A(f.Fn), A(f.File), N(int64(f.Line))))
		}
		out.List = append(out.List, s)
	}
	return out
}

func framesOf(st errbase.StackTrace) []Frame {
	out := make([]Frame, 0, len(st))
	for _, f := range st {
		pc := uintptr(f) - 1
		fn := runtime.FuncForPC(pc)
		fr := Frame{PC: uint64(uintptr(f)), Fn: "unknown", File: "unknown", Line: 0}
		if fn != nil {
			fr.Fn = fn.Name()
			fr.File, fr.Line = fn.FileLine(pc)
		}
		out = append(out, fr)
	}
	return out
}

// record the stack of the layer found [skip] unwraps below the top of err
func (c *BuildCtx) record(err error, skip int) {
	if err == nil {
		return
	}
	e := err
	for i := 0; i < skip; i++ {
		e = errors.UnwrapOnce(e)
	}
	sp, ok := e.(errbase.StackTraceProvider)
	if !ok {
		panic(fmt.Sprintf("record: %T is not a StackTraceProvider (skip %d of %T)", e, skip, err))
	}
	c.Stacks = append(c.Stacks, framesOf(sp.StackTrace()))
}

// Sentinels, in the numbering of Model/Err.v.
var sentinels = []error{
	context.Canceled, context.DeadlineExceeded, os.ErrInvalid, os.ErrPermission, os.ErrExist,
	os.ErrNotExist, os.ErrClosed, os.ErrNoDeadline, ioEOF, ioUnexpectedEOF,
}

func fmtArgs(c *BuildCtx, f []FP) (string, []interface{}) {
	var b strings.Builder
	var args []interface{}
	for _, p := range f {
		switch p.Kind {
		case "lit":
			b.WriteString(strings.ReplaceAll(p.S, "%", "%%"))
			continue
		}
		// arguments without a verb
		switch p.Kind {
		case "xstr":
			args = append(args, p.S)
			continue
		case "xsafestr":
			args = append(args, redact.Safe(p.S))
			continue
		case "xint":
			args = append(args, int(p.I))
			continue
		}
		b.WriteString("%" + p.Verb)
		switch p.Kind {
		case "str":
			args = append(args, p.S)
		case "safestr":
			args = append(args, redact.Safe(p.S))
		case "int":
			args = append(args, int(p.I))
		case "safeint":
			args = append(args, redact.Safe(int(p.I)))
		case "err":
			args = append(args, p.R.Build(c))
		}
	}
	return b.String(), args
}

func transferOnce(e error, unknown []string) error {
	ctx := context.Background()
	enc := errors.EncodeError(ctx, e)
	bs, err := proto.Marshal(&enc)
	if err != nil {
		panic(err)
	}
	var dec errorspb.EncodedError
	if err := proto.Unmarshal(bs, &dec); err != nil {
		panic(err)
	}
	restore := errbase.VerifWithoutTypes(unknown)
	defer restore()
	return errors.DecodeError(ctx, dec)
}

func transfer(e error, procs [][]string) error {
	for _, p := range procs {
		if e == nil {
			return nil
		}
		e = transferOnce(e, p)
	}
	return e
}

// Build runs the recipe against the real library.
//
//go:noinline
func (r *R) Build(c *BuildCtx) error {
	kid := func(i int) error { return r.Kids[i].Build(c) }
	switch r.Op {
	case "nil":
		return nil
	case "sentinel":
		return sentinels[r.I[0]]
	case "stdnew":
		return goerr.New(r.S[0])
	case "new":
		e := errors.New(r.S[0])
		c.record(e, 0)
		return e
	case "newf":
		f, a := fmtArgs(c, r.Fmt)
		e := errors.Newf(f, a...)
		c.record(e, 0)
		return e
	case "pkgnew":
		e := pkgerr.New(r.S[0])
		c.record(e, 0)
		return e
	case "errno":
		return syscall.Errno(r.I[0])
	case "foreignerrno":
		return foreignErrno(syscall.Errno(r.I[0]))
	case "unimpl":
		return errors.UnimplementedError(errors.IssueLink{IssueURL: r.S[0], Detail: r.S[1]}, r.S[2])
	case "assertf":
		f, a := fmtArgs(c, r.Fmt)
		e := errors.AssertionFailedf(f, a...)
		c.record(e, 1)
		return e
	case "grpcstatus":
		return grpcstatus.Error(codes.Code(r.I[0]), r.S[0])
	case "gogostatus":
		return gogostatus.Error(codes.Code(r.I[0]), r.S[0])
	case "testerror":
		return &errorspb.TestError{}
	case "uleaf":
		switch r.S[0] {
		case "plain":
			return &ut.Plain{Msg: r.S[1]}
		case "val":
			return ut.Val{Msg: r.S[1], Tag: int(r.I[0])}
		case "nocmp":
			return ut.NoCmp{Msg: r.S[1], Junk: []int{int(r.I[0])}}
		case "istag":
			return &ut.IsTag{Msg: r.S[1], Tag: int(r.I[0])}
		case "safedet":
			return &ut.SafeDet{Msg: r.S[1], Details: r.Strs}
		case "safemsg":
			return &ut.SafeMsg{Msg: r.S[1]}
		case "hinter":
			return &ut.Hinter{Msg: r.S[1], Hint: r.Strs[0], Detail: r.Strs[1]}
		case "dual":
			// the wrapper type of uwrap "full", without a cause: a leaf
			return &ut.WFull{Msg: r.S[1]}
		}
	case "wrap":
		e := errors.Wrap(kid(0), r.S[0])
		c.record(e, 0)
		return e
	case "wrapf":
		k := kid(0)
		f, a := fmtArgs(c, r.Fmt)
		e := errors.Wrapf(k, f, a...)
		c.record(e, 0)
		return e
	case "withmessage":
		return errors.WithMessage(kid(0), r.S[0])
	case "withmessagef":
		k := kid(0)
		f, a := fmtArgs(c, r.Fmt)
		return errors.WithMessagef(k, f, a...)
	case "withstack":
		e := errors.WithStack(kid(0))
		c.record(e, 0)
		return e
	case "hintf":
		k := kid(0)
		f, a := fmtArgs(c, r.Fmt)
		return errors.WithHintf(k, f, a...)
	case "detailf":
		k := kid(0)
		f, a := fmtArgs(c, r.Fmt)
		return errors.WithDetailf(k, f, a...)
	case "hint":
		return errors.WithHint(kid(0), r.S[0])
	case "detail":
		return errors.WithDetail(kid(0), r.S[0])
	case "issuelink":
		return errors.WithIssueLink(kid(0), errors.IssueLink{IssueURL: r.S[0], Detail: r.S[1]})
	case "telemetry":
		return errors.WithTelemetry(kid(0), r.Strs...)
	case "domain":
		return errors.WithDomain(kid(0), errors.Domain(r.S[0]))
	case "tags":
		k := kid(0)
		ctx := context.Background()
		for _, t := range r.Tags {
			var v interface{}
			switch t.Kind {
			case "nil":
				v = nil
			case "str":
				v = t.V
			case "int":
				var i int
				fmt.Sscanf(t.V, "%d", &i)
				v = i
			case "safe":
				v = redact.Safe(t.V)
			}
			ctx = logtags.AddTag(ctx, t.K, v)
		}
		return errors.WithContextTags(k, ctx)
	case "assert":
		return errors.WithAssertionFailure(kid(0))
	case "mark":
		k := kid(0)
		ref := kid(1)
		return errors.Mark(k, ref)
	case "safedetails":
		k := kid(0)
		f, a := fmtArgs(c, r.Fmt)
		return errors.WithSafeDetails(k, f, a...)
	case "http":
		return exthttp.WrapWithHTTPCode(kid(0), int(r.I[0]))
	case "grpc":
		return extgrpc.WrapWithGrpcCode(kid(0), codes.Code(r.I[0]))
	case "secondary":
		k := kid(0)
		s := kid(1)
		return errors.WithSecondaryError(k, s)
	case "combine":
		k := kid(0)
		s := kid(1)
		return errors.CombineErrors(k, s)
	case "handled":
		return errors.Handled(kid(0))
	case "handledmsg":
		return errors.HandledWithMessage(kid(0), r.S[0])
	case "handledmsgf":
		k := kid(0)
		f, a := fmtArgs(c, r.Fmt)
		return barriers.HandledWithMessagef(k, f, a...)
	case "handledindomain":
		return errors.HandledInDomain(kid(0), errors.Domain(r.S[0]))
	case "handledindomainmsg":
		return errors.HandledInDomainWithMessage(kid(0), errors.Domain(r.S[0]), r.S[1])
	case "handleassert":
		e := errors.HandleAsAssertionFailure(kid(0))
		c.record(e, 1)
		return e
	case "newassertwrapped":
		k := kid(0)
		f, a := fmtArgs(c, r.Fmt)
		e := errors.NewAssertionErrorWithWrappedErrf(k, f, a...)
		c.record(e, 1)
		return e
	case "join":
		ks := make([]error, len(r.Kids))
		for i := range r.Kids {
			ks[i] = kid(i)
		}
		e := errors.Join(ks...)
		c.record(e, 0)
		return e
	case "stdjoin":
		ks := make([]error, len(r.Kids))
		for i := range r.Kids {
			ks[i] = kid(i)
		}
		return goerr.Join(ks...)
	case "fmterrorf":
		f, a := fmtArgs(c, r.Fmt)
		return fmt.Errorf(f, a...)
	case "pkgmsg":
		return pkgerr.WithMessage(kid(0), r.S[0])
	case "pkgstack":
		e := pkgerr.WithStack(kid(0))
		c.record(e, 0)
		return e
	case "patherror":
		k := kid(0)
		if k == nil {
			return nil
		}
		return &fs.PathError{Op: r.S[0], Path: r.S[1], Err: k}
	case "linkerror":
		k := kid(0)
		if k == nil {
			return nil
		}
		return &os.LinkError{Op: r.S[0], Old: r.S[1], New: r.S[2], Err: k}
	case "syscallerror":
		k := kid(0)
		if k == nil {
			return nil
		}
		return os.NewSyscallError(r.S[0], k)
	case "operror":
		k := kid(0)
		if k == nil {
			return nil
		}
		oe := &net.OpError{Op: r.S[0], Net: r.S[1], Err: k}
		if r.S[2] != "" {
			oe.Source = ut.Addr(r.S[2])
		}
		if r.S[3] != "" {
			oe.Addr = ut.Addr(r.S[3])
		}
		return oe
	case "uwrap":
		k := kid(0)
		if k == nil {
			return nil
		}
		switch r.S[0] {
		case "unwrap":
			return &ut.WUnwrap{Msg: r.S[1], Err: k}
		case "cause":
			return &ut.WCause{Msg: r.S[1], Err: k}
		case "both":
			return &ut.WBoth{Msg: r.S[1], Err: k}
		case "full":
			return &ut.WFull{Msg: r.S[1], Err: k}
		case "empty":
			return &ut.WEmpty{Err: k}
		case "safedet":
			return &ut.WSafeDet{Msg: r.S[1], Details: r.Strs, Err: k}
		case "as":
			return &ut.WAs{Msg: r.S[1], Err: k}
		case "nocmp":
			return ut.WNoCmp{Msg: r.S[1], Err: k, Junk: []int{1}}
		}
	case "transfer":
		return transfer(kid(0), r.Procs)
	}
	panic("Build: unknown op " + r.Op + " " + strings.Join(r.S, ","))
}

// foreignErrno: what DecodeError makes of a syscall.Errno sent by a process on
// another platform (the message and the predicate flags are the sender's).
func foreignErrno(n syscall.Errno) error {
	enc := errors.EncodeError(context.Background(), n)
	l := enc.GetLeaf()
	var pl errorspb.ErrnoPayload
	if err := types.UnmarshalAny(l.Details.FullDetails, &pl); err != nil {
		panic(err)
	}
	// the sender's platform: another OS for odd errno values, the same OS on another CPU
	// (whose errno numbering differs) for even ones
	pl.Arch = "plan9:mips"
	if n%2 == 0 {
		pl.Arch = "linux:mips64"
	}
	any, err := types.MarshalAny(&pl)
	if err != nil {
		panic(err)
	}
	l.Details.FullDetails = any
	return errors.DecodeError(context.Background(), enc)
}
