package main

import (
	"fmt"
	"strconv"
)

// ParseR is the inverse of (*R).Sx: used by `verifharness replay`.
func ParseR(x Sx) *R {
	if x.IsAtom || len(x.List) == 0 || !x.List[0].IsAtom {
		panic("ParseR: not a recipe: " + x.String())
	}
	op := x.List[0].Atom
	a := x.List[1:]
	str := func(i int) string { return a[i].Atom }
	num := func(i int) int64 { v, _ := strconv.ParseInt(a[i].Atom, 10, 64); return v }
	kid := func(i int) *R { return ParseR(a[i]) }
	strs := func(i int) []string {
		out := []string{}
		for _, y := range a[i].List {
			out = append(out, y.Atom)
		}
		return out
	}
	kids := func(i int) []*R {
		var out []*R
		for _, y := range a[i].List {
			out = append(out, ParseR(y))
		}
		return out
	}
	switch op {
	case "nil", "testerror":
		return &R{Op: op}
	case "sentinel", "errno", "foreignerrno":
		return &R{Op: op, I: []int64{num(0)}}
	case "stdnew", "new", "pkgnew":
		return &R{Op: op, S: []string{str(0)}}
	case "newf", "assertf", "fmterrorf":
		return &R{Op: op, Fmt: parseFmt(a[0])}
	case "unimpl":
		return &R{Op: op, S: []string{str(0), str(1), str(2)}}
	case "grpcstatus", "gogostatus":
		return &R{Op: op, I: []int64{num(0)}, S: []string{str(1)}}
	case "uleaf":
		return &R{Op: op, S: []string{str(0), str(1)}, I: []int64{num(2)}, Strs: strs(3)}
	case "wrap", "withmessage", "hint", "detail", "domain", "handledmsg", "handledindomain", "pkgmsg", "syscallerror":
		return &R{Op: op, Kids: []*R{kid(0)}, S: []string{str(1)}}
	case "wrapf", "withmessagef", "safedetails", "handledmsgf", "newassertwrapped", "hintf", "detailf":
		return &R{Op: op, Kids: []*R{kid(0)}, Fmt: parseFmt(a[1])}
	case "withstack", "assert", "handled", "handleassert", "pkgstack":
		return &R{Op: op, Kids: []*R{kid(0)}}
	case "issuelink", "handledindomainmsg", "patherror":
		return &R{Op: op, Kids: []*R{kid(0)}, S: []string{str(1), str(2)}}
	case "linkerror":
		return &R{Op: op, Kids: []*R{kid(0)}, S: []string{str(1), str(2), str(3)}}
	case "operror":
		return &R{Op: op, Kids: []*R{kid(0)}, S: []string{str(1), str(2), str(3), str(4)}}
	case "telemetry":
		return &R{Op: op, Kids: []*R{kid(0)}, Strs: strs(1)}
	case "tags":
		var ts []TagKV
		for _, t := range a[1].List {
			ts = append(ts, TagKV{K: t.List[0].Atom, Kind: t.List[1].Atom, V: t.List[2].Atom})
		}
		return &R{Op: op, Kids: []*R{kid(0)}, Tags: ts}
	case "mark", "secondary", "combine":
		return &R{Op: op, Kids: []*R{kid(0), kid(1)}}
	case "http", "grpc":
		return &R{Op: op, Kids: []*R{kid(0)}, I: []int64{num(1)}}
	case "join", "stdjoin":
		return &R{Op: op, Kids: kids(0)}
	case "uwrap":
		return &R{Op: op, S: []string{str(0), str(2)}, Kids: []*R{kid(1)}, Strs: strs(3)}
	case "transfer":
		return &R{Op: op, Kids: []*R{kid(0)}, Procs: parseProcs(a[1])}
	}
	panic("ParseR: unknown op " + op)
}

func parseProcs(x Sx) [][]string {
	out := [][]string{}
	for _, p := range x.List {
		ks := []string{}
		for _, k := range p.List {
			ks = append(ks, k.Atom)
		}
		out = append(out, ks)
	}
	return out
}

func parseFmt(x Sx) []FP {
	var out []FP
	for _, p := range x.List {
		k := p.List[0].Atom
		switch k {
		case "lit":
			out = append(out, FP{Kind: k, S: p.List[1].Atom})
		case "str", "safestr":
			out = append(out, FP{Kind: k, Verb: p.List[1].Atom, S: p.List[2].Atom})
		case "int", "safeint":
			v, _ := strconv.ParseInt(p.List[2].Atom, 10, 64)
			out = append(out, FP{Kind: k, Verb: p.List[1].Atom, I: v})
		case "err":
			out = append(out, FP{Kind: k, Verb: p.List[1].Atom, R: ParseR(p.List[2])})
		case "xstr", "xsafestr":
			out = append(out, FP{Kind: k, S: p.List[2].Atom})
		case "xint":
			v, _ := strconv.ParseInt(p.List[2].Atom, 10, 64)
			out = append(out, FP{Kind: k, I: v})
		default:
			panic(fmt.Sprintf("parseFmt: bad piece %s", p.String()))
		}
	}
	return out
}

// ParseRef is the inverse of (*Ref).Sx.
func ParseRef(x Sx) *Ref {
	k := x.List[0].Atom
	switch k {
	case "nil":
		return &Ref{Kind: k}
	case "sent":
		v, _ := strconv.ParseInt(x.List[1].Atom, 10, 64)
		return &Ref{Kind: k, N: v}
	case "path":
		return &Ref{Kind: k, Path: x.List[1].List}
	case "recipe":
		return &Ref{Kind: k, R: ParseR(x.List[1])}
	case "xfer":
		return &Ref{Kind: k, Inner: ParseRef(x.List[1]), Procs: parseProcs(x.List[2])}
	}
	panic("ParseRef: " + x.String())
}
