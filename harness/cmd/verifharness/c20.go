package main

// C20: an error returned by a handler behind UnaryServerInterceptor and
// received through UnaryClientInterceptor equals the same error transferred
// directly with EncodeError / DecodeError.

import (
	"context"
	"encoding/json"
	"flag"
	"fmt"
	"net"
	"os"
	"path/filepath"
	"reflect"
	"strconv"
	"strings"
	"sync"
	"time"

	"github.com/cockroachdb/errors"
	"github.com/cockroachdb/errors/extgrpc"
	egrpc "github.com/cockroachdb/errors/grpc"
	"github.com/cockroachdb/errors/grpc/middleware"
	gogostatus "github.com/gogo/status"
	"github.com/hydrogen18/memlistener"
	"google.golang.org/grpc"
	"google.golang.org/grpc/codes"
	healthpb "google.golang.org/grpc/health/grpc_health_v1"
	grpcstatus "google.golang.org/grpc/status"
	"google.golang.org/protobuf/runtime/protoiface"
)

type echoSrv struct {
	mu    sync.Mutex
	table map[string]error
}

func (s *echoSrv) Echo(ctx context.Context, req *egrpc.EchoRequest) (*egrpc.EchoReply, error) {
	s.mu.Lock()
	e, ok := s.table[req.Text]
	s.mu.Unlock()
	if !ok || e == nil {
		return &egrpc.EchoReply{Reply: "ok " + req.Text}, nil
	}
	return nil, e
}

func cmdGrpc(args []string) {
	fl := flag.NewFlagSet("grpc", flag.ExitOnError)
	seed := fl.Uint64("seed", 1, "seed")
	n := fl.Int("n", 100, "number of trees")
	out := fl.String("out", "", "output directory")
	fl.Parse(args)
	os.MkdirAll(*out, 0o755)

	srv := &echoSrv{table: map[string]error{}}
	lis := memlistener.NewMemoryListener()
	gs := grpc.NewServer(grpc.UnaryInterceptor(middleware.UnaryServerInterceptor))
	egrpc.RegisterEchoerServer(gs, srv)
	go gs.Serve(lis)
	dial := func(withInterceptor bool) egrpc.EchoerClient {
		opts := []grpc.DialOption{
			grpc.WithDialer(func(string, time.Duration) (net.Conn, error) { return lis.Dial("", "") }),
			grpc.WithInsecure(),
		}
		if withInterceptor {
			opts = append(opts, grpc.WithUnaryInterceptor(middleware.UnaryClientInterceptor))
		}
		cc, err := grpc.Dial("", opts...)
		if err != nil {
			panic(err)
		}
		return egrpc.NewEchoerClient(cc)
	}
	client := dial(true)
	rawClient := dial(false)

	g := NewGen(*seed)
	g.MaxSize = 16
	var fails []OracleFail
	evals := 0
	var samples []string
	var corpus []*R
	for _, r := range enumPairs(g) {
		corpus = append(corpus, r)
	}
	// status leaves below wrappers, context errors: the shapes an interceptor might special-case
	for _, leaf := range []*R{{Op: "grpcstatus", I: []int64{5}, S: []string{"nf"}}, {Op: "gogostatus", I: []int64{9}, S: []string{"fp"}},
		{Op: "sentinel", I: []int64{0}}, {Op: "sentinel", I: []int64{1}}} {
		corpus = append(corpus, leaf,
			&R{Op: "wrap", Kids: []*R{cloneR(leaf)}, S: []string{"ctx"}},
			&R{Op: "grpc", Kids: []*R{{Op: "wrap", Kids: []*R{cloneR(leaf)}, S: []string{"ctx"}}}, I: []int64{9}},
			&R{Op: "hint", Kids: []*R{{Op: "withstack", Kids: []*R{cloneR(leaf)}}}, S: []string{"h"}})
	}
	// every code the caller can attach, including OK and application-defined ones
	for _, code := range []int64{0, 1, 2, 16, 17, 42, 1000} {
		corpus = append(corpus, &R{Op: "grpc", Kids: []*R{{Op: "new", S: []string{"coded"}}}, I: []int64{code}},
			&R{Op: "wrap", Kids: []*R{{Op: "grpc", Kids: []*R{{Op: "stdnew", S: []string{"coded"}}}, I: []int64{code}}}, S: []string{"ctx"}})
	}
	// a code attached inside one branch of a multi-cause error is not a code of the error
	coded := func(c int64, msg string) *R {
		return &R{Op: "grpc", Kids: []*R{{Op: "new", S: []string{msg}}}, I: []int64{c}}
	}
	for _, op := range []string{"join", "stdjoin"} {
		corpus = append(corpus,
			&R{Op: op, Kids: []*R{coded(5, "nf"), {Op: "new", S: []string{"other"}}}},
			&R{Op: "wrap", Kids: []*R{{Op: op, Kids: []*R{{Op: "stdnew", S: []string{"plain"}}, coded(7, "denied")}}}, S: []string{"ctx"}},
			&R{Op: "grpc", Kids: []*R{{Op: op, Kids: []*R{coded(5, "nf"), coded(9, "fp")}}}, I: []int64{14}})
	}
	// large errors: many stack-bearing layers (an encoding of 15-60 KiB), a very long message, a wide join
	for _, depth := range []int{20, 40, 80} {
		r := &R{Op: "new", S: []string{"origin"}}
		for i := 0; i < depth; i++ {
			r = &R{Op: "wrap", Kids: []*R{r}, S: []string{fmt.Sprintf("level %d", i)}}
		}
		corpus = append(corpus, r, &R{Op: "grpc", Kids: []*R{cloneR(r)}, I: []int64{5}})
	}
	{
		var kids []*R
		for i := 0; i < 40; i++ {
			kids = append(kids, &R{Op: "new", S: []string{fmt.Sprintf("branch %d %s", i, strings.Repeat("x", 200))}})
		}
		corpus = append(corpus, &R{Op: "join", Kids: kids}, &R{Op: "stdnew", S: []string{strings.Repeat("long message ", 3000)}})
	}
	// nested codes: the outermost attached code is the code of the error, whatever the two codes are
	// (OK, Unknown and application-defined ones included)
	for _, outer := range []int64{0, 1, 2, 5, 13, 42} {
		for _, inner := range []int64{0, 2, 5, 14, 99} {
			if outer == inner {
				continue
			}
			corpus = append(corpus, &R{Op: "grpc", Kids: []*R{coded(inner, "inner")}, I: []int64{outer}},
				&R{Op: "grpc", Kids: []*R{{Op: "wrap", Kids: []*R{coded(inner, "inner")}, S: []string{"mid"}}}, I: []int64{outer}})
		}
	}
	for _, kind := range []string{"cause", "unwrap", "both", "nocmp"} {
		corpus = append(corpus,
			&R{Op: "uwrap", S: []string{kind, "legacy"}, Kids: []*R{coded(5, "nf")}, Strs: []string{}},
			&R{Op: "wrap", Kids: []*R{{Op: "uwrap", S: []string{kind, "legacy"}, Kids: []*R{coded(9, "fp")}, Strs: []string{}}}, S: []string{"ctx"}})
	}
	// every standard code on a plain error (an interceptor may special-case "transport" codes)
	for code := int64(1); code <= 16; code++ {
		corpus = append(corpus, &R{Op: "hint", Kids: []*R{coded(code, "coded")}, S: []string{"h"}})
	}
	// long messages of multi-byte runes around every length a transport limit could cut at
	for _, unit := range []string{"\u00e9", "\u65e5", "\U0001F600"} {
		for pre := 0; pre < 4; pre++ {
			for _, total := range []int{70, 130, 260, 1100} {
				msg := strings.Repeat("x", pre) + strings.Repeat(unit, total/len(unit))
				corpus = append(corpus, &R{Op: "grpc", Kids: []*R{{Op: "stdnew", S: []string{msg}}}, I: []int64{8}},
					&R{Op: "wrap", Kids: []*R{{Op: "new", S: []string{msg}}}, S: []string{"ctx"}})
			}
		}
	}
	for i := 0; i < *n; i++ {
		corpus = append(corpus, g.Tree(1+g.r.intn(5)))
	}
	corpus = append(corpus, &R{Op: "nil"})
	// status errors that carry details: of a type every registry knows, of a type only the
	// standard protobuf registry knows, and both
	direct := map[int]error{}
	withDetails := func(c codes.Code, msg string, ds ...protoiface.MessageV1) {
		st, err := grpcstatus.New(c, msg).WithDetails(ds...)
		if err != nil {
			panic(err)
		}
		direct[len(corpus)] = st.Err()
		corpus = append(corpus, &R{Op: "grpcstatus", I: []int64{int64(c)}, S: []string{msg + " +details"}})
	}
	withDetails(codes.NotFound, "known detail", grpcstatus.New(codes.Internal, "inner").Proto())
	withDetails(codes.Unavailable, "foreign detail", &healthpb.HealthCheckResponse{Status: healthpb.HealthCheckResponse_NOT_SERVING})
	withDetails(codes.Aborted, "both", &healthpb.HealthCheckResponse{Status: healthpb.HealthCheckResponse_SERVING}, grpcstatus.New(codes.Internal, "inner").Proto())
	for i, r := range corpus {
		id := "C20-" + strconv.Itoa(i)
		var e error
		var refs []error
		func() {
			defer func() { recover() }()
			ctx := &BuildCtx{}
			e = r.Build(ctx)
			if d, ok := direct[i]; ok {
				e = d
			}
			for _, rf := range sentRefs() {
				refs = append(refs, rf.Build(ctx, e))
			}
		}()
		srv.mu.Lock()
		srv.table[id] = e
		srv.mu.Unlock()
		evals++
		fail := func(what, detail string) {
			fails = append(fails, OracleFail{Prop: "C20", CaseID: id, Oracle: "C20", What: what, Detail: detail, Recipe: r.Sx().String(),
				ReplayArgs: map[string]interface{}{"prop": "C20", "recipe": r.Sx().String()}})
		}
		_, got := client.Echo(context.Background(), &egrpc.EchoRequest{Text: id})
		_, raw := rawClient.Echo(context.Background(), &egrpc.EchoRequest{Text: id})
		if e == nil {
			if got != nil || raw != nil {
				fail("a nil handler error does not arrive as nil", fmt.Sprint(got))
			}
			continue
		}
		if got == nil {
			fail("the handler's error arrives as nil", "")
			continue
		}
		// already a gRPC status error: passes through unchanged
		if _, ok := gogostatus.FromError(e); ok {
			st, ok2 := gogostatus.FromError(got)
			want, _ := gogostatus.FromError(e)
			if !ok2 || st.Code() != want.Code() || st.Message() != want.Message() {
				fail("a handler error that already is a gRPC status does not pass through unchanged", fmt.Sprintf("%v vs %v", got, e))
				continue
			}
			// unchanged: exactly what a client without the interceptor receives
			if reflect.TypeOf(got) != reflect.TypeOf(raw) || got.Error() != raw.Error() ||
				fmt.Sprintf("%+v", got) != fmt.Sprintf("%+v", raw) || fmt.Sprint(grpcstatus.Convert(got).Proto()) != fmt.Sprint(grpcstatus.Convert(raw).Proto()) {
				fail("a handler error that already is a gRPC status is not delivered as the client would receive it without the interceptor",
					fmt.Sprintf("%T %+v vs %T %+v", got, got, raw, raw))
			}
			continue
		}
		// the status code visible on the wire: the attached code, Unknown otherwise
		wantCode := extgrpc.GetGrpcCode(e)
		if sc, known := specGrpcCode(r); known && sc != wantCode {
			fail(fmt.Sprintf("GetGrpcCode of the handler's error is %v; the code attached on its cause chain is %v (a code inside a branch of a multi-cause error, or behind a barrier, is not a code of the error)", wantCode, sc), "")
			continue
		}
		wireCode := wantCode
		if wireCode == codes.OK {
			wireCode = codes.Unknown // an error cannot travel under the OK status
		}
		if c := grpcstatus.Code(raw); c != wireCode {
			fail(fmt.Sprintf("the gRPC status code on the wire is %v, the code attached to the error is %v", c, wantCode), "")
			continue
		}
		if c := extgrpc.GetGrpcCode(got); c != wantCode && !(wantCode == codes.Unknown && c == codes.Unknown) {
			fail(fmt.Sprintf("the code of the received error is %v, expected %v", c, wantCode), "")
			continue
		}
		direct := transferOnce(e, nil)
		// the literal reading: EncodeError / DecodeError in memory, without the protobuf marshalling the transport
		// adds (which cannot tell an empty list from an absent one)
		inMemory := errors.DecodeError(context.Background(), errors.EncodeError(context.Background(), e))
		if a, b := shapeSx(inMemory).String(), shapeSx(got).String(); a != b {
			fail("text / structure of the received error differs from the in-memory EncodeError/DecodeError result", firstDiff(a, b))
			continue
		}
		if a, b := shapeSx(direct).String(), shapeSx(got).String(); a != b {
			fail("text / structure of the received error differs from the direct EncodeError/DecodeError result", firstDiff(a, b))
			continue
		}
		if a, b := accVec(direct, true).String(), accVec(got, true).String(); a != b {
			fail("annotations of the received error differ from the direct result", firstDiff(a, b))
			continue
		}
		stOK := true
		var origLeaves, gotLeaves []string
		visitAll(e, func(x error) { origLeaves = append(origLeaves, fmt.Sprintf("%T", x)) })
		visitAll(got, func(x error) { gotLeaves = append(gotLeaves, fmt.Sprintf("%T", x)) })
		for k := range origLeaves {
			if strings.Contains(origLeaves[k], "status.") && (k >= len(gotLeaves) || gotLeaves[k] != origLeaves[k]) {
				stOK = false
			}
		}
		if !stOK {
			fail("a gRPC status error inside the handler's error arrives as another Go type", fmt.Sprintf("%v vs %v", origLeaves, gotLeaves))
			continue
		}
		if a, b := fmt.Sprintf("%+v", direct), fmt.Sprintf("%+v", got); a != b {
			fail("%+v of the received error differs from the direct result", firstDiff(a, b))
			continue
		}
		all := append(append([]error{}, refs...), e, direct)
		for k, ref := range all {
			if errors.Is(direct, ref) != errors.Is(got, ref) {
				fail(fmt.Sprintf("Is(received, probe %d) differs from Is(direct, probe %d)", k, k), "")
				break
			}
		}
		if len(samples) < 5 {
			s := r.Sx().String()
			if len(s) > 300 {
				s = s[:300] + "..."
			}
			samples = append(samples, s)
		}
	}
	gs.Stop()
	meta := map[string]interface{}{"prop": "C20", "cases": evals, "distinct_nontrivial": evals, "ops": g.Stats,
		"depth_hist": map[string]int{}, "samples": samples, "oracle_failures": fails, "oracle_evaluations": evals}
	if fails == nil {
		meta["oracle_failures"] = []OracleFail{}
	}
	mb, _ := json.MarshalIndent(meta, "", " ")
	os.WriteFile(filepath.Join(*out, "meta.json"), mb, 0o644)
	fmt.Printf("C20: %d errors through the interceptors, %d failures\n", evals, len(fails))
}

// specGrpcCode: the code of the outermost WrapWithGrpcCode layer on the single-cause chain of
// the recipe (Unknown when there is none), computed from the recipe alone. known = false for
// recipes whose chain this function does not follow (transfers, format arguments).
func specGrpcCode(r *R) (codes.Code, bool) {
	for {
		if _, isNil := specText(r); isNil {
			return codes.OK, true
		}
		switch r.Op {
		case "grpc":
			return codes.Code(r.I[0]), true
		case "wrap", "withmessage", "hint", "detail", "domain", "withstack", "assert", "issuelink", "telemetry", "tags",
			"mark", "secondary", "http", "safedetails", "hintf", "detailf", "wrapf", "withmessagef", "pkgmsg", "pkgstack", "patherror", "linkerror",
			"syscallerror", "operror", "uwrap":
			r = r.Kids[0]
		case "combine":
			if _, n := specText(r.Kids[0]); n {
				r = r.Kids[1]
			} else {
				r = r.Kids[0]
			}
		case "new", "stdnew", "pkgnew", "sentinel", "errno", "foreignerrno", "unimpl", "testerror", "uleaf",
			"join", "stdjoin", "handled", "handledmsg", "handledindomain", "handledindomainmsg", "handleassert":
			return codes.Unknown, true
		default:
			return codes.Unknown, false
		}
	}
}
