// verifharness runs generated recipes against the real cockroachdb/errors
// library (built from /repo's working tree with -tags verif) and writes, per
// case, the recipe (for the Coq model runner) and what the implementation did.
package main

import (
	"bufio"
	"encoding/json"
	"flag"
	"fmt"
	"os"
	"path/filepath"
	"sort"
)

// Case is one correspondence case.
type Case struct {
	ID      string
	Prop    string
	R       *R
	Refs    []*Ref
	Obs     []Obs
	Oracles []string
	Hops    [][][]string // hop sequences the oracles use (unknown keys per process)
	UTok    []string     // tokens that entered through unsafe channels only
	STok    []string     // tokens that entered through safe channels
	Hostile bool
}

type runResult struct {
	caseLine string
	obsLine  string
	fails    []OracleFail
	evals    int
}

func runCase(c *Case) (res runResult) {
	done := make(chan struct{})
	go func() {
		defer close(done)
		res = runCaseInner(c)
	}()
	<-done
	return
}

//go:noinline
func runCaseInner(c *Case) runResult {
	ctx := &BuildCtx{}
	var e error
	var refs []error
	buildPanic := ""
	func() {
		defer func() {
			if r := recover(); r != nil {
				buildPanic = fmt.Sprint(r)
			}
		}()
		e = c.R.Build(ctx)
		for _, r := range c.Refs {
			refs = append(refs, r.Build(ctx, e))
		}
	}()
	refsSx := L()
	for _, r := range c.Refs {
		refsSx.List = append(refsSx.List, r.Sx())
	}
	obsSx := L()
	for _, o := range c.Obs {
		obsSx.List = append(obsSx.List, o.Sx())
	}
	caseSx := L(Sym("case"), A(c.ID), ctx.StacksSx(), c.R.Sx(), refsSx, obsSx)
	out := []Sx{Sym("result"), A(c.ID)}
	if buildPanic != "" {
		out = append(out, L(Sym("build-panic"), A(buildPanic)))
	} else {
		for _, o := range c.Obs {
			out = append(out, observe(o, e, refs))
		}
	}
	res := runResult{caseLine: caseSx.String(), obsLine: L(out...).String()}
	if buildPanic == "" {
		res.fails, res.evals = runOracles(c, e, refs, ctx)
	} else if len(c.Oracles) > 0 {
		res.fails = []OracleFail{{Prop: c.Prop, CaseID: c.ID, Oracle: "build", What: "building the error panicked: " + buildPanic,
			Recipe: c.R.Sx().String(), ReplayArgs: map[string]interface{}{"recipe": c.R.Sx().String(), "oracles": c.Oracles, "prop": c.Prop}}}
	}
	return res
}

func main() {
	if len(os.Args) < 2 {
		fmt.Fprintln(os.Stderr, "usage: verifharness gen|facts ...")
		os.Exit(2)
	}
	switch os.Args[1] {
	case "gen":
		cmdGen(os.Args[2:])
	case "replay":
		cmdReplay(os.Args[2:])
	default:
		fmt.Fprintln(os.Stderr, "unknown command", os.Args[1])
		os.Exit(2)
	}
}

func cmdGen(args []string) {
	fl := flag.NewFlagSet("gen", flag.ExitOnError)
	prop := fl.String("prop", "", "property id")
	seed := fl.Uint64("seed", 1, "seed")
	n := fl.Int("n", 200, "number of random cases")
	out := fl.String("out", "", "output directory")
	fl.Parse(args)
	if *out == "" || *prop == "" {
		fmt.Fprintln(os.Stderr, "gen: -prop and -out required")
		os.Exit(2)
	}
	os.MkdirAll(*out, 0o755)
	g := NewGen(*seed)
	cases := propCases(*prop, g, *n)
	var oracleFails []OracleFail
	oracleEvals := 0

	cf, _ := os.Create(filepath.Join(*out, "cases.sexp"))
	of, _ := os.Create(filepath.Join(*out, "observed.sexp"))
	cw := bufio.NewWriterSize(cf, 1<<20)
	ow := bufio.NewWriterSize(of, 1<<20)
	stats := map[string]int{}
	depthHist := map[int]int{}
	distinct := map[string]bool{}
	var samples []string
	for i, c := range cases {
		res := runCase(c)
		oracleFails = append(oracleFails, res.fails...)
		oracleEvals += res.evals
		cw.WriteString(res.caseLine)
		cw.WriteByte('\n')
		ow.WriteString(res.obsLine)
		ow.WriteByte('\n')
		c.R.CountOps(stats)
		d := c.R.Depth()
		depthHist[d]++
		if d >= 2 {
			distinct[c.R.Sx().String()] = true
		}
		if i < 3 || (i%97 == 0 && len(samples) < 8) {
			s := c.R.Sx().String()
			if len(s) > 400 {
				s = s[:400] + "..."
			}
			samples = append(samples, s)
		}
	}
	cw.Flush()
	ow.Flush()
	cf.Close()
	of.Close()
	for k, v := range g.Stats {
		stats[k] = v
	}
	meta := map[string]interface{}{
		"prop": *prop, "seed": *seed, "cases": len(cases),
		"distinct_nontrivial": len(distinct),
		"ops":                 stats, "depth_hist": depthHist, "samples": samples,
		"oracle_failures": oracleFails, "oracle_evaluations": oracleEvals,
	}
	mb, _ := json.MarshalIndent(meta, "", " ")
	os.WriteFile(filepath.Join(*out, "meta.json"), mb, 0o644)
	keys := make([]string, 0, len(stats))
	for k := range stats {
		keys = append(keys, k)
	}
	sort.Strings(keys)
	fmt.Printf("generated %d cases for %s (seed %d), %d oracle failures\n", len(cases), *prop, *seed, len(oracleFails))
}

// cmdReplay re-runs the oracles of a replay file on the current implementation.
func cmdReplay(args []string) {
	if len(args) < 1 {
		fmt.Fprintln(os.Stderr, "replay: file required")
		os.Exit(2)
	}
	raw, err := os.ReadFile(args[0])
	if err != nil {
		fmt.Fprintln(os.Stderr, err)
		os.Exit(2)
	}
	var f struct {
		ReplayArgs struct {
			Recipe  string       `json:"recipe"`
			Refs    []string     `json:"refs"`
			Oracles []string     `json:"oracles"`
			Hops    [][][]string `json:"hops"`
			UTok    []string     `json:"utok"`
			STok    []string     `json:"stok"`
			Prop    string       `json:"prop"`
			Hostile bool         `json:"hostile"`
		} `json:"replay_args"`
	}
	if err := json.Unmarshal(raw, &f); err != nil {
		fmt.Fprintln(os.Stderr, err)
		os.Exit(2)
	}
	a := f.ReplayArgs
	rx, err := ParseSx(a.Recipe)
	if err != nil {
		fmt.Fprintln(os.Stderr, err)
		os.Exit(2)
	}
	c := &Case{ID: "replay", Prop: a.Prop, R: ParseR(rx), Oracles: a.Oracles, Hops: a.Hops, UTok: a.UTok, STok: a.STok, Hostile: a.Hostile}
	for _, r := range a.Refs {
		x, err := ParseSx(r)
		if err != nil {
			fmt.Fprintln(os.Stderr, err)
			os.Exit(2)
		}
		c.Refs = append(c.Refs, ParseRef(x))
	}
	res := runCase(c)
	if len(res.fails) == 0 {
		fmt.Println("replay: the property holds on this input now")
		return
	}
	for _, fl := range res.fails {
		fmt.Printf("replay: STILL FAILING (%s): %s\n  %s\n", fl.Oracle, fl.What, fl.Detail)
	}
	os.Exit(1)
}
