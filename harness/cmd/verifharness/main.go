// verifharness runs generated recipes against the real cockroachdb/errors
// library (built from /repo's working tree with -tags verif) and writes, per
// case, the recipe (for the Coq model runner) and what the implementation did.
package main

import (
	"encoding/hex"

	"github.com/cockroachdb/errors/errorspb"
	"github.com/gogo/protobuf/proto"

	"bufio"
	"encoding/json"
	"flag"
	"fmt"
	"os"
	"path/filepath"
	"sort"
)

// Case is one correspondence case.
type Case struct {
	ID      string
	Prop    string
	R       *R
	Refs    []*Ref
	Obs     []Obs
	Oracles []string
	Hops    [][][]string // hop sequences the oracles use (unknown keys per process)
	UTok    []string     // tokens that entered through unsafe channels only
	STok    []string     // tokens that entered through safe channels
	Hostile bool
	// wire-level case (C05): the message given to DecodeError and what it returned
	Enc     *errorspb.EncodedError
	Decoded error
}

type runResult struct {
	caseLine string
	obsLine  string
	fails    []OracleFail
	evals    int
}

func runCase(c *Case) (res runResult) {
	done := make(chan struct{})
	go func() {
		defer close(done)
		res = runCaseInner(c)
	}()
	<-done
	return
}

//go:noinline
func runCaseInner(c *Case) runResult {
	if c.Enc != nil {
		obsSx := L()
		out := []Sx{Sym("result"), A(c.ID)}
		for _, o := range c.Obs {
			obsSx.List = append(obsSx.List, o.Sx())
			out = append(out, observe(o, c.Decoded, nil))
		}
		return runResult{caseLine: L(Sym("deccase"), A(c.ID), encSx(c.Enc), obsSx).String(), obsLine: L(out...).String()}
	}
	ctx := &BuildCtx{}
	var e error
	var refs []error
	buildPanic := ""
	func() {
		defer func() {
			if r := recover(); r != nil {
				buildPanic = fmt.Sprint(r)
			}
		}()
		e = c.R.Build(ctx)
		for _, r := range c.Refs {
			refs = append(refs, r.Build(ctx, e))
		}
	}()
	refsSx := L()
	for _, r := range c.Refs {
		refsSx.List = append(refsSx.List, r.Sx())
	}
	obsSx := L()
	for _, o := range c.Obs {
		obsSx.List = append(obsSx.List, o.Sx())
	}
	caseSx := L(Sym("case"), A(c.ID), ctx.StacksSx(), c.R.Sx(), refsSx, obsSx)
	out := []Sx{Sym("result"), A(c.ID)}
	if buildPanic != "" {
		out = append(out, L(Sym("build-panic"), A(buildPanic)))
	} else {
		for _, o := range c.Obs {
			out = append(out, observe(o, e, refs))
		}
	}
	res := runResult{caseLine: caseSx.String(), obsLine: L(out...).String()}
	if buildPanic == "" {
		res.fails, res.evals = runOracles(c, e, refs, ctx)
	} else if len(c.Oracles) > 0 {
		res.fails = []OracleFail{{Prop: c.Prop, CaseID: c.ID, Oracle: "build", What: "building the error panicked: " + buildPanic,
			Recipe: c.R.Sx().String(), ReplayArgs: map[string]interface{}{"recipe": c.R.Sx().String(), "oracles": c.Oracles, "prop": c.Prop}}}
	}
	return res
}

func main() {
	if len(os.Args) < 2 {
		fmt.Fprintln(os.Stderr, "usage: verifharness gen|facts ...")
		os.Exit(2)
	}
	switch os.Args[1] {
	case "gen":
		cmdGen(os.Args[2:])
	case "replay":
		cmdReplay(os.Args[2:])
	case "depth":
		cmdDepth(os.Args[2:])
	case "race":
		cmdRace(os.Args[2:])
	case "migrate":
		cmdMigrate(os.Args[2:])
	case "grpc":
		cmdGrpc(os.Args[2:])
	default:
		fmt.Fprintln(os.Stderr, "unknown command", os.Args[1])
		os.Exit(2)
	}
}

func cmdGen(args []string) {
	fl := flag.NewFlagSet("gen", flag.ExitOnError)
	prop := fl.String("prop", "", "property id")
	seed := fl.Uint64("seed", 1, "seed")
	n := fl.Int("n", 200, "number of random cases")
	out := fl.String("out", "", "output directory")
	thorough := fl.Bool("thorough", false, "thorough tier")
	fl.Parse(args)
	if *out == "" || *prop == "" {
		fmt.Fprintln(os.Stderr, "gen: -prop and -out required")
		os.Exit(2)
	}
	os.MkdirAll(*out, 0o755)
	g := NewGen(*seed)
	var cases []*Case
	var oracleFails []OracleFail
	oracleEvals := 0
	var sweep map[string]int
	if *prop == "C05" {
		cases, oracleFails, oracleEvals, sweep = c05Cases(g, *n, *thorough)
	} else {
		cases = propCases(*prop, g, *n)
	}

	cf, _ := os.Create(filepath.Join(*out, "cases.sexp"))
	of, _ := os.Create(filepath.Join(*out, "observed.sexp"))
	cw := bufio.NewWriterSize(cf, 1<<20)
	ow := bufio.NewWriterSize(of, 1<<20)
	stats := map[string]int{}
	depthHist := map[int]int{}
	distinct := map[string]bool{}
	var samples []string
	for i, c := range cases {
		res := runCase(c)
		oracleFails = append(oracleFails, res.fails...)
		oracleEvals += res.evals
		cw.WriteString(res.caseLine)
		cw.WriteByte('\n')
		ow.WriteString(res.obsLine)
		ow.WriteByte('\n')
		if c.R == nil {
			distinct[c.ID] = true
			if i < 3 || (i%997 == 0 && len(samples) < 8) {
				s := res.caseLine
				if len(s) > 400 {
					s = s[:400] + "..."
				}
				samples = append(samples, s)
			}
			continue
		}
		c.R.CountOps(stats)
		d := c.R.Depth()
		depthHist[d]++
		if d >= 2 {
			distinct[c.R.Sx().String()] = true
		}
		if i < 3 || (i%97 == 0 && len(samples) < 8) {
			s := c.R.Sx().String()
			if len(s) > 400 {
				s = s[:400] + "..."
			}
			samples = append(samples, s)
		}
	}
	cw.Flush()
	ow.Flush()
	cf.Close()
	of.Close()
	for k, v := range g.Stats {
		stats[k] = v
	}
	for k, v := range sweep {
		stats[k] = v
	}
	meta := map[string]interface{}{
		"prop": *prop, "seed": *seed, "cases": len(cases),
		"distinct_nontrivial": len(distinct),
		"ops":                 stats, "depth_hist": depthHist, "samples": samples,
		"oracle_failures": oracleFails, "oracle_evaluations": oracleEvals,
	}
	mb, _ := json.MarshalIndent(meta, "", " ")
	os.WriteFile(filepath.Join(*out, "meta.json"), mb, 0o644)
	keys := make([]string, 0, len(stats))
	for k := range stats {
		keys = append(keys, k)
	}
	sort.Strings(keys)
	fmt.Printf("generated %d cases for %s (seed %d), %d oracle failures\n", len(cases), *prop, *seed, len(oracleFails))
}

// cmdReplay re-runs the oracles of a replay file on the current implementation.
func cmdReplay(args []string) {
	if len(args) < 1 {
		fmt.Fprintln(os.Stderr, "replay: file required")
		os.Exit(2)
	}
	raw, err := os.ReadFile(args[0])
	if err != nil {
		fmt.Fprintln(os.Stderr, err)
		os.Exit(2)
	}
	var f struct {
		ReplayArgs struct {
			Recipe  string       `json:"recipe"`
			Refs    []string     `json:"refs"`
			Oracles []string     `json:"oracles"`
			Hops    [][][]string `json:"hops"`
			UTok    []string     `json:"utok"`
			STok    []string     `json:"stok"`
			Prop    string       `json:"prop"`
			Hostile bool         `json:"hostile"`
			EncHex  string       `json:"enc_hex"`
		} `json:"replay_args"`
	}
	if err := json.Unmarshal(raw, &f); err != nil {
		fmt.Fprintln(os.Stderr, err)
		os.Exit(2)
	}
	a := f.ReplayArgs
	if a.EncHex != "" {
		b, err := hex.DecodeString(a.EncHex)
		if err != nil {
			fmt.Fprintln(os.Stderr, err)
			os.Exit(2)
		}
		var dec errorspb.EncodedError
		if err := proto.Unmarshal(b, &dec); err != nil {
			fmt.Fprintln(os.Stderr, err)
			os.Exit(2)
		}
		if _, what, detail := decodeTotal(&dec); what != "" {
			fmt.Printf("replay: STILL FAILING (C05): %s\n  %s\n", what, detail)
			os.Exit(1)
		}
		fmt.Println("replay: the property holds on this input now")
		return
	}
	rx, err := ParseSx(a.Recipe)
	if err != nil {
		fmt.Fprintln(os.Stderr, err)
		os.Exit(2)
	}
	c := &Case{ID: "replay", Prop: a.Prop, R: ParseR(rx), Oracles: a.Oracles, Hops: a.Hops, UTok: a.UTok, STok: a.STok, Hostile: a.Hostile}
	for _, r := range a.Refs {
		x, err := ParseSx(r)
		if err != nil {
			fmt.Fprintln(os.Stderr, err)
			os.Exit(2)
		}
		c.Refs = append(c.Refs, ParseRef(x))
	}
	res := runCase(c)
	if len(res.fails) == 0 {
		fmt.Println("replay: the property holds on this input now")
		return
	}
	for _, fl := range res.fails {
		fmt.Printf("replay: STILL FAILING (%s): %s\n  %s\n", fl.Oracle, fl.What, fl.Detail)
	}
	os.Exit(1)
}
