// verifharness runs generated recipes against the real cockroachdb/errors
// library (built from /repo's working tree with -tags verif) and writes, per
// case, the recipe (for the Coq model runner) and what the implementation did.
package main

import (
	"bufio"
	"encoding/json"
	"flag"
	"fmt"
	"os"
	"path/filepath"
	"sort"
)

// Case is one correspondence case.
type Case struct {
	ID   string
	R    *R
	Refs []*Ref
	Obs  []Obs
}

type runResult struct {
	caseLine string
	obsLine  string
}

func runCase(c *Case) (res runResult) {
	done := make(chan struct{})
	go func() {
		defer close(done)
		res = runCaseInner(c)
	}()
	<-done
	return
}

//go:noinline
func runCaseInner(c *Case) runResult {
	ctx := &BuildCtx{}
	var e error
	var refs []error
	buildPanic := ""
	func() {
		defer func() {
			if r := recover(); r != nil {
				buildPanic = fmt.Sprint(r)
			}
		}()
		e = c.R.Build(ctx)
		for _, r := range c.Refs {
			refs = append(refs, r.Build(ctx, e))
		}
	}()
	refsSx := L()
	for _, r := range c.Refs {
		refsSx.List = append(refsSx.List, r.Sx())
	}
	obsSx := L()
	for _, o := range c.Obs {
		obsSx.List = append(obsSx.List, o.Sx())
	}
	caseSx := L(Sym("case"), A(c.ID), ctx.StacksSx(), c.R.Sx(), refsSx, obsSx)
	out := []Sx{Sym("result"), A(c.ID)}
	if buildPanic != "" {
		out = append(out, L(Sym("build-panic"), A(buildPanic)))
	} else {
		for _, o := range c.Obs {
			out = append(out, observe(o, e, refs))
		}
	}
	return runResult{caseLine: caseSx.String(), obsLine: L(out...).String()}
}

func main() {
	if len(os.Args) < 2 {
		fmt.Fprintln(os.Stderr, "usage: verifharness gen|facts ...")
		os.Exit(2)
	}
	switch os.Args[1] {
	case "gen":
		cmdGen(os.Args[2:])
	default:
		fmt.Fprintln(os.Stderr, "unknown command", os.Args[1])
		os.Exit(2)
	}
}

func cmdGen(args []string) {
	fl := flag.NewFlagSet("gen", flag.ExitOnError)
	prop := fl.String("prop", "", "property id")
	seed := fl.Uint64("seed", 1, "seed")
	n := fl.Int("n", 200, "number of random cases")
	out := fl.String("out", "", "output directory")
	fl.Parse(args)
	if *out == "" || *prop == "" {
		fmt.Fprintln(os.Stderr, "gen: -prop and -out required")
		os.Exit(2)
	}
	os.MkdirAll(*out, 0o755)
	g := NewGen(*seed)
	cases, oracleFails := propCases(*prop, g, *n)

	cf, _ := os.Create(filepath.Join(*out, "cases.sexp"))
	of, _ := os.Create(filepath.Join(*out, "observed.sexp"))
	cw := bufio.NewWriterSize(cf, 1<<20)
	ow := bufio.NewWriterSize(of, 1<<20)
	stats := map[string]int{}
	depthHist := map[int]int{}
	distinct := map[string]bool{}
	var samples []string
	for i, c := range cases {
		res := runCase(c)
		cw.WriteString(res.caseLine)
		cw.WriteByte('\n')
		ow.WriteString(res.obsLine)
		ow.WriteByte('\n')
		c.R.CountOps(stats)
		d := c.R.Depth()
		depthHist[d]++
		if d >= 2 {
			distinct[c.R.Sx().String()] = true
		}
		if i < 3 || (i%97 == 0 && len(samples) < 8) {
			s := c.R.Sx().String()
			if len(s) > 400 {
				s = s[:400] + "..."
			}
			samples = append(samples, s)
		}
	}
	cw.Flush()
	ow.Flush()
	cf.Close()
	of.Close()
	for k, v := range g.Stats {
		stats[k] = v
	}
	meta := map[string]interface{}{
		"prop": *prop, "seed": *seed, "cases": len(cases),
		"distinct_nontrivial": len(distinct),
		"ops": stats, "depth_hist": depthHist, "samples": samples,
		"oracle_failures": oracleFails,
	}
	mb, _ := json.MarshalIndent(meta, "", " ")
	os.WriteFile(filepath.Join(*out, "meta.json"), mb, 0o644)
	keys := make([]string, 0, len(stats))
	for k := range stats {
		keys = append(keys, k)
	}
	sort.Strings(keys)
	fmt.Printf("generated %d cases for %s (seed %d), %d oracle failures\n", len(cases), *prop, *seed, len(oracleFails))
}
