package main

// Oracles: property violations looked for on the implementation alone.  Each
// oracle evaluates the relation a theorem of coq/Props states on what the real
// library returns for one generated case.

import (
	"bytes"
	"context"
	"encoding/json"
	goerr "errors"
	"fmt"
	"github.com/gogo/protobuf/types"
	"net"
	"reflect"
	"regexp"
	"sort"
	"strings"
	dupa "verifharness/dupa/dup"
	dupb "verifharness/dupb/dup"
	"verifharness/ut"

	"github.com/cockroachdb/errors"
	"github.com/cockroachdb/errors/errbase"
	"github.com/cockroachdb/errors/errorspb"
	"github.com/cockroachdb/errors/extgrpc"
	"github.com/cockroachdb/errors/exthttp"
	"github.com/cockroachdb/errors/join"
	"github.com/cockroachdb/errors/oserror"
	"github.com/cockroachdb/errors/report"
	"github.com/cockroachdb/errors/withstack"
	"github.com/cockroachdb/redact"
	"github.com/gogo/protobuf/proto"
	pkgerr "github.com/pkg/errors"
)

// OracleFail is a property violation found on the implementation alone.
type OracleFail struct {
	Prop    string   `json:"prop"`
	CaseID  string   `json:"case"`
	Oracle  string   `json:"oracle"`
	What    string   `json:"what"`
	Matcher string   `json:"matcher,omitempty"`
	Recipe  string   `json:"recipe"`
	Refs    []string `json:"refs,omitempty"`
	Detail  string   `json:"detail"`
	// what `verifharness replay` needs
	ReplayArgs map[string]interface{} `json:"replay_args"`
}

type octx struct {
	c     *Case
	e     error
	refs  []error
	bctx  *BuildCtx
	fails []OracleFail
	name  string
	evals int
}

func (o *octx) fail(what, matcher, detail string) {
	if len(detail) > 3000 {
		detail = detail[:3000] + "..."
	}
	var refs []string
	for _, r := range o.c.Refs {
		refs = append(refs, r.Sx().String())
	}
	hops := [][][]string{}
	hops = append(hops, o.c.Hops...)
	o.fails = append(o.fails, OracleFail{
		Prop: o.c.Prop, CaseID: o.c.ID, Oracle: o.name, What: what, Matcher: matcher,
		Recipe: o.c.R.Sx().String(), Refs: refs, Detail: detail,
		ReplayArgs: map[string]interface{}{
			"recipe": o.c.R.Sx().String(), "refs": refs, "oracles": o.c.Oracles, "hops": hops,
			"utok": o.c.UTok, "stok": o.c.STok, "prop": o.c.Prop, "hostile": o.c.Hostile,
		},
	})
}

type oracleFn func(o *octx)

var oracleTable = map[string]oracleFn{}

func runOracles(c *Case, e error, refs []error, bctx *BuildCtx) (fails []OracleFail, evals int) {
	for _, name := range c.Oracles {
		fn, ok := oracleTable[name]
		if !ok {
			panic("unknown oracle " + name)
		}
		o := &octx{c: c, e: e, refs: refs, bctx: bctx, name: name}
		func() {
			defer func() {
				if r := recover(); r != nil {
					o.fail("panic while evaluating the property on the implementation", "", fmt.Sprint(r))
				}
			}()
			fn(o)
		}()
		fails = append(fails, o.fails...)
		evals += o.evals
	}
	return
}

// ---------------------------------------------------------------------------
// helpers

func marshalEnc(e error) []byte {
	enc := errors.EncodeError(context.Background(), e)
	b, err := proto.Marshal(&enc)
	if err != nil {
		panic(err)
	}
	return b
}

// textTree: Error() at every node of the visible cause tree, with the shape.
func textTree(e error) Sx {
	hd := []Sx{A(e.Error())}
	if c := errors.UnwrapOnce(e); c != nil {
		return L(append(hd, L(Sym("c"), textTree(c)))...)
	}
	if cs := errbase.UnwrapMulti(e); len(cs) > 0 {
		m := []Sx{Sym("m")}
		for _, c := range cs {
			m = append(m, textTree(c))
		}
		return L(append(hd, L(m...))...)
	}
	return L(hd...)
}

// visible nodes in the order of report.visitAllMulti
func visitAll(e error, f func(error)) {
	f(e)
	if c := errors.UnwrapOnce(e); c != nil {
		visitAll(c, f)
	}
	for _, c := range errbase.UnwrapMulti(e) {
		visitAll(c, f)
	}
}

func stripMarkers(s string) string {
	return strings.NewReplacer("\u2039", "", "\u203a", "").Replace(s)
}

// eqModMarkers: recv equals orig except for redaction markers, or '?' where a
// marker was escaped, inserted into recv
func eqModMarkers(orig, recv string) bool {
	i, j := 0, 0
	for j < len(recv) {
		if strings.HasPrefix(recv[j:], "\u2039") || strings.HasPrefix(recv[j:], "\u203a") {
			j += 3
			continue
		}
		if i < len(orig) && orig[i] == recv[j] {
			i++
			j++
			continue
		}
		if recv[j] == '?' {
			j++
			continue
		}
		return false
	}
	return i == len(orig)
}

func isBarrierLike(key string) bool {
	return strings.HasSuffix(key, "barriers/*barriers.barrierErr") || strings.HasSuffix(key, "barriers/*barriers.barrierError")
}

func isSecondary(key string) bool {
	return strings.HasSuffix(key, "secondary/*secondary.withSecondaryError")
}

func stacksSx(e error) Sx {
	out := L()
	for c := e; c != nil; c = errors.UnwrapOnce(c) {
		st := withstack.GetReportableStackTrace(c)
		if st == nil {
			out.List = append(out.List, Sym("none"))
			continue
		}
		fr := L()
		for _, f := range st.Frames {
			fr.List = append(fr.List, L(A(f.Module), A(f.Function), A(f.AbsPath), N(int64(f.Lineno))))
		}
		out.List = append(out.List, fr)
	}
	return out
}

func sourceSx(e error) Sx {
	f, l, fn, ok := withstack.GetOneLineSource(e)
	if !ok {
		return Sym("none")
	}
	return L(A(f), N(int64(l)), A(fn))
}

// accessor vector: every public accessor of annotations (C11 / C07 / C04)
func accVec(e error, withSafeDetails bool) Sx {
	obs := []string{"hints", "details", "links", "keys", "domain", "tags", "flags", "codes", "os"}
	out := L()
	for _, n := range obs {
		out.List = append(out.List, observe(Obs{Name: n}, e, nil))
	}
	if withSafeDetails {
		sd := L(Sym("safedetails"))
		for _, p := range errors.GetAllSafeDetails(e) {
			k := p.ErrorTypeMark.FamilyName
			if isBarrierLike(k) || isSecondary(k) {
				sd.List = append(sd.List, L(A(p.OriginalTypeName), Sym("hidden-rendering-elided")))
				continue
			}
			sd.List = append(sd.List, L(A(p.OriginalTypeName), A(k), A(p.ErrorTypeMark.Extension), Strs(p.SafeDetails)))
		}
		out.List = append(out.List, sd)
		out.List = append(out.List, L(Sym("stacks"), stacksSx(e)), L(Sym("source"), sourceSx(e)))
	}
	return out
}

func firstDiff(a, b string) string {
	n := len(a)
	if len(b) < n {
		n = len(b)
	}
	i := 0
	for i < n && a[i] == b[i] {
		i++
	}
	lo := i - 60
	if lo < 0 {
		lo = 0
	}
	ha, hb := i+120, i+120
	if ha > len(a) {
		ha = len(a)
	}
	if hb > len(b) {
		hb = len(b)
	}
	return fmt.Sprintf("first difference at byte %d:\n  A: %q\n  B: %q", i, a[lo:ha], b[lo:hb])
}

func allKnowing(hops [][]string) bool {
	for _, h := range hops {
		if len(h) > 0 {
			return false
		}
	}
	return true
}

func hopsStr(h [][]string) string { return procsSx(h).String() }

// ---------------------------------------------------------------------------
// C01

func init() {
	oracleTable["C01"] = func(o *octx) {
		if o.e == nil {
			return
		}
		t0 := textTree(o.e).String()
		cur := o.e
		var prev []byte
		for k := 1; k <= 4; k++ {
			cur = transferOnce(cur, nil)
			o.evals++
			if t := textTree(cur).String(); t != t0 {
				o.fail(fmt.Sprintf("text/shape of the cause tree differs after hop %d between knowing processes", k), colonOnlyPrefix(o.e, cur), firstDiff(t0, t))
				return
			}
			b := marshalEnc(cur)
			if prev != nil && !bytes.Equal(prev, b) {
				o.fail(fmt.Sprintf("wire message drifts: re-encoding after hop %d differs from re-encoding after hop %d", k, k-1), "", firstDiff(string(prev), string(b)))
				return
			}
			prev = b
		}
	}
}

// ---------------------------------------------------------------------------
// C02

var grpcPrefixRe = regexp.MustCompile(`rpc error: code = [A-Za-z]+(\(\d+\))? desc = `)

func normKnown(t string) string {
	t = strings.NewReplacer("\u2039", "", "\u203a", "", "?", "").Replace(t)
	return grpcPrefixRe.ReplaceAllString(t, "")
}

// colonOnlyPrefix explains a text difference by the recorded finding colon-only-prefix: the origin holds a
// wrapper of a type that has no encoder of its own (the generic path derives prefix / full message from
// the texts) whose text is exactly ": " + the text of its cause, and the texts differ only in that such
// separators are missing on the other side.
func colonOnlyPrefix(e0, ek error) string {
	has := false
	visitAll(e0, func(x error) {
		if c := errors.UnwrapOnce(x); c != nil && x.Error() == ": "+c.Error() && reflect.TypeOf(x).String() != "*errors.withMessage" {
			has = true
		}
	})
	if !has || ek == nil {
		return ""
	}
	var a, b []error
	visitAll(e0, func(x error) { a = append(a, x) })
	visitAll(ek, func(x error) { b = append(b, x) })
	if len(a) != len(b) {
		return ""
	}
	norm := func(t string) string {
		for strings.Contains(t, ": : ") {
			t = strings.Replace(t, ": : ", ": ", 1)
		}
		return strings.TrimPrefix(t, ": ")
	}
	differs := false
	for i := range a {
		if ta, tb := a[i].Error(), b[i].Error(); ta != tb {
			differs = true
			if norm(ta) != norm(tb) {
				return ""
			}
		}
	}
	if !differs {
		return ""
	}
	return "colon-only-prefix"
}

// colonOnlyText: e holds a wrapper (of a type without encoder) whose text is ": " + cause text, and the two
// renderings are equal once the separators such layers contribute are dropped from both.
func colonOnlyText(e error, a, b string) bool {
	has := false
	visitAll(e, func(x error) {
		if c := errors.UnwrapOnce(x); c != nil && x.Error() == ": "+c.Error() && reflect.TypeOf(x).String() != "*errors.withMessage" {
			has = true
		}
	})
	if !has {
		return false
	}
	norm := func(t string) string {
		for strings.Contains(t, ": : ") {
			t = strings.Replace(t, ": : ", ": ", 1)
		}
		return strings.TrimPrefix(t, ": ")
	}
	return a != b && norm(a) == norm(b)
}

func isGrpcStatusKey(k string) bool {
	return strings.HasSuffix(k, "status/*status.Error") || strings.HasSuffix(k, "status/*status.statusError")
}

// knownTextDiff explains a text difference between the origin e0 and what a
// process shows (ek) by one of the recorded findings, or returns "":
//   - barrier-wire-message-redactable: the tree holds an opaque barrier leaf whose
//     text is the origin's text plus redaction markers, and every differing node
//     differs only by markers (or '?' where an enclosing layer escaped them);
//   - grpc-status-wire-message: the tree holds an opaque gRPC status leaf showing
//     only the status description, and every differing node differs only by the
//     missing "rpc error: code = X desc = " part.
//
// knownTextDiffJourney: the same over a sequence of hops. A text computed at an intermediary that
// does not know a barrier / gRPC status type is frozen into the message of every ancestor that a
// later process keeps as an opaque stand-in, also after the barrier itself has been rebuilt: the
// finding explains the final difference when it explains the state at SOME step and every final
// difference is of the same kind (markers / '?' / the missing status prefix only).
func knownTextDiffJourney(e0 error, hops [][]string) string {
	cur := e0
	seen := ""
	for _, h := range hops {
		if cur == nil {
			return ""
		}
		cur = transferOnce(cur, h)
		if m := knownTextDiff(e0, cur); m != "" && seen == "" {
			seen = m
		}
	}
	if seen == "" || cur == nil {
		return seen
	}
	if m := knownTextDiff(e0, cur); m != "" {
		return m
	}
	var a, b []error
	visitAll(e0, func(x error) { a = append(a, x) })
	visitAll(cur, func(x error) { b = append(b, x) })
	if len(a) != len(b) {
		return ""
	}
	for i := range a {
		if ta, tb := a[i].Error(), b[i].Error(); ta != tb && normKnown(ta) != normKnown(tb) {
			return ""
		}
	}
	return seen
}

func knownTextDiff(e0, ek error) string {
	var a, b []error
	visitAll(e0, func(x error) { a = append(a, x) })
	visitAll(ek, func(x error) { b = append(b, x) })
	if len(a) != len(b) {
		return ""
	}
	differs, opaqueBarrier, opaqueGrpc := false, false, false
	for i := range a {
		ta, tb := a[i].Error(), b[i].Error()
		if ta != tb {
			differs = true
			if normKnown(ta) != normKnown(tb) {
				return ""
			}
		}
		if reflect.TypeOf(b[i]).String() == "*errbase.opaqueLeaf" && ta != tb {
			k := strings.TrimSuffix(string(errbase.GetTypeKey(b[i])), unkSuffix)
			if isBarrierLike(k) && eqModMarkers(ta, tb) {
				opaqueBarrier = true
			}
			if isGrpcStatusKey(k) && grpcPrefixRe.ReplaceAllString(ta, "") == tb {
				opaqueGrpc = true
			}
		}
	}
	if !differs {
		return ""
	}
	if opaqueGrpc {
		return "grpc-status-wire-message"
	}
	if opaqueBarrier {
		return "barrier-wire-message-redactable"
	}
	return ""
}

// every node of e whose Is method accepts r is of a type the process with the
// given unknown keys cannot rebuild (unknown there, or without any decoder)
func isMethodOnlyMatch(e, r error, unknown []string) bool {
	dec := map[string]bool{}
	for _, k := range decoderKeys() {
		dec[k] = true
	}
	for _, k := range unknown {
		dec[k] = false
	}
	found := false
	ok := true
	visitAll(e, func(x error) {
		if m, has := x.(interface{ Is(error) bool }); has && m.Is(r) {
			found = true
			if dec[string(errbase.GetTypeKey(x))] {
				ok = false
			}
		}
	})
	return found && ok
}

// e or r holds a Mark layer and the evaluating process does not know that type
func markAtUnknowing(e, r error, unknown []string) bool {
	unk := false
	for _, k := range unknown {
		if strings.HasSuffix(k, "markers/*markers.withMark") {
			unk = true
		}
	}
	if !unk {
		return false
	}
	has := false
	f := func(x error) {
		if reflect.TypeOf(x).String() == "*markers.withMark" {
			has = true
		}
	}
	visitAll(e, f)
	if r != nil {
		visitAll(r, f)
	}
	return has
}

func hasIsMethod(e error) bool {
	found := false
	visitAll(e, func(x error) {
		if _, ok := x.(interface{ Is(error) bool }); ok {
			found = true
		}
	})
	return found
}

func init() {
	oracleTable["C02"] = func(o *octx) {
		if strings.HasSuffix(o.c.ID, "-0") || strings.HasSuffix(o.c.ID, "-1") {
			if why, detail := bareJoinNesting(); why != "" {
				o.evals++
				o.fail(why, "", detail)
				return
			}
		}
		if o.e == nil {
			return
		}
		for _, hops := range o.c.Hops {
			ek := transfer(o.e, hops)
			for i, r := range o.refs {
				b0 := errors.Is(o.e, r)
				bk := errors.Is(ek, r)
				o.evals++
				if b0 && !bk && markAtUnknowing(o.e, r, hops[len(hops)-1]) {
					// a forced mark can only be honoured by a process that knows the mark layer
					continue
				}
				if b0 && !bk && isMethodOnlyMatch(o.e, r, hops[len(hops)-1]) {
					// the match came from a type's own Is method and the evaluating
					// process cannot rebuild that type: nothing to preserve
					continue
				}
				if b0 != bk {
					m := ""
					m = knownTextDiffJourney(o.e, hops)
					o.fail(fmt.Sprintf("Is(e, ref %d) = %v before transfer but %v after hops %s", i, b0, bk, hopsStr(hops)), m,
						fmt.Sprintf("ref: %s", o.c.Refs[i].Sx().String()))
					return
				}
				if r == nil {
					continue
				}
				// both transferred
				rk := transfer(r, hops)
				if bb := errors.Is(ek, rk); bb != b0 && !(bb && markAtUnknowing(o.e, r, hops[len(hops)-1])) {
					m := ""
					if m = knownTextDiffJourney(o.e, hops); m == "" {
						m = knownTextDiffJourney(r, hops)
					}
					if !(b0 && !bb && (identityIsMethodMatch(o.e, r) || markAtUnknowing(o.e, r, hops[len(hops)-1]))) {
						o.fail(fmt.Sprintf("Is(e, ref %d) = %v locally but %v when both crossed hops %s", i, b0, bb, hopsStr(hops)), m,
							fmt.Sprintf("ref: %s", o.c.Refs[i].Sx().String()))
						return
					}
				}
				// only the reference transferred: no new match; matches kept unless they
				// came from a foreign Is method
				rb := errors.Is(o.e, rk)
				if rb && !b0 {
					o.fail(fmt.Sprintf("Is(e, ref %d) false locally but true once the reference crossed hops %s", i, hopsStr(hops)), "",
						fmt.Sprintf("ref: %s", o.c.Refs[i].Sx().String()))
					return
				}
				if b0 && !rb && !hasIsMethod(o.e) && !markAtUnknowing(o.e, r, hops[len(hops)-1]) {
					// (a reference that holds a Mark layer and was last decoded by a process that does not know
					// that layer carries the layer as an opaque wrapper: its forced mark cannot be honoured there)
					m := ""
					m = knownTextDiffJourney(r, hops)
					o.fail(fmt.Sprintf("Is(e, ref %d) true locally but false once only the reference crossed hops %s (no Is method involved)", i, hopsStr(hops)), m,
						fmt.Sprintf("ref: %s", o.c.Refs[i].Sx().String()))
					return
				}
			}
		}
	}
}

// the local match of e against r is produced only by a type's own Is method
// (syscall.Errno against the os sentinels, the harness' IsTag, gRPC status):
// such a match is by object identity / in-process type and is exempted by the
// property when the reference has been transferred.
func identityIsMethodMatch(e, r error) bool {
	if !hasIsMethod(e) {
		return false
	}
	// would the match survive without any Is method?  Compare through marks:
	// a fresh copy of r obtained by transfer has the same mark and no identity.
	r2 := transferOnce(r, nil)
	e2 := transferOnce(e, nil)
	return !errors.Is(e2, r2)
}

// ---------------------------------------------------------------------------
// C03 / C12: tokens

var multiX = regexp.MustCompile("\u2039[^\u2039\u203a]*\u203a")

type safeOutputs struct {
	names []string
	texts []string
}

func (s *safeOutputs) add(n, t string) { s.names = append(s.names, n); s.texts = append(s.texts, t) }

func encReportables(e *errorspb.EncodedError, out *[]string) {
	if e == nil {
		return
	}
	var d *errorspb.EncodedErrorDetails
	if w := e.GetWrapper(); w != nil {
		encReportables(&w.Cause, out)
		d = &w.Details
	} else if l := e.GetLeaf(); l != nil {
		d = &l.Details
		for _, c := range l.MultierrorCauses {
			encReportables(c, out)
		}
	}
	if d == nil {
		return
	}
	*out = append(*out, d.OriginalTypeName, d.ErrorTypeMark.FamilyName, d.ErrorTypeMark.Extension)
	*out = append(*out, d.ReportablePayload...)
}

// every output the library declares PII-free
func piiFreeOutputs(e error) *safeOutputs {
	s := &safeOutputs{}
	s.add("redact.Sprint(e).Redact()", string(redact.Sprint(e).Redact()))
	s.add("redact.Sprintf(%+v).Redact()", string(redact.Sprintf("%+v", e).Redact()))
	// every other verb and flag combination through the redact package too
	for _, v := range []string{"%s", "%q", "%x", "%#v", "%+#v", "%+q", "%10v", "%.3v", "%d"} {
		s.add("redact.Sprintf("+v+").Redact()", string(redact.Sprintf(v, e).Redact()))
	}
	// ... and as an argument of another error's message, with a verb the caller chose
	for _, v := range []string{"%#v", "%q", "%+q"} {
		w := errors.Newf("outer "+v, e)
		s.add("redact.Sprint(Newf(\"outer "+v+"\", e)).Redact()", string(redact.Sprint(w).Redact()))
		for i, p := range errors.GetAllSafeDetails(w) {
			s.add(fmt.Sprintf("GetAllSafeDetails(Newf(\"outer %s\", e))[%d]", v, i), strings.Join(p.SafeDetails, "\n"))
		}
	}
	for i, p := range errors.GetAllSafeDetails(e) {
		s.add(fmt.Sprintf("GetAllSafeDetails[%d]", i), p.OriginalTypeName+"\n"+p.ErrorTypeMark.FamilyName+"\n"+p.ErrorTypeMark.Extension+"\n"+strings.Join(p.SafeDetails, "\n"))
	}
	enc := errors.EncodeError(context.Background(), e)
	var reps []string
	encReportables(&enc, &reps)
	s.add("reportable payload on the wire", strings.Join(reps, "\n"))
	ev, extras := report.BuildSentryReport(e)
	if ev != nil {
		s.add("sentry event message", ev.Message)
		for i, ex := range ev.Exception {
			s.add(fmt.Sprintf("sentry exception %d", i), ex.Type+"\n"+ex.Value+"\n"+ex.Module)
		}
		keys := make([]string, 0, len(extras))
		for k := range extras {
			keys = append(keys, k)
		}
		sort.Strings(keys)
		for _, k := range keys {
			s.add("sentry extra "+k, k+"\n"+fmt.Sprint(extras[k]))
		}
		// every other field of the event (tags, extra, contexts, user, fingerprint, breadcrumbs ...): whatever
		// the report builder puts anywhere in the event leaves the process with it
		if js, err := json.Marshal(ev); err == nil {
			s.add("sentry event (all fields, JSON)", string(js))
		}
		for k, v := range ev.Tags {
			s.add("sentry event tag "+k, k+"="+v)
		}
	}
	return s
}

func init() {
	oracleTable["C03"] = func(o *octx) {
		if o.e == nil {
			return
		}
		check := func(where string, e error) bool {
			outs := piiFreeOutputs(e)
			for _, t := range o.c.UTok {
				o.evals++
				for i, txt := range outs.texts {
					if strings.Contains(txt, t) {
						o.fail(fmt.Sprintf("unsafe token %s appears in %s (%s)", t, outs.names[i], where), "", excerpt(txt, t))
						return false
					}
				}
			}
			return true
		}
		if !check("locally", o.e) {
			return
		}
		for _, hops := range o.c.Hops {
			if !check("after hops "+hopsStr(hops), transfer(o.e, hops)) {
				return
			}
		}
		// a relay (or a sender without the encoders) that forwards the messages but not the typed
		// payloads: whatever a decoder rebuilds from the message alone must stay unsafe
		stripped := errors.EncodeError(context.Background(), o.e)
		var walk func(x *errorspb.EncodedError)
		walk = func(x *errorspb.EncodedError) {
			if w := x.GetWrapper(); w != nil {
				if !isSecondary(w.Details.ErrorTypeMark.FamilyName) {
					w.Details.FullDetails = nil
				}
				walk(&w.Cause)
			} else if l := x.GetLeaf(); l != nil {
				if !isBarrierLike(l.Details.ErrorTypeMark.FamilyName) {
					l.Details.FullDetails = nil
				}
				for _, c := range l.MultierrorCauses {
					walk(c)
				}
			}
		}
		walk(&stripped)
		if !check("received without the typed payloads", errors.DecodeError(context.Background(), stripped)) {
			return
		}
		// a peer running the previous version of the library: its barriers arrive under the old type name
		// with a plain-text message, every byte of which is unsafe
		if old := legacyBarriersWith(o.e, ""); old != nil {
			if !check("received from a peer that sends barriers in the previous format", old) {
				return
			}
			if !check("received from such a peer and forwarded once more", transfer(old, [][]string{{}})) {
				return
			}
		}
	}
	oracleTable["C12"] = func(o *octx) {
		if o.e == nil {
			return
		}
		// a token generated for a sub-recipe that evaluates to nil (WithSecondaryError(nil, x), Wrap(nil, m), ...)
		// is not part of the error at all: it occurs nowhere in the full plain rendering
		full := fmt.Sprintf("%+v", errors.Formattable(o.e))
		// ... and, judged on the constructor expression alone: the strings of the parts that are not dropped
		live := liveStrings(o.c.R)
		check := func(where string, e error) bool {
			ev, _ := report.BuildSentryReport(e)
			var b strings.Builder
			b.WriteString(ev.Message)
			for _, ex := range ev.Exception {
				b.WriteString("\n" + ex.Type + "\n" + ex.Value + "\n" + ex.Module)
				if ex.Stacktrace != nil {
					for _, f := range ex.Stacktrace.Frames {
						b.WriteString("\n" + f.Function + " " + f.Module + " " + f.AbsPath)
					}
				}
			}
			var addDetails func(e error)
			addDetails = func(e error) {
				for _, p := range errors.GetAllSafeDetails(e) {
					b.WriteString("\n" + p.OriginalTypeName + "\n" + p.ErrorTypeMark.FamilyName + "\n" + p.ErrorTypeMark.Extension + "\n" + strings.Join(p.SafeDetails, "\n"))
				}
			}
			addDetails(e)
			all := b.String()
			for _, t := range o.c.STok {
				if !strings.Contains(full, t) && !strings.Contains(live, t) {
					continue
				}
				o.evals++
				if !strings.Contains(all, t) {
					o.fail(fmt.Sprintf("safe token %s is in neither the Sentry report nor GetAllSafeDetails (%s)", t, where), "", "")
					return false
				}
			}
			return true
		}
		if !check("locally", o.e) {
			return
		}
		for _, hops := range o.c.Hops {
			if !check("after hops "+hopsStr(hops), transfer(o.e, hops)) {
				return
			}
		}
	}
}

func excerpt(txt, tok string) string {
	i := strings.Index(txt, tok)
	lo, hi := i-150, i+len(tok)+100
	if lo < 0 {
		lo = 0
	}
	if hi > len(txt) {
		hi = len(txt)
	}
	return fmt.Sprintf("...%q...", txt[lo:hi])
}

// ---------------------------------------------------------------------------
// C04

func typeNamesAndDetails(e error) string {
	var b strings.Builder
	visitAll(e, func(x error) {
		p := errors.GetSafeDetails(x)
		k := p.ErrorTypeMark.FamilyName
		b.WriteString(p.OriginalTypeName + " | " + k + " | " + p.ErrorTypeMark.Extension)
		if !isBarrierLike(k) && !isSecondary(k) {
			b.WriteString(" | " + strings.Join(p.SafeDetails, " ; "))
		}
		b.WriteString("\n")
	})
	return b.String()
}

// every node of the decoded error reports the origin's type name; opaque
// nodes report exactly the reportable payload the origin put on the wire
func keepsNamesAndDetails(origin, decoded error) string {
	enc := errors.EncodeError(context.Background(), origin)
	var why string
	var walk func(x *errorspb.EncodedError, d error)
	walk = func(x *errorspb.EncodedError, d error) {
		if why != "" || d == nil {
			return
		}
		var det *errorspb.EncodedErrorDetails
		if w := x.GetWrapper(); w != nil {
			det = &w.Details
			c := errors.UnwrapOnce(d)
			if c == nil {
				why = fmt.Sprintf("wrapper %s decoded without a cause", det.OriginalTypeName)
				return
			}
			walk(&w.Cause, c)
		} else if l := x.GetLeaf(); l != nil {
			det = &l.Details
			cs := errbase.UnwrapMulti(d)
			if len(cs) != len(l.MultierrorCauses) {
				why = fmt.Sprintf("%s decoded with %d causes for %d sent", det.OriginalTypeName, len(cs), len(l.MultierrorCauses))
				return
			}
			for i, c := range l.MultierrorCauses {
				walk(c, cs[i])
			}
		}
		sd := errors.GetSafeDetails(d)
		if strings.HasPrefix(reflect.TypeOf(d).String(), "*errbase.opaque") {
			if sd.OriginalTypeName != det.OriginalTypeName || sd.ErrorTypeMark.FamilyName != det.ErrorTypeMark.FamilyName ||
				sd.ErrorTypeMark.Extension != det.ErrorTypeMark.Extension {
				why = fmt.Sprintf("opaque node reports type %s/%s for %s/%s sent", sd.OriginalTypeName, sd.ErrorTypeMark.FamilyName, det.OriginalTypeName, det.ErrorTypeMark.FamilyName)
				return
			}
			k := det.ErrorTypeMark.FamilyName
			if isBarrierLike(k) || isSecondary(k) {
				// these details embed a rendering of the hidden error, which a
				// partially knowing intermediary recomputes from what it decoded
				return
			}
			if !reflect.DeepEqual(nonNil(sd.SafeDetails), nonNil(det.ReportablePayload)) {
				why = fmt.Sprintf("opaque %s reports safe details %q for %q sent", det.OriginalTypeName, sd.SafeDetails, det.ReportablePayload)
			}
		} else if sd.ErrorTypeMark.FamilyName != det.ErrorTypeMark.FamilyName {
			why = fmt.Sprintf("node of family %s decoded as family %s", det.ErrorTypeMark.FamilyName, sd.ErrorTypeMark.FamilyName)
		}
	}
	walk(&enc, decoded)
	return why
}

func verboseNoStacks(e error) string {
	s := fmt.Sprintf("%+v", errors.Formattable(e))
	return s
}

func init() {
	oracleTable["C04"] = func(o *octx) {
		if o.e == nil {
			return
		}
		e1 := transferOnce(o.e, nil) // what a knowing receiver gets directly
		t0 := textTree(o.e).String()
		// a process that knows NONE of the types, and every node carrying some payload (also the
		// multi-cause ones): what it re-emits is byte for byte what it received
		o.evals++
		if why, detail := opaqueRoundTrip(o.e); why != "" {
			o.fail(why, "", detail)
			return
		}
		for _, hops := range o.c.Hops {
			// the same journey with the other simulation of "does not know the type": the family
			// names are renamed on the wire and every decoder stays registered
			if why, detail := renamedJourney(o.e, e1, hops, t0); why != "" {
				o.evals++
				o.fail("with unknown types simulated by renaming families on the wire, hops "+hopsStr(hops)+": "+why, "", detail)
				return
			}
			// hops: unknowing / partially knowing intermediaries
			cur := o.e
			for hi, h := range hops {
				received := marshalEnc(cur)
				nxt := transferOnce(cur, h)
				o.evals++
				// same text at every node as at the origin
				if t := textTree(nxt).String(); t != t0 {
					m := ""
					m = knownTextDiff(o.e, nxt)
					if m == "" {
						m = colonOnlyPrefix(o.e, nxt)
					}
					o.fail(fmt.Sprintf("Error() text / shape at intermediary %d (unknown keys %v) differs from the origin", hi, h), m, firstDiff(t0, t))
					return
				}
				// a process that knows nothing re-emits exactly what it received
				if len(h) > 0 && knowsNothingOf(h, nxt) {
					again := marshalEnc(nxt)
					if !bytes.Equal(received, again) {
						o.fail(fmt.Sprintf("intermediary %d re-encodes a message different from the one it received", hi), "", firstDiff(string(received), string(again)))
						return
					}
				}
				if hi > 0 || len(h) == 0 {
					// no drift from the first hop on
				}
				cur = nxt
			}
			// origin's type names and safe details are kept at the last intermediary
			if why := keepsNamesAndDetails(o.e, cur); why != "" {
				o.fail("type names / safe details after hops "+hopsStr(hops)+" are not those the origin sent: "+why, "", "")
				return
			}
			// a later knowing process reconstructs the same error as if received directly
			fin := transferOnce(cur, nil)
			if a, b := shapeSx(e1).String(), shapeSx(fin).String(); a != b {
				o.fail("knowing receiver after hops "+hopsStr(hops)+" reconstructs a different tree than a direct receiver", "", firstDiff(a, b))
				return
			}
			if a, b := accVec(e1, true).String(), accVec(fin, true).String(); a != b {
				o.fail("knowing receiver after hops "+hopsStr(hops)+": annotations differ from direct receipt", "", firstDiff(a, b))
				return
			}
			if a, b := verboseNoStacks(e1), verboseNoStacks(fin); a != b {
				o.fail("knowing receiver after hops "+hopsStr(hops)+": %+v differs from direct receipt", "", firstDiff(a, b))
				return
			}
			for i, r := range o.refs {
				if errors.Is(e1, r) != errors.Is(fin, r) {
					o.fail(fmt.Sprintf("knowing receiver after hops %s: Is(ref %d) differs from direct receipt", hopsStr(hops), i), "", o.c.Refs[i].Sx().String())
					return
				}
			}
		}
	}
}

const unkSuffix = "#not-known-here"

func renameFamilies(x *errorspb.EncodedError, keys map[string]bool, strip bool) {
	one := func(d *errorspb.EncodedErrorDetails) {
		if strip {
			d.ErrorTypeMark.FamilyName = strings.TrimSuffix(d.ErrorTypeMark.FamilyName, unkSuffix)
		} else if keys[d.ErrorTypeMark.FamilyName] {
			d.ErrorTypeMark.FamilyName += unkSuffix
		}
	}
	if w := x.GetWrapper(); w != nil {
		one(&w.Details)
		renameFamilies(&w.Cause, keys, strip)
	} else if l := x.GetLeaf(); l != nil {
		one(&l.Details)
		for _, c := range l.MultierrorCauses {
			renameFamilies(c, keys, strip)
		}
	}
}

func familyTree(x *errorspb.EncodedError) string {
	if w := x.GetWrapper(); w != nil {
		return "(" + w.Details.ErrorTypeMark.FamilyName + " " + familyTree(&w.Cause) + ")"
	}
	if l := x.GetLeaf(); l != nil {
		s := "(" + l.Details.ErrorTypeMark.FamilyName
		for _, c := range l.MultierrorCauses {
			s += " " + familyTree(c)
		}
		return s + ")"
	}
	return "()"
}

func renamedJourney(origin, direct error, hops [][]string, t0 string) (string, string) {
	ctx := context.Background()
	wire := errors.EncodeError(ctx, origin)
	for hi, h := range hops {
		keys := map[string]bool{}
		for _, k := range h {
			keys[k] = true
		}
		bs, err := proto.Marshal(&wire)
		if err != nil {
			panic(err)
		}
		var in errorspb.EncodedError
		if err := proto.Unmarshal(bs, &in); err != nil {
			panic(err)
		}
		renameFamilies(&in, keys, false)
		want := familyTree(&in)
		mid := errors.DecodeError(ctx, in)
		if t := textTree(mid).String(); t != t0 && knownTextDiff(origin, mid) == "" && colonOnlyPrefix(origin, mid) == "" {
			return fmt.Sprintf("Error() text / shape at intermediary %d differs from the origin", hi), firstDiff(t0, t)
		}
		out := errors.EncodeError(ctx, mid)
		if got := familyTree(&out); got != want {
			return fmt.Sprintf("intermediary %d forwards other type families than it received (a type it does not know must stay as sent)", hi), firstDiff(want, got)
		}
		renameFamilies(&out, nil, true)
		wire = out
	}
	fin := errors.DecodeError(ctx, wire)
	if a, b := shapeSx(direct).String(), shapeSx(fin).String(); a != b {
		return "knowing receiver reconstructs a different tree than a direct receiver", firstDiff(a, b)
	}
	if a, b := verboseNoStacks(direct), verboseNoStacks(fin); a != b && knownTextDiff(origin, fin) == "" && colonOnlyPrefix(origin, fin) == "" {
		return "%+v at the knowing receiver differs from direct receipt", firstDiff(a, b)
	}
	return "", ""
}

// every node of the decoded error is an opaque type (the process knew none of
// the types involved)
func knowsNothingOf(h []string, decoded error) bool {
	all := true
	visitAll(decoded, func(x error) {
		if !strings.HasPrefix(reflect.TypeOf(x).String(), "*errbase.opaque") {
			all = false
		}
	})
	return all
}

// ---------------------------------------------------------------------------
// C06

// markers balanced, never nested, balanced within every line
func markersWellFormed(s string) (bool, string) {
	for ln, line := range strings.Split(s, "\n") {
		open := false
		for i := 0; i < len(line); {
			if strings.HasPrefix(line[i:], "\u2039") {
				if open {
					return false, fmt.Sprintf("nested opening marker on line %d: %q", ln+1, line)
				}
				open = true
				i += 3
				continue
			}
			if strings.HasPrefix(line[i:], "\u203a") {
				if !open {
					return false, fmt.Sprintf("closing marker without opening one on line %d: %q", ln+1, line)
				}
				open = false
				i += 3
				continue
			}
			i++
		}
		if open {
			return false, fmt.Sprintf("marker left open at the end of line %d: %q", ln+1, line)
		}
	}
	return true, ""
}

func init() {
	oracleTable["C06wf"] = func(o *octx) {
		if o.e == nil {
			return
		}
		var hopsOf [][]string
		check := func(where string, e error) bool {
			for _, v := range []string{"%v", "%s", "%+v"} {
				s := string(redact.Sprintf(v, e))
				o.evals++
				if ok, why := markersWellFormed(s); !ok {
					m := ""
					if fixed, had := sanitizeTruncatedMarkers(o.c.R); had {
						// recorded finding: a marker rune assembled across a line break / a nesting seam from a
						// truncated prefix of its UTF-8 encoding.  Accepted only if the same expression without
						// those dangling prefix bytes renders well-formed everywhere.
						fe := fixed.Build(&BuildCtx{})
						if hopsOf != nil {
							fe = transfer(fe, hopsOf)
						}
						good := fe != nil
						for _, v2 := range []string{"%v", "%s", "%+v"} {
							if good {
								good, _ = markersWellFormed(string(redact.Sprintf(v2, fe)))
							}
						}
						if good {
							m = "marker-assembled-from-truncated-utf8"
						}
					}
					o.fail(fmt.Sprintf("redactable %s rendering is not well-formed (%s): %s", v, where, why), m, s)
					return false
				}
			}
			return true
		}
		if !check("local", o.e) {
			return
		}
		// barriers as an older peer sends them: previous type name, plain-text message
		if legacy := legacyBarriers(o.e); legacy != nil {
			if !check("received from a peer that uses the previous barrier type name", legacy) {
				return
			}
		}
		for _, hops := range o.c.Hops {
			hopsOf = hops
			if !check("after hops "+hopsStr(hops), transfer(o.e, hops)) {
				return
			}
		}
	}
	oracleTable["C06congr"] = func(o *octx) {
		if o.e == nil {
			return
		}
		check := func(where string, e error) bool {
			if _, ok := e.(redact.SafeMessager); ok {
				// redact prints a SafeMessager argument through SafeMessage(), whatever else it is
				return true
			}
			for _, v := range []string{"%v", "%s", "%+v"} {
				red := string(redact.Sprintf(v, e))
				plain := fmt.Sprintf(v, errors.Formattable(e))
				o.evals++
				if stripMarkers(red) != plain {
					o.fail(fmt.Sprintf("stripping the markers of the redactable %s rendering does not give the plain rendering (%s)", v, where), "", firstDiff(stripMarkers(red), plain))
					return false
				}
			}
			// unsupported verbs are refused, never rendered unsafely
			for _, v := range []string{"%q", "%x", "%X", "%d"} {
				red := string(redact.Sprintf(v, e))
				o.evals++
				if ok, _ := markersWellFormed(red); !ok {
					o.fail("redactable rendering with verb "+v+" is not well-formed", "", red)
					return false
				}
				r := string(redact.RedactableString(red).Redact())
				for _, t := range o.c.UTok {
					if strings.Contains(r, t) {
						o.fail("unsupported verb "+v+" renders unsafe text outside markers", "", red)
						return false
					}
				}
				if !strings.Contains(red, "%!"+v[1:]+"(") {
					o.fail("unsupported verb "+v+" is not refused with the %!verb(type) notation in redactable output", "", red)
					return false
				}
			}
			for _, v := range []string{"%#v", "%+#v", "%#+v"} {
				red := string(redact.Sprintf(v, e))
				o.evals++
				if ok, _ := markersWellFormed(red); !ok || !strings.Contains(red, "%!v(") {
					o.fail("the Go-syntax verb "+v+" is not refused in redactable output", "", red)
					return false
				}
			}
			return true
		}
		if !check("local", o.e) {
			return
		}
		for _, hops := range o.c.Hops {
			if !check("after hops "+hopsStr(hops), transfer(o.e, hops)) {
				return
			}
		}
	}
}

// ---------------------------------------------------------------------------
// C07: refs[0] is the same context built over a different hidden payload

func causeVec(e error, refs []error) Sx {
	out := L(accVec(e, false))
	out.List = append(out.List, L(Sym("root"), A(goFullName(errors.UnwrapAll(e))), A(errors.UnwrapAll(e).Error())))
	ch := L(Sym("chain"))
	for c := e; c != nil; c = errors.UnwrapOnce(c) {
		ch.List = append(ch.List, A(reflect.TypeOf(c).String()))
	}
	out.List = append(out.List, ch)
	for _, t := range asIfaceTargets {
		if t == "safedetailer" || t == "safeformatter" {
			continue // the barrier itself implements those; the node found is compared by type only
		}
		out.List = append(out.List, asTargetTypeOnly(e, "iface", t))
	}
	for _, t := range asTypeTargets {
		out.List = append(out.List, asTargetTypeOnly(e, "type", t))
	}
	for i, r := range refs {
		out.List = append(out.List, L(Sym("is"), N(int64(i)), B(errors.Is(e, r))))
	}
	return out
}

func dropMarkers(s string) string {
	return strings.NewReplacer("\\xe2\\x80\\xb9", "", "\\xe2\\x80\\xba", "", "?", "", "\"", "").Replace(s)
}

func asTargetTypeOnly(e error, kind, name string) Sx {
	r := asTarget(e, kind, name)
	if !r.IsAtom && len(r.List) == 3 {
		return L(r.List[0], r.List[1])
	}
	return r
}

func init() {
	oracleTable["C07"] = func(o *octx) {
		if _, wantNil := specText(o.c.R); wantNil != (o.e == nil) {
			o.evals++
			o.fail(fmt.Sprintf("the expression is nil: %v, by the documented nil propagation it should be nil: %v (a secondary / hidden error must never become the error itself)", o.e == nil, wantNil), "", "")
			return
		}
		if o.e == nil || len(o.refs) == 0 || o.refs[0] == nil {
			return
		}
		e2 := o.refs[0] // variant with the hidden payloads swapped
		probe := o.refs[1:]
		check := func(where string, a, b error) bool {
			o.evals++
			va, vb := causeVec(a, probe).String(), causeVec(b, probe).String()
			if where != "local" {
				// at a process that does not know the barrier type its message is shown with
				// redaction markers (recorded finding); their placement depends on how the
				// barrier message was built, not on what is hidden: compare the texts without
				// markers and the identity questions against the sentinels only
				va, vb = dropMarkers(causeVec(a, probe[:10]).String()), dropMarkers(causeVec(b, probe[:10]).String())
			}
			if va != vb {
				o.fail("cause analysis ("+where+") depends on what is hidden behind a barrier / in a secondary error / in a Mark reference", "", firstDiff(va, vb))
				return false
			}
			return true
		}
		if !check("local", o.e, e2) {
			return
		}
		for _, hops := range o.c.Hops {
			if !check("after hops "+hopsStr(hops), transfer(o.e, hops), transfer(e2, hops)) {
				return
			}
		}
	}
	// hidden errors stay visible in %+v and contribute safe details
	// visibility: whatever is hidden behind a barrier, attached as secondary error, or passed as an
	// error argument to a formatting constructor stays visible in the verbose rendering: the hints
	// and details of the hidden error (which only its own %+v shows) occur in %+v of the whole error
	oracleTable["C07vis"] = func(o *octx) {
		if o.e == nil {
			return
		}
		pv := fmt.Sprintf("%+v", errors.Formattable(o.e))
		var hidden []*R
		var walk func(r *R)
		walk = func(r *R) {
			if r == nil {
				return
			}
			if _, isNil := specText(r); isNil {
				return
			}
			switch r.Op {
			case "handled", "handledmsg", "handledmsgf", "handledindomain", "handledindomainmsg", "handleassert":
				hidden = append(hidden, r.Kids[0])
			case "secondary", "combine":
				if _, n := specText(r.Kids[0]); !n {
					hidden = append(hidden, r.Kids[1])
				}
			case "newf", "assertf", "wrapf":
				for _, p := range r.Fmt {
					if p.Kind == "err" && p.R != nil {
						hidden = append(hidden, p.R)
					}
				}
			}
			for i, k := range r.Kids {
				if r.Op == "mark" && i == 1 {
					continue
				}
				walk(k)
			}
			for _, p := range r.Fmt {
				// an error argument is part of the error only where the constructor attaches its arguments
				// (Newf / AssertionFailedf / Wrapf / NewAssertionErrorWithWrappedErrf) or wraps them (%w of
				// fmt.Errorf); HandledWithMessagef, WithMessagef, WithHintf ... only print it
				switch r.Op {
				case "newf", "assertf", "wrapf", "newassertwrapped":
					walk(p.R)
				case "fmterrorf":
					if p.Verb == "w" {
						walk(p.R)
					}
				}
			}
		}
		walk(o.c.R)
		// a barrier on the direct chain: what its hidden error declares safe (one-line details) stays among
		// the safe details of the whole error, here and after every hop -- also at a process that knows
		// none of the types and keeps the barrier as an opaque leaf
		cur := o.c.R
		for cur != nil {
			if _, isNil := specText(cur); isNil {
				break
			}
			if strings.HasPrefix(cur.Op, "handle") {
				he := cur.Kids[0].Build(&BuildCtx{})
				var want []string
				for he != nil {
					for _, d := range errbase.GetSafeDetails(he).SafeDetails {
						// (the "masked error: ..." line of an inner barrier is a rendering, recomputed by every
						// process from what it decoded: a user type's SafeMessage is safe only where the type exists)
						if len(d) > 2 && !strings.Contains(d, "\n") && !strings.Contains(d, "masked error:") {
							want = append(want, d)
						}
					}
					he = errors.UnwrapOnce(he)
				}
				where := append([][][]string{nil}, o.c.Hops...)
				for _, hops := range where {
					x := o.e
					if hops != nil {
						x = transfer(o.e, hops)
					}
					var b strings.Builder
					for _, p := range errors.GetAllSafeDetails(x) {
						b.WriteString(strings.Join(p.SafeDetails, "\n") + "\n")
					}
					all := b.String()
					for _, d := range want {
						o.evals++
						if !strings.Contains(all, d) {
							o.fail("a safe detail of the error hidden behind a barrier is not among the safe details of the whole error after hops "+hopsStr(hops), "", fmt.Sprintf("%q", d))
							return
						}
					}
				}
				break
			}
			if len(cur.Kids) == 0 || cur.Op == "join" || cur.Op == "stdjoin" || cur.Op == "transfer" {
				break
			}
			cur = cur.Kids[0]
		}
		for _, h := range hidden {
			if _, isNil := specText(h); isNil {
				continue
			}
			// the texts given to WithHint / WithDetail inside the hidden error: only its own %+v shows them
			var marks []string
			var collect func(x *R)
			collect = func(x *R) {
				if x == nil {
					return
				}
				if _, n := specText(x); n {
					return
				}
				if x.Op == "hint" || x.Op == "detail" {
					marks = append(marks, x.S[0])
				}
				for i, k := range x.Kids {
					if x.Op == "mark" && i == 1 {
						continue // the reference of Mark is not kept, only its mark
					}
					collect(k)
				}
			}
			collect(h)
			for _, m := range marks {
				if m == "" || strings.ContainsAny(m, "\n") || strings.TrimSpace(m) != m {
					continue
				}
				o.evals++
				if !strings.Contains(pv, m) {
					o.fail("a hint / detail of an error that is hidden (barrier), attached (secondary) or passed as argument to a formatting constructor is not shown in %+v of the whole error",
						"", fmt.Sprintf("%q of %s", m, h.Sx().String()))
					return
				}
			}
		}
	}
}

func init() {
	// root recipe is (mark e ref); refs[0] is e rebuilt: the reference adds nothing but its mark
	oracleTable["C07mark"] = func(o *octx) {
		if o.e == nil || len(o.refs) == 0 || o.refs[0] == nil {
			return
		}
		strip := func(x Sx) string { return x.String() }
		check := func(where string, marked, plain error) bool {
			o.evals++
			a := causeVec(errors.UnwrapOnce(marked), nil)
			b := causeVec(plain, nil)
			if reflect.TypeOf(marked).String() != "*markers.withMark" {
				// at an unknowing process the layer is an opaque wrapper
				if !strings.HasPrefix(reflect.TypeOf(marked).String(), "*errbase.opaque") {
					o.fail("Mark did not add exactly one layer ("+where+")", "", fmt.Sprintf("%T", marked))
					return false
				}
			}
			if strip(a) != strip(b) {
				o.fail("the error below a Mark layer differs from the unmarked error ("+where+")", "", firstDiff(strip(a), strip(b)))
				return false
			}
			// the OS predicates are Is questions about sentinels: the mark is meant to answer those
			// (Mark(e, ref) matches what ref matches), so they are not among the accessors compared
			noOS := func(x Sx) string {
				if n := len(x.List); n > 0 {
					x.List = x.List[:n-1]
				}
				return x.String()
			}
			va, vb := noOS(accVec(marked, false)), noOS(accVec(plain, false))
			if errors.IsAssertionFailure(plain) {
				// IsAssertionFailure looks at the outermost layer only, which is the mark
				vb = noOS(accVec(errors.WithDetail(plain, ""), false))
				va = noOS(accVec(errors.WithDetail(marked, ""), false))
			}
			if va != vb {
				o.fail("the reference given to Mark contributes to an accessor ("+where+")", "", firstDiff(va, vb))
				return false
			}
			if marked.Error() != plain.Error() {
				o.fail("Mark changes the message", "", "")
				return false
			}
			ra, rb := errors.UnwrapAll(marked), errors.UnwrapAll(plain)
			if goFullName(ra) != goFullName(rb) || ra.Error() != rb.Error() {
				o.fail("Mark changes the root cause ("+where+")", "", "")
				return false
			}
			for _, t := range asTypeTargets {
				if x, y := asTargetTypeOnly(marked, "type", t).String(), asTargetTypeOnly(plain, "type", t).String(); x != y {
					o.fail("the reference given to Mark is reachable through As ("+where+")", "", t+": "+x+" vs "+y)
					return false
				}
			}
			return true
		}
		if !check("local", o.e, o.refs[0]) {
			return
		}
		for _, hops := range o.c.Hops {
			if !check("after hops "+hopsStr(hops), transfer(o.e, hops), transfer(o.refs[0], hops)) {
				return
			}
		}
	}
}

// ---------------------------------------------------------------------------
// C08

func init() {
	oracleTable["C08"] = func(o *octx) {
		if strings.HasSuffix(o.c.ID, "-0") || strings.HasSuffix(o.c.ID, "-1") {
			if why, detail := mcauseShapes(false); why != "" {
				o.evals++
				o.fail(why, "", detail)
				return
			}
			if why, detail := sameShortName(); why != "" {
				o.evals++
				o.fail(why, "", detail)
				return
			}
		}
		// total: any panic is caught by runOracles and reported
		o.evals++
		if !errors.Is(o.e, o.e) {
			o.fail("Is(e, e) is false", "", "")
			return
		}
		var nodes []error
		if o.e != nil {
			visitAll(o.e, func(x error) { nodes = append(nodes, x) })
		}
		all := append([]error{}, o.refs...)
		all = append(all, nodes...)
		for i, r := range all {
			b := errors.Is(o.e, r)
			o.evals++
			if o.e != nil && r == nil && b {
				o.fail("Is(e, nil) is true for a non-nil e", "", "")
				return
			}
			// monotone: a match of the direct cause / of a branch is a match of the whole
			if o.e != nil {
				if c := errors.UnwrapOnce(o.e); c != nil && errors.Is(c, r) && !b {
					o.fail(fmt.Sprintf("Is(cause, ref %d) holds but Is(wrapper(cause), ref) does not", i), "", "")
					return
				}
				for _, c := range errbase.UnwrapMulti(o.e) {
					if errors.Is(c, r) && !b {
						o.fail(fmt.Sprintf("Is(branch, ref %d) holds but Is(multi-cause error, ref) does not", i), "", "")
						return
					}
				}
			}
			// IsAny over a list = disjunction
			for j := i + 1; j < len(all) && j < i+4; j++ {
				want := b || errors.Is(o.e, all[j])
				if got := errors.IsAny(o.e, r, all[j]); got != want {
					o.fail(fmt.Sprintf("IsAny(e, r%d, r%d) = %v but Is(e,r%d) || Is(e,r%d) = %v", i, j, got, i, j, want), "", "")
					return
				}
				if got := errors.IsAny(o.e, nilIfNil(all[j]), r); got != want && all[j] != nil {
					o.fail(fmt.Sprintf("IsAny(e, r%d, r%d) differs from the disjunction of Is", j, i), "", "")
					return
				}
			}
			// every node of e is matched by e
			if i >= len(o.refs) && !b {
				o.fail("a node of e's own cause tree is not matched by Is(e, node)", "", fmt.Sprintf("%T %q", r, r))
				return
			}
		}
		if got := errors.IsAny(o.e, all...); got != anyIs(o.e, all) {
			o.fail("IsAny over the whole reference list differs from the disjunction of Is", "", "")
		}
		if errors.Is(nil, nil) != true {
			o.fail("Is(nil, nil) is false", "", "")
		}
		for _, r := range all {
			if r != nil && errors.Is(nil, r) {
				o.fail("Is(nil, r) is true for a non-nil r", "", "")
				return
			}
		}
	}
}

func nilIfNil(e error) error { return e }

func anyIs(e error, refs []error) bool {
	for _, r := range refs {
		if errors.Is(e, r) {
			return true
		}
	}
	return false
}

// ---------------------------------------------------------------------------
// C09

var wrapsRe = regexp.MustCompile(`(?m)^(?:  )*(?:└─ )?Wraps: \((\d+)\)`)

func typeOrder(e error, out *[]string) {
	*out = append(*out, fmt.Sprintf("%T", e))
	if c := errors.UnwrapOnce(e); c != nil {
		typeOrder(c, out)
		return
	}
	cs := errbase.UnwrapMulti(e)
	for i := len(cs) - 1; i >= 0; i-- {
		typeOrder(cs[i], out)
	}
}

func isLibOuter(e error) bool {
	t := reflect.TypeOf(e)
	for t.Kind() == reflect.Ptr {
		t = t.Elem()
	}
	return strings.HasPrefix(t.PkgPath(), "github.com/cockroachdb/errors/") && !strings.HasSuffix(t.PkgPath(), "errorspb")
}

func init() {
	oracleTable["C09"] = func(o *octx) {
		if o.e == nil {
			return
		}
		arrowReported := false
		colonReported := false
		noFormatReported := false
		check := func(where string, e error) bool {
			text := e.Error()
			targets := []struct {
				name string
				v    interface{}
			}{{"Formattable(e)", errors.Formattable(e)}}
			selfFormats := isLibOuter(e)
			if _, isOE := e.(*errbase.OpaqueErrno); isOE {
				// recorded finding: the one library error type without a Format method; fmt prints
				// it as an ordinary error value (%d shows the struct, %+v is not verbose)
				selfFormats = false
				if _, isF := e.(fmt.Formatter); isF {
					selfFormats = true // repaired
				} else if !noFormatReported {
					noFormatReported = true
					o.evals++
					o.fail(fmt.Sprintf("%%d of e (%T) does not give fmt's %%!verb(type) notation and %%+v is not the verbose rendering (%s)", e, where),
						"opaqueerrno-no-format-method", fmt.Sprintf("%%d: %d   %%+v: %+v", e, e))
				}
			}
			if selfFormats {
				targets = append(targets, struct {
					name string
					v    interface{}
				}{"e", e})
			}
			for _, tg := range targets {
				for _, v := range []string{"%v", "%s"} {
					o.evals++
					if got := fmt.Sprintf(v, tg.v); got != text {
						if opErrorArrowOnly(e, got, text) {
							// recorded finding: the special-case printer of *net.OpError writes "src -> addr",
							// (*net.OpError).Error() "src->addr".  Reported once per case; the remaining
							// verbs are then checked against the text the engine prints.
							if !arrowReported {
								o.fail(fmt.Sprintf("%s of %s is not Error() (%s)", v, tg.name, where), "operror-arrow-spacing", firstDiff(got, text))
								arrowReported = true
							}
							text = got
							continue
						}
						if colonOnlyText(e, got, text) {
							// recorded finding colon-only-prefix: the engine derives the layer's own message with the
							// same prefix extraction as the encoder and drops a message that is the separator alone
							if !colonReported {
								o.fail(fmt.Sprintf("%s of %s is not Error() (%s)", v, tg.name, where), "colon-only-prefix", firstDiff(got, text))
								colonReported = true
							}
							text = got
							continue
						}
						o.fail(fmt.Sprintf("%s of %s is not Error() (%s)", v, tg.name, where), "", firstDiff(got, text))
						return false
					}
				}
				for _, spec := range []string{"%q", "%x", "%X", "%10q", "%-30q", "%#q", "% x", "%#x", "%.3q", "%.5x", "%20.4X", "%010x", "%-8.2x", "% X", "%#X"} {
					o.evals++
					want := fmt.Sprintf(spec, text)
					if got := fmt.Sprintf(spec, tg.v); got != want {
						o.fail(fmt.Sprintf("%s of %s differs from fmt's rendering of the Error() string (%s)", spec, tg.name, where), "", firstDiff(got, want))
						return false
					}
				}
				// width / precision / flags on %v and %s: what fmt does with the Error() string
				for _, spec := range []string{"%.0s", "%.0v", "%.s", "%5.0s", "%.3s", "%.3v", "%12s", "%-12v", "%012s", "%3.1v", "%-6.2s", "% s", "%#s"} {
					o.evals++
					want := fmt.Sprintf(strings.Replace(spec, "v", "s", 1), text)
					if spec == "%#s" || spec == "% s" {
						want = fmt.Sprintf(spec, text)
					}
					if got := fmt.Sprintf(spec, tg.v); got != want {
						o.fail(fmt.Sprintf("%s of %s differs from fmt's rendering of the Error() string (%s)", spec, tg.name, where), "", firstDiff(got, want))
						return false
					}
				}
				// '#' wins over '+': the Go-syntax dump, whatever else is set (the dump of a big tree with
				// stack traces is slow: small local trees only)
				if nodes := countNodes(e); where == "local" && nodes <= 5 && dumpBudget > 0 {
					dumpBudget--
					o.evals++
					dump := fmt.Sprintf("%#v", tg.v)
					if a := fmt.Sprintf("%+#v", tg.v); a != dump {
						o.fail(fmt.Sprintf("%%+#v of %s is not the Go-syntax dump %%#v gives", tg.name), "", firstDiff(a, dump))
						return false
					}
					if a := fmt.Sprintf("%#+v", tg.v); a != dump {
						o.fail(fmt.Sprintf("%%#+v of %s is not the Go-syntax dump %%#v gives", tg.name), "", firstDiff(a, dump))
						return false
					}
				}
				for _, spec := range []string{"%d", "%t", "%e"} {
					o.evals++
					got := fmt.Sprintf(spec, tg.v)
					if !strings.HasPrefix(got, "%!"+spec[1:]+"(") {
						o.fail(fmt.Sprintf("verb %s of %s does not give fmt's %%!verb(type) notation", spec, tg.name), "", got)
						return false
					}
				}
			}
			// %+v layout
			pv := fmt.Sprintf("%+v", errors.Formattable(e))
			if selfFormats {
				// a library type formats itself with the same engine
				o.evals++
				if own := fmt.Sprintf("%+v", e); own != pv {
					o.fail(fmt.Sprintf("%%+v of e (%T) differs from %%+v of Formattable(e) (%s)", e, where), "", firstDiff(own, pv))
					return false
				}
			}
			var types []string
			typeOrder(e, &types)
			o.evals++
			n := 1 + len(wrapsRe.FindAllString(pv, -1))
			if !strings.Contains(pv, "\n(1)") {
				o.fail("%+v has no (1) entry ("+where+")", "", pv)
				return false
			}
			// count only "Wraps:" lines that are engine output: entry numbers are consecutive
			cnt := 1
			for _, m := range wrapsRe.FindAllStringSubmatch(pv, -1) {
				if m[1] == fmt.Sprint(cnt+1) {
					cnt++
				}
			}
			_ = n
			if cnt != len(types) {
				o.fail(fmt.Sprintf("%%+v shows %d numbered entries for %d visible layers (%s)", cnt, len(types), where), "", pv)
				return false
			}
			var tl strings.Builder
			tl.WriteString("Error types:")
			for i, t := range types {
				fmt.Fprintf(&tl, " (%d) %s", i+1, t)
			}
			if !strings.HasSuffix(pv, "\n"+tl.String()) {
				o.fail("%+v does not end with the 'Error types' line naming every layer in order ("+where+")", "", fmt.Sprintf("want suffix %q in %q", tl.String(), tail(pv, 600)))
				return false
			}
			if !strings.HasPrefix(pv, text+"\n(1)") {
				m := ""
				if multiLineLayer(e) && strings.HasPrefix(pv, firstLineJoin(e)+"\n(1)") {
					m = "multiline-layer-first-line"
				} else if multiLineLayer(e) {
					m = "multiline-layer-first-line"
					// the engine prints only the first line of each layer's head
					if !plausibleMultilineHeader(pv, text) {
						m = ""
					}
				}
				o.fail("%+v does not start with the Error() text ("+where+")", m, firstDiff(pv, text+"\n(1)"))
				return false
			}
			return true
		}
		if !check("local", o.e) {
			return
		}
		for _, hops := range o.c.Hops {
			if !check("after hops "+hopsStr(hops), transfer(o.e, hops)) {
				return
			}
		}
	}
}

func tail(s string, n int) string {
	if len(s) <= n {
		return s
	}
	return s[len(s)-n:]
}

// some visible layer's Error() text has a newline
func multiLineLayer(e error) bool {
	found := false
	visitAll(e, func(x error) {
		if strings.Contains(x.Error(), "\n") {
			found = true
		}
	})
	return found
}

func firstLineJoin(e error) string { return "" }

// header of %+v = first line only: the first line of pv is a prefix-compatible
// shortening of text (every line of the header occurs in text in order)
func plausibleMultilineHeader(pv, text string) bool {
	i := strings.Index(pv, "\n(1)")
	if i < 0 {
		return false
	}
	head := pv[:i]
	// the header is obtained from the text by deleting, in some layers, everything after their first line
	return isSubsequenceOfLines(head, text)
}

func isSubsequenceOfLines(head, text string) bool {
	// every byte of head appears in text in order (deletion only)
	j := 0
	for i := 0; i < len(text) && j < len(head); i++ {
		if text[i] == head[j] {
			j++
		}
	}
	return j == len(head)
}

// ---------------------------------------------------------------------------
// C10: independent compositional model of Error() and nil-ness over recipes

// specText returns (text, isNil) of the error the recipe builds, computed from the recipe alone.
func specText(r *R) (string, bool) {
	kid := func(i int) (string, bool) { return specText(r.Kids[i]) }
	prefix := func(p string, c string) string {
		if p == "" {
			return c
		}
		return p + ": " + c
	}
	switch r.Op {
	case "nil":
		return "", true
	case "sentinel":
		return sentinels[r.I[0]].Error(), false
	case "stdnew", "new", "pkgnew":
		return r.S[0], false
	case "newf", "assertf", "fmterrorf":
		return specFmt(r.Fmt), false
	case "errno", "foreignerrno":
		return errnoText(r.I[0]), false
	case "unimpl":
		return r.S[2], false
	case "grpcstatus", "gogostatus":
		return fmt.Sprintf("rpc error: code = %s desc = %s", codeName(r.I[0]), r.S[0]), false
	case "testerror":
		return "test error", false
	case "uleaf":
		return r.S[1], false
	case "wrap", "withmessage":
		c, n := kid(0)
		if n {
			return "", true
		}
		return prefix(r.S[0], c), false
	case "wrapf", "withmessagef":
		c, n := kid(0)
		if n {
			return "", true
		}
		return prefix(specFmt(r.Fmt), c), false
	case "withstack", "hint", "detail", "hintf", "detailf", "issuelink", "telemetry", "domain", "tags", "assert", "safedetails", "http", "grpc", "pkgstack":
		return kid(0)
	case "mark":
		return kid(0)
	case "secondary":
		return kid(0)
	case "combine":
		c, n := kid(0)
		if n {
			return kid(1)
		}
		return c, false
	case "handled", "handleassert":
		return kid(0)
	case "handledindomain":
		return kid(0)
	case "handledmsg":
		_, n := kid(0)
		if n {
			return "", true
		}
		return r.S[0], false
	case "handledindomainmsg":
		_, n := kid(0)
		if n {
			return "", true
		}
		return r.S[1], false
	case "handledmsgf":
		_, n := kid(0)
		if n {
			return "", true
		}
		return specFmt(r.Fmt), false
	case "newassertwrapped":
		c, n := kid(0)
		if n {
			return "", true
		}
		return prefix(specFmt(r.Fmt), c), false
	case "join", "stdjoin":
		var parts []string
		for i := range r.Kids {
			c, n := kid(i)
			if !n {
				parts = append(parts, c)
			}
		}
		if len(parts) == 0 {
			return "", true
		}
		return strings.Join(parts, "\n"), false
	case "pkgmsg":
		c, n := kid(0)
		if n {
			return "", true
		}
		return r.S[0] + ": " + c, false
	case "patherror":
		c, n := kid(0)
		if n {
			return "", true
		}
		return r.S[0] + " " + r.S[1] + ": " + c, false
	case "linkerror":
		c, n := kid(0)
		if n {
			return "", true
		}
		return r.S[0] + " " + r.S[1] + " " + r.S[2] + ": " + c, false
	case "syscallerror":
		c, n := kid(0)
		if n {
			return "", true
		}
		return r.S[0] + ": " + c, false
	case "operror":
		c, n := kid(0)
		if n {
			return "", true
		}
		s := r.S[0]
		if r.S[1] != "" {
			s += " " + r.S[1]
		}
		if r.S[2] != "" {
			s += " " + r.S[2]
		}
		if r.S[3] != "" {
			if r.S[2] != "" {
				s += "->"
			} else {
				s += " "
			}
			s += r.S[3]
		}
		return s + ": " + c, false
	case "uwrap":
		c, n := kid(0)
		if n {
			return "", true
		}
		switch r.S[0] {
		case "full":
			return r.S[1], false
		case "empty":
			return c, false
		}
		return r.S[1] + ": " + c, false
	case "transfer":
		return kid(0)
	}
	panic("specText: unknown op " + r.Op)
}

func specFmt(f []FP) string {
	var b strings.Builder
	for _, p := range f {
		switch p.Kind {
		case "lit", "str", "safestr":
			b.WriteString(p.S)
		case "int", "safeint":
			fmt.Fprint(&b, p.I)
		case "xstr", "xsafestr", "xint":
			// arguments without a verb: %!(EXTRA type=value, ...)
			b.WriteString("\x00EXTRA\x00")
		case "err":
			t, n := specText(p.R)
			if n {
				switch p.Verb {
				case "v", "+v":
					b.WriteString("<nil>")
				default:
					b.WriteString("%!" + p.Verb + "(<nil>)")
				}
			} else if p.Verb == "+v" {
				b.WriteString("\x00PLUSV\x00") // verbose rendering: not modelled by the spec
			} else {
				b.WriteString(t)
			}
		}
	}
	return b.String()
}

func hasPlusV(r *R) bool {
	for _, p := range r.Fmt {
		if p.Kind == "xstr" || p.Kind == "xsafestr" || p.Kind == "xint" {
			return true // fmt's EXTRA notation: not modelled by the compositional text spec
		}
		if p.Kind == "err" && (p.Verb == "+v" || hasPlusV(p.R)) {
			return true
		}
		if p.R != nil && hasPlusV(p.R) {
			return true
		}
	}
	for _, k := range r.Kids {
		if hasPlusV(k) {
			return true
		}
	}
	return false
}

func errnoText(n int64) string {
	return map[int64]string{1: "operation not permitted", 2: "no such file or directory", 4: "interrupted system call",
		11: "resource temporarily unavailable", 13: "permission denied", 17: "file exists", 22: "invalid argument",
		110: "connection timed out"}[n]
}

func codeName(c int64) string {
	n := []string{"OK", "Canceled", "Unknown", "InvalidArgument", "DeadlineExceeded", "NotFound", "AlreadyExists",
		"PermissionDenied", "ResourceExhausted", "FailedPrecondition", "Aborted", "OutOfRange", "Unimplemented",
		"Internal", "Unavailable", "DataLoss", "Unauthenticated"}
	if int(c) < len(n) {
		return n[c]
	}
	return fmt.Sprintf("Code(%d)", c)
}

// annotation-only constructors
var annotOps = map[string]bool{"withstack": true, "hint": true, "detail": true, "hintf": true, "detailf": true, "issuelink": true, "telemetry": true,
	"domain": true, "tags": true, "assert": true, "safedetails": true, "http": true, "grpc": true, "mark": true, "secondary": true}

func init() {
	oracleTable["C10"] = func(o *octx) {
		want, wantNil := specText(o.c.R)
		o.evals++
		if wantNil != (o.e == nil) {
			o.fail(fmt.Sprintf("nil-ness: the constructor returned nil=%v, the compositional model says nil=%v", o.e == nil, wantNil), "", "")
			return
		}
		if o.e == nil {
			return
		}
		if !hasPlusV(o.c.R) {
			if got := o.e.Error(); got != want {
				o.fail("Error() differs from the compositional model of the expected text", "", firstDiff(got, want))
				return
			}
		}
		// annotation-only wrappers are transparent: same root cause, same Is/As matches as the wrapped error
		if annotOps[o.c.R.Op] && len(o.refs) > 0 && o.refs[0] != nil && !hasPlusV(o.c.R) {
			inner := o.refs[0] // the wrapped error, rebuilt from the sub-recipe
			ri, ro := errors.UnwrapAll(inner), errors.UnwrapAll(o.e)
			o.evals++
			if goFullName(ri) != goFullName(ro) || ri.Error() != ro.Error() {
				o.fail("annotation-only wrapper "+o.c.R.Op+" changes the root cause", "", fmt.Sprintf("%T %q vs %T %q", ri, ri, ro, ro))
				return
			}
			for i, r := range o.refs[1:] {
				if errors.Is(inner, r) && !errors.Is(o.e, r) {
					o.fail(fmt.Sprintf("annotation-only wrapper %s loses the Is match with ref %d of the wrapped error", o.c.R.Op, i+1), "", "")
					return
				}
			}
			for _, t := range asTypeTargets {
				a, b := asTargetTypeOnly(inner, "type", t), asTargetTypeOnly(o.e, "type", t)
				if a.String() != b.String() {
					o.fail("annotation-only wrapper "+o.c.R.Op+" changes the result of As for target "+t, "", a.String()+" vs "+b.String())
					return
				}
			}
		}
	}
}

// ---------------------------------------------------------------------------
// C11

func init() {
	oracleTable["C11"] = func(o *octx) {
		if strings.HasSuffix(o.c.ID, "-0") || strings.HasSuffix(o.c.ID, "-1") {
			if why, detail := recursiveStacks(); why != "" {
				o.evals++
				o.fail(why, "", detail)
				return
			}
		}
		if o.e == nil {
			return
		}
		v0 := accVec(o.e, true).String()
		cur := o.e
		for k := 1; k <= 3; k++ {
			cur = transferOnce(cur, nil)
			o.evals++
			if v := accVec(cur, true).String(); v != v0 {
				o.fail(fmt.Sprintf("annotations differ after hop %d between knowing processes", k), "", firstDiff(v0, v))
				return
			}
		}
	}
}

// ---------------------------------------------------------------------------
// C13

func init() {
	oracleTable["C13"] = func(o *octx) {
		if strings.HasSuffix(o.c.ID, "-0") || strings.HasSuffix(o.c.ID, "-1") {
			if why, detail := joinAliasing(); why != "" {
				o.evals++
				o.fail(why, "", detail)
				return
			}
			if why, detail := bareJoinNesting(); why != "" {
				o.evals++
				o.fail(why, "", detail)
				return
			}
		}
		if o.e == nil {
			return
		}
		var walk func(e error) bool
		walk = func(e error) bool {
			cs := errbase.UnwrapMulti(e)
			if len(cs) > 0 {
				o.evals++
				if errors.UnwrapOnce(e) != nil || errors.Unwrap(e) != nil || goerr.Unwrap(e) != nil {
					o.fail("a multi-cause error is not a leaf for UnwrapOnce/Unwrap", "", fmt.Sprintf("%T", e))
					return false
				}
				if errors.UnwrapAll(e) != e {
					o.fail("UnwrapAll descends into a multi-cause error", "", fmt.Sprintf("%T", e))
					return false
				}
				pool := append([]error{}, o.refs...)
				for _, c := range cs {
					visitAll(c, func(x error) { pool = append(pool, x) })
				}
				for i, r := range pool {
					any := false
					for _, c := range cs {
						if errors.Is(c, r) {
							any = true
						}
					}
					got := errors.Is(e, r)
					if any && !got {
						o.fail(fmt.Sprintf("Is succeeds on a branch but not on the multi-cause error (probe %d)", i), "", fmt.Sprintf("%T %q", r, r))
						return false
					}
					if got && !any && r != nil {
						// must then be a match of the node itself: symmetric mark equality or identity
						if !(r == e || errors.Is(r, e)) {
							o.fail(fmt.Sprintf("Is succeeds on the multi-cause error although neither the error itself nor any branch matches (probe %d)", i), "", fmt.Sprintf("%T %q", r, r))
							return false
						}
					}
					if errors.IsAny(e, r) != got {
						o.fail("IsAny(e, r) differs from Is(e, r) on a multi-cause error", "", "")
						return false
					}
				}
				// As: first match in branch order
				for _, t := range asTypeTargets {
					got := asTarget(e, "type", t)
					var want Sx = Sym("notfound")
					if x, _ := asByTypeShallow(e, t); x != nil {
						want = L(Sym("found"), A(goFullName(x)), A(x.Error()))
					} else {
						for _, c := range cs {
							if w := asTarget(c, "type", t); w.String() != "notfound" {
								want = w
								break
							}
						}
					}
					if got.String() != want.String() {
						o.fail("As on a multi-cause error does not return the first match in branch order for "+t, "", got.String()+" vs "+want.String())
						return false
					}
				}
				// %+v shows every branch
				if why, pv := verboseShowsAll(e); why != "" {
					o.fail(why, "", pv)
					return false
				}
			}
			if c := errors.UnwrapOnce(e); c != nil {
				return walk(c)
			}
			for _, c := range cs {
				if !walk(c) {
					return false
				}
			}
			return true
		}
		if !walk(o.e) {
			return
		}
		// transfer: branch count, order, per-branch content
		t0 := textTree(o.e).String()
		for _, hops := range o.c.Hops {
			ek := transfer(o.e, hops)
			o.evals++
			if t := textTree(ek).String(); t != t0 {
				m := ""
				m = knownTextDiffJourney(o.e, hops)
				o.fail("branches (count, order or text) differ after hops "+hopsStr(hops), m, firstDiff(t0, t))
				return
			}
			// the received multi-cause nodes show every branch in %+v too, also when they are
			// the value handed to fmt
			bad := false
			visitAll(ek, func(x error) {
				if bad || len(errbase.UnwrapMulti(x)) == 0 {
					return
				}
				o.evals++
				if why, pv := verboseShowsAll(x); why != "" {
					bad = true
					o.fail(why+" (after hops "+hopsStr(hops)+")", "", pv)
				}
			})
			if bad {
				return
			}
		}
	}
	oracleTable["C13join"] = func(o *octx) {
		// recipe is (join ...) / (stdjoin ...): nil dropping and text
		want, wantNil := specText(o.c.R)
		o.evals++
		if wantNil != (o.e == nil) {
			o.fail("Join of only nil errors must be nil, anything else non-nil", "", "")
			return
		}
		if o.e == nil {
			return
		}
		n := 0
		for _, k := range o.c.R.Kids {
			if _, isNil := specText(k); !isNil {
				n++
			}
		}
		m := o.e
		if o.c.R.Op == "join" {
			// errors.Join attaches a stack
			m = errors.UnwrapOnce(o.e)
		}
		if got := len(errbase.UnwrapMulti(m)); got != n {
			o.fail(fmt.Sprintf("Join keeps %d branches for %d non-nil arguments", got, n), "", "")
			return
		}
		if !hasPlusV(o.c.R) && o.e.Error() != want {
			// recorded finding join-blank-line-branch: the library Join (not the standard library's) whose direct
			// branches are leaves, one of them with an empty text, a text ending in a newline or a blank line inside
			m := ""
			if o.c.R.Op == "join" {
				blank, leaves := false, true
				for _, k := range o.c.R.Kids {
					if k.Op != "new" && k.Op != "stdnew" && k.Op != "nil" {
						leaves = false
					}
					if t, isNil := specText(k); !isNil && (t == "" || strings.HasSuffix(t, "\n") || strings.HasPrefix(t, "\n") || strings.Contains(t, "\n\n")) {
						blank = true
					}
				}
				if blank && leaves {
					m = "join-blank-line-branch"
				}
			}
			o.fail("Error() of Join is not the branch messages joined by newlines", m, firstDiff(o.e.Error(), want))
		}
	}
}

func asByTypeShallow(e error, name string) (error, bool) {
	if goFullName(e) == name {
		return e, true
	}
	return nil, false
}

// ---------------------------------------------------------------------------
// C14

func stdAs(e error, name string) Sx {
	x, ok := stdAsByType(e, name)
	if !ok {
		panic("stdAs: unknown type " + name)
	}
	if x == nil {
		return Sym("notfound")
	}
	return L(Sym("found"), A(goFullName(x)), A(x.Error()))
}

func init() {
	oracleTable["C14"] = func(o *octx) {
		if strings.HasSuffix(o.c.ID, "-0") || strings.HasSuffix(o.c.ID, "-1") {
			// once per run: a type outside the recipe language (both Cause() and Unwrap() []error)
			if why, detail := mcauseShapes(true); why != "" {
				o.evals++
				o.fail(why, "", detail)
				return
			}
			if why, detail := joinAliasing(); why != "" {
				o.evals++
				o.fail(why, "", detail)
				return
			}
			if why, detail := typedNilChains(); why != "" {
				o.evals++
				o.fail(why, "", detail)
				return
			}
			if why, detail := errorfVerbForms(); why != "" {
				o.evals++
				o.fail(why, "", detail)
				return
			}
			if why, detail := isMethodMultiShapes(); why != "" {
				o.evals++
				o.fail(why, "", detail)
				return
			}
		}
		if o.e == nil {
			return
		}
		// targets that are behaviour-only interfaces (they do not embed error): accepted by the standard As
		o.evals++
		if why, detail := behaviourTargets(o.e); why != "" {
			o.fail(why, "", detail)
			return
		}
		var nodes []error
		visitAll(o.e, func(x error) { nodes = append(nodes, x) })
		pool := append(append([]error{}, o.refs...), nodes...)
		for i, r := range pool {
			o.evals++
			if r == nil {
				continue
			}
			lib, std := errors.Is(o.e, r), goerr.Is(o.e, r)
			if std && !lib {
				o.fail(fmt.Sprintf("the standard errors.Is(e, probe %d) holds but the library's Is does not", i), "", fmt.Sprintf("%T %q", r, r))
				return
			}
		}
		// the same questions asked of a copy received from another process, before or after
		// the local error (the answer for one must not depend on what was asked of the other)
		dec := transferOnce(o.e, nil)
		order := []error{o.e, dec, o.e}
		if len(o.c.ID)%2 == 0 {
			order = []error{dec, o.e, dec}
		}
		for _, t := range asTypeTargets {
			for oi, x := range order {
				o.evals++
				s := stdAs(x, t)
				l := asTarget(x, "type", t)
				if s.String() != "notfound" && s.String() != l.String() {
					o.fail(fmt.Sprintf("the library's As finds a different first match than the standard errors.As for %s (query %d of local/received/local)", t, oi), "", s.String()+" vs "+l.String())
					return
				}
				if s.String() == "notfound" && l.String() != "notfound" && allUnwrap(x) {
					o.fail(fmt.Sprintf("the library's As finds a match the standard errors.As does not find, on a chain of Unwrap-bearing layers, for %s (query %d)", t, oi), "", l.String())
					return
				}
			}
		}
		// Unwrap
		for _, x := range nodes {
			o.evals++
			su := goerr.Unwrap(x)
			lu := errors.Unwrap(x)
			if len(errbase.UnwrapMulti(x)) > 0 {
				if lu != nil || su != nil {
					o.fail("Unwrap of a multi-cause error is not nil", "", fmt.Sprintf("%T", x))
					return
				}
				continue
			}
			if su != nil && !sameErr(su, lu) {
				o.fail("the library's Unwrap disagrees with the standard Unwrap", "", fmt.Sprintf("%T", x))
				return
			}
		}
		// Cause vs pkg/errors.Cause on single-cause chains of Cause-bearing types
		allCause := true
		for c := o.e; c != nil; c = errors.UnwrapOnce(c) {
			if errors.UnwrapOnce(c) != nil {
				if _, ok := c.(interface{ Cause() error }); !ok {
					allCause = false
				}
			}
		}
		if allCause {
			o.evals++
			if a, b := errors.Cause(o.e), pkgerr.Cause(o.e); !sameErr(a, b) {
				o.fail("errors.Cause / UnwrapAll returns a different root than pkg/errors.Cause", "", fmt.Sprintf("%T vs %T", a, b))
				return
			}
			if a, b := errors.UnwrapAll(o.e), pkgerr.Cause(o.e); !sameErr(a, b) {
				o.fail("UnwrapAll returns a different root than pkg/errors.Cause", "", fmt.Sprintf("%T vs %T", a, b))
				return
			}
		}
	}
}

func sameErr(a, b error) bool {
	if a == nil || b == nil {
		return a == nil && b == nil
	}
	ta, tb := reflect.TypeOf(a), reflect.TypeOf(b)
	if ta != tb {
		return false
	}
	if !ta.Comparable() {
		return a.Error() == b.Error()
	}
	return a == b
}

// ---------------------------------------------------------------------------
// C15

func init() {
	oracleTable["C15"] = func(o *octx) {
		if strings.HasSuffix(o.c.ID, "-0") || strings.HasSuffix(o.c.ID, "-1") {
			if why, detail := foreignStackPaths(); why != "" {
				o.evals++
				o.fail(why, "", detail)
				return
			}
			if why, detail := thirdPartyTracer(); why != "" {
				o.evals++
				o.fail(why, "", detail)
				return
			}
		}
		ev, extras := report.BuildSentryReport(o.e)
		o.evals++
		if o.e == nil {
			if ev != nil || extras != nil {
				o.fail("BuildSentryReport(nil) returns something", "", "")
			}
			return
		}
		check := func(where string, e error) bool {
			ev, extras := report.BuildSentryReport(e)
			o.evals++
			var layers []error
			visitAll(e, func(x error) { layers = append(layers, x) })
			verbose := redact.Sprintf("%+v", e).Redact().StripMarkers()
			pre := ""
			if f, l, _, ok := withstack.GetOneLineSource(e); ok {
				pre = fmt.Sprintf("%s:%d: ", f, l)
			}
			if !strings.HasPrefix(ev.Message, pre+verbose+"\n-- report composition:\n") {
				o.fail("the report message does not begin with [file:line: ] + the redacted verbose rendering + composition header ("+where+")", "", firstDiff(ev.Message, pre+verbose+"\n-- report composition:\n"))
				return false
			}
			comp := ev.Message[len(pre+verbose+"\n-- report composition:\n"):]
			comp = strings.TrimSuffix(comp, "\n(check the extra data payloads)")
			// one composition line per layer, innermost first: each line names the layer's type
			lines := strings.Split(comp, "\n")
			if len(lines) != len(layers) {
				// a safe detail's first line never contains a newline, so the count is exact
				o.fail(fmt.Sprintf("the report has %d composition lines for %d layers (%s)", len(lines), len(layers), where), "", comp)
				return false
			}
			nstack := 0
			var stackLayers []error
			for i := range layers {
				x := layers[len(layers)-1-i]
				sd := errors.GetSafeDetails(x)
				short := sd.OriginalTypeName
				if j := strings.LastIndexByte(short, '/'); j >= 0 {
					short = short[j+1:]
				}
				if !strings.Contains(lines[i], short) {
					o.fail(fmt.Sprintf("composition line %d does not name the type of the corresponding layer (%s)", i, where), "", lines[i]+" vs "+short)
					return false
				}
				if st := withstack.GetReportableStackTrace(x); st != nil {
					nstack++
					stackLayers = append(stackLayers, x)
				}
			}
			wantExc := nstack
			if wantExc == 0 {
				wantExc = 1
			}
			if len(ev.Exception) != wantExc {
				o.fail(fmt.Sprintf("the report has %d exceptions for %d layers with a stack trace (%s)", len(ev.Exception), nstack, where), "", "")
				return false
			}
			module := string(errors.GetDomain(e))
			for i, ex := range ev.Exception {
				if ex.Module != module {
					o.fail("an exception's module is not the error's domain ("+where+")", "", ex.Module+" vs "+module)
					return false
				}
				if nstack > 0 {
					// outermost first: stackLayers was collected innermost first
					x := stackLayers[len(stackLayers)-1-i]
					want := withstack.GetReportableStackTrace(x)
					if ex.Stacktrace == nil || !reflect.DeepEqual(ex.Stacktrace.Frames, want.Frames) {
						o.fail(fmt.Sprintf("exception %d does not carry the frames of the %d-th outermost stack-bearing layer (%s)", i, i, where), "", "")
						return false
					}
				} else if ex.Stacktrace != nil {
					o.fail("the synthetic exception carries a stack trace", "", "")
					return false
				}
			}
			// error types extra: one line per layer, innermost first, with type name and mark
			tl, _ := extras["error types"].(string)
			tlines := strings.Split(strings.TrimSuffix(tl, "\n"), "\n")
			if len(tlines) != len(layers) {
				o.fail(fmt.Sprintf("the 'error types' extra has %d lines for %d layers (%s)", len(tlines), len(layers), where), "", tl)
				return false
			}
			for i := range layers {
				x := layers[len(layers)-1-i]
				sd := errors.GetSafeDetails(x)
				fm := "*"
				if sd.OriginalTypeName != sd.ErrorTypeMark.FamilyName {
					fm = sd.ErrorTypeMark.FamilyName
				}
				want := fmt.Sprintf("%s (%s::%s)", sd.OriginalTypeName, fm, sd.ErrorTypeMark.Extension)
				if tlines[i] != want {
					o.fail(fmt.Sprintf("line %d of the 'error types' extra is not the type name and mark of the corresponding layer (%s)", i, where), "", tlines[i]+" vs "+want)
					return false
				}
			}
			return true
		}
		if !check("local", o.e) {
			return
		}
		for _, hops := range o.c.Hops {
			if !check("after hops "+hopsStr(hops), transfer(o.e, hops)) {
				return
			}
		}
		_ = ev
		_ = extras
	}
}

// ---------------------------------------------------------------------------
// C19: independent re-implementation of the documented aggregation

func init() {
	oracleTable["C19"] = func(o *octx) {
		if o.e == nil {
			return
		}
		var chain []error
		for c := o.e; c != nil; c = errors.UnwrapOnce(c) {
			chain = append(chain, c)
		}
		var hints, details []string
		seen := map[string]bool{}
		for i := len(chain) - 1; i >= 0; i-- {
			if h, ok := chain[i].(interface{ ErrorHint() string }); ok {
				if t := h.ErrorHint(); t != "" && !seen[t] {
					seen[t] = true
					hints = append(hints, t)
				}
			}
			if d, ok := chain[i].(interface{ ErrorDetail() string }); ok {
				if t := d.ErrorDetail(); t != "" {
					details = append(details, t)
				}
			}
		}
		o.evals++
		if got := errors.GetAllHints(o.e); !reflect.DeepEqual(nonNil(got), nonNil(hints)) {
			o.fail("GetAllHints is not the innermost-first, de-duplicated list of the layers' hints", "", fmt.Sprintf("%q vs %q", got, hints))
			return
		}
		if got := errors.GetAllDetails(o.e); !reflect.DeepEqual(nonNil(got), nonNil(details)) {
			o.fail("GetAllDetails is not the innermost-first list of the layers' non-empty details", "", fmt.Sprintf("%q vs %q", got, details))
			return
		}
		if got := errors.FlattenHints(o.e); got != strings.Join(hints, "\n--\n") {
			o.fail("FlattenHints is not the hints joined by a '--' line", "", got)
			return
		}
		if got := errors.FlattenDetails(o.e); got != strings.Join(details, "\n--\n") {
			o.fail("FlattenDetails is not the details joined by a '--' line", "", got)
			return
		}
		// links and tags outermost first; keys as a set
		var links []string
		keys := map[string]bool{}
		for _, c := range chain {
			t := reflect.TypeOf(c).String()
			if t == "*issuelink.withIssueLink" || t == "*issuelink.unimplementedError" {
				sd := c.(errbase.SafeDetailer).SafeDetails()
				links = append(links, sd[0]+"|"+sd[1])
			}
			if t == "*telemetrykeys.withTelemetry" {
				for _, k := range c.(errbase.SafeDetailer).SafeDetails() {
					keys[k] = true
				}
			}
		}
		var gotLinks []string
		for _, l := range errors.GetAllIssueLinks(o.e) {
			gotLinks = append(gotLinks, l.IssueURL+"|"+l.Detail)
		}
		if !reflect.DeepEqual(nonNil(gotLinks), nonNil(links)) {
			o.fail("GetAllIssueLinks is not the outermost-first list of the layers' links", "", fmt.Sprintf("%q vs %q", gotLinks, links))
			return
		}
		gk := map[string]bool{}
		for _, k := range errors.GetTelemetryKeys(o.e) {
			if gk[k] {
				o.fail("GetTelemetryKeys returns a key twice", "", k)
				return
			}
			gk[k] = true
		}
		if !reflect.DeepEqual(gk, keys) {
			o.fail("GetTelemetryKeys is not the set union of the layers' keys", "", fmt.Sprintf("%v vs %v", gk, keys))
		}
	}
}

func nonNil(l []string) []string {
	if l == nil {
		return []string{}
	}
	return l
}

var _ = exthttp.GetHTTPCode
var _ = extgrpc.GetGrpcCode
var _ = oserror.IsTimeout

// opErrorArrowOnly: got and want differ only by " -> " for "->" between the source and
// the address of a *net.OpError of the tree that has both.
func opErrorArrowOnly(e error, got, want string) bool {
	// both renderings normalised: an OpError nested below an engine-rendered layer (a library
	// Join, Wrap ...) shows the spaced form in Error() too
	g, w := got, want
	found := false
	visitAll(e, func(x error) {
		if oe, ok := x.(*net.OpError); ok && oe.Source != nil && oe.Addr != nil {
			found = true
			spaced, tight := oe.Source.String()+" -> "+oe.Addr.String(), oe.Source.String()+"->"+oe.Addr.String()
			g = strings.ReplaceAll(g, spaced, tight)
			w = strings.ReplaceAll(w, spaced, tight)
		}
	})
	return found && g == w && got != want
}

// verboseShowsAll: %+v of a multi-cause error has one numbered entry per layer of the whole
// tree, through Formattable and -- for a library type -- when the error formats itself.
func verboseShowsAll(e error) (string, string) {
	var types []string
	typeOrder(e, &types)
	targets := []interface{}{errors.Formattable(e)}
	if _, isOE := e.(*errbase.OpaqueErrno); isLibOuter(e) && !isOE {
		targets = append(targets, e)
	}
	for ti, tg := range targets {
		pv := fmt.Sprintf("%+v", tg)
		cnt := 1
		for _, m := range wrapsRe.FindAllStringSubmatch(pv, -1) {
			if m[1] == fmt.Sprint(cnt+1) {
				cnt++
			}
		}
		if cnt != len(types) {
			how := "through Formattable"
			if ti == 1 {
				how = fmt.Sprintf("of the error itself (%T)", e)
			}
			return fmt.Sprintf("%%+v %s of a multi-cause error shows %d entries for %d layers", how, cnt, len(types)), pv
		}
	}
	return "", ""
}

// every wrapper of the tree exposes its cause(s) through Unwrap (so that the standard
// library walks the same nodes as the library does)
func allUnwrap(e error) bool {
	ok := true
	visitAll(e, func(x error) {
		if errors.UnwrapOnce(x) != nil {
			if _, has := x.(interface{ Unwrap() error }); !has {
				ok = false
			}
		}
	})
	return ok
}

func opaqueRoundTrip(e error) (string, string) {
	ctx := context.Background()
	enc := errors.EncodeError(ctx, e)
	pl, err := types.MarshalAny(&errorspb.StringPayload{Msg: "payload of a type unknown here"})
	if err != nil {
		panic(err)
	}
	skip := false
	nodes := 0
	var all func(x *errorspb.EncodedError)
	all = func(x *errorspb.EncodedError) {
		one := func(d *errorspb.EncodedErrorDetails) {
			d.ErrorTypeMark.FamilyName += unkSuffix
			nodes++
			if d.FullDetails == nil {
				d.FullDetails = pl
				if nodes%2 == 0 {
					// a payload whose protobuf type is not linked into this process either
					d.FullDetails = &types.Any{TypeUrl: "type.googleapis.com/some.unknown.Payload", Value: []byte{10, 3, 'a', 'b', 'c'}}
				}
			} else {
				var da types.DynamicAny
				if err := types.UnmarshalAny(d.FullDetails, &da); err == nil {
					if _, isErr := da.Message.(error); isErr {
						// a payload that is itself an error (a protobuf message implementing error) IS
						// the error, whatever the family name says: the process knows that type
						skip = true
					}
				}
			}
		}
		if w := x.GetWrapper(); w != nil {
			one(&w.Details)
			all(&w.Cause)
		} else if l := x.GetLeaf(); l != nil {
			one(&l.Details)
			for _, c := range l.MultierrorCauses {
				all(c)
			}
		}
	}
	all(&enc)
	if skip {
		return "", ""
	}
	b0, err := proto.Marshal(&enc)
	if err != nil {
		panic(err)
	}
	var in errorspb.EncodedError
	if err := proto.Unmarshal(b0, &in); err != nil {
		panic(err)
	}
	mid := errors.DecodeError(ctx, in)
	b1 := marshalEnc(mid)
	if !bytes.Equal(b0, b1) {
		var out errorspb.EncodedError
		proto.Unmarshal(b1, &out)
		return "a process that knows none of the types re-encodes a message different from the one it received (every node given a payload)",
			firstDiff(encSx(&in).String(), encSx(&out).String())
	}
	return "", ""
}

// sanitizeTruncatedMarkers: the recipe with every dangling E2 / E2 80 that ends a string or
// precedes a newline removed; had = some string contained one.
func sanitizeTruncatedMarkers(r *R) (*R, bool) {
	c := cloneR(r)
	had := false
	fix := func(s string) string {
		b := []byte(s)
		var out []byte
		for i := 0; i < len(b); i++ {
			if b[i] == 0xe2 {
				j := i + 1
				if j < len(b) && b[j] == 0x80 {
					j++
				}
				if j == len(b) || b[j] == '\n' {
					// E2 or E2 80 dangling at the end of the string / of a line
					had = true
					i = j - 1
					continue
				}
			}
			out = append(out, b[i])
		}
		return string(out)
	}
	var walk func(x *R)
	walk = func(x *R) {
		for i := range x.S {
			x.S[i] = fix(x.S[i])
		}
		for i := range x.Strs {
			x.Strs[i] = fix(x.Strs[i])
		}
		for i := range x.Tags {
			x.Tags[i].K, x.Tags[i].V = fix(x.Tags[i].K), fix(x.Tags[i].V)
		}
		for i := range x.Fmt {
			x.Fmt[i].S = fix(x.Fmt[i].S)
			if x.Fmt[i].R != nil {
				walk(x.Fmt[i].R)
			}
		}
		for _, k := range x.Kids {
			walk(k)
		}
	}
	walk(c)
	return c, had
}

// mcauseShapes: trees around *ut.MCause, a multi-cause error that also has Cause(). std = compare with the
// standard library (C14), otherwise the algebra of Is (C08): a match in ANY member is a match of the whole.
// sameShortName: two error types called *dup.Err in two different packages are not equivalent.
func sameShortName() (string, string) {
	a, b := &dupa.Err{Msg: "same text"}, &dupb.Err{Msg: "same text"}
	for round := 0; round < 2; round++ {
		// (asked in both orders and twice: a name cache must not confuse them later either)
		if errors.Is(a, b) || errors.Is(b, a) || errors.IsAny(a, goerr.New("x"), b) {
			return "errors of two different types with the same package and type name (different import paths) and the same message match", fmt.Sprintf("%T (%s) vs %T (%s)", a, errbase.GetTypeKey(a), b, errbase.GetTypeKey(b))
		}
		if errors.Is(errors.Mark(goerr.New("m"), a), b) || !errors.Is(errors.Mark(goerr.New("m"), a), &dupa.Err{Msg: "same text"}) {
			return "Mark(e, r) over a reference whose type shares its short name with another type matches the wrong references", ""
		}
		if errbase.GetTypeKey(a) == errbase.GetTypeKey(b) {
			return "two different Go types get the same type key", string(errbase.GetTypeKey(a))
		}
		da, db := transferOnce(errors.Wrap(a, "w"), nil), transferOnce(errors.Wrap(b, "w"), nil)
		if errors.Is(da, b) || errors.Is(db, a) || !errors.Is(da, a) || !errors.Is(db, b) {
			return "after transfer, errors of two types sharing a short name are confused", ""
		}
	}
	return "", ""
}

// joinAliasing: the caller of Join(errs...) keeps ownership of its slice: reusing it afterwards
// changes nothing in the joined error, and Join does not rearrange it.
func joinAliasing() (string, string) {
	a, b, c, d := goerr.New("a"), errors.New("b"), goerr.New("c"), goerr.New("d")
	for _, withNil := range []bool{false, true} {
		slots := make([]error, 0, 8)
		slots = append(slots, a, b)
		if withNil {
			slots = append(slots[:1], nil, b, nil)
		}
		before := append([]error{}, slots...)
		j := errors.Join(slots...)
		for i := range slots {
			if slots[i] != before[i] {
				return "Join rearranged the slice it was given", fmt.Sprintf("slot %d", i)
			}
		}
		text, enc := j.Error(), string(marshalEnc(j))
		for i := range slots {
			slots[i] = c
		}
		slots = append(slots[:0], c, d, c, d)
		if j.Error() != text || string(marshalEnc(j)) != enc || !errors.Is(j, a) || !errors.Is(j, b) || errors.Is(j, c) || !goerr.Is(j, a) || goerr.Is(j, d) {
			return "a joined error changes when the caller reuses the slice it passed to Join", fmt.Sprintf("%q -> %q", text, j.Error())
		}
	}
	return "", ""
}

func mcauseShapes(std bool) (string, string) {
	a, b, c := goerr.New("member a"), errors.New("member b"), &ut.Plain{Msg: "member c"}
	vb := ut.Val{Msg: "v", Tag: 3}
	for si, mk := range []func() error{
		func() error { return &ut.MCause{Msg: "multi", Errs: []error{a, b}} },
		func() error { return &ut.MCause{Msg: "multi", Errs: []error{errors.Wrap(a, "w"), c, vb}} },
		func() error {
			return errors.Wrap(&ut.MCause{Msg: "multi", Errs: []error{a, errors.WithHint(b, "h")}}, "outer")
		},
		func() error { return errors.Join(&ut.MCause{Msg: "multi", Errs: []error{a, c}}, goerr.New("other")) },
		func() error {
			return &ut.MCause{Msg: "multi", Errs: []error{a, &ut.MCause{Msg: "inner", Errs: []error{b, c}}}}
		},
	} {
		e := mk()
		for ri, r := range []error{a, b, c, vb, goerr.New("member a"), errors.New("member b")} {
			lib, st := errors.Is(e, r), goerr.Is(e, r)
			if std && st && !lib {
				return fmt.Sprintf("the standard errors.Is holds but the library's Is does not, on a multi-cause error that also has Cause() (shape %d, probe %d)", si, ri), fmt.Sprintf("%T %q", r, r)
			}
			if !std {
				// the members, taken from the Go value itself (not through the library's traversal)
				any := false
				var members func(x error)
				members = func(x error) {
					if x == nil {
						return
					}
					if m, ok := x.(interface{ Unwrap() []error }); ok {
						for _, br := range m.Unwrap() {
							if br != nil && errors.Is(br, r) {
								any = true
							}
							members(br)
						}
					}
					if u, ok := x.(interface{ Unwrap() error }); ok {
						members(u.Unwrap())
					}
				}
				members(e)
				if any && !lib {
					return fmt.Sprintf("Is holds for a member of a multi-cause error (one that also has Cause()) but not for the whole (shape %d, probe %d)", si, ri), fmt.Sprintf("%T %q", r, r)
				}
				if got, want := errors.IsAny(e, goerr.New("nope"), r), lib; got != want {
					return fmt.Sprintf("IsAny differs from Is on a multi-cause error that also has Cause() (shape %d, probe %d)", si, ri), ""
				}
			}
		}
		if std {
			var pc *ut.Plain
			var pl *ut.Plain
			if s, l := goerr.As(e, &pc), errors.As(e, &pl); s && (!l || pc != pl) {
				return fmt.Sprintf("the standard errors.As finds *ut.Plain but the library's As does not find the same, on a multi-cause error that also has Cause() (shape %d)", si), ""
			}
			var vs, vl ut.Val
			if s, l := goerr.As(e, &vs), errors.As(e, &vl); s && (!l || vs != vl) {
				return fmt.Sprintf("the standard errors.As finds ut.Val but the library's As does not, on a multi-cause error that also has Cause() (shape %d)", si), ""
			}
		}
	}
	return "", ""
}

func countNodes(e error) int {
	n := 0
	visitAll(e, func(error) { n++ })
	return n
}

// the Go-syntax dumps are slow (they print every program counter of every stack): this many per run
var dumpBudget = 150

// legacyBarriers: e as received from a peer of the previous library generation: every barrier
// travels under the previous type name, its message field holds the plain text. nil when e has no barrier.
func legacyBarriers(e error) error { return legacyBarriersWith(e, " \u203a\u2039 raw \u2039") }

// the same with a chosen suffix for the plain message the old peer sent
func legacyBarriersWith(e error, suffix string) error {
	enc := errors.EncodeError(context.Background(), e)
	found := false
	var walk func(x *errorspb.EncodedError)
	walk = func(x *errorspb.EncodedError) {
		if w := x.GetWrapper(); w != nil {
			walk(&w.Cause)
		} else if l := x.GetLeaf(); l != nil {
			if strings.HasSuffix(l.Details.ErrorTypeMark.FamilyName, "barriers/*barriers.barrierErr") {
				found = true
				l.Details.ErrorTypeMark.FamilyName = strings.TrimSuffix(l.Details.ErrorTypeMark.FamilyName, "barrierErr") + "barrierError"
				l.Details.OriginalTypeName = l.Details.ErrorTypeMark.FamilyName
				// plain text as the old peer had it: any bytes, marker runes included
				l.Message = stripMarkers(l.Message) + suffix
			}
			for _, c := range l.MultierrorCauses {
				walk(c)
			}
		}
	}
	walk(&enc)
	if !found {
		return nil
	}
	return errors.DecodeError(context.Background(), enc)
}

// foreignStackPaths: a stack received from a peer whose file names have a drive letter (a colon) or a
// space: the frames of the report are the frames that were captured, the source prefix is the first one.
func foreignStackPaths() (string, string) {
	e := errors.Wrap(errors.New("origin"), "ctx")
	local, _ := report.BuildSentryReport(e)
	for _, prefix := range []string{"C:", "/mnt/build dir"} {
		enc := errors.EncodeError(context.Background(), e)
		var walk func(x *errorspb.EncodedError)
		walk = func(x *errorspb.EncodedError) {
			if w := x.GetWrapper(); w != nil {
				for i, d := range w.Details.ReportablePayload {
					w.Details.ReportablePayload[i] = strings.ReplaceAll(d, "\n\t/", "\n\t"+prefix+"/")
				}
				walk(&w.Cause)
			}
		}
		walk(&enc)
		dec := errors.DecodeError(context.Background(), enc)
		ev, _ := report.BuildSentryReport(dec)
		if len(ev.Exception) != len(local.Exception) {
			return "a decoded error whose stack file names contain " + prefix + " gives another number of exceptions", fmt.Sprint(len(ev.Exception), " vs ", len(local.Exception))
		}
		for xi, ex := range ev.Exception {
			lf := local.Exception[xi].Stacktrace
			if ex.Stacktrace == nil || lf == nil || len(ex.Stacktrace.Frames) != len(lf.Frames) {
				return "frames lost for a stack whose file names contain " + prefix, ""
			}
			for fi, f := range ex.Stacktrace.Frames {
				want := lf.Frames[fi]
				if f.Lineno != want.Lineno || f.Function != want.Function || !strings.HasSuffix(f.AbsPath, want.AbsPath) || !strings.HasPrefix(f.AbsPath, prefix) {
					return "a frame re-parsed from a printed stack whose file names contain " + prefix + " differs from the captured frame",
						fmt.Sprintf("%s:%d %s vs %s:%d %s", f.AbsPath, f.Lineno, f.Function, want.AbsPath, want.Lineno, want.Function)
				}
			}
		}
		f, l, _, ok := withstack.GetOneLineSource(dec)
		lf, ll, _, _ := withstack.GetOneLineSource(e)
		if !ok || f != lf || l != ll {
			return "the one-line source of a stack whose file names contain " + prefix + " is wrong", fmt.Sprintf("%s:%d vs %s:%d", f, l, lf, ll)
		}
	}
	return "", ""
}

// bareJoinNesting: joins made by the sub-package constructor (no stack layer around them) directly inside
// one another: every join node is a node of the tree, before and after transfer -- Is against the inner
// join (the same object, an equal one built separately) is kept, the shape (branch counts) is kept.
func bareJoinNesting() (string, string) {
	mk := func() (error, error, error) {
		a, b, c := errors.New("a"), fmt.Errorf("b"), errors.New("c")
		inner := join.Join(a, b)
		return join.Join(inner, c), inner, join.Join(join.Join(c, inner), a)
	}
	e, inner, deep := mk()
	_, innerEq, _ := mk()
	ctx := context.Background()
	for _, x := range []error{e, deep, errors.Wrap(e, "ctx")} {
		cur := x
		for hop := 1; hop <= 3; hop++ {
			cur = errors.DecodeError(ctx, errors.EncodeError(ctx, cur))
			for name, r := range map[string]error{"the inner join": inner, "an equal inner join": innerEq} {
				if errors.Is(x, r) && !errors.Is(cur, r) {
					return fmt.Sprintf("Is(e, %s) holds before transfer and not after hop %d (joins nested directly)", name, hop), shapeSx(cur).String()
				}
			}
			if a, b := textTree(x).String(), textTree(cur).String(); a != b {
				return fmt.Sprintf("joins nested directly change shape at hop %d", hop), firstDiff(a, b)
			}
		}
	}
	return "", ""
}

// typedNilChains: a nil pointer of an error type stored in an error value is an error like any other for the
// standard library (its Unwrap / Is / As keep it); the library agrees on every chain around such a value.
func typedNilChains() (string, string) {
	var sentinel error = (*ut.NilOK)(nil)
	chains := map[string]error{
		"fmt.Errorf(%w)":       fmt.Errorf("ctx: %w", sentinel),
		"pkg WithMessage":      pkgerr.WithMessage(sentinel, "ctx"),
		"errors.Wrap":          errors.Wrap(sentinel, "ctx"),
		"errors.WithStack":     errors.WithStack(sentinel),
		"hint over fmt.Errorf": errors.WithHint(fmt.Errorf("ctx: %w", sentinel), "h"),
		"join branch":          errors.Join(errors.New("other"), fmt.Errorf("ctx: %w", sentinel)),
	}
	for name, e := range chains {
		if goerr.Is(e, sentinel) && !errors.Is(e, sentinel) {
			return "the standard errors.Is finds a typed-nil sentinel that the library's Is does not (" + name + ")", fmt.Sprintf("%T", e)
		}
		var t1, t2 *ut.NilOK
		t1, t2 = &ut.NilOK{Msg: "unset"}, &ut.NilOK{Msg: "unset"}
		s, l := goerr.As(e, &t1), errors.As(e, &t2)
		if s != l || (s && t1 != t2) {
			return "As disagrees with the standard errors.As on a chain that ends in a typed-nil value (" + name + ")", fmt.Sprintf("std %v %v, lib %v %v", s, t1, l, t2)
		}
		if name == "join branch" {
			continue
		}
		if a, b := goerr.Unwrap(e), errors.Unwrap(e); a != b {
			return "Unwrap disagrees with the standard errors.Unwrap above a typed-nil value (" + name + ")", fmt.Sprintf("std %T(%v) lib %T(%v)", a, a, b, b)
		}
		if name != "fmt.Errorf(%w)" && name != "hint over fmt.Errorf" {
			if a, b := pkgerr.Cause(e), errors.Cause(e); a != b {
				return "Cause disagrees with pkg/errors.Cause on a chain that ends in a typed-nil value (" + name + ")", fmt.Sprintf("pkg %T lib %T", a, b)
			}
		}
	}
	return "", ""
}

// thirdPartyTracer: any layer with a StackTrace() method in the pkg/errors format is a stack-bearing layer:
// it gets an exception of its own in the report, and when it is the innermost such layer the message is
// prefixed with ITS file:line -- whatever library layers (with stacks of their own) are above it.
func thirdPartyTracer() (string, string) {
	leaf := ut.NewTracer("third party failure")
	f0 := leaf.St[0]
	wantPrefix := fmt.Sprintf("%s:%d: ", f0, f0)
	for name, e := range map[string]error{
		"bare":                  leaf,
		"under a hint":          errors.WithHint(leaf, "h"),
		"under WithStack":       errors.WithStack(leaf),
		"under Wrap":            errors.Wrap(leaf, "ctx"),
		"under pkg WithMessage": pkgerr.WithMessage(leaf, "ctx"),
	} {
		file, line, _, ok := errors.GetOneLineSource(e)
		if !ok || fmt.Sprintf("%s:%d: ", file, line) != wantPrefix {
			return "GetOneLineSource does not report the innermost stack-bearing layer when it is of a third-party type with StackTrace() (" + name + ")",
				fmt.Sprintf("got %v %s:%d, want %s", ok, file, line, wantPrefix)
		}
		ev, _ := report.BuildSentryReport(e)
		if !strings.HasPrefix(ev.Message, wantPrefix) {
			return "the report message is not prefixed with the source of the innermost stack-bearing layer (third-party type with StackTrace(), " + name + ")",
				fmt.Sprintf("%q, want prefix %q", firstLine(ev.Message), wantPrefix)
		}
		n := 0
		for c := e; c != nil; c = errors.UnwrapOnce(c) {
			if withstack.GetReportableStackTrace(c) != nil {
				n++
			}
		}
		if len(ev.Exception) != n {
			return "the report does not have one exception per stack-bearing layer (third-party type with StackTrace(), " + name + ")", fmt.Sprint(len(ev.Exception), " vs ", n)
		}
	}
	return "", ""
}

func firstLine(s string) string {
	if i := strings.IndexByte(s, '\n'); i >= 0 {
		return s[:i]
	}
	return s
}

// liveStrings: every string given to a constructor in the parts of the expression that become part of
// the error (a sub-expression that evaluates to nil, what is attached to a nil error, and the reference of
// Mark contribute nothing).
func liveStrings(r *R) string {
	var b strings.Builder
	var walk func(r *R)
	walk = func(r *R) {
		if r == nil {
			return
		}
		if _, isNil := specText(r); isNil {
			return
		}
		for _, x := range r.S {
			b.WriteString(x + "\x00")
		}
		for _, x := range r.Strs {
			b.WriteString(x + "\x00")
		}
		for _, t := range r.Tags {
			b.WriteString(t.K + "\x00" + t.V + "\x00")
		}
		for _, p := range r.Fmt {
			b.WriteString(p.S + "\x00")
			walk(p.R)
		}
		for i, k := range r.Kids {
			if r.Op == "mark" && i == 1 {
				continue
			}
			walk(k)
		}
	}
	walk(r)
	return b.String()
}

// behaviourTargets: As into pointers to interfaces that do not embed error (Timeout() bool, ErrorHint() string,
// Unwrap() []error): where the standard library finds a match the library finds one too (possibly an earlier one
// behind a Cause()-only wrapper, which the standard library cannot see), and never panics.
func behaviourTargets(e error) (why, detail string) {
	defer func() {
		if p := recover(); p != nil {
			why, detail = "As panics on a target that is a pointer to a behaviour-only interface (the standard errors.As accepts it)", fmt.Sprint(p)
		}
	}()
	{
		var s, l interface{ Timeout() bool }
		sb, lb := goerr.As(e, &s), errors.As(e, &l)
		if sb && !lb {
			return "As(*interface{Timeout() bool}) disagrees with the standard errors.As", fmt.Sprintf("std %v %T, lib %v %T", sb, s, lb, l)
		}
	}
	{
		var s, l interface{ ErrorHint() string }
		sb, lb := goerr.As(e, &s), errors.As(e, &l)
		if sb && !lb {
			return "As(*interface{ErrorHint() string}) disagrees with the standard errors.As", fmt.Sprintf("std %v %T, lib %v %T", sb, s, lb, l)
		}
	}
	{
		var s, l interface{ Unwrap() []error }
		sb, lb := goerr.As(e, &s), errors.As(e, &l)
		if sb && !lb {
			return "As(*interface{Unwrap() []error}) disagrees with the standard errors.As", fmt.Sprintf("std %v %T, lib %v %T", sb, s, lb, l)
		}
	}
	return "", ""
}

// errorfVerbForms: errors.Errorf / Newf wrap what fmt.Errorf wraps, for every way fmt accepts the w verb
// (explicit argument index, flags, width): the standard Is that holds for fmt.Errorf(format, args...) holds for the
// library's Is on errors.Errorf(format, args...), and the two have a cause together.  (The texts are not compared:
// with a flag the library renders the operand like %+v, i.e. with its details; C14 is about Is / As / Unwrap.)
func errorfVerbForms() (string, string) {
	sentinel := goerr.New("sentinel cause")
	other := goerr.New("other")
	for _, c := range []struct {
		f    string
		args []interface{}
	}{
		{"plain: %w", []interface{}{sentinel}},
		{"indexed: %[2]w after %[1]s", []interface{}{"x", sentinel}},
		{"flag: %+w", []interface{}{sentinel}},
		{"width: %-5w|", []interface{}{sentinel}},
		{"indexed first: %[1]w and %[2]v", []interface{}{sentinel, other}},
	} {
		std := fmt.Errorf(c.f, c.args...)
		lib := errors.Errorf(c.f, c.args...)
		if goerr.Is(std, sentinel) && !errors.Is(lib, sentinel) {
			return "fmt.Errorf wraps the operand of the w verb in " + c.f + " (standard Is finds it), errors.Errorf does not", fmt.Sprintf("%+v", lib)
		}
		if goerr.Is(std, sentinel) && !goerr.Is(lib, sentinel) {
			return "the standard Is finds the w operand in fmt.Errorf(" + c.f + ") and not in errors.Errorf of the same", ""
		}
		if (goerr.Unwrap(std) != nil) != (errors.UnwrapAll(lib) != lib) {
			return "errors.Errorf(" + c.f + ") has a cause exactly when fmt.Errorf has one: violated", ""
		}
	}
	return "", ""
}

// recursiveStacks: a stack captured under direct recursion holds the same program counter several times in a row;
// every stack-bearing layer reports the same frames (count, functions, lines) before and after 1..3 hops.
func recursiveStacks() (string, string) {
	frames := func(e error) string {
		var b strings.Builder
		for c := e; c != nil; c = errors.UnwrapOnce(c) {
			if st := withstack.GetReportableStackTrace(c); st != nil {
				fmt.Fprintf(&b, "[%d:", len(st.Frames))
				for _, f := range st.Frames {
					fmt.Fprintf(&b, " %s:%d", f.Function, f.Lineno)
				}
				b.WriteString("]")
			}
		}
		return b.String()
	}
	for _, depth := range []int{2, 6, 12} {
		e := errors.Wrap(c16Recurse(depth, c16Origin), "ctx")
		want := frames(e)
		cur := e
		for hop := 1; hop <= 3; hop++ {
			cur = transferOnce(cur, nil)
			if got := frames(cur); got != want {
				return fmt.Sprintf("the reportable frames of an error made %d levels deep in a recursive function differ after hop %d", depth, hop), firstDiff(want, got)
			}
		}
	}
	return "", ""
}

// isMethodMulti: a multi-cause type of the application that also has an Is method (answering no): the standard
// library still looks at its branches, and so does the library.
type isMethodMulti struct{ errs []error }

func (m *isMethodMulti) Error() string   { return "multi with an Is method" }
func (m *isMethodMulti) Unwrap() []error { return m.errs }
func (m *isMethodMulti) Is(error) bool   { return false }

func isMethodMultiShapes() (string, string) {
	sentinel := goerr.New("sentinel in a branch")
	libSentinel := errors.New("library sentinel in a branch")
	for name, e := range map[string]error{
		"bare":           &isMethodMulti{errs: []error{goerr.New("other"), sentinel, libSentinel}},
		"under Wrap":     errors.Wrap(&isMethodMulti{errs: []error{sentinel, libSentinel}}, "ctx"),
		"branch of Join": errors.Join(goerr.New("x"), &isMethodMulti{errs: []error{fmt.Errorf("w: %w", sentinel), errors.WithHint(libSentinel, "h")}}),
		"nested":         &isMethodMulti{errs: []error{&isMethodMulti{errs: []error{sentinel, libSentinel}}}},
	} {
		for _, ref := range []error{sentinel, libSentinel} {
			if goerr.Is(e, ref) && !errors.Is(e, ref) {
				return "the standard errors.Is finds a reference inside a multi-cause error that has an Is method of its own, the library's Is does not (" + name + ")", fmt.Sprintf("%q", ref)
			}
			if goerr.Is(e, ref) && !errors.IsAny(e, goerr.New("none"), ref) {
				return "IsAny misses a reference inside a multi-cause error that has an Is method of its own (" + name + ")", fmt.Sprintf("%q", ref)
			}
		}
	}
	return "", ""
}
