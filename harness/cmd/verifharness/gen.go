package main

import (
	goerr "errors"
	"fmt"
	"io/fs"
	"os"
	"syscall"

	"github.com/cockroachdb/errors"
	"github.com/cockroachdb/errors/errbase"
	"github.com/cockroachdb/errors/errorspb"

	"verifharness/ut"
)

// splitmix64: every random choice of a run derives from VERIF_SEED.
type rng struct{ s uint64 }

func (r *rng) next() uint64 {
	r.s += 0x9e3779b97f4a7c15
	z := r.s
	z = (z ^ (z >> 30)) * 0xbf58476d1ce4e5b9
	z = (z ^ (z >> 27)) * 0x94d049bb133111eb
	return z ^ (z >> 31)
}
func (r *rng) intn(n int) int         { return int(r.next() % uint64(n)) }
func (r *rng) chance(p int) bool      { return r.intn(100) < p }
func (r *rng) pick(l []string) string { return l[r.intn(len(l))] }

var regularPool = []string{
	"alpha", "disk full", "key: value", "100% done", "it's", "say \"hi\"", "na\xc3\xafve caf\xc3\xa9",
	"a\nb", "x: y: z", "trailing: x", "\xe2\x80\x9cquoted\xe2\x80\x9d", "tab\there", "%s %d %v", "[bracket]",
	"\xe6\x97\xa5\xe6\x9c\xac", "path/to/file.go:12", "a=b", "<nil>", "colon:nospace", "l1\nl2\nl3",
	// seams: what extractPrefix / the ": " joins must not confuse
	"ends with colon:", "ends with space ", "double colon::", ":starts with colon", " leading space", "while dialing 10.0.0.1:",
	"sep : inside", ": ", "x: ", "a:  b",
}

var hostilePool = []string{
	"\xe2\x80\xb9", "\xe2\x80\xba", "\xe2\x80\xb9x\xe2\x80\xba", "\xe2\x80\xbax\xe2\x80\xb9", "a\xe2\x80\xb9b", "\xe2\x80\xb9\xc3\x97\xe2\x80\xba",
	"", "\n", "\n\n", "a\n", "\nb", "a\n\nb", "\x00", "\xff", "a\xe2\x80", "\xe2", "\xc3", "ok\xf0\x9f", "%!v(PANIC)",
	"\xe2\x80\xb9\n\xe2\x80\xba", "x\xe2\x80\xba\n", " ", "?", "\xe2\x80\xb9\xe2\x80\xb9", "\xe2\x80\xba\xe2\x80\xba", "a\r\nb", "\t", "\xe2\x80\xb9unclosed",
}

// Gen generates recipes.
type Gen struct {
	r            *rng
	Hostile      bool // strings from the hostile alphabet too
	Tokens       bool // put a unique token into every string: Uq<n>z in unsafe channels, Sq<n>z in safe ones
	OpErrorArrow bool
	// QuoteSafe: some safe constants put their token between guillemets used as quotation marks
	// (only for streams whose relation is not restricted to marker-free inputs)
	QuoteSafe bool
	tok       int
	MaxKids   int
	// which families of nodes to use
	NoForeign   bool
	NoMulti     bool
	NoHidden    bool // no error arguments in format calls
	NoPlusV     bool // no %+v of an error inside a message (it embeds stack traces)
	NoUserAnnot bool // no unregistered user types that carry hints / details
	MaxSize     int  // upper bound on the size of a generated tree (0 = none)
	nest        int
	forceUnsafe int // >0 while generating the arguments of fmt.Errorf: no channel is safe
	inRef       int // >0 while generating the reference of a Mark: nothing in it is a safe channel
	UTokens     []string
	STokens     []string
	Stats       map[string]int
}

func NewGen(seed uint64) *Gen {
	return &Gen{r: &rng{s: seed}, MaxKids: 3, Stats: map[string]int{}}
}

// ResetTokens starts the token lists of a new case.
func (g *Gen) ResetTokens() { g.UTokens, g.STokens = nil, nil }

func (g *Gen) token(safe bool) string {
	g.tok++
	if safe && g.inRef > 0 && g.forceUnsafe == 0 {
		// a safe-channel string inside a Mark reference: not retained, not unsafe either
		return ""
	}
	if safe && g.forceUnsafe == 0 {
		t := fmt.Sprintf("Sq%dz", g.tok)
		g.STokens = append(g.STokens, t)
		return t
	}
	t := fmt.Sprintf("Uq%dz", g.tok)
	g.UTokens = append(g.UTokens, t)
	return t
}

func (g *Gen) rawStr() string {
	var s string
	if g.Hostile && g.r.chance(45) {
		s = g.r.pick(hostilePool)
		if g.r.chance(40) {
			s = g.r.pick(regularPool) + s
		}
		if g.r.chance(30) {
			s = s + g.r.pick(regularPool)
		}
		g.Stats["str:hostile"]++
	} else {
		s = g.r.pick(regularPool)
		if g.r.chance(25) {
			s = s + " " + g.r.pick(regularPool)
		}
		if g.r.chance(10) {
			// a text that is not a format string must never be used as one
			s = s + g.r.pick([]string{" 50%", " %d", "%", " %%", " %w"})
		}
		g.Stats["str:regular"]++
	}
	if g.r.chance(4) {
		// a long value (beyond any "display" limit someone might introduce): 70..200 bytes
		for len(s) < 70+g.r.intn(130) {
			s = s + ", " + g.r.pick(regularPool)
		}
		g.Stats["str:long"]++
	}
	return s
}

func (g *Gen) strc(safe bool) string {
	s := g.rawStr()
	if g.Tokens {
		t := g.token(safe)
		if g.Hostile && g.r.chance(50) {
			// token in the middle: hostile material on both sides
			s = s + t + g.r.pick(hostilePool)
		} else if safe && g.QuoteSafe && g.r.chance(8) {
			// guillemets used as quotation marks in a safe constant: escaped, never a redaction envelope
			s = "\u2039" + t + "\u203a " + s
		} else if g.r.chance(50) {
			s = t + " " + s
		} else {
			s = s + " " + t
		}
	}
	return s
}

// sU: a string passed through an unsafe channel; sS: through a safe channel.
func (g *Gen) sU() string { return g.strc(false) }
func (g *Gen) sS() string { return g.strc(true) }

// a non-empty regular string without newline (keys, urls, domains): safe channels
func (g *Gen) word() string {
	w := []string{"k1", "k2", "pgcode", "http://issue/1", "https://x.y/z?a=1", "sql", "kv", "n", "req.id", "a b"}
	s := g.r.pick(w)
	if g.Tokens {
		s = s + g.token(true)
	}
	return s
}

// a path component: unsafe channel
func (g *Gen) pathWord() string {
	w := []string{"f1", "data.db", "x y", "store-1"}
	s := g.r.pick(w)
	if g.Tokens {
		s = s + g.token(false)
	}
	return s
}

func (g *Gen) fmtCall(depth int, allowW bool, allowErr bool) []FP {
	return g.fmtCallX(depth, allowW, allowErr, false)
}

// litUnsafe: the format string itself is not a safe channel (fmt.Errorf)
func (g *Gen) fmtCallX(depth int, allowW bool, allowErr bool, litUnsafe bool) []FP {
	lit := func() string {
		if litUnsafe {
			return g.sU()
		}
		return g.sS()
	}
	if litUnsafe {
		// nothing given to fmt.Errorf is a safe channel, redact.Safe arguments included
		g.forceUnsafe++
		defer func() { g.forceUnsafe-- }()
	}
	n := 1 + g.r.intn(4)
	var out []FP
	usedW := false
	tokStart := snapshotTokens(g)
	for i := 0; i < n; i++ {
		switch k := g.r.intn(10); {
		case k < 3:
			out = append(out, FP{Kind: "lit", S: lit()})
		case k < 5:
			out = append(out, FP{Kind: "str", Verb: []string{"s", "v"}[g.r.intn(2)], S: g.sU()})
		case k < 6:
			out = append(out, FP{Kind: "safestr", Verb: []string{"s", "v"}[g.r.intn(2)], S: g.sS()})
		case k < 7:
			out = append(out, FP{Kind: "int", Verb: []string{"d", "v"}[g.r.intn(2)], I: int64(g.r.intn(2000)) - 500})
		case k < 8:
			out = append(out, FP{Kind: "safeint", Verb: "d", I: int64(g.r.intn(2000))})
		default:
			if allowErr && depth > 0 && !g.NoHidden {
				verb := []string{"v", "s", "+v"}[g.r.intn(3)]
				if g.NoPlusV && verb == "+v" {
					verb = "v"
				}
				if allowW && !usedW && g.r.chance(50) {
					verb = "w"
					usedW = true
				}
				out = append(out, FP{Kind: "err", Verb: verb, R: g.Tree(depth - 1)})
			} else {
				out = append(out, FP{Kind: "lit", S: lit()})
			}
		}
		if i < n-1 && g.r.chance(60) {
			out = append(out, FP{Kind: "lit", S: []string{" ", ": ", ", ", "=", " - "}[g.r.intn(5)]})
		}
	}
	if g.r.chance(8) {
		// a call with more arguments than verbs (also: an empty format with arguments)
		if g.r.chance(40) && !hasErrPiece(out) {
			out = nil
			restoreTokens(g, tokStart) // the dropped pieces' tokens are not in the error
			if !g.r.chance(50) {
				out = append(out, FP{Kind: "lit", S: ""})
			}
		}
		for k := 0; k < 1+g.r.intn(2); k++ {
			switch g.r.intn(3) {
			case 0:
				out = append(out, FP{Kind: "xstr", S: g.sU()})
			case 1:
				out = append(out, FP{Kind: "xsafestr", S: g.sS()})
			default:
				out = append(out, FP{Kind: "xint", I: int64(g.r.intn(100))})
			}
		}
	}
	return out
}

var errnos = []int64{1, 2, 4, 11, 13, 17, 22, 110}

func (g *Gen) Leaf(depth int) *R {
	g.Stats["leaf"]++
	n := 14
	if g.NoForeign {
		n = 6
	}
	switch g.r.intn(n) {
	case 0:
		return &R{Op: "new", S: []string{g.sS()}}
	case 1:
		return &R{Op: "newf", Fmt: g.fmtCall(depth, true, true)}
	case 2:
		return &R{Op: "unimpl", S: []string{g.urlOrEmpty(), g.maybeEmptyS(), g.sU()}}
	case 3:
		return &R{Op: "assertf", Fmt: g.fmtCall(depth, true, true)}
	case 4:
		return &R{Op: "new", S: []string{g.sS()}}
	case 5:
		return &R{Op: "stdnew", S: []string{g.sU()}}
	case 6:
		return &R{Op: "sentinel", I: []int64{int64(g.r.intn(10))}}
	case 7:
		return &R{Op: "pkgnew", S: []string{g.sU()}}
	case 8:
		if g.r.chance(35) {
			// the same errno as received from a process on another platform
			return &R{Op: "foreignerrno", I: []int64{errnos[g.r.intn(len(errnos))]}}
		}
		return &R{Op: "errno", I: []int64{errnos[g.r.intn(len(errnos))]}}
	case 9:
		return &R{Op: []string{"grpcstatus", "gogostatus"}[g.r.intn(2)], I: []int64{int64(1 + g.r.intn(16))}, S: []string{g.sU()}}
	case 10:
		return &R{Op: "testerror"}
	case 11:
		return &R{Op: "fmterrorf", Fmt: g.fmtCallX(0, false, false, true)}
	default:
		kinds := []string{"plain", "val", "nocmp", "istag", "safedet", "safemsg", "hinter", "dual"}
		k := g.r.pick(kinds)
		if g.NoUserAnnot && k == "hinter" {
			k = "plain"
		}
		msg := ""
		if k == "safemsg" {
			// a user type's SafeMessage(): safe locally, an ordinary message after transfer
			msg = g.rawStr()
		} else {
			msg = g.sU()
		}
		r := &R{Op: "uleaf", S: []string{k, msg}, I: []int64{int64(g.r.intn(3))}, Strs: []string{}}
		switch k {
		case "safedet":
			r.Strs = []string{g.rawStr(), g.rawStr()}
		case "hinter":
			r.Strs = []string{g.maybeEmpty(), g.maybeEmpty()}
		}
		return r
	}
}

// fmtPlain: a format call for the constructors that format with fmt.Sprintf (WithHintf, WithDetailf):
// literals, string and integer arguments
func (g *Gen) fmtPlain() []FP {
	var out []FP
	for k := 1 + g.r.intn(3); k > 0; k-- {
		switch g.r.intn(3) {
		case 0:
			out = append(out, FP{Kind: "lit", S: g.rawStr()})
		case 1:
			out = append(out, FP{Kind: "str", Verb: []string{"s", "v"}[g.r.intn(2)], S: g.sU()})
		default:
			out = append(out, FP{Kind: "int", Verb: "d", I: int64(g.r.intn(2000)) - 500})
		}
		if k > 1 {
			out = append(out, FP{Kind: "lit", S: " "})
		}
	}
	return out
}

func (g *Gen) maybeEmpty() string {
	if g.r.chance(30) {
		return ""
	}
	return g.sU()
}

func (g *Gen) maybeEmptyS() string {
	if g.r.chance(30) {
		return ""
	}
	return g.sS()
}

func (g *Gen) urlOrEmpty() string {
	if g.r.chance(30) {
		return ""
	}
	return g.word()
}

func (g *Gen) keys() []string {
	n := g.r.intn(4)
	out := []string{}
	for i := 0; i < n; i++ {
		if g.r.chance(12) {
			out = append(out, "") // an empty key is a key
			continue
		}
		out = append(out, g.word())
	}
	return out
}

func (g *Gen) tags() []TagKV {
	n := 1 + g.r.intn(3)
	var out []TagKV
	for i := 0; i < n; i++ {
		k := []string{"n", "req", "user", "s", "range"}[g.r.intn(5)]
		if g.Tokens {
			k = g.word()
		}
		if g.Hostile && !g.Tokens && g.r.chance(30) {
			// a key with bytes a printer has to escape (keys are printed as safe strings)
			k = g.sU()
		}
		switch g.r.intn(4) {
		case 0:
			out = append(out, TagKV{K: k, Kind: "nil"})
		case 1:
			out = append(out, TagKV{K: k, Kind: "str", V: g.sU()})
		case 2:
			out = append(out, TagKV{K: k, Kind: "int", V: fmt.Sprint(g.r.intn(100))})
		default:
			out = append(out, TagKV{K: k, Kind: "safe", V: g.rawStr()})
		}
	}
	return out
}

// Wrapper puts one randomly chosen wrapper around kid.
func (g *Gen) Wrapper(kid *R, depth int) *R {
	g.Stats["wrapper"]++
	n := 37
	if g.NoForeign {
		n = 27
	}
	k1 := []*R{kid}
	switch g.r.intn(n) {
	case 0:
		return &R{Op: "wrap", Kids: k1, S: []string{g.maybeEmptyS()}}
	case 1:
		return &R{Op: "wrapf", Kids: k1, Fmt: g.fmtCall(depth, false, true)}
	case 2:
		return &R{Op: "withmessage", Kids: k1, S: []string{g.maybeEmptyS()}}
	case 3:
		// error arguments of WithMessagef are only printed, not retained
		return &R{Op: "withmessagef", Kids: k1, Fmt: g.fmtCall(depth, false, !g.Tokens)}
	case 4:
		return &R{Op: "withstack", Kids: k1}
	case 5, 6:
		if g.r.chance(30) {
			return &R{Op: "hintf", Kids: k1, Fmt: g.fmtPlain()}
		}
		return &R{Op: "hint", Kids: k1, S: []string{g.maybeEmpty()}}
	case 7, 8:
		if g.r.chance(30) {
			return &R{Op: "detailf", Kids: k1, Fmt: g.fmtPlain()}
		}
		return &R{Op: "detail", Kids: k1, S: []string{g.maybeEmpty()}}
	case 9:
		return &R{Op: "issuelink", Kids: k1, S: []string{g.urlOrEmpty(), g.maybeEmptyS()}}
	case 10:
		return &R{Op: "telemetry", Kids: k1, Strs: g.keys()}
	case 11:
		return &R{Op: "domain", Kids: k1, S: []string{"error domain: \"" + g.word() + "\""}}
	case 12:
		return &R{Op: "tags", Kids: k1, Tags: g.tags()}
	case 13:
		return &R{Op: "assert", Kids: k1}
	case 14:
		g.inRef++
		ref := g.Tree(min(depth-1, 2))
		if _, isNil := specText(ref); isNil {
			ref = g.Leaf(0) // Mark(err, nil) is a programming error (it panics)
		}
		g.inRef--
		return &R{Op: "mark", Kids: []*R{kid, ref}}
	case 15:
		return &R{Op: "safedetails", Kids: k1, Fmt: g.fmtCall(0, false, false)}
	case 16:
		return &R{Op: "http", Kids: k1, I: []int64{int64(200 + g.r.intn(400))}}
	case 17:
		code := int64(g.r.intn(18))
		if g.r.chance(15) {
			// application-defined codes beyond the 17 gRPC defines
			code = []int64{17, 42, 100, 1000}[g.r.intn(4)]
		}
		return &R{Op: "grpc", Kids: k1, I: []int64{code}}
	case 18:
		return &R{Op: "secondary", Kids: []*R{kid, g.Tree(min(depth-1, 3))}}
	case 19:
		return &R{Op: "combine", Kids: []*R{kid, g.Tree(min(depth-1, 3))}}
	case 20:
		return &R{Op: "handled", Kids: k1}
	case 21:
		return &R{Op: "handledmsg", Kids: k1, S: []string{g.sU()}}
	case 22:
		return &R{Op: "handledindomain", Kids: k1, S: []string{"error domain: \"" + g.word() + "\""}}
	case 23:
		return &R{Op: "handleassert", Kids: k1}
	case 24:
		return &R{Op: "newassertwrapped", Kids: k1, Fmt: g.fmtCall(depth, false, true)}
	case 25:
		// error arguments of HandledWithMessagef are only printed, not retained
		return &R{Op: "handledmsgf", Kids: k1, Fmt: g.fmtCall(depth, false, !g.Tokens)}
	case 26:
		return &R{Op: "handledindomainmsg", Kids: k1, S: []string{"error domain: \"" + g.word() + "\"", g.sU()}}
	case 27:
		return &R{Op: "pkgmsg", Kids: k1, S: []string{g.sU()}}
	case 28:
		return &R{Op: "pkgstack", Kids: k1}
	case 29:
		if g.r.chance(10) {
			// what os.Open("") returns
			return &R{Op: "patherror", Kids: k1, S: []string{"open", ""}}
		}
		return &R{Op: "patherror", Kids: k1, S: []string{"open", "/tmp/" + g.pathWord()}}
	case 30:
		if g.r.chance(10) {
			return &R{Op: "linkerror", Kids: k1, S: []string{"link", "", "/b/" + g.pathWord()}}
		}
		return &R{Op: "linkerror", Kids: k1, S: []string{"link", "/a/" + g.pathWord(), "/b/" + g.pathWord()}}
	case 31:
		return &R{Op: "syscallerror", Kids: k1, S: []string{"read"}}
	case 33:
		// *net.OpError: no encoder of its own, a special-case printer
		src, addr := "", ""
		if g.r.chance(60) {
			src = "10.0.0." + g.r.pick([]string{"1:80", "7:4433"})
			if g.Tokens {
				src += g.token(false)
			}
		}
		// both a source and an address: only in the streams where the recorded finding about the
		// " -> " of the special-case printer is accounted for (C09) or cannot show (C06)
		if (src == "" || g.OpErrorArrow) && g.r.chance(70) {
			addr = g.r.pick([]string{"[::1]:26257", "db.internal:5432", "/var/run/s.sock"})
			if g.Tokens {
				addr += g.token(false)
			}
		}
		return &R{Op: "operror", Kids: k1, S: []string{g.r.pick([]string{"dial", "read", "write"}), g.r.pick([]string{"tcp", "udp", ""}), src, addr}}
	case 32:
		// fmt.Errorf with exactly one %w wrapping kid
		f := []FP{{Kind: "lit", S: g.sU()}, {Kind: "lit", S: ": "}, {Kind: "err", Verb: "w", R: kid}}
		if g.r.chance(30) {
			f = []FP{{Kind: "err", Verb: "w", R: kid}, {Kind: "lit", S: " ("}, {Kind: "lit", S: g.sU()}, {Kind: "lit", S: ")"}}
		}
		return &R{Op: "fmterrorf", Fmt: f}
	default:
		kinds := []string{"unwrap", "cause", "both", "full", "empty", "safedet", "as", "nocmp"}
		k := g.r.pick(kinds)
		r := &R{Op: "uwrap", S: []string{k, g.sU()}, Kids: k1, Strs: []string{}}
		if k == "safedet" {
			r.Strs = []string{g.rawStr()}
		}
		return r
	}
}

func (g *Gen) Multi(depth int) *R {
	g.Stats["multi"]++
	n := 2 + g.r.intn(g.MaxKids-1)
	var kids []*R
	for i := 0; i < n; i++ {
		if g.r.chance(10) {
			kids = append(kids, &R{Op: "nil"})
		} else {
			kids = append(kids, g.Tree(depth-1))
		}
	}
	switch g.r.intn(3) {
	case 0:
		return &R{Op: "join", Kids: kids}
	case 1:
		if g.NoForeign {
			return &R{Op: "join", Kids: kids}
		}
		return &R{Op: "stdjoin", Kids: kids}
	default:
		if g.NoForeign {
			return &R{Op: "join", Kids: kids}
		}
		var f []FP
		f = append(f, FP{Kind: "lit", S: g.sU()})
		for _, k := range kids {
			if k.Op == "nil" {
				continue
			}
			f = append(f, FP{Kind: "lit", S: " & "}, FP{Kind: "err", Verb: "w", R: k})
		}
		return &R{Op: "fmterrorf", Fmt: f}
	}
}

func hasErrPiece(f []FP) bool {
	for _, p := range f {
		if p.Kind == "err" {
			return true
		}
	}
	return false
}

// Size counts the constructor applications of a recipe.
func (r *R) Size() int {
	n := 1
	for _, k := range r.Kids {
		n += k.Size()
	}
	for _, p := range r.Fmt {
		if p.R != nil {
			n += p.R.Size()
		}
	}
	return n
}

// Tree generates a recipe of at most the given depth (and at most MaxSize
// constructor applications when MaxSize > 0: the cost of evaluating the model
// grows with the cube of the size, and large trees add no new local behaviour).
func (g *Gen) Tree(depth int) *R {
	if g.MaxSize > 0 && g.nest == 0 {
		g.nest++
		defer func() { g.nest-- }()
		for {
			st := snapshotTokens(g)
			r := g.tree(depth)
			if r.Size() <= g.MaxSize {
				return r
			}
			restoreTokens(g, st)
			if depth > 1 {
				depth--
			}
		}
	}
	return g.tree(depth)
}

type tokState struct{ nu, ns int }

func snapshotTokens(g *Gen) tokState { return tokState{len(g.UTokens), len(g.STokens)} }
func restoreTokens(g *Gen, s tokState) {
	g.UTokens, g.STokens = g.UTokens[:s.nu], g.STokens[:s.ns]
}

func (g *Gen) tree(depth int) *R {
	if depth <= 0 {
		return g.Leaf(0)
	}
	switch k := g.r.intn(100); {
	case k < 15:
		return g.Leaf(depth)
	case k < 25:
		return g.Multi(depth)
	default:
		return g.Wrapper(g.Tree(depth-1), depth)
	}
}

// Chain generates a single-cause chain with exactly n wrappers.
func (g *Gen) Chain(n int) *R {
	r := g.Leaf(1)
	for i := 0; i < n; i++ {
		if i > 0 && len(r.Kids) == 1 && len(r.Fmt) == 0 && g.r.chance(15) {
			// the same annotation applied a second time, directly on top of the first
			// (same hint, same tags, same keys ...): every application is a layer of its own
			again := cloneR(r)
			again.Kids = []*R{r}
			r = again
			continue
		}
		r = g.Wrapper(r, 1)
	}
	return r
}

func min(a, b int) int {
	if a < b {
		return a
	}
	return b
}

func (r *R) Depth() int {
	d := 0
	for _, k := range r.Kids {
		if x := k.Depth(); x > d {
			d = x
		}
	}
	for _, p := range r.Fmt {
		if p.R != nil {
			if x := p.R.Depth(); x > d {
				d = x
			}
		}
	}
	return d + 1
}

func (r *R) CountOps(m map[string]int) {
	m["op:"+r.Op]++
	for _, k := range r.Kids {
		k.CountOps(m)
	}
	for _, p := range r.Fmt {
		if p.R != nil {
			p.R.CountOps(m)
		}
	}
}

// stdAsByType: the standard library's errors.As for the same target types.
func stdAsByType(e error, name string) (error, bool) {
	switch name {
	case "verifharness/ut/*ut.Plain":
		var t *ut.Plain
		if goerr.As(e, &t) {
			return t, true
		}
	case "verifharness/ut/ut.Val":
		var t ut.Val
		if goerr.As(e, &t) {
			return t, true
		}
	case "verifharness/ut/*ut.IsTag":
		var t *ut.IsTag
		if goerr.As(e, &t) {
			return t, true
		}
	case "syscall/syscall.Errno":
		var t syscall.Errno
		if goerr.As(e, &t) {
			return t, true
		}
	case "io/fs/*fs.PathError":
		var t *fs.PathError
		if goerr.As(e, &t) {
			return t, true
		}
	case "os/*os.LinkError":
		var t *os.LinkError
		if goerr.As(e, &t) {
			return t, true
		}
	case "os/*os.SyscallError":
		var t *os.SyscallError
		if goerr.As(e, &t) {
			return t, true
		}
	case "github.com/cockroachdb/errors/errbase/*errbase.OpaqueErrno":
		var t *errbase.OpaqueErrno
		if goerr.As(e, &t) {
			return t, true
		}
	case "github.com/cockroachdb/errors/errorspb/*errorspb.TestError":
		var t *errorspb.TestError
		if goerr.As(e, &t) {
			return t, true
		}
	default:
		return nil, false
	}
	return nil, true
}

// asByType implements errors.As for the concrete target types the generator uses.
func asByType(e error, name string) (error, bool) {
	switch name {
	case "verifharness/ut/*ut.Plain":
		var t *ut.Plain
		if errors.As(e, &t) {
			return t, true
		}
	case "verifharness/ut/ut.Val":
		var t ut.Val
		if errors.As(e, &t) {
			return t, true
		}
	case "verifharness/ut/*ut.IsTag":
		var t *ut.IsTag
		if errors.As(e, &t) {
			return t, true
		}
	case "syscall/syscall.Errno":
		var t syscall.Errno
		if errors.As(e, &t) {
			return t, true
		}
	case "io/fs/*fs.PathError":
		var t *fs.PathError
		if errors.As(e, &t) {
			return t, true
		}
	case "os/*os.LinkError":
		var t *os.LinkError
		if errors.As(e, &t) {
			return t, true
		}
	case "os/*os.SyscallError":
		var t *os.SyscallError
		if errors.As(e, &t) {
			return t, true
		}
	case "github.com/cockroachdb/errors/errbase/*errbase.OpaqueErrno":
		var t *errbase.OpaqueErrno
		if errors.As(e, &t) {
			return t, true
		}
	case "github.com/cockroachdb/errors/errorspb/*errorspb.TestError":
		var t *errorspb.TestError
		if errors.As(e, &t) {
			return t, true
		}
	default:
		return nil, false
	}
	return nil, true
}

// asValTarget: errors.As into a *ut.Val target (what ut.WAs's As method fills)
var asTypeTargets = []string{
	"verifharness/ut/*ut.Plain", "verifharness/ut/ut.Val", "verifharness/ut/*ut.IsTag", "syscall/syscall.Errno",
	"io/fs/*fs.PathError", "os/*os.LinkError", "os/*os.SyscallError",
	"github.com/cockroachdb/errors/errbase/*errbase.OpaqueErrno",
	"github.com/cockroachdb/errors/errorspb/*errorspb.TestError",
}
var asIfaceTargets = []string{"safedetailer", "hinter", "timeout", "unwrapmulti", "safeformatter"}
