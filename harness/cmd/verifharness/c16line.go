package main

import "github.com/cockroachdb/errors"

// callers whose symbol names / file names are unusual: methods of instantiated generic types,
// closures inside generic functions, a source file in a directory whose name has a space

type c16Box[T any] struct{ v T }

//go:noinline
func (b *c16Box[T]) fail() error { return errors.New("from a generic method") }

//go:noinline
func c16Validate[T any](v T) error {
	f := func() error { return errors.Newf("bad value %v", v) }
	return f()
}

//go:noinline
func c16SpacedPath() error {
//line /tmp/my project/src/acct/ledger.go:101
	return errors.New("spaced")
}
