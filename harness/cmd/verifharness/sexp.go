package main

import (
	"fmt"
	"strconv"
	"strings"
)

// Sx is an S-expression: the only data format shared with the model runner.
type Sx struct {
	IsAtom bool
	Atom   string
	List   []Sx
}

func A(s string) Sx                 { return Sx{IsAtom: true, Atom: s} }
func L(items ...Sx) Sx              { return Sx{List: items} }
func Sym(s string) Sx               { return A(s) }
func N(i int64) Sx                  { return A(strconv.FormatInt(i, 10)) }
func U(i uint64) Sx                 { return A(strconv.FormatUint(i, 10)) }
func B(b bool) Sx                   { if b { return A("true") }; return A("false") }
func Tag(t string, items ...Sx) Sx  { return Sx{List: append([]Sx{A(t)}, items...)} }
func Strs(l []string) Sx {
	r := Sx{List: []Sx{}}
	for _, s := range l {
		r.List = append(r.List, A(s))
	}
	return r
}

func bareOK(c byte) bool {
	return (c >= 'A' && c <= 'Z') || (c >= 'a' && c <= 'z') || (c >= '0' && c <= '9') ||
		c == '_' || c == '.' || c == '+' || c == '-' || c == '/' || c == '*' || c == ':'
}

func writeAtom(b *strings.Builder, s string) {
	bare := len(s) > 0
	for i := 0; i < len(s) && bare; i++ {
		if !bareOK(s[i]) {
			bare = false
		}
	}
	if bare {
		b.WriteString(s)
		return
	}
	b.WriteByte('"')
	for i := 0; i < len(s); i++ {
		c := s[i]
		switch {
		case c == '"':
			b.WriteString("\\\"")
		case c == '\\':
			b.WriteString("\\\\")
		case c == '\n':
			b.WriteString("\\n")
		case c >= 0x20 && c <= 0x7e:
			b.WriteByte(c)
		default:
			fmt.Fprintf(b, "\\x%02x", c)
		}
	}
	b.WriteByte('"')
}

func (x Sx) write(b *strings.Builder) {
	if x.IsAtom {
		writeAtom(b, x.Atom)
		return
	}
	b.WriteByte('(')
	for i, y := range x.List {
		if i > 0 {
			b.WriteByte(' ')
		}
		y.write(b)
	}
	b.WriteByte(')')
}

func (x Sx) String() string {
	var b strings.Builder
	x.write(&b)
	return b.String()
}
