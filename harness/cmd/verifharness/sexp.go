package main

import (
	"fmt"
	"strconv"
	"strings"
)

// Sx is an S-expression: the only data format shared with the model runner.
type Sx struct {
	IsAtom bool
	Atom   string
	List   []Sx
}

func A(s string) Sx    { return Sx{IsAtom: true, Atom: s} }
func L(items ...Sx) Sx { return Sx{List: items} }
func Sym(s string) Sx  { return A(s) }
func N(i int64) Sx     { return A(strconv.FormatInt(i, 10)) }
func U(i uint64) Sx    { return A(strconv.FormatUint(i, 10)) }
func B(b bool) Sx {
	if b {
		return A("true")
	}
	return A("false")
}
func Tag(t string, items ...Sx) Sx { return Sx{List: append([]Sx{A(t)}, items...)} }
func Strs(l []string) Sx {
	r := Sx{List: []Sx{}}
	for _, s := range l {
		r.List = append(r.List, A(s))
	}
	return r
}

func bareOK(c byte) bool {
	return (c >= 'A' && c <= 'Z') || (c >= 'a' && c <= 'z') || (c >= '0' && c <= '9') ||
		c == '_' || c == '.' || c == '+' || c == '-' || c == '/' || c == '*' || c == ':'
}

func writeAtom(b *strings.Builder, s string) {
	bare := len(s) > 0
	for i := 0; i < len(s) && bare; i++ {
		if !bareOK(s[i]) {
			bare = false
		}
	}
	if bare {
		b.WriteString(s)
		return
	}
	b.WriteByte('"')
	for i := 0; i < len(s); i++ {
		c := s[i]
		switch {
		case c == '"':
			b.WriteString("\\\"")
		case c == '\\':
			b.WriteString("\\\\")
		case c == '\n':
			b.WriteString("\\n")
		case c >= 0x20 && c <= 0x7e:
			b.WriteByte(c)
		default:
			fmt.Fprintf(b, "\\x%02x", c)
		}
	}
	b.WriteByte('"')
}

func (x Sx) write(b *strings.Builder) {
	if x.IsAtom {
		writeAtom(b, x.Atom)
		return
	}
	b.WriteByte('(')
	for i, y := range x.List {
		if i > 0 {
			b.WriteByte(' ')
		}
		y.write(b)
	}
	b.WriteByte(')')
}

func (x Sx) String() string {
	var b strings.Builder
	x.write(&b)
	return b.String()
}

// ParseSx parses one S-expression in the syntax String() prints.
func ParseSx(s string) (x Sx, err error) {
	defer func() {
		if r := recover(); r != nil {
			err = fmt.Errorf("sexp parse: %v", r)
		}
	}()
	pos := 0
	var p func() Sx
	skip := func() {
		for pos < len(s) && (s[pos] == ' ' || s[pos] == '\t' || s[pos] == '\n' || s[pos] == '\r') {
			pos++
		}
	}
	hexv := func(c byte) byte {
		switch {
		case c >= '0' && c <= '9':
			return c - '0'
		case c >= 'a' && c <= 'f':
			return c - 'a' + 10
		case c >= 'A' && c <= 'F':
			return c - 'A' + 10
		}
		panic("hex")
	}
	p = func() Sx {
		skip()
		if pos >= len(s) {
			panic("eof")
		}
		switch s[pos] {
		case '(':
			pos++
			out := Sx{List: []Sx{}}
			for {
				skip()
				if pos >= len(s) {
					panic("unclosed")
				}
				if s[pos] == ')' {
					pos++
					return out
				}
				out.List = append(out.List, p())
			}
		case ')':
			panic("unexpected )")
		case '"':
			pos++
			var b strings.Builder
			for {
				if pos >= len(s) {
					panic("unclosed string")
				}
				c := s[pos]
				pos++
				if c == '"' {
					break
				}
				if c == '\\' {
					d := s[pos]
					pos++
					switch d {
					case 'n':
						b.WriteByte('\n')
					case 't':
						b.WriteByte('\t')
					case '\\':
						b.WriteByte('\\')
					case '"':
						b.WriteByte('"')
					case 'x':
						b.WriteByte(hexv(s[pos])*16 + hexv(s[pos+1]))
						pos += 2
					default:
						panic("bad escape")
					}
					continue
				}
				b.WriteByte(c)
			}
			return A(b.String())
		}
		st := pos
		for pos < len(s) && !strings.ContainsRune(" \t\r\n()\"", rune(s[pos])) {
			pos++
		}
		return A(s[st:pos])
	}
	x = p()
	return x, nil
}
