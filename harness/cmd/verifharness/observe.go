package main

import (
	"context"
	goerr "errors"
	"fmt"
	"io"
	"reflect"
	"sort"

	"github.com/cockroachdb/errors"
	"github.com/cockroachdb/errors/errbase"
	"github.com/cockroachdb/errors/errorspb"
	"github.com/cockroachdb/errors/extgrpc"
	"github.com/cockroachdb/errors/exthttp"
	"github.com/cockroachdb/errors/oserror"
	"github.com/cockroachdb/redact"
	gogorpc "github.com/gogo/googleapis/google/rpc"
	"github.com/gogo/protobuf/types"
	pkgerr "github.com/pkg/errors"

	"github.com/cockroachdb/errors/report"
)

// reportSx: the structured content of BuildSentryReport
func reportSx(e error) Sx {
	ev, extras := report.BuildSentryReport(e)
	if ev == nil {
		return Sym("none")
	}
	exs := L()
	for _, ex := range ev.Exception {
		fr := Sym("none")
		if ex.Stacktrace != nil {
			fr = L()
			for _, f := range ex.Stacktrace.Frames {
				fr.List = append(fr.List, L(A(f.Module), A(f.Function), A(f.AbsPath), N(int64(f.Lineno))))
			}
		}
		exs.List = append(exs.List, L(A(ex.Type), A(ex.Value), A(ex.Module), fr))
	}
	tl, _ := extras["error types"].(string)
	return L(A(ev.Message), exs, A(tl), N(int64(len(extras))))
}

var ioEOF = io.EOF
var ioUnexpectedEOF = io.ErrUnexpectedEOF

// goFullName replicates errbase.getFullTypeName (package path + "/" + type string).
func goFullName(err error) string {
	t := reflect.TypeOf(err)
	return pkgPath(t) + "/" + t.String()
}

func pkgPath(t reflect.Type) string {
	if p := t.PkgPath(); p != "" {
		return p
	}
	switch t.Kind() {
	case reflect.Array, reflect.Chan, reflect.Map, reflect.Ptr, reflect.Slice:
		return pkgPath(t.Elem())
	}
	return ""
}

func shapeSx(e error) Sx {
	hd := []Sx{Sym("n"), A(goFullName(e)), A(e.Error())}
	if c := errors.UnwrapOnce(e); c != nil {
		return L(append(hd, L(Sym("c"), shapeSx(c)))...)
	}
	if cs := errbase.UnwrapMulti(e); len(cs) > 0 {
		m := []Sx{Sym("m")}
		for _, c := range cs {
			m = append(m, shapeSx(c))
		}
		return L(append(hd, L(m...))...)
	}
	return L(hd...)
}

func payloadSx(a *types.Any) Sx {
	if a == nil {
		return Sym("none")
	}
	var d types.DynamicAny
	if err := types.UnmarshalAny(a, &d); err != nil {
		return L(Sym("other"), A(a.TypeUrl), A(string(a.Value)))
	}
	switch m := d.Message.(type) {
	case *errorspb.StringPayload:
		return L(Sym("string"), A(m.Msg))
	case *errorspb.StringsPayload:
		out := []Sx{Sym("strings")}
		for _, s := range m.Details {
			out = append(out, A(s))
		}
		return L(out...)
	case *errorspb.TagsPayload:
		out := []Sx{Sym("tags")}
		for _, t := range m.Tags {
			out = append(out, L(A(t.Tag), A(t.Value)))
		}
		return L(out...)
	case *errorspb.MarkPayload:
		out := []Sx{Sym("mark"), A(m.Msg)}
		for _, t := range m.Types {
			out = append(out, L(A(t.FamilyName), A(t.Extension)))
		}
		return L(out...)
	case *errorspb.ErrnoPayload:
		return L(Sym("errno"), N(m.OrigErrno), A(m.Arch), B(m.IsPermission), B(m.IsExist),
			B(m.IsNotExist), B(m.IsTimeout), B(m.IsTemporary))
	case *errorspb.EncodedError:
		return L(Sym("enc"), encSx(m))
	case *exthttp.EncodedHTTPCode:
		return L(Sym("http"), U(uint64(m.Code)))
	case *extgrpc.EncodedGrpcCode:
		return L(Sym("grpc"), U(uint64(m.Code)))
	case *gogorpc.Status:
		if len(m.Details) == 0 {
			return L(Sym("status"), U(uint64(uint32(m.Code))), A(m.Message))
		}
	case *errorspb.TestError:
		return L(Sym("testerror"))
	}
	return L(Sym("other"), A(a.TypeUrl), A(string(a.Value)))
}

func detailsSx(d *errorspb.EncodedErrorDetails) Sx {
	return L(Sym("d"), A(d.OriginalTypeName), A(d.ErrorTypeMark.FamilyName), A(d.ErrorTypeMark.Extension),
		Strs(d.ReportablePayload), payloadSx(d.FullDetails))
}

func encSx(e *errorspb.EncodedError) Sx {
	if w := e.GetWrapper(); w != nil {
		return L(Sym("wrap"), encSx(&w.Cause), A(w.Message), detailsSx(&w.Details), N(int64(w.MessageType)))
	}
	l := e.GetLeaf()
	if l == nil {
		return L(Sym("empty"))
	}
	cs := L()
	for _, c := range l.MultierrorCauses {
		cs.List = append(cs.List, encSx(c))
	}
	return L(Sym("leaf"), A(l.Message), detailsSx(&l.Details), cs)
}

func follow(e error, steps []Sx) error {
	for _, s := range steps {
		if e == nil {
			return nil
		}
		if s.IsAtom && s.Atom == "c" {
			e = errors.UnwrapOnce(e)
		} else if !s.IsAtom && len(s.List) == 2 && s.List[0].Atom == "m" {
			var k int
			fmt.Sscanf(s.List[1].Atom, "%d", &k)
			cs := errbase.UnwrapMulti(e)
			if k >= len(cs) {
				return nil
			}
			e = cs[k]
		} else {
			panic("bad path step")
		}
	}
	return e
}

// Ref is a reference specification of a case.
type Ref struct {
	Kind  string // nil sent path recipe xfer
	N     int64
	Path  []Sx
	R     *R
	Inner *Ref
	Procs [][]string
}

func (r *Ref) Sx() Sx {
	switch r.Kind {
	case "nil":
		return L(Sym("nil"))
	case "sent":
		return L(Sym("sent"), N(r.N))
	case "path":
		return L(Sym("path"), L(r.Path...))
	case "recipe":
		return L(Sym("recipe"), r.R.Sx())
	case "xfer":
		return L(Sym("xfer"), r.Inner.Sx(), procsSx(r.Procs))
	}
	panic("bad ref")
}

func (r *Ref) Build(c *BuildCtx, e error) error {
	switch r.Kind {
	case "nil":
		return nil
	case "sent":
		return sentinels[r.N]
	case "path":
		return follow(e, r.Path)
	case "recipe":
		return r.R.Build(c)
	case "xfer":
		return transfer(r.Inner.Build(c, e), r.Procs)
	}
	panic("bad ref")
}

// Obs is one requested observation; Sx() is its request syntax.
type Obs struct {
	Name   string
	Refs   []int     // is, isany, hastype
	Target [2]string // as: kind, name
	Procs  [][]string
	Sub    []Obs // hop
}

func (o Obs) Sx() Sx {
	switch o.Name {
	case "is", "hastype", "isany", "std-is":
		out := []Sx{Sym(o.Name)}
		for _, r := range o.Refs {
			out = append(out, N(int64(r)))
		}
		return L(out...)
	case "as", "std-as":
		return L(Sym(o.Name), L(Sym(o.Target[0]), A(o.Target[1])))
	case "hop":
		out := []Sx{Sym("hop"), procsSx(o.Procs)}
		for _, s := range o.Sub {
			out = append(out, s.Sx())
		}
		return L(out...)
	}
	return Sym(o.Name)
}

type timeoutI interface{ Timeout() bool }
type unwrapMultiI interface{ Unwrap() []error }

func asTarget(e error, kind, name string) Sx {
	found := func(x error) Sx { return L(Sym("found"), A(goFullName(x)), A(x.Error())) }
	if kind == "iface" {
		switch name {
		case "safedetailer":
			var t errbase.SafeDetailer
			if errors.As(e, &t) {
				return found(t.(error))
			}
		case "hinter":
			var t errors.ErrorHinter
			if errors.As(e, &t) {
				return found(t.(error))
			}
		case "timeout":
			var t timeoutI
			if errors.As(e, &t) {
				return found(t.(error))
			}
		case "unwrapmulti":
			var t unwrapMultiI
			if errors.As(e, &t) {
				return found(t.(error))
			}
		case "safeformatter":
			var t errbase.SafeFormatter
			if errors.As(e, &t) {
				return found(t.(error))
			}
		default:
			panic("unknown iface " + name)
		}
		return Sym("notfound")
	}
	if x, ok := asByType(e, name); ok {
		if x == nil {
			return Sym("notfound")
		}
		return found(x)
	}
	panic("unknown as type " + name)
}

// observe evaluates one observation on the implementation; panics are caught
// by the caller and reported as (panic "...").
func observe(o Obs, e error, refs []error) (res Sx) {
	defer func() {
		if r := recover(); r != nil {
			res = L(A(o.Name), L(Sym("panic"), A(fmt.Sprint(r))))
		}
	}()
	onErr := func(f func() Sx) Sx {
		if e == nil {
			return Sym("nil-error")
		}
		return f()
	}
	var v Sx
	switch o.Name {
	case "nilness":
		if e == nil {
			v = Sym("nil")
		} else {
			v = Sym("nonnil")
		}
	case "text":
		v = onErr(func() Sx { return A(e.Error()) })
	case "shape":
		v = onErr(func() Sx { return shapeSx(e) })
	case "root":
		v = onErr(func() Sx { r := errors.UnwrapAll(e); return L(A(goFullName(r)), A(r.Error())) })
	case "hints":
		v = onErr(func() Sx { return Strs(errors.GetAllHints(e)) })
	case "details":
		v = onErr(func() Sx { return Strs(errors.GetAllDetails(e)) })
	case "flathints":
		v = onErr(func() Sx { return A(errors.FlattenHints(e)) })
	case "flatdetails":
		v = onErr(func() Sx { return A(errors.FlattenDetails(e)) })
	case "links":
		v = onErr(func() Sx {
			out := L()
			for _, l := range errors.GetAllIssueLinks(e) {
				out.List = append(out.List, L(A(l.IssueURL), A(l.Detail)))
			}
			return out
		})
	case "keys":
		v = onErr(func() Sx {
			ks := errors.GetTelemetryKeys(e)
			sort.Strings(ks)
			return Strs(ks)
		})
	case "domain":
		v = onErr(func() Sx { return A(string(errors.GetDomain(e))) })
	case "tags":
		v = onErr(func() Sx {
			out := L()
			for _, b := range errors.GetContextTags(e) {
				bl := L()
				for _, t := range b.Get() {
					bl.List = append(bl.List, L(A(t.Key()), A(t.ValueStr())))
				}
				out.List = append(out.List, bl)
			}
			return out
		})
	case "flags":
		v = onErr(func() Sx {
			return L(B(errors.HasAssertionFailure(e)), B(errors.IsAssertionFailure(e)),
				B(errors.HasIssueLink(e)), B(errors.HasUnimplementedError(e)))
		})
	case "codes":
		v = onErr(func() Sx {
			return L(N(int64(exthttp.GetHTTPCode(e, 0))), U(uint64(extgrpc.GetGrpcCode(e))))
		})
	case "os":
		v = onErr(func() Sx {
			return L(B(oserror.IsPermission(e)), B(oserror.IsExist(e)), B(oserror.IsNotExist(e)), B(oserror.IsTimeout(e)))
		})
	case "safedetails":
		v = onErr(func() Sx {
			out := L()
			for _, p := range errors.GetAllSafeDetails(e) {
				out.List = append(out.List, L(A(p.OriginalTypeName), A(p.ErrorTypeMark.FamilyName),
					A(p.ErrorTypeMark.Extension), Strs(p.SafeDetails)))
			}
			return out
		})
	case "enc":
		v = onErr(func() Sx { enc := errors.EncodeError(context.Background(), e); return encSx(&enc) })
	case "fmt-v":
		v = onErr(func() Sx { return A(fmt.Sprintf("%v", errors.Formattable(e))) })
	case "fmt+v":
		v = onErr(func() Sx { return A(fmt.Sprintf("%+v", errors.Formattable(e))) })
	case "red-v":
		v = onErr(func() Sx { return A(string(redact.Sprint(e))) })
	case "red+v":
		v = onErr(func() Sx { return A(string(redact.Sprintf("%+v", e))) })
	case "stacks":
		v = onErr(func() Sx { return stacksSx(e) })
	case "source":
		v = onErr(func() Sx { return sourceSx(e) })
	case "report":
		v = reportSx(e)
	case "std-is":
		v = B(goerr.Is(e, refs[o.Refs[0]]))
	case "std-as":
		if e == nil {
			v = Sym("notfound")
		} else {
			v = stdAs(e, o.Target[1])
		}
	case "std-unwrap":
		v = onErr(func() Sx {
			u := goerr.Unwrap(e)
			if u == nil {
				return Sym("none")
			}
			return L(A(goFullName(u)), A(u.Error()))
		})
	case "pkg-cause":
		v = onErr(func() Sx { r := pkgerr.Cause(e); return L(A(goFullName(r)), A(r.Error())) })
	case "is":
		v = B(errors.Is(e, refs[o.Refs[0]]))
	case "isany":
		rs := make([]error, len(o.Refs))
		for i, k := range o.Refs {
			rs[i] = refs[k]
		}
		v = B(errors.IsAny(e, rs...))
	case "hastype":
		v = B(errors.HasType(e, refs[o.Refs[0]]))
	case "as":
		if e == nil {
			v = Sym("notfound")
		} else {
			v = asTarget(e, o.Target[0], o.Target[1])
		}
	case "hop":
		e1 := transfer(e, o.Procs)
		out := L()
		for _, s := range o.Sub {
			out.List = append(out.List, observe(s, e1, refs))
		}
		v = out
	default:
		panic("observe: unknown observation " + o.Name)
	}
	return L(A(o.Name), v)
}
