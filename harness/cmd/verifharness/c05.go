package main

// C05: DecodeError on structurally complete but otherwise arbitrary
// EncodedErrors: the registry-wide sweep of payload / detail / message-type
// faults at every position of a carrier chain, plus mutated wire bytes.

import (
	"context"
	"fmt"
	"reflect"
	"strings"

	"github.com/cockroachdb/errors"
	"github.com/cockroachdb/errors/errbase"
	"github.com/cockroachdb/errors/errorspb"
	"github.com/cockroachdb/errors/extgrpc"
	"github.com/cockroachdb/errors/exthttp"
	"github.com/cockroachdb/errors/report"
	"github.com/cockroachdb/redact"
	gogorpc "github.com/gogo/googleapis/google/rpc"
	"github.com/gogo/protobuf/proto"
	"github.com/gogo/protobuf/types"
)

type payloadFault struct {
	name string
	any  *types.Any
	// representable in the model's payload type
	model bool
}

func mustAny(m proto.Message) *types.Any {
	a, err := types.MarshalAny(m)
	if err != nil {
		panic(err)
	}
	return a
}

func payloadFaults(g *Gen) []payloadFault {
	leaf := errorspb.EncodedError{Error: &errorspb.EncodedError_Leaf{Leaf: &errorspb.EncodedErrorLeaf{
		Message: "hidden", Details: errorspb.EncodedErrorDetails{OriginalTypeName: "errors/*errors.errorString",
			ErrorTypeMark: errorspb.ErrorTypeMark{FamilyName: "errors/*errors.errorString"}}}}}
	out := []payloadFault{
		{"absent", nil, true},
		{"string", mustAny(&errorspb.StringPayload{Msg: g.rawStr()}), true},
		{"string-empty", mustAny(&errorspb.StringPayload{}), true},
		{"strings-0", mustAny(&errorspb.StringsPayload{}), true},
		{"strings-1", mustAny(&errorspb.StringsPayload{Details: []string{"op"}}), true},
		{"strings-2", mustAny(&errorspb.StringsPayload{Details: []string{"op", "/p"}}), true},
		{"strings-3", mustAny(&errorspb.StringsPayload{Details: []string{"op", "/a", "/b"}}), true},
		{"tags-0", mustAny(&errorspb.TagsPayload{}), true},
		{"tags-2", mustAny(&errorspb.TagsPayload{Tags: []errorspb.TagPayload{{Tag: "k", Value: "v"}, {Tag: "k", Value: "w"}}}), true},
		{"mark-empty", mustAny(&errorspb.MarkPayload{}), true},
		{"mark", mustAny(&errorspb.MarkPayload{Msg: "m", Types: []errorspb.ErrorTypeMark{{FamilyName: "f", Extension: "x"}}}), true},
		{"mark-msg-only", mustAny(&errorspb.MarkPayload{Msg: "m"}), true},
		{"mark-types-only", mustAny(&errorspb.MarkPayload{Types: []errorspb.ErrorTypeMark{{FamilyName: "f"}}}), true},
		{"mark-empty-type", mustAny(&errorspb.MarkPayload{Msg: "m", Types: []errorspb.ErrorTypeMark{{}}}), true},
		{"errno-empty", mustAny(&errorspb.ErrnoPayload{}), true},
		{"errno-here", mustAny(&errorspb.ErrnoPayload{OrigErrno: 13, Arch: "linux:amd64", IsPermission: true}), true},
		{"errno-elsewhere", mustAny(&errorspb.ErrnoPayload{OrigErrno: 13, Arch: "plan9:mips", IsPermission: true, IsTimeout: true}), true},
		{"enc-leaf", mustAny(&leaf), true},
		{"enc-empty", mustAny(&errorspb.EncodedError{}), false},
		{"http", mustAny(&exthttp.EncodedHTTPCode{Code: 404}), true},
		{"http-empty", mustAny(&exthttp.EncodedHTTPCode{}), true},
		{"grpc", mustAny(&extgrpc.EncodedGrpcCode{Code: 5}), true},
		{"status", mustAny(&gogorpc.Status{Code: 5, Message: "nf"}), true},
		{"status-empty", mustAny(&gogorpc.Status{}), true},
		{"testerror", mustAny(&errorspb.TestError{}), true},
		{"unregistered-url", &types.Any{TypeUrl: "type.googleapis.com/no.such.Message", Value: []byte("\x0a\x03abc")}, true},
		{"garbage-of-known-type", &types.Any{TypeUrl: "type.googleapis.com/cockroach.errorspb.StringPayload", Value: []byte("\xff\xff\xff")}, true},
		{"empty-url", &types.Any{}, true},
	}
	return out
}

var detailFaults = [][]string{nil, {"one"}, {"one", "two"}, {"one", "two", "three"}, {"\nmain.f\n\t/a/b.go:12", "x"}, {"main.f"},
	// present but empty / blank first strings (a printed stack, a link, a domain that is the empty string)
	{""}, {" \n\t\n"}, {"", ""}, {"\n"}}

// faultCase builds one message with the given key at the given position
func faultCase(key string, kind string, pf payloadFault, rep []string, mt int, pos int, msg string) *errorspb.EncodedError {
	det := errorspb.EncodedErrorDetails{OriginalTypeName: key, ErrorTypeMark: errorspb.ErrorTypeMark{FamilyName: key, Extension: ""},
		ReportablePayload: rep, FullDetails: pf.any}
	simpleLeaf := func(m string) *errorspb.EncodedError {
		return &errorspb.EncodedError{Error: &errorspb.EncodedError_Leaf{Leaf: &errorspb.EncodedErrorLeaf{Message: m,
			Details: errorspb.EncodedErrorDetails{OriginalTypeName: "errors/*errors.errorString",
				ErrorTypeMark: errorspb.ErrorTypeMark{FamilyName: "errors/*errors.errorString"}}}}}
	}
	var node *errorspb.EncodedError
	switch kind {
	case "leaf":
		node = &errorspb.EncodedError{Error: &errorspb.EncodedError_Leaf{Leaf: &errorspb.EncodedErrorLeaf{Message: msg, Details: det}}}
	case "multi":
		node = &errorspb.EncodedError{Error: &errorspb.EncodedError_Leaf{Leaf: &errorspb.EncodedErrorLeaf{Message: msg, Details: det,
			MultierrorCauses: []*errorspb.EncodedError{simpleLeaf("c1"), simpleLeaf("c2")}}}}
	case "multi0":
		node = &errorspb.EncodedError{Error: &errorspb.EncodedError_Leaf{Leaf: &errorspb.EncodedErrorLeaf{Message: msg, Details: det}}}
	case "leaf-with-causes":
		node = &errorspb.EncodedError{Error: &errorspb.EncodedError_Leaf{Leaf: &errorspb.EncodedErrorLeaf{Message: msg, Details: det,
			MultierrorCauses: []*errorspb.EncodedError{simpleLeaf("c1")}}}}
	default: // wrapper
		node = &errorspb.EncodedError{Error: &errorspb.EncodedError_Wrapper{Wrapper: &errorspb.EncodedWrapper{
			Cause: *simpleLeaf("inner"), Message: msg, Details: det, MessageType: errorspb.MessageType(mt)}}}
	}
	wrapIn := func(inner *errorspb.EncodedError, fam string, pl *types.Any, rep []string) *errorspb.EncodedError {
		return &errorspb.EncodedError{Error: &errorspb.EncodedError_Wrapper{Wrapper: &errorspb.EncodedWrapper{
			Cause: *inner, Message: "", Details: errorspb.EncodedErrorDetails{OriginalTypeName: fam,
				ErrorTypeMark: errorspb.ErrorTypeMark{FamilyName: fam}, ReportablePayload: rep, FullDetails: pl}}}}
	}
	switch pos {
	case 0:
		return node
	case 1: // below a hint wrapper and a prefix wrapper
		return wrapIn(wrapIn(node, "github.com/cockroachdb/errors/hintdetail/*hintdetail.withHint", mustAny(&errorspb.StringPayload{Msg: "hint"}), nil),
			"github.com/cockroachdb/errors/errutil/*errutil.withPrefix", mustAny(&errorspb.StringPayload{Msg: "outer"}), []string{"outer"})
	case 2: // as a branch of a join
		return &errorspb.EncodedError{Error: &errorspb.EncodedError_Leaf{Leaf: &errorspb.EncodedErrorLeaf{Message: "joined",
			Details: errorspb.EncodedErrorDetails{OriginalTypeName: "github.com/cockroachdb/errors/join/*join.joinError",
				ErrorTypeMark: errorspb.ErrorTypeMark{FamilyName: "github.com/cockroachdb/errors/join/*join.joinError"}},
			MultierrorCauses: []*errorspb.EncodedError{simpleLeaf("first"), node}}}}
	default: // hidden behind a barrier
		return &errorspb.EncodedError{Error: &errorspb.EncodedError_Leaf{Leaf: &errorspb.EncodedErrorLeaf{Message: "barrier msg",
			Details: errorspb.EncodedErrorDetails{OriginalTypeName: "github.com/cockroachdb/errors/barriers/*barriers.barrierErr",
				ErrorTypeMark:     errorspb.ErrorTypeMark{FamilyName: "github.com/cockroachdb/errors/barriers/*barriers.barrierErr"},
				ReportablePayload: []string{"masked"}, FullDetails: mustAny(node)}}}}
	}
}

// every observer must work on whatever DecodeError returned
func observersTotal(e error) (what string, detail string) {
	type step struct {
		name string
		f    func()
	}
	var sink interface{}
	steps := []step{
		{"Error()", func() { sink = e.Error() }},
		{"fmt %v", func() { sink = fmt.Sprintf("%v", e) }},
		{"fmt %+v", func() { sink = fmt.Sprintf("%+v", e) }},
		{"fmt %s", func() { sink = fmt.Sprintf("%s", e) }},
		{"fmt %q", func() { sink = fmt.Sprintf("%q", e) }},
		{"fmt %x", func() { sink = fmt.Sprintf("%x", e) }},
		{"fmt %#v", func() { sink = fmt.Sprintf("%#v", e) }},
		{"fmt %d", func() { sink = fmt.Sprintf("%d", e) }},
		{"Formattable %+v", func() { sink = fmt.Sprintf("%+v", errors.Formattable(e)) }},
		{"redact %v", func() { sink = redact.Sprint(e) }},
		{"redact %+v", func() { sink = redact.Sprintf("%+v", e).Redact() }},
		{"GetAllSafeDetails", func() { sink = errors.GetAllSafeDetails(e) }},
		{"accessors", func() { sink = accVec(e, true) }},
		{"Is(e,e)", func() {
			if !errors.Is(e, e) {
				panic("Is(e, e) is false")
			}
		}},
		{"Is(e, sentinels)", func() {
			for _, s := range sentinels {
				errors.Is(e, s)
				errors.Is(s, e)
			}
		}},
		{"As", func() {
			for _, t := range asTypeTargets {
				asTarget(e, "type", t)
			}
			for _, t := range asIfaceTargets {
				asTarget(e, "iface", t)
			}
		}},
		{"UnwrapAll/Cause", func() { sink = errors.UnwrapAll(e); sink = errors.Cause(e) }},
		{"BuildSentryReport", func() { ev, ex := report.BuildSentryReport(e); sink = ev; sink = ex }},
		{"EncodeError+Marshal", func() { sink = marshalEnc(e) }},
		{"re-decode", func() {
			e2 := transferOnce(e, nil)
			if e2 == nil {
				panic("re-decoding gives nil")
			}
			sink = e2.Error()
			sink = fmt.Sprintf("%+v", e2)
		}},
		{"Mark/Wrap on top", func() {
			w := errors.Wrap(errors.Mark(e, e), "w")
			sink = fmt.Sprintf("%+v", w)
			sink = marshalEnc(w)
		}},
	}
	_ = sink
	for _, s := range steps {
		var p interface{}
		func() {
			defer func() { p = recover() }()
			s.f()
		}()
		if p != nil {
			return s.name + " panics on the decoded error", fmt.Sprint(p)
		}
	}
	// fmt and redact recover panics of Format methods and print them: that is a failure too
	for _, v := range []string{"%v", "%+v"} {
		if s := fmt.Sprintf(v, e); strings.Contains(s, "PANIC=") {
			return "formatting with " + v + " panicked inside a Format method (fmt caught it)", excerpt(s, "PANIC=")
		}
		if s := string(redact.Sprintf(v, e)); strings.Contains(s, "PANIC=") {
			return "redactable formatting with " + v + " panicked inside a Format method (redact caught it)", excerpt(s, "PANIC=")
		}
	}
	return "", ""
}

func decodeTotal(enc *errorspb.EncodedError) (e error, what, detail string) {
	var p interface{}
	func() {
		defer func() { p = recover() }()
		e = errors.DecodeError(context.Background(), *enc)
	}()
	if p != nil {
		return nil, "DecodeError panics", fmt.Sprint(p)
	}
	if e == nil {
		return nil, "DecodeError returns nil for a structurally complete message", ""
	}
	what, detail = observersTotal(e)
	return e, what, detail
}

func encHex(enc *errorspb.EncodedError) string {
	b, _ := proto.Marshal(enc)
	return fmt.Sprintf("%x", b)
}

// c05Cases: the sweep.  Cases representable in the model become correspondence
// cases ("deccase"); every case is checked by the implementation-side oracle.
func c05Cases(g *Gen, n int, thorough bool) (cases []*Case, fails []OracleFail, evals int, sweep map[string]int) {
	sweep = map[string]int{}
	_, _, ld, wd, md := errbase.VerifRegistryKeys()
	type keyKind struct{ key, kind string }
	var keys []keyKind
	for _, k := range ld {
		keys = append(keys, keyKind{k, "leaf"}, keyKind{k, "leaf-with-causes"})
	}
	for _, k := range wd {
		keys = append(keys, keyKind{k, "wrapper"})
	}
	for _, k := range md {
		keys = append(keys, keyKind{k, "multi"}, keyKind{k, "multi0"})
	}
	// types that travel without a decoder (opaque at every receiver) and an unknown type
	for _, k := range []string{"github.com/cockroachdb/errors/withstack/*withstack.withStack", "github.com/pkg/errors/*errors.fundamental",
		"github.com/pkg/errors/*errors.withStack", "some/unknown/*pkg.Type"} {
		keys = append(keys, keyKind{k, "leaf"}, keyKind{k, "wrapper"}, keyKind{k, "multi"})
	}
	pfs := payloadFaults(g)
	obs := names("shape", "text", "enc", "fmt+v", "red+v", "safedetails", "hints", "details", "links", "keys", "domain", "tags", "flags", "codes", "os", "stacks", "source", "report")
	count := 0
	for _, kk := range keys {
		for pi, pf := range pfs {
			for di, rep := range detailFaults {
				for _, mt := range []int{0, 1, 7} {
					if kk.kind != "wrapper" && mt != 0 {
						continue
					}
					for pos := 0; pos < 4; pos++ {
						// the full product in the thorough tier; a seed-dependent third of it otherwise
						if !thorough && g.r.intn(3) != 0 && !(pos == 0 && mt == 0 && di <= 1) {
							continue
						}
						count++
						enc := faultCase(kk.key, kk.kind, pf, rep, mt, pos, "the message")
						sweep["kind:"+kk.kind]++
						sweep["payload:"+pf.name]++
						sweep[fmt.Sprintf("details:%d", di)]++
						sweep[fmt.Sprintf("mt:%d", mt)]++
						sweep[fmt.Sprintf("pos:%d", pos)]++
						id := fmt.Sprintf("C05-%s-%s-%s-d%d-mt%d-p%d", shortKey(kk.key), kk.kind, pf.name, di, mt, pos)
						e, what, detail := decodeTotal(enc)
						evals++
						if what != "" {
							fails = append(fails, OracleFail{Prop: "C05", CaseID: id, Oracle: "C05", What: what, Detail: detail,
								Recipe: encSx(enc).String(), ReplayArgs: map[string]interface{}{"enc_hex": encHex(enc), "prop": "C05"}})
							continue
						}
						_ = pi
						// a message the model can represent: compare what was decoded
						if pf.model && !(pos == 3 && !pf.model) && mt != 7 {
							cases = append(cases, &Case{ID: id, Prop: "C05", Enc: enc, Decoded: e, Obs: obs})
						}
					}
				}
			}
		}
	}
	// wire-byte fuzz: mutate valid encodings, keep those that unmarshal into a complete message
	nf := n
	for i := 0; i < nf; i++ {
		r := g.Tree(1 + g.r.intn(4))
		var e error
		func() {
			defer func() { recover() }()
			e = r.Build(&BuildCtx{})
		}()
		if e == nil {
			continue
		}
		b := marshalEnc(e)
		for k := 0; k < 4; k++ {
			m := append([]byte{}, b...)
			for j := 0; j < 1+g.r.intn(3); j++ {
				switch g.r.intn(3) {
				case 0:
					m[g.r.intn(len(m))] ^= byte(1 << uint(g.r.intn(8)))
				case 1:
					p := g.r.intn(len(m))
					m = append(m[:p], m[p+1:]...)
				default:
					p := g.r.intn(len(m))
					m = append(m[:p], append([]byte{byte(g.r.intn(256))}, m[p:]...)...)
				}
				if len(m) == 0 {
					break
				}
			}
			var dec errorspb.EncodedError
			if err := proto.Unmarshal(m, &dec); err != nil || !complete(&dec) {
				sweep["fuzz:rejected"]++
				continue
			}
			sweep["fuzz:accepted"]++
			evals++
			if _, what, detail := decodeTotal(&dec); what != "" {
				fails = append(fails, OracleFail{Prop: "C05", CaseID: fmt.Sprintf("C05-fuzz-%d-%d", i, k), Oracle: "C05", What: what + " (mutated wire bytes)", Detail: detail,
					Recipe: fmt.Sprintf("%x", m), ReplayArgs: map[string]interface{}{"enc_hex": fmt.Sprintf("%x", m), "prop": "C05"}})
			}
		}
	}
	sweep["sweep-cases"] = count
	return
}

func shortKey(k string) string {
	if i := strings.LastIndexByte(k, '/'); i >= 0 {
		k = k[i+1:]
	}
	return strings.Map(func(r rune) rune {
		if r == '*' {
			return -1
		}
		return r
	}, k)
}

// every nested error has a leaf or a wrapper set
func complete(e *errorspb.EncodedError) bool {
	if w := e.GetWrapper(); w != nil {
		return complete(&w.Cause)
	}
	if l := e.GetLeaf(); l != nil {
		for _, c := range l.MultierrorCauses {
			if c == nil || !complete(c) {
				return false
			}
		}
		return true
	}
	return false
}

var _ = reflect.TypeOf
