package main

import (
	"fmt"
	"sort"
	"strings"

	"github.com/cockroachdb/errors/errbase"
)

func names(ns ...string) []Obs {
	var out []Obs
	for _, n := range ns {
		out = append(out, Obs{Name: n})
	}
	return out
}

// every type key that has a decoder in the current process
func decoderKeys() []string {
	_, _, ld, wd, md := errbase.VerifRegistryKeys()
	m := map[string]bool{}
	for _, l := range [][]string{ld, wd, md} {
		for _, k := range l {
			m[k] = true
		}
	}
	out := make([]string, 0, len(m))
	for k := range m {
		out = append(out, k)
	}
	sort.Strings(out)
	return out
}

// a process description: the decoder keys it does not know
func (g *Gen) proc(kind int) []string {
	keys := decoderKeys()
	switch kind {
	case 0: // knows everything
		return []string{}
	case 1: // knows nothing
		return keys
	default:
		out := []string{}
		p := 20 + g.r.intn(60)
		for _, k := range keys {
			if g.r.chance(p) {
				out = append(out, k)
			}
		}
		return out
	}
}

func (g *Gen) hopSeq(n int, lastKnowing bool) [][]string {
	var out [][]string
	for i := 0; i < n; i++ {
		out = append(out, g.proc(g.r.intn(3)))
	}
	if lastKnowing {
		out = append(out, []string{})
	}
	return out
}

func sentRefs() []*Ref {
	var out []*Ref
	for i := 0; i < 10; i++ {
		out = append(out, &Ref{Kind: "sent", N: int64(i)})
	}
	return out
}

// paths to (at most max) nodes of the visible tree of the error a recipe builds
// are not known statically; the harness uses recipe-level sub-terms instead:
// every sub-recipe reachable through the first error argument / join members.
func subRecipes(r *R, out *[]*R, max int) {
	if len(*out) >= max {
		return
	}
	*out = append(*out, r)
	for _, k := range r.Kids {
		subRecipes(k, out, max)
	}
	for _, p := range r.Fmt {
		if p.R != nil {
			subRecipes(p.R, out, max)
		}
	}
}

// perturbed copy: one message / one type / one domain / one extra or missing layer changed
func (g *Gen) perturb(r *R) *R {
	c := cloneR(r)
	var nodes []*R
	subRecipes(c, &nodes, 64)
	n := nodes[g.r.intn(len(nodes))]
	switch g.r.intn(5) {
	case 0: // message
		if len(n.S) > 0 {
			n.S[len(n.S)-1] = n.S[len(n.S)-1] + "~"
			return c
		}
	case 1: // type
		switch n.Op {
		case "stdnew":
			n.Op = "pkgnew"
			return c
		case "new":
			n.Op = "stdnew"
			return c
		case "hint":
			n.Op = "detail"
			return c
		case "wrap":
			n.Op = "withmessage"
			return c
		}
	case 2: // domain
		if n.Op == "domain" {
			n.S[0] = n.S[0] + "x"
			return c
		}
	case 3: // extra layer
		return &R{Op: "hint", Kids: []*R{c}, S: []string{"extra"}}
	default: // missing layer
		if len(c.Kids) == 1 && len(c.Fmt) == 0 {
			return c.Kids[0]
		}
	}
	return &R{Op: "detail", Kids: []*R{c}, S: []string{"perturbed"}}
}

func cloneR(r *R) *R {
	if r == nil {
		return nil
	}
	c := &R{Op: r.Op, S: append([]string{}, r.S...), I: append([]int64{}, r.I...), Tags: append([]TagKV{}, r.Tags...),
		Strs: append([]string{}, r.Strs...)}
	for _, k := range r.Kids {
		c.Kids = append(c.Kids, cloneR(k))
	}
	for _, p := range r.Fmt {
		q := p
		q.R = cloneR(p.R)
		c.Fmt = append(c.Fmt, q)
	}
	for _, p := range r.Procs {
		c.Procs = append(c.Procs, append([]string{}, p...))
	}
	return c
}

// references used by the identity properties: sentinels, nil, sub-recipes of e
// rebuilt independently (equal), perturbed copies (near-equal), paths into e
func (g *Gen) identityRefs(r *R, nsub int) []*Ref {
	refs := sentRefs()
	refs = append(refs, &Ref{Kind: "nil"})
	refs = append(refs, &Ref{Kind: "path", Path: []Sx{}})
	refs = append(refs, &Ref{Kind: "path", Path: []Sx{Sym("c")}})
	refs = append(refs, &Ref{Kind: "path", Path: []Sx{Sym("c"), Sym("c")}})
	refs = append(refs, &Ref{Kind: "path", Path: []Sx{L(Sym("m"), N(0))}})
	refs = append(refs, &Ref{Kind: "path", Path: []Sx{Sym("c"), L(Sym("m"), N(1))}})
	var subs []*R
	subRecipes(r, &subs, 40)
	// every user-typed leaf of the recipe, rebuilt: value types, non-comparable
	// value types and types with an Is method must meet a reference of their own type
	nu := 0
	for _, s := range subs {
		if s.Op == "uleaf" && nu < 3 {
			refs = append(refs, &Ref{Kind: "recipe", R: cloneR(s)})
			nu++
		}
	}
	for i := 0; i < nsub && len(subs) > 0; i++ {
		s := subs[g.r.intn(len(subs))]
		refs = append(refs, &Ref{Kind: "recipe", R: cloneR(s)})
		refs = append(refs, &Ref{Kind: "recipe", R: g.perturb(s)})
	}
	return refs
}

// typeTwin: the same text under a different type chain.
func typeTwin(r *R) *R {
	c := cloneR(r)
	switch c.Op {
	case "new":
		c.Op = "stdnew"
		return c
	case "stdnew":
		c.Op = "pkgnew"
		return c
	case "wrap":
		c.Op = "withmessage"
		return c
	case "hint":
		c.Op = "detail"
		return c
	}
	return &R{Op: "hint", Kids: []*R{c}, S: []string{"twin"}}
}

// twinRefs appends, for up to k recipe references, a type twin, and returns the IsAny observations
// (both orders) over each pair.
func twinRefs(refs []*Ref, k int) ([]*Ref, []Obs) {
	var obs []Obs
	n := len(refs)
	for i := 0; i < n && k > 0; i++ {
		if refs[i].Kind != "recipe" || refs[i].R == nil || refs[i].R.Op == "nil" {
			continue
		}
		refs = append(refs, &Ref{Kind: "recipe", R: typeTwin(refs[i].R)})
		j := len(refs) - 1
		obs = append(obs, Obs{Name: "isany", Refs: []int{i, j}}, Obs{Name: "isany", Refs: []int{j, i}})
		k--
	}
	return refs, obs
}

func isObs(n int) []Obs {
	var out []Obs
	for i := 0; i < n; i++ {
		out = append(out, Obs{Name: "is", Refs: []int{i}})
	}
	return out
}

func asObs() []Obs {
	var out []Obs
	for _, t := range asTypeTargets {
		out = append(out, Obs{Name: "as", Target: [2]string{"type", t}})
	}
	for _, t := range asIfaceTargets {
		out = append(out, Obs{Name: "as", Target: [2]string{"iface", t}})
	}
	return out
}

// rich hidden payload for C07: carries everything an accessor could pick up
func (g *Gen) richHidden() *R {
	r := &R{Op: "sentinel", I: []int64{int64(g.r.intn(10))}}
	if g.r.chance(40) {
		r = &R{Op: "errno", I: []int64{13}}
	}
	if g.r.chance(30) {
		r = &R{Op: "uleaf", S: []string{"hinter", "hidden leaf"}, I: []int64{1}, Strs: []string{"hidden hint L", "hidden detail L"}}
	}
	if g.r.chance(30) {
		r = &R{Op: "unimpl", S: []string{"http://hidden/issue", "hidden-unimpl", "hidden unimplemented"}}
	}
	wr := []*R{
		{Op: "hint", S: []string{"hidden hint"}},
		{Op: "detail", S: []string{"hidden detail"}},
		{Op: "domain", S: []string{"error domain: \"hidden\""}},
		{Op: "http", I: []int64{418}},
		{Op: "grpc", I: []int64{7}},
		{Op: "telemetry", Strs: []string{"hidden.key"}},
		{Op: "assert"},
		{Op: "issuelink", S: []string{"http://hidden/link", "hidden link"}},
		{Op: "tags", Tags: []TagKV{{K: "hiddentag", Kind: "str", V: "hv"}}},
		{Op: "patherror", S: []string{"open", "/hidden/path"}},
		{Op: "uwrap", S: []string{"safedet", "hidden uw"}, Strs: []string{"hidden safe"}},
	}
	for _, w := range wr {
		if g.r.chance(55) {
			c := cloneR(w)
			c.Kids = []*R{r}
			r = c
		}
	}
	return r
}

// swapHidden returns a copy of r in which every hidden payload (behind a
// barrier, in a secondary error) is replaced by an unrelated rich one, keeping
// the barrier's own message.  ok=false when nothing was swapped.
func (g *Gen) swapHidden(r *R) (out *R, swapped bool) {
	c := &R{Op: r.Op, S: append([]string{}, r.S...), I: append([]int64{}, r.I...), Tags: append([]TagKV{}, r.Tags...),
		Strs: append([]string{}, r.Strs...), Fmt: r.Fmt, Procs: r.Procs}
	kid := func(i int) *R {
		k, s := g.swapHidden(r.Kids[i])
		swapped = swapped || s
		return k
	}
	keepText := func(x *R) (string, bool) {
		if hasPlusV(x) {
			return "", false
		}
		t, isNil := specText(x)
		return t, !isNil
	}
	switch r.Op {
	case "handled", "handleassert", "handledindomain":
		if t, ok := keepText(r.Kids[0]); ok {
			b := &R{Op: "handledmsg", Kids: []*R{g.richHidden()}, S: []string{t}}
			swapped = true
			switch r.Op {
			case "handled":
				return b, true
			case "handledindomain":
				return &R{Op: "domain", Kids: []*R{b}, S: []string{r.S[0]}}, true
			default:
				return &R{Op: "assert", Kids: []*R{{Op: "withstack", Kids: []*R{b}}}}, true
			}
		}
		c.Kids = []*R{r.Kids[0]}
		return c, false
	case "handledmsg", "handledindomainmsg", "handledmsgf":
		if _, isNil := specText(r.Kids[0]); !isNil {
			c.Kids = []*R{g.richHidden()}
			return c, true
		}
		c.Kids = []*R{r.Kids[0]}
		return c, false
	case "newassertwrapped":
		if t, ok := keepText(r.Kids[0]); ok {
			b := &R{Op: "handledmsg", Kids: []*R{g.richHidden()}, S: []string{t}}
			return &R{Op: "assert", Kids: []*R{{Op: "wrapf", Kids: []*R{b}, Fmt: r.Fmt}}}, true
		}
		c.Kids = []*R{r.Kids[0]}
		return c, false
	case "secondary":
		_, n0 := specText(r.Kids[0])
		_, n1 := specText(r.Kids[1])
		if !n0 && !n1 {
			c.Kids = []*R{kid(0), g.richHidden()}
			return c, true
		}
		c.Kids = []*R{kid(0), r.Kids[1]}
		return c, swapped
	case "combine":
		_, n0 := specText(r.Kids[0])
		_, n1 := specText(r.Kids[1])
		if !n0 && !n1 {
			c.Kids = []*R{kid(0), g.richHidden()}
			return c, true
		}
		c.Kids = []*R{kid(0), kid(1)}
		return c, swapped
	case "mark":
		c.Kids = []*R{kid(0), r.Kids[1]}
		return c, swapped
	}
	for i := range r.Kids {
		c.Kids = append(c.Kids, kid(i))
	}
	return c, swapped
}

func (g *Gen) treeWithHidden(depth int) *R {
	for {
		r := g.Tree(depth)
		ops := map[string]int{}
		r.CountOps(ops)
		for _, k := range []string{"handled", "handledmsg", "handledmsgf", "handledindomain", "handledindomainmsg", "handleassert", "newassertwrapped", "secondary", "combine", "mark"} {
			if ops["op:"+k] > 0 {
				return r
			}
		}
		// put one on top
		ks := []string{"handled", "handledmsg", "secondary", "handledindomain", "handleassert", "combine"}
		k := g.r.pick(ks)
		switch k {
		case "handledmsg":
			return g.Wrapper(&R{Op: k, Kids: []*R{r}, S: []string{g.sU()}}, 1)
		case "secondary", "combine":
			return g.Wrapper(&R{Op: k, Kids: []*R{g.Tree(2), r}}, 1)
		case "handledindomain":
			return g.Wrapper(&R{Op: k, Kids: []*R{r}, S: []string{"error domain: \"d\""}}, 1)
		default:
			return g.Wrapper(&R{Op: k, Kids: []*R{r}}, 1)
		}
	}
}

func propCases(prop string, g *Gen, n int) []*Case {
	var cases []*Case
	add := func(c *Case) *Case {
		c.ID = fmt.Sprintf("%s-%d", prop, len(cases))
		c.Prop = prop
		c.UTok, c.STok = g.UTokens, g.STokens
		c.Hostile = g.Hostile
		g.ResetTokens()
		cases = append(cases, c)
		return c
	}
	g.MaxSize = 16
	knowing1 := [][]string{{}}
	knowing2 := [][]string{{}, {}}
	switch prop {
	case "SMOKE", "SMOKEH":
		g.Hostile = prop == "SMOKEH"
		obs := names("nilness", "text", "shape", "root", "hints", "details", "flathints", "flatdetails", "links",
			"keys", "domain", "tags", "flags", "codes", "os", "safedetails", "enc", "fmt-v", "fmt+v", "red-v", "red+v",
			"stacks", "source", "report")
		obs = append(obs, Obs{Name: "hop", Procs: knowing1, Sub: names("text", "shape", "enc", "fmt+v", "red+v", "safedetails", "stacks", "source", "report")})
		for i := 0; i < n; i++ {
			add(&Case{R: g.Tree(1 + g.r.intn(5)), Obs: obs})
		}
	case "C01":
		obs := names("shape", "enc")
		obs = append(obs, Obs{Name: "hop", Procs: knowing1, Sub: names("shape", "enc")})
		obs = append(obs, Obs{Name: "hop", Procs: knowing2, Sub: names("shape", "enc")})
		for _, r := range enumPairs(g) {
			add(&Case{R: r, Obs: obs, Oracles: []string{"C01"}})
		}
		// a message that consists of the separator alone: fmt.Errorf(": %w", err)
		for _, r := range colonOnlyShapes() {
			add(&Case{R: r, Obs: obs, Oracles: []string{"C01"}})
		}
		for _, r := range deepChains(g) {
			add(&Case{R: r, Obs: obs, Oracles: []string{"C01"}})
		}
		// status errors with application-defined codes (outside the standard range), bare and below wrappers / in joins
		for _, op := range []string{"grpcstatus", "gogostatus"} {
			for _, code := range []int64{17, 42, 1000} {
				st := &R{Op: op, I: []int64{code}, S: []string{"quota exceeded"}}
				add(&Case{R: st, Obs: obs, Oracles: []string{"C01"}})
				add(&Case{R: &R{Op: "wrap", Kids: []*R{cloneR(st)}, S: []string{"ctx"}}, Obs: obs, Oracles: []string{"C01"}})
				add(&Case{R: &R{Op: "join", Kids: []*R{cloneR(st), {Op: "new", S: []string{"other"}}}}, Obs: obs, Oracles: []string{"C01"}})
			}
		}
		for i := 0; i < n; i++ {
			add(&Case{R: g.Tree(1 + g.r.intn(6)), Obs: obs, Oracles: []string{"C01"}})
		}
	case "C02":
		for i := 0; i < n; i++ {
			r := g.Tree(1 + g.r.intn(5))
			knowingOnly := false
			if i%25 == 7 {
				// a wrapper that silences its cause (its whole message is the empty string) below
				// annotation layers, between processes that know the library's types: still the same error
				// (an empty Error() is not regular text for the text relations; here only identity is asked)
				r = &R{Op: "uwrap", S: []string{"full", ""}, Kids: []*R{g.Leaf(0)}, Strs: []string{}}
				for k := g.r.intn(3); k > 0; k-- {
					r = &R{Op: []string{"hint", "detail", "withstack", "domain"}[g.r.intn(4)], Kids: []*R{r}, S: []string{"error domain: \"d\""}}
				}
				knowingOnly = true
			}
			if i%25 == 13 {
				// OS errors with an empty name (what os.Open("") returns) below a stack layer and a wrapper that
				// becomes an opaque stand-in: its text is then printed by the engine, which must agree with Error()
				var os *R
				if g.r.chance(50) {
					os = &R{Op: "patherror", Kids: []*R{g.Leaf(0)}, S: []string{"open", ""}}
				} else {
					os = &R{Op: "linkerror", Kids: []*R{g.Leaf(0)}, S: []string{"rename", "", "/b/" + g.pathWord()}}
				}
				r = &R{Op: "uwrap", S: []string{[]string{"unwrap", "cause", "both"}[g.r.intn(3)], "loading config"}, Kids: []*R{{Op: []string{"withstack", "pkgstack"}[g.r.intn(2)], Kids: []*R{os}}}, Strs: []string{}}
				if g.r.chance(50) {
					r = &R{Op: "withmessage", Kids: []*R{r}, S: []string{"outer"}}
				}
				knowingOnly = true
			}
			var extraRefs []*Ref
			if i%25 == 19 {
				// an errno that came from the same OS on another CPU family (its numbering differs): it stays the
				// foreign value, it is not the local errno of the same number
				n := []int64{2, 4, 22, 110}[g.r.intn(4)]
				r = &R{Op: "foreignerrno", I: []int64{n}}
				if g.r.chance(60) {
					r = &R{Op: []string{"patherror", "syscallerror"}[g.r.intn(2)], Kids: []*R{r}, S: []string{"open", "/a/" + g.pathWord()}}
				}
				for k := g.r.intn(3); k > 0; k-- {
					r = g.Wrapper(r, 1)
				}
				if _, isNil := specText(r); isNil {
					r = &R{Op: "foreignerrno", I: []int64{n}}
				}
				extraRefs = []*Ref{{Kind: "recipe", R: &R{Op: "errno", I: []int64{n}}}, {Kind: "recipe", R: &R{Op: "foreignerrno", I: []int64{n}}}}
			}
			if i%25 == 21 {
				// a mark taken from a reference without text (a text-less sentinel): the mark's message is the
				// empty string, not the message of the error it is attached to
				ref := []*R{{Op: "stdnew", S: []string{""}}, {Op: "uleaf", S: []string{"plain", ""}, I: []int64{0}, Strs: []string{}}, {Op: "new", S: []string{""}}}[g.r.intn(3)]
				e := g.Tree(g.r.intn(3))
				if _, isNil := specText(e); isNil {
					e = g.Leaf(0)
				}
				r = &R{Op: "mark", Kids: []*R{e, ref}}
				for k := g.r.intn(3); k > 0; k-- {
					r = g.Wrapper(r, 1)
				}
				if _, isNil := specText(r); isNil {
					r = &R{Op: "mark", Kids: []*R{e, ref}}
				}
				extraRefs = []*Ref{{Kind: "recipe", R: cloneR(ref)}, {Kind: "recipe", R: cloneR(e)}}
				knowingOnly = true
			}
			refs := g.identityRefs(r, 3)
			refs = append(refs, extraRefs...)
			// the whole error rebuilt, and references of the same text but another type next to the right one
			refs = append(refs, &Ref{Kind: "recipe", R: cloneR(r)})
			refs, anyObs := twinRefs(refs, 3)
			hops := [][][]string{knowing1, g.hopSeq(1+g.r.intn(2), true), g.hopSeq(1+g.r.intn(2), false)}
			if knowingOnly {
				hops = [][][]string{knowing1, knowing2}
			}
			obs := append(isObs(len(refs)), anyObs...)
			for _, h := range hops {
				obs = append(obs, Obs{Name: "hop", Procs: h, Sub: append(isObs(len(refs)), anyObs...)})
			}
			add(&Case{R: r, Refs: refs, Obs: obs, Oracles: []string{"C02"}, Hops: hops})
		}
	case "C03":
		g.Hostile, g.Tokens = true, true
		obs := names("red-v", "red+v", "safedetails", "enc", "report")
		for i := 0; i < n; i++ {
			r := g.Tree(1 + g.r.intn(5))
			hops := [][][]string{knowing1, knowing2, g.hopSeq(1, false), {g.proc(1)}}
			o := append([]Obs{}, obs...)
			o = append(o, Obs{Name: "hop", Procs: hops[2], Sub: names("red+v", "safedetails", "enc", "report")})
			o = append(o, Obs{Name: "hop", Procs: knowing1, Sub: names("red+v", "safedetails", "report")})
			add(&Case{R: r, Obs: o, Oracles: []string{"C03"}, Hops: hops})
		}
	case "C04":
		for _, leaf := range []*R{{Op: "stdnew", S: []string{""}}, {Op: "new", S: []string{""}}, {Op: "pkgnew", S: []string{""}}} {
			for _, w := range []*R{
				{Op: "wrap", S: []string{"ctx"}}, {Op: "withmessage", S: []string{"ctx"}}, {Op: "pkgmsg", S: []string{"ctx"}},
				{Op: "uwrap", S: []string{"unwrap", "ctx"}, Strs: []string{}}, {Op: "patherror", S: []string{"open", "/p"}}, {Op: "syscallerror", S: []string{"read"}},
			} {
				wr := cloneR(w)
				wr.Kids = []*R{cloneR(leaf)}
				hops := [][][]string{{g.proc(1)}, {g.proc(2)}, g.hopSeq(2, false)}
				add(&Case{R: wr, Obs: names("text", "shape"), Oracles: []string{"C04"}, Hops: hops})
			}
		}
		// wrappers that replace the message: the text is not "prefix: cause" -- empty over a non-empty
		// cause, ending with the separator, containing the cause elsewhere than at the end, equal to it
		for _, msg := range []string{"", "gave up: ", "boom: later", "boom", "x boom", "boom: "} {
			for _, leaf := range []*R{{Op: "stdnew", S: []string{"boom"}}, {Op: "new", S: []string{"boom"}}} {
				wr := &R{Op: "uwrap", S: []string{"full", msg}, Kids: []*R{cloneR(leaf)}, Strs: []string{}}
				for _, r := range []*R{wr, {Op: "wrap", S: []string{"ctx"}, Kids: []*R{cloneR(wr)}}} {
					hops := [][][]string{{g.proc(1)}, {g.proc(2)}, g.hopSeq(2, false), {g.proc(1), {}}}
					add(&Case{R: r, Obs: names("text", "shape"), Oracles: []string{"C04"}, Hops: hops})
				}
			}
		}
		// a message that consists of the separator alone: fmt.Errorf(": %w", err)
		for _, r := range colonOnlyShapes() {
			hops := [][][]string{{g.proc(1)}, {g.proc(2)}, g.hopSeq(2, false), {g.proc(1), {}}}
			add(&Case{R: r, Obs: names("text", "shape"), Oracles: []string{"C04"}, Hops: hops})
		}
		for i := 0; i < n; i++ {
			r := g.Tree(1 + g.r.intn(5))
			hops := [][][]string{{g.proc(1)}, {g.proc(2)}, {g.proc(2), g.proc(1)}, {g.proc(1), g.proc(2), g.proc(2)}}
			var obs []Obs
			for _, h := range hops[:3] {
				obs = append(obs, Obs{Name: "hop", Procs: h, Sub: names("shape", "enc", "safedetails")})
				hk := append(append([][]string{}, h...), []string{})
				obs = append(obs, Obs{Name: "hop", Procs: hk, Sub: names("shape", "enc", "fmt+v", "hints", "details", "keys", "domain", "tags", "flags", "codes", "links")})
			}
			add(&Case{R: r, Refs: sentRefs(), Obs: obs, Oracles: []string{"C04"}, Hops: hops})
		}
	case "C06":
		g.Hostile = true
		obs := names("red-v", "red+v")
		// a marker rune assembled from pieces: a truncated prefix of the marker's UTF-8 encoding at the
		// end of a line / of a nested rendering, its continuation at the start of the next piece
		for _, r := range []*R{
			{Op: "new", S: []string{"\xe2\x80\n\xb9\na"}},
			{Op: "new", S: []string{"x\xe2\x80\n\xba"}},
			{Op: "wrap", Kids: []*R{{Op: "stdnew", S: []string{"c"}}}, S: []string{"\xe2\n\x80\xb9 b"}},
			{Op: "newf", Fmt: []FP{{Kind: "err", Verb: "v", R: &R{Op: "new", S: []string{"\xe2\n"}}}, {Kind: "safestr", Verb: "s", S: "\x80\xb9a"}}},
			{Op: "newf", Fmt: []FP{{Kind: "err", Verb: "v", R: &R{Op: "new", S: []string{"\xe2\x80\n"}}}, {Kind: "lit", S: "\xba"}}},
			{Op: "hint", Kids: []*R{{Op: "new", S: []string{"m"}}}, S: []string{"\xe2\x80\n\xb9"}},
		} {
			add(&Case{R: r, Obs: obs, Oracles: []string{"C06wf"}})
		}
		for i := 0; i < n; i++ {
			r := g.Tree(1 + g.r.intn(5))
			hops := [][][]string{knowing1, {g.proc(1)}, {g.proc(2)}}
			o := append([]Obs{}, obs...)
			for _, h := range hops {
				o = append(o, Obs{Name: "hop", Procs: h, Sub: names("red-v", "red+v")})
			}
			add(&Case{R: r, Obs: o, Oracles: []string{"C06wf"}, Hops: hops})
		}
	case "C06R":
		g.OpErrorArrow = true
		// regular strings: congruence with the plain rendering, refusal of unsupported verbs
		g.Tokens = true
		obs := names("red-v", "red+v", "fmt-v", "fmt+v")
		for i := 0; i < n; i++ {
			r := g.Tree(1 + g.r.intn(5))
			hops := [][][]string{knowing1, {g.proc(1)}}
			o := append([]Obs{}, obs...)
			for _, h := range hops {
				o = append(o, Obs{Name: "hop", Procs: h, Sub: names("red+v", "fmt+v")})
			}
			add(&Case{R: r, Obs: o, Oracles: []string{"C06wf", "C06congr"}, Hops: hops})
		}
	case "C07":
		g.NoPlusV = true
		for len(cases) < n {
			r := g.treeWithHidden(1 + g.r.intn(4))
			switch len(cases) % 6 {
			case 1:
				// the hidden error already carries the domain the barrier is created in
				d := "error domain: \"" + g.word() + "\""
				h := &R{Op: "domain", Kids: []*R{g.Tree(1 + g.r.intn(2))}, S: []string{d}}
				r = g.Wrapper(&R{Op: "handledindomain", Kids: []*R{h}, S: []string{d}}, 1)
			case 3:
				// the secondary error contains an error equal to the primary one
				x := g.Tree(1 + g.r.intn(2))
				sec := g.Wrapper(g.Wrapper(cloneR(x), 1), 1)
				op := "combine"
				if g.r.chance(50) {
					op = "secondary"
				}
				r = g.Wrapper(&R{Op: op, Kids: []*R{x, sec}}, 1)
			case 2:
				// nothing to annotate: WithSecondaryError(nil, x) is nil, whatever x is
				if len(cases)%12 == 2 {
					nilr := &R{Op: "secondary", Kids: []*R{{Op: "nil"}, g.richHidden()}}
					add(&Case{R: nilr, Obs: names("nilness", "text"), Oracles: []string{"C07"}})
					add(&Case{R: g.Wrapper(&R{Op: "secondary", Kids: []*R{{Op: "nil"}, g.richHidden()}}, 1), Obs: names("nilness", "text"), Oracles: []string{"C07"}})
				}
			case 4:
				// an error argument next to a %w argument is still captured (as a secondary error)
				if len(cases)%12 == 4 {
					other := g.richHidden()
					f := []FP{{Kind: "lit", S: "while "}, {Kind: "err", Verb: "v", R: other}, {Kind: "lit", S: ": "}, {Kind: "err", Verb: "w", R: g.Tree(1 + g.r.intn(2))}}
					r = &R{Op: []string{"newf", "assertf"}[g.r.intn(2)], Fmt: f}
					if g.r.chance(50) {
						r = g.Wrapper(r, 1)
					}
					add(&Case{R: cloneR(r), Obs: names("text", "hints"), Oracles: []string{"C07vis"}})
				}
			case 5:
				// an empty replacement message is still a replacement
				h := g.richHidden()
				if g.r.chance(50) {
					r = &R{Op: "handledmsg", Kids: []*R{h}, S: []string{""}}
				} else {
					r = &R{Op: "handledindomainmsg", Kids: []*R{h}, S: []string{"error domain: \"" + g.word() + "\"", ""}}
				}
				if g.r.chance(50) {
					r = g.Wrapper(r, 1)
				}
			}
			v, ok := g.swapHidden(r)
			if !ok {
				continue
			}
			refs := []*Ref{{Kind: "recipe", R: v}}
			refs = append(refs, sentRefs()...)
			var subs []*R
			subRecipes(r, &subs, 30)
			for k := 0; k < 4; k++ {
				refs = append(refs, &Ref{Kind: "recipe", R: cloneR(subs[g.r.intn(len(subs))])})
			}
			hops := [][][]string{knowing1, g.hopSeq(1, true), {g.proc(1)}}
			obs := names("root", "hints", "details", "links", "keys", "domain", "tags", "flags", "codes", "os", "text", "safedetails")
			obs = append(obs, isObs(len(refs))[1:]...)
			obs = append(obs, asObs()...)
			obs = append(obs, Obs{Name: "hop", Procs: knowing1, Sub: append(names("root", "hints", "details", "keys", "domain", "flags", "codes", "os", "text", "safedetails"), isObs(len(refs))[1:]...)})
			// at a process that knows none of the types the hidden error still shows in the safe details
			obs = append(obs, Obs{Name: "hop", Procs: hops[2], Sub: names("text", "safedetails")})
			add(&Case{R: r, Refs: refs, Obs: obs, Oracles: []string{"C07", "C07vis"}, Hops: hops})
		}
	case "C07M":
		// Mark(e, ref): the reference contributes nothing but its mark
		g.NoPlusV = true
		for i := 0; i < n; i++ {
			e := g.Tree(1 + g.r.intn(3))
			g.inRef++
			ref := g.richHidden()
			if g.r.chance(50) {
				ref = g.Wrapper(ref, 2)
			}
			g.inRef--
			if _, isNil := specText(e); isNil {
				continue
			}
			if _, isNil := specText(ref); isNil {
				continue
			}
			r := &R{Op: "mark", Kids: []*R{e, ref}}
			refs := []*Ref{{Kind: "recipe", R: cloneR(e)}}
			obs := names("root", "hints", "details", "links", "keys", "domain", "tags", "flags", "codes", "os", "text")
			obs = append(obs, asObs()...)
			if i%6 == 3 {
				// the reference itself carries a Mark below some wrappers: the mark of the reference is
				// that of its whole chain, not the inner mark
				a, b := g.Leaf(0), g.Leaf(0)
				inner := &R{Op: "mark", Kids: []*R{a, b}}
				ref = g.Wrapper(inner, 1)
				if g.r.chance(50) {
					ref = g.Wrapper(ref, 1)
				}
				if _, isNil := specText(ref); isNil {
					ref = &R{Op: "withstack", Kids: []*R{inner}}
				}
				r = &R{Op: "mark", Kids: []*R{e, ref}}
				refs = append(refs, &Ref{Kind: "recipe", R: cloneR(b)}, &Ref{Kind: "recipe", R: cloneR(a)},
					&Ref{Kind: "recipe", R: cloneR(ref)}, &Ref{Kind: "recipe", R: cloneR(inner)})
				obs = append(obs, isObs(len(refs))...)
			}
			add(&Case{R: r, Refs: refs, Obs: obs, Oracles: []string{"C07mark"}, Hops: [][][]string{knowing1, {g.proc(1)}}})
		}
	case "C08":
		for i := 0; i < n; i++ {
			r := g.Tree(1 + g.r.intn(5))
			if g.r.chance(4) {
				r = &R{Op: "nil"}
			}
			refs := g.identityRefs(r, 4)
			if i%5 == 1 {
				// Mark(e, ref) with a reference whose chain is deeper / shallower than e's
				e := g.Tree(g.r.intn(3))
				ref := g.Tree(g.r.intn(4))
				if _, isNil := specText(ref); isNil {
					ref = g.Leaf(0)
				}
				if _, isNil := specText(e); isNil {
					e = g.Leaf(0)
				}
				var innerRef *R
				if g.r.chance(25) {
					// the reference carries a Mark of its own below a wrapper
					innerRef = g.Leaf(0)
					ref = g.Wrapper(&R{Op: "mark", Kids: []*R{ref, innerRef}}, 1)
					if _, isNil := specText(ref); isNil {
						ref, innerRef = g.Leaf(0), nil
					}
				}
				r = &R{Op: "mark", Kids: []*R{e, ref}}
				if g.r.chance(50) {
					r = g.Wrapper(r, 1)
				}
				refs = g.identityRefs(r, 2)
				if innerRef != nil {
					refs = append(refs, &Ref{Kind: "recipe", R: cloneR(innerRef)})
				}
				refs = append(refs, &Ref{Kind: "recipe", R: cloneR(ref)}, &Ref{Kind: "recipe", R: g.perturb(ref)},
					&Ref{Kind: "recipe", R: cloneR(e)})
			}
			if i%10 == 7 {
				// a type that is sometimes a leaf and sometimes a wrapper: same type at the head of the
				// chain, same message, different chain length
				msg := g.sU()
				leaf := &R{Op: "uleaf", S: []string{"dual", msg}, I: []int64{0}, Strs: []string{}}
				wrapped := &R{Op: "uwrap", S: []string{"full", msg}, Kids: []*R{g.Tree(g.r.intn(2))}, Strs: []string{}}
				if _, isNil := specText(wrapped); isNil {
					wrapped.Kids[0] = g.Leaf(0)
				}
				a, b := leaf, wrapped
				if g.r.chance(50) {
					a, b = wrapped, leaf
				}
				r = a
				switch g.r.intn(3) {
				case 1:
					r = g.Wrapper(cloneR(a), 1)
				case 2:
					r = &R{Op: "mark", Kids: []*R{g.Tree(1), cloneR(a)}}
					if _, isNil := specText(r); isNil {
						r = cloneR(a)
					}
				}
				refs = []*Ref{{Kind: "recipe", R: cloneR(b)}, {Kind: "recipe", R: cloneR(a)}, {Kind: "recipe", R: g.Wrapper(cloneR(b), 1)}}
				refs = append(refs, g.identityRefs(r, 1)...)
			}
			if i%10 == 3 {
				// Mark(e, ref) where e already matches ref, but only through its own Is method:
				// the mark must still make e match everything equivalent to ref
				tag := int64(g.r.intn(3))
				mk := func(msg string, t int64) *R {
					return &R{Op: "uleaf", S: []string{"istag", msg}, I: []int64{t}, Strs: []string{}}
				}
				e := mk(g.sU(), tag)
				refMsg := g.sU()
				ref := mk(refMsg, tag)
				var inner *R = e
				if g.r.chance(50) {
					inner = g.Wrapper(e, 1)
				}
				r = &R{Op: "mark", Kids: []*R{inner, ref}}
				if g.r.chance(50) {
					r = g.Wrapper(r, 1)
				}
				refs = []*Ref{{Kind: "recipe", R: mk(refMsg, tag+1)}, {Kind: "recipe", R: mk(refMsg, tag)},
					{Kind: "recipe", R: cloneR(e)}, {Kind: "recipe", R: mk(refMsg+"x", tag+1)}}
				refs = append(refs, g.identityRefs(r, 2)...)
			}
			obs := isObs(len(refs))
			for k := 0; k+2 < len(refs); k += 3 {
				obs = append(obs, Obs{Name: "isany", Refs: []int{k, k + 1, k + 2}})
			}
			add(&Case{R: r, Refs: refs, Obs: obs, Oracles: []string{"C08"}})
		}
	case "C09":
		g.OpErrorArrow = true
		obs := names("text", "fmt-v", "fmt+v")
		obs = append(obs, Obs{Name: "hop", Procs: knowing1, Sub: names("text", "fmt-v", "fmt+v")})
		for _, r := range enumPairs(g) {
			add(&Case{R: r, Obs: obs, Oracles: []string{"C09"}, Hops: [][][]string{knowing1}})
		}
		// a message that consists of the separator alone below library layers
		for _, r := range colonOnlyShapes() {
			add(&Case{R: r, Obs: obs, Oracles: []string{"C09"}, Hops: [][][]string{knowing1}})
		}
		for i := 0; i < n; i++ {
			add(&Case{R: g.Tree(1 + g.r.intn(5)), Obs: obs, Oracles: []string{"C09"}, Hops: [][][]string{knowing1}})
		}
	case "C10":
		obs := names("nilness", "shape", "root")
		// every exported constructor over nil
		for _, r := range nilCases(g) {
			add(&Case{R: r, Obs: obs, Oracles: []string{"C10"}})
		}
		for _, r := range enumPairs(g) {
			add(&Case{R: r, Obs: obs, Oracles: []string{"C10"}})
		}
		for i := 0; i < n; i++ {
			r := g.Tree(1 + g.r.intn(6))
			if i%10 == 3 {
				x := g.Tree(1 + g.r.intn(2))
				r = &R{Op: []string{"combine", "secondary"}[g.r.intn(2)], Kids: []*R{x, g.Wrapper(cloneR(x), 1)}}
			}
			var refs []*Ref
			o := append([]Obs{}, obs...)
			if annotOps[r.Op] {
				refs = append(refs, &Ref{Kind: "recipe", R: cloneR(r.Kids[0])})
				refs = append(refs, sentRefs()...)
				refs = append(refs, &Ref{Kind: "path", Path: []Sx{Sym("c")}})
				o = append(o, isObs(len(refs))...)
				o = append(o, asObs()...)
			}
			add(&Case{R: r, Refs: refs, Obs: o, Oracles: []string{"C10"}})
		}
	case "C11":
		g.NoUserAnnot = true
		sub := names("hints", "details", "links", "keys", "domain", "tags", "flags", "codes", "os", "safedetails", "stacks", "source")
		obs := append([]Obs{}, sub...)
		obs = append(obs, Obs{Name: "hop", Procs: knowing1, Sub: sub}, Obs{Name: "hop", Procs: knowing2, Sub: sub})
		for _, r := range enumPairs(g) {
			add(&Case{R: r, Obs: obs, Oracles: []string{"C11"}})
		}
		for _, r := range deepChains(g) {
			add(&Case{R: r, Obs: obs, Oracles: []string{"C11"}})
		}
		// the same telemetry key listed twice in one layer: every layer reports what it was given
		for _, ks := range [][]string{{"k", "k"}, {"a.b", "c", "a.b"}, {"", ""}} {
			add(&Case{R: &R{Op: "telemetry", Kids: []*R{{Op: "new", S: []string{"base"}}}, Strs: ks}, Obs: obs, Oracles: []string{"C11"}})
			add(&Case{R: &R{Op: "wrap", S: []string{"ctx"}, Kids: []*R{{Op: "telemetry", Kids: []*R{{Op: "new", S: []string{"base"}}}, Strs: ks}}}, Obs: obs, Oracles: []string{"C11"}})
		}
		// annotation strings that are not valid UTF-8: still identical after any number of hops
		for _, bad := range []string{"caf\xe9", "trunc\xe2\x82", "\xff\xfe key"} {
			base := func() *R { return &R{Op: "new", S: []string{"base"}} }
			for _, r := range []*R{
				{Op: "telemetry", Kids: []*R{base()}, Strs: []string{bad, "ok.key"}},
				{Op: "domain", Kids: []*R{base()}, S: []string{"error domain: \"" + bad + "\""}},
				{Op: "issuelink", Kids: []*R{base()}, S: []string{"http://x/" + bad, bad}},
				{Op: "hint", Kids: []*R{base()}, S: []string{bad}},
				{Op: "detail", Kids: []*R{base()}, S: []string{bad}},
				{Op: "tags", Kids: []*R{base()}, Tags: []TagKV{{K: "k", Kind: "str", V: bad}}},
			} {
				add(&Case{R: g.Wrapper(r, 1), Obs: obs, Oracles: []string{"C11"}})
			}
		}
		// annotation texts that look like format strings
		for _, op := range []string{"hint", "detail", "wrap", "withmessage", "domain"} {
			for _, txt := range []string{"95% of quota", "%d items %s", "100%"} {
				add(&Case{R: g.Wrapper(&R{Op: op, Kids: []*R{g.Tree(1)}, S: []string{txt}}, g.r.intn(2)), Obs: obs, Oracles: []string{"C11"}})
			}
		}
		for i := 0; i < n; i++ {
			add(&Case{R: g.Tree(1 + g.r.intn(5)), Obs: obs, Oracles: []string{"C11"}})
		}
	case "C12":
		g.Tokens = true
		g.QuoteSafe = true
		obs := names("report", "safedetails")
		obs = append(obs, Obs{Name: "hop", Procs: knowing1, Sub: names("report", "safedetails")})
		for i := 0; i < n; i++ {
			r := g.Tree(1 + g.r.intn(5))
			switch i % 20 {
			case 3:
				// the same kind of safe annotation several times in one chain, with the same key (URL, domain ...)
				// and different safe payloads: every one is retained
				url := g.urlOrEmpty()
				r = g.Leaf(0)
				if g.r.chance(40) {
					r = &R{Op: "unimpl", S: []string{url, g.sS(), g.sU()}}
				}
				for k := 2 + g.r.intn(2); k > 0; k-- {
					r = &R{Op: "issuelink", Kids: []*R{r}, S: []string{url, g.sS()}}
					if g.r.chance(40) {
						r = g.Wrapper(r, 1)
					}
				}
			case 11:
				// a formatted wrapper with several error arguments: each one is kept with its safe payload
				f := []FP{{Kind: "lit", S: "while "}}
				for k := 2 + g.r.intn(2); k > 0; k-- {
					arg := &R{Op: "telemetry", Kids: []*R{{Op: "safedetails", Kids: []*R{g.Leaf(0)}, Fmt: []FP{{Kind: "lit", S: g.sS() + " "}, {Kind: "safestr", Verb: "s", S: g.sS()}}}}, Strs: []string{g.sS()}}
					f = append(f, FP{Kind: "err", Verb: "v", R: arg}, FP{Kind: "lit", S: ", "})
				}
				r = &R{Op: []string{"wrapf", "newassertwrapped"}[g.r.intn(2)], Kids: []*R{g.Leaf(0)}, Fmt: f}
				if _, isNil := specText(r); isNil {
					r = &R{Op: "wrapf", Kids: []*R{{Op: "new", S: []string{g.sS()}}}, Fmt: f}
				}
			case 17:
				// a secondary error that repeats the type and the message of its primary (the same failure hit twice,
				// the first one annotated and attached to the second): its safe payload is retained all the same
				msg := g.sS()
				sec := &R{Op: "safedetails", Kids: []*R{{Op: "new", S: []string{msg}}}, Fmt: []FP{{Kind: "lit", S: g.sS() + " "}, {Kind: "safestr", Verb: "s", S: g.sS()}}}
				if g.r.chance(50) {
					sec = &R{Op: "telemetry", Kids: []*R{sec}, Strs: []string{g.sS()}}
				}
				r = &R{Op: "secondary", Kids: []*R{{Op: "new", S: []string{msg}}, sec}}
				if g.r.chance(40) {
					r = g.Wrapper(r, 1)
				}
			}
			add(&Case{R: r, Obs: obs, Oracles: []string{"C12"}, Hops: [][][]string{knowing1, knowing2}})
		}
	case "C13":
		for i := 0; i < n; i++ {
			var r *R
			for {
				g.nest++ // the size bound is applied here, on the whole recipe
				switch g.r.intn(3) {
				case 0:
					r = g.Multi(1 + g.r.intn(4))
				case 1:
					r = g.Wrapper(g.Multi(1+g.r.intn(3)), 1)
				default:
					r = g.Wrapper(g.Wrapper(g.Multi(1+g.r.intn(3)), 1), 1)
				}
				g.nest--
				if r.Size() <= 14 {
					break
				}
			}
			refs := g.identityRefs(r, 3)
			hops := [][][]string{knowing1, {g.proc(1)}, g.hopSeq(2, false)}
			obs := names("shape", "fmt+v")
			obs = append(obs, isObs(len(refs))...)
			obs = append(obs, asObs()...)
			for _, h := range hops {
				obs = append(obs, Obs{Name: "hop", Procs: h, Sub: names("shape")})
			}
			orc := []string{"C13"}
			if r.Op == "join" || r.Op == "stdjoin" {
				orc = append(orc, "C13join")
			}
			add(&Case{R: r, Refs: refs, Obs: obs, Oracles: orc, Hops: hops})
		}
		// branches whose text is empty, ends in a newline or holds a blank line (recorded finding
		// join-blank-line-branch: the library Join prints through the formatting engine, which drops such newlines)
		for _, ss := range [][]string{{"x\n", "c"}, {"c", "x\n"}, {"x\n\n", "c"}, {"a\n\nb", "c"}, {"", "c"}, {"c", ""}, {"", ""}, {"a\nb", "c"}} {
			for _, op := range []string{"join", "stdjoin"} {
				for _, leafOp := range []string{"new", "stdnew"} {
					var kids []*R
					for _, t := range ss {
						kids = append(kids, &R{Op: leafOp, S: []string{t}})
					}
					add(&Case{R: &R{Op: op, Kids: kids}, Obs: names("shape", "text"), Oracles: []string{"C13join"}})
				}
			}
		}
	case "C14":
		for i := 0; i < n; i++ {
			r := g.Tree(1 + g.r.intn(5))
			if i%12 == 5 {
				// layers of one non-comparable value type directly above each other: nothing may compare them with ==
				nc := func(k *R) *R { return &R{Op: "uwrap", S: []string{"nocmp", g.sU()}, Kids: []*R{k}, Strs: []string{}} }
				r = nc(nc(g.Tree(g.r.intn(2))))
				if g.r.chance(50) {
					r = g.Wrapper(nc(r), 1)
				}
				if _, isNil := specText(r); isNil {
					r = nc(nc(g.Leaf(0)))
				}
			}
			if i%12 == 7 {
				// a layer that answers As through its own method, above a node that is directly
				// assignable to the same target (possibly with annotation layers in between, under
				// further wrappers, in a branch): the outermost match wins, by whichever mechanism
				val := &R{Op: "uleaf", S: []string{"val", g.sU()}, I: []int64{int64(g.r.intn(3))}, Strs: []string{}}
				var below *R = val
				for k := g.r.intn(3); k > 0; k-- {
					below = g.Wrapper(below, 1)
				}
				r = &R{Op: "uwrap", S: []string{"as", g.sU()}, Kids: []*R{below}, Strs: []string{}}
				for k := g.r.intn(3); k > 0; k-- {
					r = g.Wrapper(r, 1)
				}
				if g.r.chance(30) {
					r = &R{Op: "join", Kids: []*R{g.Leaf(0), r}}
				}
				if _, isNil := specText(r); isNil {
					r = &R{Op: "uwrap", S: []string{"as", "as layer"}, Kids: []*R{val}, Strs: []string{}}
				}
			}
			refs := g.identityRefs(r, 3)
			var obs []Obs
			for k := range refs {
				obs = append(obs, Obs{Name: "is", Refs: []int{k}}, Obs{Name: "std-is", Refs: []int{k}})
			}
			for _, t := range asTypeTargets {
				obs = append(obs, Obs{Name: "as", Target: [2]string{"type", t}}, Obs{Name: "std-as", Target: [2]string{"type", t}})
			}
			obs = append(obs, names("std-unwrap", "pkg-cause", "root")...)
			add(&Case{R: r, Refs: refs, Obs: obs, Oracles: []string{"C14"}})
		}
	case "C15":
		obs := names("report")
		obs = append(obs, Obs{Name: "hop", Procs: knowing1, Sub: names("report")}, Obs{Name: "hop", Procs: knowing2, Sub: names("report")})
		for _, r := range enumPairs(g) {
			add(&Case{R: r, Obs: obs, Oracles: []string{"C15"}, Hops: [][][]string{knowing1}})
		}
		add(&Case{R: &R{Op: "nil"}, Obs: obs, Oracles: []string{"C15"}})
		// layers whose first safe detail begins with / consists of newlines: still one composition line each
		for _, txt := range []string{"\nrange check failed", "\n", "\n\nx", "a\n", "line1\nline2"} {
			lit := []FP{{Kind: "lit", S: txt}, {Kind: "safeint", Verb: "d", I: 7}}
			for _, r := range []*R{
				{Op: "newf", Fmt: lit},
				{Op: "withmessagef", Kids: []*R{g.Tree(1)}, Fmt: lit},
				{Op: "safedetails", Kids: []*R{g.Tree(1)}, Fmt: lit},
				{Op: "wrap", Kids: []*R{{Op: "new", S: []string{txt}}}, S: []string{"ctx"}},
			} {
				if _, isNil := specText(r); isNil {
					continue
				}
				add(&Case{R: r, Obs: obs, Oracles: []string{"C15"}, Hops: [][][]string{knowing1}})
			}
		}
		for i := 0; i < n; i++ {
			add(&Case{R: g.Tree(1 + g.r.intn(5)), Obs: obs, Oracles: []string{"C15"}, Hops: [][][]string{knowing1}})
		}
	case "C19":
		obs := names("hints", "details", "flathints", "flatdetails", "links", "keys", "tags")
		for _, url := range []string{"https://tracker.example/issues/42", ""} {
			leaf := &R{Op: "unimpl", S: []string{url, "detail", "not done"}}
			for _, mid := range []*R{nil, {Op: "wrap", S: []string{"ctx"}}, {Op: "hint", S: []string{"h"}}} {
				var k *R = leaf
				if mid != nil {
					m := cloneR(mid)
					m.Kids = []*R{cloneR(leaf)}
					k = m
				}
				add(&Case{R: &R{Op: "issuelink", Kids: []*R{k}, S: []string{url, "more"}}, Obs: obs, Oracles: []string{"C19"}})
				add(&Case{R: &R{Op: "issuelink", Kids: []*R{cloneR(k)}, S: []string{url, ""}}, Obs: obs, Oracles: []string{"C19"}})
			}
		}
		// texts that differ only in a rune some formatter might treat specially: every one is a distinct
		// hint / detail, whichever constructor variant made it
		for _, pair := range [][2]string{{"open with \u2039", "open with \u203a"}, {"a%b", "a%%b"}, {"x\n", "x"}, {"\u2039q\u203a", "?q?"}} {
			for _, ops := range [][2]string{{"hint", "hintf"}, {"detail", "detailf"}} {
				mk := func(op, txt string, k *R) *R {
					if strings.HasSuffix(op, "f") {
						return &R{Op: op, Kids: []*R{k}, Fmt: []FP{{Kind: "str", Verb: "s", S: txt}}}
					}
					return &R{Op: op, Kids: []*R{k}, S: []string{txt}}
				}
				for _, o1 := range ops {
					for _, o2 := range ops {
						r := mk(o2, pair[1], mk(o1, pair[0], &R{Op: "new", S: []string{"base"}}))
						add(&Case{R: r, Obs: obs, Oracles: []string{"C19"}})
					}
				}
			}
		}
		for _, r := range deepChains(g) {
			o := append([]Obs{}, obs...)
			o = append(o, Obs{Name: "hop", Procs: knowing1, Sub: obs})
			add(&Case{R: r, Obs: o, Oracles: []string{"C19"}})
		}
		// details and hints that consist of white space only are texts like any other (only the empty string is skipped)
		for _, ws := range []string{" ", "\n", "    ", "\t", " \n "} {
			base := &R{Op: "detail", Kids: []*R{{Op: "new", S: []string{"base"}}}, S: []string{"first"}}
			r := &R{Op: "detail", Kids: []*R{{Op: "detail", Kids: []*R{base}, S: []string{ws}}}, S: []string{"last"}}
			add(&Case{R: r, Obs: obs, Oracles: []string{"C19"}})
			h := &R{Op: "hint", Kids: []*R{{Op: "hint", Kids: []*R{{Op: "hint", Kids: []*R{{Op: "new", S: []string{"base"}}}, S: []string{"first"}}}, S: []string{ws}}}, S: []string{"last"}}
			add(&Case{R: h, Obs: obs, Oracles: []string{"C19"}})
			add(&Case{R: &R{Op: "detailf", Kids: []*R{cloneR(base)}, Fmt: []FP{{Kind: "str", Verb: "s", S: ws}}}, Obs: obs, Oracles: []string{"C19"}})
		}
		// URLs and details with percent signs (a percent-encoded query): the referral hint quotes them verbatim
		for _, url := range []string{"https://tracker.example/issues?q=is%3Aopen+label%3Abug", "https://x/100%", "%s%d%v", "https://x/%!"} {
			leaf := &R{Op: "new", S: []string{"base"}}
			add(&Case{R: &R{Op: "issuelink", Kids: []*R{leaf}, S: []string{url, "detail 50% done"}}, Obs: obs, Oracles: []string{"C19"}})
			add(&Case{R: &R{Op: "hint", S: []string{"h"}, Kids: []*R{{Op: "unimpl", S: []string{url, "detail %d", "not done"}}}}, Obs: obs, Oracles: []string{"C19"}})
		}
		// a multi-cause node ends the direct chain, also when only one of its members is non-nil
		// (errors.Join(err, f.Close()) with a nil close error), locally and after transfer
		for i := 0; i < 24; i++ {
			inner := g.Chain(1 + g.r.intn(5))
			var kids []*R
			switch i % 4 {
			case 0:
				kids = []*R{inner}
			case 1:
				kids = []*R{inner, {Op: "nil"}}
			case 2:
				kids = []*R{{Op: "nil"}, inner, {Op: "nil"}}
			default:
				kids = []*R{inner, g.Chain(1 + g.r.intn(3))}
			}
			r := &R{Op: []string{"join", "stdjoin"}[i/4%2], Kids: kids}
			for k := g.r.intn(3); k > 0; k-- {
				r = &R{Op: []string{"hint", "detail", "telemetry", "withstack"}[g.r.intn(4)], Kids: []*R{r}, S: []string{"outer " + g.word()}, Strs: []string{"outer.key"}}
			}
			o := append([]Obs{}, obs...)
			o = append(o, Obs{Name: "hop", Procs: knowing1, Sub: obs}, Obs{Name: "hop", Procs: knowing2, Sub: obs})
			add(&Case{R: r, Obs: o, Oracles: []string{"C19"}, Hops: [][][]string{knowing1}})
		}
		// a relay that knows none of the types, then a process that knows them: nothing of the chain is lost
		for i := 0; i < 40; i++ {
			r := g.Chain(1 + g.r.intn(8))
			if i%2 == 0 {
				r = &R{Op: "assert", Kids: []*R{r}}
				for k := g.r.intn(3); k > 0; k-- {
					r = &R{Op: []string{"hint", "detail", "withstack"}[g.r.intn(3)], Kids: []*R{r}, S: []string{"outer " + g.word()}}
				}
			}
			relay := [][]string{g.proc(1), {}}
			relay2 := [][]string{g.proc(2), {}}
			o := append([]Obs{}, obs...)
			o = append(o, Obs{Name: "hop", Procs: relay, Sub: append(append([]Obs{}, obs...), names("flags")...)},
				Obs{Name: "hop", Procs: relay2, Sub: append(append([]Obs{}, obs...), names("flags")...)})
			add(&Case{R: r, Obs: o, Oracles: []string{"C19"}})
		}
		for i := 0; i < n; i++ {
			add(&Case{R: g.Chain(g.r.intn(12)), Obs: obs, Oracles: []string{"C19"}})
		}
	default:
		panic("unknown property " + prop)
	}
	return cases
}

// every wrapper / multi kind over every leaf kind, with fixed strings: the
// enumerative part of the corpus (each kind's local behaviour)
func enumPairs(g *Gen) []*R {
	save := *g.r
	g.r.s = 0x5eed
	defer func() { *g.r = save }()
	var leaves []*R
	for k := 0; k < 14; k++ {
		// one leaf per generator branch
		for tries := 0; tries < 40; tries++ {
			l := g.Leaf(1)
			dup := false
			for _, x := range leaves {
				if x.Op == l.Op && (l.Op != "uleaf" || x.S[0] == l.S[0]) && (l.Op != "sentinel" || x.I[0] == l.I[0]) {
					dup = true
				}
			}
			if !dup {
				leaves = append(leaves, l)
				break
			}
		}
	}
	var out []*R
	seen := map[string]bool{}
	for _, l := range leaves {
		out = append(out, l)
		for tries := 0; tries < 260; tries++ {
			w := g.Wrapper(cloneR(l), 1)
			key := w.Op
			if w.Op == "uwrap" {
				key += w.S[0]
			}
			key += "/" + l.Op
			if l.Op == "uleaf" {
				key += l.S[0]
			}
			if seen[key] {
				continue
			}
			seen[key] = true
			out = append(out, w)
		}
	}
	// multi kinds over two leaves
	for i := 0; i+1 < len(leaves); i += 2 {
		for _, op := range []string{"join", "stdjoin"} {
			out = append(out, &R{Op: op, Kids: []*R{cloneR(leaves[i]), cloneR(leaves[i+1])}})
		}
		out = append(out, &R{Op: "fmterrorf", Fmt: []FP{{Kind: "lit", S: "multi "}, {Kind: "err", Verb: "w", R: cloneR(leaves[i])},
			{Kind: "lit", S: " and "}, {Kind: "err", Verb: "w", R: cloneR(leaves[i+1])}}})
	}
	return out
}

// every exported constructor applied to a nil error (and nil in each position)
func nilCases(g *Gen) []*R {
	nilR := func() *R { return &R{Op: "nil"} }
	leaf := func() *R { return &R{Op: "new", S: []string{"x"}} }
	f := []FP{{Kind: "lit", S: "f "}, {Kind: "str", Verb: "s", S: "a"}}
	out := []*R{
		{Op: "wrap", Kids: []*R{nilR()}, S: []string{"m"}},
		{Op: "wrap", Kids: []*R{nilR()}, S: []string{""}},
		{Op: "wrapf", Kids: []*R{nilR()}, Fmt: f},
		{Op: "wrapf", Kids: []*R{nilR()}, Fmt: []FP{{Kind: "lit", S: "while "}, {Kind: "err", Verb: "v", R: &R{Op: "new", S: []string{"argument"}}}}},
		{Op: "newassertwrapped", Kids: []*R{nilR()}, Fmt: []FP{{Kind: "err", Verb: "s", R: &R{Op: "stdnew", S: []string{"argument"}}}}},
		{Op: "withmessagef", Kids: []*R{nilR()}, Fmt: []FP{{Kind: "err", Verb: "v", R: &R{Op: "new", S: []string{"argument"}}}}},
		{Op: "withmessage", Kids: []*R{nilR()}, S: []string{"m"}},
		{Op: "withmessagef", Kids: []*R{nilR()}, Fmt: f},
		{Op: "withstack", Kids: []*R{nilR()}},
		{Op: "hint", Kids: []*R{nilR()}, S: []string{"h"}},
		{Op: "detail", Kids: []*R{nilR()}, S: []string{"d"}},
		{Op: "issuelink", Kids: []*R{nilR()}, S: []string{"u", "d"}},
		{Op: "telemetry", Kids: []*R{nilR()}, Strs: []string{"k"}},
		{Op: "domain", Kids: []*R{nilR()}, S: []string{"error domain: \"d\""}},
		{Op: "tags", Kids: []*R{nilR()}, Tags: []TagKV{{K: "k", Kind: "str", V: "v"}}},
		{Op: "assert", Kids: []*R{nilR()}},
		{Op: "mark", Kids: []*R{nilR(), leaf()}},
		{Op: "safedetails", Kids: []*R{nilR()}, Fmt: f},
		{Op: "http", Kids: []*R{nilR()}, I: []int64{404}},
		{Op: "grpc", Kids: []*R{nilR()}, I: []int64{5}},
		{Op: "secondary", Kids: []*R{nilR(), leaf()}},
		{Op: "secondary", Kids: []*R{leaf(), nilR()}},
		{Op: "secondary", Kids: []*R{nilR(), nilR()}},
		{Op: "combine", Kids: []*R{nilR(), leaf()}},
		{Op: "combine", Kids: []*R{leaf(), nilR()}},
		{Op: "combine", Kids: []*R{nilR(), nilR()}},
		{Op: "combine", Kids: []*R{leaf(), leaf()}},
		{Op: "handled", Kids: []*R{nilR()}},
		{Op: "handledmsg", Kids: []*R{nilR()}, S: []string{"m"}},
		{Op: "handledmsgf", Kids: []*R{nilR()}, Fmt: f},
		{Op: "handledindomain", Kids: []*R{nilR()}, S: []string{"error domain: \"d\""}},
		{Op: "handledindomainmsg", Kids: []*R{nilR()}, S: []string{"error domain: \"d\"", "m"}},
		{Op: "handleassert", Kids: []*R{nilR()}},
		{Op: "newassertwrapped", Kids: []*R{nilR()}, Fmt: f},
		{Op: "join", Kids: []*R{}},
		{Op: "join", Kids: []*R{nilR()}},
		{Op: "join", Kids: []*R{nilR(), nilR()}},
		{Op: "join", Kids: []*R{nilR(), leaf(), nilR()}},
		{Op: "join", Kids: []*R{leaf(), leaf()}},
		{Op: "stdjoin", Kids: []*R{nilR(), nilR()}},
		{Op: "pkgmsg", Kids: []*R{nilR()}, S: []string{"m"}},
		{Op: "pkgstack", Kids: []*R{nilR()}},
		{Op: "transfer", Kids: []*R{nilR()}, Procs: [][]string{{}}},
		// message wrappers over a cause whose whole text is empty: "prefix: " (the separator stays)
		{Op: "wrap", Kids: []*R{{Op: "new", S: []string{""}}}, S: []string{"ctx"}},
		{Op: "withmessage", Kids: []*R{{Op: "newf", Fmt: []FP{{Kind: "lit", S: ""}}}}, S: []string{"ctx"}},
		{Op: "wrapf", Kids: []*R{{Op: "hint", S: []string{"h"}, Kids: []*R{{Op: "new", S: []string{""}}}}}, Fmt: f},
		// leaf constructors are never nil
		{Op: "new", S: []string{""}},
		{Op: "new", S: []string{"x"}},
		{Op: "newf", Fmt: []FP{{Kind: "lit", S: ""}}},
		{Op: "newf", Fmt: f},
		{Op: "newf", Fmt: []FP{{Kind: "lit", S: "w "}, {Kind: "err", Verb: "w", R: nilR()}}},
		{Op: "assertf", Fmt: f},
		{Op: "unimpl", S: []string{"", "", "m"}},
		{Op: "stdnew", S: []string{"x"}},
	}
	return out
}

// errors whose wrapper message is the separator alone
func colonOnlyShapes() []*R {
	mk := func(leaf *R) *R {
		return &R{Op: "fmterrorf", Fmt: []FP{{Kind: "lit", S: ": "}, {Kind: "err", Verb: "w", R: leaf}}}
	}
	a := mk(&R{Op: "stdnew", S: []string{"boom"}})
	b := mk(&R{Op: "new", S: []string{"disk full"}})
	// a wrapper without encoder whose own prefix already contains ": " + the text of its cause: the prefix is
	// everything before the LAST occurrence
	rep := &R{Op: "fmterrorf", Fmt: []FP{{Kind: "lit", S: "cleanup: timeout: "}, {Kind: "err", Verb: "w", R: &R{Op: "stdnew", S: []string{"timeout"}}}}}
	rep2 := &R{Op: "fmterrorf", Fmt: []FP{{Kind: "lit", S: "op: x: x: "}, {Kind: "err", Verb: "w", R: &R{Op: "new", S: []string{"x"}}}}}
	return []*R{a, {Op: "wrap", S: []string{"ctx"}, Kids: []*R{cloneR(a)}}, b, {Op: "hint", S: []string{"h"}, Kids: []*R{cloneR(b)}},
		rep, {Op: "wrap", S: []string{"ctx"}, Kids: []*R{cloneR(rep)}}, rep2}
}

// deepChains: single-cause chains far deeper than anything the random streams hold (a limit on the number of
// layers a decoder, an accessor or a stack converter looks at shows only here).  depth counts constructor
// applications; Wrap adds two layers each.
func deepChains(g *Gen) []*R {
	var out []*R
	for _, depth := range []int{24, 40, 70} {
		r := &R{Op: "new", S: []string{"origin of a deep chain"}}
		r = &R{Op: "tags", Kids: []*R{r}, Tags: []TagKV{{K: "innermost", Kind: "int", V: "1"}}}
		for i := 0; i < depth; i++ {
			switch i % 5 {
			case 0:
				r = &R{Op: "wrap", Kids: []*R{r}, S: []string{fmt.Sprintf("level %d", i)}}
			case 1:
				r = &R{Op: "hint", Kids: []*R{r}, S: []string{fmt.Sprintf("hint %d", i)}}
			case 2:
				r = &R{Op: "withmessage", Kids: []*R{r}, S: []string{fmt.Sprintf("msg %d", i)}}
			case 3:
				r = &R{Op: "tags", Kids: []*R{r}, Tags: []TagKV{{K: fmt.Sprintf("t%d", i), Kind: "int", V: fmt.Sprint(i)}}}
			default:
				r = &R{Op: "telemetry", Kids: []*R{r}, Strs: []string{fmt.Sprintf("key.%d", i)}}
			}
		}
		out = append(out, r)
	}
	return out
}
