package main

import "fmt"

// OracleFail is a property violation found on the implementation alone.
type OracleFail struct {
	Prop   string `json:"prop"`
	CaseID string `json:"case"`
	What   string `json:"what"`
	Recipe string `json:"recipe"`
	Detail string `json:"detail"`
}

func names(ns ...string) []Obs {
	var out []Obs
	for _, n := range ns {
		out = append(out, Obs{Name: n})
	}
	return out
}

func propCases(prop string, g *Gen, n int) ([]*Case, []OracleFail) {
	var cases []*Case
	var fails []OracleFail
	add := func(r *R, refs []*Ref, obs []Obs) {
		cases = append(cases, &Case{ID: fmt.Sprintf("%s-%d", prop, len(cases)), R: r, Refs: refs, Obs: obs})
	}
	switch prop {
	case "SMOKE", "SMOKEH":
		g.Hostile = prop == "SMOKEH"
		obs := names("nilness", "text", "shape", "root", "hints", "details", "flathints", "flatdetails", "links",
			"keys", "domain", "tags", "flags", "codes", "os", "safedetails", "enc", "fmt-v", "fmt+v", "red-v", "red+v")
		obs = append(obs, Obs{Name: "hop", Procs: [][]string{{}}, Sub: names("text", "shape", "enc", "fmt+v", "red+v", "safedetails")})
		for i := 0; i < n; i++ {
			add(g.Tree(1+g.r.intn(5)), nil, obs)
		}
	case "C19":
		obs := names("hints", "details", "flathints", "flatdetails", "links", "keys", "tags")
		for i := 0; i < n; i++ {
			add(g.Chain(g.r.intn(12)), nil, obs)
		}
	default:
		panic("unknown property " + prop)
	}
	return cases, fails
}
