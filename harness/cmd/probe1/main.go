package main

import (
	"context"
	"fmt"

	"github.com/cockroachdb/errors"
	"verifharness/ut"
)

func main() {
	ctx := context.Background()
	e0 := errors.Wrap(errors.New(""), "boom")
	fmt.Printf("local Wrap over empty: Error()=%q %%v=%q\n", e0.Error(), fmt.Sprintf("%v", e0))
	for _, e := range []error{
		fmt.Errorf(": %w", fmt.Errorf("boom")),
		&ut.WUnwrap{Msg: "", Err: errors.New("boom")},
		errors.Wrap(&ut.WFull{Msg: "boom: ", Err: fmt.Errorf("")}, "ctx"),
		errors.Wrap(fmt.Errorf("boom: %w", fmt.Errorf("")), "ctx"),
	} {
		enc := errors.EncodeError(ctx, e)
		d := errors.DecodeError(ctx, enc)
		fmt.Printf("orig %q %%v=%q  -> decoded %q %%v=%q\n", e.Error(), fmt.Sprintf("%v", e), d.Error(), fmt.Sprintf("%v", d))
	}
}
