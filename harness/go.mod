module verifharness

go 1.19

require (
	github.com/cockroachdb/errors v0.0.0
	github.com/cockroachdb/logtags v0.0.0-20230118201751-21c54148d20b
	github.com/cockroachdb/redact v1.1.5
	github.com/getsentry/sentry-go v0.27.0
	github.com/gogo/googleapis v1.4.1
	github.com/gogo/protobuf v1.3.2
	github.com/gogo/status v1.1.0
	github.com/hydrogen18/memlistener v1.0.0
	github.com/pkg/errors v0.9.1
	google.golang.org/grpc v1.56.3
	google.golang.org/protobuf v1.33.0
)

require (
	github.com/golang/protobuf v1.5.3 // indirect
	github.com/kr/pretty v0.3.1 // indirect
	github.com/kr/text v0.2.0 // indirect
	github.com/rogpeppe/go-internal v1.9.0 // indirect
	golang.org/x/net v0.23.0 // indirect
	golang.org/x/sys v0.18.0 // indirect
	golang.org/x/text v0.14.0 // indirect
	google.golang.org/genproto v0.0.0-20230410155749-daa745c078e1 // indirect
)

replace github.com/cockroachdb/errors => /repo
