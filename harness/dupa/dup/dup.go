// Package dup (first of two packages with the same name at different import paths).
package dup

// Err is an error type whose short name (*dup.Err) is shared with verifharness/dupb/dup.
type Err struct{ Msg string }

func (e *Err) Error() string { return e.Msg }
