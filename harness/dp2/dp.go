// Package dp2 is one level of the non-inlinable call chain used to test
// call-depth attribution (a package of its own so that package domains differ).
package dp2

import (
	"github.com/cockroachdb/errors"
	"github.com/cockroachdb/errors/domains"
)

// Call calls f.
//
//go:noinline
func Call(f func() interface{}) interface{} { r := f(); return r }

// domain functions called directly from this package
//
//go:noinline
func PkgDomain() string { return string(domains.PackageDomain()) }

//go:noinline
func NewDomain() string { return string(domains.GetDomain(domains.New("m"))) }

//go:noinline
func HandledDomain(err error) string { return string(domains.GetDomain(domains.Handled(err))) }

//go:noinline
func RootPkgDomain() string { return string(errors.PackageDomain()) }

//go:noinline
func AtDepth0() string { return string(errors.PackageDomainAtDepth(0)) }

// Handled hides err behind a barrier in this package's domain.
//
//go:noinline
func Handled(err error) error { return domains.Handled(err) }
