// Package dp2 is one level of the non-inlinable call chain used to test
// call-depth attribution (a package of its own so that package domains differ).
package dp2

// Call calls f.
//
//go:noinline
func Call(f func() interface{}) interface{} { r := f(); return r }
