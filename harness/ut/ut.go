// Package ut holds the user-defined error types of the verification harness:
// types the library has never heard of (no encoder, no decoder), covering the
// ways a Go error type can differ in what it exposes.
package ut

import pkgerrors "github.com/pkg/errors"

// Plain is a pointer-typed leaf with nothing but a message.
type Plain struct{ Msg string }

func (e *Plain) Error() string { return e.Msg }

// Val is a comparable value-typed leaf.
type Val struct {
	Msg string
	Tag int
}

func (e Val) Error() string { return e.Msg }

// NoCmp is a value-typed leaf that is not comparable.
type NoCmp struct {
	Msg  string
	Junk []int
}

func (e NoCmp) Error() string { return e.Msg }

// IsTag has an Is method comparing tags.
type IsTag struct {
	Msg string
	Tag int
}

func (e *IsTag) Error() string { return e.Msg }
func (e *IsTag) Is(target error) bool {
	t, ok := target.(*IsTag)
	return ok && t.Tag == e.Tag
}

// SafeDet implements SafeDetails.
type SafeDet struct {
	Msg     string
	Details []string
}

func (e *SafeDet) Error() string         { return e.Msg }
func (e *SafeDet) SafeDetails() []string { return e.Details }

// SafeMsg implements redact.SafeMessager.
type SafeMsg struct{ Msg string }

func (e *SafeMsg) Error() string       { return e.Msg }
func (e *SafeMsg) SafeMessage() string { return e.Msg }

// Hinter implements ErrorHint / ErrorDetail.
type Hinter struct {
	Msg, Hint, Detail string
}

func (e *Hinter) Error() string       { return e.Msg }
func (e *Hinter) ErrorHint() string   { return e.Hint }
func (e *Hinter) ErrorDetail() string { return e.Detail }

// WUnwrap is a prefix-style wrapper with Unwrap only.
type WUnwrap struct {
	Msg string
	Err error
}

func (e *WUnwrap) Error() string { return e.Msg + ": " + e.Err.Error() }
func (e *WUnwrap) Unwrap() error { return e.Err }

// WCause is a prefix-style wrapper with Cause only.
type WCause struct {
	Msg string
	Err error
}

func (e *WCause) Error() string { return e.Msg + ": " + e.Err.Error() }
func (e *WCause) Cause() error  { return e.Err }

// WBoth has both.
type WBoth struct {
	Msg string
	Err error
}

func (e *WBoth) Error() string { return e.Msg + ": " + e.Err.Error() }
func (e *WBoth) Cause() error  { return e.Err }
func (e *WBoth) Unwrap() error { return e.Err }

// WFull replaces the message of its cause.
type WFull struct {
	Msg string
	Err error
}

func (e *WFull) Error() string { return e.Msg }
func (e *WFull) Unwrap() error { return e.Err }

// WEmpty adds nothing to the message.
type WEmpty struct{ Err error }

func (e *WEmpty) Error() string { return e.Err.Error() }
func (e *WEmpty) Unwrap() error { return e.Err }

// WSafeDet is a prefix-style wrapper with SafeDetails.
type WSafeDet struct {
	Msg     string
	Details []string
	Err     error
}

func (e *WSafeDet) Error() string         { return e.Msg + ": " + e.Err.Error() }
func (e *WSafeDet) Unwrap() error         { return e.Err }
func (e *WSafeDet) SafeDetails() []string { return e.Details }

// WAs is a prefix-style wrapper with Unwrap and an As method that fills a
// *Val target with its own value (Val is not the type of any layer here).
type WAs struct {
	Msg string
	Err error
}

func (e *WAs) Error() string { return e.Msg + ": " + e.Err.Error() }
func (e *WAs) Unwrap() error { return e.Err }
func (e *WAs) As(target interface{}) bool {
	if p, ok := target.(*Val); ok {
		*p = Val{Msg: e.Msg, Tag: 503}
		return true
	}
	return false
}

// Addr is a net.Addr.
type Addr string

func (a Addr) Network() string { return "tcp" }
func (a Addr) String() string  { return string(a) }

// WNoCmp is a prefix-style wrapper with Unwrap; a value type that is not
// comparable (it holds a slice).
type WNoCmp struct {
	Msg  string
	Err  error
	Junk []int
}

func (e WNoCmp) Error() string { return e.Msg + ": " + e.Err.Error() }
func (e WNoCmp) Unwrap() error { return e.Err }

// MCause is a multi-cause error (Unwrap() []error) that ALSO designates its first member as
// its cause through Cause(), as older multi-error types do.
type MCause struct {
	Msg  string
	Errs []error
}

func (e *MCause) Error() string   { return e.Msg }
func (e *MCause) Unwrap() []error { return e.Errs }
func (e *MCause) Cause() error {
	if len(e.Errs) == 0 {
		return nil
	}
	return e.Errs[0]
}

// NilOK is an error type whose nil pointer is a usable value: `var ErrX error = (*NilOK)(nil)`
// is a sentinel some code bases declare this way.
type NilOK struct{ Msg string }

func (e *NilOK) Error() string {
	if e == nil {
		return "nil sentinel"
	}
	return e.Msg
}

// Tracer is a leaf of a third-party kind that carries a stack trace in the pkg/errors
// format (any error with a StackTrace() method is a stack-bearing layer for the library).
type Tracer struct {
	Msg string
	St  pkgerrors.StackTrace
}

func (e *Tracer) Error() string                    { return e.Msg }
func (e *Tracer) StackTrace() pkgerrors.StackTrace { return e.St }

// NewTracer captures the stack of its caller.
func NewTracer(msg string) *Tracer {
	st := pkgerrors.New("x").(interface{ StackTrace() pkgerrors.StackTrace }).StackTrace()
	return &Tracer{Msg: msg, St: st[1:]}
}
