(* Generic driver around the extracted model: reads one S-expression per line,
   applies Runner.run_case, prints one S-expression per line.  Knows nothing
   about errors or properties. *)
type sexp = Runner.sexp = A of Runner.n list | L of sexp list
type n = Runner.n
let run_case = Runner.run_case2

let rec pos_of_int i =
  if i = 1 then Runner.XH
  else if i land 1 = 0 then Runner.XO (pos_of_int (i lsr 1))
  else Runner.XI (pos_of_int (i lsr 1))
let n_of_int i = if i = 0 then Runner.N0 else Runner.Npos (pos_of_int i)
let rec int_of_pos = function
  | Runner.XH -> 1 | Runner.XO p -> 2 * int_of_pos p | Runner.XI p -> 2 * int_of_pos p + 1
let int_of_n = function Runner.N0 -> 0 | Runner.Npos p -> int_of_pos p

let byte_tab = Array.init 256 n_of_int

let str_of_string (s : string) : n list =
  let r = ref [] in
  for i = String.length s - 1 downto 0 do
    r := byte_tab.(Char.code s.[i]) :: !r
  done; !r

let buf_add_str (b : Buffer.t) (l : n list) =
  List.iter (fun x -> Buffer.add_char b (Char.chr ((int_of_n x) land 255))) l

(* ---- reader ---- *)
exception Parse_error of string

let parse_line (s : string) : sexp =
  let len = String.length s in
  let pos = ref 0 in
  let peek () = if !pos < len then Some s.[!pos] else None in
  let rec skip () = match peek () with
    | Some (' ' | '\t' | '\r' | '\n') -> incr pos; skip ()
    | _ -> () in
  let hexval c = match c with
    | '0'..'9' -> Char.code c - 48
    | 'a'..'f' -> Char.code c - 87
    | 'A'..'F' -> Char.code c - 55
    | _ -> raise (Parse_error "hex") in
  let rec parse () : sexp =
    skip ();
    match peek () with
    | None -> raise (Parse_error "eof")
    | Some '(' ->
      incr pos;
      let items = ref [] in
      let rec loop () =
        skip ();
        match peek () with
        | Some ')' -> incr pos
        | None -> raise (Parse_error "unclosed")
        | _ -> items := parse () :: !items; loop () in
      loop ();
      L (List.rev !items)
    | Some ')' -> raise (Parse_error "unexpected )")
    | Some '"' ->
      incr pos;
      let b = Buffer.create 16 in
      let rec loop () =
        if !pos >= len then raise (Parse_error "unclosed string");
        let c = s.[!pos] in
        incr pos;
        if c = '"' then ()
        else if c = '\\' then begin
          if !pos >= len then raise (Parse_error "escape");
          let d = s.[!pos] in
          incr pos;
          (match d with
           | 'n' -> Buffer.add_char b '\n'
           | 't' -> Buffer.add_char b '\t'
           | '\\' -> Buffer.add_char b '\\'
           | '"' -> Buffer.add_char b '"'
           | 'x' ->
             if !pos + 1 >= len then raise (Parse_error "hex escape");
             let v = hexval s.[!pos] * 16 + hexval s.[!pos + 1] in
             pos := !pos + 2;
             Buffer.add_char b (Char.chr v)
           | _ -> raise (Parse_error "bad escape"));
          loop ()
        end else begin Buffer.add_char b c; loop () end in
      loop ();
      A (str_of_string (Buffer.contents b))
    | Some _ ->
      let start = !pos in
      let rec loop () = match peek () with
        | Some (' ' | '\t' | '\r' | '\n' | '(' | ')' | '"') | None -> ()
        | _ -> incr pos; loop () in
      loop ();
      A (str_of_string (String.sub s start (!pos - start))) in
  parse ()

(* ---- printer (canonical; the Go harness prints the same way) ---- *)
let bare_ok c =
  (c >= 'A' && c <= 'Z') || (c >= 'a' && c <= 'z') || (c >= '0' && c <= '9')
  || c = '_' || c = '.' || c = '+' || c = '-' || c = '/' || c = '*' || c = ':'

let print_atom (b : Buffer.t) (l : n list) =
  let tmp = Buffer.create 32 in
  buf_add_str tmp l;
  let s = Buffer.contents tmp in
  let bare = String.length s > 0 && (let ok = ref true in String.iter (fun c -> if not (bare_ok c) then ok := false) s; !ok) in
  if bare then Buffer.add_string b s
  else begin
    Buffer.add_char b '"';
    String.iter (fun c ->
        if c = '"' then Buffer.add_string b "\\\""
        else if c = '\\' then Buffer.add_string b "\\\\"
        else if c = '\n' then Buffer.add_string b "\\n"
        else if Char.code c >= 0x20 && Char.code c <= 0x7e then Buffer.add_char b c
        else Buffer.add_string b (Printf.sprintf "\\x%02x" (Char.code c))) s;
    Buffer.add_char b '"'
  end

let rec print_sexp (b : Buffer.t) (x : sexp) =
  match x with
  | A l -> print_atom b l
  | L items ->
    Buffer.add_char b '(';
    List.iteri (fun i y -> if i > 0 then Buffer.add_char b ' '; print_sexp b y) items;
    Buffer.add_char b ')'

let () =
  let ic = if Array.length Sys.argv > 1 then open_in Sys.argv.(1) else stdin in
  let oc = if Array.length Sys.argv > 2 then open_out Sys.argv.(2) else stdout in
  (try
     while true do
       let line = input_line ic in
       if String.length line > 0 then begin
         let out = Buffer.create 1024 in
         (try
            let x = parse_line line in
            print_sexp out (run_case x)
          with
          | Parse_error m -> Buffer.add_string out ("(result (bad parse-" ^ m ^ "))")
          | Stack_overflow -> Buffer.add_string out "(result (bad stack-overflow))");
         output_string oc (Buffer.contents out);
         output_char oc '\n'
       end
     done
   with End_of_file -> ());
  close_out oc
