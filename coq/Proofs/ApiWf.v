(* C06 from the INPUT of the public API: errors built by [build env r s] from a
   recipe whose strings are (almost) arbitrary bytes have well-formed
   redactable renderings.  See the summary at the end of the file. *)
From Errv Require Import Base.Str Redact.Markers Redact.Buffer Model.Err Model.Sem Model.Details
     Model.Codec Model.Build
     Proofs.StrFacts Proofs.RedactFacts Proofs.RedactWf Proofs.FastIs Proofs.EngineFacts
     Proofs.HiddenNI Proofs.ShortText Proofs.VerboseLayout Proofs.SpecText Proofs.EngineWf.
From Coq Require Import Lia.

Notation rok := RedactWf.raw_ok.

(* ================================================================== *)
(* 1. tidy strings                                                     *)
(* ================================================================== *)
(* A byte 226 (E2), or the two bytes 226 128 (E2 80), i.e. a proper prefix of a
   marker rune, must be followed by a byte that is neither a newline, nor a
   colon, nor another 226; in particular such a prefix may not end the string. *)
Definition tstep (s : option pk) (x : N) : option pk :=
  match s with
  | None => None
  | Some K0 => if x =? 226 then Some K1 else Some K0
  | Some K1 => if (x =? 226) || (x =? nl) || (x =? colon) then None
               else if x =? 128 then Some K2 else Some K0
  | Some K2 => if (x =? 226) || (x =? nl) || (x =? colon) then None else Some K0
  end.

Definition trun (s : str) (st : option pk) : option pk := fold_left tstep s st.
Definition tidy (s : str) : Prop := trun s (Some K0) = Some K0.
Definition tidyb (s : str) : bool :=
  match trun s (Some K0) with Some K0 => true | _ => false end.

Lemma tidyb_tidy s : tidyb s = true <-> tidy s.
Proof.
  unfold tidyb, tidy. destruct (trun s (Some K0)) as [[| |]|]; split; intro H; try reflexivity; discriminate.
Qed.

Lemma trun_app a b st : trun (a ++ b) st = trun b (trun a st).
Proof. unfold trun. apply fold_left_app. Qed.
Lemma trun_cons x s st : trun (x :: s) st = trun s (tstep st x).
Proof. reflexivity. Qed.
Lemma trun_None s : trun s None = None.
Proof. induction s as [|x s IH]; [reflexivity|exact IH]. Qed.

Lemma tidy_nil : tidy [].
Proof. reflexivity. Qed.
Lemma tidy_app a b : tidy a -> tidy b -> tidy (a ++ b).
Proof. unfold tidy. intros Ha Hb. now rewrite trun_app, Ha. Qed.

Lemma no_e2_tidy s : no_e2 s = true -> tidy s.
Proof.
  unfold tidy. induction s as [|x s IH]; [reflexivity|]. cbn [no_e2 forallb]. intro H.
  apply andb_true_iff in H as [Hx Hs]. apply negb_true_iff in Hx.
  rewrite trun_cons. cbn [tstep]. rewrite Hx. now apply IH.
Qed.

Lemma tidy_ascii s : ascii s = true -> tidy s.
Proof. intro H. now apply no_e2_tidy, ascii_no_e2. Qed.

(* cutting at a newline or at a colon *)
Lemma tidy_cut x a b : x = nl \/ x = colon -> tidy (a ++ x :: b) -> tidy a /\ tidy b.
Proof.
  unfold tidy. intros Hx H. rewrite trun_app, trun_cons in H.
  destruct (trun a (Some K0)) as [[| |]|]; cbn [tstep] in H.
  - split; [reflexivity|]. destruct Hx as [-> | ->]; exact H.
  - destruct Hx as [-> | ->]; cbn in H; rewrite trun_None in H; discriminate.
  - destruct Hx as [-> | ->]; cbn in H; rewrite trun_None in H; discriminate.
  - rewrite trun_None in H. discriminate.
Qed.

(* removing a marker at the end *)
Lemma tidy_unmark w m : m = m_start \/ m = m_end -> tidy (w ++ m) -> tidy w.
Proof.
  unfold tidy. intros Hm H. rewrite trun_app in H.
  destruct (trun w (Some K0)) as [[| |]|]; [reflexivity| | |];
    destruct Hm as [-> | ->]; cbn in H; discriminate.
Qed.

Lemma tidy_m_start : tidy m_start. Proof. reflexivity. Qed.
Lemma tidy_m_end : tidy m_end. Proof. reflexivity. Qed.

Lemma tidy_join sep l : tidy sep -> Forall tidy l -> tidy (join sep l).
Proof.
  intros Hs H. induction H as [|x l Hx Hl IH]; [exact tidy_nil|].
  destruct l as [|y l]; [exact Hx|].
  change (join sep (x :: y :: l)) with (x ++ sep ++ join sep (y :: l)).
  apply tidy_app; [exact Hx|apply tidy_app; [exact Hs|exact IH]].
Qed.

(* ---- the automaton of RedactWf never gets "dirty" on a tidy string ---- *)
Lemma run_trun s : forall o k,
  match trun s (Some k), run true s (Some (o, k, false)) with
  | Some k', Some (o', k2, d') => k2 = k' /\ d' = false
  | _, _ => True
  end.
Proof.
  induction s as [|x s IH]; intros o k; [cbn; now split|].
  rewrite trun_cons, run_cons.
  assert (D : forall r : option ast, match trun s None, r with
                                     | Some k', Some (o', k2, d') => k2 = k' /\ d' = false
                                     | _, _ => True end).
  { intro r. now rewrite trun_None. }
  assert (D2 : forall t : option pk, match t, run true s None with
                                     | Some k', Some (o', k2, d') => k2 = k' /\ d' = false
                                     | _, _ => True end).
  { intro t. rewrite run_None. now destruct t. }
  destruct k; cbn [tstep step].
  - destruct (x =? 226); [apply IH|]. destruct ((x =? nl) && o); [apply D2|apply IH].
  - destruct (x =? 226); [apply D|]. cbn [orb].
    destruct (x =? 128) eqn:E128.
    + apply N.eqb_eq in E128. subst x. cbn. apply IH.
    + destruct (x =? nl); cbn [orb andb]; [apply D|].
      destruct (x =? colon); [apply D|apply IH].
  - destruct (x =? 226); [apply D|]. cbn [orb].
    destruct (x =? 185) eqn:E185.
    { apply N.eqb_eq in E185. subst x. cbn. destruct o; cbn; [apply D2|apply IH]. }
    destruct (x =? 186) eqn:E186.
    { apply N.eqb_eq in E186. subst x. cbn. destruct o; cbn; [apply IH|apply D2]. }
    destruct (x =? nl); cbn [orb andb]; [apply D|].
    destruct (x =? colon); [apply D|apply IH].
Qed.

Lemma rok_cut a b : rok (a ++ nl :: b) -> tidy (a ++ nl :: b) -> rok a /\ rok b.
Proof.
  intros Hr Ht. destruct (tidy_cut nl a b (or_introl eq_refl) Ht) as [Ta Tb].
  unfold RedactWf.raw_ok, sst in *. rewrite run_app, run_cons in Hr.
  pose proof (run_trun a false K0) as P. rewrite Ta in P.
  change (Some (false, K0, false)) with (Some st0) in P.
  destruct (run true a (Some st0)) as [[[o k] d]|]; [|rewrite run_None in Hr; discriminate].
  destruct P as [-> ->]. cbn [step] in Hr. change (nl =? 226) with false in Hr. cbv iota in Hr.
  destruct o; cbn in Hr; [rewrite run_None in Hr; discriminate|]. now split.
Qed.

Lemma rok_app a b : rok a -> rok b -> rok (a ++ b).
Proof. unfold RedactWf.raw_ok, sst. intros Ha Hb. now rewrite run_app, Ha. Qed.

Lemma rok_ascii s : ascii s = true -> rok s.
Proof.
  unfold RedactWf.raw_ok, sst. induction s as [|x s IH]; [reflexivity|].
  cbn [ascii forallb]. intro H. apply andb_true_iff in H as [Hx Hs]. apply N.ltb_lt in Hx.
  rewrite run_cons. cbn [step st0].
  assert (E : (x =? 226) = false) by (apply N.eqb_neq; lia). rewrite E.
  rewrite andb_false_r. now apply IH.
Qed.

(* tidy, and (when [r]) a valid raw piece *)
Definition Qs (r : bool) (s : str) : Prop := tidy s /\ (r = true -> rok s).

Lemma Qs_nil r : Qs r [].
Proof. split; [exact tidy_nil|intros _; exact raw_ok_nil]. Qed.
Lemma Qs_app r a b : Qs r a -> Qs r b -> Qs r (a ++ b).
Proof. intros [A1 A2] [B1 B2]. split; [now apply tidy_app|]. intro E. apply rok_app; auto. Qed.
Lemma Qs_cut r a b : Qs r (a ++ nl :: b) -> Qs r a /\ Qs r b.
Proof.
  intros [H1 H2]. destruct (tidy_cut nl a b (or_introl eq_refl) H1) as [Ta Tb].
  split; (split; [assumption|]); intro E; destruct (rok_cut a b (H2 E) H1); assumption.
Qed.
Lemma Qs_weak r s : Qs true s -> Qs r s.
Proof. intros [H1 H2]. split; [exact H1|]. intros _. now apply H2. Qed.
Lemma Qs_ascii r s : ascii s = true -> Qs r s.
Proof. intro H. split; [now apply tidy_ascii|]. intros _. now apply rok_ascii. Qed.
Lemma Qs_false s : tidy s -> Qs false s.
Proof. intro H. split; [exact H|discriminate]. Qed.

(* ================================================================== *)
(* 2. the redact printer keeps strings tidy                            *)
(* ================================================================== *)
Definition rt (acc : str) : option pk := trun (rev acc) (Some K0).

Lemma rt_cons x acc : rt (x :: acc) = tstep (rt acc) x.
Proof. unfold rt. cbn [rev]. now rewrite trun_app. Qed.
Lemma rt_app l acc : rt (l ++ acc) = trun (rev l) (rt acc).
Proof. unfold rt. now rewrite rev_app_distr, trun_app. Qed.

Lemma skip_nls_t s : forall acc rest acc2,
  skip_nls s acc = (rest, acc2) -> rt acc = Some K0 -> trun s (Some K0) = Some K0 ->
  rt acc2 = Some K0 /\ trun rest (Some K0) = Some K0 /\ (List.length rest <= List.length s)%nat.
Proof.
  induction s as [|c r IH]; intros acc rest acc2 E Ha Hs.
  - cbn in E. injection E as <- <-. repeat split; auto.
  - cbn [skip_nls] in E. destruct (c =? nl) eqn:Ec.
    + apply N.eqb_eq in Ec. subst c.
      destruct (IH (nl :: acc) rest acc2 E) as (A & B & C).
      * rewrite rt_cons, Ha. reflexivity.
      * exact Hs.
      * repeat split; try assumption. cbn [List.length]. lia.
    + injection E as <- <-. repeat split; auto.
Qed.

Lemma eloop_t brk : forall fuel s acc k,
  (List.length s <= fuel)%nat -> rt acc = Some k -> trun s (Some k) = Some K0 ->
  rt (escape_loop fuel s acc brk) = Some K0.
Proof.
  induction fuel as [|fuel IH]; intros s acc k Hl Ha Hs.
  - destruct s; [|cbn in Hl; lia]. cbn in Hs. cbn [escape_loop]. congruence.
  - destruct s as [|a t]; [cbn in Hs; cbn [escape_loop]; congruence|].
    cbn [List.length] in Hl. cbn [escape_loop].
    destruct (brk && (a =? nl)) eqn:Eb.
    + apply andb_true_iff in Eb as [_ Ea]. apply N.eqb_eq in Ea. subst a.
      assert (Hk : k = K0 /\ trun t (Some K0) = Some K0).
      { rewrite trun_cons in Hs. destruct k; cbn in Hs; [now split| |]; rewrite trun_None in Hs; discriminate. }
      destruct Hk as [-> Ht].
      set (acc1 := match drop_prefix rstart acc with Some acc' => acc' | None => rend ++ acc end).
      assert (H1 : rt acc1 = Some K0).
      { subst acc1. destruct (drop_prefix rstart acc) as [acc'|] eqn:Ed.
        - apply drop_prefix_Some in Ed. subst acc. rewrite rt_app in Ha.
          change (rev rstart) with m_start in Ha.
          destruct (rt acc') as [[| |]|]; cbn in Ha; try discriminate; reflexivity.
        - rewrite rt_app, Ha. reflexivity. }
      clearbody acc1.
      destruct (skip_nls (nl :: t) acc1) as [rest acc2] eqn:Es.
      cbn [skip_nls] in Es. rewrite N.eqb_refl in Es.
      destruct (skip_nls_t t (nl :: acc1) rest acc2 Es) as (A & B & C).
      * rewrite rt_cons, H1. reflexivity.
      * exact Ht.
      * apply (IH _ _ K0); [lia| |exact B]. rewrite rt_app, A. reflexivity.
    + assert (Hcopy : rt (escape_loop fuel t (a :: acc) brk) = Some K0).
      { rewrite trun_cons in Hs.
        destruct (tstep (Some k) a) as [k'|] eqn:Et; [|rewrite trun_None in Hs; discriminate].
        apply (IH _ _ k'); [lia| |exact Hs]. rewrite rt_cons, Ha. exact Et. }
      destruct t as [|b [|c r]]; try exact Hcopy.
      destruct ((a =? 226) && (b =? 128) && ((c =? 185) || (c =? 186))) eqn:Em; [|exact Hcopy].
      apply andb_true_iff in Em as [Em Ec]. apply andb_true_iff in Em as [Ea Eb'].
      apply N.eqb_eq in Ea, Eb'. subst a b.
      assert (Hr : k = K0 /\ trun r (Some K0) = Some K0).
      { rewrite !trun_cons in Hs.
        destruct k; cbn [tstep] in Hs; cbn in Hs; try (rewrite trun_None in Hs; discriminate).
        split; [reflexivity|].
        apply orb_true_iff in Ec as [Ec|Ec]; apply N.eqb_eq in Ec; subst c; exact Hs. }
      destruct Hr as [-> Hr]. cbn [List.length] in Hl.
      apply (IH _ _ K0); [lia| |exact Hr]. rewrite rt_cons, Ha. reflexivity.
Qed.

Lemma escape_from_tidy v p brk : tidy v -> tidy p -> tidy (escape_from v p brk).
Proof.
  intros Hv Hp. unfold escape_from. rewrite ?frev_eq.
  assert (H : rt (escape_loop (List.length p) p (rev v) brk) = Some K0).
  { apply (eloop_t brk _ _ _ K0); [lia| |exact Hp]. unfold rt. now rewrite rev_involutive. }
  destruct (last_rune_invalid_rev (rev p ++ rev v)).
  - change (rt (qmark :: escape_loop (List.length p) p (rev v) brk) = Some K0).
    rewrite rt_cons, H. reflexivity.
  - exact H.
Qed.

Lemma sr_tidy v : tidy v -> tidy (sr v).
Proof.
  intro H. unfold sr. destruct (drop_suffix m_end v) as [w|] eqn:E.
  - apply drop_suffix_Some in E. subst v. apply (tidy_unmark w m_end); [now right|exact H].
  - apply tidy_app; [exact H|exact tidy_m_start].
Qed.

Lemma er_tidy v : tidy v -> tidy (er v).
Proof.
  intro H. unfold er. destruct (drop_suffix m_start v) as [w|] eqn:E.
  - apply drop_suffix_Some in E. subst v. apply (tidy_unmark w m_start); [now left|exact H].
  - apply tidy_app; [exact H|exact tidy_m_end].
Qed.

Definition TBuf (b : rbuf) : Prop := tidy (bvalid b) /\ tidy (bpend b).
Definition tidyp (p : piece) : Prop :=
  match p with PLit s | PUnsafe s | PSafe s | PRaw s => tidy s end.

Lemma print_piece_T b p : Inv true b -> TBuf b -> tidyp p -> TBuf (print_piece b p).
Proof.
  intros HI [Hv Hp] Ht. destruct p as [s|s|s|s]; cbn [tidyp] in Ht.
  - rewrite (print_lit_eq true b s HI). split; cbn [bvalid bpend]; [exact Hv|now apply tidy_app].
  - rewrite (print_unsafe_eq b s HI). split; cbn [bvalid bpend]; [|exact tidy_nil].
    unfold unsafe_result. apply er_tidy, escape_from_tidy; [|exact Ht].
    apply sr_tidy, escape_from_tidy; assumption.
  - rewrite (print_safe_eq true b s HI). split; cbn [bvalid bpend]; [exact Hv|now apply tidy_app].
  - rewrite (print_raw_eq true b s HI). split; cbn [bvalid bpend]; [|exact tidy_nil].
    apply tidy_app; [now apply escape_from_tidy|exact Ht].
Qed.

Lemma print_pieces_T ps : forall b, Inv true b -> TBuf b ->
  Forall (piece_ok true) ps -> Forall tidyp ps ->
  Inv true (fold_left print_piece ps b) /\ TBuf (fold_left print_piece ps b).
Proof.
  induction ps as [|p ps IH]; intros b HI HT Hok Ht; [now split|].
  inversion Hok; subst. inversion Ht; subst. cbn [fold_left].
  apply IH; try assumption; [now apply print_piece_inv|now apply print_piece_T].
Qed.

Theorem sprint_tidy ps : pieces_ok ps -> Forall tidyp ps -> tidy (sprint_pieces ps).
Proof.
  intros Hok Ht. unfold sprint_pieces, print_pieces.
  assert (H0 : Inv true (set_mode buf_empty SafeEscaped)) by (repeat split).
  assert (T0 : TBuf (set_mode buf_empty SafeEscaped)) by (split; reflexivity).
  destruct (print_pieces_T ps _ H0 T0 (pieces_ok_piece_ok _ Hok) Ht) as [HI [Hv Hp]].
  rewrite (take_eq true _ HI). now apply escape_from_tidy.
Qed.

Theorem sprint_Qs ps : pieces_ok ps -> Forall tidyp ps -> Qs true (sprint_pieces ps).
Proof. intros H1 H2. split; [now apply sprint_tidy|]. intros _. now apply sprint_raw_ok. Qed.

Lemma escape_bytes_Qs s : tidy s -> Qs true (escape_bytes s).
Proof.
  intro H. split.
  - unfold escape_bytes. apply tidy_app; [|exact tidy_m_end].
    apply escape_from_tidy; [exact tidy_m_start|exact H].
  - intros _. unfold RedactWf.raw_ok, escape_bytes.
    pose proof (escape_from_inv true true m_start s (fun _ => eq_refl) eq_refl) as E.
    unfold sst in *. rewrite run_app, E. reflexivity.
Qed.

(* ---- StripMarkers ---- *)
Lemma strip_tidy_aux s :
  (trun s (Some K0) = Some K0 -> tidy (strip_markers s)) /\
  (trun s (Some K1) = Some K0 -> tidy (strip_markers (226 :: s))) /\
  (trun s (Some K2) = Some K0 -> tidy (strip_markers (226 :: 128 :: s))).
Proof.
  induction s as [|x s [I0 [I1 I2]]].
  - split; [intros _; reflexivity|split; intro H; discriminate H].
  - assert (C : forall y t, (y =? 226) = false -> strip_markers (y :: t) = y :: strip_markers t).
    { intros y t Hy. unfold strip_markers. now rewrite tokenize_cons_plain by exact Hy. }
    repeat split; intro H; rewrite trun_cons in H; cbn [tstep] in H.
    + destruct (x =? 226) eqn:E226.
      * apply N.eqb_eq in E226. subst x. now apply I1.
      * rewrite C by exact E226. unfold tidy. rewrite trun_cons. cbn [tstep]. rewrite E226. now apply I0.
    + destruct (x =? 226) eqn:E226; [cbn in H; rewrite trun_None in H; discriminate|]. cbn [orb] in H.
      destruct (x =? 128) eqn:E128.
      * apply N.eqb_eq in E128. subst x. cbn in H. now apply I2.
      * destruct ((x =? nl) || (x =? colon)) eqn:En; [rewrite trun_None in H; discriminate|].
        unfold strip_markers. rewrite tok_226_other by exact E128.
        rewrite tokenize_cons_plain by exact E226.
        change (tidy (226 :: x :: strip_markers s)).
        unfold tidy. rewrite !trun_cons. change (tstep (Some K0) 226) with (Some K1). cbn [tstep].
        rewrite E226. cbn [orb]. rewrite En, E128. now apply I0.
    + destruct (x =? 226) eqn:E226; [cbn in H; rewrite trun_None in H; discriminate|]. cbn [orb] in H.
      destruct (x =? 185) eqn:E185.
      { apply N.eqb_eq in E185. subst x. cbn in H.
        change (strip_markers (226 :: 128 :: 185 :: s)) with (strip_markers (m_start ++ s)).
        rewrite strip_start. now apply I0. }
      destruct (x =? 186) eqn:E186.
      { apply N.eqb_eq in E186. subst x. cbn in H.
        change (strip_markers (226 :: 128 :: 186 :: s)) with (strip_markers (m_end ++ s)).
        rewrite strip_end. now apply I0. }
      destruct ((x =? nl) || (x =? colon)) eqn:En; [rewrite trun_None in H; discriminate|].
      unfold strip_markers. rewrite tok_226_128_other by assumption.
      rewrite tokenize_cons_plain by exact E226.
      change (tidy (226 :: 128 :: x :: strip_markers s)).
      unfold tidy. rewrite !trun_cons. change (tstep (tstep (Some K0) 226) 128) with (Some K2). cbn [tstep].
      rewrite E226. cbn [orb]. rewrite En. now apply I0.
Qed.

Lemma strip_tidy s : tidy s -> tidy (strip_markers s).
Proof. exact (proj1 (strip_tidy_aux s)). Qed.

(* ================================================================== *)
(* 3. the engine in short mode (%v / %s)                               *)
(* ================================================================== *)
Lemma wl_Q r b : forall st chunk,
  fs_wantDetail st = false -> Qs r (fs_buf st) -> Qs r (rev chunk ++ b) ->
  Qs r (fs_buf (write_loop b st chunk)).
Proof.
  induction b as [|c t IH]; intros st chunk Hwd Hb Hc.
  - cbn [write_loop set_buf fs_buf]. rewrite app_nil_r in Hc. now apply Qs_app.
  - cbn [write_loop]. destruct (c =? nl) eqn:Ec.
    + apply N.eqb_eq in Ec. subst c. destruct (Qs_cut _ _ _ Hc) as [C1 C2].
      destruct st as [ro pl es bf hb ls hd wdt ne nn]. fsimpl. subst wdt.
      apply IH; fsimpl; [reflexivity|now apply Qs_app|exact C2].
    + destruct st as [ro pl es bf hb ls hd wdt ne nn]. fsimpl. subst wdt.
      apply IH.
      * match goal with |- context [if ?x then _ else _] => destruct x end; reflexivity.
      * match goal with |- context [if ?x then _ else _] => destruct x end; fsimpl; [|exact Hb].
        apply Qs_app; [exact Hb|apply Qs_ascii; reflexivity].
      * cbn [rev]. rewrite <- app_assoc. exact Hc.
Qed.

Lemma st_write_Q r st w :
  fs_wantDetail st = false -> Qs r (fs_buf st) -> Qs r w -> Qs r (fs_buf (st_write st w)).
Proof.
  intros Hwd Hb Hw. destruct w as [|c t]; [exact Hb|]. unfold st_write. now apply wl_Q.
Qed.

(* a fresh node state, and what the own part of a node makes of it *)
Definition SQ0 (st : fstate) : Prop :=
  fs_wantDetail st = false /\ fs_headbuf st = [] /\ fs_buf st = [] /\ fs_plus st = false.

Definition SQ (r : bool) (st0 st : fstate) : Prop :=
  cfg st = cfg st0 /\ fs_wantDetail st = false /\ fs_headbuf st = [] /\ Qs r (fs_buf st).

Lemma SQ_init r st : SQ0 st -> SQ r st st.
Proof. intros (A & B & C & D). repeat split; try assumption; rewrite C; [exact tidy_nil|intros _; exact raw_ok_nil]. Qed.

Lemma SQ_weak r st0 st : SQ true st0 st -> SQ r st0 st.
Proof. intros (A & B & C & D). repeat split; try assumption; [apply D|intros _; now apply D]. Qed.

Lemma st_write_SQ r st0 st w : SQ r st0 st -> Qs r w -> SQ r st0 (st_write st w).
Proof.
  intros (A & B & C & D) Hw. split; [now rewrite st_write_cfg|].
  split; [now rewrite st_write_wd|]. split; [now rewrite st_write_hb|]. now apply st_write_Q.
Qed.

Lemma sp_print_SQ st0 st ps :
  SQ true st0 st -> pieces_ok ps -> Forall tidyp ps -> SQ true st0 (sp_print st ps).
Proof. intros H H1 H2. unfold sp_print. apply st_write_SQ; [exact H|now apply sprint_Qs]. Qed.

Ltac pok := repeat first [ exact I | assumption | apply Forall_cons | apply Forall_nil
                         | progress cbn [tidyp] | reflexivity ].

Lemma format_simple_T st text ct :
  SQ0 st -> tidy text -> SQ false st (fst (format_simple st text ct)).
Proof.
  intros H0 Ht. unfold format_simple. destruct ct as [cm|].
  - destruct (extract_prefix text cm) as [pref mt] eqn:E. cbn [fst].
    apply st_write_SQ; [now apply SQ_init|]. apply Qs_false.
    apply extract_prefix_spec in E. destruct E as [[_ ->]|[(_ & -> & _)|(_ & _ & E)]].
    + exact Ht.
    + exact tidy_nil.
    + rewrite E in Ht. change (pref ++ colon_sp ++ cm) with (pref ++ colon :: (sp :: cm)) in Ht.
      exact (proj1 (tidy_cut colon _ _ (or_intror eq_refl) Ht)).
  - cbn [fst]. apply st_write_SQ; [now apply SQ_init|now apply Qs_false].
Qed.

(* ---- the strings a node prints outside p.Detail() ---- *)
Definition hdl (k : leafk) : Prop :=
  match k with
  | LErrString m | LPkgFund m _ | LOpaqueErrno m _ | LUnimpl m _ _ | LFmtWrapNil m
  | LUser _ m _ _ | LGrpcStatus _ m | LGogoStatus _ m => tidy m
  | LLeafError rm => Qs true rm
  | LDeadline | LErrno _ | LTestError => True
  end.

Definition hdw (w : wlayer) : Prop :=
  match w with
  | WPrefix rp | WNewMsg rp => Qs true rp
  | WFmtWrap m | WPkgMsg m | WSyscallError m | WUser _ m _ => tidy m
  | WPathError op path => tidy op /\ tidy path
  | WLinkError op old new => tidy op /\ tidy old /\ tidy new
  | WOpError op net src addr => tidy op /\ tidy net /\ tidy src /\ tidy addr
  | _ => True
  end.

Definition hd1 (e : err) : Prop :=
  match e with Leaf _ k => hdl k | Wrap _ w _ => hdw w | _ => True end.

Lemma default_body_T e text sent il hm ct st :
  SQ0 st -> tidy text -> hd1 e ->
  SQ (br_red (default_body e text sent il hm ct st)) st (br_st (default_body e text sent il hm ct st)).
Proof.
  intros H0 Ht He. unfold default_body.
  assert (HI : SQ true st st) by now apply SQ_init.
  destruct (il && sent); [cbn [br_red br_st]; apply sp_print_SQ; [exact HI|pok|pok]|].
  pose proof (format_simple_T st text ct H0 Ht) as HF.
  destruct (format_simple st text ct) as [st1 el]. cbn [fst] in HF.
  destruct e as [i k|i w c| | | | |]; try exact HF; cbn [hd1] in He.
  - destruct k as [| | | | | | | | | | |u m tg xs]; try exact HF.
    + cbn [br_red br_st]. apply sp_print_SQ; [exact HI|pok|pok].
    + destruct u; try exact HF. cbn [hdl] in He. cbn [br_red br_st]. apply sp_print_SQ; [exact HI|pok|pok].
  - destruct w; try exact HF; cbn [hdw] in He.
    + (* WPathError *) destruct He as [A B]. cbn [br_red br_st]. apply sp_print_SQ; [exact HI|pok|pok].
    + (* WLinkError *) destruct He as (A & B & C). cbn [br_red br_st]. apply sp_print_SQ; [exact HI|pok|pok].
    + (* WSyscallError *) cbn [br_red br_st]. apply sp_print_SQ; [exact HI|pok|pok].
    + (* WOpError *) destruct He as (A & B & C & D). cbv zeta. cbn [br_red br_st].
      assert (H1 : SQ true st (sp_print st [PSafe op])) by (apply sp_print_SQ; [exact HI|pok|pok]).
      assert (H2 : SQ true st (match net with [] => sp_print st [PSafe op]
                               | _ => sp_print (sp_print st [PSafe op]) [PLit [sp]; PSafe net] end)).
      { destruct net; [exact H1|]. apply sp_print_SQ; [exact H1|pok|pok]. }
      set (s2 := match net with [] => _ | _ => _ end) in *. clearbody s2.
      assert (H3 : SQ true st (match src with [] => s2 | _ => sp_print s2 [PLit [sp]; PUnsafe src] end)).
      { destruct src; [exact H2|]. apply sp_print_SQ; [exact H2|pok|pok]. }
      set (s3 := match src with [] => s2 | _ => _ end) in *.
      destruct addr; [exact H3|].
      apply sp_print_SQ; [|pok|pok].
      destruct src; [exact H3|]. apply sp_print_SQ; [exact H3|pok|pok].
Qed.

Lemma wrap_body_T w st : hdw w -> SQ0 st ->
  match wrap_body w st with
  | Some (st1, nn, red) => SQ red st st1
  | None => True
  end.
Proof.
  intros Hw H0. pose proof H0 as (Hwd & _).
  destruct w; cbn [wrap_body hdw] in *; try exact I;
    rewrite ?if_detail_short by exact Hwd; try (now apply SQ_init).
  - destruct Hw as [T R]. apply sp_print_SQ; [now apply SQ_init|constructor; [now apply R|constructor]|pok].
  - destruct Hw as [T R]. apply sp_print_SQ; [now apply SQ_init|constructor; [now apply R|constructor]|pok].
  - unfold st_detail. rewrite Hwd. cbn [negb andb]. now apply SQ_init.
Qed.

(* ---- entries ---- *)
Definition ET (e : fentry) : Prop := Qs (fe_red e) (fe_head e).

Definition PreT (st : fstate) : Prop :=
  fs_buf st = [] /\ fs_plus st = false /\ Forall ET (fs_entries st).

Definition NodeT (ns : nsem) : Prop :=
  forall o wdp depth st, PreT st -> PreT (fst (ns_fmt ns o false wdp depth st)).

Definition BodyT (body : bool -> fstate -> body_res) : Prop :=
  forall o st, SQ0 st -> SQ (br_red (body o st)) st (br_st (body o st)).

Lemma fold_multi_T depth multi : Forall NodeT multi ->
  forall acc, PreT (fst acc) ->
  PreT (fst (fold_left
      (fun (acc : fstate * nat) (k : nsem) =>
         let '(s', m) := ns_fmt k false false true (S depth) (fst acc) in (s', (snd acc + m)%nat))
      multi acc)).
Proof.
  induction 1 as [|k l Hk Hl IH]; intros acc Ha; cbn [fold_left]; [exact Ha|].
  apply IH. specialize (Hk false true (S depth) (fst acc) Ha).
  destruct (ns_fmt k false false true (S depth) (fst acc)) as [s' m]. exact Hk.
Qed.

Lemma mark_first_ET n : forall es, Forall ET es -> Forall ET (mark_first n es).
Proof.
  induction n as [|n IH]; intros [|e r] H; cbn [mark_first]; try exact H.
  inversion H as [|? ? He Hr]; subst. constructor; [exact He|now apply IH].
Qed.

Lemma format_node_T ty single multi own body :
  match single with Some sc => NodeT sc | None => True end ->
  Forall NodeT multi -> BodyT body ->
  forall o wdp depth st, PreT st ->
    PreT (fst (format_node ty single multi own body o false wdp depth st)).
Proof.
  intros Hs Hm Hb o wdp depth st HP. unfold format_node.
  assert (H1 : PreT (fst (match single with
                          | Some sc => ns_fmt sc false false wdp (S depth) st
                          | None => (st, 0%nat) end))).
  { destruct single as [sc|]; [now apply Hs|exact HP]. }
  destruct (match single with Some sc => ns_fmt sc false false wdp (S depth) st | None => (st, 0%nat) end)
    as [st1 n1]. cbn [fst] in H1.
  pose proof (fold_multi_T depth multi Hm (st1, n1) H1) as H2.
  destruct (fold_left _ multi (st1, n1)) as [st2 n2]. cbn [fst] in H2.
  destruct H2 as (Hbuf & Hpl & Hent). cbv zeta.
  match goal with |- context [body o ?s3] => set (st3 := s3) end.
  assert (H3 : SQ0 st3) by (subst st3; repeat split; assumption).
  pose proof (Hb o st3 H3) as HB.
  assert (E3 : cfg st3 = (fs_redout st2, false, fs_entries st2, false)).
  { subst st3. unfold cfg. cbn [fs_redout fs_plus fs_entries fs_wantDetail]. now rewrite Hpl. }
  destruct (body o st3) as [bst bred bel bseen]. cbn [br_st br_elide br_red br_seen] in *.
  destruct HB as (Hcfg & Hwd & Hhb & HQ). rewrite E3 in Hcfg. unfold cfg in Hcfg.
  injection Hcfg as C1 C2 C3 C4. clear E3 H3. clearbody st3.
  set (st4 := if bel then elide_short bst n2 else bst).
  assert (F4 : fs_wantDetail st4 = false /\ fs_headbuf st4 = [] /\ fs_buf st4 = fs_buf bst /\
               fs_redout st4 = fs_redout bst /\ fs_plus st4 = false /\ Forall ET (fs_entries st4)).
  { subst st4. destruct bel; unfold elide_short; fsimpl; repeat split; try assumption.
    - apply mark_first_ET. now rewrite C3.
    - now rewrite C3. }
  clearbody st4. destruct F4 as (F1 & F2 & F3 & F4 & F5 & F6).
  assert (He0 : ET (collect_entry st4 ty bred wdp depth)).
  { unfold ET. rewrite collect_entry_redflag, collect_entry_head_s by assumption. rewrite F3.
    destruct bred, (fs_redout st4); cbn [andb negb].
    - exact HQ.
    - apply Qs_false, strip_tidy, HQ.
    - exact HQ.
    - exact HQ. }
  set (e0 := collect_entry st4 ty bred wdp depth) in *. clearbody e0.
  destruct bseen.
  - cbn [fst]. split; fsimpl; [reflexivity|]. split; [exact F5|]. constructor; assumption.
  - destruct own as [stk|].
    + destruct (elide_shared (fs_last st4) stk) as [s' el]. cbn [fst].
      split; fsimpl; [reflexivity|]. split; [exact F5|]. constructor; [exact He0|assumption].
    + cbn [fst]. split; fsimpl; [reflexivity|]. split; [exact F5|]. constructor; assumption.
Qed.

(* ---- the one-line rendering ---- *)
Lemma out_bytes_Q red e : ET e -> Qs red (out_bytes red e (fe_head e)).
Proof.
  intro H. unfold out_bytes, ET in *. destruct red; cbn [negb orb].
  - destruct (fe_red e); [exact H|]. apply escape_bytes_Qs, H.
  - apply Qs_false, H.
Qed.

Lemma single_line_Q red es : forall acc, Forall ET es -> Qs red acc -> Qs red (single_line red es acc).
Proof.
  induction es as [|e r IH]; intros acc Hes Hacc; cbn [single_line]; [exact Hacc|].
  inversion Hes as [|? ? He Hr]; subst.
  destruct (fe_elide e); [now apply IH|].
  destruct (fe_head e) as [|c h] eqn:Eh; [now apply IH|].
  apply IH; [exact Hr|]. rewrite <- Eh. apply Qs_app; [|now apply out_bytes_Q].
  destruct acc; [exact Hacc|]. apply Qs_app; [exact Hacc|apply Qs_ascii; reflexivity].
Qed.

Lemma final_short_Q ns red : NodeT ns -> Qs red (final_short ns red false).
Proof.
  intro H. unfold final_short.
  assert (HP : PreT (st_init red false)) by (repeat split; constructor).
  specialize (H true false 0%nat _ HP).
  destruct (ns_fmt ns true false false 0%nat (st_init red false)) as [st n]. cbn [fst] in H.
  apply single_line_Q; [exact (proj2 (proj2 H))|apply Qs_nil].
Qed.

(* the piece a nested error contributes with %v *)
Definition NV (ns : nsem) : Prop :=
  match ns_safemsg ns with Some m => tidy m | None => NodeT ns end.

Lemma nested_v_pieces ns : NV ns -> pieces_ok [nested_v ns] /\ Forall tidyp [nested_v ns].
Proof.
  unfold NV, nested_v. destruct (ns_safemsg ns) as [m|]; intro H.
  - split; repeat constructor. exact H.
  - destruct (final_short_Q ns true H) as [A B]. split; repeat constructor; [now apply B|exact A].
Qed.

(* ================================================================== *)
(* 4. every node kind; error values whose printed strings are tidy     *)
(* ================================================================== *)
Lemma errno_text_ascii n : ascii (errno_text n) = true.
Proof. exact (proj2 (proj2 (direct_ok_parts _ _ (errno_text_ok n))) eq_refl). Qed.

Lemma grpc_status_text_tidy c m : tidy m -> tidy (grpc_status_text c m).
Proof.
  intro H. unfold grpc_status_text.
  destruct (VerboseLayout.grpc_code_name_ok c) as (_ & A & _).
  apply tidy_app; [reflexivity|]. apply tidy_app; [now apply tidy_ascii|].
  apply tidy_app; [reflexivity|exact H].
Qed.

Lemma leaf_text_tidy k : hdl k -> tidy (leaf_text k).
Proof.
  destruct k; cbn [leaf_text hdl]; intro H; try exact H; try reflexivity.
  - apply tidy_ascii, errno_text_ascii.
  - apply strip_tidy, H.
  - now apply grpc_status_text_tidy.
  - now apply grpc_status_text_tidy.
Qed.

Lemma SQ_set_last r st0 st l : SQ r st0 st -> SQ r st0 (set_last st l).
Proof. intros (A & B & C & D). split; [exact A|]. split; [exact B|]. split; [exact C|exact D]. Qed.

Lemma leaf_T i k : hdl k -> NodeT (sem (Leaf i k)).
Proof.
  intro Hk. pose proof (leaf_text_tidy k Hk) as Ht. unfold NodeT. cbn [sem ns_fmt].
  apply format_node_T; [exact I|constructor|]. intros o st H0.
  assert (HI : SQ true st st) by now apply SQ_init.
  destruct k; try (apply default_body_T; [exact H0|exact Ht|exact Hk]).
  - (* LPkgFund *)
    destruct (negb o).
    + cbn [br_red br_st]. apply SQ_set_last. unfold fundamental_format.
      destruct H0 as (_ & _ & _ & Hp). rewrite Hp.
      apply st_write_SQ; [now apply SQ_weak|apply Qs_false, Hk].
    + pose proof (format_simple_T st (leaf_text (LPkgFund msg st0)) None H0 Ht) as HF.
      destruct (format_simple st (leaf_text (LPkgFund msg st0)) None) as [st1 el]. exact HF.
  - (* LLeafError *)
    unfold body_safe. cbn [br_red br_st]. destruct Hk as [T R].
    apply sp_print_SQ; [exact HI|constructor; [now apply R|constructor]|pok].
  - (* LUnimpl *)
    unfold body_safe. cbn [br_red br_st].
    rewrite if_detail_short by (rewrite sp_print_wd; apply H0).
    cbn [hdl] in Hk. apply sp_print_SQ; [exact HI|pok|pok].
Qed.

Lemma wrap_T i w c :
  hdw w -> tidy (ns_text (sem (Wrap i w c))) -> NodeT (sem c) -> NodeT (sem (Wrap i w c)).
Proof.
  intros Hw Ht Hc. unfold NodeT. cbn [sem ns_fmt].
  apply format_node_T; [exact Hc|constructor|]. intros o st H0.
  pose proof (wrap_body_T w st Hw H0) as HW.
  destruct (wrap_body w st) as [[[st1 nn] red]|]; [exact HW|].
  destruct w; try (apply default_body_T; [exact H0|exact Ht|exact Hw]).
  - pose proof (format_simple_T st _ (Some (ns_text (sem c))) H0 Ht) as HF.
    cbn [sem ns_text] in HF.
    match goal with |- context [format_simple ?a ?b ?c] => destruct (format_simple a b c) as [st1 el] end.
    exact HF.
  - pose proof (format_simple_T st _ (Some (ns_text (sem c))) H0 Ht) as HF.
    cbn [sem ns_text] in HF.
    match goal with |- context [format_simple ?a ?b ?c] => destruct (format_simple a b c) as [st1 el] end.
    exact HF.
Qed.

Lemma second_T i c s : NodeT (sem c) -> NodeT (sem (Second i c s)).
Proof.
  intros Hc. unfold NodeT. cbn [sem ns_fmt].
  apply format_node_T; [exact Hc|constructor|]. intros o st H0.
  unfold body_safe. cbn [br_red br_st]. rewrite if_detail_short by apply H0. now apply SQ_init.
Qed.

Lemma barrier_T i smsg m : Qs true smsg -> NodeT (sem (Barrier i smsg m)).
Proof.
  intros [T R]. unfold NodeT. cbn [sem ns_fmt].
  apply format_node_T; [exact I|constructor|]. intros o st H0.
  unfold body_safe. cbn [br_red br_st].
  rewrite if_detail_short by (rewrite sp_print_wd; apply H0).
  apply sp_print_SQ; [now apply SQ_init|constructor; [now apply R|constructor]|pok].
Qed.

Lemma Forall_map'' {A B} (P : B -> Prop) (f : A -> B) l : Forall (fun x => P (f x)) l -> Forall P (List.map f l).
Proof. induction 1; cbn [List.map]; constructor; assumption. Qed.

Lemma multi_T i k cs :
  Forall (fun c => NodeT (sem c)) cs ->
  match k with
  | MJoin => Forall (fun c => NV (sem c)) cs
  | _ => tidy (ns_text (sem (Multi i k cs)))
  end ->
  NodeT (sem (Multi i k cs)).
Proof.
  intros Hcs Hk. apply Forall_map'' in Hcs. unfold NodeT. destruct k; cbn [sem ns_fmt].
  - apply format_node_T; [exact I|exact Hcs|]. intros o st H0.
    unfold body_safe. cbn [br_red br_st].
    apply (Forall_map'' NV sem) in Hk. revert Hk. generalize (List.map sem cs). intros scs Hk.
    assert (G : forall (acc : bool * fstate), SQ true st (snd acc) ->
       SQ true st (snd (fold_left
          (fun (acc : bool * fstate) (sc : nsem) =>
             let s0 := if fst acc then snd acc else sp_print (snd acc) [PUnsafe [nl]] in
             (false, sp_print s0 [nested_v sc])) scs acc))).
    { induction Hk as [|sc l Hsc Hl IH]; intros acc Ha; cbn [fold_left]; [exact Ha|].
      apply IH. cbv zeta. cbn [snd]. destruct (nested_v_pieces sc Hsc) as [P1 P2].
      apply sp_print_SQ; [|exact P1|exact P2].
      destruct (fst acc); [exact Ha|]. apply sp_print_SQ; [exact Ha|pok|pok]. }
    apply (G (true, st)). now apply SQ_init.
  - apply format_node_T; [exact I|exact Hcs|]. intros o st H0.
    apply default_body_T; [exact H0|exact Hk|exact I].
  - apply format_node_T; [exact I|exact Hcs|]. intros o st H0.
    apply default_body_T; [exact H0|exact Hk|exact I].
Qed.

Lemma oleaf_T i msg d cs :
  tidy msg -> Forall (fun c => NodeT (sem c)) cs -> NodeT (sem (OLeaf i msg d cs)).
Proof.
  intros Hm Hcs. apply Forall_map'' in Hcs. unfold NodeT. cbn [sem ns_fmt].
  apply format_node_T; [exact I|exact Hcs|]. intros o st H0.
  unfold body_safe. cbn [br_red br_st].
  rewrite if_detail_short by (rewrite sp_print_wd; apply H0).
  apply sp_print_SQ; [now apply SQ_init|pok|pok].
Qed.

Lemma owrap_T i pfx d mt c :
  tidy pfx -> NodeT (sem c) -> NodeT (sem (OWrap i pfx d mt c)).
Proof.
  intros Hp Hc. unfold NodeT. cbn [sem ns_fmt].
  apply format_node_T; [exact Hc|constructor|]. intros o st H0.
  unfold body_safe. cbn [br_red br_st].
  destruct pfx as [|x pfx].
  - rewrite if_detail_short by apply H0. now apply SQ_init.
  - rewrite if_detail_short by (rewrite sp_print_wd; apply H0).
    apply sp_print_SQ; [now apply SQ_init|pok|pok].
Qed.

(* ---- Error() texts ---- *)
Lemma tidy_colon_sp : tidy colon_sp. Proof. reflexivity. Qed.

Lemma wrap_text_tidy w c :
  hdw w -> tidy (ns_text (sem c)) -> NodeT (sem c) -> tidy (wrap_text w (sem c) (lib_format c)).
Proof.
  intros Hw Htc Hc. unfold wrap_text.
  assert (Hv : tidy (if lib_format c then final_short (sem c) false false else ns_text (sem c))).
  { destruct (lib_format c); [exact (proj1 (final_short_Q _ false Hc))|exact Htc]. }
  set (cv := if lib_format c then _ else _) in *. clearbody cv.
  assert (PC : forall m, tidy m -> tidy (m ++ colon_sp ++ ns_text (sem c))).
  { intros m Hm. apply tidy_app; [exact Hm|apply tidy_app; [exact tidy_colon_sp|exact Htc]]. }
  destruct w; cbn [hdw] in Hw; try exact Htc; try exact Hw; try (now apply PC).
  - destruct rp; [exact Htc|]. apply tidy_app; [apply strip_tidy, Hw|].
    apply tidy_app; [exact tidy_colon_sp|exact Hv].
  - apply strip_tidy, Hw.
  - destruct Hw as [A B].
    apply tidy_app; [exact A|]. apply tidy_app; [reflexivity|]. now apply PC.
  - destruct Hw as (A & B & C).
    apply tidy_app; [exact A|]. apply tidy_app; [reflexivity|].
    apply tidy_app; [exact B|]. apply tidy_app; [reflexivity|]. now apply PC.
  - destruct Hw as (A & B & C & D). apply PC. unfold operror_head.
    apply tidy_app; [exact A|]. apply tidy_app.
    { destruct net; [exact tidy_nil|]. apply (tidy_app [sp]); [reflexivity|exact B]. }
    apply tidy_app.
    { destruct src; [exact tidy_nil|]. apply (tidy_app [sp]); [reflexivity|exact C]. }
    destruct addr; [exact tidy_nil|]. apply tidy_app; [destruct src; reflexivity|exact D].
  - destruct u; try exact Hw; try exact Htc; now apply PC.
Qed.

(* wire messages (errorspb) whose strings are tidy: what an opaque node keeps for
   the next hop.  The payload conditions follow the decoders: a string payload is
   used as a redactable string by the leafError / withPrefix / withNewMessage
   decoders only. *)
Fixpoint eok (x : enc) : Prop :=
  match x with
  | ELeaf msg d cs =>
    tidy msg /\ dok true msg d /\
    (fix al (l : list enc) : Prop := match l with [] => True | y :: r => eok y /\ al r end) cs
  | EWrap c msg d mt => eok c /\ tidy msg /\ dok false msg d
  end
with dok (lf : bool) (msg : str) (d : details) : Prop :=
  match d with
  | mkdet _ fam _ _ (Some p) => pok lf fam msg p
  | mkdet _ _ _ _ None => True
  end
with pok (lf : bool) (fam msg : str) (p : payload) : Prop :=
  match p with
  | PlString m =>
    if lf then fam = k_leafError -> Qs true m
    else fam = k_withPrefix \/ fam = k_withNewMessage -> Qs true m
  | PlStrings l => Forall tidy l
  | PlEnc e => eok e /\ (lf = true -> fam = k_barrier -> Qs true msg)
  | PlStatus _ m => tidy m
  | _ => True
  end.

Fixpoint hd_ok (e : err) : Prop :=
  match e with
  | Leaf _ k => hdl k
  | Wrap _ w c => hdw w /\ hd_ok c
  | Second _ c s => hd_ok c /\ hd_ok s
  | Barrier _ smsg m => Qs true smsg /\ hd_ok m
  | Multi _ k cs => match k with MFmtWraps m => tidy m | _ => True end /\ allP hd_ok cs
  | OLeaf _ msg d cs => tidy msg /\ allP hd_ok cs /\ dok true msg d
  | OWrap _ pfx d _ c => tidy pfx /\ hd_ok c /\ dok false pfx d
  end.

Lemma NV_of e : hd_ok e -> NodeT (sem e) -> NV (sem e).
Proof.
  intros H N. unfold NV. destruct e as [i k|i w c|i c s|i m x|i k cs|i m d cs|i p d mt c];
    try exact N.
  - cbn [sem ns_safemsg]. destruct k; try exact N. destruct u; try exact N. exact H.
  - destruct k; exact N.
Qed.

Theorem hd_node e : hd_ok e -> NodeT (sem e) /\ tidy (ns_text (sem e)).
Proof.
  induction e using err_ind'; cbn [hd_ok]; intro Hh.
  - split; [now apply leaf_T|now apply leaf_text_tidy].
  - destruct Hh as [Hw Hc]. destruct (IHe Hc) as [N T].
    assert (Tw : tidy (ns_text (sem (Wrap i w e)))) by (now apply wrap_text_tidy).
    split; [now apply wrap_T|exact Tw].
  - destruct Hh as [Hc Hs]. destruct (IHe1 Hc) as [N T]. split; [now apply second_T|exact T].
  - destruct Hh as [Hm Hx]. split; [now apply barrier_T|]. apply strip_tidy, Hm.
  - destruct Hh as [Hk Hcs]. rewrite allP_Forall in Hcs.
    pose proof (Forall_impl' _ _ _ H Hcs) as HN.
    assert (HN1 : Forall (fun c => NodeT (sem c)) cs).
    { revert HN. apply Forall_impl. intros a Ha. apply Ha. }
    assert (HT1 : Forall tidy (List.map ns_text (List.map sem cs))).
    { apply Forall_map''. apply Forall_map''. revert HN. apply Forall_impl. intros a Ha. apply Ha. }
    destruct k.
    + assert (N : NodeT (sem (Multi i MJoin cs))).
      { apply multi_T; [exact HN1|]. rewrite Forall_forall in *. intros c Hc.
        apply NV_of; [now apply Hcs|now apply HN1]. }
      split; [exact N|].
      destruct (final_short_Q _ true N) as [A B].
      change (tidy (strip_markers (sprint_pieces [PRaw (final_short (sem (Multi i MJoin cs)) true false)]))).
      apply strip_tidy, sprint_tidy; repeat constructor; [now apply B|exact A].
    + assert (T : tidy (ns_text (sem (Multi i MStdJoin cs)))).
      { cbn [sem ns_text]. apply tidy_join; [reflexivity|exact HT1]. }
      split; [now apply multi_T|exact T].
    + split; [now apply multi_T|exact Hk].
  - destruct Hh as (Hm & Hcs & _). rewrite allP_Forall in Hcs.
    pose proof (Forall_impl' _ _ _ H Hcs) as HN.
    split; [|exact Hm]. apply oleaf_T; [exact Hm|].
    revert HN. apply Forall_impl. intros a Ha. apply Ha.
  - destruct Hh as (Hp & Hc & _). destruct (IHe Hc) as [N T].
    split; [now apply owrap_T|]. cbn [sem ns_text].
    destruct (is_full_msg mt); [exact Hp|]. destruct p as [|x p]; [exact T|].
    apply tidy_app; [exact Hp|]. apply tidy_app; [exact tidy_colon_sp|].
    destruct (lib_format e); [exact (proj1 (final_short_Q _ false N))|exact T].
Qed.

Corollary hd_short_raw e : hd_ok e -> Qs true (final_short (sem e) true false).
Proof. intro H. apply final_short_Q, (proj1 (hd_node e H)). Qed.

Corollary hd_NV e : hd_ok e -> NV (sem e).
Proof. intro H. apply NV_of; [exact H|apply (proj1 (hd_node e H))]. Qed.

(* ---- encoding a tidy error gives a tidy wire message ---- *)
Lemma eok_leaf msg d cs : eok (ELeaf msg d cs) <-> tidy msg /\ dok true msg d /\ Forall eok cs.
Proof.
  cbn [eok].
  assert (E : (fix al (l : list enc) : Prop := match l with [] => True | y :: r => eok y /\ al r end) cs
              <-> Forall eok cs).
  { induction cs as [|y r IH]; split; intro H.
    - constructor.
    - exact I.
    - destruct H as [A B]. constructor; [exact A|now apply IH].
    - inversion H; subst. split; [assumption|now apply IH]. }
  rewrite E. reflexivity.
Qed.

Lemma extract_prefix_tidy t c p mt : tidy t -> extract_prefix t c = (p, mt) -> tidy p.
Proof.
  intros Ht E. apply extract_prefix_spec in E. destruct E as [[_ ->]|[(_ & -> & _)|(_ & _ & E)]].
  - exact Ht.
  - exact tidy_nil.
  - rewrite E in Ht. change (p ++ colon_sp ++ c) with (p ++ colon :: (sp :: c)) in Ht.
    exact (proj1 (tidy_cut colon _ _ (or_intror eq_refl) Ht)).
Qed.

Lemma encode_eok e : hd_ok e -> eok (encode e).
Proof.
  induction e using err_ind'; intro Hh.
  - (* Leaf *)
    pose proof (proj2 (hd_node _ Hh)) as Tt. cbn [hd_ok] in Hh.
    change (ns_text (sem (Leaf i k))) with (error_text (Leaf i k)) in Tt.
    destruct k; cbn [encode]; unfold mk_details; cbn [type_details]; apply eok_leaf;
      (split; [|split; [|constructor]]); cbn [dok pok hdl] in *; try exact Tt; try exact I; try exact Hh.
    + intros _. exact Hh.
  - (* Wrap *)
    pose proof (proj2 (hd_node _ Hh)) as Tt.
    change (ns_text (sem (Wrap i w e))) with (error_text (Wrap i w e)) in Tt.
    cbn [hd_ok] in Hh. destruct Hh as [Hw Hc]. specialize (IHe Hc).
    destruct w; cbn [encode]; unfold mk_details; cbn [type_details];
      try (destruct (extract_prefix (error_text (Wrap i _ e)) (error_text e)) as [pfx mt] eqn:E;
           pose proof (extract_prefix_tidy _ _ _ _ Tt E) as Tp);
      cbn [eok dok pok hdw] in *; (split; [exact IHe|]); (split; [|try exact I]);
      try exact Tt; try exact Tp; try exact tidy_nil.
    + apply strip_tidy, Hw.
    + intros _. exact Hw.
    + intros _. exact Hw.
    + intros [E|E]; vm_compute in E; discriminate.
    + intros [E|E]; vm_compute in E; discriminate.
    + destruct Hw as [A B]. apply tidy_app; [exact A|]. apply tidy_app; [reflexivity|exact B].
    + destruct Hw as [A B]. repeat constructor; assumption.
    + destruct Hw as (A & B & C). apply tidy_app; [exact A|]. apply tidy_app; [reflexivity|].
      apply tidy_app; [exact B|]. apply tidy_app; [reflexivity|exact C].
    + destruct Hw as (A & B & C). repeat constructor; assumption.
    + exact Hw.
  - (* Second *)
    cbn [hd_ok] in Hh. destruct Hh as [Hc Hs]. cbn [encode]. unfold mk_details. cbn [type_details].
    cbn [eok dok pok]. split; [now apply IHe1|]. split; [exact tidy_nil|]. split; [now apply IHe2|discriminate].
  - (* Barrier *)
    cbn [hd_ok] in Hh. destruct Hh as [Hm Hx]. cbn [encode]. unfold mk_details. cbn [type_details].
    apply eok_leaf. split; [apply Hm|]. split; [|constructor]. cbn [dok pok].
    split; [now apply IHe|]. intros _ _. exact Hm.
  - (* Multi *)
    pose proof (proj2 (hd_node _ Hh)) as Tt.
    change (ns_text (sem (Multi i k cs))) with (error_text (Multi i k cs)) in Tt.
    cbn [hd_ok] in Hh. destruct Hh as [_ Hcs]. rewrite allP_Forall in Hcs.
    cbn [encode]. unfold mk_details. cbn [type_details]. apply eok_leaf.
    split; [exact Tt|]. split; [exact I|]. apply Forall_map''. exact (Forall_impl' _ _ _ H Hcs).
  - (* OLeaf *)
    cbn [hd_ok] in Hh. destruct Hh as (Hm & Hcs & Hd). rewrite allP_Forall in Hcs.
    cbn [encode]. apply eok_leaf. split; [exact Hm|]. split; [exact Hd|].
    apply Forall_map''. exact (Forall_impl' _ _ _ H Hcs).
  - (* OWrap *)
    cbn [hd_ok] in Hh. destruct Hh as (Hp & Hc & Hd). cbn [encode eok].
    split; [now apply IHe|]. split; [exact Hp|exact Hd].
Qed.

(* size of a wire message, payloads included *)
Fixpoint esize (x : enc) : nat :=
  match x with
  | ELeaf _ d cs =>
    S (dsize d + (fix sl (l : list enc) : nat := match l with [] => 0%nat | y :: r => (esize y + sl r)%nat end) cs)
  | EWrap c _ d _ => S (esize c + dsize d)%nat
  end
with dsize (d : details) : nat :=
  match d with
  | mkdet _ _ _ _ (Some p) => psize p
  | mkdet _ _ _ _ None => 0%nat
  end
with psize (p : payload) : nat :=
  match p with PlEnc e => S (esize e) | _ => 0%nat end.

Lemma esize_in msg d cs y : In y cs -> (esize y < esize (ELeaf msg d cs))%nat.
Proof.
  intro H. cbn [esize].
  assert (E : (esize y <= (fix sl (l : list enc) : nat := match l with [] => 0%nat | y :: r => (esize y + sl r)%nat end) cs)%nat).
  { induction cs as [|a r IH]; [contradiction|]. destruct H as [->|H]; [lia|]. specialize (IH H). lia. }
  lia.
Qed.

(* ================================================================== *)
(* 5. from tidy error values to the hypotheses of EngineWf             *)
(* ================================================================== *)
Lemma hd_sh e : hd_ok e -> sh_ok e.
Proof.
  induction e using err_ind'; cbn [hd_ok sh_ok].
  - destruct k; cbn [hdl]; trivial. intros [_ R]. now apply raw_ok_wf, R.
  - intros [Hw Hc]. split; [|now apply IHe].
    destruct w; cbn [hdw wfield_ok] in *; trivial; now apply raw_ok_wf, Hw.
  - intros [A _]. now apply IHe1.
  - intros [[_ R] _]. now apply raw_ok_wf, R.
  - intros [_ A]. rewrite !allP_Forall in *. exact (Forall_impl' _ _ _ H A).
  - intros (_ & A & _). rewrite !allP_Forall in *. exact (Forall_impl' _ _ _ H A).
  - intros (_ & A & _). now apply IHe.
Qed.

(* the stacks of an error value satisfy [SP] *)
Definition wstackP (SP : stack -> Prop) (w : wlayer) : Prop :=
  match w with WStack stk | WPkgStack stk => SP stk | _ => True end.

Fixpoint stkP (SP : stack -> Prop) (e : err) : Prop :=
  match e with
  | Leaf _ k => match k with LPkgFund _ stk => SP stk | _ => True end
  | Wrap _ w c => wstackP SP w /\ stkP SP c
  | Second _ c s => stkP SP c /\ stkP SP s
  | Barrier _ _ m => stkP SP m
  | Multi _ _ cs => allP (stkP SP) cs
  | OLeaf _ _ _ cs => allP (stkP SP) cs
  | OWrap _ _ _ _ c => stkP SP c
  end.

Definition stk_ok : err -> Prop := stkP stack_ok.

Lemma Forall2_In_r {A B} (R : A -> B -> Prop) l1 l2 :
  Forall2 R l1 l2 -> forall y, In y l2 -> exists x, In x l1 /\ R x y.
Proof.
  induction 1 as [|a b l1 l2 Hab Hl IH]; intros y Hy; [contradiction|].
  destruct Hy as [<-|Hy].
  - exists a. split; [now left|exact Hab].
  - destruct (IH y Hy) as (x & Hx & Hr). exists x. split; [now right|exact Hr].
Qed.

(* the glue condition: the heads of the %+v run are the first lines of the heads
   of the %v run ([heads_sim]), and those are tidy valid raw strings *)
Lemma glue_of e : hd_ok e -> vb_ok e -> glue_top e.
Proof.
  intros Hh Hv. unfold glue_top, glue_ns. apply forallb_forall. intros x Hx.
  change (verbose_entries_of (sem e)) with (ventries e true) in Hx.
  (* the %+v entries *)
  assert (HV : Forall (EI true) (ventries e true)).
  { pose proof (verbose_node_ok e Hv) as N.
    assert (HP : Pre true (st_init true true)) by (split; [reflexivity|constructor]).
    exact (proj2 (N true false 0%nat _ HP)). }
  (* the %v entries *)
  assert (HS : Forall ET (sentries e true)).
  { pose proof (proj1 (hd_node e Hh)) as N.
    assert (HP : PreT (st_init true false)) by (repeat split; constructor).
    exact (proj2 (proj2 (N true false 0%nat _ HP))). }
  destruct (Forall2_In_r _ _ _ (heads_sim e true) x Hx) as (y & Hy & (_ & Er & Tr)).
  rewrite Forall_forall in HV, HS. specialize (HV x Hx). specialize (HS y Hy).
  unfold entry_glue. destruct (fe_red x) eqn:Ex; [|reflexivity]. cbn [negb orb].
  destruct HV as [HV _]. destruct (HV Ex) as [_ Hd].
  unfold ET in HS. rewrite Er in HS. destruct HS as [Ty Ry]. specialize (Ry eq_refl).
  assert (Hc : cln (fe_head x)).
  { destruct Tr as [E|[[Y E]|[[E _]|[E _]]]].
    - rewrite <- E. now apply raw_ok_cln.
    - rewrite E in Ry, Ty. apply raw_ok_cln. exact (proj1 (rok_cut _ _ Ry Ty)).
    - rewrite E. exact cln_nil.
    - rewrite E. exact cln_nil. }
  apply cls_wf. now apply cls_app_cln.
Qed.

Theorem hd_vb e : hd_ok e -> stk_ok e -> vb_ok e /\ glue_top e.
Proof.
  unfold stk_ok.
  induction e using err_ind'; intros Hh Hs;
    (match goal with |- vb_ok ?x /\ _ => assert (V : vb_ok x) end; [|split; [exact V|now apply glue_of]]);
    cbn [hd_ok stkP vb_ok] in *.
  - destruct k; cbn [hdl] in *; trivial. now apply raw_ok_wf, Hh.
  - destruct Hh as [Hw Hc]. destruct Hs as [Sw Sc].
    split; [|split; [|exact (proj1 (IHe Hc Sc))]].
    + destruct w; cbn [hdw wfield_ok] in *; trivial; now apply raw_ok_wf, Hw.
    + destruct w; cbn [wstackP wstack_ok] in *; trivial.
  - destruct Hh as [Hc Hx]. destruct Hs as [Sc Sx].
    split; [exact (proj1 (IHe1 Hc Sc))|exact (IHe2 Hx Sx)].
  - destruct Hh as [[_ R] Hx]. split; [now apply raw_ok_wf, R|exact (IHe Hx Hs)].
  - destruct Hh as [_ Hc]. rewrite !allP_Forall in *.
    rewrite Forall_forall in *. intros c Hin. exact (proj1 (H c Hin (Hc c Hin) (Hs c Hin))).
  - destruct Hh as (_ & Hc & _). rewrite !allP_Forall in *.
    rewrite Forall_forall in *. intros c Hin. exact (proj1 (H c Hin (Hc c Hin) (Hs c Hin))).
  - destruct Hh as (_ & Hc & _). exact (proj1 (IHe Hc Hs)).
Qed.

Corollary hd_short_wf e : hd_ok e -> wf_red (fmt_red_short e) = true.
Proof. intro H. now apply red_short_wf, hd_sh. Qed.

Corollary hd_verbose_wf e : hd_ok e -> stk_ok e -> wf_red (fmt_red_verbose e) = true.
Proof. intros H S. destruct (hd_vb e H S). now apply red_verbose_wf. Qed.

(* ================================================================== *)
(* 6. conditions on recipes                                            *)
(* ================================================================== *)
Definition fmt_all (P : recipe -> bool) : list fpiece -> bool :=
  fix go (f : list fpiece) : bool :=
    match f with
    | [] => true
    | FErr _ x :: rest => P x && go rest
    | _ :: rest => go rest
    end.

(* [chk] holds at every node of the recipe (error arguments of format calls,
   reference errors, transferred errors included) *)
Section AllNodes.
Variable chk : recipe -> bool.

Fixpoint all_nodes (r : recipe) : bool :=
  chk r &&
  match r with
  | RNil | RSentinel _ | RStdNew _ | RNew _ | RPkgNew _ | RErrno _ | RUnimpl _ _ _
  | RGrpcStatus _ _ | RGogoStatus _ _ | RTestError | RULeaf _ _ _ _ | RForeignErrno _ => true
  | RNewf f | RAssertf f | RFmtErrorf f => fmt_all all_nodes f
  | RWrap r _ | RWithMessage r _ | RWithStack r | RHint r _ | RDetail r _ | RIssueLink r _ _
  | RTelemetry r _ | RDomain r _ | RTags r _ | RAssert r | RHTTP r _ | RGrpc r _
  | RHandled r | RHandledMsg r _ | RHandledInDomain r _ | RHandledInDomainMsg r _ _ | RHandleAssert r
  | RPkgMsg r _ | RPkgStack r | RPathError r _ _ | RLinkError r _ _ _ | RSyscallError r _
  | ROpError r _ _ _ _ | RUWrap _ r _ _ | RTransfer r _ => all_nodes r
  | RWrapf r f | RWithMessagef r f | RSafeDetails r f | RHandledMsgf r f | RNewAssertWrapped r f
  | RHintf r f | RDetailf r f => all_nodes r && fmt_all all_nodes f
  | RMark r x | RSecondary r x | RCombine r x => all_nodes r && all_nodes x
  | RJoin rs | RStdJoin rs => forallb all_nodes rs
  end.

Lemma fmt_all_fkids (P : recipe -> bool) f :
  fmt_all P f = true -> Forall (fun x => P x = true) (fkids f).
Proof.
  induction f as [|p f IH]; [constructor|]. destruct p; cbn [fmt_all fkids]; try exact IH.
  intro H. apply andb_true_iff in H as [H1 H2]. constructor; [exact H1|now apply IH].
Qed.

Lemma all_nodes_kids r :
  all_nodes r = true -> chk r = true /\ Forall (fun x => all_nodes x = true) (kids r).
Proof.
  intro H.
  assert (L : forall rs, forallb all_nodes rs = true -> Forall (fun x => all_nodes x = true) rs).
  { intros rs E. apply Forall_forall. now apply forallb_forall. }
  destruct r; cbn [all_nodes kids] in *; apply andb_true_iff in H as [H1 H2];
    (split; [exact H1|]);
    try (constructor; fail);
    try (now apply fmt_all_fkids);
    try (now apply L);
    try (repeat constructor; exact H2);
    apply andb_true_iff in H2 as [A B];
    (constructor; [exact A|first [now apply fmt_all_fkids | repeat constructor; exact B]]).
Qed.
End AllNodes.

(* (1) the recipe has no RTransfer node *)
Definition chk_nt (r : recipe) : bool := match r with RTransfer _ _ => false | _ => true end.
Definition no_transfer : recipe -> bool := all_nodes chk_nt.

(* (2) the fragment: no error argument is printed with %+v in a format call that
   builds a MESSAGE (Newf/Errorf, AssertionFailedf, Wrapf, WithMessagef,
   HandledWithMessagef, NewAssertionErrorWithWrappedErrf, fmt.Errorf); %+v stays
   allowed in WithHintf / WithDetailf / WithSafeDetails *)
Definition fmt_noplus (f : list fpiece) : bool :=
  forallb (fun p => match p with FErr VPlusV _ => false | _ => true end) f.
Definition chk_np (r : recipe) : bool :=
  match r with
  | RNewf f | RAssertf f | RFmtErrorf f | RWrapf _ f | RWithMessagef _ f | RHandledMsgf _ f
  | RNewAssertWrapped _ f => fmt_noplus f
  | _ => true
  end.
Definition no_plusv : recipe -> bool := all_nodes chk_np.

(* RTransfer nodes ARE in the fragment (section 7 follows the strings through
   encode / decode in arbitrary processes) *)
Definition in_fragment (r : recipe) : bool := no_plusv r.

(* (3) the strings: every string in a MESSAGE position is tidy ([tidyb]: a byte
   226, or 226 128, is followed by a byte other than newline, ':' and 226, and
   does not end the string).  Hints, details, issue links, telemetry keys,
   domains, tags, safe details, the payload strings of the harness types, and
   the literals / string arguments of WithHintf, WithDetailf, WithSafeDetails
   are arbitrary bytes. *)
Definition fmt_strs (f : list fpiece) : bool :=
  forallb (fun p => match p with
                    | FLit s | FStr _ s | FSafeStr _ s | FXStr s | FXSafeStr s => tidyb s
                    | _ => true
                    end) f.
Definition chk_str (r : recipe) : bool :=
  match r with
  | RStdNew m | RNew m | RPkgNew m | RUnimpl _ _ m | RGrpcStatus _ m | RGogoStatus _ m
  | RULeaf _ m _ _ => tidyb m
  | RNewf f | RAssertf f | RFmtErrorf f => fmt_strs f
  | RWrap _ m | RWithMessage _ m | RHandledMsg _ m | RHandledInDomainMsg _ _ m | RPkgMsg _ m
  | RSyscallError _ m | RUWrap _ _ m _ => tidyb m
  | RWrapf _ f | RWithMessagef _ f | RHandledMsgf _ f | RNewAssertWrapped _ f => fmt_strs f
  | RPathError _ op path => tidyb op && tidyb path
  | RLinkError _ op old new => tidyb op && tidyb old && tidyb new
  | ROpError _ op net src addr => tidyb op && tidyb net && tidyb src && tidyb addr
  | _ => true
  end.
Definition strs_ok : recipe -> bool := all_nodes chk_str.

Definition okr (r : recipe) : Prop := no_plusv r = true /\ strs_ok r = true.

Lemma okr_inv r : okr r ->
  chk_np r = true /\ chk_str r = true /\ Forall okr (kids r).
Proof.
  intros (B & C).
  destruct (all_nodes_kids _ r B) as [B1 B2].
  destruct (all_nodes_kids _ r C) as [C1 C2]. repeat split; try assumption.
  rewrite Forall_forall in *. intros x Hx. split; auto.
Qed.

(* every frame of the environment's stacks is free of marker runes *)
Definition stacks_ok (env : benv) : Prop := Forall stack_ok (be_stacks env).

(* ================================================================== *)
(* 7. the builder                                                      *)
(* ================================================================== *)
Section Api.
Variable env : benv.
Variable SP : stack -> Prop.
Hypothesis HSP : forall n, SP (nth n (be_stacks env) []).

Definition gd (e : err) : Prop := hd_ok e /\ stkP SP e.
Definition GO (o : option err) : Prop := match o with Some e => gd e | None => True end.

Lemma wrap_gd i w e : hdw w -> wstackP SP w -> gd e -> gd (Wrap i w e).
Proof. intros Hw Sw [He Se]. split; cbn [hd_ok stkP]; split; assumption. Qed.

Lemma mk_wrap_gd w e s : hdw w -> wstackP SP w -> gd e -> gd (fst (mk_wrap w e s)).
Proof. intros. unfold mk_wrap, fresh_oid. cbn [fst]. now apply wrap_gd. Qed.

Lemma with_stack_gd e s : gd e -> gd (fst (with_stack env e s)).
Proof.
  intro H. unfold with_stack, fresh_stack, mk_wrap, fresh_oid. cbn [fst].
  apply wrap_gd; [exact I|apply HSP|exact H].
Qed.

Lemma second_gd i e x : gd e -> gd x -> gd (Second i e x).
Proof. intros [A B] [C D]. split; cbn [hd_ok stkP]; split; assumption. Qed.

Lemma barrier_gd i msg e : Qs true msg -> gd e -> gd (Barrier i msg e).
Proof. intros Hm [A B]. split; cbn [hd_ok stkP]; [split; assumption|exact B]. Qed.

Lemma add_sec_gd es : forall e s, Forall gd es -> gd e -> gd (fst (add_sec es e s)).
Proof.
  induction es as [|x es IH]; intros e s Hes He; cbn [add_sec]; [exact He|].
  inversion Hes; subst. unfold fresh_oid. apply IH; [assumption|now apply second_gd].
Qed.

Lemma nested_v_gd e : gd e -> pieces_ok [nested_v (sem e)] /\ Forall tidyp [nested_v (sem e)].
Proof. intros [H _]. apply nested_v_pieces, hd_NV, H. Qed.

Lemma handled_gd e s : gd e -> gd (fst (handled_ e s)).
Proof.
  intro H. unfold handled_, fresh_oid. cbn [fst]. apply barrier_gd; [|exact H].
  destruct (nested_v_gd e H) as [P1 P2]. now apply sprint_Qs.
Qed.

Lemma safe_msg_Qs m : tidy m -> Qs true (sprint_pieces [PSafe m]).
Proof. intro H. apply sprint_Qs; pok. Qed.
Lemma unsafe_msg_Qs m : tidy m -> Qs true (sprint_pieces [PUnsafe m]).
Proof. intro H. apply sprint_Qs; pok. Qed.

(* ---- format calls ---- *)
Record BF (b : built_fmt) : Prop := mkBF {
  bf_1 : pieces_ok (bf_pieces b);
  bf_2 : Forall tidyp (bf_pieces b);
  bf_3 : tidy (bf_plain b);
  bf_4 : Forall gd (bf_errs b);
  bf_5 : Forall gd (bf_wrapped b) }.

Lemma BF_empty : BF bf_empty.
Proof. constructor; cbn; try constructor. Qed.

Lemma BF_add b p pl : BF b -> pieces_ok [p] -> tidyp p -> tidy pl -> BF (bf_add b p pl).
Proof.
  intros [H1 H2 H3 H4 H5] Hp Ht Hl. constructor; cbn [bf_add bf_pieces bf_plain bf_errs bf_wrapped].
  - apply Forall_app. split; [exact H1|exact Hp].
  - apply Forall_app. split; [exact H2|constructor; [exact Ht|constructor]].
  - now apply tidy_app.
  - exact H4.
  - exact H5.
Qed.

Lemma BF_nw b n : BF b -> BF (mkbf (bf_pieces b) (bf_plain b) (bf_wrapped b) (bf_errs b) n).
Proof. intros [H1 H2 H3 H4 H5]. constructor; assumption. Qed.

Lemma BF_err b p pl e (w : bool) n :
  BF b -> pieces_ok [p] -> Forall tidyp [p] -> tidy pl -> gd e ->
  BF (mkbf (bf_pieces b ++ [p]) (bf_plain b ++ pl)
           (if w then bf_wrapped b ++ [e] else bf_wrapped b) (bf_errs b ++ [e]) n).
Proof.
  intros [H1 H2 H3 H4 H5] Hp Ht Hl He. constructor; cbn [bf_pieces bf_plain bf_errs bf_wrapped].
  - apply Forall_app. split; [exact H1|exact Hp].
  - apply Forall_app. split; [exact H2|exact Ht].
  - now apply tidy_app.
  - apply Forall_app. split; [exact H4|constructor; [exact He|constructor]].
  - destruct w; [|exact H5]. apply Forall_app. split; [exact H5|constructor; [exact He|constructor]].
Qed.

Lemma dec_of_Z_tidy z : tidy (dec_of_Z z).
Proof. apply tidy_ascii, (proj1 (dec_of_Z_ok z)). Qed.

Lemma extras_ok l : forall first,
  forallb (fun p => match p with
                    | FLit s | FStr _ s | FSafeStr _ s | FXStr s | FXSafeStr s => tidyb s
                    | _ => true
                    end) l = true ->
  pieces_ok (fst (extras_go l first)) /\ Forall tidyp (fst (extras_go l first)) /\
  tidy (snd (extras_go l first)).
Proof.
  induction l as [|q l IH]; intros first H.
  - cbn [extras_go fst snd]. repeat split; repeat constructor.
  - cbn [forallb] in H. apply andb_true_iff in H as [Hq Hl].
    cbn [extras_go]. destruct (IH false Hl) as (A & B & C).
    destruct (extras_go l false) as [rs rl]. cbn [fst snd] in *.
    assert (E : pieces_ok (fst (extras_one q)) /\ Forall tidyp (fst (extras_one q)) /\
                tidy (snd (extras_one q))).
    { destruct q; cbn [extras_one fst snd]; try (repeat split; constructor; fail).
      - apply tidyb_tidy in Hq. repeat split; pok; try (apply tidy_app; [reflexivity|exact Hq]).
      - apply tidyb_tidy in Hq. repeat split; pok; try (apply tidy_app; [reflexivity|exact Hq]).
      - pose proof (dec_of_Z_tidy z) as Hz. repeat split; pok; try (apply tidy_app; [reflexivity|exact Hz]). }
    destruct (extras_one q) as [ps pl]. cbn [fst snd] in *. destruct E as (E1 & E2 & E3).
    repeat split.
    + apply Forall_app. split; [destruct first; repeat constructor|]. apply Forall_app. now split.
    + apply Forall_app. split; [destruct first; repeat constructor|]. apply Forall_app. now split.
    + apply tidy_app; [destruct first; reflexivity|]. now apply tidy_app.
Qed.

Lemma plain_v_tidy e : hd_ok e -> tidy (plain_v e).
Proof.
  intro H. destruct (hd_node e H) as [N T]. unfold plain_v, fmt_plain_short.
  destruct (lib_format e); [exact (proj1 (final_short_Q _ false N))|exact T].
Qed.

Lemma nil_text_tidy v : tidy (nil_text v).
Proof. destruct v; reflexivity. Qed.

Lemma bfmt_BF f :
  Forall (fun x => forall s, GO (fst (build env x s))) (fkids f) ->
  fmt_noplus f = true -> fmt_strs f = true ->
  forall acc s, BF acc -> BF (fst (bfmt env f acc s)).
Proof.
  induction f as [|p f IH]; intros HP Hn Hs acc s Hb; [exact Hb|].
  unfold fmt_noplus, fmt_strs in Hn, Hs. pose proof Hs as Hs0. cbn [forallb] in Hn, Hs.
  apply andb_true_iff in Hn as [Hn1 Hn2]. apply andb_true_iff in Hs as [Hs1 Hs2].
  fold (fmt_noplus f) in Hn2. fold (fmt_strs f) in Hs2.
  destruct p as [l|v x|v x|v z|v z|v x|x|x|z]; cbn [fkids] in HP.
  - apply tidyb_tidy in Hs1. cbn [bfmt]. apply IH; try assumption. apply BF_add; try assumption; pok.
  - apply tidyb_tidy in Hs1. cbn [bfmt]. apply IH; try assumption. apply BF_add; try assumption; pok.
  - apply tidyb_tidy in Hs1. cbn [bfmt]. apply IH; try assumption. apply BF_add; try assumption; pok.
  - pose proof (dec_of_Z_tidy z) as Hz. cbn [bfmt]. apply IH; try assumption. apply BF_add; try assumption; pok.
  - pose proof (dec_of_Z_tidy z) as Hz. cbn [bfmt]. apply IH; try assumption. apply BF_add; try assumption; pok.
  - inversion HP as [|? ? Px HPf]; subst. specialize (Px s). cbn [bfmt].
    destruct (build env x s) as [[e|] s1]; cbn [fst GO] in Px.
    + apply IH; try assumption.
      destruct (nested_v_gd e Px) as [P1 P2]. pose proof (plain_v_tidy e (proj1 Px)) as Tp.
      destruct v; try discriminate Hn1.
      * exact (BF_err acc _ _ e false _ Hb P1 P2 Tp Px).
      * exact (BF_err acc _ _ e false _ Hb P1 P2 Tp Px).
      * exact (BF_err acc _ _ e false _ Hb P1 P2 Tp Px).
      * exact (BF_err acc _ _ e true _ Hb P1 P2 Tp Px).
    + apply IH; try assumption. cbv zeta. apply BF_nw.
      pose proof (nil_text_tidy v) as Tn. apply BF_add; try assumption; pok.
  - cbn [bfmt]. cbv zeta. cbn [fst].
    destruct (extras_ok (FXStr x :: f) true Hs0) as (A & B & C). destruct Hb as [H1 H2 H3 H4 H5].
    constructor; cbn [bf_pieces bf_plain bf_errs bf_wrapped]; try assumption.
    + apply Forall_app. split; [exact H1|]. constructor; [exact I|exact A].
    + apply Forall_app. split; [exact H2|]. constructor; [reflexivity|exact B].
    + apply tidy_app; [exact H3|]. apply tidy_app; [reflexivity|exact C].
  - cbn [bfmt]. cbv zeta. cbn [fst].
    destruct (extras_ok (FXSafeStr x :: f) true Hs0) as (A & B & C). destruct Hb as [H1 H2 H3 H4 H5].
    constructor; cbn [bf_pieces bf_plain bf_errs bf_wrapped]; try assumption.
    + apply Forall_app. split; [exact H1|]. constructor; [exact I|exact A].
    + apply Forall_app. split; [exact H2|]. constructor; [reflexivity|exact B].
    + apply tidy_app; [exact H3|]. apply tidy_app; [reflexivity|exact C].
  - cbn [bfmt]. cbv zeta. cbn [fst].
    destruct (extras_ok (FXInt z :: f) true Hs0) as (A & B & C). destruct Hb as [H1 H2 H3 H4 H5].
    constructor; cbn [bf_pieces bf_plain bf_errs bf_wrapped]; try assumption.
    + apply Forall_app. split; [exact H1|]. constructor; [exact I|exact A].
    + apply Forall_app. split; [exact H2|]. constructor; [reflexivity|exact B].
    + apply tidy_app; [exact H3|]. apply tidy_app; [reflexivity|exact C].
Qed.

Lemma msg_Qs b : BF b -> Qs true (sprint_pieces (bf_pieces b)).
Proof. intros [H1 H2 _ _ _]. now apply sprint_Qs. Qed.

Lemma newf_gd f s :
  (forall s', BF (fst (bfmt env f bf_empty s'))) -> gd (fst (newf_ env f s)).
Proof.
  intro HB. unfold newf_. specialize (HB s).
  destruct (bfmt env f bf_empty s) as [b s1]. cbn [fst] in HB.
  pose proof (msg_Qs b HB) as Hm. set (msg := sprint_pieces (bf_pieces b)) in *.
  assert (H0 : exists e0 s2,
             (match bf_wrapped b with
              | w :: _ => mk_wrap (WNewMsg msg) w s1
              | [] => mk_leaf (LLeafError msg) s1
              end) = (e0, s2) /\ gd e0).
  { pose proof (bf_5 _ HB) as Hw. destruct (bf_wrapped b) as [|w ws].
    - eexists _, _. split; [reflexivity|]. split; [exact Hm|exact I].
    - inversion Hw; subst. eexists _, _. split; [reflexivity|]. now apply wrap_gd. }
  destruct H0 as (e0 & s2 & -> & G0).
  pose proof (add_sec_gd (bf_errs b) e0 s2 (bf_4 _ HB) G0) as G1.
  destruct (add_sec (bf_errs b) e0 s2) as [e1 s3]. cbn [fst] in G1.
  now apply with_stack_gd.
Qed.

Lemma wrapf_gd e f b s : gd e -> BF b -> gd (fst (wrapf_ env e f b s)).
Proof.
  intros He HB. unfold wrapf_.
  assert (H0 : exists e0 s2,
             (if is_fmt_empty f then (e, s) else mk_wrap (WPrefix (sprint_pieces (bf_pieces b))) e s) = (e0, s2) /\
             gd e0).
  { destruct (is_fmt_empty f).
    - eexists _, _. split; [reflexivity|exact He].
    - eexists _, _. split; [reflexivity|]. apply wrap_gd; [now apply msg_Qs|exact I|exact He]. }
  destruct H0 as (e0 & s2 & -> & G0).
  pose proof (add_sec_gd (bf_errs b) e0 s2 (bf_4 _ HB) G0) as G1.
  destruct (add_sec (bf_errs b) e0 s2) as [e1 s3]. cbn [fst] in G1.
  now apply with_stack_gd.
Qed.

Lemma on_GO r s k :
  (forall s', GO (fst (build env r s'))) -> (forall e s1, gd e -> gd (fst (k e s1))) ->
  GO (fst (on_ env r s k)).
Proof.
  intros H Hk. unfold on_. specialize (H s).
  destruct (build env r s) as [[e|] s1]; cbn [fst GO some_] in *; [now apply Hk|exact I].
Qed.

Lemma on_f_GO r f s k (Q : built_fmt -> Prop) :
  (forall s', GO (fst (build env r s'))) ->
  (forall s', Q (fst (bfmt env f bf_empty s'))) ->
  (forall e b s1, gd e -> Q b -> gd (fst (k e b s1))) ->
  GO (fst (on_f_ env r f s k)).
Proof.
  intros H HQ Hk. unfold on_f_. specialize (H s). destruct (build env r s) as [o s1].
  specialize (HQ s1). destruct (bfmt env f bf_empty s1) as [b s2]. cbn [fst] in *.
  destruct o as [e|]; cbn [fst GO some_] in *; [now apply Hk|exact I].
Qed.

Lemma blist_gd rs :
  Forall (fun x => forall s, GO (fst (build env x s))) rs ->
  forall s, Forall gd (fst (blist env rs s)).
Proof.
  induction 1 as [|x rs Hx Hrs IH]; intro s; [constructor|].
  cbn [blist]. specialize (Hx s). destruct (build env x s) as [o s1]. cbn [fst] in Hx.
  specialize (IH s1). destruct (blist env rs s1) as [es s2]. cbn [fst] in *.
  destruct o as [e|]; [constructor; assumption|exact IH].
Qed.

Lemma multi_gd i k es :
  match k with MFmtWraps m => tidy m | _ => True end -> Forall gd es -> gd (Multi i k es).
Proof.
  intros Hk Hes. split; cbn [hd_ok stkP].
  - split; [exact Hk|]. apply allP_Forall. revert Hes. apply Forall_impl. intros a Ha. apply Ha.
  - apply allP_Forall. revert Hes. apply Forall_impl. intros a Ha. apply Ha.
Qed.

Lemma sentinel_gd n : GO (sentinel n).
Proof.
  destruct n as [|p]; [split; [reflexivity|exact I]|].
  do 4 (try destruct p as [p|p|]); try exact I; split; try reflexivity; exact I.
Qed.

(* ---- network hops ---- *)
Lemma decode_list_gd p cs :
  (forall y, In y cs -> forall n, gd (fst (decode p y n))) ->
  forall n, Forall gd (fst (decode_list (decode p) cs n)).
Proof.
  induction cs as [|y r IH]; intros H n; cbn [decode_list]; [constructor|].
  pose proof (H y (or_introl eq_refl) n) as Hy. destruct (decode p y n) as [e n1]. cbn [fst] in Hy.
  assert (Hr : forall z, In z r -> forall n, gd (fst (decode p z n))) by (intros z Hz; apply H; now right).
  specialize (IH Hr n1). destruct (decode_list (decode p) r n1) as [es n2]. cbn [fst] in *.
  constructor; assumption.
Qed.

Lemma oleaf_gd i msg d es : tidy msg -> dok true msg d -> Forall gd es -> gd (OLeaf i msg d es).
Proof.
  intros Tm Hd Hes. split; cbn [hd_ok stkP].
  - split; [exact Tm|]. split; [|exact Hd]. apply allP_Forall. revert Hes. apply Forall_impl. intros a Ha. apply Ha.
  - apply allP_Forall. revert Hes. apply Forall_impl. intros a Ha. apply Ha.
Qed.

Lemma owrap_gd i msg d mt ec : tidy msg -> dok false msg d -> gd ec -> gd (OWrap i msg d mt ec).
Proof. intros Tm Hd [A B]. split; cbn [hd_ok stkP]; [repeat split; assumption|exact B]. Qed.

Lemma leaf_gd i k : hdl k -> match k with LPkgFund _ stk => SP stk | _ => True end -> gd (Leaf i k).
Proof. intros A B. split; [exact A|exact B]. Qed.

Ltac eqb_case fam k T :=
  destruct (str_eqb fam k) eqn:T; [apply str_eqb_eq in T; subst fam|clear T].

Lemma decode_gd p : forall k x, (esize x < k)%nat -> eok x -> forall n, gd (fst (decode p x n)).
Proof.
  induction k as [|k IH]; intros x Hk Hx n; [lia|].
  destruct x as [msg d cs|c msg d mt].
  - (* leaf message *)
    apply eok_leaf in Hx. destruct Hx as (Tm & Hd & Hcs).
    assert (HL : forall n, Forall gd (fst (decode_list (decode p) cs n))).
    { apply decode_list_gd. intros y Hy n'. apply IH.
      - pose proof (esize_in msg d cs y Hy). lia.
      - rewrite Forall_forall in Hcs. now apply Hcs. }
    assert (HP : forall m n', dt_full d = Some (PlEnc m) -> gd (fst (decode p m n'))).
    { intros m n' E. destruct d as [o fam ext rep pl]. cbn [dt_full] in E. subst pl.
      cbn [dok pok] in Hd. apply IH; [|apply Hd]. cbn [esize dsize psize] in Hk. lia. }
    clear IH Hk Hcs.
    destruct d as [o fam ext rep pl]. cbn [dt_full] in HP.
    set (e := fst (decode p (ELeaf msg (mkdet o fam ext rep pl) cs) n)).
    assert (He : e = fst (decode p (ELeaf msg (mkdet o fam ext rep pl) cs) n)) by reflexivity.
    clearbody e. cbn [decode] in He.
    specialize (HL n). destruct (decode_list (decode p) cs n) as [es n1]. cbn [fst] in HL.
    cbv beta iota zeta delta [Codec.fresh] in He.
    assert (HO : forall i, gd (OLeaf i msg (mkdet o fam ext rep pl) es)).
    { intro i. now apply oleaf_gd. }
    destruct (mem_str fam leaf_decoder_keys && knows p fam) eqn:K1.
    + eqb_case fam k_errorString T.
      { cbn [fst] in He. subst e. apply leaf_gd; [exact Tm|exact I]. }
      eqb_case fam k_deadline T.
      { cbn [fst] in He. subst e. apply leaf_gd; exact I. }
      eqb_case fam k_leafError T.
      { destruct pl as [[s|l|l|m tys|pe|m|c|c|c m| |u raw]|]; cbn [fst] in He; subst e; try apply HO.
        cbn [dok pok] in Hd. apply leaf_gd; [exact (Hd eq_refl)|exact I]. }
      eqb_case fam k_barrier T.
      { destruct pl as [[s|l|l|m tys|pe|m|c|c|c m| |u raw]|];
          try (cbn [fst] in He; subst e; apply HO).
        pose proof (HP m n eq_refl) as Gm. destruct (decode p m n) as [em n2]. cbn [fst] in *. subst e.
        cbn [dok pok] in Hd. apply barrier_gd; [exact (proj2 Hd eq_refl eq_refl)|exact Gm]. }
      eqb_case fam k_barrierPrev T.
      { destruct pl as [[s|l|l|m tys|pe|m|c|c|c m| |u raw]|];
          try (cbn [fst] in He; subst e; apply HO).
        pose proof (HP m n eq_refl) as Gm. destruct (decode p m n) as [em n2]. cbn [fst] in *. subst e.
        apply barrier_gd; [now apply unsafe_msg_Qs|exact Gm]. }
      eqb_case fam k_unimpl T.
      { cbn [fst] in He. subst e. apply leaf_gd; [exact Tm|exact I]. }
      destruct (str_eqb fam k_errno || str_eqb fam k_opaqueErrno) eqn:T.
      { destruct pl as [[s|l|l|m tys|pe|m|c|c|c m| |u raw]|];
          try (cbn [fst] in He; subst e; apply HO).
        destruct (str_eqb (en_arch pe) this_arch); cbn [fst] in He; subst e;
          apply leaf_gd; try exact I; exact Tm. }
      clear T.
      eqb_case fam k_grpcStatus T.
      { destruct pl as [[s|l|l|m tys|pe|m|c|c|c m| |u raw]|];
          try (cbn [fst] in He; subst e; apply HO).
        destruct (c =? 0); cbn [fst] in He; subst e; [apply HO|].
        cbn [dok pok] in Hd. apply leaf_gd; [exact Hd|exact I]. }
      eqb_case fam k_gogoStatus T.
      { destruct pl as [[s|l|l|m tys|pe|m|c|c|c m| |u raw]|];
          try (cbn [fst] in He; subst e; apply HO).
        destruct (c =? 0); cbn [fst] in He; subst e; [apply HO|].
        cbn [dok pok] in Hd. apply leaf_gd; [exact Hd|exact I]. }
      cbn [fst] in He. subst e. apply HO.
    + destruct (mem_str fam multi_decoder_keys && knows p fam) eqn:K2.
      * destruct es as [|e1 es]; cbn [fst] in He; subst e.
        -- apply oleaf_gd; [exact Tm|exact Hd|constructor].
        -- now apply multi_gd.
      * destruct pl as [[s|l|l|m tys|pe|m|c|c|c m| |u raw]|]; cbn [fst] in He; subst e; try apply HO.
        apply leaf_gd; exact I.
  - (* wrapper message *)
    cbn [eok] in Hx. destruct Hx as (Hc & Tm & Hd).
    assert (Gc : forall n', gd (fst (decode p c n'))).
    { intro n'. apply IH; [|exact Hc]. cbn [esize] in Hk. lia. }
    assert (HP : forall m n', dt_full d = Some (PlEnc m) -> gd (fst (decode p m n'))).
    { intros m n' E. destruct d as [o fam ext rep pl]. cbn [dt_full] in E. subst pl.
      cbn [dok pok] in Hd. apply IH; [|apply Hd]. cbn [esize dsize psize] in Hk. lia. }
    clear IH Hk Hc.
    destruct d as [o fam ext rep pl]. cbn [dt_full] in HP.
    set (e := fst (decode p (EWrap c msg (mkdet o fam ext rep pl) mt) n)).
    assert (He : e = fst (decode p (EWrap c msg (mkdet o fam ext rep pl) mt) n)) by reflexivity.
    clearbody e. cbn [decode] in He.
    specialize (Gc n). destruct (decode p c n) as [ec n0]. cbn [fst] in Gc.
    cbv beta iota zeta delta [Codec.fresh] in He.
    assert (HO : forall i, gd (OWrap i msg (mkdet o fam ext rep pl) mt ec)).
    { intro i. now apply owrap_gd. }
    assert (HW : forall i w, hdw w -> wstackP SP w -> gd (Wrap i w ec)).
    { intros i w A B. now apply wrap_gd. }
    destruct (mem_str fam wrap_decoder_keys && knows p fam) eqn:K1; [|cbn [fst] in He; subst e; apply HO].
    eqb_case fam k_withPrefix T.
    { destruct pl as [[s|l|tags|m tys|pe|m|cd|cd|cd m| |u raw]|]; cbn [fst] in He; subst e; try apply HO.
      cbn [dok pok] in Hd. apply HW; [exact (Hd (or_introl eq_refl))|exact I]. }
    eqb_case fam k_withNewMessage T.
    { destruct pl as [[s|l|tags|m tys|pe|m|cd|cd|cd m| |u raw]|]; cbn [fst] in He; subst e; try apply HO.
      cbn [dok pok] in Hd. apply HW; [exact (Hd (or_intror eq_refl))|exact I]. }
    eqb_case fam k_withHint T.
    { destruct pl as [[s|l|tags|m tys|pe|m|cd|cd|cd m| |u raw]|]; cbn [fst] in He; subst e; try apply HO.
      apply HW; exact I. }
    eqb_case fam k_withDetail T.
    { destruct pl as [[s|l|tags|m tys|pe|m|cd|cd|cd m| |u raw]|]; cbn [fst] in He; subst e; try apply HO.
      apply HW; exact I. }
    eqb_case fam k_withIssueLink T. { cbn [fst] in He. subst e. apply HW; exact I. }
    eqb_case fam k_withTelemetry T. { cbn [fst] in He. subst e. apply HW; exact I. }
    eqb_case fam k_withDomain T.
    { destruct rep as [|d0 rep]; cbn [fst] in He; subst e; [apply HO|apply HW; exact I]. }
    eqb_case fam k_withContext T.
    { destruct pl as [[s|l|tags|m tys|pe|m|cd|cd|cd m| |u raw]|];
        try (destruct tags as [|tg tags]; destruct rep as [|r0 rep]);
        cbn [fst] in He; subst e; try apply HO; apply HW; exact I. }
    eqb_case fam k_withAssert T. { cbn [fst] in He. subst e. apply HW; exact I. }
    eqb_case fam k_withMark T.
    { destruct pl as [[s|l|tags|m tys|pe|m|cd|cd|cd m| |u raw]|];
        try (destruct tys as [|t tys]); cbn [fst] in He; subst e; try apply HO; apply HW; exact I. }
    eqb_case fam k_withSafeDetails T. { cbn [fst] in He. subst e. apply HW; exact I. }
    eqb_case fam k_withSecondary T.
    { destruct pl as [[s|l|tags|m tys|pe|m|cd|cd|cd m| |u raw]|];
        try (cbn [fst] in He; subst e; apply HO).
      pose proof (HP m (Pos.succ n0) eq_refl) as Gm.
      destruct (decode p m (Pos.succ n0)) as [es n2]. cbn [fst] in *. subst e. now apply second_gd. }
    eqb_case fam k_withHTTP T.
    { destruct pl as [[s|l|tags|m tys|pe|m|cd|cd|cd m| |u raw]|]; cbn [fst] in He; subst e; try apply HO.
      apply HW; exact I. }
    eqb_case fam k_withGrpc T.
    { destruct pl as [[s|l|tags|m tys|pe|m|cd|cd|cd m| |u raw]|]; cbn [fst] in He; subst e; try apply HO.
      apply HW; exact I. }
    eqb_case fam k_pkgMsg T. { cbn [fst] in He. subst e. apply HW; [exact Tm|exact I]. }
    eqb_case fam k_pathError T.
    { destruct pl as [[s|l|tags|m tys|pe|m|cd|cd|cd m| |u raw]|];
        try (destruct l as [|a [|b l]]); cbn [fst] in He; subst e; try apply HO.
      cbn [dok pok] in Hd. inversion Hd as [|? ? Ha Hd']; subst. inversion Hd' as [|? ? Hb Hd'']; subst.
      apply HW; [now split|exact I]. }
    eqb_case fam k_linkError T.
    { destruct pl as [[s|l|tags|m tys|pe|m|cd|cd|cd m| |u raw]|];
        try (destruct l as [|a [|b [|c3 l]]]); cbn [fst] in He; subst e; try apply HO.
      cbn [dok pok] in Hd. inversion Hd as [|? ? Ha Hd1]; subst. inversion Hd1 as [|? ? Hb Hd2]; subst.
      inversion Hd2 as [|? ? Hc3 Hd3]; subst.
      apply HW; [repeat split; assumption|exact I]. }
    eqb_case fam k_syscallError T. { cbn [fst] in He. subst e. apply HW; [exact Tm|exact I]. }
    cbn [fst] in He. subst e. apply HO.
Qed.

Lemma hop_gd p e n : gd e -> gd (fst (hop p e n)).
Proof.
  intros [H _]. unfold hop. apply (decode_gd p (S (esize (encode e)))); [lia|now apply encode_eok].
Qed.

Lemma transfer_gd ps : forall e n, gd e -> gd (fst (transfer ps e n)).
Proof.
  induction ps as [|p r IH]; intros e n H; cbn [transfer]; [exact H|].
  pose proof (hop_gd p e n H) as G. destruct (hop p e n) as [e1 n1]. cbn [fst] in G. now apply IH.
Qed.

Definition PB (r : recipe) : Prop := okr r -> forall bs, GO (fst (build env r bs)).

Ltac annot Pr bs w :=
  match goal with
  | |- GO (fst (build env ?r0 bs)) =>
    match r0 with context [?r] =>
      match type of r with recipe =>
        change (build env r0 bs) with (on_ env r bs (mk_wrap w));
        apply on_GO; [exact Pr|];
        let e := fresh "e" in let s1 := fresh "s1" in let He := fresh "He" in
        intros e s1 He; apply mk_wrap_gd; [|exact I|exact He]
      end
    end
  end.

Lemma build_gd_all : forall r, PB r.
Proof.
  induction r as [r IH] using recipe_kids_ind. unfold PB. intros Hok.
  destruct (okr_inv r Hok) as (C2 & C3 & HK).
  assert (IHk : Forall (fun x => forall bs, GO (fst (build env x bs))) (kids r)).
  { rewrite Forall_forall in *. intros x Hx. exact (IH x Hx (HK x Hx)). }
  clear IH HK Hok.
  destruct r; cbn [kids] in IHk; cbn [chk_np chk_str] in C2, C3; intro bs;
    try pose proof (Forall_inv IHk) as Pr; try apply tidyb_tidy in C3.
  - (* RNil *) exact I.
  - (* RSentinel *) apply sentinel_gd.
  - (* RStdNew *) split; [exact C3|exact I].
  - (* RNew *)
    change (build env (RNew msg) bs) with
      (let '(e, s1) := mk_leaf (LLeafError (sprint_pieces [PSafe msg])) bs in some_ (with_stack env e s1)).
    unfold mk_leaf, fresh_oid. cbn [some_ fst GO]. apply with_stack_gd.
    split; [now apply safe_msg_Qs|exact I].
  - (* RNewf *)
    rewrite build_newf. unfold some_. cbn [fst GO]. apply newf_gd.
    intro s'. apply bfmt_BF; try assumption. exact BF_empty.
  - (* RPkgNew *)
    change (fst (build env (RPkgNew msg) bs)) with
      (Some (Leaf (bs_oid bs) (LPkgFund msg (nth (bs_stk bs) (be_stacks env) [])))).
    split; [exact C3|apply HSP].
  - (* RErrno *) split; exact I.
  - (* RUnimpl *) split; [exact C3|exact I].
  - (* RAssertf *)
    rewrite build_assertf.
    assert (G : gd (fst (newf_ env f bs))).
    { apply newf_gd. intro s'. apply bfmt_BF; try assumption. exact BF_empty. }
    destruct (newf_ env f bs) as [e s1]. cbn [fst] in G. unfold some_. cbn [fst GO].
    apply mk_wrap_gd; [exact I|exact I|exact G].
  - (* RGrpcStatus *)
    change (build env (RGrpcStatus code msg) bs) with
      (if code =? 0 then (@None err, bs) else some_ (mk_leaf (LGrpcStatus code msg) bs)).
    destruct (code =? 0); [exact I|]. split; [exact C3|exact I].
  - (* RGogoStatus *)
    change (build env (RGogoStatus code msg) bs) with
      (if code =? 0 then (@None err, bs) else some_ (mk_leaf (LGogoStatus code msg) bs)).
    destruct (code =? 0); [exact I|]. split; [exact C3|exact I].
  - (* RTestError *) split; exact I.
  - (* RULeaf *) split; [exact C3|exact I].
  - (* RWrap *)
    rewrite build_wrap. apply on_GO; [exact Pr|]. intros e s1 He.
    destruct msg as [|x msg].
    + now apply with_stack_gd.
    + unfold mk_wrap, fresh_oid. apply with_stack_gd.
      apply wrap_gd; [now apply safe_msg_Qs|exact I|exact He].
  - (* RWrapf *)
    rewrite build_wrapf. apply (on_f_GO r f bs _ BF); [exact Pr| |].
    + intro s'. apply bfmt_BF; try assumption; [exact (Forall_inv_tail IHk)|exact BF_empty].
    + intros e b s1 He Hb. now apply wrapf_gd.
  - (* RWithMessage *)
    change (build env (RWithMessage r msg) bs) with
      (on_ env r bs (mk_wrap (WPrefix (sprint_pieces [PSafe msg])))).
    apply on_GO; [exact Pr|]. intros e s1 He.
    apply mk_wrap_gd; [now apply safe_msg_Qs|exact I|exact He].
  - (* RWithMessagef *)
    rewrite build_withmessagef. apply (on_f_GO r f bs _ BF); [exact Pr| |].
    + intro s'. apply bfmt_BF; try assumption; [exact (Forall_inv_tail IHk)|exact BF_empty].
    + intros e b s1 He Hb. apply mk_wrap_gd; [now apply msg_Qs|exact I|exact He].
  - (* RWithStack *)
    change (build env (RWithStack r) bs) with (on_ env r bs (with_stack env)).
    apply on_GO; [exact Pr|]. intros e s1 He. now apply with_stack_gd.
  - (* RHint *) annot Pr bs (WHint h). exact I.
  - (* RHintf *)
    rewrite build_hintf. apply (on_f_GO r f bs _ (fun _ => True)); [exact Pr|intro s'; exact I|].
    intros e b s1 He _. apply mk_wrap_gd; [exact I|exact I|exact He].
  - (* RDetailf *)
    rewrite build_detailf. apply (on_f_GO r f bs _ (fun _ => True)); [exact Pr|intro s'; exact I|].
    intros e b s1 He _. apply mk_wrap_gd; [exact I|exact I|exact He].
  - (* RDetail *) annot Pr bs (WDetail d). exact I.
  - (* RIssueLink *) annot Pr bs (WIssueLink url det). exact I.
  - (* RTelemetry *) annot Pr bs (WTelemetry keys). exact I.
  - (* RDomain *) annot Pr bs (WDomain d). exact I.
  - (* RTags *)
    change (build env (RTags r tags) bs) with
      (on_ env r bs (fun e s1 => match tags with [] => (e, s1)
                                 | _ => mk_wrap (WContext (tags_of tags) None) e s1 end)).
    apply on_GO; [exact Pr|]. intros e s1 He.
    destruct tags; [exact He|]. apply mk_wrap_gd; [exact I|exact I|exact He].
  - (* RAssert *) annot Pr bs WAssert. exact I.
  - (* RMark *)
    rewrite build_mark. pose proof (Pr bs) as G1. destruct (build env r1 bs) as [o s1].
    pose proof (Forall_inv (Forall_inv_tail IHk) s1) as G2. destruct (build env r2 s1) as [ox s2].
    cbn [fst] in *. destruct o as [e|]; [|exact I]. destruct ox as [x|]; [|exact G1].
    unfold some_. cbn [fst GO]. apply mk_wrap_gd; [exact I|exact I|exact G1].
  - (* RSafeDetails *)
    rewrite build_safedetails. apply (on_f_GO r f bs _ (fun _ => True)); [exact Pr|intro s'; exact I|].
    intros e b s1 He _. destruct (is_fmt_empty f); [exact He|].
    apply mk_wrap_gd; [exact I|exact I|exact He].
  - (* RHTTP *) annot Pr bs (WHTTP code). exact I.
  - (* RGrpc *) annot Pr bs (WGrpc code). exact I.
  - (* RSecondary *)
    rewrite build_secondary. pose proof (Pr bs) as G1. destruct (build env r1 bs) as [o s1].
    pose proof (Forall_inv (Forall_inv_tail IHk) s1) as G2. destruct (build env r2 s1) as [ox s2].
    cbn [fst] in *. destruct o as [e|]; [|exact I]. destruct ox as [x|]; [|exact G1].
    unfold fresh_oid. cbn [fst GO]. now apply second_gd.
  - (* RCombine *)
    rewrite build_combine. pose proof (Pr bs) as G1. destruct (build env r1 bs) as [o s1].
    pose proof (Forall_inv (Forall_inv_tail IHk) s1) as G2. destruct (build env r2 s1) as [ox s2].
    cbn [fst] in *. destruct o as [e|]; [|exact G2]. destruct ox as [x|]; [|exact G1].
    unfold fresh_oid. cbn [fst GO]. now apply second_gd.
  - (* RHandled *)
    change (build env (RHandled r) bs) with (on_ env r bs handled_).
    apply on_GO; [exact Pr|]. intros e s1 He. now apply handled_gd.
  - (* RHandledMsg *)
    change (build env (RHandledMsg r msg) bs) with
      (on_ env r bs (fun e s1 => let '(i, s2) := fresh_oid s1 in
                                 (Barrier i (sprint_pieces [PUnsafe msg]) e, s2))).
    apply on_GO; [exact Pr|]. intros e s1 He. unfold fresh_oid. cbn [fst].
    apply barrier_gd; [now apply unsafe_msg_Qs|exact He].
  - (* RHandledMsgf *)
    rewrite build_handledmsgf. apply (on_f_GO r f bs _ BF); [exact Pr| |].
    + intro s'. apply bfmt_BF; try assumption; [exact (Forall_inv_tail IHk)|exact BF_empty].
    + intros e b s1 He Hb. unfold fresh_oid. cbn [fst]. apply barrier_gd; [now apply msg_Qs|exact He].
  - (* RHandledInDomain *)
    change (build env (RHandledInDomain r d) bs) with
      (on_ env r bs (fun e s1 => let '(b, s2) := handled_ e s1 in mk_wrap (WDomain d) b s2)).
    apply on_GO; [exact Pr|]. intros e s1 He.
    pose proof (handled_gd e s1 He) as G. destruct (handled_ e s1) as [b s2]. cbn [fst] in G.
    apply mk_wrap_gd; [exact I|exact I|exact G].
  - (* RHandledInDomainMsg *)
    change (build env (RHandledInDomainMsg r d msg) bs) with
      (on_ env r bs (fun e s1 => let '(i, s2) := fresh_oid s1 in
                                 mk_wrap (WDomain d) (Barrier i (sprint_pieces [PUnsafe msg]) e) s2)).
    apply on_GO; [exact Pr|]. intros e s1 He. unfold fresh_oid.
    apply mk_wrap_gd; [exact I|exact I|]. apply barrier_gd; [now apply unsafe_msg_Qs|exact He].
  - (* RHandleAssert *)
    change (build env (RHandleAssert r) bs) with
      (on_ env r bs (fun e s1 => let '(b, s2) := handled_ e s1 in
                                 let '(w, s3) := with_stack env b s2 in mk_wrap WAssert w s3)).
    apply on_GO; [exact Pr|]. intros e s1 He.
    pose proof (handled_gd e s1 He) as G. destruct (handled_ e s1) as [b s2]. cbn [fst] in G.
    pose proof (with_stack_gd b s2 G) as G'. destruct (with_stack env b s2) as [w s3]. cbn [fst] in G'.
    apply mk_wrap_gd; [exact I|exact I|exact G'].
  - (* RNewAssertWrapped *)
    rewrite build_newassertwrapped. apply (on_f_GO r f bs _ BF); [exact Pr| |].
    + intro s'. apply bfmt_BF; try assumption; [exact (Forall_inv_tail IHk)|exact BF_empty].
    + intros e b0 s1 He Hb.
      pose proof (handled_gd e s1 He) as G. destruct (handled_ e s1) as [b s2]. cbn [fst] in G.
      pose proof (wrapf_gd b f b0 s2 G Hb) as G'. destruct (wrapf_ env b f b0 s2) as [w s3]. cbn [fst] in G'.
      apply mk_wrap_gd; [exact I|exact I|exact G'].
  - (* RJoin *)
    rewrite build_join. pose proof (blist_gd rs IHk bs) as G.
    destruct (blist env rs bs) as [es s1]. cbn [fst] in G.
    destruct es as [|e0 es]; [exact I|]. unfold fresh_oid, some_. cbn [fst GO].
    apply with_stack_gd. now apply multi_gd.
  - (* RStdJoin *)
    rewrite build_stdjoin. pose proof (blist_gd rs IHk bs) as G.
    destruct (blist env rs bs) as [es s1]. cbn [fst] in G.
    destruct es as [|e0 es]; [exact I|]. unfold fresh_oid. cbn [fst GO]. now apply multi_gd.
  - (* RFmtErrorf *)
    rewrite build_fmterrorf.
    assert (HB : BF (fst (bfmt env f bf_empty bs))) by (apply bfmt_BF; try assumption; exact BF_empty).
    destruct (bfmt env f bf_empty bs) as [b s1]. cbn [fst] in HB. unfold fresh_oid.
    pose proof (bf_3 _ HB) as Tp. pose proof (bf_5 _ HB) as Hw.
    destruct (bf_nw b) as [|[|n]].
    + split; [exact Tp|exact I].
    + destruct (bf_wrapped b) as [|w ws].
      * split; [exact Tp|exact I].
      * inversion Hw; subst. cbn [fst GO]. apply wrap_gd; [exact Tp|exact I|assumption].
    + cbn [fst GO]. now apply multi_gd.
  - (* RPkgMsg *) annot Pr bs (WPkgMsg msg). exact C3.
  - (* RPkgStack *)
    change (build env (RPkgStack r) bs) with
      (on_ env r bs (fun e s1 => let '(st, s2) := fresh_stack env s1 in mk_wrap (WPkgStack st) e s2)).
    apply on_GO; [exact Pr|]. intros e s1 He. unfold fresh_stack.
    apply mk_wrap_gd; [exact I|apply HSP|exact He].
  - (* RPathError *)
    apply andb_true_iff in C3 as [A B]. apply tidyb_tidy in A, B.
    annot Pr bs (WPathError op path). now split.
  - (* RLinkError *)
    apply andb_true_iff in C3 as [A C]. apply andb_true_iff in A as [A B]. apply tidyb_tidy in A, B, C.
    annot Pr bs (WLinkError op old new). repeat split; assumption.
  - (* RSyscallError *) annot Pr bs (WSyscallError sc). exact C3.
  - (* ROpError *)
    apply andb_true_iff in C3 as [A D]. apply andb_true_iff in A as [A C]. apply andb_true_iff in A as [A B].
    apply tidyb_tidy in A, B, C, D.
    annot Pr bs (WOpError op net src addr). repeat split; assumption.
  - (* RForeignErrno *)
    split; [|exact I]. apply tidy_ascii, errno_text_ascii.
  - (* RUWrap *) annot Pr bs (WUser u msg xs). exact C3.
  - (* RTransfer *)
    change (build env (RTransfer r ps) bs) with
      (on_ env r bs (fun e s1 => let '(e1, n1) := transfer ps e (bs_oid s1) in (e1, mkbs n1 (bs_stk s1)))).
    apply on_GO; [exact Pr|]. intros e s1 He.
    pose proof (transfer_gd ps e (bs_oid s1) He) as G.
    destruct (transfer ps e (bs_oid s1)) as [e1 n1]. exact G.
Qed.

Theorem build_gd r bs e bs' :
  no_plusv r = true -> strs_ok r = true ->
  build env r bs = (Some e, bs') -> hd_ok e /\ stkP SP e.
Proof.
  intros B C E. pose proof (build_gd_all r (conj B C) bs) as G.
  rewrite E in G. exact G.
Qed.
End Api.

(* ================================================================== *)
(* 7b. Goal 1 without any condition on the strings, for recipes whose  *)
(*     error arguments come last                                       *)
(* ================================================================== *)
(* The only way a stored redactable string can be ill-formed is the splicing of
   the rendering of an error ARGUMENT in front of other bytes (or a %+v
   argument).  When, in every format call that builds a message, an error
   argument occurs only as the LAST piece and not with %+v, [sh_ok] holds for
   ARBITRARY bytes in every string (no transfer). *)
Definition plain_piece (p : fpiece) : bool := match p with FErr _ _ => false | _ => true end.

Fixpoint fmt_lastarg (f : list fpiece) : bool :=
  match f with
  | [] => true
  | p :: rest =>
    match rest with
    | [] => match p with FErr VPlusV _ => false | _ => true end
    | _ => plain_piece p && fmt_lastarg rest
    end
  end.

Definition chk_la (r : recipe) : bool :=
  match r with
  | RNewf f | RAssertf f | RWrapf _ f | RWithMessagef _ f | RHandledMsgf _ f
  | RNewAssertWrapped _ f => fmt_lastarg f
  | _ => true
  end.
Definition errargs_last : recipe -> bool := all_nodes chk_la.

Lemma la_tail p rest : plain_piece p = true -> fmt_lastarg (p :: rest) = true -> fmt_lastarg rest = true.
Proof.
  intros Hp H. destruct rest as [|q rest]; [reflexivity|].
  change (plain_piece p && fmt_lastarg (q :: rest) = true) in H. now apply andb_true_iff in H.
Qed.

Lemma la_err v x rest : fmt_lastarg (FErr v x :: rest) = true -> rest = [] /\ v <> VPlusV.
Proof.
  destruct rest as [|q rest]; intro H.
  - split; [reflexivity|]. intros ->. discriminate H.
  - change (false && fmt_lastarg (q :: rest) = true) in H. discriminate H.
Qed.

Section ApiLast.
Variable env : benv.

Definition GO2 (o : option err) : Prop := match o with Some e => sh_ok e | None => True end.

Lemma wrap_s i w e : wfield_ok w -> sh_ok e -> sh_ok (Wrap i w e).
Proof. intros A B. split; assumption. Qed.

Lemma mk_wrap_s w e s : wfield_ok w -> sh_ok e -> sh_ok (fst (mk_wrap w e s)).
Proof. intros. unfold mk_wrap, fresh_oid. cbn [fst]. now apply wrap_s. Qed.

Lemma with_stack_s e s : sh_ok e -> sh_ok (fst (with_stack env e s)).
Proof. intro H. unfold with_stack, fresh_stack, mk_wrap, fresh_oid. cbn [fst]. now apply wrap_s. Qed.

Lemma add_sec_s es : forall e s, sh_ok e -> sh_ok (fst (add_sec es e s)).
Proof.
  induction es as [|x es IH]; intros e s He; cbn [add_sec]; [exact He|].
  unfold fresh_oid. apply IH. exact He.
Qed.

Lemma okps_wf ps : okps ps -> wf_red (sprint_pieces ps) = true.
Proof. intro H. apply cls_wf, cln_cls, sprint_cln, H. Qed.

Lemma nested_v_tail e : sh_ok e -> tail_ok (nested_v (sem e)).
Proof. intro H. apply nested_v_ok, short_node_ok, H. Qed.

Lemma handled_s e s : sh_ok e -> sh_ok (fst (handled_ e s)).
Proof.
  intro H. unfold handled_, fresh_oid. cbn [fst sh_ok]. apply okps_wf, okps_one. now apply nested_v_tail.
Qed.

Lemma pieces_okps ps : pieces_ok ps -> okps ps.
Proof.
  intro H. destruct ps as [|p0 ps0]; [split; [constructor|exact I]|].
  assert (E : p0 :: ps0 = removelast (p0 :: ps0) ++ [last (p0 :: ps0) (PLit [])])
    by (apply app_removelast_last; discriminate).
  unfold pieces_ok in H. rewrite E in H. apply Forall_app in H as [H1 H2]. split; [exact H1|].
  apply Forall_inv in H2. destruct (last (p0 :: ps0) (PLit [])); cbn [tail_ok]; try exact I.
  apply cln_cls, raw_ok_cln. exact H2.
Qed.

Lemma okps_snoc pre p : pieces_ok pre -> tail_ok p -> okps (pre ++ [p]).
Proof. intros H1 H2. unfold okps. rewrite removelast_last, last_last. split; assumption. Qed.

Lemma extras_pieces l : forall first, pieces_ok (fst (extras_go l first)).
Proof.
  induction l as [|q l IH]; intro first; cbn [extras_go].
  - repeat constructor.
  - specialize (IH false). destruct (extras_go l false) as [rs rl]. cbn [fst] in IH.
    assert (E : pieces_ok (fst (extras_one q))) by (destruct q; cbn [extras_one fst]; repeat constructor).
    destruct (extras_one q) as [ps pl]. cbn [fst] in *.
    apply Forall_app. split; [destruct first; repeat constructor|]. apply Forall_app. now split.
Qed.

Definition BL (b : built_fmt) : Prop := pieces_ok (bf_pieces b) /\ Forall sh_ok (bf_wrapped b).
Definition BR (b : built_fmt) : Prop := okps (bf_pieces b) /\ Forall sh_ok (bf_wrapped b).

Lemma BL_add b p pl : BL b -> pieces_ok [p] -> BL (bf_add b p pl).
Proof.
  intros [H1 H2] Hp. split; cbn [bf_add bf_pieces bf_wrapped]; [|exact H2].
  apply Forall_app. split; assumption.
Qed.

(* the %w arguments are built errors, whatever the format *)
Lemma bfmt_wrapped f :
  Forall (fun x => forall s, GO2 (fst (build env x s))) (fkids f) ->
  forall acc s, Forall sh_ok (bf_wrapped acc) -> Forall sh_ok (bf_wrapped (fst (bfmt env f acc s))).
Proof.
  induction f as [|p f IH]; intros HP acc s Hb; [exact Hb|].
  destruct p as [l|v x|v x|v z|v z|v x|x|x|z]; cbn [fkids] in HP;
    try (cbn [bfmt]; apply IH; [exact HP|exact Hb]);
    try (cbn [bfmt]; cbv zeta; cbn [fst bf_wrapped]; exact Hb).
  inversion HP as [|? ? Px HPf]; subst. specialize (Px s). cbn [bfmt].
  destruct (build env x s) as [[e|] s1]; cbn [fst GO2] in Px.
  - apply IH; [exact HPf|]. cbn [bf_wrapped]. destruct v; try exact Hb.
    apply Forall_app. split; [exact Hb|constructor; [exact Px|constructor]].
  - apply IH; [exact HPf|]. cbv zeta. cbn [bf_wrapped bf_add]. exact Hb.
Qed.

Lemma bfmt_last f :
  Forall (fun x => forall s, GO2 (fst (build env x s))) (fkids f) ->
  fmt_lastarg f = true ->
  forall acc s, BL acc -> BR (fst (bfmt env f acc s)).
Proof.
  induction f as [|p f IH]; intros HP Hl acc s Hb.
  - cbn [bfmt fst]. destruct Hb as [H1 H2]. split; [now apply pieces_okps|exact H2].
  - destruct p as [l|v x|v x|v z|v z|v x|x|x|z]; cbn [fkids] in HP;
      try (cbn [bfmt]; apply IH; [exact HP|eapply la_tail; [|exact Hl]; reflexivity|]; apply BL_add; [exact Hb|repeat constructor]).
    + (* FErr *)
      destruct (la_err _ _ _ Hl) as [-> Hv].
      inversion HP as [|? ? Px HPf]; subst. specialize (Px s). cbn [bfmt].
      destruct (build env x s) as [[e|] s1]; cbn [fst GO2] in Px; cbv zeta; cbn [fst].
      * destruct Hb as [H1 H2]. split; cbn [bf_pieces bf_wrapped].
        -- apply okps_snoc; [exact H1|]. destruct v; try contradiction; now apply nested_v_tail.
        -- destruct v; try exact H2. apply Forall_app. split; [exact H2|constructor; [exact Px|constructor]].
      * destruct Hb as [H1 H2]. split; cbn [bf_pieces bf_wrapped bf_add]; [|exact H2].
        apply pieces_okps. apply Forall_app. split; [exact H1|repeat constructor].
    + cbn [bfmt]. cbv zeta. cbn [fst]. destruct Hb as [H1 H2]. split; cbn [bf_pieces bf_wrapped]; [|exact H2].
      apply pieces_okps. apply Forall_app. split; [exact H1|]. constructor; [exact I|apply extras_pieces].
    + cbn [bfmt]. cbv zeta. cbn [fst]. destruct Hb as [H1 H2]. split; cbn [bf_pieces bf_wrapped]; [|exact H2].
      apply pieces_okps. apply Forall_app. split; [exact H1|]. constructor; [exact I|apply extras_pieces].
    + cbn [bfmt]. cbv zeta. cbn [fst]. destruct Hb as [H1 H2]. split; cbn [bf_pieces bf_wrapped]; [|exact H2].
      apply pieces_okps. apply Forall_app. split; [exact H1|]. constructor; [exact I|apply extras_pieces].
Qed.

Lemma BL_empty : BL bf_empty.
Proof. split; constructor. Qed.

Lemma newf_s f s :
  (forall s', BR (fst (bfmt env f bf_empty s'))) -> sh_ok (fst (newf_ env f s)).
Proof.
  intro HB. unfold newf_. specialize (HB s).
  destruct (bfmt env f bf_empty s) as [b s1]. cbn [fst] in HB. destruct HB as [H1 H2].
  pose proof (okps_wf _ H1) as Hm. set (msg := sprint_pieces (bf_pieces b)) in *.
  assert (H0 : exists e0 s2,
             (match bf_wrapped b with
              | w :: _ => mk_wrap (WNewMsg msg) w s1
              | [] => mk_leaf (LLeafError msg) s1
              end) = (e0, s2) /\ sh_ok e0).
  { destruct (bf_wrapped b) as [|w ws].
    - eexists _, _. split; [reflexivity|exact Hm].
    - inversion H2; subst. eexists _, _. split; [reflexivity|]. now apply wrap_s. }
  destruct H0 as (e0 & s2 & -> & G0).
  pose proof (add_sec_s (bf_errs b) e0 s2 G0) as G1.
  destruct (add_sec (bf_errs b) e0 s2) as [e1 s3]. cbn [fst] in G1.
  now apply with_stack_s.
Qed.

Lemma wrapf_s e f b s : sh_ok e -> BR b -> sh_ok (fst (wrapf_ env e f b s)).
Proof.
  intros He [H1 H2]. unfold wrapf_.
  assert (H0 : exists e0 s2,
             (if is_fmt_empty f then (e, s) else mk_wrap (WPrefix (sprint_pieces (bf_pieces b))) e s) = (e0, s2) /\
             sh_ok e0).
  { destruct (is_fmt_empty f).
    - eexists _, _. split; [reflexivity|exact He].
    - eexists _, _. split; [reflexivity|]. apply wrap_s; [now apply okps_wf|exact He]. }
  destruct H0 as (e0 & s2 & -> & G0).
  pose proof (add_sec_s (bf_errs b) e0 s2 G0) as G1.
  destruct (add_sec (bf_errs b) e0 s2) as [e1 s3]. cbn [fst] in G1.
  now apply with_stack_s.
Qed.

Lemma on_GO2 r s k :
  (forall s', GO2 (fst (build env r s'))) -> (forall e s1, sh_ok e -> sh_ok (fst (k e s1))) ->
  GO2 (fst (on_ env r s k)).
Proof.
  intros H Hk. unfold on_. specialize (H s).
  destruct (build env r s) as [[e|] s1]; cbn [fst GO2 some_] in *; [now apply Hk|exact I].
Qed.

Lemma on_f_GO2 r f s k (Q : built_fmt -> Prop) :
  (forall s', GO2 (fst (build env r s'))) ->
  (forall s', Q (fst (bfmt env f bf_empty s'))) ->
  (forall e b s1, sh_ok e -> Q b -> sh_ok (fst (k e b s1))) ->
  GO2 (fst (on_f_ env r f s k)).
Proof.
  intros H HQ Hk. unfold on_f_. specialize (H s). destruct (build env r s) as [o s1].
  specialize (HQ s1). destruct (bfmt env f bf_empty s1) as [b s2]. cbn [fst] in *.
  destruct o as [e|]; cbn [fst GO2 some_] in *; [now apply Hk|exact I].
Qed.

Lemma blist_s rs :
  Forall (fun x => forall s, GO2 (fst (build env x s))) rs ->
  forall s, Forall sh_ok (fst (blist env rs s)).
Proof.
  induction 1 as [|x rs Hx Hrs IH]; intro s; [constructor|].
  cbn [blist]. specialize (Hx s). destruct (build env x s) as [o s1]. cbn [fst] in Hx.
  specialize (IH s1). destruct (blist env rs s1) as [es s2]. cbn [fst] in *.
  destruct o as [e|]; [constructor; assumption|exact IH].
Qed.

Lemma multi_s i k es : Forall sh_ok es -> sh_ok (Multi i k es).
Proof. intro H. cbn [sh_ok]. now apply allP_Forall. Qed.

Lemma sentinel_s n : GO2 (sentinel n).
Proof.
  destruct n as [|p]; [exact I|].
  do 4 (try destruct p as [p|p|]); exact I.
Qed.

Definition okl (r : recipe) : Prop := no_transfer r = true /\ errargs_last r = true.

Lemma okl_inv r : okl r -> chk_nt r = true /\ chk_la r = true /\ Forall okl (kids r).
Proof.
  intros (A & B).
  destruct (all_nodes_kids _ r A) as [A1 A2]. destruct (all_nodes_kids _ r B) as [B1 B2].
  repeat split; try assumption. rewrite Forall_forall in *. intros x Hx. split; auto.
Qed.

Ltac annot2 Pr bs w :=
  match goal with
  | |- GO2 (fst (build env ?r0 bs)) =>
    match r0 with context [?r] =>
      match type of r with recipe =>
        change (build env r0 bs) with (on_ env r bs (mk_wrap w));
        apply on_GO2; [exact Pr|];
        let e := fresh "e" in let s1 := fresh "s1" in let He := fresh "He" in
        intros e s1 He; apply mk_wrap_s; [exact I|exact He]
      end
    end
  end.

Lemma build_last_all : forall r, okl r -> forall bs, GO2 (fst (build env r bs)).
Proof.
  induction r as [r IH] using recipe_kids_ind. intros Hok.
  destruct (okl_inv r Hok) as (C1 & C2 & HK).
  assert (IHk : Forall (fun x => forall bs, GO2 (fst (build env x bs))) (kids r)).
  { rewrite Forall_forall in *. intros x Hx. exact (IH x Hx (HK x Hx)). }
  clear IH HK Hok.
  destruct r; cbn [kids] in IHk; cbn [chk_nt chk_la] in C1, C2; intro bs;
    try pose proof (Forall_inv IHk) as Pr.
  - (* RNil *) exact I.
  - (* RSentinel *) apply sentinel_s.
  - (* RStdNew *) exact I.
  - (* RNew *)
    change (build env (RNew msg) bs) with
      (let '(e, s1) := mk_leaf (LLeafError (sprint_pieces [PSafe msg])) bs in some_ (with_stack env e s1)).
    unfold mk_leaf, fresh_oid. cbn [some_ fst GO2]. apply with_stack_s. exact (wf_safe msg).
  - (* RNewf *)
    rewrite build_newf. unfold some_. cbn [fst GO2]. apply newf_s.
    intro s'. apply bfmt_last; try assumption. exact BL_empty.
  - (* RPkgNew *) exact I.
  - (* RErrno *) exact I.
  - (* RUnimpl *) exact I.
  - (* RAssertf *)
    rewrite build_assertf.
    assert (G : sh_ok (fst (newf_ env f bs))).
    { apply newf_s. intro s'. apply bfmt_last; try assumption. exact BL_empty. }
    destruct (newf_ env f bs) as [e s1]. cbn [fst] in G. unfold some_. cbn [fst GO2].
    apply mk_wrap_s; [exact I|exact G].
  - (* RGrpcStatus *)
    change (build env (RGrpcStatus code msg) bs) with
      (if code =? 0 then (@None err, bs) else some_ (mk_leaf (LGrpcStatus code msg) bs)).
    destruct (code =? 0); exact I.
  - (* RGogoStatus *)
    change (build env (RGogoStatus code msg) bs) with
      (if code =? 0 then (@None err, bs) else some_ (mk_leaf (LGogoStatus code msg) bs)).
    destruct (code =? 0); exact I.
  - (* RTestError *) exact I.
  - (* RULeaf *) exact I.
  - (* RWrap *)
    rewrite build_wrap. apply on_GO2; [exact Pr|]. intros e s1 He.
    destruct msg as [|x msg].
    + now apply with_stack_s.
    + unfold mk_wrap, fresh_oid. apply with_stack_s. apply wrap_s; [exact (wf_safe _)|exact He].
  - (* RWrapf *)
    rewrite build_wrapf. apply (on_f_GO2 r f bs _ BR); [exact Pr| |].
    + intro s'. apply bfmt_last; try assumption; [exact (Forall_inv_tail IHk)|exact BL_empty].
    + intros e b s1 He Hb. now apply wrapf_s.
  - (* RWithMessage *)
    change (build env (RWithMessage r msg) bs) with
      (on_ env r bs (mk_wrap (WPrefix (sprint_pieces [PSafe msg])))).
    apply on_GO2; [exact Pr|]. intros e s1 He. apply mk_wrap_s; [exact (wf_safe _)|exact He].
  - (* RWithMessagef *)
    rewrite build_withmessagef. apply (on_f_GO2 r f bs _ BR); [exact Pr| |].
    + intro s'. apply bfmt_last; try assumption; [exact (Forall_inv_tail IHk)|exact BL_empty].
    + intros e b s1 He [H1 H2]. apply mk_wrap_s; [now apply okps_wf|exact He].
  - (* RWithStack *)
    change (build env (RWithStack r) bs) with (on_ env r bs (with_stack env)).
    apply on_GO2; [exact Pr|]. intros e s1 He. now apply with_stack_s.
  - (* RHint *) annot2 Pr bs (WHint h).
  - (* RHintf *)
    rewrite build_hintf. apply (on_f_GO2 r f bs _ (fun _ => True)); [exact Pr|intro s'; exact I|].
    intros e b s1 He _. apply mk_wrap_s; [exact I|exact He].
  - (* RDetailf *)
    rewrite build_detailf. apply (on_f_GO2 r f bs _ (fun _ => True)); [exact Pr|intro s'; exact I|].
    intros e b s1 He _. apply mk_wrap_s; [exact I|exact He].
  - (* RDetail *) annot2 Pr bs (WDetail d).
  - (* RIssueLink *) annot2 Pr bs (WIssueLink url det).
  - (* RTelemetry *) annot2 Pr bs (WTelemetry keys).
  - (* RDomain *) annot2 Pr bs (WDomain d).
  - (* RTags *)
    change (build env (RTags r tags) bs) with
      (on_ env r bs (fun e s1 => match tags with [] => (e, s1)
                                 | _ => mk_wrap (WContext (tags_of tags) None) e s1 end)).
    apply on_GO2; [exact Pr|]. intros e s1 He.
    destruct tags; [exact He|]. apply mk_wrap_s; [exact I|exact He].
  - (* RAssert *) annot2 Pr bs WAssert.
  - (* RMark *)
    rewrite build_mark. pose proof (Pr bs) as G1. destruct (build env r1 bs) as [o s1].
    destruct (build env r2 s1) as [ox s2].
    cbn [fst] in *. destruct o as [e|]; [|exact I]. destruct ox as [x|]; [|exact G1].
    unfold some_. cbn [fst GO2]. apply mk_wrap_s; [exact I|exact G1].
  - (* RSafeDetails *)
    rewrite build_safedetails. apply (on_f_GO2 r f bs _ (fun _ => True)); [exact Pr|intro s'; exact I|].
    intros e b s1 He _. destruct (is_fmt_empty f); [exact He|]. apply mk_wrap_s; [exact I|exact He].
  - (* RHTTP *) annot2 Pr bs (WHTTP code).
  - (* RGrpc *) annot2 Pr bs (WGrpc code).
  - (* RSecondary *)
    rewrite build_secondary. pose proof (Pr bs) as G1. destruct (build env r1 bs) as [o s1].
    destruct (build env r2 s1) as [ox s2].
    cbn [fst] in *. destruct o as [e|]; [|exact I]. destruct ox as [x|]; [|exact G1].
    unfold fresh_oid. cbn [fst GO2]. exact G1.
  - (* RCombine *)
    rewrite build_combine. pose proof (Pr bs) as G1. destruct (build env r1 bs) as [o s1].
    pose proof (Forall_inv (Forall_inv_tail IHk) s1) as G2. destruct (build env r2 s1) as [ox s2].
    cbn [fst] in *. destruct o as [e|]; [|exact G2]. destruct ox as [x|]; [|exact G1].
    unfold fresh_oid. cbn [fst GO2]. exact G1.
  - (* RHandled *)
    change (build env (RHandled r) bs) with (on_ env r bs handled_).
    apply on_GO2; [exact Pr|]. intros e s1 He. now apply handled_s.
  - (* RHandledMsg *)
    change (build env (RHandledMsg r msg) bs) with
      (on_ env r bs (fun e s1 => let '(i, s2) := fresh_oid s1 in
                                 (Barrier i (sprint_pieces [PUnsafe msg]) e, s2))).
    apply on_GO2; [exact Pr|]. intros e s1 He. unfold fresh_oid. cbn [fst]. exact (wf_unsafe msg).
  - (* RHandledMsgf *)
    rewrite build_handledmsgf. apply (on_f_GO2 r f bs _ BR); [exact Pr| |].
    + intro s'. apply bfmt_last; try assumption; [exact (Forall_inv_tail IHk)|exact BL_empty].
    + intros e b s1 He [H1 H2]. unfold fresh_oid. cbn [fst sh_ok]. now apply okps_wf.
  - (* RHandledInDomain *)
    change (build env (RHandledInDomain r d) bs) with
      (on_ env r bs (fun e s1 => let '(b, s2) := handled_ e s1 in mk_wrap (WDomain d) b s2)).
    apply on_GO2; [exact Pr|]. intros e s1 He.
    pose proof (handled_s e s1 He) as G. destruct (handled_ e s1) as [b s2]. cbn [fst] in G.
    apply mk_wrap_s; [exact I|exact G].
  - (* RHandledInDomainMsg *)
    change (build env (RHandledInDomainMsg r d msg) bs) with
      (on_ env r bs (fun e s1 => let '(i, s2) := fresh_oid s1 in
                                 mk_wrap (WDomain d) (Barrier i (sprint_pieces [PUnsafe msg]) e) s2)).
    apply on_GO2; [exact Pr|]. intros e s1 He. unfold fresh_oid.
    apply mk_wrap_s; [exact I|]. exact (wf_unsafe msg).
  - (* RHandleAssert *)
    change (build env (RHandleAssert r) bs) with
      (on_ env r bs (fun e s1 => let '(b, s2) := handled_ e s1 in
                                 let '(w, s3) := with_stack env b s2 in mk_wrap WAssert w s3)).
    apply on_GO2; [exact Pr|]. intros e s1 He.
    pose proof (handled_s e s1 He) as G. destruct (handled_ e s1) as [b s2]. cbn [fst] in G.
    pose proof (with_stack_s b s2 G) as G'. destruct (with_stack env b s2) as [w s3]. cbn [fst] in G'.
    apply mk_wrap_s; [exact I|exact G'].
  - (* RNewAssertWrapped *)
    rewrite build_newassertwrapped. apply (on_f_GO2 r f bs _ BR); [exact Pr| |].
    + intro s'. apply bfmt_last; try assumption; [exact (Forall_inv_tail IHk)|exact BL_empty].
    + intros e b0 s1 He Hb.
      pose proof (handled_s e s1 He) as G. destruct (handled_ e s1) as [b s2]. cbn [fst] in G.
      pose proof (wrapf_s b f b0 s2 G Hb) as G'. destruct (wrapf_ env b f b0 s2) as [w s3]. cbn [fst] in G'.
      apply mk_wrap_s; [exact I|exact G'].
  - (* RJoin *)
    rewrite build_join. pose proof (blist_s rs IHk bs) as G.
    destruct (blist env rs bs) as [es s1]. cbn [fst] in G.
    destruct es as [|e0 es]; [exact I|]. unfold fresh_oid, some_. cbn [fst GO2].
    apply with_stack_s. now apply multi_s.
  - (* RStdJoin *)
    rewrite build_stdjoin. pose proof (blist_s rs IHk bs) as G.
    destruct (blist env rs bs) as [es s1]. cbn [fst] in G.
    destruct es as [|e0 es]; [exact I|]. unfold fresh_oid. cbn [fst GO2]. now apply multi_s.
  - (* RFmtErrorf *)
    rewrite build_fmterrorf.
    assert (HB : Forall sh_ok (bf_wrapped (fst (bfmt env f bf_empty bs)))) by (apply bfmt_wrapped; [exact IHk|constructor]).
    destruct (bfmt env f bf_empty bs) as [b s1]. cbn [fst] in HB. unfold fresh_oid.
    destruct (bf_nw b) as [|[|n]].
    + exact I.
    + destruct (bf_wrapped b) as [|w ws]; [exact I|].
      inversion HB; subst. cbn [fst GO2]. now apply wrap_s.
    + cbn [fst GO2]. now apply multi_s.
  - (* RPkgMsg *) annot2 Pr bs (WPkgMsg msg).
  - (* RPkgStack *)
    change (build env (RPkgStack r) bs) with
      (on_ env r bs (fun e s1 => let '(st, s2) := fresh_stack env s1 in mk_wrap (WPkgStack st) e s2)).
    apply on_GO2; [exact Pr|]. intros e s1 He. unfold fresh_stack. apply mk_wrap_s; [exact I|exact He].
  - (* RPathError *) annot2 Pr bs (WPathError op path).
  - (* RLinkError *) annot2 Pr bs (WLinkError op old new).
  - (* RSyscallError *) annot2 Pr bs (WSyscallError sc).
  - (* ROpError *) annot2 Pr bs (WOpError op net src addr).
  - (* RForeignErrno *) exact I.
  - (* RUWrap *) annot2 Pr bs (WUser u msg xs).
  - (* RTransfer *) discriminate C1.
Qed.
End ApiLast.

(* Goal 1 with NO condition on the strings *)
Theorem api_short_wf_lastarg env r s e s' :
  no_transfer r = true -> errargs_last r = true -> build env r s = (Some e, s') -> sh_ok e.
Proof.
  intros A B E. pose proof (build_last_all env r (conj A B) s) as G. rewrite E in G. exact G.
Qed.

Corollary api_short_rendering_wf_lastarg env r s e s' :
  no_transfer r = true -> errargs_last r = true -> build env r s = (Some e, s') ->
  wf_red (fmt_red_short e) = true.
Proof. intros A B E. apply red_short_wf. exact (api_short_wf_lastarg env r s e s' A B E). Qed.

(* ================================================================== *)
(* 8. the theorems                                                     *)
(* ================================================================== *)

(* every string stored in, and every head printed by, a built error is tidy *)
Theorem api_tidy env r s e s' :
  in_fragment r = true -> strs_ok r = true -> build env r s = (Some e, s') -> hd_ok e.
Proof.
  intros F S E.
  exact (proj1 (build_gd env (fun _ => True) (fun _ => I) r s e s' F S E)).
Qed.

Lemma stacks_nth env : stacks_ok env -> forall n, stack_ok (nth n (be_stacks env) []).
Proof.
  unfold stacks_ok. intro H. induction H as [|x l Hx Hl IH]; intros [|n]; cbn [nth];
    try (constructor; fail); [exact Hx|apply IH].
Qed.

Theorem api_stacks env r s e s' :
  in_fragment r = true -> strs_ok r = true -> stacks_ok env ->
  build env r s = (Some e, s') -> stk_ok e.
Proof.
  intros F S K E.
  exact (proj2 (build_gd env stack_ok (stacks_nth env K) r s e s' F S E)).
Qed.

(* ---- Goal 1: %v / %s ---- *)
Theorem api_short_wf env r s e s' :
  in_fragment r = true -> strs_ok r = true -> build env r s = (Some e, s') -> sh_ok e.
Proof. intros F S E. apply hd_sh. exact (api_tidy env r s e s' F S E). Qed.

Corollary api_short_rendering_wf env r s e s' :
  in_fragment r = true -> strs_ok r = true -> build env r s = (Some e, s') ->
  wf_red (fmt_red_short e) = true.
Proof. intros F S E. apply red_short_wf. exact (api_short_wf env r s e s' F S E). Qed.

(* moreover the %v rendering is a valid raw piece (it can be spliced anywhere into
   another redactable string), and tidy *)
Corollary api_short_rendering_raw env r s e s' :
  in_fragment r = true -> strs_ok r = true -> build env r s = (Some e, s') ->
  rok (final_short (sem e) true false) /\ tidy (final_short (sem e) true false).
Proof.
  intros F S E. destruct (hd_short_raw e (api_tidy env r s e s' F S E)) as [A B]. split; [now apply B|exact A].
Qed.

(* ---- Goal 2: %+v ---- *)
Theorem api_verbose_wf env r s e s' :
  in_fragment r = true -> strs_ok r = true -> stacks_ok env ->
  build env r s = (Some e, s') -> vb_ok e /\ glue_top e.
Proof.
  intros F S K E. apply hd_vb; [exact (api_tidy env r s e s' F S E)|exact (api_stacks env r s e s' F S K E)].
Qed.

Corollary api_verbose_rendering_wf env r s e s' :
  in_fragment r = true -> strs_ok r = true -> stacks_ok env ->
  build env r s = (Some e, s') -> wf_red (fmt_red_verbose e) = true.
Proof.
  intros F S K E. destruct (api_verbose_wf env r s e s' F S K E) as [V G]. now apply red_verbose_wf.
Qed.

(* "on every line" *)
Corollary api_short_lines_wf env r s e s' :
  in_fragment r = true -> strs_ok r = true -> build env r s = (Some e, s') ->
  Forall (fun l => wf_red l = true) (split_on nl (fmt_red_short e)).
Proof. intros F S E. apply wf_red_lines. exact (api_short_rendering_wf env r s e s' F S E). Qed.

Corollary api_verbose_lines_wf env r s e s' :
  in_fragment r = true -> strs_ok r = true -> stacks_ok env ->
  build env r s = (Some e, s') ->
  Forall (fun l => wf_red l = true) (split_on nl (fmt_red_verbose e)).
Proof. intros F S K E. apply wf_red_lines. exact (api_verbose_rendering_wf env r s e s' F S K E). Qed.

(* ================================================================== *)
(* 9. what is false, and an example                                    *)
(* ================================================================== *)
(* Goal 1 as stated (no condition on the strings) is FALSE: the stored message of
   errors.Newf("%v%s", errors.New("\xe2\n"), redact.Safe("\x80\xb9a")) is not a
   well-formed redactable string.  No constructor stores an input string without
   escaping it; what fails is the splicing of the %v rendering of an error
   ARGUMENT (a RedactableString the printer does not re-validate) in front of
   other bytes: the rendering E2 of the inner error, glued to 80 B9, makes an
   opening marker. *)
Definition bad_short_recipe : recipe :=
  RNewf [FErr VV (RNew [226; nl]); FSafeStr VS [128; 185; 97]].

Example api_short_wf_false :
  exists e s',
    no_transfer bad_short_recipe = true /\ no_plusv bad_short_recipe = true /\
    build (mkbenv []) bad_short_recipe bs_init = (Some e, s') /\
    ~ sh_ok e /\ wf_red (fmt_red_short e) = false /\
    strs_ok bad_short_recipe = false.
Proof.
  eexists. eexists. split; [vm_compute; reflexivity|]. split; [vm_compute; reflexivity|].
  split; [vm_compute; reflexivity|].
  split; [intro H; apply red_short_wf in H; vm_compute in H; discriminate|].
  split; vm_compute; reflexivity.
Qed.

(* outside the fragment: with a %+v error argument in a message format the
   stored message contains the stack trace of the argument, so that even [sh_ok]
   (the %v rendering) depends on the frames of the environment *)
Definition plusv_recipe : recipe := RNewf [FErr VPlusV (RNew [97])].
Definition hostile_env : benv := mkbenv [[mkframe 1 m_start (lit "f.go") 1]].

Example api_short_plusv_needs_stacks :
  exists e s',
    no_transfer plusv_recipe = true /\ strs_ok plusv_recipe = true /\ no_plusv plusv_recipe = false /\
    build hostile_env plusv_recipe bs_init = (Some e, s') /\
    ~ sh_ok e /\ wf_red (fmt_red_short e) = false.
Proof.
  eexists. eexists. split; [vm_compute; reflexivity|]. split; [vm_compute; reflexivity|].
  split; [vm_compute; reflexivity|]. split; [vm_compute; reflexivity|].
  split; [intro H; apply red_short_wf in H; vm_compute in H; discriminate|vm_compute; reflexivity].
Qed.

(* Goal 2 needs the condition on the strings even without error arguments
   (EngineWf.red_verbose_false): errors.New("\xe2\x80\n\xb9\na") *)
Example api_verbose_needs_strs :
  exists e s',
    in_fragment (RNew bad_new_msg) = true /\ strs_ok (RNew bad_new_msg) = false /\
    build (mkbenv []) (RNew bad_new_msg) bs_init = (Some e, s') /\
    wf_red (fmt_red_verbose e) = false.
Proof.
  eexists. eexists. split; [vm_compute; reflexivity|]. split; [vm_compute; reflexivity|].
  split; [vm_compute; reflexivity|]. vm_compute. reflexivity.
Qed.

(* a recipe that meets the hypotheses: nested Wrapf with a %v error argument (a
   handled error, i.e. a barrier, whose message has two lines), unsafe strings
   with marker runes and truncated runes in tidy positions, a hint of arbitrary
   bytes (a truncated marker before a newline), a secondary error *)
Definition ex_env : benv :=
  mkbenv [[mkframe 1 (lit "main.f") (lit "/m.go") 10; mkframe 2 (lit "main.main") (lit "/m.go") 20];
          [mkframe 3 (lit "main.g") (lit "/m.go") 30; mkframe 2 (lit "main.main") (lit "/m.go") 20]].

Definition ex_recipe : recipe :=
  RSecondary
    (RHint
      (RWrapf
        (RWrapf (RNew ([105; 110; 226; 120] ++ [nl] ++ [121]))
                [FLit (lit "ctx "); FErr VV (RHandled (RNew [97; nl; 98])); FLit (lit " / ");
                 FStr VS (m_start ++ [120] ++ m_end ++ [226; 128; 121])])
        [FLit (lit "outer=");  FSafeStr VV [226; 128; 120; nl; 226; 130; 172]; FInt VD 42])
      ([104; 226; 128; nl; 185; nl; 226]))
    (RWithStack (RStdNew (m_end ++ [nl] ++ m_start))).

Example ex_recipe_ok :
  in_fragment ex_recipe = true /\ strs_ok ex_recipe = true /\ stacks_ok ex_env.
Proof.
  split; [vm_compute; reflexivity|]. split; [vm_compute; reflexivity|].
  unfold stacks_ok, ex_env. cbn [be_stacks].
  repeat (constructor; try (split; vm_compute; reflexivity)).
Qed.

Example ex_recipe_wf :
  exists e s', build ex_env ex_recipe bs_init = (Some e, s') /\
    wf_red (fmt_red_short e) = true /\ wf_red (fmt_red_verbose e) = true /\
    Forall (fun l => wf_red l = true) (split_on nl (fmt_red_verbose e)).
Proof.
  destruct ex_recipe_ok as (F & S & K).
  destruct (build ex_env ex_recipe bs_init) as [[e|] s'] eqn:E; [|vm_compute in E; discriminate].
  exists e, s'. split; [reflexivity|].
  split; [exact (api_short_rendering_wf _ _ _ _ _ F S E)|].
  split; [exact (api_verbose_rendering_wf _ _ _ _ _ F S K E)|exact (api_verbose_lines_wf _ _ _ _ _ F S K E)].
Qed.

(* the same through the network: three hops, the first process does not know the
   leafError / withPrefix / barrier types (opaque stand-ins that keep the
   payloads), the second knows everything (the payloads are decoded again), the
   third does not know withSecondaryError; then more wrapping *)
Definition ex_transfer_recipe : recipe :=
  RWrapf
    (RTransfer ex_recipe [mkproc [k_leafError; k_withPrefix; k_barrier]; all_knowing; mkproc [k_withSecondary]])
    [FLit (lit "after the hops: "); FErr VV (RTransfer (RNew [226; 130; nl; 98]) [mkproc [k_leafError]]);
     FSafeStr VS [128; 185]].

Example ex_transfer_recipe_ok :
  in_fragment ex_transfer_recipe = true /\ strs_ok ex_transfer_recipe = true /\
  no_transfer ex_transfer_recipe = false.
Proof. split; [vm_compute; reflexivity|]. split; vm_compute; reflexivity. Qed.

Example ex_transfer_recipe_wf :
  exists e s', build ex_env ex_transfer_recipe bs_init = (Some e, s') /\
    wf_red (fmt_red_short e) = true /\ wf_red (fmt_red_verbose e) = true.
Proof.
  destruct ex_transfer_recipe_ok as (F & S & _). destruct ex_recipe_ok as (_ & _ & K).
  destruct (build ex_env ex_transfer_recipe bs_init) as [[e|] s'] eqn:E; [|vm_compute in E; discriminate].
  exists e, s'. split; [reflexivity|].
  split; [exact (api_short_rendering_wf _ _ _ _ _ F S E)|exact (api_verbose_rendering_wf _ _ _ _ _ F S K E)].
Qed.

(* [api_short_wf_lastarg]: hostile bytes everywhere, error arguments last *)
Definition ex_last_recipe : recipe :=
  RHandled
    (RWrapf (RNew [226; nl])
            [FStr VS [226]; FSafeStr VS [226; 128]; FLit [nl; 226];
             FErr VV (RNewf [FLit m_start; FErr VW (RStdNew (m_end ++ [226; 128; nl]))])]).

Example ex_last_recipe_wf :
  strs_ok ex_last_recipe = false /\
  exists e s', build (mkbenv []) ex_last_recipe bs_init = (Some e, s') /\
               sh_ok e /\ wf_red (fmt_red_short e) = true.
Proof.
  split; [vm_compute; reflexivity|].
  assert (A : no_transfer ex_last_recipe = true) by (vm_compute; reflexivity).
  assert (B : errargs_last ex_last_recipe = true) by (vm_compute; reflexivity).
  destruct (build (mkbenv []) ex_last_recipe bs_init) as [[e|] s'] eqn:E; [|vm_compute in E; discriminate].
  exists e, s'. split; [reflexivity|].
  split; [exact (api_short_wf_lastarg _ _ _ _ _ A B E)|exact (api_short_rendering_wf_lastarg _ _ _ _ _ A B E)].
Qed.

(* ================================================================== *)
(* Summary                                                             *)
(* ==================================================================

   PROVED (no axiom), for every environment, recipe and builder state:

   api_short_wf            in_fragment r -> strs_ok r -> build env r s = (Some e, s') -> sh_ok e
   api_short_rendering_wf    ... -> wf_red (fmt_red_short e) = true        (+ _lines_wf, _raw)
   api_verbose_wf          in_fragment r -> strs_ok r -> stacks_ok env -> build ... -> vb_ok e /\ glue_top e
   api_verbose_rendering_wf  ... -> wf_red (fmt_red_verbose e) = true      (+ _lines_wf)
   api_short_wf_lastarg    no_transfer r -> errargs_last r -> build ... -> sh_ok e     (NO condition on strings)

   - [in_fragment r] = [no_plusv r]: no error argument printed with %+v in a format
     call that builds a message.  RTransfer nodes (encode / decode through ARBITRARY
     processes, opaque stand-ins included) ARE covered: [no_transfer] is not needed.
   - [strs_ok r]: every string in a message position is tidy ([tidyb]): a byte 226,
     or the bytes 226 128, must be followed by a byte other than newline, ':' and
     226 (so: not at the end of the string).  Everything that is only printed behind
     p.Detail() is arbitrary: hints, details, issue links, telemetry keys, domains,
     tags, safe details, harness payloads, and the whole format of WithHintf /
     WithDetailf / WithSafeDetails.  The clauses "before a newline" and "at the end"
     are necessary (EngineWf.red_verbose_false, [api_short_wf_false]); the clauses
     "before ':'" and "before 226" are what the invariant of the proof needs (a
     prefix cut by extractPrefix, the "dirty" flag of the redact automaton); no
     counter-example is known for them.
   - [stacks_ok env]: every frame satisfies EngineWf.frame_ok.

   FALSE / findings:
   - Goal 1 as stated (only [no_transfer]) is false: [api_short_wf_false].  No
     constructor stores an input string unescaped; the cause is the splicing of the
     %v rendering of an error argument, which redact does not re-validate, in front of
     other bytes.  [api_short_wf_lastarg] shows this is the only cause.
   - with a %+v error argument in a message format, [sh_ok] depends on the stack frames:
     [api_short_plusv_needs_stacks].

   LEFT UNPROVED: recipes with a %+v error argument inside Newf / AssertionFailedf /
   Wrapf / WithMessagef / HandledWithMessagef / NewAssertionErrorWithWrappedErrf /
   fmt.Errorf (the stored message then contains a whole multi-line %+v rendering, whose
   inner lines are not tidy: hints, frames, escaped foreign texts; the invariant
   "every stored string is tidy" of this file does not apply).  No counter-example was
   found by evaluation for such recipes under [strs_ok] and [stacks_ok]. *)
