(* Non-interference of hidden payloads (C07): whatever sits behind a barrier,
   in the secondary position of a withSecondaryError, contributes nothing to
   cause analysis.  Node-level facts are in HiddenFacts.v; here they are lifted
   through arbitrary contexts. *)
From Errv Require Import Base.Str Redact.Markers Redact.Buffer Model.Err Model.Sem Model.Details Model.Marks
     Model.Access Model.Report Model.Std Proofs.StrFacts Proofs.FastIs Proofs.MarksFacts Proofs.HiddenFacts.
From Coq Require Import Lia.

Inductive hid_eq : err -> err -> Prop :=
| HLeaf i k : hid_eq (Leaf i k) (Leaf i k)
| HWrap i w c1 c2 : hid_eq c1 c2 -> hid_eq (Wrap i w c1) (Wrap i w c2)
| HSecond i c1 c2 s1 s2 : hid_eq c1 c2 -> hid_eq (Second i c1 s1) (Second i c2 s2)      (* any secondaries *)
| HBarrier i m h1 h2 : hid_eq (Barrier i m h1) (Barrier i m h2)                         (* any hidden errors, same message *)
| HMulti i k cs1 cs2 : Forall2 hid_eq cs1 cs2 -> hid_eq (Multi i k cs1) (Multi i k cs2)
| HOLeaf i m d cs1 cs2 : Forall2 hid_eq cs1 cs2 -> hid_eq (OLeaf i m d cs1) (OLeaf i m d cs2)
| HOWrap i p d mt c1 c2 : hid_eq c1 c2 -> hid_eq (OWrap i p d mt c1) (OWrap i p d mt c2).

(* ---------- induction principle descending through the Forall2 ---------- *)
Section HidInd.
  Variable P : err -> err -> Prop.
  Hypothesis PLeaf : forall i k, P (Leaf i k) (Leaf i k).
  Hypothesis PWrap : forall i w c1 c2, hid_eq c1 c2 -> P c1 c2 -> P (Wrap i w c1) (Wrap i w c2).
  Hypothesis PSecond : forall i c1 c2 s1 s2, hid_eq c1 c2 -> P c1 c2 -> P (Second i c1 s1) (Second i c2 s2).
  Hypothesis PBarrier : forall i m h1 h2, P (Barrier i m h1) (Barrier i m h2).
  Hypothesis PMulti : forall i k cs1 cs2, Forall2 hid_eq cs1 cs2 -> Forall2 P cs1 cs2 ->
                                          P (Multi i k cs1) (Multi i k cs2).
  Hypothesis POLeaf : forall i m d cs1 cs2, Forall2 hid_eq cs1 cs2 -> Forall2 P cs1 cs2 ->
                                            P (OLeaf i m d cs1) (OLeaf i m d cs2).
  Hypothesis POWrap : forall i p d mt c1 c2, hid_eq c1 c2 -> P c1 c2 ->
                                             P (OWrap i p d mt c1) (OWrap i p d mt c2).

  Fixpoint hid_eq_ind' (e1 e2 : err) (h : hid_eq e1 e2) {struct h} : P e1 e2 :=
    match h in hid_eq a b return P a b with
    | HLeaf i k => PLeaf i k
    | HWrap i w c1 c2 hc => PWrap i w c1 c2 hc (hid_eq_ind' c1 c2 hc)
    | HSecond i c1 c2 s1 s2 hc => PSecond i c1 c2 s1 s2 hc (hid_eq_ind' c1 c2 hc)
    | HBarrier i m h1 h2 => PBarrier i m h1 h2
    | HMulti i k cs1 cs2 hcs =>
      PMulti i k cs1 cs2 hcs
        ((fix G (l1 l2 : list err) (f : Forall2 hid_eq l1 l2) {struct f} : Forall2 P l1 l2 :=
            match f in Forall2 _ a b return Forall2 P a b with
            | Forall2_nil _ => Forall2_nil _
            | Forall2_cons x y hxy hl => Forall2_cons x y (hid_eq_ind' x y hxy) (G _ _ hl)
            end) cs1 cs2 hcs)
    | HOLeaf i m d cs1 cs2 hcs =>
      POLeaf i m d cs1 cs2 hcs
        ((fix G (l1 l2 : list err) (f : Forall2 hid_eq l1 l2) {struct f} : Forall2 P l1 l2 :=
            match f in Forall2 _ a b return Forall2 P a b with
            | Forall2_nil _ => Forall2_nil _
            | Forall2_cons x y hxy hl => Forall2_cons x y (hid_eq_ind' x y hxy) (G _ _ hl)
            end) cs1 cs2 hcs)
    | HOWrap i p d mt c1 c2 hc => POWrap i p d mt c1 c2 hc (hid_eq_ind' c1 c2 hc)
    end.
End HidInd.

Lemma hid_eq_refl e : hid_eq e e.
Proof.
  induction e using err_ind'; try (constructor; assumption).
  - constructor. induction H; constructor; assumption.
  - constructor. induction H; constructor; assumption.
Qed.

Lemma Forall2_hid_refl l : Forall2 hid_eq l l.
Proof. induction l; constructor; [apply hid_eq_refl|assumption]. Qed.

Lemma hid_eq_sym e1 e2 : hid_eq e1 e2 -> hid_eq e2 e1.
Proof.
  intro H. induction H using hid_eq_ind'; try (constructor; assumption).
  - constructor. clear H. induction H0; constructor; assumption.
  - constructor. clear H. induction H0; constructor; assumption.
Qed.

(* ---------- generic list facts ---------- *)
Lemma Forall2_map_eq {A B} (R : A -> A -> Prop) (f : A -> B) l1 l2 :
  Forall2 R l1 l2 -> (forall a b, R a b -> f a = f b) -> List.map f l1 = List.map f l2.
Proof.
  intros H Hf. induction H as [|a b l1 l2 Hab Hl IH]; cbn [List.map]; [reflexivity|].
  now rewrite (Hf a b Hab), IH.
Qed.

Lemma Forall2_flat_map_eq {A B} (R : A -> A -> Prop) (f : A -> list B) l1 l2 :
  Forall2 R l1 l2 -> (forall a b, R a b -> f a = f b) -> flat_map f l1 = flat_map f l2.
Proof.
  intros H Hf. induction H as [|a b l1 l2 Hab Hl IH]; cbn [flat_map]; [reflexivity|].
  now rewrite (Hf a b Hab), IH.
Qed.

Lemma Forall2_existsb_eq {A} (R : A -> A -> Prop) (f g : A -> bool) l1 l2 :
  Forall2 R l1 l2 -> (forall a b, R a b -> f a = g b) -> existsb f l1 = existsb g l2.
Proof.
  intros H Hf. induction H as [|a b l1 l2 Hab Hl IH]; cbn [existsb]; [reflexivity|].
  now rewrite (Hf a b Hab), IH.
Qed.

Lemma Forall2_map2 {A B} (R : A -> A -> Prop) (S : B -> B -> Prop) (f : A -> B) l1 l2 :
  Forall2 R l1 l2 -> (forall a b, R a b -> S (f a) (f b)) -> Forall2 S (List.map f l1) (List.map f l2).
Proof.
  intros H Hf. induction H; cbn [List.map]; constructor; auto.
Qed.

Lemma Forall2_impl' {A} (R S : A -> A -> Prop) l1 l2 :
  Forall2 R l1 l2 -> (forall a b, R a b -> S a b) -> Forall2 S l1 l2.
Proof. intros H Hf. induction H; constructor; auto. Qed.

Lemma Forall2_nil_match {A B} (R : A -> A -> Prop) l1 l2 (x y : B) :
  Forall2 R l1 l2 -> match l1 with [] => x | _ => y end = match l2 with [] => x | _ => y end.
Proof. intros []; reflexivity. Qed.

(* ---------- the engine in short mode never runs a detail body ---------- *)
Lemma switch_over_wd st : fs_wantDetail (switch_over st) = fs_wantDetail st.
Proof. unfold switch_over. destruct (fs_hasDetail st); reflexivity. Qed.

Lemma write_loop_wd b : forall st chunk, fs_wantDetail (write_loop b st chunk) = fs_wantDetail st.
Proof.
  induction b as [|c r IH]; intros st chunk; cbn [write_loop].
  - reflexivity.
  - destruct (c =? nl).
    + rewrite IH.
      match goal with |- context [if ?x then _ else _] => destruct x end;
        [rewrite switch_over_wd|]; reflexivity.
    + rewrite IH.
      match goal with |- context [if ?x then _ else _] => destruct x end; reflexivity.
Qed.

Lemma st_write_wd st b : fs_wantDetail (st_write st b) = fs_wantDetail st.
Proof. destruct b; [reflexivity|]. unfold st_write. apply write_loop_wd. Qed.

Lemma sp_print_wd st ps : fs_wantDetail (sp_print st ps) = fs_wantDetail st.
Proof. unfold sp_print. apply st_write_wd. Qed.

Lemma if_detail_short st k : fs_wantDetail st = false -> if_detail st k = st.
Proof. intro H. unfold if_detail, st_detail. rewrite H. reflexivity. Qed.

(* ---------- item 1: the invariant ---------- *)
Definition sem_eq (a b : nsem) : Prop :=
  ns_text a = ns_text b /\ ns_tmarks a = ns_tmarks b /\ ns_sent a = ns_sent b /\
  ns_safemsg a = ns_safemsg b /\
  forall o wd k st, ns_fmt a o false wd k st = ns_fmt b o false wd k st.

Lemma sem_eq_final_short a b red plus : sem_eq a b -> final_short a red plus = final_short b red plus.
Proof. intros (_ & _ & _ & _ & Hf). unfold final_short. now rewrite Hf. Qed.

Lemma sem_eq_nested_v a b : sem_eq a b -> nested_v a = nested_v b.
Proof.
  intros H. unfold nested_v. rewrite (sem_eq_final_short a b true false H).
  destruct H as (_ & _ & _ & -> & _). reflexivity.
Qed.

Lemma fold_multi_short depth m1 m2 :
  Forall2 sem_eq m1 m2 ->
  forall acc : fstate * nat,
    fold_left (fun (acc : fstate * nat) (k : nsem) =>
                 let '(s', m) := ns_fmt k false false true (S depth) (fst acc) in (s', (snd acc + m)%nat))
              m1 acc =
    fold_left (fun (acc : fstate * nat) (k : nsem) =>
                 let '(s', m) := ns_fmt k false false true (S depth) (fst acc) in (s', (snd acc + m)%nat))
              m2 acc.
Proof.
  induction 1 as [|a b l1 l2 Hab Hl IH]; intros acc; cbn [fold_left]; [reflexivity|].
  destruct Hab as (_ & _ & _ & _ & Hf). rewrite Hf. apply IH.
Qed.

Definition osem_eq (s1 s2 : option nsem) : Prop :=
  match s1, s2 with
  | Some a, Some b => sem_eq a b
  | None, None => True
  | _, _ => False
  end.

Lemma format_node_short ty s1 s2 m1 m2 own b1 b2 :
  osem_eq s1 s2 ->
  Forall2 sem_eq m1 m2 ->
  (forall o st, fs_wantDetail st = false -> b1 o st = b2 o st) ->
  forall o wd k st,
    format_node ty s1 m1 own b1 o false wd k st = format_node ty s2 m2 own b2 o false wd k st.
Proof.
  intros Hs Hm Hb o wd k st. unfold format_node.
  assert (E1 : match s1 with
               | Some sc => ns_fmt sc false false wd (S k) st
               | None => (st, 0%nat)
               end =
               match s2 with
               | Some sc => ns_fmt sc false false wd (S k) st
               | None => (st, 0%nat)
               end).
  { destruct s1 as [a|], s2 as [b|]; cbn in Hs; try contradiction; [|reflexivity].
    destruct Hs as (_ & _ & _ & _ & Hf). apply Hf. }
  rewrite E1. clear E1.
  destruct (match s2 with Some sc => ns_fmt sc false false wd (S k) st | None => (st, 0%nat) end)
    as [st1 n1].
  rewrite (fold_multi_short k m1 m2 Hm (st1, n1)).
  destruct (fold_left _ m2 (st1, n1)) as [st2 n2].
  cbv zeta.
  rewrite Hb by reflexivity. reflexivity.
Qed.

(* ---------- node-level: hid_eq errors have the same outermost shape ---------- *)
Lemma hid_eq_lib_format e1 e2 : hid_eq e1 e2 -> lib_format e1 = lib_format e2.
Proof. intros []; reflexivity. Qed.

Lemma hid_eq_go_ty e1 e2 : hid_eq e1 e2 -> go_ty e1 = go_ty e2.
Proof. intros [| | | | |? ? ? ? ? []|]; reflexivity. Qed.

Lemma own_tmark_wrap i w c1 c2 : own_tmark (Wrap i w c1) = own_tmark (Wrap i w c2).
Proof. destruct w; reflexivity. Qed.

Lemma default_body_wrap i w c1 c2 text sent il hm ct st :
  default_body (Wrap i w c1) text sent il hm ct st = default_body (Wrap i w c2) text sent il hm ct st.
Proof. destruct w; reflexivity. Qed.

Lemma sem_eq_wrap i w c1 c2 :
  lib_format c1 = lib_format c2 -> sem_eq (sem c1) (sem c2) ->
  sem_eq (sem (Wrap i w c1)) (sem (Wrap i w c2)).
Proof.
  intros Hl He.
  assert (Htext : wrap_text w (sem c1) (lib_format c1) = wrap_text w (sem c2) (lib_format c2)).
  { unfold wrap_text. rewrite Hl, (sem_eq_final_short _ _ false false He).
    destruct He as (-> & _). reflexivity. }
  pose proof He as (Ht & Hm & Hs & Hsm & Hf).
  split; [|split; [|split; [|split]]].
  - exact Htext.
  - cbn [sem ns_tmarks]. rewrite Hm, (own_tmark_wrap i w c1 c2). reflexivity.
  - cbn [sem ns_sent]. rewrite Htext, Hm, Hs, (own_tmark_wrap i w c1 c2). reflexivity.
  - reflexivity.
  - intros o wd k st. cbn [sem ns_fmt].
    apply format_node_short; [exact He|constructor|].
    intros o' st' Hwd.
    rewrite Htext, Ht, Hm, Hs, (own_tmark_wrap i w c1 c2).
    destruct (wrap_body w st') as [[[? ?] ?]|]; [reflexivity|].
    destruct w; solve [reflexivity | apply default_body_wrap].
Qed.

Lemma sem_eq_second i c1 c2 s1 s2 :
  sem_eq (sem c1) (sem c2) -> sem_eq (sem (Second i c1 s1)) (sem (Second i c2 s2)).
Proof.
  intros He. pose proof He as (Ht & Hm & Hs & Hsm & Hf).
  split; [|split; [|split; [|split]]].
  - exact Ht.
  - cbn [sem ns_tmarks]. rewrite Hm. reflexivity.
  - cbn [sem ns_sent]. rewrite Ht, Hm, Hs. reflexivity.
  - reflexivity.
  - intros o wd k st. cbn [sem ns_fmt].
    apply format_node_short; [exact He|constructor|].
    intros o' st' Hwd. rewrite !if_detail_short by exact Hwd. reflexivity.
Qed.

Lemma sem_eq_barrier i m h1 h2 : sem_eq (sem (Barrier i m h1)) (sem (Barrier i m h2)).
Proof.
  split; [|split; [|split; [|split]]]; try reflexivity.
  intros o wd k st. cbn [sem ns_fmt].
  apply format_node_short; [exact I|constructor|].
  intros o' st' Hwd. rewrite !if_detail_short by (rewrite sp_print_wd; exact Hwd). reflexivity.
Qed.

Lemma multi_sent_eq i k cs :
  ns_sent (sem (Multi i k cs)) =
  mark_is_sentinel (ns_text (sem (Multi i k cs))) [own_tmark (Multi i k cs)]
  || existsb ns_sent (List.map sem cs).
Proof. destruct k; reflexivity. Qed.

Lemma multi_tmarks_eq i k cs : ns_tmarks (sem (Multi i k cs)) = [own_tmark (Multi i k cs)].
Proof. destruct k; reflexivity. Qed.

Lemma multi_safemsg_eq i k cs : ns_safemsg (sem (Multi i k cs)) = None.
Proof. destruct k; reflexivity. Qed.

Lemma mjoin_text_eq i cs :
  ns_text (sem (Multi i MJoin cs)) =
  strip_markers (sprint_pieces [PRaw (final_short (sem (Multi i MJoin cs)) true false)]).
Proof. reflexivity. Qed.

Lemma sem_eq_multi i k cs1 cs2 :
  Forall2 (fun a b => sem_eq (sem a) (sem b)) cs1 cs2 ->
  sem_eq (sem (Multi i k cs1)) (sem (Multi i k cs2)).
Proof.
  intros H.
  assert (HS : Forall2 sem_eq (List.map sem cs1) (List.map sem cs2)).
  { induction H; cbn [List.map]; constructor; assumption. }
  assert (Hnil : forall (x y : bool), match cs1 with [] => x | _ => y end = match cs2 with [] => x | _ => y end).
  { intros x y. destruct H; reflexivity. }
  assert (Htexts : List.map ns_text (List.map sem cs1) = List.map ns_text (List.map sem cs2)).
  { apply (Forall2_map_eq sem_eq); [exact HS|]. intros a b Hab. apply Hab. }
  assert (Hkids : existsb ns_sent (List.map sem cs1) = existsb ns_sent (List.map sem cs2)).
  { apply (Forall2_existsb_eq sem_eq); [exact HS|]. intros a b Hab. apply Hab. }
  assert (Htext : ns_text (sem (Multi i k cs1)) = ns_text (sem (Multi i k cs2)) /\
                  forall o wd kk st, ns_fmt (sem (Multi i k cs1)) o false wd kk st =
                                     ns_fmt (sem (Multi i k cs2)) o false wd kk st).
  { destruct k.
    - assert (Hf : forall o wd kk st, ns_fmt (sem (Multi i MJoin cs1)) o false wd kk st =
                                     ns_fmt (sem (Multi i MJoin cs2)) o false wd kk st).
      { intros o wd kk st. cbn [sem ns_fmt].
        apply format_node_short; [exact I|exact HS|].
        intros o' st' Hwd. f_equal. f_equal.
        generalize (true, st'). clear - HS.
        induction HS as [|a b l1 l2 Hab Hl IH]; intros acc; cbn [fold_left]; [reflexivity|].
        rewrite (sem_eq_nested_v a b Hab). apply IH. }
      split; [|exact Hf].
      rewrite !mjoin_text_eq. unfold final_short. rewrite Hf. reflexivity.
    - assert (Ht : ns_text (sem (Multi i MStdJoin cs1)) = ns_text (sem (Multi i MStdJoin cs2))).
      { cbn [sem ns_text]. rewrite Htexts. reflexivity. }
      split; [exact Ht|].
      intros o wd kk st. cbn [sem ns_fmt].
      apply format_node_short; [exact I|exact HS|].
      intros o' st' Hwd. rewrite Htexts, Hkids, (Hnil true false). reflexivity.
    - split; [reflexivity|].
      intros o wd kk st. cbn [sem ns_fmt].
      apply format_node_short; [exact I|exact HS|].
      intros o' st' Hwd. rewrite Hkids, (Hnil true false). reflexivity. }
  destruct Htext as [Ht Hf].
  split; [|split; [|split; [|split]]].
  - exact Ht.
  - rewrite !multi_tmarks_eq. reflexivity.
  - rewrite !multi_sent_eq, Ht, Hkids. reflexivity.
  - rewrite !multi_safemsg_eq. reflexivity.
  - exact Hf.
Qed.

Lemma sem_eq_oleaf i m d cs1 cs2 :
  Forall2 (fun a b => sem_eq (sem a) (sem b)) cs1 cs2 ->
  sem_eq (sem (OLeaf i m d cs1)) (sem (OLeaf i m d cs2)).
Proof.
  intros H.
  assert (HS : Forall2 sem_eq (List.map sem cs1) (List.map sem cs2)).
  { induction H; cbn [List.map]; constructor; assumption. }
  assert (Hkids : existsb ns_sent (List.map sem cs1) = existsb ns_sent (List.map sem cs2)).
  { apply (Forall2_existsb_eq sem_eq); [exact HS|]. intros a b Hab. apply Hab. }
  assert (Hty : go_type_string (OLeaf i m d cs1) = go_type_string (OLeaf i m d cs2)).
  { destruct H; reflexivity. }
  split; [|split; [|split; [|split]]]; try reflexivity.
  - cbn [sem ns_sent]. rewrite Hkids. reflexivity.
  - intros o wd k st. cbn [sem ns_fmt]. rewrite Hty.
    apply format_node_short; [exact I|exact HS|].
    intros o' st' Hwd. reflexivity.
Qed.

Lemma sem_eq_owrap i p d mt c1 c2 :
  lib_format c1 = lib_format c2 -> sem_eq (sem c1) (sem c2) ->
  sem_eq (sem (OWrap i p d mt c1)) (sem (OWrap i p d mt c2)).
Proof.
  intros Hl He. pose proof He as (Ht & Hm & Hs & Hsm & Hf).
  assert (Htext : ns_text (sem (OWrap i p d mt c1)) = ns_text (sem (OWrap i p d mt c2))).
  { cbn [sem ns_text]. rewrite Hl, (sem_eq_final_short _ _ false false He), Ht. reflexivity. }
  split; [|split; [|split; [|split]]].
  - exact Htext.
  - cbn [sem ns_tmarks]. rewrite Hm. reflexivity.
  - change (mark_is_sentinel (ns_text (sem (OWrap i p d mt c1)))
                             (own_tmark (OWrap i p d mt c1) :: ns_tmarks (sem c1)) || ns_sent (sem c1) =
            mark_is_sentinel (ns_text (sem (OWrap i p d mt c2)))
                             (own_tmark (OWrap i p d mt c2) :: ns_tmarks (sem c2)) || ns_sent (sem c2)).
    rewrite Htext, Hm, Hs. reflexivity.
  - reflexivity.
  - intros o wd k st. cbn [sem ns_fmt].
    apply format_node_short; [exact He|constructor|].
    intros o' st' Hwd. reflexivity.
Qed.

(* the invariant holds for errors equal up to hidden payloads *)
Theorem hid_eq_sem e1 e2 : hid_eq e1 e2 -> sem_eq (sem e1) (sem e2).
Proof.
  intro H. induction H using hid_eq_ind'.
  - split; [|split; [|split; [|split]]]; reflexivity.
  - apply sem_eq_wrap; [apply hid_eq_lib_format|]; assumption.
  - apply sem_eq_second; assumption.
  - apply sem_eq_barrier.
  - apply sem_eq_multi; assumption.
  - apply sem_eq_oleaf; assumption.
  - apply sem_eq_owrap; [apply hid_eq_lib_format|]; assumption.
Qed.

Lemma hid_eq_text e1 e2 : hid_eq e1 e2 -> error_text e1 = error_text e2.
Proof. intro H. apply (hid_eq_sem _ _ H). Qed.

Lemma hid_eq_tmarks e1 e2 : hid_eq e1 e2 -> ns_tmarks (sem e1) = ns_tmarks (sem e2).
Proof. intro H. apply (hid_eq_sem _ _ H). Qed.

Lemma hid_eq_sent e1 e2 : hid_eq e1 e2 -> ns_sent (sem e1) = ns_sent (sem e2).
Proof. intro H. apply (hid_eq_sem _ _ H). Qed.

Lemma hid_eq_safemsg e1 e2 : hid_eq e1 e2 -> ns_safemsg (sem e1) = ns_safemsg (sem e2).
Proof. intro H. apply (hid_eq_sem _ _ H). Qed.

(* the engine in short mode (with_detail = false) *)
Lemma hid_eq_fmt_short e1 e2 o wd k st :
  hid_eq e1 e2 -> ns_fmt (sem e1) o false wd k st = ns_fmt (sem e2) o false wd k st.
Proof. intro H. apply (hid_eq_sem _ _ H). Qed.

Lemma hid_eq_final_short e1 e2 red plus :
  hid_eq e1 e2 -> final_short (sem e1) red plus = final_short (sem e2) red plus.
Proof. intro H. apply sem_eq_final_short, hid_eq_sem, H. Qed.

(* %v / %s renderings *)
Lemma hid_eq_fmt_plain_short e1 e2 : hid_eq e1 e2 -> fmt_plain_short e1 = fmt_plain_short e2.
Proof. intro H. unfold fmt_plain_short. now apply hid_eq_final_short. Qed.

Lemma hid_eq_fmt_red_short e1 e2 : hid_eq e1 e2 -> fmt_red_short e1 = fmt_red_short e2.
Proof. intro H. unfold fmt_red_short. now rewrite (sem_eq_nested_v _ _ (hid_eq_sem _ _ H)). Qed.

(* ---------- item 2: marks and identity ---------- *)
Lemma hid_eq_get_mark e1 e2 : hid_eq e1 e2 -> get_mark e1 = get_mark e2.
Proof.
  intro H. pose proof (hid_eq_text _ _ H) as T. pose proof (hid_eq_tmarks _ _ H) as M.
  destruct H; [reflexivity|..]; unfold get_mark; rewrite T, M; reflexivity.
Qed.

Lemma hid_eq_node_oid e1 e2 : hid_eq e1 e2 -> node_oid e1 = node_oid e2.
Proof. intros []; reflexivity. Qed.

Lemma hid_eq_go_full_name e1 e2 : hid_eq e1 e2 -> go_full_name e1 = go_full_name e2.
Proof. intro H. unfold go_full_name. now rewrite (hid_eq_go_ty _ _ H). Qed.

Lemma hid_eq_comparable e1 e2 : hid_eq e1 e2 -> comparable e1 = comparable e2.
Proof. intros []; reflexivity. Qed.

(* a non-leaf can be a non-comparable value (ut.WNoCmp): [go_eq] is then false on either side *)
Lemma go_eq_nonleaf c r :
  match c with Leaf _ _ => False | _ => True end ->
  go_eq c r =
  comparable c && comparable r &&
  match r with
  | Leaf _ LDeadline | Leaf _ (LErrno _) | Leaf _ (LUser ULVal _ _ _) | Leaf _ (LUser ULNoCmp _ _ _) => false
  | _ => Pos.eqb (node_oid c) (node_oid r) && same_go_type c r
  end.
Proof.
  destruct c as [|ic wc cc| | | | |]; try contradiction; intros _.
  1: destruct wc; try match goal with u : uwrap |- _ => destruct u end.
  all: destruct r as [? [| | | | | | | | | | |[] ? ? ?]|ir wr cr| | | | |]; try reflexivity.
  all: destruct wr; try reflexivity; match goal with u : uwrap |- _ => destruct u end; reflexivity.
Qed.

Lemma hid_eq_nonleaf e1 e2 :
  hid_eq e1 e2 ->
  e1 = e2 \/ (match e1 with Leaf _ _ => False | _ => True end /\
              match e2 with Leaf _ _ => False | _ => True end).
Proof. intros []; auto. Qed.

Lemma hid_eq_same_go_type_l e1 e2 r : hid_eq e1 e2 -> same_go_type e1 r = same_go_type e2 r.
Proof. intro H. unfold same_go_type. now rewrite (hid_eq_go_full_name _ _ H). Qed.

Lemma hid_eq_same_go_type_r e1 e2 c : hid_eq e1 e2 -> same_go_type c e1 = same_go_type c e2.
Proof. intro H. unfold same_go_type. now rewrite (hid_eq_go_full_name _ _ H). Qed.

Lemma hid_eq_go_eq_l e1 e2 r : hid_eq e1 e2 -> go_eq e1 r = go_eq e2 r.
Proof.
  intro H. destruct (hid_eq_nonleaf _ _ H) as [->|[N1 N2]]; [reflexivity|].
  rewrite !go_eq_nonleaf by assumption.
  rewrite (hid_eq_node_oid _ _ H), (hid_eq_same_go_type_l _ _ r H), (hid_eq_comparable _ _ H). reflexivity.
Qed.

Lemma is_method_nonleaf_l c r : match c with Leaf _ _ => False | _ => True end -> is_method c r = false.
Proof. destruct c; [contradiction|..]; reflexivity. Qed.

Lemma is_method_nonleaf_r c r : match r with Leaf _ _ => False | _ => True end -> is_method c r = false.
Proof.
  destruct r; [contradiction|..]; intros _;
    destruct c as [? [| | | | | | | | | | |[] ? ? ?]| | | | | |]; reflexivity.
Qed.

Lemma hid_eq_own_match_l e1 e2 r : hid_eq e1 e2 -> own_match e1 r = own_match e2 r.
Proof.
  intro H. unfold own_match. rewrite (hid_eq_go_eq_l _ _ r H).
  destruct (hid_eq_nonleaf _ _ H) as [->|[N1 N2]]; [reflexivity|].
  rewrite !is_method_nonleaf_l by assumption. reflexivity.
Qed.

Lemma go_eq_nonleaf_r c r :
  match r with Leaf _ _ => False | _ => True end ->
  go_eq c r =
  comparable c && comparable r &&
  match c with
  | Leaf _ LDeadline | Leaf _ (LErrno _) | Leaf _ (LUser ULVal _ _ _) | Leaf _ (LUser ULNoCmp _ _ _) => false
  | _ => Pos.eqb (node_oid c) (node_oid r) && same_go_type c r
  end.
Proof.
  destruct r as [|ir wr cr| | | | |]; try contradiction; intros _.
  1: destruct wr; try match goal with u : uwrap |- _ => destruct u end.
  all: destruct c as [? [| | | | | | | | | | |[] ? ? ?]|ic wc cc| | | | |]; try reflexivity.
  all: destruct wc; try reflexivity; match goal with u : uwrap |- _ => destruct u end; reflexivity.
Qed.

Lemma hid_eq_go_eq_r e1 e2 c : hid_eq e1 e2 -> go_eq c e1 = go_eq c e2.
Proof.
  intro H. destruct (hid_eq_nonleaf _ _ H) as [->|[N1 N2]]; [reflexivity|].
  rewrite !go_eq_nonleaf_r by assumption.
  rewrite (hid_eq_node_oid _ _ H), (hid_eq_same_go_type_r _ _ c H), (hid_eq_comparable _ _ H). reflexivity.
Qed.

Lemma hid_eq_own_match_r e1 e2 c : hid_eq e1 e2 -> own_match c e1 = own_match c e2.
Proof.
  intro H. unfold own_match. rewrite (hid_eq_go_eq_r _ _ c H), (hid_eq_comparable _ _ H).
  destruct (hid_eq_nonleaf _ _ H) as [->|[N1 N2]]; [reflexivity|].
  rewrite !is_method_nonleaf_r by assumption. reflexivity.
Qed.

Lemma hid_eq_mark_match_l e1 e2 r : hid_eq e1 e2 -> mark_match e1 r = mark_match e2 r.
Proof. intro H. unfold mark_match. now rewrite (hid_eq_get_mark _ _ H). Qed.

Lemma hid_eq_mark_match_r e1 e2 c : hid_eq e1 e2 -> mark_match c e1 = mark_match c e2.
Proof. intro H. unfold mark_match. now rewrite (hid_eq_get_mark _ _ H). Qed.

(* Is(e, r): the hidden payloads of e do not matter *)
Theorem hid_eq_is e1 e2 r : hid_eq e1 e2 -> is_ e1 r = is_ e2 r.
Proof.
  intro H. induction H using hid_eq_ind'; cbn [is_].
  - reflexivity.
  - rewrite IHhid_eq, (hid_eq_own_match_l _ _ r (HWrap i w _ _ H)),
      (hid_eq_mark_match_l _ _ r (HWrap i w _ _ H)). reflexivity.
  - rewrite IHhid_eq, (hid_eq_own_match_l _ _ r (HSecond i _ _ s1 s2 H)),
      (hid_eq_mark_match_l _ _ r (HSecond i _ _ s1 s2 H)). reflexivity.
  - reflexivity.
  - rewrite (hid_eq_own_match_l _ _ r (HMulti i k _ _ H)),
      (hid_eq_mark_match_l _ _ r (HMulti i k _ _ H)). f_equal.
    apply (Forall2_existsb_eq (fun a b => is_ a r = is_ b r)); [exact H0|auto].
  - rewrite (hid_eq_own_match_l _ _ r (HOLeaf i m d _ _ H)),
      (hid_eq_mark_match_l _ _ r (HOLeaf i m d _ _ H)). f_equal.
    apply (Forall2_existsb_eq (fun a b => is_ a r = is_ b r)); [exact H0|auto].
  - rewrite IHhid_eq, (hid_eq_own_match_l _ _ r (HOWrap i p d mt _ _ H)),
      (hid_eq_mark_match_l _ _ r (HOWrap i p d mt _ _ H)). reflexivity.
Qed.

(* Is(x, e): the hidden payloads of the reference do not matter *)
Theorem hid_eq_is_ref e1 e2 x : hid_eq e1 e2 -> is_ x e1 = is_ x e2.
Proof.
  intro H. rewrite !is_visit. apply existsb_ext'. intros c _.
  now rewrite (hid_eq_own_match_r _ _ c H), (hid_eq_mark_match_r _ _ c H).
Qed.

Theorem hid_eq_is_any e1 e2 rs : hid_eq e1 e2 -> is_any e1 rs = is_any e2 rs.
Proof.
  intro H. rewrite !is_any_spec. apply existsb_ext'. intros r _. now apply hid_eq_is.
Qed.

(* ... nor those of the references of IsAny *)
Theorem hid_eq_is_any_refs e rs1 rs2 : Forall2 hid_eq rs1 rs2 -> is_any e rs1 = is_any e rs2.
Proof.
  intro H. rewrite !is_any_spec. apply (Forall2_existsb_eq hid_eq); [exact H|].
  intros a b Hab. now apply hid_eq_is_ref.
Qed.

(* Mark(e, r) only looks at the mark of r *)
Lemma hid_eq_mark_ref i e r1 r2 : hid_eq r1 r2 -> mark_ i e r1 = mark_ i e r2.
Proof. intro H. apply mark_only_mark. now apply hid_eq_get_mark. Qed.

(* ---------- item 3: traversal, As, HasType ---------- *)
Theorem hid_eq_visit_all e1 e2 : hid_eq e1 e2 -> Forall2 hid_eq (visit_all e1) (visit_all e2).
Proof.
  intro H. induction H using hid_eq_ind'; cbn [visit_all].
  - constructor; constructor.
  - constructor; [now constructor|assumption].
  - constructor; [now constructor|assumption].
  - constructor; constructor.
  - constructor; [now constructor|]. clear H.
    induction H0; cbn [flat_map]; [constructor|]. now apply Forall2_app.
  - constructor; [now constructor|]. clear H.
    induction H0; cbn [flat_map]; [constructor|]. now apply Forall2_app.
  - constructor; [now constructor|assumption].
Qed.

Theorem hid_eq_visit_types e1 e2 :
  hid_eq e1 e2 -> List.map go_full_name (visit_all e1) = List.map go_full_name (visit_all e2).
Proof.
  intro H. apply (Forall2_map_eq hid_eq); [now apply hid_eq_visit_all|apply hid_eq_go_full_name].
Qed.

Lemma hid_eq_visit_length e1 e2 : hid_eq e1 e2 -> List.length (visit_all e1) = List.length (visit_all e2).
Proof.
  intro H. pose proof (hid_eq_visit_all _ _ H) as F.
  induction F; cbn [List.length]; [reflexivity|]. now rewrite IHF.
Qed.

Theorem hid_eq_unwrap_all e1 e2 : hid_eq e1 e2 -> hid_eq (unwrap_all e1) (unwrap_all e2).
Proof.
  intro H. induction H using hid_eq_ind'; cbn [unwrap_all]; try assumption; now constructor.
Qed.

Lemma hid_eq_unwrap_once e1 e2 :
  hid_eq e1 e2 ->
  match unwrap_once e1, unwrap_once e2 with
  | Some a, Some b => hid_eq a b
  | None, None => True
  | _, _ => False
  end.
Proof. intros []; cbn [unwrap_once]; auto. Qed.

Lemma hid_eq_unwrap_multi e1 e2 : hid_eq e1 e2 -> Forall2 hid_eq (unwrap_multi e1) (unwrap_multi e2).
Proof. intros []; cbn [unwrap_multi]; auto. Qed.

Theorem hid_eq_chain e1 e2 : hid_eq e1 e2 -> Forall2 hid_eq (chain e1) (chain e2).
Proof.
  intro H. induction H using hid_eq_ind'; cbn [chain];
    (constructor; [now constructor|]); solve [assumption | constructor].
Qed.

Lemma hid_eq_implements e1 e2 t : hid_eq e1 e2 -> implements e1 t = implements e2 t.
Proof. intros [| | | | |? ? ? ? ? []|]; destruct t; reflexivity. Qed.

Lemma hid_eq_assignable e1 e2 t : hid_eq e1 e2 -> assignable e1 t = assignable e2 t.
Proof.
  intro H. destruct t as [n|t]; cbn [assignable].
  - now rewrite (hid_eq_go_full_name _ _ H).
  - now apply hid_eq_implements.
Qed.

Lemma hid_eq_has_unwrap e1 e2 : hid_eq e1 e2 -> has_unwrap e1 = has_unwrap e2.
Proof. intros []; reflexivity. Qed.

Lemma hid_eq_has_cause e1 e2 : hid_eq e1 e2 -> has_cause e1 = has_cause e2.
Proof. intros []; reflexivity. Qed.

Definition opt_hid_eq (a b : option err) : Prop :=
  match a, b with
  | Some a, Some b => hid_eq a b
  | None, None => True
  | _, _ => False
  end.

Lemma first_some_hid (f g : err -> option err) l1 l2 :
  Forall2 (fun a b => opt_hid_eq (f a) (g b)) l1 l2 ->
  opt_hid_eq (first_some f l1) (first_some g l2).
Proof.
  induction 1 as [|a b l1 l2 Hab Hl IH]; cbn [first_some]; [exact I|].
  unfold opt_hid_eq in Hab. destruct (f a), (g b); try contradiction; [exact Hab|exact IH].
Qed.

Lemma as_method_wrap i w c1 c2 t : as_method (Wrap i w c1) t = as_method (Wrap i w c2) t.
Proof. destruct w; reflexivity. Qed.

Lemma as_method_some_hid e t v : as_method e t = Some v -> hid_eq v v.
Proof. intros _. apply hid_eq_refl. Qed.

Theorem hid_eq_as e1 e2 t :
  hid_eq e1 e2 ->
  match as_ e1 t, as_ e2 t with
  | Some a, Some b => hid_eq a b
  | None, None => True
  | _, _ => False
  end.
Proof.
  intro H. change (opt_hid_eq (as_ e1 t) (as_ e2 t)).
  induction H using hid_eq_ind'; cbn [as_].
  - cbn [as_method]. destruct (assignable _ t); [apply HLeaf|exact I].
  - rewrite (hid_eq_assignable _ _ t (HWrap i w _ _ H)).
    destruct (assignable _ t); [now apply HWrap|].
    rewrite (as_method_wrap i w c1 c2 t). destruct (as_method _ _) as [v|]; [apply hid_eq_refl|assumption].
  - cbn [as_method]. rewrite (hid_eq_assignable _ _ t (HSecond i _ _ s1 s2 H)).
    destruct (assignable _ t); [now apply HSecond|assumption].
  - cbn [as_method]. rewrite (hid_eq_assignable _ _ t (HBarrier i m h1 h2)).
    destruct (assignable _ t); [apply HBarrier|exact I].
  - cbn [as_method]. rewrite (hid_eq_assignable _ _ t (HMulti i k _ _ H)).
    destruct (assignable _ t); [now apply HMulti|]. now apply first_some_hid.
  - cbn [as_method]. rewrite (hid_eq_assignable _ _ t (HOLeaf i m d _ _ H)).
    destruct (assignable _ t); [now apply HOLeaf|]. now apply first_some_hid.
  - cbn [as_method]. rewrite (hid_eq_assignable _ _ t (HOWrap i p d mt _ _ H)).
    destruct (assignable _ t); [now apply HOWrap|assumption].
Qed.

Theorem hid_eq_std_as e1 e2 t :
  hid_eq e1 e2 ->
  match std_as e1 t, std_as e2 t with
  | Some a, Some b => hid_eq a b
  | None, None => True
  | _, _ => False
  end.
Proof.
  intro H. change (opt_hid_eq (std_as e1 t) (std_as e2 t)).
  induction H using hid_eq_ind'; cbn [std_as].
  - cbn [as_method]. destruct (assignable _ t); [apply HLeaf|exact I].
  - rewrite (hid_eq_assignable _ _ t (HWrap i w _ _ H)), (hid_eq_has_unwrap _ _ (HWrap i w _ _ H)).
    destruct (assignable _ t); [now apply HWrap|].
    rewrite (as_method_wrap i w c1 c2 t). destruct (as_method _ _) as [v|]; [apply hid_eq_refl|].
    destruct (has_unwrap _); [assumption|exact I].
  - cbn [as_method]. rewrite (hid_eq_assignable _ _ t (HSecond i _ _ s1 s2 H)).
    destruct (assignable _ t); [now apply HSecond|assumption].
  - cbn [as_method]. rewrite (hid_eq_assignable _ _ t (HBarrier i m h1 h2)).
    destruct (assignable _ t); [apply HBarrier|exact I].
  - cbn [as_method]. rewrite (hid_eq_assignable _ _ t (HMulti i k _ _ H)).
    destruct (assignable _ t); [now apply HMulti|]. now apply first_some_hid.
  - cbn [as_method]. rewrite (hid_eq_assignable _ _ t (HOLeaf i m d _ _ H)).
    destruct (assignable _ t); [now apply HOLeaf|]. now apply first_some_hid.
  - cbn [as_method]. rewrite (hid_eq_assignable _ _ t (HOWrap i p d mt _ _ H)).
    destruct (assignable _ t); [now apply HOWrap|assumption].
Qed.

(* markers.If with a predicate that only looks at the outermost node *)
Lemma hid_eq_if {A} (pred : err -> option A) e1 e2 :
  (forall a b, hid_eq a b -> pred a = pred b) ->
  hid_eq e1 e2 -> if_ pred e1 = if_ pred e2.
Proof.
  intros Hp H. induction H using hid_eq_ind'; cbn [if_].
  - reflexivity.
  - rewrite (Hp _ _ (HWrap i w _ _ H)), IHhid_eq. reflexivity.
  - rewrite (Hp _ _ (HSecond i _ _ s1 s2 H)), IHhid_eq. reflexivity.
  - rewrite (Hp _ _ (HBarrier i m h1 h2)). reflexivity.
  - rewrite (Hp _ _ (HMulti i k _ _ H)). reflexivity.
  - rewrite (Hp _ _ (HOLeaf i m d _ _ H)). reflexivity.
  - rewrite (Hp _ _ (HOWrap i p d mt _ _ H)), IHhid_eq. reflexivity.
Qed.

Theorem hid_eq_has_type e1 e2 r : hid_eq e1 e2 -> has_type e1 r = has_type e2 r.
Proof.
  intro H. unfold has_type. rewrite (hid_eq_if _ e1 e2); [reflexivity| |exact H].
  intros a b Hab. now rewrite (hid_eq_same_go_type_l _ _ r Hab).
Qed.

Theorem hid_eq_has_type_ref e r1 r2 : hid_eq r1 r2 -> has_type e r1 = has_type e r2.
Proof.
  intro H. unfold has_type.
  assert (E : forall x, if_ (fun c => if same_go_type c r1 then Some tt else None) x =
                        if_ (fun c => if same_go_type c r2 then Some tt else None) x).
  { intro x. induction x using err_ind'; cbn [if_]; rewrite (hid_eq_same_go_type_r _ _ _ H);
      try reflexivity; try (rewrite IHx; reflexivity). rewrite IHx1. reflexivity. }
  now rewrite E.
Qed.

(* the standard library's Is and pkg/errors.Cause *)
Theorem hid_eq_std_is e1 e2 r : hid_eq e1 e2 -> std_is e1 r = std_is e2 r.
Proof.
  intro H.
  induction H as [i k|i w c1 c2 H IH|i c1 c2 s1 s2 H IH|i m h1 h2|i k cs1 cs2 H IH|i m d cs1 cs2 H IH
                  |i p d mt c1 c2 H IH] using hid_eq_ind'.
  - reflexivity.
  - rewrite (std_is_unfold (Wrap i w c1)), (std_is_unfold (Wrap i w c2)).
    rewrite IH, (hid_eq_own_match_l _ _ r (HWrap i w _ _ H)),
      (hid_eq_has_unwrap _ _ (HWrap i w _ _ H)). reflexivity.
  - rewrite (std_is_unfold (Second i c1 s1)), (std_is_unfold (Second i c2 s2)).
    rewrite IH, (hid_eq_own_match_l _ _ r (HSecond i _ _ s1 s2 H)). reflexivity.
  - reflexivity.
  - rewrite (std_is_unfold (Multi i k cs1)), (std_is_unfold (Multi i k cs2)).
    rewrite (hid_eq_own_match_l _ _ r (HMulti i k _ _ H)). f_equal.
    apply (Forall2_existsb_eq (fun a b => std_is a r = std_is b r)); [exact IH|auto].
  - rewrite (std_is_unfold (OLeaf i m d cs1)), (std_is_unfold (OLeaf i m d cs2)).
    rewrite (hid_eq_own_match_l _ _ r (HOLeaf i m d _ _ H)). f_equal.
    apply (Forall2_existsb_eq (fun a b => std_is a r = std_is b r)); [exact IH|auto].
  - rewrite (std_is_unfold (OWrap i p d mt c1)), (std_is_unfold (OWrap i p d mt c2)).
    rewrite IH, (hid_eq_own_match_l _ _ r (HOWrap i p d mt _ _ H)). reflexivity.
Qed.

Theorem hid_eq_pkg_cause e1 e2 : hid_eq e1 e2 -> hid_eq (pkg_cause e1) (pkg_cause e2).
Proof.
  intro H. induction H using hid_eq_ind'; cbn [pkg_cause]; try (now constructor).
  - rewrite (hid_eq_has_cause _ _ (HWrap i w _ _ H)).
    destruct (has_cause _); [assumption|now constructor].
  - cbn. assumption.
  - cbn. assumption.
Qed.

(* ---------- item 4: the accessors ---------- *)
Lemma hid_eq_hint_of e1 e2 : hid_eq e1 e2 -> hint_of e1 = hint_of e2.
Proof. intros []; reflexivity. Qed.
Lemma hid_eq_detail_of e1 e2 : hid_eq e1 e2 -> detail_of e1 = detail_of e2.
Proof. intros []; reflexivity. Qed.
Lemma hid_eq_issue_link_of e1 e2 : hid_eq e1 e2 -> issue_link_of e1 = issue_link_of e2.
Proof. intros []; reflexivity. Qed.

Lemma all_hints_internal_unfold e acc :
  all_hints_internal e acc =
  let acc1 := match e with
              | Wrap _ _ c | Second _ c _ | OWrap _ _ _ _ c => all_hints_internal c acc
              | _ => acc
              end in
  let hint := match hint_of e with Some h => h | None => [] end in
  match hint with
  | [] => acc1
  | _ => let '(hints, seen) := acc1 in
         if mem_str hint seen then acc1 else (hints ++ [hint], hint :: seen)
  end.
Proof. destruct e; reflexivity. Qed.

Lemma hid_eq_all_hints_internal e1 e2 :
  hid_eq e1 e2 -> forall acc, all_hints_internal e1 acc = all_hints_internal e2 acc.
Proof.
  intro H.
  induction H as [i k|i w c1 c2 H IH|i c1 c2 s1 s2 H IH|i m h1 h2|i k cs1 cs2 H IH|i m d cs1 cs2 H IH
                  |i p d mt c1 c2 H IH] using hid_eq_ind'; intro acc; try reflexivity.
  - rewrite (all_hints_internal_unfold (Wrap i w c1)), (all_hints_internal_unfold (Wrap i w c2)).
    rewrite IH. reflexivity.
  - rewrite (all_hints_internal_unfold (Second i c1 s1)), (all_hints_internal_unfold (Second i c2 s2)).
    rewrite IH. reflexivity.
  - rewrite (all_hints_internal_unfold (OWrap i p d mt c1)), (all_hints_internal_unfold (OWrap i p d mt c2)).
    rewrite IH. reflexivity.
Qed.

Theorem hid_eq_hints e1 e2 : hid_eq e1 e2 -> get_all_hints e1 = get_all_hints e2.
Proof. intro H. unfold get_all_hints. now rewrite (hid_eq_all_hints_internal _ _ H). Qed.

Lemma all_details_internal_unfold e acc :
  all_details_internal e acc =
  let acc1 := match e with
              | Wrap _ _ c | Second _ c _ | OWrap _ _ _ _ c => all_details_internal c acc
              | _ => acc
              end in
  match detail_of e with
  | Some d => match d with [] => acc1 | _ => acc1 ++ [d] end
  | None => acc1
  end.
Proof. destruct e; reflexivity. Qed.

Lemma hid_eq_all_details_internal e1 e2 :
  hid_eq e1 e2 -> forall acc, all_details_internal e1 acc = all_details_internal e2 acc.
Proof.
  intro H.
  induction H as [i k|i w c1 c2 H IH|i c1 c2 s1 s2 H IH|i m h1 h2|i k cs1 cs2 H IH|i m d cs1 cs2 H IH
                  |i p d mt c1 c2 H IH] using hid_eq_ind'; intro acc; try reflexivity.
  - rewrite (all_details_internal_unfold (Wrap i w c1)), (all_details_internal_unfold (Wrap i w c2)).
    rewrite IH. reflexivity.
  - rewrite (all_details_internal_unfold (Second i c1 s1)), (all_details_internal_unfold (Second i c2 s2)).
    rewrite IH. reflexivity.
  - rewrite (all_details_internal_unfold (OWrap i p d mt c1)), (all_details_internal_unfold (OWrap i p d mt c2)).
    rewrite IH. reflexivity.
Qed.

Theorem hid_eq_details e1 e2 : hid_eq e1 e2 -> get_all_details e1 = get_all_details e2.
Proof. intro H. unfold get_all_details. now apply hid_eq_all_details_internal. Qed.

Lemma hid_eq_flatten_hints e1 e2 : hid_eq e1 e2 -> flatten_hints e1 = flatten_hints e2.
Proof. intro H. unfold flatten_hints. now rewrite (hid_eq_hints _ _ H). Qed.
Lemma hid_eq_flatten_details e1 e2 : hid_eq e1 e2 -> flatten_details e1 = flatten_details e2.
Proof. intro H. unfold flatten_details. now rewrite (hid_eq_details _ _ H). Qed.

Theorem hid_eq_issue_links e1 e2 : hid_eq e1 e2 -> get_all_issue_links e1 = get_all_issue_links e2.
Proof.
  intro H. unfold get_all_issue_links.
  apply (Forall2_flat_map_eq hid_eq); [now apply hid_eq_chain|].
  intros a b Hab. now rewrite (hid_eq_issue_link_of _ _ Hab).
Qed.

Theorem hid_eq_telemetry_keys e1 e2 : hid_eq e1 e2 -> get_telemetry_keys e1 = get_telemetry_keys e2.
Proof.
  intro H. unfold get_telemetry_keys, telemetry_keys_raw. f_equal.
  apply (Forall2_flat_map_eq hid_eq); [now apply hid_eq_chain|].
  intros a b []; reflexivity.
Qed.

Theorem hid_eq_domain e1 e2 : hid_eq e1 e2 -> get_domain e1 = get_domain e2.
Proof.
  intro H. unfold get_domain. rewrite (hid_eq_if _ e1 e2); [reflexivity| |exact H].
  intros a b []; reflexivity.
Qed.

Theorem hid_eq_context_tags e1 e2 : hid_eq e1 e2 -> get_context_tags e1 = get_context_tags e2.
Proof.
  intro H. unfold get_context_tags.
  apply (Forall2_flat_map_eq hid_eq); [now apply hid_eq_chain|].
  intros a b []; reflexivity.
Qed.

Theorem hid_eq_has_assertion_failure e1 e2 :
  hid_eq e1 e2 -> has_assertion_failure e1 = has_assertion_failure e2.
Proof.
  intro H. unfold has_assertion_failure.
  apply (Forall2_existsb_eq hid_eq); [now apply hid_eq_chain|].
  intros a b []; reflexivity.
Qed.

Theorem hid_eq_is_assertion_failure e1 e2 :
  hid_eq e1 e2 -> is_assertion_failure e1 = is_assertion_failure e2.
Proof. intros []; reflexivity. Qed.

Theorem hid_eq_has_issue_link e1 e2 : hid_eq e1 e2 -> has_issue_link e1 = has_issue_link e2.
Proof.
  intro H. unfold has_issue_link.
  apply (Forall2_existsb_eq hid_eq); [now apply hid_eq_chain|].
  intros a b []; reflexivity.
Qed.

Theorem hid_eq_has_unimplemented e1 e2 : hid_eq e1 e2 -> has_unimplemented e1 = has_unimplemented e2.
Proof.
  intro H. unfold has_unimplemented.
  destruct (hid_eq_unwrap_all _ _ H); reflexivity.
Qed.

Theorem hid_eq_http_code e1 e2 d : hid_eq e1 e2 -> get_http_code e1 d = get_http_code e2 d.
Proof.
  intro H. unfold get_http_code. rewrite (hid_eq_if _ e1 e2); [reflexivity| |exact H].
  intros a b []; reflexivity.
Qed.

Theorem hid_eq_grpc_code e1 e2 : hid_eq e1 e2 -> get_grpc_code e1 = get_grpc_code e2.
Proof.
  intro H. unfold get_grpc_code. rewrite (hid_eq_if _ e1 e2); [reflexivity| |exact H].
  intros a b []; reflexivity.
Qed.

(* oserror *)
Lemma hid_eq_underlying e1 e2 : hid_eq e1 e2 -> hid_eq (underlying e1) (underlying e2).
Proof.
  intro H. destruct H as [|i w c1 c2 Hc| | | | |]; try (now constructor).
  destruct w; cbn [underlying]; solve [assumption | now constructor].
Qed.

Lemma hid_eq_underlying_is e1 e2 which :
  hid_eq e1 e2 -> underlying_is e1 which = underlying_is e2 which.
Proof.
  intro H. unfold underlying_is. destruct (hid_eq_underlying _ _ H); reflexivity.
Qed.

Lemma hid_eq_opaque_errno_flag e1 e2 which :
  hid_eq e1 e2 -> opaque_errno_flag e1 which = opaque_errno_flag e2 which.
Proof.
  intro H. unfold opaque_errno_flag.
  pose proof (hid_eq_as _ _ (ATType (lib "errbase/*errbase.OpaqueErrno")) H) as HA.
  destruct (as_ e1 _) as [a|], (as_ e2 _) as [b|]; try contradiction; [|reflexivity].
  destruct HA; reflexivity.
Qed.

Lemma hid_eq_os_is which e1 e2 : hid_eq e1 e2 -> os_is which e1 = os_is which e2.
Proof.
  intro H. unfold os_is.
  rewrite (hid_eq_is _ _ _ H), (hid_eq_underlying_is _ _ which (hid_eq_unwrap_all _ _ H)),
    (hid_eq_opaque_errno_flag _ _ which H). reflexivity.
Qed.

Theorem hid_eq_is_permission e1 e2 : hid_eq e1 e2 -> is_permission e1 = is_permission e2.
Proof. apply hid_eq_os_is. Qed.
Theorem hid_eq_is_exist e1 e2 : hid_eq e1 e2 -> is_exist e1 = is_exist e2.
Proof. apply hid_eq_os_is. Qed.
Theorem hid_eq_is_notexist e1 e2 : hid_eq e1 e2 -> is_notexist e1 = is_notexist e2.
Proof. apply hid_eq_os_is. Qed.

Lemma hid_eq_timeout_method e1 e2 : hid_eq e1 e2 -> timeout_method e1 = timeout_method e2.
Proof.
  intro H.
  induction H as [i k|i w c1 c2 H IH|i c1 c2 s1 s2 H IH|i m h1 h2|i k cs1 cs2 H IH|i m d cs1 cs2 H IH
                  |i p d mt c1 c2 H IH] using hid_eq_ind'; try reflexivity.
  destruct w; cbn [timeout_method]; solve [reflexivity | exact IH].
Qed.

Lemma hid_eq_node_timeout e1 e2 : hid_eq e1 e2 -> node_timeout e1 = node_timeout e2.
Proof. intro H. unfold node_timeout. apply hid_eq_timeout_method, hid_eq_underlying, H. Qed.

Theorem hid_eq_is_timeout e1 e2 : hid_eq e1 e2 -> is_timeout e1 = is_timeout e2.
Proof.
  intro H. unfold is_timeout.
  apply (Forall2_existsb_eq hid_eq); [now apply hid_eq_chain|apply hid_eq_node_timeout].
Qed.
