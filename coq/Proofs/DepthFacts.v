(* Soundness of the static depth summary ([offsets], [entry_ok], [table_ok]) of
   Model/Depth.v with respect to the concrete stack semantics [exec] (C16). *)
From Coq Require Import String Ascii ZArith List Bool Lia.
From Errv Require Import Model.Depth.
Import ListNotations.
Open Scope Z_scope.

(* ------------------------------------------------------------------ *)
(* [drop]                                                              *)
(* ------------------------------------------------------------------ *)

Lemma drop_cons k (x : frame) l : 1 <= k -> drop k (x :: l) = drop (k - 1) l.
Proof.
  intros Hk. unfold drop.
  replace (Z.of_nat (List.length (x :: l))) with (Z.of_nat (List.length l) + 1)
    by (cbn [List.length]; lia).
  destruct (k <? 0) eqn:E1; [apply Z.ltb_lt in E1; lia|].
  destruct (k - 1 <? 0) eqn:E2; [apply Z.ltb_lt in E2; lia|].
  destruct (Z.of_nat (List.length l) + 1 <? k) eqn:E3;
    destruct (Z.of_nat (List.length l) <? k - 1) eqn:E4;
    try reflexivity;
    try (apply Z.ltb_lt in E3); try (apply Z.ltb_ge in E3);
    try (apply Z.ltb_lt in E4); try (apply Z.ltb_ge in E4); try lia.
  replace (Z.to_nat k) with (S (Z.to_nat (k - 1))) by lia.
  reflexivity.
Qed.

Lemma drop_some k (l : list frame) :
  0 <= k -> k <= Z.of_nat (List.length l) -> drop k l = Some (skipn (Z.to_nat k) l).
Proof.
  intros H0 H1. unfold drop.
  destruct (k <? 0) eqn:E1; [apply Z.ltb_lt in E1; lia|].
  destruct (Z.of_nat (List.length l) <? k) eqn:E2; [apply Z.ltb_lt in E2; lia|].
  reflexivity.
Qed.

(* ------------------------------------------------------------------ *)
(* [Forall2] helpers                                                   *)
(* ------------------------------------------------------------------ *)

Lemma Forall2_flat_map_same {A B C} (R : B -> C -> Prop) (F : A -> list B) (G : A -> list C) l :
  (forall x, In x l -> Forall2 R (F x) (G x)) ->
  Forall2 R (flat_map F l) (flat_map G l).
Proof.
  induction l as [|x l IH]; intros H; cbn [flat_map].
  - constructor.
  - apply Forall2_app.
    + apply H. left; reflexivity.
    + apply IH. intros y Hy. apply H. right; exact Hy.
Qed.

Lemma Forall2_map_right {A B C} (R : A -> C -> Prop) (g : B -> C) l1 l2 :
  Forall2 (fun x y => R x (g y)) l1 l2 -> Forall2 R l1 (List.map g l2).
Proof.
  induction 1; cbn [List.map]; constructor; assumption.
Qed.

Lemma Forall2_impl2 {A B} (R R' : A -> B -> Prop) l1 l2 :
  (forall x y, R x y -> R' x y) -> Forall2 R l1 l2 -> Forall2 R' l1 l2.
Proof.
  intros H; induction 1; constructor; auto.
Qed.

Lemma Forall2_length_eq {A B} (R : A -> B -> Prop) l1 l2 :
  Forall2 R l1 l2 -> List.length l1 = List.length l2.
Proof.
  induction 1; cbn [List.length]; congruence.
Qed.

Lemma Forall2_In_l {A B} (R : A -> B -> Prop) l1 l2 x :
  Forall2 R l1 l2 -> In x l1 -> exists y, In y l2 /\ R x y.
Proof.
  induction 1 as [|a b l1 l2 Hab HF IH]; intros Hin.
  - destruct Hin.
  - destruct Hin as [->|Hin].
    + exists b. split; [left; reflexivity|exact Hab].
    + destruct (IH Hin) as [y [Hy HR]]. exists y. split; [right; exact Hy|exact HR].
Qed.

(* ------------------------------------------------------------------ *)
(* The summary is sound, elementwise                                   *)
(* ------------------------------------------------------------------ *)

(* relation between one concrete capture [c] and one summary entry [o], when
   the function runs with depth [d] on the stack [S] whose head is its OWN
   frame: the summary offset (a,b) is relative to the function's caller, hence
   the +1.  An unknown summary entry is an unknown capture. *)
Definition rel (d : Z) (S : list frame) (c : option (list frame)) (o : option (Z * Z)) : Prop :=
  match o with
  | Some (a, b) => 0 <= a * d + b + 1 -> c = drop (a * d + b + 1) S
  | None => c = None
  end.

(* holds for EVERY stack (the head of [S] need not even be f's name), every
   table, every fuel, every depth (also negative ones) *)
Lemma exec_offsets_rel t fuel : forall f d S,
  Forall2 (rel d S) (exec t fuel f d S) (offsets t fuel f).
Proof.
  induction fuel as [|n IH]; intros f d S.
  - cbn [exec offsets]. constructor; [reflexivity|constructor].
  - cbn [exec offsets].
    apply Forall2_flat_map_same.
    intros [[c a1] b1] _.
    destruct c as [| |g|why].
    + (* runtime.Callers *)
      constructor; [|constructor].
      unfold rel. intros Hge.
      rewrite drop_cons by lia. f_equal. lia.
    + (* runtime.Caller *)
      constructor; [|constructor].
      unfold rel. intros _. f_equal. lia.
    + (* forwarding call *)
      destruct (lookup t g) as [fg|].
      * apply Forall2_map_right.
        eapply Forall2_impl2; [|apply (IH fg (a1 * d + b1) (fn_name fg :: S))].
        intros c [[a2 b2]|]; unfold rel.
        -- intros Hin Hge.
           replace (a2 * a1 * d + (a2 * b1 + b2 - 1) + 1) with (a2 * (a1 * d + b1) + b2) in * by lia.
           rewrite Hin by lia.
           rewrite drop_cons by lia. f_equal. lia.
        -- intros Hin; exact Hin.
      * constructor; [reflexivity|constructor].
    + constructor; [reflexivity|constructor].
Qed.

Lemma exec_offsets_length t fuel f d S :
  List.length (exec t fuel f d S) = List.length (offsets t fuel f).
Proof. eapply Forall2_length_eq. apply exec_offsets_rel. Qed.

(* The statement first proposed,
     exec t fuel f d (fn_name f :: U) =
     map (fun o => match o with Some (a,b) => drop (a*d+b) U | None => None end) (offsets t fuel f)
   is FALSE for skips smaller than the number of frames below the caller: *)
Example exec_offsets_naive_false :
  let f := mkfn "f" true true [(CCallers, 0, 0)] in
  exec [] 1 f 0 (fn_name f :: []) <>
  List.map (fun o => match o with
                     | Some (a, b) => drop (a * 0 + b) []
                     | None => None
                     end) (offsets [] 1 f).
Proof. vm_compute. discriminate. Qed.

(* the true variant of that statement, relative to the caller's frames [U]:
   elementwise, whenever the summary offset is not negative *)
Lemma exec_offsets t fuel f d U :
  Forall2 (fun c o => match o with
                      | Some (a, b) => 0 <= a * d + b -> c = drop (a * d + b) U
                      | None => c = None
                      end)
          (exec t fuel f d (fn_name f :: U)) (offsets t fuel f).
Proof.
  eapply Forall2_impl2; [|apply exec_offsets_rel].
  intros c [[a b]|]; unfold rel; [|auto].
  intros H Hge. rewrite H by lia. rewrite drop_cons by lia. f_equal. lia.
Qed.

(* ------------------------------------------------------------------ *)
(* Consequences of the checks                                          *)
(* ------------------------------------------------------------------ *)

Lemma entry_ok_offsets t f :
  entry_ok t f = true ->
  offsets t (fuel_of t) f <> [] /\
  forall o, In o (offsets t (fuel_of t) f) ->
            o = Some ((if fn_has_depth f then 1 else 0), 0).
Proof.
  unfold entry_ok. destruct (offsets t (fuel_of t) f) as [|o0 l] eqn:E.
  - discriminate.
  - intros H. split; [discriminate|].
    intros o Hin. rewrite forallb_forall in H. specialize (H o Hin).
    destruct o as [[a b]|]; [|discriminate].
    apply andb_true_iff in H. destruct H as [Ha Hb].
    apply Z.eqb_eq in Ha. apply Z.eqb_eq in Hb. subst. reflexivity.
Qed.

Lemma table_ok_entry t f : table_ok t = true -> In f (entries t) -> entry_ok t f = true.
Proof.
  unfold table_ok. intros H Hin. rewrite forallb_forall in H. apply H. exact Hin.
Qed.

(* every function the property names attributes correctly, for EVERY depth
   d >= 0 and every stack tall enough *)
Theorem attribution_sound t f :
  table_ok t = true -> In f (entries t) ->
  forall d U, 0 <= d -> d <= Z.of_nat (List.length U) ->
  forall c, In c (exec t (fuel_of t) f d (fn_name f :: U)) ->
  c = Some (skipn (Z.to_nat (if fn_has_depth f then d else 0)) U).
Proof.
  intros Hok Hin d U Hd0 Hd1 c Hc.
  pose proof (entry_ok_offsets t f (table_ok_entry t f Hok Hin)) as [_ Hall].
  destruct (Forall2_In_l _ _ _ c (exec_offsets t (fuel_of t) f d U) Hc) as [o [Ho HR]].
  rewrite (Hall o Ho) in HR.
  destruct (fn_has_depth f).
  - rewrite HR by lia. replace (1 * d + 0) with d by lia.
    apply drop_some; assumption.
  - rewrite HR by lia. replace (0 * d + 0) with 0 by lia.
    apply drop_some; lia.
Qed.

(* ... and it does capture something *)
Theorem attribution_nonempty t f :
  table_ok t = true -> In f (entries t) ->
  forall d U, exec t (fuel_of t) f d (fn_name f :: U) <> [].
Proof.
  intros Hok Hin d U Hnil.
  pose proof (entry_ok_offsets t f (table_ok_entry t f Hok Hin)) as [Hne _].
  pose proof (exec_offsets_length t (fuel_of t) f d (fn_name f :: U)) as Hlen.
  rewrite Hnil in Hlen. cbn [List.length] in Hlen.
  destruct (offsets t (fuel_of t) f); [congruence|discriminate].
Qed.

Lemma hd_skipn_nth {A} (dflt : A) k : forall l, hd dflt (skipn k l) = nth k l dflt.
Proof.
  induction k as [|k IH]; intros [|x l]; try reflexivity.
  cbn [skipn nth]. apply IH.
Qed.

(* the first captured frame is the d-th frame above f's caller *)
Corollary attribution_first_frame t f :
  table_ok t = true -> In f (entries t) ->
  forall d U, 0 <= d -> d <= Z.of_nat (List.length U) ->
  forall c, In c (exec t (fuel_of t) f d (fn_name f :: U)) ->
  exists l, c = Some l /\
            forall dflt, hd dflt l = nth (Z.to_nat (if fn_has_depth f then d else 0)) U dflt.
Proof.
  intros Hok Hin d U Hd0 Hd1 c Hc.
  rewrite (attribution_sound t f Hok Hin d U Hd0 Hd1 c Hc).
  eexists; split; [reflexivity|].
  intros dflt.
  apply hd_skipn_nth.
Qed.

(* ------------------------------------------------------------------ *)
(* The generated table passes the check                                *)
(* ------------------------------------------------------------------ *)
From Errv Require Import Gen.DepthTable.

Example table_checked : table_ok depth_table = true.
Proof. vm_compute; reflexivity. Qed.

Example table_entries_nonempty : entries depth_table <> [].
Proof. vm_compute. discriminate. Qed.
