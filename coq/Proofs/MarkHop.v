(* C02: "Is / IsAny are unchanged by network transfer", first hop between
   processes that know the types, ALL kinds of nodes.

   (1) mark_tree_hop: the mark (getMark: message + sequence of type marks) of
       every visible node is kept, for every error satisfying text_ok and the
       two extra conditions of [mark_ok] (both needed: witnesses in section 9);
   (2) is_hop / is_hop_marks / is_ref_hop_marks: Is against a reference that shares
       no object identity, on either side of the transfer;
   (3) the same for k hops. *)
From Coq Require Import Lia List Bool ZArith.
From Errv Require Import Base.Str Redact.Markers Redact.Buffer Model.Err Model.Sem Model.Details Model.Marks
     Model.Codec Model.Report Proofs.StrFacts Proofs.FastIs Proofs.MarksFacts Proofs.CodecFacts Proofs.RoundTrip
     Proofs.RedactFacts Proofs.EraseDef Proofs.EraseFacts Proofs.HopIdem Proofs.ExactHop Proofs.ShortText
     Proofs.IsErase Proofs.TextHop.
Import ListNotations.

(* ================================================================== *)
(* 1. trees of per-node observations over the visible cause tree        *)
(* ================================================================== *)
Inductive gtree (A : Type) :=
| GLeaf (a : A)
| GWrap (a : A) (c : gtree A)               (* single cause *)
| GMulti (a : A) (cs : list (gtree A)).     (* branches *)
Arguments GLeaf {A} a.
Arguments GWrap {A} a c.
Arguments GMulti {A} a cs.

Definition gnode {A} (a : A) (kids : list (gtree A)) : gtree A :=
  match kids with [] => GLeaf a | _ => GMulti a kids end.

(* same skeleton as [text_tree] of TextHop.v, with [f] of each node *)
Fixpoint gtree_of {A} (f : err -> A) (e : err) : gtree A :=
  match e with
  | Wrap _ _ c | Second _ c _ | OWrap _ _ _ _ c => GWrap (f e) (gtree_of f c)
  | Multi _ _ cs | OLeaf _ _ _ cs => gnode (f e) (List.map (gtree_of f) cs)
  | _ => GLeaf (f e)
  end.

Definition groot {A} (t : gtree A) : A :=
  match t with GLeaf a | GWrap a _ | GMulti a _ => a end.

Fixpoint gflat {A} (t : gtree A) : list A :=
  match t with
  | GLeaf a => [a]
  | GWrap a c => a :: gflat c
  | GMulti a cs => a :: flat_map gflat cs
  end.

Fixpoint gmap {A B} (h : A -> B) (t : gtree A) : gtree B :=
  match t with
  | GLeaf a => GLeaf (h a)
  | GWrap a c => GWrap (h a) (gmap h c)
  | GMulti a cs => GMulti (h a) (List.map (gmap h) cs)
  end.

Fixpoint gzip {A B} (t : gtree A) (u : gtree B) {struct t} : gtree (A * B) :=
  match t, u with
  | GWrap a c, GWrap b d => GWrap (a, b) (gzip c d)
  | GMulti a cs, GMulti b ds =>
    GMulti (a, b)
           ((fix z (l : list (gtree A)) (m : list (gtree B)) {struct l} : list (gtree (A * B)) :=
               match l, m with
               | x :: l', y :: m' => gzip x y :: z l' m'
               | _, _ => []
               end) cs ds)
  | _, _ => GLeaf (groot t, groot u)
  end.

Lemma groot_of {A} (f : err -> A) e : groot (gtree_of f e) = f e.
Proof. destruct e as [| | | |? ? cs|? ? ? cs|]; try reflexivity; destruct cs; reflexivity. Qed.

Lemma gflat_of {A} (f : err -> A) e : gflat (gtree_of f e) = List.map f (visit_all e).
Proof.
  induction e as [i k|i w c IH|i c s IHc IHs|i m h IH|i k cs IH|i m d cs IH|i p d mt c IH] using err_ind';
    try reflexivity; try (cbn [gtree_of gflat visit_all List.map]; now rewrite ?IH, ?IHc).
  - assert (Hm : flat_map gflat (List.map (gtree_of f) cs) = List.map f (flat_map visit_all cs)).
    { induction IH as [|x l Hx Hl IHl]; cbn [List.map flat_map]; [reflexivity|]. now rewrite map_app, Hx, IHl. }
    destruct cs as [|c0 cs]; [reflexivity|].
    change (f (Multi i k (c0 :: cs)) :: flat_map gflat (List.map (gtree_of f) (c0 :: cs))
            = f (Multi i k (c0 :: cs)) :: List.map f (flat_map visit_all (c0 :: cs))).
    now rewrite Hm.
  - assert (Hm : flat_map gflat (List.map (gtree_of f) cs) = List.map f (flat_map visit_all cs)).
    { induction IH as [|x l Hx Hl IHl]; cbn [List.map flat_map]; [reflexivity|]. now rewrite map_app, Hx, IHl. }
    destruct cs as [|c0 cs]; [reflexivity|].
    change (f (OLeaf i m d (c0 :: cs)) :: flat_map gflat (List.map (gtree_of f) (c0 :: cs))
            = f (OLeaf i m d (c0 :: cs)) :: List.map f (flat_map visit_all (c0 :: cs))).
    now rewrite Hm.
Qed.

Lemma gmap_of {A B} (h : A -> B) (f : err -> A) e :
  gmap h (gtree_of f e) = gtree_of (fun c => h (f c)) e.
Proof.
  induction e as [i k|i w c IH|i c s IHc IHs|i m h0 IH|i k cs IH|i m d cs IH|i p d mt c IH] using err_ind';
    try reflexivity; try (cbn [gtree_of gmap]; now rewrite ?IH, ?IHc).
  - assert (Hm : List.map (gmap h) (List.map (gtree_of f) cs) = List.map (gtree_of (fun c => h (f c))) cs).
    { induction IH as [|x l Hx Hl IHl]; cbn [List.map]; [reflexivity|]. now rewrite Hx, IHl. }
    destruct cs as [|c0 cs]; [reflexivity|].
    change (GMulti (h (f (Multi i k (c0 :: cs)))) (List.map (gmap h) (List.map (gtree_of f) (c0 :: cs)))
            = GMulti (h (f (Multi i k (c0 :: cs)))) (List.map (gtree_of (fun c => h (f c))) (c0 :: cs))).
    now rewrite Hm.
  - assert (Hm : List.map (gmap h) (List.map (gtree_of f) cs) = List.map (gtree_of (fun c => h (f c))) cs).
    { induction IH as [|x l Hx Hl IHl]; cbn [List.map]; [reflexivity|]. now rewrite Hx, IHl. }
    destruct cs as [|c0 cs]; [reflexivity|].
    change (GMulti (h (f (OLeaf i m d (c0 :: cs)))) (List.map (gmap h) (List.map (gtree_of f) (c0 :: cs)))
            = GMulti (h (f (OLeaf i m d (c0 :: cs)))) (List.map (gtree_of (fun c => h (f c))) (c0 :: cs))).
    now rewrite Hm.
Qed.

Definition zip_list {A B} (l : list (gtree A)) (m : list (gtree B)) : list (gtree (A * B)) :=
  (fix z (l : list (gtree A)) (m : list (gtree B)) {struct l} : list (gtree (A * B)) :=
     match l, m with
     | x :: l', y :: m' => gzip x y :: z l' m'
     | _, _ => []
     end) l m.

Lemma gzip_of {A B} (f : err -> A) (g : err -> B) e :
  gzip (gtree_of f e) (gtree_of g e) = gtree_of (fun c => (f c, g c)) e.
Proof.
  induction e as [i k|i w c IH|i c s IHc IHs|i m h0 IH|i k cs IH|i m d cs IH|i p d mt c IH] using err_ind';
    try reflexivity; try (cbn [gtree_of gzip]; now rewrite ?IH, ?IHc).
  - assert (Hm : zip_list (List.map (gtree_of f) cs) (List.map (gtree_of g) cs)
                 = List.map (gtree_of (fun c => (f c, g c))) cs).
    { induction IH as [|x l Hx Hl IHl]; [reflexivity|].
      change (gzip (gtree_of f x) (gtree_of g x) :: zip_list (List.map (gtree_of f) l) (List.map (gtree_of g) l)
              = gtree_of (fun c => (f c, g c)) x :: List.map (gtree_of (fun c => (f c, g c))) l).
      now rewrite Hx, IHl. }
    destruct cs as [|c0 cs]; [reflexivity|].
    change (GMulti (f (Multi i k (c0 :: cs)), g (Multi i k (c0 :: cs)))
                   (zip_list (List.map (gtree_of f) (c0 :: cs)) (List.map (gtree_of g) (c0 :: cs)))
            = GMulti (f (Multi i k (c0 :: cs)), g (Multi i k (c0 :: cs)))
                     (List.map (gtree_of (fun c => (f c, g c))) (c0 :: cs))).
    now rewrite Hm.
  - assert (Hm : zip_list (List.map (gtree_of f) cs) (List.map (gtree_of g) cs)
                 = List.map (gtree_of (fun c => (f c, g c))) cs).
    { induction IH as [|x l Hx Hl IHl]; [reflexivity|].
      change (gzip (gtree_of f x) (gtree_of g x) :: zip_list (List.map (gtree_of f) l) (List.map (gtree_of g) l)
              = gtree_of (fun c => (f c, g c)) x :: List.map (gtree_of (fun c => (f c, g c))) l).
      now rewrite Hx, IHl. }
    destruct cs as [|c0 cs]; [reflexivity|].
    change (GMulti (f (OLeaf i m d (c0 :: cs)), g (OLeaf i m d (c0 :: cs)))
                   (zip_list (List.map (gtree_of f) (c0 :: cs)) (List.map (gtree_of g) (c0 :: cs)))
            = GMulti (f (OLeaf i m d (c0 :: cs)), g (OLeaf i m d (c0 :: cs)))
                     (List.map (gtree_of (fun c => (f c, g c))) (c0 :: cs))).
    now rewrite Hm.
Qed.

Lemma gtree_of_ext {A} (f g : err -> A) e : (forall c, f c = g c) -> gtree_of f e = gtree_of g e.
Proof.
  intro H.
  induction e as [i k|i w c IH|i c s IHc IHs|i m h0 IH|i k cs IH|i m d cs IH|i p d mt c IH] using err_ind';
    try (cbn [gtree_of]; now rewrite ?IH, ?IHc, H).
  - assert (Hm : List.map (gtree_of f) cs = List.map (gtree_of g) cs).
    { induction IH as [|x l Hx Hl IHl]; cbn [List.map]; [reflexivity|]. now rewrite Hx, IHl. }
    cbn [gtree_of]. now rewrite Hm, H.
  - assert (Hm : List.map (gtree_of f) cs = List.map (gtree_of g) cs).
    { induction IH as [|x l Hx Hl IHl]; cbn [List.map]; [reflexivity|]. now rewrite Hx, IHl. }
    cbn [gtree_of]. now rewrite Hm, H.
Qed.

Lemma gtree_unwrap {A} (f : err -> A) e c :
  unwrap_once e = Some c -> gtree_of f e = GWrap (f e) (gtree_of f c).
Proof. destruct e; intro H; try discriminate H; injection H as ->; reflexivity. Qed.

Lemma visit_unwrap e c : unwrap_once e = Some c -> visit_all e = e :: visit_all c.
Proof. destruct e; intro H; try discriminate H; injection H as ->; reflexivity. Qed.

(* the tree of Error() texts of TextHop.v is the instance [error_text] *)
Fixpoint tt2g (t : ttree) : gtree str :=
  match t with
  | TLeaf s => GLeaf s
  | TWrap s c => GWrap s (tt2g c)
  | TMulti s cs => GMulti s (List.map tt2g cs)
  end.

Lemma tt2g_tree e : tt2g (text_tree e) = gtree_of error_text e.
Proof.
  induction e as [i k|i w c IH|i c s IHc IHs|i m h0 IH|i k cs IH|i m d cs IH|i p d mt c IH] using err_ind';
    try reflexivity.
  - rewrite tt_wrap. cbn [tt2g gtree_of]. now rewrite IH.
  - rewrite tt_second. cbn [tt2g gtree_of]. now rewrite IHc.
  - assert (Hm : List.map tt2g (List.map text_tree cs) = List.map (gtree_of error_text) cs).
    { induction IH as [|x l Hx Hl IHl]; cbn [List.map]; [reflexivity|]. now rewrite Hx, IHl. }
    rewrite tt_multi. cbn [gtree_of]. rewrite <- Hm. destruct cs; reflexivity.
  - assert (Hm : List.map tt2g (List.map text_tree cs) = List.map (gtree_of error_text) cs).
    { induction IH as [|x l Hx Hl IHl]; cbn [List.map]; [reflexivity|]. now rewrite Hx, IHl. }
    rewrite tt_oleaf. cbn [gtree_of]. rewrite <- Hm. destruct cs; reflexivity.
  - rewrite tt_owrap. cbn [tt2g gtree_of]. now rewrite IH.
Qed.

(* ================================================================== *)
(* 2. what a node contributes to Is, besides its text                   *)
(* ================================================================== *)
(* the mark stored by markers.Mark *)
Definition smark (c : err) : option emark :=
  match c with Wrap _ (WMark m) _ => Some m | _ => None end.

(* leaves of the standard library / the library itself that the decoders rebuild *)
Definition keyed (k : leafk) : bool :=
  match k with
  | LErrString _ | LDeadline | LErrno _ | LOpaqueErrno _ _ | LLeafError _ | LUnimpl _ _ _ | LTestError => true
  | _ => false
  end.

Definition keyk (c : err) : option leafk :=
  match c with Leaf _ k => if keyed k then Some k else None | _ => None end.

(* type marks of the chain from the node, stored mark, rebuilt leaf kind *)
Definition oinfo (c : err) : list tmark * option emark * option leafk :=
  (ns_tmarks (sem c), smark c, keyk c).

Definition user_leaf (c : err) : bool :=
  match c with Leaf _ (LUser _ _ _ _) => true | _ => false end.

(* ---- the two conditions text_ok does not imply ---- *)
Definition node_mark_ok (c : err) : bool :=
  match c with
  (* a forwarded errno that carries the platform of the decoding process comes back as
     syscall.Errno: another type mark *)
  | Leaf _ (LOpaqueErrno _ pe) => negb (str_eqb (en_arch pe) this_arch)
  (* a stored mark without types is not rebuilt by the withMark decoder: the node comes
     back as an opaque wrapper, whose mark is computed from its text and types *)
  | Wrap _ (WMark m) _ => match em_types m with [] => false | _ => true end
  | _ => true
  end.

Definition all_nodes (P : err -> bool) (e : err) : bool := forallb P (visit_all e).

Definition mark_ok (e : err) : bool := all_nodes node_mark_ok e.
Definition no_user (e : err) : bool := all_nodes (fun c => negb (user_leaf c)) e.

Lemma forallb_flat_map {A B} (f : B -> bool) (g : A -> list B) l :
  forallb f (flat_map g l) = forallb (fun x => forallb f (g x)) l.
Proof. induction l as [|x l IH]; cbn [flat_map forallb]; [reflexivity|]. now rewrite forallb_app, IH. Qed.

Lemma all_nodes_unwrap P e c : unwrap_once e = Some c -> all_nodes P e = P e && all_nodes P c.
Proof. intro H. unfold all_nodes. now rewrite (visit_unwrap e c H). Qed.

Lemma all_nodes_multi P i k cs : all_nodes P (Multi i k cs) = P (Multi i k cs) && forallb (all_nodes P) cs.
Proof. unfold all_nodes. cbn [visit_all forallb]. now rewrite forallb_flat_map. Qed.

Lemma all_nodes_oleaf P i m d cs : all_nodes P (OLeaf i m d cs) = P (OLeaf i m d cs) && forallb (all_nodes P) cs.
Proof. unfold all_nodes. cbn [visit_all forallb]. now rewrite forallb_flat_map. Qed.

Lemma all_nodes_leaf P i k : all_nodes P (Leaf i k) = P (Leaf i k).
Proof. unfold all_nodes. cbn [visit_all forallb]. apply andb_true_r. Qed.

Lemma all_nodes_barrier P i m h : all_nodes P (Barrier i m h) = P (Barrier i m h).
Proof. unfold all_nodes. cbn [visit_all forallb]. apply andb_true_r. Qed.

(* [node_mark_ok] reads the observations only *)
Definition nmo (x : list tmark * option emark * option leafk) : bool :=
  let '(_, sm, kk) := x in
  match sm with Some m => match em_types m with [] => false | _ => true end | None => true end &&
  match kk with Some (LOpaqueErrno _ pe) => negb (str_eqb (en_arch pe) this_arch) | _ => true end.

Lemma node_mark_ok_nmo c : node_mark_ok c = nmo (oinfo c).
Proof.
  destruct c as [i k|i w c|i c s|i m h|i k cs|i m d cs|i p d mt c]; try reflexivity.
  - destruct k; try reflexivity.
  - destruct w; try reflexivity. cbn [node_mark_ok oinfo nmo smark keyk]. now rewrite andb_true_r.
Qed.

Lemma mark_ok_tree e : mark_ok e = forallb nmo (gflat (gtree_of oinfo e)).
Proof.
  unfold mark_ok, all_nodes. rewrite gflat_of.
  induction (visit_all e) as [|c l IH]; cbn [List.map forallb]; [reflexivity|].
  now rewrite IH, node_mark_ok_nmo.
Qed.

(* ================================================================== *)
(* 3. type marks along the chain                                        *)
(* ================================================================== *)
Lemma ns_unwrap e c : unwrap_once e = Some c -> ns_tmarks (sem e) = own_tmark e :: ns_tmarks (sem c).
Proof. destruct e; intro H; try discriminate H; injection H as ->; reflexivity. Qed.

Lemma ns_nounwrap e : unwrap_once e = None -> ns_tmarks (sem e) = [own_tmark e].
Proof.
  destruct e as [i k|i w c|i c s|i m h|i k cs|i m d cs|i p d mt c]; intro H; try discriminate H; try reflexivity.
  destruct k; reflexivity.
Qed.

Lemma own_tmark_leaf_oid i j k : own_tmark (Leaf j k) = own_tmark (Leaf i k).
Proof. reflexivity. Qed.

Lemma oinfo_leaf_oid i j k : oinfo (Leaf j k) = oinfo (Leaf i k).
Proof. unfold oinfo. rewrite !ns_nounwrap by reflexivity. reflexivity. Qed.

Lemma get_mark_leaf_oid i j k : get_mark (Leaf j k) = get_mark (Leaf i k).
Proof.
  change (mkem (error_text (Leaf j k)) (ns_tmarks (sem (Leaf j k)))
          = mkem (error_text (Leaf i k)) (ns_tmarks (sem (Leaf i k)))).
  rewrite !ns_nounwrap by reflexivity. reflexivity.
Qed.

(* ================================================================== *)
(* 4. what one hop returns for each kind of node, with its type mark    *)
(* ================================================================== *)
Definition det_tmark (d : details) : tmark := mktm (dt_fam d) (dt_ext d).

Lemma own_tmark_oleaf j m d cs : own_tmark (OLeaf j m d cs) = det_tmark d.
Proof. reflexivity. Qed.
Lemma own_tmark_owrap j p d mt c : own_tmark (OWrap j p d mt c) = det_tmark d.
Proof. reflexivity. Qed.

(* leaves without (applicable) decoder: opaque leaf carrying the sender's type mark *)
Lemma hopA_leaf_opq i k n :
  exact_leaf k = false -> node_mark_ok (Leaf i k) = true ->
  exists j msg d, fst (hopk (Leaf i k) n) = OLeaf j msg d [] /\ det_tmark d = own_tmark (Leaf i k).
Proof.
  intros Hx Hm.
  destruct k as [| |m st| |m pe| | |c m|c m| |m|u m t xs]; try discriminate Hx;
    try (do 3 eexists; split; reflexivity).
  - cbn [exact_leaf] in Hx. cbn [node_mark_ok] in Hm. congruence.
  - cbn [exact_leaf] in Hx. apply negb_false_iff in Hx.
    unfold hop. enc_step. fam_is (Leaf i (LGrpcStatus c m)) k_grpcStatus. rewrite Hx.
    do 3 eexists; split; reflexivity.
  - cbn [exact_leaf] in Hx. apply negb_false_iff in Hx.
    unfold hop. enc_step. fam_is (Leaf i (LGogoStatus c m)) k_gogoStatus. rewrite Hx.
    do 3 eexists; split; reflexivity.
Qed.

(* every wrapper layer: the same kind of layer or the opaque wrapper, over the
   transferred cause, with the sender's type mark and stored mark *)
Lemma hopA_wrap i w c n :
  node_mark_ok (Wrap i w c) = true ->
  exists e', fst (hopk (Wrap i w c) n) = e' /\
    unwrap_once e' = Some (fst (hopk c n)) /\
    own_tmark e' = own_tmark (Wrap i w c) /\ smark e' = smark (Wrap i w c).
Proof.
  intro H. unfold hop.
  destruct w as [st|rp|rm|h|d|url det|keys|d|tags red| |m|ds|code|code|msg|msg|st|op path|op old new|sc
                 |op net src addr|u msg xs]; cbn [encode];
    try (destruct (extract_prefix _ _) as [p mt]);
    unfold mk_details; cbn [type_details decode];
    destruct (decode all_knowing (encode c) n) as [ec n0]; cbn [fst];
    try (eexists; split; [reflexivity|]; repeat split; reflexivity).
  - (* WContext *)
    destruct tags as [|t tags].
    + destruct (sd_or_nil (Wrap i (WContext [] red) c)) as [|r0 rr];
        (eexists; split; [reflexivity|]; repeat split; reflexivity).
    + eexists; split; [reflexivity|]; repeat split; reflexivity.
  - (* WMark *)
    destruct m as [mm [|t tys]]; [discriminate H|].
    eexists; split; [reflexivity|]; repeat split; reflexivity.
Qed.

Lemma hopA_multi i k cs n :
  exists e', fst (hopk (Multi i k cs) n) = e' /\
    ((exists j, e' = Multi j MJoin (hop_list cs n)) \/ (exists j m d, e' = OLeaf j m d (hop_list cs n))) /\
    own_tmark e' = own_tmark (Multi i k cs).
Proof.
  unfold hop, hop_list. destruct k; cbn [encode]; unfold mk_details; cbn [type_details decode];
    destruct (decode_list (decode all_knowing) (List.map encode cs) n) as [es n1]; cbn [fst].
  - destruct es as [|e0 es]; (eexists; split; [reflexivity|]; split; [|reflexivity]).
    + right. do 3 eexists. reflexivity.
    + left. eexists. reflexivity.
  - eexists; split; [reflexivity|]; split; [|reflexivity]. right. do 3 eexists. reflexivity.
  - eexists; split; [reflexivity|]; split; [|reflexivity]. right. do 3 eexists. reflexivity.
Qed.

(* ================================================================== *)
(* 5. opaque nodes that stay opaque: part of text_ok                    *)
(* ================================================================== *)
Fixpoint stays_ok (e : err) : bool :=
  match e with
  | Wrap _ _ c | Second _ c _ => stays_ok c
  | Multi _ _ cs => forallb stays_ok cs
  | OLeaf _ _ d cs => leaf_stays d cs && forallb stays_ok cs
  | OWrap _ _ d _ c => wrap_stays d && stays_ok c
  | _ => true
  end.

Lemma exact_stays e : exact_tree e = true -> stays_ok e = true.
Proof.
  induction e as [i k|i w c IH|i c s IHc IHs|i m h IH|i k cs IH|i m d cs IH|i p d mt c IH] using err_ind';
    intro H; try reflexivity; try discriminate H.
  - cbn [exact_tree] in H. apply andb_true_iff in H as [_ H]. now apply IH.
  - cbn [exact_tree] in H. apply andb_true_iff in H as [H _]. now apply IHc.
  - destruct k; try discriminate H. cbn [stays_ok].
    assert (Hf : forallb exact_tree cs = true) by (destruct cs; [discriminate H|exact H]).
    clear H. induction IH as [|x l Hx Hl IHl]; [reflexivity|].
    cbn [forallb] in Hf |- *. apply andb_true_iff in Hf as [H1 H2]. now rewrite (Hx H1), (IHl H2).
Qed.

Lemma tok_stays e : forall s, tok s e = true -> stays_ok e = true.
Proof.
  induction e as [i k|i w c IH|i c s2 IHc IHs|i m h IH|i k cs IH|i m d cs IH|i p d mt c IH] using err_ind';
    intros s H; try reflexivity.
  - (* Wrap *)
    assert (Hc : exists s', tok s' c = true).
    { destruct w; cbn [tok] in H;
        try (exists s; exact H);
        try (apply andb_true_iff in H as [_ H]; exists s; exact H).
      - destruct rp; [exists s; exact H|]. apply andb_true_iff in H as [_ H]. now exists true.
      - apply andb_true_iff in H as [_ H]. now exists false.
      - apply andb_true_iff in H as [_ H]. destruct (extract_prefix _ _) as [p mt]. destruct (mt =? 1).
        + apply andb_true_iff in H as [_ H]. now exists false.
        + destruct p; apply andb_true_iff in H as [_ H]; [now exists s|now exists true].
      - apply andb_true_iff in H as [_ H]. destruct (extract_prefix _ _) as [p mt]. destruct (mt =? 1).
        + apply andb_true_iff in H as [_ H]. now exists false.
        + destruct p; apply andb_true_iff in H as [_ H]; [now exists s|now exists true].
      - apply andb_true_iff in H as [_ H]. destruct (extract_prefix _ _) as [p mt]. destruct (mt =? 1).
        + apply andb_true_iff in H as [_ H]. now exists false.
        + destruct p; apply andb_true_iff in H as [_ H]; [now exists s|now exists true]. }
    destruct Hc as [s' Hc]. exact (IH s' Hc).
  - cbn [tok] in H. exact (IHc s H).
  - (* Multi *)
    assert (Hl : forall l, Forall (fun e => forall s, tok s e = true -> stays_ok e = true) l ->
                           forallb (tok false) l = true -> forallb stays_ok l = true).
    { induction 1 as [|x l Hx Hl IHl]; intro Hf; [reflexivity|].
      cbn [forallb] in Hf |- *. apply andb_true_iff in Hf as [H1 H2]. now rewrite (Hx false H1), (IHl H2). }
    destruct k; cbn [tok] in H.
    + apply andb_true_iff in H as [H _]. now apply exact_stays.
    + apply andb_true_iff in H as [_ H]. cbn [stays_ok]. now apply Hl.
    + apply andb_true_iff in H as [_ H]. cbn [stays_ok]. now apply Hl.
  - (* OLeaf *)
    cbn [tok] in H. apply andb_true_iff in H as [H H3]. apply andb_true_iff in H as [H1 _].
    cbn [stays_ok]. rewrite H1. cbn [andb].
    clear H1. induction IH as [|x l Hx Hl IHl]; [reflexivity|].
    cbn [forallb] in H3 |- *. apply andb_true_iff in H3 as [H1 H2]. now rewrite (Hx false H1), (IHl H2).
  - (* OWrap *)
    cbn [tok] in H. apply andb_true_iff in H as [Hd H]. cbn [stays_ok]. rewrite Hd. cbn [andb].
    destruct (is_full_msg mt).
    + apply andb_true_iff in H as [_ H]. exact (IH false H).
    + destruct p; [exact (IH s H)|]. apply andb_true_iff in H as [_ H]. exact (IH true H).
Qed.

(* ================================================================== *)
(* 6. one hop keeps the observations of every visible node              *)
(* ================================================================== *)
Definition RA (e e' : err) : Prop := gtree_of oinfo e' = gtree_of oinfo e /\ no_user e' = true.

Lemma oinfo_ns a b : oinfo a = oinfo b -> ns_tmarks (sem a) = ns_tmarks (sem b).
Proof. intro H. exact (f_equal (fun x => fst (fst x)) H). Qed.

Lemma tree_root_oinfo a b : gtree_of oinfo a = gtree_of oinfo b -> oinfo a = oinfo b.
Proof. intro H. apply (f_equal groot) in H. now rewrite !groot_of in H. Qed.

Lemma keyk_unwrap e c : unwrap_once e = Some c -> keyk e = None /\ user_leaf e = false.
Proof. destruct e; intro H; try discriminate H; split; reflexivity. Qed.

Lemma RA_unwrap e e' c c' :
  unwrap_once e = Some c -> unwrap_once e' = Some c' ->
  own_tmark e' = own_tmark e -> smark e' = smark e -> RA c c' -> RA e e'.
Proof.
  intros Hu Hu' Ht Hs [T1 T2]. split.
  - rewrite (gtree_unwrap oinfo _ _ Hu), (gtree_unwrap oinfo _ _ Hu'), T1. f_equal.
    unfold oinfo. rewrite (ns_unwrap _ _ Hu), (ns_unwrap _ _ Hu'), Ht, Hs.
    rewrite (oinfo_ns _ _ (tree_root_oinfo _ _ T1)).
    now rewrite (proj1 (keyk_unwrap _ _ Hu)), (proj1 (keyk_unwrap _ _ Hu')).
  - unfold no_user. rewrite (all_nodes_unwrap _ _ _ Hu'), (proj2 (keyk_unwrap _ _ Hu')). exact T2.
Qed.

Definition is_multi (e : err) : bool :=
  match e with Multi _ _ _ | OLeaf _ _ _ _ => true | _ => false end.

Lemma RA_multi e e' :
  is_multi e = true -> is_multi e' = true -> own_tmark e' = own_tmark e ->
  List.map (gtree_of oinfo) (unwrap_multi e') = List.map (gtree_of oinfo) (unwrap_multi e) ->
  forallb no_user (unwrap_multi e') = true -> RA e e'.
Proof.
  intros He He' Ht Hm Hn.
  assert (Ho : forall x, is_multi x = true ->
                 gtree_of oinfo x = gnode ([own_tmark x], None, None) (List.map (gtree_of oinfo) (unwrap_multi x))).
  { intros x Hx. destruct x; try discriminate Hx; cbn [gtree_of unwrap_multi]; f_equal;
      unfold oinfo; now rewrite ns_nounwrap by reflexivity. }
  split.
  - now rewrite (Ho e He), (Ho e' He'), Ht, Hm.
  - destruct e'; try discriminate He'; unfold no_user.
    + rewrite all_nodes_multi. exact Hn.
    + rewrite all_nodes_oleaf. exact Hn.
Qed.

Lemma hop_list_A cs :
  Forall (fun c => forall n, stays_ok c = true -> mark_ok c = true -> RA c (fst (hopk c n))) cs ->
  forallb stays_ok cs = true -> forallb mark_ok cs = true ->
  forall n, List.map (gtree_of oinfo) (hop_list cs n) = List.map (gtree_of oinfo) cs /\
            forallb no_user (hop_list cs n) = true.
Proof.
  induction 1 as [|c l Hc Hl IH]; intros Hs Hm n.
  - split; reflexivity.
  - cbn [forallb] in Hs, Hm. apply andb_true_iff in Hs as [S1 S2]. apply andb_true_iff in Hm as [M1 M2].
    specialize (Hc n S1 M1). unfold hop in Hc. unfold hop_list. cbn [List.map decode_list].
    destruct (decode all_knowing (encode c) n) as [e1 n1]. cbn [fst] in Hc.
    specialize (IH S2 M2 n1). unfold hop_list in IH.
    destruct (decode_list (decode all_knowing) (List.map encode l) n1) as [es n2]. cbn [fst] in *.
    destruct Hc as [C1 C2]. destruct IH as [I1 I2]. cbn [List.map forallb]. now rewrite C1, I1, C2, I2.
Qed.

Lemma keyed_exact i k : exact_leaf k = false -> node_mark_ok (Leaf i k) = true -> keyed k = false.
Proof.
  intros Hx Hm. destruct k; try discriminate Hx; try reflexivity.
  cbn [exact_leaf] in Hx. cbn [node_mark_ok] in Hm. congruence.
Qed.

Theorem hopA e : forall n, stays_ok e = true -> mark_ok e = true -> RA e (fst (hopk e n)).
Proof.
  induction e as [i k|i w c IH|i c s2 IHc IHs|i m h IH|i k cs IH|i m d cs IH|i p d mt c IH] using err_ind';
    intros n Hs Hm.
  - (* Leaf *)
    unfold mark_ok in Hm. rewrite all_nodes_leaf in Hm.
    destruct (exact_leaf k) eqn:Hx.
    + destruct (hop_leaf_exact i k n Hx) as [j ->]. split.
      * cbn [gtree_of]. now rewrite (oinfo_leaf_oid i j k).
      * unfold no_user. rewrite all_nodes_leaf. destruct k; try discriminate Hx; reflexivity.
    + destruct (hopA_leaf_opq i k n Hx Hm) as (j & msg & d & -> & Hd). split; [|reflexivity].
      cbn [gtree_of List.map gnode]. f_equal. unfold oinfo.
      rewrite !ns_nounwrap by reflexivity. rewrite own_tmark_oleaf, Hd.
      cbn [smark keyk]. now rewrite (keyed_exact i k Hx Hm).
  - (* Wrap *)
    unfold mark_ok in Hm. rewrite (all_nodes_unwrap _ (Wrap i w c) c eq_refl) in Hm.
    apply andb_true_iff in Hm as [Hm Hmc]. cbn [stays_ok] in Hs.
    destruct (hopA_wrap i w c n Hm) as (e' & -> & Hu & Ht & Hsm).
    exact (RA_unwrap (Wrap i w c) e' c _ eq_refl Hu Ht Hsm (IH n Hs Hmc)).
  - (* Second *)
    unfold mark_ok in Hm. rewrite (all_nodes_unwrap _ (Second i c s2) c eq_refl) in Hm.
    apply andb_true_iff in Hm as [_ Hmc]. cbn [stays_ok] in Hs.
    destruct (hop_second i c s2 n) as (j & s' & ->).
    exact (RA_unwrap (Second i c s2) (Second j (fst (hopk c n)) s') c _ eq_refl eq_refl eq_refl eq_refl
                     (IHc n Hs Hmc)).
  - (* Barrier *)
    destruct (hop_barrier i m h n) as (j & h' & ->). split; [|reflexivity].
    cbn [gtree_of]. unfold oinfo. rewrite !ns_nounwrap by reflexivity. reflexivity.
  - (* Multi *)
    unfold mark_ok in Hm. rewrite all_nodes_multi in Hm. apply andb_true_iff in Hm as [_ Hmc].
    cbn [stays_ok] in Hs.
    destruct (hop_list_A cs IH Hs Hmc n) as [L1 L2].
    destruct (hopA_multi i k cs n) as (e' & -> & Hf & Ht).
    destruct Hf as [(j & Hf)|(j & m' & d & Hf)]; rewrite Hf in Ht |- *;
      (apply RA_multi; [reflexivity|reflexivity|exact Ht|exact L1|exact L2]).
  - (* OLeaf *)
    unfold mark_ok in Hm. rewrite all_nodes_oleaf in Hm. apply andb_true_iff in Hm as [_ Hmc].
    cbn [stays_ok] in Hs. apply andb_true_iff in Hs as [Hd Hs].
    destruct (hop_list_A cs IH Hs Hmc n) as [L1 L2].
    destruct (hop_oleaf i m d cs n Hd) as [j ->].
    apply RA_multi; [reflexivity|reflexivity|reflexivity|exact L1|exact L2].
  - (* OWrap *)
    unfold mark_ok in Hm. rewrite (all_nodes_unwrap _ (OWrap i p d mt c) c eq_refl) in Hm.
    apply andb_true_iff in Hm as [_ Hmc]. cbn [stays_ok] in Hs. apply andb_true_iff in Hs as [Hd Hs].
    destruct (hop_owrap i p d mt c n Hd) as [j ->].
    exact (RA_unwrap (OWrap i p d mt c) (OWrap j p d mt (fst (hopk c n))) c _ eq_refl eq_refl eq_refl eq_refl
                     (IH n Hs Hmc)).
Qed.

(* ================================================================== *)
(* 7. the tree of marks                                                 *)
(* ================================================================== *)
Definition mtree := gtree emark.

(* getMark of every visible node, over the skeleton of the visible cause tree *)
Definition mark_tree (e : err) : mtree := gtree_of get_mark e.

(* text and observations of every node: what Is can see of an error that shares
   no object identity with the reference *)
Definition finfo (c : err) : str * (list tmark * option emark * option leafk) := (error_text c, oinfo c).
Definition info_tree (e : err) := gtree_of finfo e.

Definition mark_of (x : str * (list tmark * option emark * option leafk)) : emark :=
  match snd (fst (snd x)) with
  | Some m => m
  | None => mkem (fst x) (fst (fst (snd x)))
  end.

Lemma get_mark_info c : get_mark c = mark_of (finfo c).
Proof.
  destruct c as [i k|i w c|i c s|i m h|i k cs|i m d cs|i p d mt c]; try reflexivity.
  destruct w; reflexivity.
Qed.

Lemma mark_tree_info e : mark_tree e = gmap mark_of (info_tree e).
Proof. unfold mark_tree, info_tree. rewrite gmap_of. apply gtree_of_ext. apply get_mark_info. Qed.

Lemma info_tree_zip e : info_tree e = gzip (gtree_of error_text e) (gtree_of oinfo e).
Proof. symmetry. apply (gzip_of error_text oinfo). Qed.

Lemma mark_tree_root e : groot (mark_tree e) = get_mark e.
Proof. apply groot_of. Qed.

Lemma mark_tree_nodes e : gflat (mark_tree e) = List.map get_mark (visit_all e).
Proof. apply gflat_of. Qed.

(* general form: one hop keeps text, type marks, stored mark and rebuilt leaf kind
   of every visible node; the result has no leaf of a user type and satisfies
   the hypotheses again *)
Theorem info_tree_hop e n :
  text_ok e = true -> mark_ok e = true ->
  let e' := fst (hop all_knowing e n) in
  info_tree e' = info_tree e /\ no_user e' = true /\ text_ok e' = true /\ mark_ok e' = true.
Proof.
  intros Ht Hm e'.
  pose proof (tok_hop e false n Ht) as [G1 G2]. fold e' in G1, G2.
  destruct (hopA e n (tok_stays e false Ht) Hm) as [A1 A2]. fold e' in A1, A2.
  split; [|split; [exact A2|split; [exact G2|]]].
  - rewrite !info_tree_zip, A1, <- !tt2g_tree, G1. reflexivity.
  - rewrite mark_ok_tree, A1, <- mark_ok_tree. exact Hm.
Qed.

(* (1) the mark of every visible node is kept *)
Theorem mark_tree_hop e n :
  text_ok e = true -> mark_ok e = true -> mark_tree (fst (hop all_knowing e n)) = mark_tree e.
Proof.
  intros Ht Hm. rewrite !mark_tree_info. now rewrite (proj1 (info_tree_hop e n Ht Hm)).
Qed.

Corollary get_mark_hop e n :
  text_ok e = true -> mark_ok e = true -> get_mark (fst (hop all_knowing e n)) = get_mark e.
Proof. intros Ht Hm. rewrite <- !mark_tree_root. now rewrite mark_tree_hop. Qed.

Corollary marks_hop e n :
  text_ok e = true -> mark_ok e = true ->
  List.map get_mark (visit_all (fst (hop all_knowing e n))) = List.map get_mark (visit_all e).
Proof. intros Ht Hm. rewrite <- !mark_tree_nodes. now rewrite mark_tree_hop. Qed.

(* (3) k hops *)
Lemma info_transfer_gen k : forall e n,
  text_ok e = true -> mark_ok e = true ->
  let e' := fst (transfer (List.repeat all_knowing k) e n) in
  info_tree e' = info_tree e /\ (k <> 0%nat -> no_user e' = true) /\ text_ok e' = true /\ mark_ok e' = true.
Proof.
  induction k as [|k IH]; intros e n Ht Hm; cbn [List.repeat transfer].
  - cbn [fst]. split; [reflexivity|]. split; [congruence|]. now split.
  - destruct (info_tree_hop e n Ht Hm) as (H1 & H2 & H3 & H4).
    destruct (hop all_knowing e n) as [e1 n1]. cbn [fst] in H1, H2, H3, H4.
    destruct (IH e1 n1 H3 H4) as (T1 & T2 & T3 & T4).
    split; [now rewrite T1|]. split; [|now split].
    intros _. destruct k as [|k]; [exact H2|]. apply T2. discriminate.
Qed.

Corollary mark_tree_transfer e k n :
  text_ok e = true -> mark_ok e = true ->
  mark_tree (fst (transfer (List.repeat all_knowing k) e n)) = mark_tree e.
Proof.
  intros Ht Hm. rewrite !mark_tree_info. now rewrite (proj1 (info_transfer_gen k e n Ht Hm)).
Qed.

(* ================================================================== *)
(* 8. Is against a reference that shares no object identity             *)
(* ================================================================== *)
(* the Is method of a rebuilt leaf kind (syscall.Errno, *errbase.OpaqueErrno) *)
Definition kmeth (kk : option leafk) (r : err) : bool :=
  match kk with Some k => is_method (Leaf 1%positive k) r | None => false end.

(* value equality implies equal marks *)
Lemma go_eq_val_mark c r : go_eq_val c r = true -> mark_match c r = true.
Proof.
  unfold go_eq_val.
  destruct c as [i k|? ? ?|? ? ?|? ? ?|? ? ?|? ? ? ?|? ? ? ? ?]; cbn [leaf_of]; try discriminate.
  destruct r as [j k'|? ? ?|? ? ?|? ? ?|? ? ?|? ? ? ?|? ? ? ? ?]; cbn [leaf_of]; try discriminate.
  intro H. unfold mark_match. apply equal_marks_spec.
  destruct k as [| | |a| | | | | | | |u m t xs]; try destruct u;
    destruct k' as [| | |b| | | | | | | |u' m' t' xs']; try destruct u';
    cbn [kind_val_eq] in H; try discriminate H.
  - apply get_mark_leaf_oid.
  - apply Z.eqb_eq in H. subst b. apply get_mark_leaf_oid.
  - apply get_mark_leaf_oid.
  - apply andb_true_iff in H as [H _]. apply str_eqb_eq in H. subst m'.
    change (mkem m (ns_tmarks (sem (Leaf i (LUser ULVal m t xs))))
            = mkem m (ns_tmarks (sem (Leaf j (LUser ULVal m t' xs'))))).
    rewrite !ns_nounwrap by reflexivity. reflexivity.
Qed.

(* so does the Is method of a gRPC status *)
Lemma grpc_mark i c1 m1 r :
  is_method (Leaf i (LGrpcStatus c1 m1)) r = true -> mark_match (Leaf i (LGrpcStatus c1 m1)) r = true.
Proof.
  destruct r as [j k|? ? ?|? ? ?|? ? ?|? ? ?|? ? ? ?|? ? ? ? ?]; try discriminate.
  destruct k; try discriminate. cbn [is_method]. intro H. apply andb_true_iff in H as [H1 H2].
  apply N.eqb_eq in H1. apply str_eqb_eq in H2. subst. unfold mark_match. apply equal_marks_spec.
  apply get_mark_leaf_oid.
Qed.

Lemma is_method_info c r :
  mark_match c r = false -> is_method c r = kmeth (keyk c) r || (user_leaf c && is_method c r).
Proof.
  intro M. destruct c as [i k|? ? ?|? ? ?|? ? ?|? ? ?|? ? ? ?|? ? ? ? ?]; try reflexivity.
  destruct k as [| | | | | | |c1 m1| | | |u m t xs];
    cbn [keyk keyed kmeth user_leaf andb orb]; rewrite ?orb_false_r; try reflexivity.
  destruct (is_method (Leaf i (LGrpcStatus c1 m1)) r) eqn:E; [|reflexivity].
  rewrite (grpc_mark _ _ _ _ E) in M. discriminate M.
Qed.

(* the identity-free match test reads the observations, except for the Is
   methods of user types *)
Lemma nmatch_info c r :
  nmatch c r = kmeth (keyk c) r || mark_match c r || (user_leaf c && is_method c r).
Proof.
  unfold nmatch. destruct (mark_match c r) eqn:M.
  - now rewrite !orb_true_r.
  - destruct (go_eq_val c r) eqn:G; [rewrite (go_eq_val_mark _ _ G) in M; discriminate M|].
    rewrite andb_false_r, !orb_false_r. cbn [orb]. now apply is_method_info.
Qed.

Definition info_match (r : err) (x : str * (list tmark * option emark * option leafk)) : bool :=
  kmeth (snd (snd x)) r || equal_marks (mark_of x) (get_mark r).

Lemma is_by_info a r :
  disjoint_ref a r ->
  (forall c, In c (visit_all a) -> user_leaf c = true -> is_method c r = false) ->
  is_ a r = existsb (info_match r) (gflat (info_tree a)).
Proof.
  intros Hd Hu. rewrite is_visit. unfold info_tree. rewrite gflat_of, existsb_map'.
  apply existsb_ext'. intros c Hc.
  rewrite (own_nmatch c r (Hd c Hc)), nmatch_info.
  assert (U : user_leaf c && is_method c r = false).
  { destruct (user_leaf c) eqn:U; [|reflexivity]. now rewrite (Hu c Hc U). }
  rewrite U, orb_false_r. unfold info_match, mark_match. now rewrite <- get_mark_info.
Qed.

(* two errors with the same texts and observations are not told apart by Is *)
Theorem is_same_info a b r :
  info_tree a = info_tree b ->
  disjoint_ref a r -> disjoint_ref b r ->
  (forall c, In c (visit_all a) -> user_leaf c = true -> is_method c r = false) ->
  (forall c, In c (visit_all b) -> user_leaf c = true -> is_method c r = false) ->
  is_ a r = is_ b r.
Proof. intros Hi Da Db Ua Ub. now rewrite (is_by_info a r Da Ua), (is_by_info b r Db Ub), Hi. Qed.

Lemma no_user_nodes e c : no_user e = true -> In c (visit_all e) -> user_leaf c = true -> False.
Proof.
  intros H Hc U. unfold no_user, all_nodes in H. rewrite forallb_forall in H.
  specialize (H c Hc). rewrite U in H. discriminate H.
Qed.

(* (2) the error is transferred.  The only Is methods lost by the hop are those of
   user types (their leaves come back as opaque leaves): they must not accept r. *)
Theorem is_hop e r n :
  text_ok e = true -> mark_ok e = true ->
  disjoint_ref e r -> disjoint_ref (fst (hop all_knowing e n)) r ->
  (forall c, In c (visit_all e) -> user_leaf c = true -> is_method c r = false) ->
  is_ (fst (hop all_knowing e n)) r = is_ e r.
Proof.
  intros Ht Hm D D' Hu. destruct (info_tree_hop e n Ht Hm) as (H1 & H2 & _ & _).
  apply is_same_info; try assumption.
  intros c Hc U. destruct (no_user_nodes _ c H2 Hc U).
Qed.

(* r can only match by marks: no visible node has an Is method accepting it *)
Corollary is_hop_marks e r n :
  text_ok e = true -> mark_ok e = true ->
  disjoint_ref e r -> disjoint_ref (fst (hop all_knowing e n)) r ->
  (forall c, In c (visit_all e) -> is_method c r = false) ->
  is_ (fst (hop all_knowing e n)) r = is_ e r.
Proof. intros Ht Hm D D' Hu. apply is_hop; try assumption. intros c Hc _. now apply Hu. Qed.

Corollary is_any_hop e rs n :
  text_ok e = true -> mark_ok e = true ->
  Forall (fun r => disjoint_ref e r /\ disjoint_ref (fst (hop all_knowing e n)) r /\
                   forall c, In c (visit_all e) -> user_leaf c = true -> is_method c r = false) rs ->
  is_any (fst (hop all_knowing e n)) rs = is_any e rs.
Proof.
  intros Ht Hm H. rewrite !is_any_spec. apply existsb_ext'. intros r Hr.
  rewrite Forall_forall in H. destruct (H r Hr) as (D & D' & Hu). now apply is_hop.
Qed.

Theorem is_transfer e r k n :
  text_ok e = true -> mark_ok e = true ->
  disjoint_ref e r -> disjoint_ref (fst (transfer (List.repeat all_knowing k) e n)) r ->
  (forall c, In c (visit_all e) -> user_leaf c = true -> is_method c r = false) ->
  is_ (fst (transfer (List.repeat all_knowing k) e n)) r = is_ e r.
Proof.
  intros Ht Hm D D' Hu. destruct k as [|k]; [reflexivity|].
  destruct (info_transfer_gen (S k) e n Ht Hm) as (H1 & H2 & _ & _).
  apply is_same_info; try assumption.
  intros c Hc U. destruct (no_user_nodes _ c (H2 ltac:(discriminate)) Hc U).
Qed.

(* ---- the reference is transferred ---- *)
Lemma is_method_ref_cases c r :
  is_method c r = true -> ~ not_os_sentinel r \/ mark_match c r = true \/ user_leaf r = true.
Proof.
  assert (Hos : forall j m (b1 b2 b3 : bool),
            (Pos.eqb j oid_permission && b1) || (Pos.eqb j oid_exist && b2) || (Pos.eqb j oid_notexist && b3) = true ->
            ~ not_os_sentinel (Leaf j (LErrString m))).
  { intros j m b1 b2 b3 H (H1 & H2 & H3). cbn [node_oid] in H1, H2, H3.
    rewrite (proj2 (Pos.eqb_neq _ _) H1), (proj2 (Pos.eqb_neq _ _) H2), (proj2 (Pos.eqb_neq _ _) H3) in H.
    discriminate H. }
  destruct c as [i k|? ? ?|? ? ?|? ? ?|? ? ?|? ? ? ?|? ? ? ? ?]; try discriminate.
  destruct k as [| | |z|m0 pe| | |c1 m1| | | |u m t xs]; try discriminate.
  - destruct r as [j k'|? ? ?|? ? ?|? ? ?|? ? ?|? ? ? ?|? ? ? ? ?]; try discriminate.
    destruct k'; try discriminate. cbn [is_method]. intro H. left. eapply Hos, H.
  - destruct r as [j k'|? ? ?|? ? ?|? ? ?|? ? ?|? ? ? ?|? ? ? ? ?]; try discriminate.
    destruct k'; try discriminate. cbn [is_method]. intro H. left. eapply Hos, H.
  - intro H. right. left. now apply grpc_mark.
  - destruct u; try discriminate.
    destruct r as [j k'|? ? ?|? ? ?|? ? ?|? ? ?|? ? ? ?|? ? ? ? ?]; try discriminate.
    destruct k'; try discriminate. intros _. right. right. reflexivity.
Qed.

(* a reference r' with the mark of r, of a type without user Is-protocol, fresh *)
Theorem is_ref_same_mark e' r r' :
  get_mark r' = get_mark r -> user_leaf r' = false ->
  disjoint_ref e' r' -> not_os_sentinel r' ->
  (forall c, In c (visit_all e') -> own_match c r = true -> mark_match c r = true) ->
  is_ e' r' = is_ e' r.
Proof.
  intros Hg Hu D Hos Hown. rewrite !is_visit. apply existsb_ext'. intros c Hc.
  assert (M : mark_match c r' = mark_match c r) by (unfold mark_match; now rewrite Hg).
  rewrite M. destruct (mark_match c r) eqn:Mr; [now rewrite !orb_true_r|]. rewrite !orb_false_r.
  assert (O : own_match c r = false).
  { destruct (own_match c r) eqn:O; [|reflexivity]. rewrite (Hown c Hc O) in Mr. discriminate Mr. }
  rewrite O. destruct (own_match c r') eqn:O'; [exfalso|reflexivity].
  unfold own_match in O'. apply orb_true_iff in O' as [O'|O'].
  - apply andb_true_iff in O' as [_ O']. rewrite (go_eq_nid c r' (D c Hc)) in O'.
    apply go_eq_val_mark in O'. congruence.
  - destruct (is_method_ref_cases c r' O') as [H|[H|H]]; [now apply H|congruence|congruence].
Qed.

Lemma all_nodes_root P e : all_nodes P e = true -> P e = true.
Proof.
  unfold all_nodes. destruct e; cbn [visit_all forallb]; intro H; now apply andb_true_iff in H as [H _].
Qed.

Theorem is_ref_hop e' r n :
  text_ok r = true -> mark_ok r = true ->
  disjoint_ref e' (fst (hop all_knowing r n)) -> not_os_sentinel (fst (hop all_knowing r n)) ->
  (forall c, In c (visit_all e') -> own_match c r = true -> mark_match c r = true) ->
  is_ e' (fst (hop all_knowing r n)) = is_ e' r.
Proof.
  intros Ht Hm D Hos Hown. destruct (info_tree_hop r n Ht Hm) as (_ & H2 & _ & _).
  apply is_ref_same_mark; try assumption.
  - now apply get_mark_hop.
  - apply all_nodes_root in H2. now apply negb_true_iff in H2.
Qed.

(* e' matches r only by marks *)
Corollary is_ref_hop_marks e' r n :
  text_ok r = true -> mark_ok r = true ->
  disjoint_ref e' (fst (hop all_knowing r n)) -> not_os_sentinel (fst (hop all_knowing r n)) ->
  (forall c, In c (visit_all e') -> own_match c r = false) ->
  is_ e' (fst (hop all_knowing r n)) = is_ e' r.
Proof.
  intros Ht Hm D Hos Hown. apply is_ref_hop; try assumption.
  intros c Hc O. rewrite (Hown c Hc) in O. discriminate O.
Qed.

Theorem is_ref_transfer e' r k n :
  text_ok r = true -> mark_ok r = true ->
  disjoint_ref e' (fst (transfer (List.repeat all_knowing k) r n)) ->
  not_os_sentinel (fst (transfer (List.repeat all_knowing k) r n)) ->
  (forall c, In c (visit_all e') -> own_match c r = true -> mark_match c r = true) ->
  is_ e' (fst (transfer (List.repeat all_knowing k) r n)) = is_ e' r.
Proof.
  intros Ht Hm D Hos Hown. destruct k as [|k]; [reflexivity|].
  destruct (info_transfer_gen (S k) r n Ht Hm) as (H1 & H2 & _ & _).
  apply is_ref_same_mark; try assumption.
  - rewrite <- !mark_tree_root. now rewrite mark_tree_transfer.
  - specialize (H2 ltac:(discriminate)). apply all_nodes_root in H2. now apply negb_true_iff in H2.
Qed.

(* ================================================================== *)
(* 9. decoded errors are fresh objects: the disjointness hypotheses     *)
(* ================================================================== *)
(* every visible node of a decoded error is the singleton
   context.DeadlineExceeded or has an identity taken from the counter *)
Definition fresh_node (n n' : positive) (c : err) : Prop :=
  c = Leaf 10%positive LDeadline \/ (n <= node_oid c < n')%positive.

Definition fresh_res (n : positive) (r : err * positive) : Prop :=
  (n <= snd r)%positive /\ forall c, In c (visit_all (fst r)) -> fresh_node n (snd r) c.

Definition fresh_list (n : positive) (r : list err * positive) : Prop :=
  (n <= snd r)%positive /\ forall c, In c (flat_map visit_all (fst r)) -> fresh_node n (snd r) c.

Lemma fresh_node_mono n n' m m' c :
  (m <= n)%positive -> (n' <= m')%positive -> fresh_node n n' c -> fresh_node m m' c.
Proof. intros H1 H2 [H|H]; [now left|right; lia]. Qed.

Section Fresh.
Variable p : proc.

Lemma fr_leaf n k : fresh_res n (Leaf n k, Pos.succ n).
Proof. split; cbn [fst snd visit_all]; [lia|]. intros c [<-|[]]. right. cbn [node_oid]. lia. Qed.

Lemma fr_deadline n : fresh_res n (Leaf 10%positive LDeadline, n).
Proof. split; cbn [fst snd visit_all]; [lia|]. intros c [<-|[]]. now left. Qed.

Lemma fr_barrier n n1 m em : (n <= n1)%positive -> fresh_res n (Barrier n1 m em, Pos.succ n1).
Proof. intro H. split; cbn [fst snd visit_all]; [lia|]. intros c [<-|[]]. right. cbn [node_oid]. lia. Qed.

Lemma fr_oleaf n n1 msg d es : fresh_list n (es, n1) -> fresh_res n (OLeaf n1 msg d es, Pos.succ n1).
Proof.
  intros [H1 H2]. cbn [fst snd] in H1, H2. split; cbn [fst snd visit_all]; [lia|].
  intros c [<-|Hc]; [right; cbn [node_oid]; lia|]. apply (fresh_node_mono n n1); [lia|lia|now apply H2].
Qed.

Lemma fr_multi n n1 k es : fresh_list n (es, n1) -> fresh_res n (Multi n1 k es, Pos.succ n1).
Proof.
  intros [H1 H2]. cbn [fst snd] in H1, H2. split; cbn [fst snd visit_all]; [lia|].
  intros c [<-|Hc]; [right; cbn [node_oid]; lia|]. apply (fresh_node_mono n n1); [lia|lia|now apply H2].
Qed.

Lemma fr_wrap n n0 w ec : fresh_res n (ec, n0) -> fresh_res n (Wrap n0 w ec, Pos.succ n0).
Proof.
  intros [H1 H2]. cbn [fst snd] in H1, H2. split; cbn [fst snd visit_all]; [lia|].
  intros c [<-|Hc]; [right; cbn [node_oid]; lia|]. apply (fresh_node_mono n n0); [lia|lia|now apply H2].
Qed.

Lemma fr_owrap n n0 msg d mt ec : fresh_res n (ec, n0) -> fresh_res n (OWrap n0 msg d mt ec, Pos.succ n0).
Proof.
  intros [H1 H2]. cbn [fst snd] in H1, H2. split; cbn [fst snd visit_all]; [lia|].
  intros c [<-|Hc]; [right; cbn [node_oid]; lia|]. apply (fresh_node_mono n n0); [lia|lia|now apply H2].
Qed.

Lemma fr_second n n0 n2 ec es :
  fresh_res n (ec, n0) -> (Pos.succ n0 <= n2)%positive -> fresh_res n (Second n0 ec es, n2).
Proof.
  intros [H1 H2] H3. cbn [fst snd] in H1, H2. split; cbn [fst snd visit_all]; [lia|].
  intros c [<-|Hc]; [right; cbn [node_oid]; lia|]. apply (fresh_node_mono n n0); [lia|lia|now apply H2].
Qed.

Definition FR (x : enc) : Prop := forall n, fresh_res n (decode p x n).

Lemma decode_list_fresh cs : Forall FR cs -> forall n, fresh_list n (decode_list (decode p) cs n).
Proof.
  induction 1 as [|x l Hx Hl IH]; intro n; cbn [decode_list].
  - split; cbn [fst snd flat_map]; [lia|]. intros c [].
  - specialize (Hx n). destruct (decode p x n) as [e n1]. specialize (IH n1).
    destruct (decode_list (decode p) l n1) as [es n2].
    destruct Hx as [X1 X2]. destruct IH as [I1 I2]. cbn [fst snd] in *.
    split; cbn [fst snd flat_map]; [lia|]. intros c Hc. apply in_app_iff in Hc as [Hc|Hc].
    + apply (fresh_node_mono n n1); [lia|lia|now apply X2].
    + apply (fresh_node_mono n1 n2); [lia|lia|now apply I2].
Qed.

Ltac fr_fin :=
  first [ apply fr_leaf | apply fr_deadline | apply fr_oleaf; assumption | apply fr_multi; assumption
        | apply fr_wrap; assumption | apply fr_owrap; assumption ].

Lemma fresh_leaf msg o fam ext rep pl cs :
  Forall FR cs -> pl_P FR pl -> FR (ELeaf msg (mkdet o fam ext rep pl) cs).
Proof.
  intros IHcs IHpl n. pose proof (decode_list_fresh cs IHcs n) as Hes.
  cbn [decode]. destruct (decode_list (decode p) cs n) as [es n1].
  cbv beta iota zeta delta [fresh].
  assert (Hb : forall m sm, pl = Some (PlEnc m) ->
             fresh_res n (let '(em, n2) := decode p m n in (Barrier n2 sm em, Pos.succ n2))).
  { intros m sm ->. cbn [pl_P] in IHpl. specialize (IHpl n). destruct (decode p m n) as [em n2].
    apply fr_barrier. exact (proj1 IHpl). }
  destruct (mem_str fam leaf_decoder_keys && knows p fam).
  - destruct (str_eqb fam k_errorString); [fr_fin|].
    destruct (str_eqb fam k_deadline); [fr_fin|].
    destruct (str_eqb fam k_leafError); [destruct pl as [[]|]; fr_fin|].
    destruct (str_eqb fam k_barrier); [destruct pl as [[]|]; try fr_fin; now apply Hb|].
    destruct (str_eqb fam k_barrierPrev); [destruct pl as [[]|]; try fr_fin; now apply Hb|].
    destruct (str_eqb fam k_unimpl); [fr_fin|].
    destruct (str_eqb fam k_errno || str_eqb fam k_opaqueErrno);
      [destruct pl as [[| | | |pe| | | | | |]|]; try fr_fin; destruct (str_eqb (en_arch pe) this_arch); fr_fin|].
    destruct (str_eqb fam k_grpcStatus);
      [destruct pl as [[| | | | | | | |c m| |]|]; try fr_fin; destruct (c =? 0); fr_fin|].
    destruct (str_eqb fam k_gogoStatus);
      [destruct pl as [[| | | | | | | |c m| |]|]; try fr_fin; destruct (c =? 0); fr_fin|].
    fr_fin.
  - destruct (mem_str fam multi_decoder_keys && knows p fam).
    + destruct es; fr_fin.
    + destruct pl as [[]|]; fr_fin.
Qed.

Lemma fresh_wrap c msg o fam ext rep pl mt :
  FR c -> pl_P FR pl -> FR (EWrap c msg (mkdet o fam ext rep pl) mt).
Proof.
  intros IHc IHpl n. specialize (IHc n). cbn [decode]. destruct (decode p c n) as [ec n0].
  cbv beta iota zeta delta [fresh].
  destruct (mem_str fam wrap_decoder_keys && knows p fam); [|fr_fin].
  destruct (str_eqb fam k_withPrefix); [destruct pl as [[]|]; fr_fin|].
  destruct (str_eqb fam k_withNewMessage); [destruct pl as [[]|]; fr_fin|].
  destruct (str_eqb fam k_withHint); [destruct pl as [[]|]; fr_fin|].
  destruct (str_eqb fam k_withDetail); [destruct pl as [[]|]; fr_fin|].
  destruct (str_eqb fam k_withIssueLink); [fr_fin|].
  destruct (str_eqb fam k_withTelemetry); [fr_fin|].
  destruct (str_eqb fam k_withDomain); [destruct rep; fr_fin|].
  destruct (str_eqb fam k_withContext);
    [destruct pl as [[| |tags| | | | | | | |]|]; try fr_fin; destruct tags, rep; fr_fin|].
  destruct (str_eqb fam k_withAssert); [fr_fin|].
  destruct (str_eqb fam k_withMark);
    [destruct pl as [[| | |m tys| | | | | | |]|]; try fr_fin; destruct tys; fr_fin|].
  destruct (str_eqb fam k_withSafeDetails); [fr_fin|].
  destruct (str_eqb fam k_withSecondary).
  { destruct pl as [[| | | | |s| | | | |]|]; try fr_fin.
    cbn [pl_P] in IHpl. specialize (IHpl (Pos.succ n0)). destruct (decode p s (Pos.succ n0)) as [es n2].
    apply fr_second; [assumption|exact (proj1 IHpl)]. }
  destruct (str_eqb fam k_withHTTP); [destruct pl as [[]|]; fr_fin|].
  destruct (str_eqb fam k_withGrpc); [destruct pl as [[]|]; fr_fin|].
  destruct (str_eqb fam k_pkgMsg); [fr_fin|].
  destruct (str_eqb fam k_pathError);
    [destruct pl as [[|l| | | | | | | | |]|]; try fr_fin; destruct l as [|a [|b l]]; fr_fin|].
  destruct (str_eqb fam k_linkError);
    [destruct pl as [[|l| | | | | | | | |]|]; try fr_fin; destruct l as [|a [|b [|c3 l]]]; fr_fin|].
  destruct (str_eqb fam k_syscallError); fr_fin.
Qed.

Theorem decode_fresh x n : fresh_res n (decode p x n).
Proof. revert n. induction x using enc_ind2; [now apply fresh_leaf|now apply fresh_wrap]. Qed.
End Fresh.

Lemma hop_fresh e n : fresh_res n (hop all_knowing e n).
Proof. apply decode_fresh. Qed.

Lemma transfer_fresh k : forall e n,
  k <> 0%nat -> fresh_res n (transfer (List.repeat all_knowing k) e n).
Proof.
  induction k as [|k IH]; intros e n Hk; [congruence|]. cbn [List.repeat transfer].
  pose proof (hop_fresh e n) as H1. destruct (hop all_knowing e n) as [e1 n1].
  destruct k as [|k]; [exact H1|].
  specialize (IH e1 n1 ltac:(discriminate)). destruct H1 as [H1 _]. cbn [snd] in H1.
  destruct IH as [I1 I2]. split; [lia|].
  intros c Hc. eapply (fresh_node_mono n1); [exact H1|apply Pos.le_refl|now apply I2].
Qed.

(* a reference older than the counter shares no identity with a decoded error *)
Lemma fresh_disjoint n res r :
  fresh_res n res -> (node_oid r < n)%positive -> disjoint_ref (fst res) r.
Proof.
  intros [_ H] Hr c Hc Hv. destruct (H c Hc) as [->|Hf]; [discriminate Hv|]. lia.
Qed.

(* boolean forms of the hypotheses, for concrete errors *)
Definition disjoint_refb (a r : err) : bool :=
  forallb (fun c => value_kind c || negb (Pos.eqb (node_oid c) (node_oid r))) (visit_all a).

Lemma disjoint_refb_ok a r : disjoint_refb a r = true -> disjoint_ref a r.
Proof.
  unfold disjoint_refb. rewrite forallb_forall. intros H c Hc Hv. specialize (H c Hc).
  rewrite Hv in H. cbn [orb] in H. apply negb_true_iff in H. now apply Pos.eqb_neq.
Qed.

Definition no_user_isb (e r : err) : bool :=
  forallb (fun c => negb (user_leaf c && is_method c r)) (visit_all e).

Lemma no_user_isb_ok e r :
  no_user_isb e r = true -> forall c, In c (visit_all e) -> user_leaf c = true -> is_method c r = false.
Proof.
  unfold no_user_isb. rewrite forallb_forall. intros H c Hc U. specialize (H c Hc).
  rewrite U in H. cbn [andb] in H. now apply negb_true_iff.
Qed.

(* (2), with the freshness of the decoded error discharged: r was created before
   the transfer (its identity is below the counter of the receiving process) *)
Theorem is_hop_fresh e r n :
  text_ok e = true -> mark_ok e = true ->
  disjoint_ref e r -> (node_oid r < n)%positive ->
  (forall c, In c (visit_all e) -> user_leaf c = true -> is_method c r = false) ->
  is_ (fst (hop all_knowing e n)) r = is_ e r.
Proof.
  intros Ht Hm D Hr Hu. apply is_hop; try assumption. exact (fresh_disjoint n _ r (hop_fresh e n) Hr).
Qed.

Theorem is_transfer_fresh e r k n :
  text_ok e = true -> mark_ok e = true ->
  disjoint_ref e r -> (node_oid r < n)%positive ->
  (forall c, In c (visit_all e) -> user_leaf c = true -> is_method c r = false) ->
  is_ (fst (transfer (List.repeat all_knowing k) e n)) r = is_ e r.
Proof.
  intros Ht Hm D Hr Hu. destruct k as [|k]; [reflexivity|]. apply is_transfer; try assumption.
  exact (fresh_disjoint n _ r (transfer_fresh (S k) e n ltac:(discriminate)) Hr).
Qed.

(* the identity-compared nodes of e' were created before the transfer *)
Definition older_than (n : positive) (e' : err) : Prop :=
  forall c, In c (visit_all e') -> value_kind c = false ->
            (node_oid c < n)%positive /\ node_oid c <> 10%positive.

Lemma fresh_ref n res e' :
  fresh_res n res -> (5 < n)%positive -> older_than n e' ->
  disjoint_ref e' (fst res) /\ not_os_sentinel (fst res).
Proof.
  intros [_ H] Hn Ho.
  assert (Hr : In (fst res) (visit_all (fst res))) by (destruct (fst res); left; reflexivity).
  destruct (H _ Hr) as [E|Hf].
  - rewrite E. split.
    + intros c Hc Hv. cbn [node_oid]. exact (proj2 (Ho c Hc Hv)).
    + unfold not_os_sentinel, oid_permission, oid_exist, oid_notexist. cbn [node_oid]. repeat split; discriminate.
  - split.
    + intros c Hc Hv. pose proof (proj1 (Ho c Hc Hv)). lia.
    + unfold not_os_sentinel, oid_permission, oid_exist, oid_notexist. repeat split; lia.
Qed.

Theorem is_ref_hop_fresh e' r n :
  text_ok r = true -> mark_ok r = true ->
  (5 < n)%positive -> older_than n e' ->
  (forall c, In c (visit_all e') -> own_match c r = true -> mark_match c r = true) ->
  is_ e' (fst (hop all_knowing r n)) = is_ e' r.
Proof.
  intros Ht Hm Hn Ho Hown. destruct (fresh_ref n _ e' (hop_fresh r n) Hn Ho) as [D Hos].
  now apply is_ref_hop.
Qed.

Theorem is_ref_transfer_fresh e' r k n :
  text_ok r = true -> mark_ok r = true ->
  (5 < n)%positive -> older_than n e' ->
  (forall c, In c (visit_all e') -> own_match c r = true -> mark_match c r = true) ->
  is_ e' (fst (transfer (List.repeat all_knowing k) r n)) = is_ e' r.
Proof.
  intros Ht Hm Hn Ho Hown. destruct k as [|k]; [reflexivity|].
  destruct (fresh_ref n _ e' (transfer_fresh (S k) r n ltac:(discriminate)) Hn Ho) as [D Hos].
  now apply is_ref_transfer.
Qed.

Definition older_thanb (n : positive) (e' : err) : bool :=
  forallb (fun c => value_kind c || (Pos.ltb (node_oid c) n && negb (Pos.eqb (node_oid c) 10))) (visit_all e').

Lemma older_thanb_ok n e' : older_thanb n e' = true -> older_than n e'.
Proof.
  unfold older_thanb. rewrite forallb_forall. intros H c Hc Hv. specialize (H c Hc).
  rewrite Hv in H. cbn [orb] in H. apply andb_true_iff in H as [H1 H2].
  apply Pos.ltb_lt in H1. apply negb_true_iff, Pos.eqb_neq in H2. now split.
Qed.

(* ================================================================== *)
(* 10. the conditions are needed                                        *)
(* ================================================================== *)
(* [mark_ok], clause 1: a forwarded errno carrying the platform of the receiving
   process and the table's text satisfies text_ok, but comes back as syscall.Errno:
   the type mark changes and Is against an equal *errbase.OpaqueErrno is lost *)
Definition cx_errno : err := errno_here (lit "operation not permitted") 1%Z.
Definition cx_errno_ref : err :=
  Leaf 50%positive (LOpaqueErrno (lit "operation not permitted") (mkerrno 1%Z this_arch true false false false false)).

Lemma mark_ok_needed_errno :
  text_ok cx_errno = true /\ mark_ok cx_errno = false /\
  mark_tree (fst (hop all_knowing cx_errno 200%positive)) <> mark_tree cx_errno /\
  disjoint_refb cx_errno cx_errno_ref = true /\ no_user_isb cx_errno cx_errno_ref = true /\
  is_ cx_errno cx_errno_ref = true /\ is_ (fst (hop all_knowing cx_errno 200%positive)) cx_errno_ref = false.
Proof. repeat split; vm_compute; try reflexivity; discriminate. Qed.

(* [mark_ok], clause 2: markers.Mark with a reference mark without types (only
   constructible by hand): the withMark decoder refuses the payload, the layer
   comes back as an opaque wrapper whose mark is computed, not stored *)
Definition cx_mark : err := Wrap 101%positive (WMark (mkem (lit "m") [])) (u_leaf (lit "x")).
Definition cx_mark_ref : err := Wrap 51%positive (WMark (mkem (lit "m") [])) (Leaf 50%positive (LErrString (lit "y"))).

Lemma mark_ok_needed_mark :
  text_ok cx_mark = true /\ mark_ok cx_mark = false /\
  mark_tree (fst (hop all_knowing cx_mark 200%positive)) <> mark_tree cx_mark /\
  disjoint_refb cx_mark cx_mark_ref = true /\ no_user_isb cx_mark cx_mark_ref = true /\
  is_ cx_mark cx_mark_ref = true /\ is_ (fst (hop all_knowing cx_mark 200%positive)) cx_mark_ref = false.
Proof. repeat split; vm_compute; try reflexivity; discriminate. Qed.

(* the stated form of (1), with text_ok alone, is therefore false *)
Lemma mark_tree_hop_needs_mark_ok :
  ~ (forall e n, text_ok e = true -> mark_tree (fst (hop all_knowing e n)) = mark_tree e).
Proof.
  intro H. destruct mark_ok_needed_errno as (Ht & _ & Hne & _). exact (Hne (H _ _ Ht)).
Qed.

(* (2): the Is method of a user type is lost (the leaf comes back as an opaque
   leaf), although every mark is kept *)
Definition cx_istag : err := Leaf 100%positive (LUser ULIsTag (lit "a") 7%Z []).
Definition cx_istag_ref : err := Leaf 50%positive (LUser ULIsTag (lit "b") 7%Z []).

Lemma is_hop_needs_no_user_is :
  text_ok cx_istag = true /\ mark_ok cx_istag = true /\
  disjoint_refb cx_istag cx_istag_ref = true /\ no_user_isb cx_istag cx_istag_ref = false /\
  mark_tree (fst (hop all_knowing cx_istag 200%positive)) = mark_tree cx_istag /\
  is_ cx_istag cx_istag_ref = true /\ is_ (fst (hop all_knowing cx_istag 200%positive)) cx_istag_ref = false.
Proof. repeat split; vm_compute; reflexivity. Qed.

(* the Is methods of the rebuilt kinds survive: syscall.Errno against os.ErrPermission *)
Lemma is_hop_keeps_errno_is :
  let e := Wrap 101%positive (WStack []) (Leaf 100%positive (LErrno 13%Z)) in
  let r := Leaf oid_permission (LErrString (lit "permission denied")) in
  is_ e r = true /\ is_ (fst (hop all_knowing e 200%positive)) r = true.
Proof. split; vm_compute; reflexivity. Qed.

(* ================================================================== *)
(* 11. non-vacuity                                                      *)
(* ================================================================== *)
(* withStack over errors.Join of (fmt.Errorf("ctx: %w") over a user leaf) and a sentinel-like leaf *)
Definition mh_sample : err :=
  Wrap 104%positive (WStack [])
       (Multi 103%positive MStdJoin
              [Wrap 102%positive (WFmtWrap (lit "ctx: boom")) (u_leaf (lit "boom"));
               Leaf 101%positive (LErrString (lit "x"))]).

(* references created before the transfer: one equal by mark to the user leaf, one
   to the fmt.Errorf node, one to the second branch, one matching nothing *)
Definition mh_refs : list err :=
  [ Leaf 50%positive (LUser ULPlain (lit "boom") 0%Z []);
    Wrap 52%positive (WFmtWrap (lit "ctx: boom")) (Leaf 51%positive (LUser ULPlain (lit "boom") 0%Z []));
    Leaf 53%positive (LErrString (lit "x"));
    Leaf 54%positive (LErrString (lit "boom")) ].

Example mh_sample_ok :
  text_ok mh_sample = true /\ mark_ok mh_sample = true /\
  forallb (disjoint_refb mh_sample) mh_refs = true /\
  forallb (no_user_isb mh_sample) mh_refs = true /\
  List.map (is_ mh_sample) mh_refs = [true; true; true; false].
Proof. repeat split; vm_compute; reflexivity. Qed.

Example mh_sample_marks n : mark_tree (fst (hop all_knowing mh_sample n)) = mark_tree mh_sample.
Proof. apply mark_tree_hop; vm_compute; reflexivity. Qed.

Example mh_sample_is k n :
  (100 <= n)%positive ->
  List.map (is_ (fst (transfer (List.repeat all_knowing k) mh_sample n))) mh_refs = [true; true; true; false].
Proof.
  intro Hn. destruct mh_sample_ok as (Ht & Hm & Hd & Hu & Hv). rewrite <- Hv.
  assert (H : forall r, In r mh_refs ->
                is_ (fst (transfer (List.repeat all_knowing k) mh_sample n)) r = is_ mh_sample r).
  { intros r Hr. rewrite forallb_forall in Hd, Hu.
    apply is_transfer_fresh; [exact Ht|exact Hm|apply disjoint_refb_ok, Hd, Hr| |apply no_user_isb_ok, Hu, Hr].
    cbn [mh_refs In] in Hr. destruct Hr as [<-|[<-|[<-|[<-|[]]]]]; cbn [node_oid]; lia. }
  cbn [mh_refs List.map]. rewrite !H by (cbn [mh_refs In]; tauto). reflexivity.
Qed.

(* the transferred reference: Is of the sample against a transferred copy of a reference *)
Example mh_sample_ref k n :
  (200 <= n)%positive ->
  let r := Wrap 52%positive (WFmtWrap (lit "ctx: boom")) (Leaf 51%positive (LUser ULPlain (lit "boom") 0%Z [])) in
  is_ mh_sample (fst (transfer (List.repeat all_knowing k) r n)) = true.
Proof.
  intros Hn r.
  assert (Hv : is_ mh_sample r = true) by (vm_compute; reflexivity). rewrite <- Hv.
  apply is_ref_transfer_fresh.
  - vm_compute; reflexivity.
  - vm_compute; reflexivity.
  - lia.
  - intros c Hc Hk. cbn [mh_sample visit_all flat_map app u_leaf In] in Hc.
    destruct Hc as [<-|[<-|[<-|[<-|[<-|[]]]]]]; cbn [node_oid]; split; try lia; discriminate.
  - intros c Hc Ho. cbn [mh_sample visit_all flat_map app u_leaf In] in Hc.
    destruct Hc as [<-|[<-|[<-|[<-|[<-|[]]]]]]; vm_compute in Ho; try discriminate Ho; vm_compute; reflexivity.
Qed.
