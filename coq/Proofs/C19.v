(* C19: the accumulator-and-seen-set transcriptions of the Go aggregation
   functions equal the declarative specification of Spec/Aggregate.v. *)
From Errv Require Import Base.Str Model.Err Model.Sem Model.Marks Model.Access Spec.Aggregate Proofs.StrFacts.
From Coq Require Import Lia.

Lemma chain_unfold e :
  chain e = e :: match unwrap_once e with Some c => chain c | None => [] end.
Proof. destruct e; reflexivity. Qed.

(* ---- de-duplication ---- *)
Lemma filter_absorb {A} (f g : A -> bool) l :
  (forall y, f y = true -> g y = true) -> filter f (filter g l) = filter f l.
Proof.
  intro H; induction l as [|x l IH]; cbn; [reflexivity|].
  destruct (g x) eqn:G; cbn.
  - now rewrite IH.
  - destruct (f x) eqn:F; [apply H in F; congruence|exact IH].
Qed.

Lemma filter_and {A} (f g : A -> bool) l :
  filter (fun y => g y && f y) l = filter f (filter g l).
Proof.
  induction l as [|x l IH]; cbn; [reflexivity|].
  destruct (g x); cbn; [destruct (f x); now rewrite IH | exact IH].
Qed.

Lemma filter_ext' {A} (f g : A -> bool) l :
  (forall y, f y = g y) -> filter f l = filter g l.
Proof. intro H; induction l as [|x l IH]; cbn; [reflexivity|]. now rewrite H, IH. Qed.

(* [dedup] of Access.v (the Go map "seen" as a list) against dedup_first *)
Lemma dedup_filter l seen :
  dedup l seen = filter (fun y => negb (mem_str y seen)) (dedup_first l).
Proof.
  revert seen; induction l as [|x l IH]; intro seen; cbn; [reflexivity|].
  destruct (mem_str x seen) eqn:M; cbn.
  - rewrite IH. symmetry. apply filter_absorb.
    intros y Hy. destruct (str_eqb x y) eqn:E; [|reflexivity].
    apply str_eqb_eq in E; subst. rewrite M in Hy. discriminate.
  - f_equal. rewrite IH. rewrite <- filter_and. apply filter_ext'.
    intro y. cbn. rewrite (str_eqb_sym y x). now rewrite negb_orb.
Qed.

Lemma dedup_nil l : dedup l [] = dedup_first l.
Proof.
  rewrite dedup_filter. generalize (dedup_first l) as r. induction r as [|x r IH]; cbn; [reflexivity|].
  f_equal. exact IH.
Qed.

Lemma dedup_first_In x l : In x (dedup_first l) <-> In x l.
Proof.
  induction l as [|y l IH]; cbn; [tauto|].
  rewrite filter_In, IH. split.
  - intros [H|[H _]]; auto.
  - intros [H|H]; [auto|]. destruct (str_eq_dec y x) as [E|NE]; [auto|].
    right. split; [exact H|]. apply negb_true_iff. now apply str_eqb_neq.
Qed.

Lemma dedup_first_NoDup l : NoDup (dedup_first l).
Proof.
  induction l as [|y l IH]; cbn; constructor.
  - rewrite filter_In. intros [_ H]. now rewrite str_eqb_refl in H.
  - now apply NoDup_filter.
Qed.

(* ---- hints ---- *)
Definition hint_step (acc : list str * list str) (h : str) : list str * list str :=
  match h with
  | [] => acc
  | _ => if mem_str h (snd acc) then acc else (fst acc ++ [h], h :: snd acc)
  end.

Lemma all_hints_internal_fold e acc :
  all_hints_internal e acc = fold_left hint_step (List.map hint_text (rev (chain e))) acc.
Proof.
  revert acc; induction e; intro acc;
    try (cbn [all_hints_internal chain rev List.map app fold_left];
         unfold hint_step, hint_text; destruct (hint_of _) as [[|]|]; destruct acc; reflexivity).
  - (* Wrap *)
    cbn [all_hints_internal chain rev]. rewrite map_app, fold_left_app, <- IHe.
    cbn [List.map fold_left]. unfold hint_step at 1, hint_text.
    destruct (hint_of (Wrap i w e)) as [[|]|]; destruct (all_hints_internal e acc); reflexivity.
  - (* Second *)
    cbn [all_hints_internal chain rev]. rewrite map_app, fold_left_app, <- IHe1.
    cbn [List.map fold_left]. unfold hint_step at 1, hint_text. cbn [hint_of].
    destruct (all_hints_internal e1 acc); reflexivity.
  - (* OWrap *)
    cbn [all_hints_internal chain rev]. rewrite map_app, fold_left_app, <- IHe.
    cbn [List.map fold_left]. unfold hint_step at 1, hint_text. cbn [hint_of].
    destruct (all_hints_internal e acc); reflexivity.
Qed.

Lemma hint_fold_spec hs hints seen :
  fst (fold_left hint_step hs (hints, seen)) = hints ++ dedup (filter nonempty hs) seen.
Proof.
  revert hints seen; induction hs as [|h hs IH]; intros hints seen; cbn [fold_left filter].
  - cbn. now rewrite app_nil_r.
  - destruct h as [|b h']; cbn [hint_step nonempty].
    + apply IH.
    + cbn [snd fst dedup]. destruct (mem_str (b :: h') seen).
      * apply IH.
      * rewrite IH, <- app_assoc. reflexivity.
Qed.

Lemma get_all_hints_spec e : get_all_hints e = spec_hints e.
Proof.
  unfold get_all_hints, spec_hints, layers_inner_first.
  rewrite all_hints_internal_fold, hint_fold_spec. cbn [app]. apply dedup_nil.
Qed.

(* ---- details ---- *)
Lemma all_details_internal_spec e acc :
  all_details_internal e acc = acc ++ filter nonempty (List.map detail_text (rev (chain e))).
Proof.
  revert acc; induction e; intro acc;
    try (cbn [all_details_internal chain rev List.map app filter];
         unfold detail_text; destruct (detail_of _) as [[|]|]; cbn; now rewrite ?app_nil_r).
  - cbn [all_details_internal chain rev]. rewrite map_app, filter_app, app_assoc, <- IHe.
    cbn [List.map filter]. unfold detail_text.
    destruct (detail_of (Wrap i w e)) as [[|b d]|]; cbn [nonempty]; now rewrite ?app_nil_r.
  - cbn [all_details_internal chain rev]. rewrite map_app, filter_app, app_assoc, <- IHe1.
    cbn. now rewrite app_nil_r.
  - cbn [all_details_internal chain rev]. rewrite map_app, filter_app, app_assoc, <- IHe.
    cbn. now rewrite app_nil_r.
Qed.

Lemma get_all_details_spec e : get_all_details e = spec_details e.
Proof. unfold get_all_details, spec_details, layers_inner_first. now rewrite all_details_internal_spec. Qed.

(* ---- telemetry keys: set union ---- *)
Lemma telemetry_keys_set e k :
  In k (get_telemetry_keys e) <-> In k (telemetry_keys_raw e).
Proof. unfold get_telemetry_keys. rewrite dedup_nil. apply dedup_first_In. Qed.

Lemma telemetry_keys_nodup e : NoDup (get_telemetry_keys e).
Proof. unfold get_telemetry_keys. rewrite dedup_nil. apply dedup_first_NoDup. Qed.

Lemma telemetry_keys_raw_spec e k :
  In k (telemetry_keys_raw e) <->
  exists i ks c, In (Wrap i (WTelemetry ks) c) (chain e) /\ In k ks.
Proof.
  unfold telemetry_keys_raw. rewrite in_flat_map. split.
  - intros [x [Hx Hk]]. destruct x; try contradiction. destruct w; try contradiction. eauto.
  - intros (i & ks & c & Hc & Hk). exists (Wrap i (WTelemetry ks) c). auto.
Qed.
