(* C06 from the input of the public API, WITH %+v error arguments in message
   formats (the gap left by Proofs/ApiWf.v).  See the summary at the end. *)
From Errv Require Import Base.Str Redact.Markers Redact.Buffer Model.Err Model.Sem Model.Details
     Model.Marks Model.Codec Model.Build
     Proofs.StrFacts Proofs.RedactFacts Proofs.RedactWf Proofs.FastIs Proofs.EngineFacts
     Proofs.HiddenNI Proofs.ShortText Proofs.VerboseLayout Proofs.SpecText Proofs.EngineWf Proofs.ApiWf
     Proofs.EraseFacts.
From Coq Require Import Lia.

(* ================================================================== *)
(* 1. the engine, in BOTH modes: buffers and entries stay tidy          *)
(* ================================================================== *)
Definition frame_q (f : frame) : Prop := Qs true (fr_fn f) /\ Qs true (fr_file f).
Definition stack_q (s : stack) : Prop := Forall frame_q s.

Definition EQ (e : fentry) : Prop :=
  Qs (fe_red e) (fe_head e) /\ Qs (fe_red e) (fe_details e) /\
  (forall stk, fe_stack e = Some stk -> stack_q stk) /\ ascii (fe_ty e) = true.

Definition IQ (r : bool) (st : fstate) : Prop :=
  Qs r (fs_buf st) /\ Qs r (fs_headbuf st) /\ Forall EQ (fs_entries st).

Lemma fill_ascii (wdt : bool) n :
  ascii (if wdt then rep_str n detail_sep_m1 ++ detail_sep else [nl]) = true.
Proof. destruct wdt; [|reflexivity]. rewrite ascii_app, ascii_rep_str; reflexivity. Qed.

Lemma wl_IQ r b : forall st chunk, IQ r st -> Qs r (rev chunk ++ b) -> IQ r (write_loop b st chunk).
Proof.
  induction b as [|c t IH]; intros st chunk (Hb & Hh & He) Hc.
  - cbn [write_loop]. rewrite app_nil_r in Hc.
    destruct st as [ro pl es bf hb ls hd wdt ne nn]. fsimpl.
    split; [|split]; fsimpl; try assumption. now apply Qs_app.
  - cbn [write_loop]. destruct (c =? nl) eqn:Ec.
    + apply N.eqb_eq in Ec. subst c. destruct (Qs_cut _ _ _ Hc) as [C1 C2].
      destruct st as [ro pl es bf hb ls hd wdt ne nn]. fsimpl.
      apply IH; [|exact C2].
      destruct wdt; [destruct hd|]; fsimpl; (split; [|split]); fsimpl;
        try assumption; try apply Qs_nil; now apply Qs_app.
    + destruct st as [ro pl es bf hb ls hd wdt ne nn]. fsimpl.
      apply IH.
      * match goal with |- context [if ?x then _ else _] => destruct x end;
          (split; [|split]); fsimpl; try assumption.
        apply Qs_app; [exact Hb|apply Qs_ascii, fill_ascii].
      * cbn [rev]. rewrite <- app_assoc. exact Hc.
Qed.

Lemma st_write_IQ r st w : IQ r st -> Qs r w -> IQ r (st_write st w).
Proof.
  intros H Hw. destruct w as [|c t]; [exact H|]. unfold st_write. now apply wl_IQ.
Qed.

Lemma IQ_weak r st : IQ true st -> IQ r st.
Proof. intros (A & B & C). split; [now apply Qs_weak|split; [now apply Qs_weak|exact C]]. Qed.

Lemma sp_print_IQ st ps : IQ true st -> pieces_ok ps -> Forall tidyp ps -> IQ true (sp_print st ps).
Proof. intros H H1 H2. unfold sp_print. apply st_write_IQ; [exact H|now apply sprint_Qs]. Qed.

Lemma set_last_IQ r st l : IQ r st -> IQ r (set_last st l).
Proof. intros (A & B & C). split; [exact A|split; [exact B|exact C]]. Qed.

Lemma st_detail_IQ r st : IQ r st -> IQ r (fst (st_detail st)).
Proof.
  intros (A & B & C). unfold st_detail.
  destruct st as [ro pl es bf hb ls hd wdt ne nn]. fsimpl.
  destruct wdt; cbn [negb fst]; [|split; [|split]; assumption].
  destruct ne, hd; fsimpl; (split; [|split]); fsimpl; try assumption; apply Qs_nil.
Qed.

Lemma if_detail_IQ r st k : IQ r st -> (forall s, IQ r s -> IQ r (k s)) -> IQ r (if_detail st k).
Proof.
  intros H Hk. unfold if_detail. pose proof (st_detail_IQ r st H) as H1.
  destruct (st_detail st) as [st1 d]. cbn [fst] in H1. destruct d; [now apply Hk|exact H1].
Qed.

(* ---- collectEntry ---- *)
Lemma h1_Q r h b : Qs r h ->
  Qs r (match last_byte h, first_byte b with
        | Some a, Some c => if negb (a =? nl) && negb (c =? nl) then h ++ [nl] else h
        | _, _ => h
        end).
Proof.
  intro H. destruct (last_byte h); [|exact H]. destruct (first_byte b); [|exact H].
  destruct (negb (n =? nl) && negb (n0 =? nl)); [|exact H].
  apply Qs_app; [exact H|apply Qs_ascii; reflexivity].
Qed.

Lemma collect_entry_EQ st ty br w d :
  IQ br st -> ascii ty = true -> EQ (collect_entry st ty br w d).
Proof.
  intros (Hb & Hh & _) Hty. unfold EQ. rewrite collect_entry_ty.
  split; [|split; [|split; [intros stk E; rewrite collect_entry_stack in E; discriminate|exact Hty]]].
  - pose proof (h1_Q br _ (fs_buf st) Hh) as H1.
    unfold collect_entry. destruct (fs_wantDetail st); [destruct (fs_hasDetail st)|];
      destruct br; try destruct (fs_redout st); cbn [fe_red fe_head];
      try assumption; try (apply Qs_false, strip_tidy; first [apply Hh|apply Hb]);
      try (apply Qs_app; assumption).
    apply Qs_false, strip_tidy. apply (Qs_app true); assumption.
  - unfold collect_entry. destruct (fs_wantDetail st); [destruct (fs_hasDetail st)|];
      destruct br; try destruct (fs_redout st); cbn [fe_red fe_details];
      try assumption; try apply Qs_nil; try (apply Qs_false, strip_tidy; first [apply Hb|exact tidy_nil]).
Qed.

Lemma mark_first_EQ n : forall es, Forall EQ es -> Forall EQ (mark_first n es).
Proof.
  induction n as [|n IH]; intros [|e r] H; cbn [mark_first]; try exact H.
  inversion H as [|? ? He Hr]; subst. constructor; [exact He|now apply IH].
Qed.

Lemma elide_shared_q prev new : stack_q new -> stack_q (fst (elide_shared prev new)).
Proof.
  intro H. unfold elide_shared. destruct prev; [exact H|]. destruct new; [exact H|].
  cbv zeta. cbn [fst]. unfold stack_q. now apply Forall_firstn'.
Qed.

(* ---- the skeleton of formatRecursive ---- *)
Definition PreQ (st : fstate) : Prop := fs_buf st = [] /\ Forall EQ (fs_entries st).

Definition NodeQ (ns : nsem) : Prop :=
  forall o wd wdp depth st, PreQ st -> PreQ (fst (ns_fmt ns o wd wdp depth st)).

Definition BodyQ (body : bool -> fstate -> body_res) : Prop :=
  forall o st, IQ true st -> IQ (br_red (body o st)) (br_st (body o st)).

Lemma fold_multi_Q wd depth multi : Forall NodeQ multi ->
  forall acc, PreQ (fst acc) ->
  PreQ (fst (fold_left
      (fun (acc : fstate * nat) (k : nsem) =>
         let '(s', m) := ns_fmt k false wd true (S depth) (fst acc) in (s', (snd acc + m)%nat))
      multi acc)).
Proof.
  induction 1 as [|k l Hk Hl IH]; intros acc Ha; cbn [fold_left]; [exact Ha|].
  apply IH. specialize (Hk false wd true (S depth) (fst acc) Ha).
  destruct (ns_fmt k false wd true (S depth) (fst acc)) as [s' m]. exact Hk.
Qed.

Lemma format_node_Q ty single multi own body :
  match single with Some sc => NodeQ sc | None => True end ->
  Forall NodeQ multi -> ascii ty = true -> (forall stk, own = Some stk -> stack_q stk) ->
  BodyQ body ->
  forall o wd wdp depth st, PreQ st ->
    PreQ (fst (format_node ty single multi own body o wd wdp depth st)).
Proof.
  intros Hs Hm Hty Hown Hb o wd wdp depth st HP. unfold format_node.
  assert (H1 : PreQ (fst (match single with
                          | Some sc => ns_fmt sc false wd wdp (S depth) st
                          | None => (st, 0%nat) end))).
  { destruct single as [sc|]; [now apply Hs|exact HP]. }
  destruct (match single with Some sc => ns_fmt sc false wd wdp (S depth) st | None => (st, 0%nat) end)
    as [st1 n1]. cbn [fst] in H1.
  pose proof (fold_multi_Q wd depth multi Hm (st1, n1) H1) as H2.
  destruct (fold_left _ multi (st1, n1)) as [st2 n2]. cbn [fst] in H2.
  destruct H2 as [Hbuf Hent]. cbv zeta.
  match goal with |- context [body o ?s3] => set (st3 := s3) end.
  assert (H3 : IQ true st3).
  { subst st3. split; [|split]; fsimpl; [rewrite Hbuf; apply Qs_nil|apply Qs_nil|exact Hent]. }
  pose proof (Hb o st3 H3) as HB. clearbody st3.
  destruct (body o st3) as [bst bred bel bseen]. cbn [br_st br_elide br_red br_seen] in *.
  set (st4 := if bel then elide_short bst n2 else bst).
  assert (H4 : IQ bred st4).
  { subst st4. destruct bel; [|exact HB]. destruct HB as (A & B & C). unfold elide_short.
    split; [|split]; fsimpl; try assumption. now apply mark_first_EQ. }
  clearbody st4.
  pose proof (collect_entry_EQ st4 ty bred wdp depth H4 Hty) as He0.
  set (e0 := collect_entry st4 ty bred wdp depth) in *. clearbody e0.
  destruct H4 as (_ & _ & Hent4).
  destruct bseen.
  - cbn [fst]. split; fsimpl; [reflexivity|]. constructor; assumption.
  - destruct own as [stk|].
    + pose proof (elide_shared_q (fs_last st4) stk (Hown stk eq_refl)) as HE.
      destruct (elide_shared (fs_last st4) stk) as [s' el]. cbn [fst] in *.
      split; fsimpl; [reflexivity|]. constructor; [|assumption].
      destruct He0 as (A & B & C & D). unfold EQ. cbn [fe_red fe_head fe_details fe_stack fe_ty].
      split; [exact A|]. split; [exact B|]. split; [|exact D].
      intros stk' E. injection E as <-. exact HE.
    + cbn [fst]. split; fsimpl; [reflexivity|]. constructor; assumption.
Qed.

(* ---- formatEntries ---- *)
Lemma out_bytes_Q' red e b : Qs (fe_red e) b -> Qs red (out_bytes red e b).
Proof.
  intro H. unfold out_bytes. destruct red; cbn [negb orb].
  - destruct (fe_red e); [exact H|]. apply escape_bytes_Qs, H.
  - apply Qs_false, H.
Qed.

Lemma replace_nl_Q r s : forall acc, Qs r (acc ++ s) -> Qs r (acc ++ replace_nl s detail_sep).
Proof.
  induction s as [|c t IH]; intros acc H; [exact H|]. cbn [replace_nl].
  destruct (c =? nl) eqn:Ec.
  - apply N.eqb_eq in Ec. subst c. destruct (Qs_cut _ _ _ H) as [C1 C2].
    apply Qs_app; [exact C1|]. apply Qs_app; [apply Qs_ascii; reflexivity|]. exact (IH [] C2).
  - change (acc ++ c :: replace_nl t detail_sep) with (acc ++ [c] ++ replace_nl t detail_sep).
    rewrite app_assoc. apply IH. rewrite <- app_assoc. exact H.
Qed.

Lemma print_frame_Q f : frame_q f -> Qs true (print_frame f).
Proof.
  intros [A B]. unfold print_frame. apply Qs_app; [exact A|]. apply Qs_app; [apply Qs_ascii; reflexivity|].
  apply Qs_app; [exact B|]. apply Qs_app; [apply Qs_ascii; reflexivity|apply Qs_ascii, dec_of_N_ascii].
Qed.

Lemma print_stack_Q stk : stack_q stk -> Qs true (print_stack stk).
Proof.
  induction 1 as [|f r Hf Hr IH]; [apply Qs_nil|].
  unfold print_stack. cbn [flat_map]. fold (print_stack r).
  change (nl :: print_frame f ++ print_stack r) with ([nl] ++ print_frame f ++ print_stack r).
  apply (Qs_app true [nl]); [apply Qs_ascii; reflexivity|]. apply Qs_app; [now apply print_frame_Q|exact IH].
Qed.

Lemma print_entry_Q red e : EQ e -> Qs red (print_entry red e).
Proof.
  intros (A & B & C & D). unfold print_entry. cbv zeta.
  apply Qs_app; [|apply Qs_app].
  - destruct (fe_head e) as [|c h] eqn:Eh; [apply Qs_nil|]. rewrite <- Eh.
    apply Qs_app; [destruct (c =? nl); apply Qs_ascii; reflexivity|apply out_bytes_Q'; rewrite Eh; exact A].
  - destruct (fe_details e) as [|c h] eqn:Ed; [apply Qs_nil|]. rewrite <- Ed.
    apply Qs_app; [|apply out_bytes_Q'; rewrite Ed; exact B].
    destruct (fe_head e); [destruct (c =? nl)|]; apply Qs_ascii; reflexivity.
  - destruct (fe_stack e) as [stk|]; [|apply Qs_nil]. specialize (C stk eq_refl).
    apply Qs_weak.
    change (nl :: lit "  -- stack trace:" ++ replace_nl (print_stack stk) detail_sep ++
            (if fe_elided e then detail_sep ++ lit "[...repeated from below...]" else []))
      with ((nl :: lit "  -- stack trace:") ++ replace_nl (print_stack stk) detail_sep ++
            (if fe_elided e then detail_sep ++ lit "[...repeated from below...]" else [])).
    apply (Qs_app true (nl :: lit "  -- stack trace:")); [apply Qs_ascii; reflexivity|]. apply Qs_app.
    + apply (replace_nl_Q true _ []). now apply print_stack_Q.
    + destruct (fe_elided e); apply Qs_ascii; reflexivity.
Qed.

Lemma indent_for_Q d : Qs true (indent_for d).
Proof.
  destruct d as [|[|k]]; try apply Qs_nil. cbn [indent_for].
  apply Qs_app; [apply Qs_ascii, ascii_rep_str; reflexivity|].
  split; [reflexivity|intros _; reflexivity].
Qed.

Lemma wraps_lines_Q red es : forall j, Forall EQ es -> Qs red (wraps_lines red es j).
Proof.
  induction es as [|e r IH]; intros j H; cbn [wraps_lines]; [apply Qs_nil|].
  inversion H as [|? ? He Hr]; subst.
  change (nl :: indent_for (fe_depth e) ++ lit "Wraps: (" ++ dec_of_N j ++ lit ")" ++ print_entry red e ++
          wraps_lines red r (j + 1))
    with ([nl] ++ indent_for (fe_depth e) ++ lit "Wraps: (" ++ dec_of_N j ++ lit ")" ++ print_entry red e ++
          wraps_lines red r (j + 1)).
  apply (Qs_app red [nl]); [apply Qs_ascii; reflexivity|]. apply Qs_app; [apply Qs_weak, indent_for_Q|].
  apply Qs_app; [apply Qs_ascii; reflexivity|]. apply Qs_app; [apply Qs_ascii, dec_of_N_ascii|].
  apply Qs_app; [apply Qs_ascii; reflexivity|]. apply Qs_app; [now apply print_entry_Q|now apply IH].
Qed.

Lemma types_line_Q red es : forall j, Forall EQ es -> Qs red (types_line es j).
Proof.
  induction es as [|e r IH]; intros j H; cbn [types_line]; [apply Qs_nil|].
  inversion H as [|? ? (_ & _ & _ & D) Hr]; subst.
  apply Qs_app; [apply Qs_ascii; reflexivity|]. apply Qs_app; [apply Qs_ascii, dec_of_N_ascii|].
  apply Qs_app; [apply Qs_ascii; reflexivity|]. apply Qs_app; [now apply Qs_ascii|now apply IH].
Qed.

Lemma EQ_ET e : EQ e -> ET e.
Proof. intros (A & _). exact A. Qed.

Lemma format_entries_Q red es : Forall EQ es -> Qs red (format_entries red es).
Proof.
  intro H. unfold format_entries. destruct es as [|e r]; [apply Qs_nil|].
  assert (HT : Forall ET (e :: r)) by (revert H; apply Forall_impl; exact EQ_ET).
  inversion H as [|? ? He Hr]; subst.
  apply Qs_app; [apply single_line_Q; [exact HT|apply Qs_nil]|].
  change (nl :: lit "(1)" ++ print_entry red e ++ wraps_lines red r 2 ++ nl :: lit "Error types:" ++ types_line (e :: r) 1)
    with ((nl :: lit "(1)") ++ print_entry red e ++ wraps_lines red r 2 ++ (nl :: lit "Error types:") ++ types_line (e :: r) 1).
  apply (Qs_app red (nl :: lit "(1)")); [apply Qs_ascii; reflexivity|]. apply Qs_app; [now apply print_entry_Q|].
  apply Qs_app; [now apply wraps_lines_Q|].
  apply (Qs_app red (nl :: lit "Error types:")); [apply Qs_ascii; reflexivity|now apply types_line_Q].
Qed.

Lemma final_verbose_Q ns red : NodeQ ns -> Qs red (final_verbose ns red).
Proof.
  intro H. unfold final_verbose.
  assert (HP : PreQ (st_init red true)) by (split; [reflexivity|constructor]).
  specialize (H true true false 0%nat _ HP).
  destruct (ns_fmt ns true true false 0%nat (st_init red true)) as [st n]. cbn [fst] in H.
  apply format_entries_Q. exact (proj2 H).
Qed.

Lemma final_short_Q' ns red plus : NodeQ ns -> Qs red (final_short ns red plus).
Proof.
  intro H. unfold final_short.
  assert (HP : PreQ (st_init red plus)) by (split; [reflexivity|constructor]).
  specialize (H true false false 0%nat _ HP).
  destruct (ns_fmt ns true false false 0%nat (st_init red plus)) as [st n]. cbn [fst] in H.
  apply single_line_Q; [|apply Qs_nil]. destruct H as [_ H]. revert H. apply Forall_impl. exact EQ_ET.
Qed.

(* ================================================================== *)
(* 2. every node kind, in both modes                                   *)
(* ================================================================== *)
(* the strings a node prints behind p.Detail() *)
Definition tagq (kv : str * tagval) : Prop :=
  tidy (fst kv) /\ match snd kv with TVStr s | TVSafe s => tidy s | _ => True end.

Definition markq (m : emark) : Prop :=
  tidy (go_quote (em_msg m)) /\
  match em_types m with t :: _ => tidy (tm_family t) /\ tidy (tm_ext t) | [] => True end.

Definition dtw (w : wlayer) : Prop :=
  match w with
  | WHint h => tidy h
  | WDetail d => tidy d
  | WIssueLink url det => tidy url /\ tidy det
  | WTelemetry keys => Forall tidy keys
  | WDomain d => tidy d
  | WContext tags r => Forall tagq tags /\ match r with Some l => Forall tidy l | None => True end
  | WMark m => markq m
  | WSafeDetails ds => Forall tidy ds
  | WUser _ _ xs => Forall tidy xs
  | _ => True
  end.

Definition dtl (k : leafk) : Prop :=
  match k with
  | LUnimpl _ url det => tidy url /\ tidy det
  | LUser _ _ _ xs => Forall tidy xs
  | _ => True
  end.

Ltac spq H := apply sp_print_IQ; [exact H|pok|pok].

Lemma format_simple_Q st text ct :
  IQ true st -> tidy text -> IQ false (fst (format_simple st text ct)).
Proof.
  intros H0 Ht. apply IQ_weak with (r := false) in H0. unfold format_simple. destruct ct as [cm|].
  - destruct (extract_prefix text cm) as [pref mt] eqn:E. cbn [fst].
    apply st_write_IQ; [exact H0|]. apply Qs_false. exact (extract_prefix_tidy _ _ _ _ Ht E).
  - cbn [fst]. apply st_write_IQ; [exact H0|now apply Qs_false].
Qed.

Lemma default_body_Q e text sent il hm ct st :
  IQ true st -> tidy text -> hd1 e ->
  IQ (br_red (default_body e text sent il hm ct st)) (br_st (default_body e text sent il hm ct st)).
Proof.
  intros HI Ht He. unfold default_body.
  destruct (il && sent); [cbn [br_red br_st]; spq HI|].
  pose proof (format_simple_Q st text ct HI Ht) as HF.
  destruct (format_simple st text ct) as [st1 el]. cbn [fst] in HF.
  destruct e as [i k|i w c| | | | |]; try exact HF; cbn [hd1] in He.
  - destruct k as [| | | | | | | | | | |u m tg xs]; try exact HF.
    + cbn [br_red br_st]. spq HI.
    + destruct u; try exact HF. cbn [hdl] in He. cbn [br_red br_st]. spq HI.
  - destruct w; try exact HF; cbn [hdw] in He.
    + (* WPathError *) destruct He as [A B]. cbn [br_red br_st]. spq HI.
    + (* WLinkError *) destruct He as (A & B & C). cbn [br_red br_st]. spq HI.
    + (* WSyscallError *) cbn [br_red br_st]. spq HI.
    + (* WOpError *) destruct He as (A & B & C & D). cbv zeta. cbn [br_red br_st].
      assert (H1 : IQ true (sp_print st [PSafe op])) by spq HI.
      assert (H2 : IQ true (match net with [] => sp_print st [PSafe op]
                               | _ => sp_print (sp_print st [PSafe op]) [PLit [sp]; PSafe net] end)).
      { destruct net; [exact H1|]. spq H1. }
      set (s2 := match net with [] => _ | _ => _ end) in *. clearbody s2.
      assert (H3 : IQ true (match src with [] => s2 | _ => sp_print s2 [PLit [sp]; PUnsafe src] end)).
      { destruct src; [exact H2|]. spq H2. }
      set (s3 := match src with [] => s2 | _ => _ end) in *.
      destruct addr; [exact H3|].
      apply sp_print_IQ; [|pok|pok].
      destruct src; [exact H3|]. spq H3.
Qed.

Lemma tag_redactable_Q kv : tagq kv -> Qs true (tag_redactable kv).
Proof.
  destruct kv as [k v]. intros [Hk Hv]. cbn [fst snd] in *.
  unfold tag_redactable, tag_piece_list. apply sprint_Qs.
  - destruct v; repeat constructor.
  - constructor; [exact Hk|]. constructor.
    + cbn [tidyp]. destruct v; try reflexivity; destruct (Nat.ltb 1 (List.length k)); reflexivity.
    + constructor; [|constructor]. destruct v; cbn [tidyp]; try exact Hv; try reflexivity.
      apply dec_of_Z_tidy.
Qed.

Lemma print_tags_IQ tags : forall st first,
  Forall tagq tags -> IQ true st -> IQ true (print_tags st tags first).
Proof.
  induction tags as [|kv r IH]; intros st first Ht H; cbn [print_tags]; [exact H|].
  inversion Ht as [|? ? Hkv Hr]; subst. apply IH; [exact Hr|].
  destruct (tag_redactable_Q kv Hkv) as [T R].
  apply sp_print_IQ; [|constructor; [now apply R|constructor]|pok].
  destruct first; [exact H|]. spq H.
Qed.

Lemma print_safe_details_IQ ds : forall st comma,
  Forall tidy ds -> tidy comma -> IQ true st -> IQ true (print_safe_details st ds comma).
Proof.
  induction ds as [|d r IH]; intros st comma Hd Hc H; cbn [print_safe_details]; [exact H|].
  inversion Hd as [|? ? Hd1 Hr]; subst. apply IH; [exact Hr|reflexivity|]. spq H.
Qed.

Lemma dec_of_N_tidy n : tidy (dec_of_N n).
Proof. apply tidy_ascii, dec_of_N_ascii. Qed.

Lemma grpc_code_name_tidy c : tidy (grpc_code_name c).
Proof. apply tidy_ascii. exact (proj1 (proj2 (VerboseLayout.grpc_code_name_ok c))). Qed.

Lemma wrap_body_Q w st : hdw w -> dtw w -> IQ true st ->
  match wrap_body w st with
  | Some (st1, nn, red) => IQ red st1
  | None => True
  end.
Proof.
  intros Hw Hd HI.
  destruct w; cbn [wrap_body hdw dtw] in *; try exact I.
  - (* WStack *) apply if_detail_IQ; [exact HI|]. intros s Hs. spq Hs.
  - (* WPrefix *) destruct Hw as [T R]. apply sp_print_IQ; [exact HI|constructor; [now apply R|constructor]|pok].
  - (* WNewMsg *) destruct Hw as [T R]. apply sp_print_IQ; [exact HI|constructor; [now apply R|constructor]|pok].
  - (* WHint *) apply if_detail_IQ; [now apply IQ_weak|]. intros s Hs.
    unfold pl_print. apply st_write_IQ; [exact Hs|now apply Qs_false].
  - (* WDetail *) apply if_detail_IQ; [now apply IQ_weak|]. intros s Hs.
    unfold pl_print. apply st_write_IQ; [exact Hs|now apply Qs_false].
  - (* WIssueLink *) destruct Hd as [A B]. apply if_detail_IQ; [exact HI|]. intros s Hs.
    assert (H1 : IQ true (match url with [] => s | _ => sp_print s [PLit (lit "issue: "); PSafe url] end)).
    { destruct url; [exact Hs|]. spq Hs. }
    destruct det; [exact H1|]. apply sp_print_IQ; [exact H1|pok|].
    constructor; [destruct url; reflexivity|pok].
  - (* WTelemetry *) apply if_detail_IQ; [exact HI|]. intros s Hs.
    assert (T : tidy (join [sp] keys)) by (apply tidy_join; [reflexivity|exact Hd]). spq Hs.
  - (* WDomain *) apply if_detail_IQ; [exact HI|]. intros s Hs. spq Hs.
  - (* WContext *)
    pose proof (st_detail_IQ true st HI) as H1.
    destruct (st_detail st) as [st1 d]. cbn [fst] in H1.
    match goal with |- context [if ?x then _ else _] => destruct x end; [|exact H1].
    apply sp_print_IQ; [|pok|pok]. apply print_tags_IQ; [exact (proj1 Hd)|]. spq H1.
  - (* WAssert *) apply if_detail_IQ; [exact HI|]. intros s Hs. spq Hs.
  - (* WMark *) destruct Hd as [A B]. apply if_detail_IQ; [exact HI|]. intros s Hs. cbv zeta.
    assert (H1 : IQ true (sp_print s [PLit (lit "forced error mark" ++ [nl])])) by spq Hs.
    destruct (em_types m) as [|t ts].
    + apply sp_print_IQ; [exact H1|pok|pok].
    + destruct B as [B1 B2]. apply sp_print_IQ; [exact H1|pok|pok].
  - (* WSafeDetails *) apply if_detail_IQ; [exact HI|]. intros s Hs. cbv zeta.
    match goal with |- context [if ?x then _ else _] => destruct x end.
    + apply print_safe_details_IQ; [exact Hd|reflexivity|exact Hs].
    + apply print_safe_details_IQ; [exact Hd|reflexivity|].
      pose proof (dec_of_N_tidy (N.of_nat (List.length ds))) as T. spq Hs.
  - (* WHTTP *) apply if_detail_IQ; [exact HI|]. intros s Hs.
    pose proof (dec_of_Z_tidy code) as T. spq Hs.
  - (* WGrpc *) apply if_detail_IQ; [exact HI|]. intros s Hs.
    pose proof (grpc_code_name_tidy code) as T. spq Hs.
Qed.

(* ---- nested error arguments ---- *)
Definition NVQ (ns : nsem) : Prop :=
  match ns_safemsg ns with Some m => tidy m | None => NodeQ ns end.

Lemma nested_v_pieces_Q ns : NVQ ns -> pieces_ok [nested_v ns] /\ Forall tidyp [nested_v ns].
Proof.
  unfold NVQ, nested_v. destruct (ns_safemsg ns) as [m|]; intro H.
  - split; repeat constructor. exact H.
  - destruct (final_short_Q' ns true false H) as [A B]. split; repeat constructor; [now apply B|exact A].
Qed.

Lemma nested_plus_v_pieces_Q ns : NVQ ns -> pieces_ok [nested_plus_v ns] /\ Forall tidyp [nested_plus_v ns].
Proof.
  unfold NVQ, nested_plus_v. destruct (ns_safemsg ns) as [m|]; intro H.
  - split; repeat constructor. exact H.
  - destruct (final_verbose_Q ns true H) as [A B]. split; repeat constructor; [now apply B|exact A].
Qed.

Lemma fundamental_frames_IQ stk : stack_q stk -> forall s, IQ false s ->
  IQ false (fold_left (fun s f => st_write s (nl :: print_frame f)) stk s).
Proof.
  induction 1 as [|f r Hf Hr IH]; intros s Hs; cbn [fold_left]; [exact Hs|].
  apply IH. apply st_write_IQ; [exact Hs|]. apply Qs_weak.
  apply (Qs_app true [nl]); [apply Qs_ascii; reflexivity|now apply print_frame_Q].
Qed.

Lemma leaf_Q i k :
  hdl k -> dtl k -> (forall stk, leaf_stack k = Some stk -> stack_q stk) -> NodeQ (sem (Leaf i k)).
Proof.
  intros Hk Hd Hs. pose proof (leaf_text_tidy k Hk) as Ht. unfold NodeQ. cbn [sem ns_fmt].
  apply format_node_Q; [exact I|constructor|apply go_type_ascii|exact Hs|]. intros o st HI.
  destruct k; try (apply default_body_Q; [exact HI|exact Ht|exact Hk]).
  - (* LPkgFund *)
    destruct (negb o).
    + cbn [br_red br_st]. apply set_last_IQ. unfold fundamental_format.
      assert (H1 : IQ false (st_write st msg)).
      { apply st_write_IQ; [now apply IQ_weak|apply Qs_false, Hk]. }
      destruct (fs_plus st); [|exact H1]. apply fundamental_frames_IQ; [|exact H1].
      apply Hs. reflexivity.
    + pose proof (format_simple_Q st (leaf_text (LPkgFund msg st0)) None HI Ht) as HF.
      destruct (format_simple st (leaf_text (LPkgFund msg st0)) None) as [st1 el]. exact HF.
  - (* LLeafError *)
    unfold body_safe. cbn [br_red br_st]. destruct Hk as [T R].
    apply sp_print_IQ; [exact HI|constructor; [now apply R|constructor]|pok].
  - (* LUnimpl *)
    unfold body_safe. cbn [br_red br_st]. cbn [hdl] in Hk. destruct Hd as [A B].
    apply if_detail_IQ; [spq HI|]. intros s Hs'.
    assert (H1 : IQ true (sp_print s [PLit (lit "unimplemented")])) by spq Hs'.
    assert (H2 : IQ true (match url with [] => sp_print s [PLit (lit "unimplemented")]
                          | _ => sp_print (sp_print s [PLit (lit "unimplemented")])
                                          [PLit (nl :: lit "issue: "); PSafe url] end)).
    { destruct url; [exact H1|]. spq H1. }
    destruct det; [exact H2|]. spq H2.
Qed.

Lemma wrap_Q i w c :
  hdw w -> dtw w -> (forall stk, wrap_stack w = Some stk -> stack_q stk) ->
  tidy (ns_text (sem (Wrap i w c))) -> NodeQ (sem c) -> NodeQ (sem (Wrap i w c)).
Proof.
  intros Hw Hd Hs Ht Hc. unfold NodeQ. cbn [sem ns_fmt].
  apply format_node_Q; [exact Hc|constructor|apply go_type_ascii|exact Hs|]. intros o st HI.
  pose proof (wrap_body_Q w st Hw Hd HI) as HW.
  destruct (wrap_body w st) as [[[st1 nn] red]|]; [exact HW|].
  destruct w; try (apply default_body_Q; [exact HI|exact Ht|exact Hw]).
  - pose proof (format_simple_Q st _ (Some (ns_text (sem c))) HI Ht) as HF.
    cbn [sem ns_text] in HF.
    match goal with |- context [format_simple ?a ?b ?c] => destruct (format_simple a b c) as [st1 el] end.
    exact HF.
  - pose proof (format_simple_Q st _ (Some (ns_text (sem c))) HI Ht) as HF.
    cbn [sem ns_text] in HF.
    match goal with |- context [format_simple ?a ?b ?c] => destruct (format_simple a b c) as [st1 el] end.
    exact HF.
Qed.

Lemma second_Q i c s : NodeQ (sem c) -> NVQ (sem s) -> NodeQ (sem (Second i c s)).
Proof.
  intros Hc Hs. unfold NodeQ. cbn [sem ns_fmt].
  apply format_node_Q; [exact Hc|constructor|reflexivity|discriminate|]. intros o st HI.
  unfold body_safe. cbn [br_red br_st].
  apply if_detail_IQ; [exact HI|]. intros s' Hs'.
  destruct (nested_plus_v_pieces_Q _ Hs) as [P1 P2].
  apply sp_print_IQ; [exact Hs'|constructor; [exact I|exact P1]|constructor; [reflexivity|exact P2]].
Qed.

Lemma barrier_Q i smsg m : Qs true smsg -> NVQ (sem m) -> NodeQ (sem (Barrier i smsg m)).
Proof.
  intros [T R] Hm. unfold NodeQ. cbn [sem ns_fmt].
  apply format_node_Q; [exact I|constructor|reflexivity|discriminate|]. intros o st HI.
  unfold body_safe. cbn [br_red br_st].
  apply if_detail_IQ.
  - apply sp_print_IQ; [exact HI|constructor; [now apply R|constructor]|pok].
  - intros s' Hs'. destruct (nested_plus_v_pieces_Q _ Hm) as [P1 P2].
    apply sp_print_IQ; [exact Hs'|constructor; [exact I|exact P1]|constructor; [reflexivity|exact P2]].
Qed.

Lemma multi_Q i k cs :
  Forall (fun c => NodeQ (sem c)) cs ->
  match k with
  | MJoin => Forall (fun c => NVQ (sem c)) cs
  | _ => tidy (ns_text (sem (Multi i k cs)))
  end ->
  NodeQ (sem (Multi i k cs)).
Proof.
  intros Hcs Hk. apply Forall_map'' in Hcs. unfold NodeQ. destruct k; cbn [sem ns_fmt].
  - apply format_node_Q; [exact I|exact Hcs|reflexivity|discriminate|]. intros o st HI.
    unfold body_safe. cbn [br_red br_st].
    apply (Forall_map'' NVQ sem) in Hk. revert Hk. generalize (List.map sem cs). intros scs Hk.
    assert (G : forall (acc : bool * fstate), IQ true (snd acc) ->
       IQ true (snd (fold_left
          (fun (acc : bool * fstate) (sc : nsem) =>
             let s0 := if fst acc then snd acc else sp_print (snd acc) [PUnsafe [nl]] in
             (false, sp_print s0 [nested_v sc])) scs acc))).
    { induction Hk as [|sc l Hsc Hl IH]; intros acc Ha; cbn [fold_left]; [exact Ha|].
      apply IH. cbv zeta. cbn [snd]. destruct (nested_v_pieces_Q sc Hsc) as [P1 P2].
      apply sp_print_IQ; [|exact P1|exact P2].
      destruct (fst acc); [exact Ha|]. spq Ha. }
    exact (G (true, st) HI).
  - apply format_node_Q; [exact I|exact Hcs|reflexivity|discriminate|]. intros o st HI.
    apply default_body_Q; [exact HI|exact Hk|exact I].
  - apply format_node_Q; [exact I|exact Hcs|reflexivity|discriminate|]. intros o st HI.
    apply default_body_Q; [exact HI|exact Hk|exact I].
Qed.

(* ================================================================== *)
(* 3. error values whose detail strings are tidy too                   *)
(* ================================================================== *)
(* wire messages whose detail strings are tidy: type names, reportable payloads,
   and the payload strings that a decoder turns into detail strings *)
Fixpoint edt (x : enc) : Prop :=
  match x with
  | ELeaf msg d cs =>
    ddt d /\ (fix al (l : list enc) : Prop := match l with [] => True | y :: r => edt y /\ al r end) cs
  | EWrap c msg d mt => edt c /\ ddt d
  end
with ddt (d : details) : Prop :=
  match d with
  | mkdet o fam ext rep pl =>
    tidy o /\ tidy fam /\ tidy ext /\ Forall tidy rep /\
    match pl with Some p => pdt p | None => True end
  end
with pdt (p : payload) : Prop :=
  match p with
  | PlString m => tidy m
  | PlTags l => Forall (fun kv => tidy (fst kv) /\ tidy (snd kv)) l
  | PlMark _ tys => match tys with t :: _ => tidy (tm_family t) /\ tidy (tm_ext t) | [] => True end
  | PlEnc e => edt e
  | PlOther u _ => tidy u
  | _ => True
  end.

(* every string printed behind p.Detail() is tidy (opaque nodes: their wire details) *)
Fixpoint dt_ok (e : err) : Prop :=
  match e with
  | Leaf _ k => dtl k
  | Wrap _ w c => dtw w /\ dt_ok c
  | Second _ c s => dt_ok c /\ dt_ok s
  | Barrier _ _ m => dt_ok m
  | Multi _ _ cs => allP dt_ok cs
  | OLeaf _ _ d cs => ddt d /\ allP dt_ok cs
  | OWrap _ _ d _ c => ddt d /\ dt_ok c
  end.

Lemma payload_url_tidy p : tidy (payload_url p).
Proof. destruct p; try reflexivity. Qed.

Lemma ddt_parts d : ddt d ->
  tidy (dt_orig d) /\ tidy (dt_fam d) /\ tidy (dt_ext d) /\ Forall tidy (dt_rep d) /\
  match dt_full d with Some p => tidy (any_url p) | None => True end.
Proof.
  destruct d as [o fam ext rep pl]. cbn [ddt dt_orig dt_fam dt_ext dt_rep dt_full].
  intros (A & B & C & D & E). repeat split; try assumption.
  destruct pl as [p|]; [|exact I]. destruct p; cbn [any_url pdt] in *; try apply payload_url_tidy. exact E.
Qed.

Lemma opaque_details_IQ kind d st :
  tidy (lit kind) -> ddt d -> IQ true st -> IQ true (opaque_details kind d st).
Proof.
  intros Hk Hd H. destruct (ddt_parts d Hd) as (A & _ & _ & D & E). unfold opaque_details. cbv zeta.
  assert (Tk : tidy (nl :: lit kind)) by (apply (tidy_app [nl]); [reflexivity|exact Hk]).
  assert (H2 : IQ true (sp_print (sp_print st [PLit (nl :: lit kind)])
                               [PLit (nl :: lit "type name: "); PSafe (dt_orig d)])).
  { apply sp_print_IQ; [apply sp_print_IQ; [exact H|pok|pok]|pok|pok]. }
  set (st2 := sp_print (sp_print st [PLit (nl :: lit kind)]) _) in *. clearbody st2.
  assert (H3 : forall l (acc : N * fstate), Forall tidy l -> IQ true (snd acc) ->
     IQ true (snd (fold_left
      (fun (acc : N * fstate) (r : str) =>
         (fst acc + 1,
          sp_print (snd acc) [PLit (nl :: lit "reportable "); PSafe (dec_of_N (fst acc));
                              PLit ([colon; nl]); PSafe r])) l acc))).
  { induction l as [|x l IHl]; intros acc Hl Ha; cbn [fold_left]; [exact Ha|].
    inversion Hl as [|? ? Hx Hl']; subst. apply IHl; [exact Hl'|]. cbn [snd].
    pose proof (dec_of_N_tidy (fst acc)) as T. apply sp_print_IQ; [exact Ha|pok|pok]. }
  specialize (H3 (dt_rep d) (0, st2) D H2).
  destruct (dt_full d); [apply sp_print_IQ; [exact H3|pok|pok]|exact H3].
Qed.

Lemma oleaf_Q i msg d cs :
  tidy msg -> ddt d -> Forall (fun c => NodeQ (sem c)) cs -> NodeQ (sem (OLeaf i msg d cs)).
Proof.
  intros Hm Hd Hcs. apply Forall_map'' in Hcs. unfold NodeQ. cbn [sem ns_fmt].
  apply format_node_Q; [exact I|exact Hcs|apply go_type_ascii|discriminate|]. intros o st HI.
  unfold body_safe. cbn [br_red br_st].
  apply if_detail_IQ; [spq HI|]. intros s Hs. apply opaque_details_IQ; [reflexivity|exact Hd|exact Hs].
Qed.

Lemma owrap_Q i pfx d mt c :
  tidy pfx -> ddt d -> NodeQ (sem c) -> NodeQ (sem (OWrap i pfx d mt c)).
Proof.
  intros Hp Hd Hc. unfold NodeQ. cbn [sem ns_fmt].
  apply format_node_Q; [exact Hc|constructor|reflexivity|discriminate|]. intros o st HI.
  unfold body_safe. cbn [br_red br_st].
  apply if_detail_IQ.
  - destruct pfx as [|x pfx]; [exact HI|]. spq HI.
  - intros s Hs. apply opaque_details_IQ; [reflexivity|exact Hd|exact Hs].
Qed.

Lemma NVQ_of e : hd_ok e -> NodeQ (sem e) -> NVQ (sem e).
Proof.
  intros H N. unfold NVQ. destruct e as [i k|i w c|i c s|i m x|i k cs|i m d cs|i p d mt c];
    try exact N.
  - cbn [sem ns_safemsg]. destruct k; try exact N. destruct u; try exact N. exact H.
  - destruct k; exact N.
Qed.

Theorem q_node e : hd_ok e -> dt_ok e -> stkP stack_q e -> NodeQ (sem e).
Proof.
  induction e using err_ind'; intros Hh Hd Hs.
  - cbn [hd_ok dt_ok stkP] in *. apply leaf_Q; [exact Hh|exact Hd|].
    intros stk E. destruct k; try discriminate. cbn [leaf_stack] in E. injection E as <-. exact Hs.
  - pose proof (proj2 (hd_node _ Hh)) as Tt.
    cbn [hd_ok dt_ok stkP] in *. destruct Hh as [Hw Hc]. destruct Hd as [Dw Dc]. destruct Hs as [Sw Sc].
    apply wrap_Q; [exact Hw|exact Dw| |exact Tt|now apply IHe].
    intros stk E. destruct w; try discriminate; cbn [wrap_stack] in E; injection E as <-; exact Sw.
  - cbn [hd_ok dt_ok stkP] in *. destruct Hh as [Hc Hx]. destruct Hd as [Dc Dx]. destruct Hs as [Sc Sx].
    apply second_Q; [now apply IHe1|]. apply NVQ_of; [exact Hx|now apply IHe2].
  - cbn [hd_ok dt_ok stkP] in *. destruct Hh as [Hm Hx].
    apply barrier_Q; [exact Hm|]. apply NVQ_of; [exact Hx|now apply IHe].
  - pose proof (proj2 (hd_node _ Hh)) as Tt.
    cbn [hd_ok dt_ok stkP] in *. destruct Hh as [Hk Hcs]. rewrite allP_Forall in Hcs, Hd, Hs.
    assert (HN : Forall (fun c => NodeQ (sem c)) cs).
    { rewrite Forall_forall in *. intros c Hc. apply H; auto. }
    apply multi_Q; [exact HN|]. destruct k; try exact Tt.
    rewrite Forall_forall in *. intros c Hc. apply NVQ_of; auto.
  - cbn [hd_ok dt_ok stkP] in *. destruct Hh as (Hm & Hcs & _). destruct Hd as [Dd Dcs].
    rewrite allP_Forall in Hcs, Dcs, Hs.
    apply oleaf_Q; [exact Hm|exact Dd|]. rewrite Forall_forall in *. intros c Hc. apply H; auto.
  - cbn [hd_ok dt_ok stkP] in *. destruct Hh as (Hp & Hc & _). destruct Hd as [Dd Dc].
    apply owrap_Q; [exact Hp|exact Dd|now apply IHe].
Qed.

Corollary q_verbose e red : hd_ok e -> dt_ok e -> stkP stack_q e -> Qs red (final_verbose (sem e) red).
Proof. intros A B C. apply final_verbose_Q. now apply q_node. Qed.

Corollary q_plus_v_pieces e : hd_ok e -> dt_ok e -> stkP stack_q e ->
  pieces_ok [nested_plus_v (sem e)] /\ Forall tidyp [nested_plus_v (sem e)].
Proof.
  intros A B C. apply nested_plus_v_pieces_Q. apply NVQ_of; [exact A|now apply q_node].
Qed.

(* ================================================================== *)
(* 4. auxiliary facts on strings                                       *)
(* ================================================================== *)
(* marker-free and tidy: a valid raw piece *)
Lemma nm_tidy_rok s : has_markers s = false -> tidy s -> rok s.
Proof.
  intros Hm Ht. destruct (wf_sst s (cls_wf s (no_markers_cls s Hm))) as [k [d E]].
  pose proof (run_trun s false K0) as P. unfold tidy in Ht. rewrite Ht in P.
  unfold RedactWf.raw_ok. unfold sst in *. change (Some (false, K0, false)) with (Some st0) in P.
  rewrite E in P. destruct P as [-> ->]. exact E.
Qed.

Lemma frame_q_of f : frame_ok f -> tidy (fr_fn f) -> tidy (fr_file f) -> frame_q f.
Proof.
  intros [A B] C D. split; (split; [assumption|intros _; now apply nm_tidy_rok]).
Qed.

(* ---- strconv.Quote never leaves a truncated marker prefix ---- *)
Fixpoint conts (n : nat) (s : str) : Prop :=
  match n with
  | O => True
  | S k => match s with c :: r => is_cont c = true /\ conts k r | [] => False end
  end.

Lemma is_cont_plain c : is_cont c = true ->
  (c =? 226) = false /\ (c =? nl) = false /\ (c =? colon) = false.
Proof.
  unfold is_cont. intro H. apply andb_true_iff in H as [H1 H2]. apply N.leb_le in H1. apply N.ltb_lt in H2.
  repeat split; apply N.eqb_neq; unfold nl, colon; lia.
Qed.

Lemma in_rng_cont lo hi c : 128 <= lo -> hi < 192 -> in_rng lo hi c = true -> is_cont c = true.
Proof.
  unfold in_rng, is_cont. intros A B H. apply andb_true_iff in H as [H1 H2].
  apply N.leb_le in H1, H2. apply andb_true_iff. split; [apply N.leb_le|apply N.ltb_lt]; lia.
Qed.

Lemma valid2_facts l c : valid2 l c = true -> (l =? 226) = false /\ is_cont c = true.
Proof.
  unfold valid2. intro H. apply andb_true_iff in H as [H1 H2]. split; [|exact H2].
  unfold in_rng in H1. apply andb_true_iff in H1 as [A B]. apply N.leb_le in A, B. apply N.eqb_neq. lia.
Qed.

Lemma valid3_facts l c1 c2 : valid3 l c1 c2 = true -> is_cont c1 = true /\ is_cont c2 = true.
Proof.
  unfold valid3. intro H. apply andb_true_iff in H as [H2 H]. split; [|exact H2].
  apply orb_true_iff in H as [H|H]; [apply orb_true_iff in H as [H|H]|];
    apply andb_true_iff in H as [_ H]; try exact H.
  - apply (in_rng_cont 160 191); [lia|lia|exact H].
  - apply (in_rng_cont 128 159); [lia|lia|exact H].
Qed.

Lemma valid4_facts l c1 c2 c3 : valid4 l c1 c2 c3 = true ->
  (l =? 226) = false /\ is_cont c1 = true /\ is_cont c2 = true /\ is_cont c3 = true.
Proof.
  unfold valid4. intro H. apply andb_true_iff in H as [H23 H]. apply andb_true_iff in H23 as [H2 H3].
  assert (G : forall lo hi, 240 <= lo -> in_rng lo hi l = true -> (l =? 226) = false).
  { intros lo hi A B. unfold in_rng in B. apply andb_true_iff in B as [B _]. apply N.leb_le in B.
    apply N.eqb_neq. lia. }
  apply orb_true_iff in H as [H|H]; [apply orb_true_iff in H as [H|H]|];
    apply andb_true_iff in H as [Hl H].
  - apply N.eqb_eq in Hl. subst l. repeat split; try assumption.
    apply (in_rng_cont 144 191); [lia|lia|exact H].
  - repeat split; try assumption. apply (G 241 243); [lia|exact Hl].
  - apply N.eqb_eq in Hl. subst l. repeat split; try assumption.
    apply (in_rng_cont 128 143); [lia|lia|exact H].
Qed.

Lemma hex_digit_low n : n < 16 -> hex_digit n < 128.
Proof. intro H. unfold hex_digit. destruct (n <? 10); lia. Qed.

Lemma plain_step k x : x < 128 -> x <> nl -> x <> colon -> tstep (Some k) x = Some K0.
Proof.
  intros H1 H2 H3.
  assert (E1 : (x =? 226) = false) by (apply N.eqb_neq; lia).
  assert (E2 : (x =? 128) = false) by (apply N.eqb_neq; lia).
  assert (E3 : (x =? nl) = false) by (now apply N.eqb_neq).
  assert (E4 : (x =? colon) = false) by (now apply N.eqb_neq).
  destruct k; cbn [tstep]; rewrite ?E1, ?E2, ?E3, ?E4; reflexivity.
Qed.

Lemma hex_digit_plain n : n < 16 -> forall k, tstep (Some k) (hex_digit n) = Some K0.
Proof.
  intros H k. unfold hex_digit. destruct (n <? 10) eqn:E.
  - apply N.ltb_lt in E. apply plain_step; unfold nl, colon; lia.
  - apply N.ltb_ge in E. apply plain_step; unfold nl, colon; lia.
Qed.

Lemma hex_esc_tidy b : tidy (hex_esc b).
Proof.
  unfold tidy, hex_esc.
  change (trun [92; 120; hex_digit (b / 16); hex_digit (b mod 16)] (Some K0))
    with (trun [hex_digit (b mod 16)] (tstep (Some K0) (hex_digit (b / 16)))).
  assert (L : b mod 16 < 16) by (apply N.mod_upper_bound; lia).
  destruct (tstep (Some K0) (hex_digit (b / 16))) as [k|] eqn:E.
  - rewrite trun_cons. rewrite (hex_digit_plain _ L). reflexivity.
  - cbn [tstep] in E. destruct (hex_digit (b / 16) =? 226); discriminate.
Qed.

Lemma quote_byte_tidy b : b < 128 -> tidy (quote_byte b).
Proof.
  intro H. apply tidy_ascii. unfold quote_byte.
  repeat match goal with |- context [if ?x then _ else _] => destruct x end; try reflexivity.
  - cbn [ascii forallb]. rewrite !andb_true_iff. repeat split; try reflexivity; apply N.ltb_lt.
    + apply hex_digit_low. apply N.div_lt_upper_bound; lia.
    + apply hex_digit_low. apply N.mod_upper_bound. lia.
  - cbn [ascii forallb]. rewrite andb_true_r. now apply N.ltb_lt.
Qed.

Lemma qb_tidy s : forall skip k, conts skip s ->
  (k = K1 -> (2 <= skip)%nat) -> (k = K2 -> (1 <= skip)%nat) ->
  trun (quote_bytes s skip) (Some k) = Some K0.
Proof.
  induction s as [|b r IH]; intros skip k Hc H1 H2.
  - destruct skip; [|cbn in Hc; contradiction].
    destruct k; [reflexivity|specialize (H1 eq_refl); lia|specialize (H2 eq_refl); lia].
  - destruct skip as [|n].
    + assert (k = K0) by (destruct k; [reflexivity|specialize (H1 eq_refl); lia|specialize (H2 eq_refl); lia]).
      subst k. clear H1 H2 Hc.
      assert (IH0 : trun (quote_bytes r 0) (Some K0) = Some K0).
      { apply IH; [exact I|discriminate|discriminate]. }
      assert (HX : trun (hex_esc b ++ quote_bytes r 0) (Some K0) = Some K0).
      { rewrite trun_app. pose proof (hex_esc_tidy b) as T. unfold tidy in T. rewrite T. exact IH0. }
      cbn [quote_bytes]. destruct (b <? 128) eqn:Eb.
      * apply N.ltb_lt in Eb. rewrite trun_app. pose proof (quote_byte_tidy b Eb) as T. unfold tidy in T.
        rewrite T. exact IH0.
      * destruct r as [|c1 r1]; [exact (hex_esc_tidy b)|].
        destruct (valid2 b c1) eqn:V2.
        { destruct (valid2_facts _ _ V2) as [Nb C1]. rewrite trun_cons. cbn [tstep]. rewrite Nb.
          apply IH; [split; [exact C1|exact I]|discriminate|discriminate]. }
        destruct r1 as [|c2 r2]; [exact HX|].
        destruct (valid3 b c1 c2) eqn:V3.
        { destruct (valid3_facts _ _ _ V3) as [C1 C2]. rewrite trun_cons. cbn [tstep].
          destruct (b =? 226).
          - apply IH; [split; [exact C1|split; [exact C2|exact I]]|intros _; lia|discriminate].
          - apply IH; [split; [exact C1|split; [exact C2|exact I]]|discriminate|discriminate]. }
        destruct r2 as [|c3 r3]; [exact HX|].
        destruct (valid4 b c1 c2 c3) eqn:V4; [|exact HX].
        destruct (valid4_facts _ _ _ _ V4) as (Nb & C1 & C2 & C3). rewrite trun_cons. cbn [tstep]. rewrite Nb.
        apply IH; [split; [exact C1|split; [exact C2|split; [exact C3|exact I]]]|discriminate|discriminate].
    + cbn [conts] in Hc. destruct Hc as [Cb Hc]. destruct (is_cont_plain b Cb) as (E1 & E2 & E3).
      cbn [quote_bytes]. rewrite trun_cons.
      destruct k; cbn [tstep]; rewrite ?E1, ?E2, ?E3; cbn [orb].
      * apply IH; [exact Hc|discriminate|discriminate].
      * destruct (b =? 128).
        -- apply IH; [exact Hc|discriminate|]. intros _. specialize (H1 eq_refl). lia.
        -- apply IH; [exact Hc|discriminate|discriminate].
      * apply IH; [exact Hc|discriminate|discriminate].
Qed.

Lemma go_quote_tidy s : tidy (go_quote s).
Proof.
  unfold go_quote, tidy.
  change (34 :: quote_bytes s 0 ++ [34]) with ([34] ++ quote_bytes s 0 ++ [34]).
  rewrite !trun_app. change (trun [34] (Some K0)) with (Some K0).
  rewrite (qb_tidy s 0%nat K0); [reflexivity|exact I|discriminate|discriminate].
Qed.

(* ---- logtags buffers ---- *)
Lemma tag_add_P {V} (P : str * V -> Prop) k v l : P (k, v) -> Forall P l -> Forall P (tag_add k v l).
Proof.
  intros Hk Hl. induction Hl as [|[k' v'] r Hx Hr IH]; cbn [tag_add]; [constructor; [exact Hk|constructor]|].
  destruct (str_eqb k k'); constructor; assumption.
Qed.

Lemma tags_of_P {V} (P : str * V -> Prop) l : Forall P l -> Forall P (tags_of l).
Proof.
  unfold tags_of. intro H.
  assert (G : forall acc, Forall P acc ->
            Forall P (fold_left (fun acc kv => tag_add (fst kv) (snd kv) acc) l acc)).
  { induction H as [|[k v] r Hx Hr IH]; intros acc Ha; cbn [fold_left]; [exact Ha|].
    apply IH. now apply tag_add_P. }
  apply G. constructor.
Qed.

(* ---- Redact().StripMarkers() keeps tidy strings tidy ---- *)
Lemma strip_cons_plain x y : (x =? 226) = false -> strip_markers (x :: y) = x :: strip_markers y.
Proof. intro H. unfold strip_markers. now rewrite tokenize_cons_plain by exact H. Qed.

Lemma rv_strip_tidy s : forall o,
  (trun s (Some K0) = Some K0 -> tidy (strip_markers (rv (tokenize s) o))) /\
  (trun s (Some K1) = Some K0 -> tidy (strip_markers (rv (tokenize (226 :: s)) o))) /\
  (trun s (Some K2) = Some K0 -> tidy (strip_markers (rv (tokenize (226 :: 128 :: s)) o))).
Proof.
  induction s as [|x s IH]; intro o.
  - split; [intros _; destruct o; reflexivity|split; intro H; discriminate H].
  - destruct (IH o) as [I0 [I1 I2]].
    repeat split; intro H; rewrite trun_cons in H; cbn [tstep] in H.
    + destruct (x =? 226) eqn:E226.
      * apply N.eqb_eq in E226. subst x. now apply I1.
      * rewrite tokenize_cons_plain by exact E226. cbn [rv]. destruct o; [now apply I0|].
        rewrite strip_cons_plain by exact E226.
        unfold tidy. rewrite trun_cons. cbn [tstep]. rewrite E226. now apply I0.
    + destruct (x =? 226) eqn:E226; [cbn in H; rewrite trun_None in H; discriminate|]. cbn [orb] in H.
      destruct (x =? 128) eqn:E128.
      * apply N.eqb_eq in E128. subst x. cbn in H. now apply I2.
      * destruct ((x =? nl) || (x =? colon)) eqn:En; [rewrite trun_None in H; discriminate|].
        rewrite tok_226_other by exact E128. rewrite tokenize_cons_plain by exact E226.
        cbn [rv]. destruct o; [now apply I0|].
        unfold strip_markers. rewrite tok_226_other by exact E128.
        rewrite tokenize_cons_plain by exact E226.
        change (tidy (226 :: x :: strip_markers (rv (tokenize s) false))).
        unfold tidy. rewrite !trun_cons. change (tstep (Some K0) 226) with (Some K1). cbn [tstep].
        rewrite E226. cbn [orb]. rewrite En, E128. now apply I0.
    + destruct (x =? 226) eqn:E226; [cbn in H; rewrite trun_None in H; discriminate|]. cbn [orb] in H.
      destruct (x =? 185) eqn:E185.
      { apply N.eqb_eq in E185. subst x. cbn in H.
        change (tokenize (226 :: 128 :: 185 :: s)) with (TOpen :: tokenize s). cbn [rv].
        exact (proj1 (IH true) H). }
      destruct (x =? 186) eqn:E186.
      { apply N.eqb_eq in E186. subst x. cbn in H.
        change (tokenize (226 :: 128 :: 186 :: s)) with (TClose :: tokenize s). cbn [rv].
        unfold m_redacted. rewrite <- !app_assoc. rewrite strip_start.
        rewrite (strip_plain [195; 151]) by reflexivity. rewrite strip_end.
        apply (tidy_app [195; 151]); [reflexivity|]. exact (proj1 (IH false) H). }
      destruct ((x =? nl) || (x =? colon)) eqn:En; [rewrite trun_None in H; discriminate|].
      rewrite tok_226_128_other by assumption. rewrite tokenize_cons_plain by exact E226.
      cbn [rv]. destruct o; [now apply I0|].
      unfold strip_markers. rewrite tok_226_128_other by assumption.
      rewrite tokenize_cons_plain by exact E226.
      change (tidy (226 :: 128 :: x :: strip_markers (rv (tokenize s) false))).
      unfold tidy. rewrite !trun_cons. change (tstep (tstep (Some K0) 226) 128) with (Some K2). cbn [tstep].
      rewrite E226. cbn [orb]. rewrite En. now apply I0.
Qed.

Lemma redact_strip_tidy s : rok s -> tidy s -> tidy (redact_strip s).
Proof.
  intros Hr Ht. unfold redact_strip. rewrite redact_rv by now apply raw_ok_wf.
  exact (proj1 (rv_strip_tidy s false) Ht).
Qed.

(* ---- marks ---- *)
Lemma go_full_name_ascii e : ascii (go_full_name e) = true.
Proof.
  destruct e as [i k|i w c|i c s|i m x|i k cs|i m d cs|i p d mt c]; unfold go_full_name, full_name; cbn [go_ty].
  - destruct k as [| | | | | | | | | | |u ? ? ?]; try reflexivity. destruct u; reflexivity.
  - destruct w as [| | | | | | | | | | | | | | | | | | | | |u ? ?]; try reflexivity. destruct u; reflexivity.
  - reflexivity.
  - reflexivity.
  - destruct k; reflexivity.
  - destruct cs; reflexivity.
  - reflexivity.
Qed.

Lemma own_tmark_tidy e : dt_ok e -> tidy (tm_family (own_tmark e)) /\ tidy (tm_ext (own_tmark e)).
Proof.
  intro Hd. unfold own_tmark, tmark_of.
  assert (A : tidy (go_full_name e)) by apply tidy_ascii, go_full_name_ascii.
  destruct e as [i k|i w c|i c s|i m x|i k cs|i m d cs|i p d mt c]; cbn [dt_ok] in Hd;
    cbn [own_ext tm_family tm_ext]; try (split; [exact A|exact tidy_nil]).
  - destruct w; cbn [own_ext tm_family tm_ext]; try (split; [exact A|exact tidy_nil]).
    split; [exact A|]. exact (proj1 Hd).
  - destruct (ddt_parts d (proj1 Hd)) as (_ & B & C & _). now split.
  - destruct (ddt_parts d (proj1 Hd)) as (_ & B & C & _). now split.
Qed.

Lemma tmarks_head e : exists l, ns_tmarks (sem e) = own_tmark e :: l.
Proof.
  destruct e as [i k|i w c|i c s|i m x|i k cs|i m d cs|i p d mt c]; try (eexists; reflexivity).
  destruct k; eexists; reflexivity.
Qed.

Lemma markq_get_mark x : hd_ok x -> dt_ok x -> markq (get_mark x).
Proof.
  intros Hh Hd.
  assert (G : markq (mkem (error_text x) (ns_tmarks (sem x)))).
  { split; cbn [em_msg em_types]; [apply go_quote_tidy|].
    destruct (tmarks_head x) as [l ->]. now apply own_tmark_tidy. }
  unfold get_mark. destruct x as [i k|i w c|i c s|i m x|i k cs|i m d cs|i p d mt c]; try exact G.
  destruct w; try exact G. cbn [dt_ok dtw] in Hd. exact (proj1 Hd).
Qed.

Lemma stkP_impl (P Q : stack -> Prop) e : (forall s, P s -> Q s) -> stkP P e -> stkP Q e.
Proof.
  intro HPQ. induction e using err_ind'; cbn [stkP].
  - destruct k; trivial. apply HPQ.
  - intros [A B]. split; [|now apply IHe]. destruct w; cbn [wstackP] in *; trivial; now apply HPQ.
  - intros [A B]. split; [now apply IHe1|now apply IHe2].
  - exact IHe.
  - rewrite !allP_Forall. now apply Forall_impl'.
  - rewrite !allP_Forall. now apply Forall_impl'.
  - exact IHe.
Qed.

(* ================================================================== *)
(* 4b. network hops keep the detail strings tidy                       *)
(* ================================================================== *)
Lemma edt_leaf msg d cs : edt (ELeaf msg d cs) <-> ddt d /\ Forall edt cs.
Proof.
  cbn [edt].
  assert (E : (fix al (l : list enc) : Prop := match l with [] => True | y :: r => edt y /\ al r end) cs
              <-> Forall edt cs).
  { induction cs as [|y r IH]; split; intro H.
    - constructor.
    - exact I.
    - destruct H as [A B]. constructor; [exact A|now apply IH].
    - inversion H; subst. split; [assumption|now apply IH]. }
  rewrite E. reflexivity.
Qed.

Lemma own_ext_tidy e : dt_ok e -> tidy (own_ext e).
Proof.
  intro Hd. destruct e as [i k|i w c|i c s|i m x|i k cs|i m d cs|i p d mt c]; try exact tidy_nil.
  destruct w; try exact tidy_nil. exact (proj1 Hd).
Qed.

Lemma td_tidy e : dt_ok e ->
  let '(o, f, x) := type_details e in tidy o /\ tidy f /\ tidy x.
Proof.
  intro Hd. destruct (own_tmark_tidy e Hd) as [A _]. pose proof (own_ext_tidy e Hd) as B.
  assert (G : tidy (go_full_name e)) by apply tidy_ascii, go_full_name_ascii.
  destruct e as [i k|i w c|i c s|i m x|i k cs|i m d cs|i p d mt c]; cbn [type_details];
    try (repeat split; assumption).
  - destruct (ddt_parts d (proj1 Hd)) as (P & Q & R & _). repeat split; assumption.
  - destruct (ddt_parts d (proj1 Hd)) as (P & Q & R & _). repeat split; assumption.
Qed.

Lemma ddt_mk e rep full : dt_ok e -> Forall tidy rep ->
  match full with Some p => pdt p | None => True end -> ddt (mk_details e rep full).
Proof.
  intros Hd Hr Hf. unfold mk_details. pose proof (td_tidy e Hd) as T.
  destruct (type_details e) as [[o f] x]. destruct T as (A & B & C). cbn [ddt]. repeat split; assumption.
Qed.

Lemma sdp_fill_tidy p acc : tidy (sd_fam p) -> tidy (sd_ext p) -> Forall tidy (sd_details p) ->
  Forall tidy acc -> Forall tidy (sdp_fill p acc).
Proof.
  intros A B C D. unfold sdp_fill. destruct (sd_details p) as [|d ds] eqn:E; [exact D|].
  apply Forall_app. split; [exact D|]. apply Forall_app. split.
  - constructor; [|constructor]. apply tidy_app; [reflexivity|]. apply tidy_app; [exact A|].
    apply tidy_app; [reflexivity|]. apply tidy_app; [exact B|reflexivity].
  - apply Forall_map''. revert C. apply Forall_impl. intros a Ha. apply tidy_app; [reflexivity|exact Ha].
Qed.

Lemma fill_step_tidy e acc : dt_ok e -> Forall tidy (get_details e) -> Forall tidy acc ->
  Forall tidy (let '(o, f, xt) := type_details e in sdp_fill (mksdp o f xt (get_details e)) acc).
Proof.
  intros Hd Hg Ha. pose proof (td_tidy e Hd) as T. destruct (type_details e) as [[o f] x].
  destruct T as (A & B & C). apply sdp_fill_tidy; assumption.
Qed.

Lemma print_stack_tidy st : stack_q st -> tidy (print_stack st).
Proof. intro H. exact (proj1 (print_stack_Q st H)). Qed.

Lemma redact_tags_tidy tags : Forall tagq tags -> Forall tidy (redact_tags tags).
Proof.
  intro H. unfold redact_tags. apply Forall_map''. revert H. apply Forall_impl. intros kv Hkv.
  destruct (tag_redactable_Q kv Hkv) as [T R]. apply redact_strip_tidy; [now apply R|exact T].
Qed.

(* SafeDetails() of every node, and the details of a whole chain *)
Lemma details_tidy e : hd_ok e -> dt_ok e -> stkP stack_q e ->
  Forall tidy (get_details e) /\ forall acc, Forall tidy acc -> Forall tidy (fill_chain_top e acc).
Proof.
  induction e using err_ind'; intros Hh Hd Hs.
  - assert (G : Forall tidy (get_details (Leaf i k))).
    { cbn [hd_ok dt_ok stkP] in *. unfold get_details.
      destruct k; cbn [safe_details_of hdl dtl] in *; try (constructor; fail).
      - constructor; [now apply print_stack_tidy|constructor].
      - constructor; [|constructor]. destruct Hh as [T R]. apply redact_strip_tidy; [now apply R|exact T].
      - destruct Hd as [A B]. repeat constructor; assumption.
      - destruct u; try (constructor; fail). exact Hd. }
    split; [exact G|]. intros acc Ha. rewrite fill_chain_top_step.
    exact (fill_step_tidy (Leaf i k) acc Hd G Ha).
  - assert (G : Forall tidy (get_details (Wrap i w e))).
    { cbn [hd_ok dt_ok stkP] in *. destruct Hh as [Hw _]. destruct Hd as [Dw _]. destruct Hs as [Sw _].
      unfold get_details.
      destruct w; cbn [safe_details_of hdw dtw wstackP] in *; try (constructor; fail).
      - constructor; [now apply print_stack_tidy|constructor].
      - constructor; [|constructor]. destruct Hw as [T R]. apply redact_strip_tidy; [now apply R|exact T].
      - constructor; [|constructor]. destruct Hw as [T R]. apply redact_strip_tidy; [now apply R|exact T].
      - destruct Dw as [A B]. repeat constructor; assumption.
      - exact Dw.
      - constructor; [exact Dw|constructor].
      - destruct Dw as [Dt Dr]. destruct redacted as [r|]; [exact Dr|now apply redact_tags_tidy].
      - exact Dw.
      - constructor; [now apply print_stack_tidy|constructor].
      - destruct u; try (constructor; fail). exact Dw. }
    split; [exact G|]. intros acc Ha. rewrite fill_chain_top_step.
    pose proof (fill_step_tidy (Wrap i w e) acc Hd G Ha) as F.
    cbn [hd_ok dt_ok stkP] in *. destruct (type_details (Wrap i w e)) as [[o f] xt].
    apply (proj2 (IHe (proj2 Hh) (proj2 Hd) (proj2 Hs))). exact F.
  - cbn [hd_ok dt_ok stkP] in Hh, Hd, Hs.
    destruct (IHe1 (proj1 Hh) (proj1 Hd) (proj1 Hs)) as [_ F1].
    destruct (IHe2 (proj2 Hh) (proj2 Hd) (proj2 Hs)) as [_ F2].
    assert (G : Forall tidy (get_details (Second i e1 e2))).
    { unfold get_details. rewrite safe_details_second. apply F2. constructor. }
    split; [exact G|]. intros acc Ha. rewrite fill_chain_top_step.
    pose proof (fill_step_tidy (Second i e1 e2) acc Hd G Ha) as F.
    destruct (type_details (Second i e1 e2)) as [[o f] xt]. apply F1. exact F.
  - cbn [hd_ok dt_ok stkP] in Hh, Hd, Hs.
    destruct (IHe (proj2 Hh) Hd Hs) as [_ F1].
    assert (G : Forall tidy (get_details (Barrier i m e))).
    { unfold get_details. rewrite safe_details_barrier. apply Forall_app. split; [apply F1; constructor|].
      constructor; [|constructor].
      destruct (q_plus_v_pieces e (proj2 Hh) Hd Hs) as [P1' P2'].
      assert (Q : Qs true (sprint_pieces [PLit (lit "masked error: "); nested_plus_v (sem e)])).
      { apply sprint_Qs; [constructor; [exact I|exact P1']|constructor; [reflexivity|exact P2']]. }
      destruct Q as [T R]. apply redact_strip_tidy; [now apply R|exact T]. }
    split; [exact G|]. intros acc Ha. rewrite fill_chain_top_step.
    exact (fill_step_tidy (Barrier i m e) acc Hd G Ha).
  - assert (G : Forall tidy (get_details (Multi i k cs))) by constructor.
    split; [exact G|]. intros acc Ha. rewrite fill_chain_top_step.
    exact (fill_step_tidy (Multi i k cs) acc Hd G Ha).
  - assert (G : Forall tidy (get_details (OLeaf i m d cs))).
    { cbn [dt_ok] in Hd. destruct (ddt_parts d (proj1 Hd)) as (_ & _ & _ & R & _). exact R. }
    split; [exact G|]. intros acc Ha. rewrite fill_chain_top_step.
    exact (fill_step_tidy (OLeaf i m d cs) acc Hd G Ha).
  - assert (G : Forall tidy (get_details (OWrap i p d mt e))).
    { cbn [dt_ok] in Hd. destruct (ddt_parts d (proj1 Hd)) as (_ & _ & _ & R & _). exact R. }
    split; [exact G|]. intros acc Ha. rewrite fill_chain_top_step.
    pose proof (fill_step_tidy (OWrap i p d mt e) acc Hd G Ha) as F.
    cbn [hd_ok dt_ok stkP] in *. destruct (type_details (OWrap i p d mt e)) as [[o f] xt].
    apply (proj2 (IHe (proj1 (proj2 Hh)) (proj2 Hd) Hs)). exact F.
Qed.

Lemma sd_or_nil_tidy e : Forall tidy (get_details e) -> Forall tidy (sd_or_nil e).
Proof.
  unfold get_details, sd_or_nil. destruct (safe_details_of e); [trivial|constructor].
Qed.

Lemma tag_value_tidy kv : tagq kv -> tidy (fst kv) /\ tidy (tag_value_str (snd kv)).
Proof.
  destruct kv as [k v]. intros [A B]. cbn [fst snd] in *. split; [exact A|].
  destruct v; cbn [tag_value_str]; try exact B; [exact tidy_nil|apply dec_of_Z_tidy].
Qed.

(* ---- encoding ---- *)
Lemma encode_edt e : hd_ok e -> dt_ok e -> stkP stack_q e -> edt (encode e).
Proof.
  induction e using err_ind'; intros Hh Hd Hs.
  - (* Leaf *)
    pose proof (sd_or_nil_tidy _ (proj1 (details_tidy _ Hh Hd Hs))) as Tsd.
    pose proof (proj2 (hd_node _ Hh)) as Tt.
    change (ns_text (sem (Leaf i k))) with (error_text (Leaf i k)) in Tt.
    cbn [hd_ok stkP] in Hh, Hs.
    destruct k; cbn [encode]; apply edt_leaf; (split; [|constructor]); apply ddt_mk;
      try exact Hd; try exact Tsd; try exact I; cbn [pdt hdl] in *;
      try (constructor; [|constructor]); try assumption.
    + now apply print_stack_tidy.
    + exact (proj1 Hh).
  - (* Wrap *)
    pose proof (sd_or_nil_tidy _ (proj1 (details_tidy _ Hh Hd Hs))) as Tsd.
    pose proof Hd as Hd0.
    cbn [hd_ok dt_ok stkP] in Hh, Hd, Hs. destruct Hh as [Hw Hc]. destruct Hd as [Dw Dc]. destruct Hs as [Sw Sc].
    specialize (IHe Hc Dc Sc).
    destruct w; cbn [encode];
      try (destruct (extract_prefix (error_text (Wrap i _ e)) (error_text e)) as [pfx mt]);
      cbn [edt]; (split; [exact IHe|]); apply ddt_mk;
      try exact Hd0; try exact Tsd; try exact I; try (constructor; fail); cbn [pdt hdw dtw wstackP] in *.
    + exact (proj1 Hw).
    + exact (proj1 Hw).
    + exact Dw.
    + exact Dw.
    + destruct Dw as [Dt _]. apply Forall_map''. revert Dt. apply Forall_impl. intros kv Hkv.
      cbn [fst snd]. now apply tag_value_tidy.
    + destruct Dw as [_ B]. exact B.
    + constructor; [|constructor]. apply tidy_app; [reflexivity|apply dec_of_Z_tidy].
    + constructor; [|constructor]. apply tidy_app; [reflexivity|apply dec_of_N_tidy].
    + constructor; [now apply print_stack_tidy|constructor].
    + constructor; [exact (proj1 Hw)|constructor].
    + constructor; [exact (proj1 Hw)|constructor].
  - (* Second *)
    pose proof Hd as Hd0.
    cbn [hd_ok dt_ok stkP] in Hh, Hd, Hs. cbn [encode edt].
    split; [exact (IHe1 (proj1 Hh) (proj1 Hd) (proj1 Hs))|].
    apply ddt_mk; [exact Hd0|constructor|]. cbn [pdt]. exact (IHe2 (proj2 Hh) (proj2 Hd) (proj2 Hs)).
  - (* Barrier *)
    pose proof (sd_or_nil_tidy _ (proj1 (details_tidy _ Hh Hd Hs))) as Tsd.
    pose proof Hd as Hd0.
    cbn [hd_ok dt_ok stkP] in Hh, Hd, Hs. cbn [encode]. apply edt_leaf. split; [|constructor].
    apply ddt_mk; [exact Hd0|exact Tsd|]. cbn [pdt]. exact (IHe (proj2 Hh) Hd Hs).
  - (* Multi *)
    pose proof Hd as Hd0.
    cbn [hd_ok dt_ok stkP] in Hh, Hd, Hs. destruct Hh as [_ Hcs]. rewrite allP_Forall in Hcs, Hd, Hs.
    cbn [encode]. apply edt_leaf. split; [apply ddt_mk; [exact Hd0|constructor|exact I]|].
    apply Forall_map''. rewrite Forall_forall in *. intros c Hc. apply H; auto.
  - (* OLeaf *)
    cbn [hd_ok dt_ok stkP] in Hh, Hd, Hs. destruct Hh as (_ & Hcs & _). destruct Hd as [Dd Dcs].
    rewrite allP_Forall in Hcs, Dcs, Hs.
    cbn [encode]. apply edt_leaf. split; [exact Dd|].
    apply Forall_map''. rewrite Forall_forall in *. intros c Hc. apply H; auto.
  - (* OWrap *)
    cbn [hd_ok dt_ok stkP] in Hh, Hd, Hs. destruct Hh as (_ & Hc & _). destruct Hd as [Dd Dc].
    cbn [encode edt]. split; [now apply IHe|exact Dd].
Qed.

(* ---- decoding ---- *)
Lemma decode_list_dt p cs :
  (forall y, In y cs -> forall n, dt_ok (fst (decode p y n))) ->
  forall n, Forall dt_ok (fst (decode_list (decode p) cs n)).
Proof.
  induction cs as [|y r IH]; intros H n; cbn [decode_list]; [constructor|].
  pose proof (H y (or_introl eq_refl) n) as Hy. destruct (decode p y n) as [e n1]. cbn [fst] in Hy.
  assert (Hr : forall z, In z r -> forall n, dt_ok (fst (decode p z n))) by (intros z Hz; apply H; now right).
  specialize (IH Hr n1). destruct (decode_list (decode p) r n1) as [es n2]. cbn [fst] in *.
  constructor; assumption.
Qed.

Lemma nth_str_tidy n l : Forall tidy l -> tidy (nth_str n l).
Proof.
  unfold nth_str. intro H. revert n. induction H as [|x l Hx Hl IH]; intros [|n]; cbn [nth];
    try exact tidy_nil; [exact Hx|apply IH].
Qed.

Lemma ctx_dtw tags (r : option (list str)) :
  Forall (fun kv : str * str => tidy (fst kv) /\ tidy (snd kv)) tags ->
  match r with Some l => Forall tidy l | None => True end ->
  dtw (WContext (tags_of (List.map (fun kv => (fst kv, TVStr (snd kv))) tags)) r).
Proof.
  intros H Hr. cbn [dtw]. split; [|exact Hr]. apply tags_of_P. apply Forall_map''.
  revert H. apply Forall_impl. intros kv [A B]. split; assumption.
Qed.

Ltac eqb_case' fam k T :=
  destruct (str_eqb fam k) eqn:T; [apply str_eqb_eq in T; subst fam|clear T].

Lemma decode_dt p : forall k x, (esize x < k)%nat -> edt x -> forall n, dt_ok (fst (decode p x n)).
Proof.
  induction k as [|k IH]; intros x Hk Hx n; [lia|].
  destruct x as [msg d cs|c msg d mt].
  - (* leaf message *)
    apply edt_leaf in Hx. destruct Hx as (Hd & Hcs).
    assert (HL : forall n, Forall dt_ok (fst (decode_list (decode p) cs n))).
    { apply decode_list_dt. intros y Hy n'. apply IH.
      - pose proof (esize_in msg d cs y Hy). lia.
      - rewrite Forall_forall in Hcs. now apply Hcs. }
    assert (HP : forall m n', dt_full d = Some (PlEnc m) -> dt_ok (fst (decode p m n'))).
    { intros m n' E. destruct d as [o fam ext rep pl]. cbn [dt_full] in E. subst pl.
      cbn [ddt pdt] in Hd. apply IH; [|apply Hd]. cbn [esize dsize psize] in Hk. lia. }
    clear IH Hk Hcs.
    destruct d as [o fam ext rep pl]. cbn [dt_full] in HP.
    set (e := fst (decode p (ELeaf msg (mkdet o fam ext rep pl) cs) n)).
    assert (He : e = fst (decode p (ELeaf msg (mkdet o fam ext rep pl) cs) n)) by reflexivity.
    clearbody e. cbn [decode] in He.
    specialize (HL n). destruct (decode_list (decode p) cs n) as [es n1]. cbn [fst] in HL.
    cbv beta iota zeta delta [Codec.fresh] in He.
    assert (HO : forall i, dt_ok (OLeaf i msg (mkdet o fam ext rep pl) es)).
    { intro i. cbn [dt_ok]. split; [exact Hd|now apply allP_Forall]. }
    pose proof Hd as Hd0. cbn [ddt] in Hd. destruct Hd as (To & Tf & Tx & Trep & Tpl).
    destruct (mem_str fam leaf_decoder_keys && knows p fam) eqn:K1.
    + eqb_case' fam k_errorString T.
      { cbn [fst] in He. subst e. exact I. }
      eqb_case' fam k_deadline T.
      { cbn [fst] in He. subst e. exact I. }
      eqb_case' fam k_leafError T.
      { destruct pl as [[s|l|l|m tys|pe|m|c|c|c m| |u raw]|]; cbn [fst] in He; subst e; try apply HO. exact I. }
      eqb_case' fam k_barrier T.
      { destruct pl as [[s|l|l|m tys|pe|m|c|c|c m| |u raw]|];
          try (cbn [fst] in He; subst e; apply HO).
        pose proof (HP m n eq_refl) as Gm. destruct (decode p m n) as [em n2]. cbn [fst] in *. subst e.
        exact Gm. }
      eqb_case' fam k_barrierPrev T.
      { destruct pl as [[s|l|l|m tys|pe|m|c|c|c m| |u raw]|];
          try (cbn [fst] in He; subst e; apply HO).
        pose proof (HP m n eq_refl) as Gm. destruct (decode p m n) as [em n2]. cbn [fst] in *. subst e.
        exact Gm. }
      eqb_case' fam k_unimpl T.
      { cbn [fst] in He. subst e. cbn [dt_ok dtl]. split; now apply nth_str_tidy. }
      destruct (str_eqb fam k_errno || str_eqb fam k_opaqueErrno) eqn:T.
      { destruct pl as [[s|l|l|m tys|pe|m|c|c|c m| |u raw]|];
          try (cbn [fst] in He; subst e; apply HO).
        destruct (str_eqb (en_arch pe) this_arch); cbn [fst] in He; subst e; exact I. }
      clear T.
      eqb_case' fam k_grpcStatus T.
      { destruct pl as [[s|l|l|m tys|pe|m|c|c|c m| |u raw]|];
          try (cbn [fst] in He; subst e; apply HO).
        destruct (c =? 0); cbn [fst] in He; subst e; [apply HO|exact I]. }
      eqb_case' fam k_gogoStatus T.
      { destruct pl as [[s|l|l|m tys|pe|m|c|c|c m| |u raw]|];
          try (cbn [fst] in He; subst e; apply HO).
        destruct (c =? 0); cbn [fst] in He; subst e; [apply HO|exact I]. }
      cbn [fst] in He. subst e. apply HO.
    + destruct (mem_str fam multi_decoder_keys && knows p fam) eqn:K2.
      * destruct es as [|e1 es]; cbn [fst] in He; subst e.
        -- cbn [dt_ok]. split; [exact Hd0|exact I].
        -- cbn [dt_ok]. now apply allP_Forall.
      * destruct pl as [[s|l|l|m tys|pe|m|c|c|c m| |u raw]|]; cbn [fst] in He; subst e;
          first [exact I|apply HO].
  - (* wrapper message *)
    cbn [edt] in Hx. destruct Hx as (Hc & Hd).
    assert (Gc : forall n', dt_ok (fst (decode p c n'))).
    { intro n'. apply IH; [|exact Hc]. cbn [esize] in Hk. lia. }
    assert (HP : forall m n', dt_full d = Some (PlEnc m) -> dt_ok (fst (decode p m n'))).
    { intros m n' E. destruct d as [o fam ext rep pl]. cbn [dt_full] in E. subst pl.
      cbn [ddt pdt] in Hd. apply IH; [|apply Hd]. cbn [esize dsize psize] in Hk. lia. }
    clear IH Hk Hc.
    destruct d as [o fam ext rep pl]. cbn [dt_full] in HP.
    set (e := fst (decode p (EWrap c msg (mkdet o fam ext rep pl) mt) n)).
    assert (He : e = fst (decode p (EWrap c msg (mkdet o fam ext rep pl) mt) n)) by reflexivity.
    clearbody e. cbn [decode] in He.
    specialize (Gc n). destruct (decode p c n) as [ec n0]. cbn [fst] in Gc.
    cbv beta iota zeta delta [Codec.fresh] in He.
    assert (HO : forall i, dt_ok (OWrap i msg (mkdet o fam ext rep pl) mt ec)).
    { intro i. cbn [dt_ok]. now split. }
    assert (HW : forall i w, dtw w -> dt_ok (Wrap i w ec)).
    { intros i w A. cbn [dt_ok]. now split. }
    cbn [ddt] in Hd. destruct Hd as (To & Tf & Tx & Trep & Tpl).
    destruct (mem_str fam wrap_decoder_keys && knows p fam) eqn:K1; [|cbn [fst] in He; subst e; apply HO].
    eqb_case' fam k_withPrefix T.
    { destruct pl as [[s|l|tags|m tys|pe|m|cd|cd|cd m| |u raw]|]; cbn [fst] in He; subst e; try apply HO.
      apply HW; exact I. }
    eqb_case' fam k_withNewMessage T.
    { destruct pl as [[s|l|tags|m tys|pe|m|cd|cd|cd m| |u raw]|]; cbn [fst] in He; subst e; try apply HO.
      apply HW; exact I. }
    eqb_case' fam k_withHint T.
    { destruct pl as [[s|l|tags|m tys|pe|m|cd|cd|cd m| |u raw]|]; cbn [fst] in He; subst e; try apply HO.
      apply HW; exact Tpl. }
    eqb_case' fam k_withDetail T.
    { destruct pl as [[s|l|tags|m tys|pe|m|cd|cd|cd m| |u raw]|]; cbn [fst] in He; subst e; try apply HO.
      apply HW; exact Tpl. }
    eqb_case' fam k_withIssueLink T.
    { cbn [fst] in He. subst e. apply HW. cbn [dtw]. split; now apply nth_str_tidy. }
    eqb_case' fam k_withTelemetry T. { cbn [fst] in He. subst e. apply HW; exact Trep. }
    eqb_case' fam k_withDomain T.
    { destruct rep as [|d0 rep]; cbn [fst] in He; subst e; [apply HO|apply HW; exact (Forall_inv Trep)]. }
    eqb_case' fam k_withContext T.
    { destruct pl as [[s|l|tags|m tys|pe|m|cd|cd|cd m| |u raw]|];
        try (destruct tags as [|tg tags]; destruct rep as [|r0 rep]);
        cbn [fst] in He; subst e; try apply HO; apply HW, ctx_dtw; try exact Tpl; try exact Trep; exact I. }
    eqb_case' fam k_withAssert T. { cbn [fst] in He. subst e. apply HW; exact I. }
    eqb_case' fam k_withMark T.
    { destruct pl as [[s|l|tags|m tys|pe|m|cd|cd|cd m| |u raw]|];
        try (destruct tys as [|t tys]); cbn [fst] in He; subst e; try apply HO.
      apply HW. cbn [dtw]. split; cbn [em_msg em_types]; [apply go_quote_tidy|exact Tpl]. }
    eqb_case' fam k_withSafeDetails T. { cbn [fst] in He. subst e. apply HW; exact Trep. }
    eqb_case' fam k_withSecondary T.
    { destruct pl as [[s|l|tags|m tys|pe|m|cd|cd|cd m| |u raw]|];
        try (cbn [fst] in He; subst e; apply HO).
      pose proof (HP m (Pos.succ n0) eq_refl) as Gm.
      destruct (decode p m (Pos.succ n0)) as [es n2]. cbn [fst] in *. subst e. cbn [dt_ok]. now split. }
    eqb_case' fam k_withHTTP T.
    { destruct pl as [[s|l|tags|m tys|pe|m|cd|cd|cd m| |u raw]|]; cbn [fst] in He; subst e; try apply HO.
      apply HW; exact I. }
    eqb_case' fam k_withGrpc T.
    { destruct pl as [[s|l|tags|m tys|pe|m|cd|cd|cd m| |u raw]|]; cbn [fst] in He; subst e; try apply HO.
      apply HW; exact I. }
    eqb_case' fam k_pkgMsg T. { cbn [fst] in He. subst e. apply HW; exact I. }
    eqb_case' fam k_pathError T.
    { destruct pl as [[s|l|tags|m tys|pe|m|cd|cd|cd m| |u raw]|];
        try (destruct l as [|a [|b l]]); cbn [fst] in He; subst e; try apply HO.
      apply HW; exact I. }
    eqb_case' fam k_linkError T.
    { destruct pl as [[s|l|tags|m tys|pe|m|cd|cd|cd m| |u raw]|];
        try (destruct l as [|a [|b [|c3 l]]]); cbn [fst] in He; subst e; try apply HO.
      apply HW; exact I. }
    eqb_case' fam k_syscallError T. { cbn [fst] in He. subst e. apply HW; exact I. }
    cbn [fst] in He. subst e. apply HO.
Qed.

Lemma hop_D p e n : hd_ok e -> dt_ok e -> stkP stack_q e -> dt_ok (fst (hop p e n)).
Proof.
  intros A B C. unfold hop. apply (decode_dt p (S (esize (encode e)))); [lia|now apply encode_edt].
Qed.

(* ================================================================== *)
(* 5. conditions on recipes                                            *)
(* ================================================================== *)
Definition tagb (kv : str * tagval) : bool :=
  tidyb (fst kv) && match snd kv with TVStr s | TVSafe s => tidyb s | _ => true end.

(* every string that a node prints behind p.Detail(), or reports as a safe detail
   (the payload strings of the harness types), is tidy *)
Definition chk_dt (r : recipe) : bool :=
  match r with
  | RUnimpl url det _ => tidyb url && tidyb det
  | RHint _ h => tidyb h
  | RDetail _ d => tidyb d
  | RHintf _ f | RDetailf _ f | RSafeDetails _ f => fmt_strs f
  | RIssueLink _ url det => tidyb url && tidyb det
  | RTelemetry _ keys => forallb tidyb keys
  | RDomain _ d | RHandledInDomain _ d | RHandledInDomainMsg _ d _ => tidyb d
  | RTags _ tags => forallb tagb tags
  | RULeaf _ _ _ xs | RUWrap _ _ _ xs => forallb tidyb xs
  | _ => true
  end.

(* "detail-tidy" recipes: what an error argument printed with %+v inside a
   MESSAGE format has to be *)
Definition dtr : recipe -> bool := all_nodes chk_dt.

Definition fmt_pvb (f : list fpiece) : bool :=
  forallb (fun p => match p with FErr VPlusV y => dtr y | _ => true end) f.

(* the format of a constructor that builds a message *)
Definition msgfmt (r : recipe) : list fpiece :=
  match r with
  | RNewf f | RAssertf f | RFmtErrorf f | RWrapf _ f | RWithMessagef _ f | RHandledMsgf _ f
  | RNewAssertWrapped _ f => f
  | _ => []
  end.

Definition chk_pv (r : recipe) : bool := fmt_pvb (msgfmt r).
Definition pv_ok : recipe -> bool := all_nodes chk_pv.

(* the strengthened condition on strings *)
Definition strs_ok' (r : recipe) : bool := strs_ok r && pv_ok r.

(* the error arguments printed with %+v *)
Fixpoint fpv (f : list fpiece) : list recipe :=
  match f with
  | [] => []
  | FErr VPlusV x :: rest => x :: fpv rest
  | _ :: rest => fpv rest
  end.

Lemma fpv_fkids f y : In y (fpv f) -> In y (fkids f).
Proof.
  induction f as [|p f IH]; [intros []|]. destruct p as [l|v x|v x|v z|v z|v x|x|x|z]; cbn [fpv fkids]; try exact IH.
  destruct v; cbn [fpv]; try (intro H; right; now apply IH).
  intros [->|H]; [now left|right; now apply IH].
Qed.

Lemma fmt_pvb_fpv f : fmt_pvb f = true -> Forall (fun y => dtr y = true) (fpv f).
Proof.
  unfold fmt_pvb. induction f as [|p f IH]; [constructor|]. cbn [forallb]. intro H.
  apply andb_true_iff in H as [H1 H2]. specialize (IH H2).
  destruct p as [l|v x|v x|v z|v z|v x|x|x|z]; cbn [fpv]; try exact IH.
  destruct v; try exact IH. constructor; assumption.
Qed.

Lemma msgfmt_kids r y : In y (fkids (msgfmt r)) -> In y (kids r).
Proof. destruct r; cbn [msgfmt kids fkids]; try (intros []); try (intro H; exact H); intro H; now right. Qed.

Definition okr2 (r : recipe) : Prop := strs_ok r = true /\ pv_ok r = true.

Lemma okr2_inv r : okr2 r -> chk_str r = true /\ chk_pv r = true /\ Forall okr2 (kids r).
Proof.
  intros (B & C).
  destruct (all_nodes_kids _ r B) as [B1 B2].
  destruct (all_nodes_kids _ r C) as [C1 C2]. repeat split; try assumption.
  rewrite Forall_forall in *. intros x Hx. split; auto.
Qed.

Lemma dtr_inv r : dtr r = true -> chk_dt r = true /\ Forall (fun x => dtr x = true) (kids r).
Proof. intro H. exact (all_nodes_kids _ r H). Qed.

(* every frame of the environment's stacks is free of marker runes AND tidy *)
Definition frame_tidy (f : frame) : Prop := tidy (fr_fn f) /\ tidy (fr_file f).
Definition stacks_ok' (env : benv) : Prop :=
  stacks_ok env /\ Forall (Forall frame_tidy) (be_stacks env).

(* ================================================================== *)
(* 6. the builder                                                      *)
(* ================================================================== *)
Definition SP2 (s : stack) : Prop := stack_ok s /\ stack_q s.

Section Api2.
Variable env : benv.
Hypothesis HSP : forall n, SP2 (nth n (be_stacks env) []).

Definition GD (o : option err) : Prop := match o with Some e => dt_ok e | None => True end.
Definition P1 (x : recipe) : Prop := forall bs, GO SP2 (fst (build env x bs)).
Definition P2 (x : recipe) : Prop := forall bs, GD (fst (build env x bs)).

Lemma gd2_q e : gd SP2 e -> stkP stack_q e.
Proof. intros [_ H]. revert H. apply stkP_impl. intros s [_ A]. exact A. Qed.

Lemma transfer_D ps : forall e n, gd SP2 e -> dt_ok e -> dt_ok (fst (transfer ps e n)).
Proof.
  induction ps as [|p r IH]; intros e n G D; cbn [transfer]; [exact D|].
  pose proof (hop_gd SP2 p e n G) as G1. pose proof (hop_D p e n (proj1 G) D (gd2_q e G)) as D1.
  destruct (hop p e n) as [e1 n1]. cbn [fst] in G1, D1. now apply IH.
Qed.

Lemma plus_v_BF e : gd SP2 e -> dt_ok e ->
  pieces_ok [nested_plus_v (sem e)] /\ Forall tidyp [nested_plus_v (sem e)] /\
  tidy (if lib_format e then fmt_plain_verbose e else error_text e).
Proof.
  intros G D. destruct (q_plus_v_pieces e (proj1 G) D (gd2_q e G)) as [A B].
  split; [exact A|split; [exact B|]]. destruct (lib_format e).
  - exact (proj1 (q_verbose e false (proj1 G) D (gd2_q e G))).
  - exact (proj2 (hd_node e (proj1 G))).
Qed.

Lemma bfmt_BF2 f :
  Forall P1 (fkids f) -> Forall P2 (fpv f) -> fmt_strs f = true ->
  forall acc s, BF SP2 acc -> BF SP2 (fst (bfmt env f acc s)).
Proof.
  induction f as [|p f IH]; intros HP HV Hs acc s Hb; [exact Hb|].
  unfold fmt_strs in Hs. pose proof Hs as Hs0. cbn [forallb] in Hs.
  apply andb_true_iff in Hs as [Hs1 Hs2]. fold (fmt_strs f) in Hs2.
  destruct p as [l|v x|v x|v z|v z|v x|x|x|z]; cbn [fkids] in HP.
  - apply tidyb_tidy in Hs1. cbn [bfmt]. apply IH; try assumption. apply BF_add; try assumption; pok.
  - apply tidyb_tidy in Hs1. cbn [bfmt]. apply IH; try assumption. apply BF_add; try assumption; pok.
  - apply tidyb_tidy in Hs1. cbn [bfmt]. apply IH; try assumption. apply BF_add; try assumption; pok.
  - pose proof (dec_of_Z_tidy z) as Hz. cbn [bfmt]. apply IH; try assumption. apply BF_add; try assumption; pok.
  - pose proof (dec_of_Z_tidy z) as Hz. cbn [bfmt]. apply IH; try assumption. apply BF_add; try assumption; pok.
  - inversion HP as [|? ? Px HPf]; subst. specialize (Px s). cbn [bfmt].
    destruct (build env x s) as [[e|] s1] eqn:Eb; cbn [fst GO] in Px.
    + destruct (nested_v_gd SP2 e Px) as [Q1 Q2]. pose proof (plain_v_tidy e (proj1 Px)) as Tp.
      destruct v; cbn [fpv] in HV.
      * apply IH; try assumption. exact (BF_err SP2 acc _ _ e false _ Hb Q1 Q2 Tp Px).
      * apply IH; try assumption. exact (BF_err SP2 acc _ _ e false _ Hb Q1 Q2 Tp Px).
      * apply IH; try assumption. exact (BF_err SP2 acc _ _ e false _ Hb Q1 Q2 Tp Px).
      * apply IH; try assumption. exact (BF_err SP2 acc _ _ e true _ Hb Q1 Q2 Tp Px).
      * inversion HV as [|? ? Vx HVf]; subst. specialize (Vx s). rewrite Eb in Vx. cbn [fst GD] in Vx.
        destruct (plus_v_BF e Px Vx) as (A & B & C).
        apply IH; try assumption. exact (BF_err SP2 acc _ _ e false _ Hb A B C Px).
    + assert (HV' : Forall P2 (fpv f)).
      { destruct v; cbn [fpv] in HV; try exact HV. now inversion HV. }
      apply IH; try assumption. cbv zeta. apply BF_nw.
      pose proof (nil_text_tidy v) as Tn. apply BF_add; try assumption; pok.
  - cbn [bfmt]. cbv zeta. cbn [fst].
    destruct (extras_ok (FXStr x :: f) true Hs0) as (A & B & C). destruct Hb as [H1 H2 H3 H4 H5].
    constructor; cbn [bf_pieces bf_plain bf_errs bf_wrapped]; try assumption.
    + apply Forall_app. split; [exact H1|]. constructor; [exact I|exact A].
    + apply Forall_app. split; [exact H2|]. constructor; [reflexivity|exact B].
    + apply tidy_app; [exact H3|]. apply tidy_app; [reflexivity|exact C].
  - cbn [bfmt]. cbv zeta. cbn [fst].
    destruct (extras_ok (FXSafeStr x :: f) true Hs0) as (A & B & C). destruct Hb as [H1 H2 H3 H4 H5].
    constructor; cbn [bf_pieces bf_plain bf_errs bf_wrapped]; try assumption.
    + apply Forall_app. split; [exact H1|]. constructor; [exact I|exact A].
    + apply Forall_app. split; [exact H2|]. constructor; [reflexivity|exact B].
    + apply tidy_app; [exact H3|]. apply tidy_app; [reflexivity|exact C].
  - cbn [bfmt]. cbv zeta. cbn [fst].
    destruct (extras_ok (FXInt z :: f) true Hs0) as (A & B & C). destruct Hb as [H1 H2 H3 H4 H5].
    constructor; cbn [bf_pieces bf_plain bf_errs bf_wrapped]; try assumption.
    + apply Forall_app. split; [exact H1|]. constructor; [exact I|exact A].
    + apply Forall_app. split; [exact H2|]. constructor; [reflexivity|exact B].
    + apply tidy_app; [exact H3|]. apply tidy_app; [reflexivity|exact C].
Qed.

(* ---- the detail-tidy part ---- *)
Definition BD (b : built_fmt) : Prop := Forall dt_ok (bf_errs b) /\ Forall dt_ok (bf_wrapped b).

Lemma BD_empty : BD bf_empty.
Proof. split; constructor. Qed.

Lemma bfmt_BD f : Forall P2 (fkids f) -> forall acc s, BD acc -> BD (fst (bfmt env f acc s)).
Proof.
  induction f as [|p f IH]; intros HP acc s Hb; [exact Hb|].
  destruct p as [l|v x|v x|v z|v z|v x|x|x|z]; cbn [fkids] in HP;
    try (cbn [bfmt]; apply IH; [exact HP|exact Hb]);
    try (cbn [bfmt]; cbv zeta; cbn [fst]; exact Hb).
  inversion HP as [|? ? Px HPf]; subst. specialize (Px s). cbn [bfmt].
  destruct (build env x s) as [[e|] s1]; cbn [fst GD] in Px.
  - apply IH; [exact HPf|]. destruct Hb as [A B]. split; cbn [bf_errs bf_wrapped].
    + apply Forall_app. split; [exact A|constructor; [exact Px|constructor]].
    + destruct v; try exact B. apply Forall_app. split; [exact B|constructor; [exact Px|constructor]].
  - apply IH; [exact HPf|]. cbv zeta. exact Hb.
Qed.

Lemma mk_wrap_D w e s : dtw w -> dt_ok e -> dt_ok (fst (mk_wrap w e s)).
Proof. intros A B. unfold mk_wrap, fresh_oid. cbn [fst dt_ok]. now split. Qed.

Lemma with_stack_D e s : dt_ok e -> dt_ok (fst (with_stack env e s)).
Proof. intro H. unfold with_stack, fresh_stack, mk_wrap, fresh_oid. cbn [fst dt_ok dtw]. now split. Qed.

Lemma add_sec_D es : forall e s, Forall dt_ok es -> dt_ok e -> dt_ok (fst (add_sec es e s)).
Proof.
  induction es as [|x es IH]; intros e s Hes He; cbn [add_sec]; [exact He|].
  inversion Hes; subst. unfold fresh_oid. apply IH; [assumption|]. cbn [dt_ok]. now split.
Qed.

Lemma handled_D e s : dt_ok e -> dt_ok (fst (handled_ e s)).
Proof. intro H. unfold handled_, fresh_oid. cbn [fst dt_ok]. exact H. Qed.

Lemma newf_D f s : (forall s', BD (fst (bfmt env f bf_empty s'))) -> dt_ok (fst (newf_ env f s)).
Proof.
  intro HB. unfold newf_. specialize (HB s).
  destruct (bfmt env f bf_empty s) as [b s1]. cbn [fst] in HB. destruct HB as [He Hw].
  set (msg := sprint_pieces (bf_pieces b)).
  assert (H0 : exists e0 s2,
             (match bf_wrapped b with
              | w :: _ => mk_wrap (WNewMsg msg) w s1
              | [] => mk_leaf (LLeafError msg) s1
              end) = (e0, s2) /\ dt_ok e0).
  { destruct (bf_wrapped b) as [|w ws].
    - eexists _, _. split; [reflexivity|exact I].
    - inversion Hw; subst. eexists _, _. split; [reflexivity|]. cbn [dt_ok dtw]. now split. }
  destruct H0 as (e0 & s2 & -> & G0).
  pose proof (add_sec_D (bf_errs b) e0 s2 He G0) as G1.
  destruct (add_sec (bf_errs b) e0 s2) as [e1 s3]. cbn [fst] in G1.
  now apply with_stack_D.
Qed.

Lemma wrapf_D e f b s : dt_ok e -> BD b -> dt_ok (fst (wrapf_ env e f b s)).
Proof.
  intros He [Hes Hw]. unfold wrapf_.
  assert (H0 : exists e0 s2,
             (if is_fmt_empty f then (e, s) else mk_wrap (WPrefix (sprint_pieces (bf_pieces b))) e s) = (e0, s2) /\
             dt_ok e0).
  { destruct (is_fmt_empty f).
    - eexists _, _. split; [reflexivity|exact He].
    - eexists _, _. split; [reflexivity|]. cbn [dt_ok dtw]. now split. }
  destruct H0 as (e0 & s2 & -> & G0).
  pose proof (add_sec_D (bf_errs b) e0 s2 Hes G0) as G1.
  destruct (add_sec (bf_errs b) e0 s2) as [e1 s3]. cbn [fst] in G1.
  now apply with_stack_D.
Qed.

Lemma on_GD r s k :
  P2 r -> (forall e s1, dt_ok e -> dt_ok (fst (k e s1))) -> GD (fst (on_ env r s k)).
Proof.
  intros H Hk. unfold on_. specialize (H s).
  destruct (build env r s) as [[e|] s1]; cbn [fst GD some_] in *; [now apply Hk|exact I].
Qed.

Lemma on_f_GD r f s k (Q : built_fmt -> Prop) :
  P2 r -> (forall s', Q (fst (bfmt env f bf_empty s'))) ->
  (forall e b s1, dt_ok e -> Q b -> dt_ok (fst (k e b s1))) ->
  GD (fst (on_f_ env r f s k)).
Proof.
  intros H HQ Hk. unfold on_f_. specialize (H s). destruct (build env r s) as [o s1].
  specialize (HQ s1). destruct (bfmt env f bf_empty s1) as [b s2]. cbn [fst] in *.
  destruct o as [e|]; cbn [fst GD some_] in *; [now apply Hk|exact I].
Qed.

Lemma blist_D rs : Forall P2 rs -> forall s, Forall dt_ok (fst (blist env rs s)).
Proof.
  induction 1 as [|x rs Hx Hrs IH]; intro s; [constructor|].
  cbn [blist]. specialize (Hx s). destruct (build env x s) as [o s1]. cbn [fst] in Hx.
  specialize (IH s1). destruct (blist env rs s1) as [es s2]. cbn [fst] in *.
  destruct o as [e|]; [constructor; assumption|exact IH].
Qed.

Lemma sentinel_D n : GD (sentinel n).
Proof.
  destruct n as [|p]; [exact I|].
  do 4 (try destruct p as [p|p|]); exact I.
Qed.

Let with_stack_gd' := with_stack_gd env SP2 HSP.
Let newf_gd' := newf_gd env SP2 HSP.
Let wrapf_gd' := wrapf_gd env SP2 HSP.

Ltac annot1 Pr bs w :=
  match goal with
  | |- GO SP2 (fst (build env ?r0 bs)) =>
    match r0 with context [?r] =>
      match type of r with recipe =>
        change (build env r0 bs) with (on_ env r bs (mk_wrap w));
        apply on_GO; [exact Pr|];
        let e := fresh "e" in let s1 := fresh "s1" in let He := fresh "He" in
        intros e s1 He; apply mk_wrap_gd; [|exact I|exact He]
      end
    end
  end.

Lemma step1 r : Forall P1 (kids r) -> Forall P2 (fpv (msgfmt r)) -> chk_str r = true -> P1 r.
Proof.
  intros IHk HV C3. unfold P1.
  destruct r; cbn [kids] in IHk; cbn [msgfmt] in HV; cbn [chk_str] in C3; intro bs;
    try pose proof (Forall_inv IHk) as Pr; try apply tidyb_tidy in C3.
  - (* RNil *) exact I.
  - (* RSentinel *) apply sentinel_gd.
  - (* RStdNew *) split; [exact C3|exact I].
  - (* RNew *)
    change (build env (RNew msg) bs) with
      (let '(e, s1) := mk_leaf (LLeafError (sprint_pieces [PSafe msg])) bs in some_ (with_stack env e s1)).
    unfold mk_leaf, fresh_oid. cbn [some_ fst GO]. apply with_stack_gd'.
    split; [now apply safe_msg_Qs|exact I].
  - (* RNewf *)
    rewrite build_newf. unfold some_. cbn [fst GO]. apply newf_gd'.
    intro s'. apply bfmt_BF2; try assumption. exact (BF_empty _).
  - (* RPkgNew *)
    change (fst (build env (RPkgNew msg) bs)) with
      (Some (Leaf (bs_oid bs) (LPkgFund msg (nth (bs_stk bs) (be_stacks env) [])))).
    split; [exact C3|apply HSP].
  - (* RErrno *) split; exact I.
  - (* RUnimpl *) split; [exact C3|exact I].
  - (* RAssertf *)
    rewrite build_assertf.
    assert (G : gd SP2 (fst (newf_ env f bs))).
    { apply newf_gd'. intro s'. apply bfmt_BF2; try assumption. exact (BF_empty _). }
    destruct (newf_ env f bs) as [e s1]. cbn [fst] in G. unfold some_. cbn [fst GO].
    apply mk_wrap_gd; [exact I|exact I|exact G].
  - (* RGrpcStatus *)
    change (build env (RGrpcStatus code msg) bs) with
      (if code =? 0 then (@None err, bs) else some_ (mk_leaf (LGrpcStatus code msg) bs)).
    destruct (code =? 0); [exact I|]. split; [exact C3|exact I].
  - (* RGogoStatus *)
    change (build env (RGogoStatus code msg) bs) with
      (if code =? 0 then (@None err, bs) else some_ (mk_leaf (LGogoStatus code msg) bs)).
    destruct (code =? 0); [exact I|]. split; [exact C3|exact I].
  - (* RTestError *) split; exact I.
  - (* RULeaf *) split; [exact C3|exact I].
  - (* RWrap *)
    rewrite build_wrap. apply on_GO; [exact Pr|]. intros e s1 He.
    destruct msg as [|x msg].
    + now apply with_stack_gd'.
    + unfold mk_wrap, fresh_oid. apply with_stack_gd'.
      apply wrap_gd; [now apply safe_msg_Qs|exact I|exact He].
  - (* RWrapf *)
    rewrite build_wrapf. apply (on_f_GO env SP2 r f bs _ (BF SP2)); [exact Pr| |].
    + intro s'. apply bfmt_BF2; try assumption; [exact (Forall_inv_tail IHk)|exact (BF_empty _)].
    + intros e b s1 He Hb. now apply wrapf_gd'.
  - (* RWithMessage *)
    change (build env (RWithMessage r msg) bs) with
      (on_ env r bs (mk_wrap (WPrefix (sprint_pieces [PSafe msg])))).
    apply on_GO; [exact Pr|]. intros e s1 He.
    apply mk_wrap_gd; [now apply safe_msg_Qs|exact I|exact He].
  - (* RWithMessagef *)
    rewrite build_withmessagef. apply (on_f_GO env SP2 r f bs _ (BF SP2)); [exact Pr| |].
    + intro s'. apply bfmt_BF2; try assumption; [exact (Forall_inv_tail IHk)|exact (BF_empty _)].
    + intros e b s1 He Hb. apply mk_wrap_gd; [now apply (msg_Qs SP2)|exact I|exact He].
  - (* RWithStack *)
    change (build env (RWithStack r) bs) with (on_ env r bs (with_stack env)).
    apply on_GO; [exact Pr|]. intros e s1 He. now apply with_stack_gd'.
  - (* RHint *) annot1 Pr bs (WHint h). exact I.
  - (* RHintf *)
    rewrite build_hintf. apply (on_f_GO env SP2 r f bs _ (fun _ => True)); [exact Pr|intro s'; exact I|].
    intros e b s1 He _. apply mk_wrap_gd; [exact I|exact I|exact He].
  - (* RDetailf *)
    rewrite build_detailf. apply (on_f_GO env SP2 r f bs _ (fun _ => True)); [exact Pr|intro s'; exact I|].
    intros e b s1 He _. apply mk_wrap_gd; [exact I|exact I|exact He].
  - (* RDetail *) annot1 Pr bs (WDetail d). exact I.
  - (* RIssueLink *) annot1 Pr bs (WIssueLink url det). exact I.
  - (* RTelemetry *) annot1 Pr bs (WTelemetry keys). exact I.
  - (* RDomain *) annot1 Pr bs (WDomain d). exact I.
  - (* RTags *)
    change (build env (RTags r tags) bs) with
      (on_ env r bs (fun e s1 => match tags with [] => (e, s1)
                                 | _ => mk_wrap (WContext (tags_of tags) None) e s1 end)).
    apply on_GO; [exact Pr|]. intros e s1 He.
    destruct tags; [exact He|]. apply mk_wrap_gd; [exact I|exact I|exact He].
  - (* RAssert *) annot1 Pr bs WAssert. exact I.
  - (* RMark *)
    rewrite build_mark. pose proof (Pr bs) as G1. destruct (build env r1 bs) as [o s1].
    pose proof (Forall_inv (Forall_inv_tail IHk) s1) as G2. destruct (build env r2 s1) as [ox s2].
    cbn [fst] in *. destruct o as [e|]; [|exact I]. destruct ox as [x|]; [|exact G1].
    unfold some_. cbn [fst GO]. apply mk_wrap_gd; [exact I|exact I|exact G1].
  - (* RSafeDetails *)
    rewrite build_safedetails. apply (on_f_GO env SP2 r f bs _ (fun _ => True)); [exact Pr|intro s'; exact I|].
    intros e b s1 He _. destruct (is_fmt_empty f); [exact He|].
    apply mk_wrap_gd; [exact I|exact I|exact He].
  - (* RHTTP *) annot1 Pr bs (WHTTP code). exact I.
  - (* RGrpc *) annot1 Pr bs (WGrpc code). exact I.
  - (* RSecondary *)
    rewrite build_secondary. pose proof (Pr bs) as G1. destruct (build env r1 bs) as [o s1].
    pose proof (Forall_inv (Forall_inv_tail IHk) s1) as G2. destruct (build env r2 s1) as [ox s2].
    cbn [fst] in *. destruct o as [e|]; [|exact I]. destruct ox as [x|]; [|exact G1].
    unfold fresh_oid. cbn [fst GO]. now apply second_gd.
  - (* RCombine *)
    rewrite build_combine. pose proof (Pr bs) as G1. destruct (build env r1 bs) as [o s1].
    pose proof (Forall_inv (Forall_inv_tail IHk) s1) as G2. destruct (build env r2 s1) as [ox s2].
    cbn [fst] in *. destruct o as [e|]; [|exact G2]. destruct ox as [x|]; [|exact G1].
    unfold fresh_oid. cbn [fst GO]. now apply second_gd.
  - (* RHandled *)
    change (build env (RHandled r) bs) with (on_ env r bs handled_).
    apply on_GO; [exact Pr|]. intros e s1 He. now apply handled_gd.
  - (* RHandledMsg *)
    change (build env (RHandledMsg r msg) bs) with
      (on_ env r bs (fun e s1 => let '(i, s2) := fresh_oid s1 in
                                 (Barrier i (sprint_pieces [PUnsafe msg]) e, s2))).
    apply on_GO; [exact Pr|]. intros e s1 He. unfold fresh_oid. cbn [fst].
    apply barrier_gd; [now apply unsafe_msg_Qs|exact He].
  - (* RHandledMsgf *)
    rewrite build_handledmsgf. apply (on_f_GO env SP2 r f bs _ (BF SP2)); [exact Pr| |].
    + intro s'. apply bfmt_BF2; try assumption; [exact (Forall_inv_tail IHk)|exact (BF_empty _)].
    + intros e b s1 He Hb. unfold fresh_oid. cbn [fst]. apply barrier_gd; [now apply (msg_Qs SP2)|exact He].
  - (* RHandledInDomain *)
    change (build env (RHandledInDomain r d) bs) with
      (on_ env r bs (fun e s1 => let '(b, s2) := handled_ e s1 in mk_wrap (WDomain d) b s2)).
    apply on_GO; [exact Pr|]. intros e s1 He.
    pose proof (handled_gd SP2 e s1 He) as G. destruct (handled_ e s1) as [b s2]. cbn [fst] in G.
    apply mk_wrap_gd; [exact I|exact I|exact G].
  - (* RHandledInDomainMsg *)
    change (build env (RHandledInDomainMsg r d msg) bs) with
      (on_ env r bs (fun e s1 => let '(i, s2) := fresh_oid s1 in
                                 mk_wrap (WDomain d) (Barrier i (sprint_pieces [PUnsafe msg]) e) s2)).
    apply on_GO; [exact Pr|]. intros e s1 He. unfold fresh_oid.
    apply mk_wrap_gd; [exact I|exact I|]. apply barrier_gd; [now apply unsafe_msg_Qs|exact He].
  - (* RHandleAssert *)
    change (build env (RHandleAssert r) bs) with
      (on_ env r bs (fun e s1 => let '(b, s2) := handled_ e s1 in
                                 let '(w, s3) := with_stack env b s2 in mk_wrap WAssert w s3)).
    apply on_GO; [exact Pr|]. intros e s1 He.
    pose proof (handled_gd SP2 e s1 He) as G. destruct (handled_ e s1) as [b s2]. cbn [fst] in G.
    pose proof (with_stack_gd' b s2 G) as G'. destruct (with_stack env b s2) as [w s3]. cbn [fst] in G'.
    apply mk_wrap_gd; [exact I|exact I|exact G'].
  - (* RNewAssertWrapped *)
    rewrite build_newassertwrapped. apply (on_f_GO env SP2 r f bs _ (BF SP2)); [exact Pr| |].
    + intro s'. apply bfmt_BF2; try assumption; [exact (Forall_inv_tail IHk)|exact (BF_empty _)].
    + intros e b0 s1 He Hb.
      pose proof (handled_gd SP2 e s1 He) as G. destruct (handled_ e s1) as [b s2]. cbn [fst] in G.
      pose proof (wrapf_gd' b f b0 s2 G Hb) as G'. destruct (wrapf_ env b f b0 s2) as [w s3]. cbn [fst] in G'.
      apply mk_wrap_gd; [exact I|exact I|exact G'].
  - (* RJoin *)
    rewrite build_join. pose proof (blist_gd env SP2 rs IHk bs) as G.
    destruct (blist env rs bs) as [es s1]. cbn [fst] in G.
    destruct es as [|e0 es]; [exact I|]. unfold fresh_oid, some_. cbn [fst GO].
    apply with_stack_gd'. now apply multi_gd.
  - (* RStdJoin *)
    rewrite build_stdjoin. pose proof (blist_gd env SP2 rs IHk bs) as G.
    destruct (blist env rs bs) as [es s1]. cbn [fst] in G.
    destruct es as [|e0 es]; [exact I|]. unfold fresh_oid. cbn [fst GO]. now apply multi_gd.
  - (* RFmtErrorf *)
    rewrite build_fmterrorf.
    assert (HB : BF SP2 (fst (bfmt env f bf_empty bs))) by (apply bfmt_BF2; try assumption; exact (BF_empty _)).
    destruct (bfmt env f bf_empty bs) as [b s1]. cbn [fst] in HB. unfold fresh_oid.
    pose proof (bf_3 _ _ HB) as Tp. pose proof (bf_5 _ _ HB) as Hw.
    destruct (bf_nw b) as [|[|n]].
    + split; [exact Tp|exact I].
    + destruct (bf_wrapped b) as [|w ws].
      * split; [exact Tp|exact I].
      * inversion Hw; subst. cbn [fst GO]. apply wrap_gd; [exact Tp|exact I|assumption].
    + cbn [fst GO]. now apply multi_gd.
  - (* RPkgMsg *) annot1 Pr bs (WPkgMsg msg). exact C3.
  - (* RPkgStack *)
    change (build env (RPkgStack r) bs) with
      (on_ env r bs (fun e s1 => let '(st, s2) := fresh_stack env s1 in mk_wrap (WPkgStack st) e s2)).
    apply on_GO; [exact Pr|]. intros e s1 He. unfold fresh_stack.
    apply mk_wrap_gd; [exact I|apply HSP|exact He].
  - (* RPathError *)
    apply andb_true_iff in C3 as [A B]. apply tidyb_tidy in A, B.
    annot1 Pr bs (WPathError op path). now split.
  - (* RLinkError *)
    apply andb_true_iff in C3 as [A C]. apply andb_true_iff in A as [A B]. apply tidyb_tidy in A, B, C.
    annot1 Pr bs (WLinkError op old new). repeat split; assumption.
  - (* RSyscallError *) annot1 Pr bs (WSyscallError sc). exact C3.
  - (* ROpError *)
    apply andb_true_iff in C3 as [A D]. apply andb_true_iff in A as [A C]. apply andb_true_iff in A as [A B].
    apply tidyb_tidy in A, B, C, D.
    annot1 Pr bs (WOpError op net src addr). repeat split; assumption.
  - (* RForeignErrno *)
    split; [|exact I]. apply tidy_ascii, errno_text_ascii.
  - (* RUWrap *) annot1 Pr bs (WUser u msg xs). exact C3.
  - (* RTransfer *)
    change (build env (RTransfer r ps) bs) with
      (on_ env r bs (fun e s1 => let '(e1, n1) := transfer ps e (bs_oid s1) in (e1, mkbs n1 (bs_stk s1)))).
    apply on_GO; [exact Pr|]. intros e s1 He.
    pose proof (transfer_gd SP2 ps e (bs_oid s1) He) as G.
    destruct (transfer ps e (bs_oid s1)) as [e1 n1]. exact G.
Qed.

Lemma Forall_fpv (P : recipe -> Prop) f : Forall P (fkids f) -> Forall P (fpv f).
Proof.
  intro H. rewrite Forall_forall in *. intros y Hy. apply H. now apply fpv_fkids.
Qed.

Lemma forallb_tidy l : forallb tidyb l = true -> Forall tidy l.
Proof.
  intro H. apply Forall_forall. intros x Hx. apply tidyb_tidy.
  rewrite forallb_forall in H. now apply H.
Qed.

Lemma forallb_tagq l : forallb tagb l = true -> Forall tagq l.
Proof.
  intro H. apply Forall_forall. intros [k v] Hx. rewrite forallb_forall in H. specialize (H _ Hx).
  unfold tagb in H. cbn [fst snd] in H. apply andb_true_iff in H as [A B]. apply tidyb_tidy in A.
  split; cbn [fst snd]; [exact A|]. destruct v; trivial; now apply tidyb_tidy.
Qed.

Ltac annotD Pr bs w :=
  match goal with
  | |- GD (fst (build env ?r0 bs)) =>
    match r0 with context [?r] =>
      match type of r with recipe =>
        change (build env r0 bs) with (on_ env r bs (mk_wrap w));
        apply on_GD; [exact Pr|];
        let e := fresh "e" in let s1 := fresh "s1" in let He := fresh "He" in
        intros e s1 He; apply mk_wrap_D; [|exact He]
      end
    end
  end.

Lemma step2 r : Forall P1 (kids r) -> Forall P2 (kids r) -> chk_str r = true -> chk_dt r = true -> P2 r.
Proof.
  intros IH1 IHk C3 C4. unfold P2.
  destruct r; cbn [kids] in IH1, IHk; cbn [chk_str] in C3; cbn [chk_dt] in C4; intro bs;
    try pose proof (Forall_inv IHk) as Pr; try pose proof (Forall_inv IH1) as Pg.
  - (* RNil *) exact I.
  - (* RSentinel *) apply sentinel_D.
  - (* RStdNew *) exact I.
  - (* RNew *)
    change (build env (RNew msg) bs) with
      (let '(e, s1) := mk_leaf (LLeafError (sprint_pieces [PSafe msg])) bs in some_ (with_stack env e s1)).
    unfold mk_leaf, fresh_oid. cbn [some_ fst GD]. apply with_stack_D. exact I.
  - (* RNewf *)
    rewrite build_newf. unfold some_. cbn [fst GD]. apply newf_D.
    intro s'. apply bfmt_BD; [exact IHk|exact BD_empty].
  - (* RPkgNew *) exact I.
  - (* RErrno *) exact I.
  - (* RUnimpl *)
    apply andb_true_iff in C4 as [A B]. apply tidyb_tidy in A, B. split; assumption.
  - (* RAssertf *)
    rewrite build_assertf.
    assert (G : dt_ok (fst (newf_ env f bs))).
    { apply newf_D. intro s'. apply bfmt_BD; [exact IHk|exact BD_empty]. }
    destruct (newf_ env f bs) as [e s1]. cbn [fst] in G. unfold some_. cbn [fst GD].
    apply mk_wrap_D; [exact I|exact G].
  - (* RGrpcStatus *)
    change (build env (RGrpcStatus code msg) bs) with
      (if code =? 0 then (@None err, bs) else some_ (mk_leaf (LGrpcStatus code msg) bs)).
    destruct (code =? 0); exact I.
  - (* RGogoStatus *)
    change (build env (RGogoStatus code msg) bs) with
      (if code =? 0 then (@None err, bs) else some_ (mk_leaf (LGogoStatus code msg) bs)).
    destruct (code =? 0); exact I.
  - (* RTestError *) exact I.
  - (* RULeaf *) now apply forallb_tidy.
  - (* RWrap *)
    rewrite build_wrap. apply on_GD; [exact Pr|]. intros e s1 He.
    destruct msg as [|x msg].
    + now apply with_stack_D.
    + unfold mk_wrap, fresh_oid. apply with_stack_D. cbn [dt_ok dtw]. now split.
  - (* RWrapf *)
    rewrite build_wrapf. apply (on_f_GD r f bs _ BD); [exact Pr| |].
    + intro s'. apply bfmt_BD; [exact (Forall_inv_tail IHk)|exact BD_empty].
    + intros e b s1 He Hb. now apply wrapf_D.
  - (* RWithMessage *) annotD Pr bs (WPrefix (sprint_pieces [PSafe msg])). exact I.
  - (* RWithMessagef *)
    rewrite build_withmessagef. apply (on_f_GD r f bs _ (fun _ => True)); [exact Pr|intro s'; exact I|].
    intros e b s1 He _. apply mk_wrap_D; [exact I|exact He].
  - (* RWithStack *)
    change (build env (RWithStack r) bs) with (on_ env r bs (with_stack env)).
    apply on_GD; [exact Pr|]. intros e s1 He. now apply with_stack_D.
  - (* RHint *) apply tidyb_tidy in C4. annotD Pr bs (WHint h). exact C4.
  - (* RHintf *)
    rewrite build_hintf. apply (on_f_GD r f bs _ (BF SP2)); [exact Pr| |].
    + intro s'. apply bfmt_BF2; [exact (Forall_inv_tail IH1)|apply Forall_fpv; exact (Forall_inv_tail IHk)|exact C4|exact (BF_empty _)].
    + intros e b s1 He Hb. apply mk_wrap_D; [exact (bf_3 _ _ Hb)|exact He].
  - (* RDetailf *)
    rewrite build_detailf. apply (on_f_GD r f bs _ (BF SP2)); [exact Pr| |].
    + intro s'. apply bfmt_BF2; [exact (Forall_inv_tail IH1)|apply Forall_fpv; exact (Forall_inv_tail IHk)|exact C4|exact (BF_empty _)].
    + intros e b s1 He Hb. apply mk_wrap_D; [exact (bf_3 _ _ Hb)|exact He].
  - (* RDetail *) apply tidyb_tidy in C4. annotD Pr bs (WDetail d). exact C4.
  - (* RIssueLink *)
    apply andb_true_iff in C4 as [A B]. apply tidyb_tidy in A, B.
    annotD Pr bs (WIssueLink url det). now split.
  - (* RTelemetry *) annotD Pr bs (WTelemetry keys). now apply forallb_tidy.
  - (* RDomain *) apply tidyb_tidy in C4. annotD Pr bs (WDomain d). exact C4.
  - (* RTags *)
    change (build env (RTags r tags) bs) with
      (on_ env r bs (fun e s1 => match tags with [] => (e, s1)
                                 | _ => mk_wrap (WContext (tags_of tags) None) e s1 end)).
    apply on_GD; [exact Pr|]. intros e s1 He.
    destruct tags as [|t0 tags]; [exact He|]. apply mk_wrap_D; [|exact He].
    cbn [dtw]. split; [|exact I]. apply tags_of_P. now apply forallb_tagq.
  - (* RAssert *) annotD Pr bs WAssert. exact I.
  - (* RMark *)
    rewrite build_mark. pose proof (Pr bs) as G1. destruct (build env r1 bs) as [o s1].
    pose proof (Forall_inv (Forall_inv_tail IHk) s1) as G2.
    pose proof (Forall_inv (Forall_inv_tail IH1) s1) as G2g.
    destruct (build env r2 s1) as [ox s2].
    cbn [fst] in *. destruct o as [e|]; [|exact I]. destruct ox as [x|]; [|exact G1].
    unfold some_. cbn [fst GD]. apply mk_wrap_D; [|exact G1].
    cbn [dtw]. apply markq_get_mark; [exact (proj1 G2g)|exact G2].
  - (* RSafeDetails *)
    rewrite build_safedetails. apply (on_f_GD r f bs _ (BF SP2)); [exact Pr| |].
    + intro s'. apply bfmt_BF2; [exact (Forall_inv_tail IH1)|apply Forall_fpv; exact (Forall_inv_tail IHk)|exact C4|exact (BF_empty _)].
    + intros e b s1 He Hb. destruct (is_fmt_empty f); [exact He|].
      apply mk_wrap_D; [|exact He]. cbn [dtw]. constructor; [|constructor].
      destruct (msg_Qs SP2 b Hb) as [T R]. apply redact_strip_tidy; [now apply R|exact T].
  - (* RHTTP *) annotD Pr bs (WHTTP code). exact I.
  - (* RGrpc *) annotD Pr bs (WGrpc code). exact I.
  - (* RSecondary *)
    rewrite build_secondary. pose proof (Pr bs) as G1. destruct (build env r1 bs) as [o s1].
    pose proof (Forall_inv (Forall_inv_tail IHk) s1) as G2. destruct (build env r2 s1) as [ox s2].
    cbn [fst] in *. destruct o as [e|]; [|exact I]. destruct ox as [x|]; [|exact G1].
    unfold fresh_oid. cbn [fst GD dt_ok]. now split.
  - (* RCombine *)
    rewrite build_combine. pose proof (Pr bs) as G1. destruct (build env r1 bs) as [o s1].
    pose proof (Forall_inv (Forall_inv_tail IHk) s1) as G2. destruct (build env r2 s1) as [ox s2].
    cbn [fst] in *. destruct o as [e|]; [|exact G2]. destruct ox as [x|]; [|exact G1].
    unfold fresh_oid. cbn [fst GD dt_ok]. now split.
  - (* RHandled *)
    change (build env (RHandled r) bs) with (on_ env r bs handled_).
    apply on_GD; [exact Pr|]. intros e s1 He. now apply handled_D.
  - (* RHandledMsg *)
    change (build env (RHandledMsg r msg) bs) with
      (on_ env r bs (fun e s1 => let '(i, s2) := fresh_oid s1 in
                                 (Barrier i (sprint_pieces [PUnsafe msg]) e, s2))).
    apply on_GD; [exact Pr|]. intros e s1 He. unfold fresh_oid. cbn [fst dt_ok]. exact He.
  - (* RHandledMsgf *)
    rewrite build_handledmsgf. apply (on_f_GD r f bs _ (fun _ => True)); [exact Pr|intro s'; exact I|].
    intros e b s1 He _. unfold fresh_oid. cbn [fst dt_ok]. exact He.
  - (* RHandledInDomain *)
    apply tidyb_tidy in C4.
    change (build env (RHandledInDomain r d) bs) with
      (on_ env r bs (fun e s1 => let '(b, s2) := handled_ e s1 in mk_wrap (WDomain d) b s2)).
    apply on_GD; [exact Pr|]. intros e s1 He.
    pose proof (handled_D e s1 He) as G. destruct (handled_ e s1) as [b s2]. cbn [fst] in G.
    apply mk_wrap_D; [exact C4|exact G].
  - (* RHandledInDomainMsg *)
    apply tidyb_tidy in C4.
    change (build env (RHandledInDomainMsg r d msg) bs) with
      (on_ env r bs (fun e s1 => let '(i, s2) := fresh_oid s1 in
                                 mk_wrap (WDomain d) (Barrier i (sprint_pieces [PUnsafe msg]) e) s2)).
    apply on_GD; [exact Pr|]. intros e s1 He. unfold fresh_oid.
    apply mk_wrap_D; [exact C4|exact He].
  - (* RHandleAssert *)
    change (build env (RHandleAssert r) bs) with
      (on_ env r bs (fun e s1 => let '(b, s2) := handled_ e s1 in
                                 let '(w, s3) := with_stack env b s2 in mk_wrap WAssert w s3)).
    apply on_GD; [exact Pr|]. intros e s1 He.
    pose proof (handled_D e s1 He) as G. destruct (handled_ e s1) as [b s2]. cbn [fst] in G.
    pose proof (with_stack_D b s2 G) as G'. destruct (with_stack env b s2) as [w s3]. cbn [fst] in G'.
    apply mk_wrap_D; [exact I|exact G'].
  - (* RNewAssertWrapped *)
    rewrite build_newassertwrapped. apply (on_f_GD r f bs _ BD); [exact Pr| |].
    + intro s'. apply bfmt_BD; [exact (Forall_inv_tail IHk)|exact BD_empty].
    + intros e b0 s1 He Hb.
      pose proof (handled_D e s1 He) as G. destruct (handled_ e s1) as [b s2]. cbn [fst] in G.
      pose proof (wrapf_D b f b0 s2 G Hb) as G'. destruct (wrapf_ env b f b0 s2) as [w s3]. cbn [fst] in G'.
      apply mk_wrap_D; [exact I|exact G'].
  - (* RJoin *)
    rewrite build_join. pose proof (blist_D rs IHk bs) as G.
    destruct (blist env rs bs) as [es s1]. cbn [fst] in G.
    destruct es as [|e0 es]; [exact I|]. unfold fresh_oid, some_. cbn [fst GD].
    apply with_stack_D. cbn [dt_ok]. now apply allP_Forall.
  - (* RStdJoin *)
    rewrite build_stdjoin. pose proof (blist_D rs IHk bs) as G.
    destruct (blist env rs bs) as [es s1]. cbn [fst] in G.
    destruct es as [|e0 es]; [exact I|]. unfold fresh_oid. cbn [fst GD dt_ok]. now apply allP_Forall.
  - (* RFmtErrorf *)
    rewrite build_fmterrorf.
    assert (HB : BD (fst (bfmt env f bf_empty bs))) by (apply bfmt_BD; [exact IHk|exact BD_empty]).
    destruct (bfmt env f bf_empty bs) as [b s1]. cbn [fst] in HB. unfold fresh_oid.
    destruct HB as [_ Hw].
    destruct (bf_nw b) as [|[|n]].
    + exact I.
    + destruct (bf_wrapped b) as [|w ws]; [exact I|].
      inversion Hw; subst. cbn [fst GD dt_ok dtw]. now split.
    + cbn [fst GD dt_ok]. now apply allP_Forall.
  - (* RPkgMsg *) annotD Pr bs (WPkgMsg msg). exact I.
  - (* RPkgStack *)
    change (build env (RPkgStack r) bs) with
      (on_ env r bs (fun e s1 => let '(st, s2) := fresh_stack env s1 in mk_wrap (WPkgStack st) e s2)).
    apply on_GD; [exact Pr|]. intros e s1 He. unfold fresh_stack. apply mk_wrap_D; [exact I|exact He].
  - (* RPathError *) annotD Pr bs (WPathError op path). exact I.
  - (* RLinkError *) annotD Pr bs (WLinkError op old new). exact I.
  - (* RSyscallError *) annotD Pr bs (WSyscallError sc). exact I.
  - (* ROpError *) annotD Pr bs (WOpError op net src addr). exact I.
  - (* RForeignErrno *) exact I.
  - (* RUWrap *) annotD Pr bs (WUser u msg xs). now apply forallb_tidy.
  - (* RTransfer *)
    change (build env (RTransfer r ps) bs) with
      (on_ env r bs (fun e s1 => let '(e1, n1) := transfer ps e (bs_oid s1) in (e1, mkbs n1 (bs_stk s1)))).
    unfold on_. pose proof (Pg bs) as G1. pose proof (Pr bs) as D1.
    destruct (build env r bs) as [[e|] s1]; cbn [fst GO GD some_] in *; [|exact I].
    pose proof (transfer_D ps e (bs_oid s1) G1 D1) as G.
    destruct (transfer ps e (bs_oid s1)) as [e1 n1]. exact G.
Qed.

(* ---- both parts, by induction on the recipe ---- *)
Lemma build_both : forall r, okr2 r -> P1 r /\ (dtr r = true -> P2 r).
Proof.
  induction r as [r IH] using recipe_kids_ind. intros Hok.
  destruct (okr2_inv r Hok) as (C3 & C5 & HK).
  assert (K1 : Forall P1 (kids r)).
  { rewrite Forall_forall in *. intros x Hx. exact (proj1 (IH x Hx (HK x Hx))). }
  assert (K2 : forall x, In x (kids r) -> dtr x = true -> P2 x).
  { rewrite Forall_forall in *. intros x Hx. exact (proj2 (IH x Hx (HK x Hx))). }
  split.
  - apply step1; [exact K1| |exact C3].
    unfold chk_pv in C5. pose proof (fmt_pvb_fpv _ C5) as HD.
    rewrite Forall_forall in *. intros y Hy. apply K2; [|now apply HD].
    apply msgfmt_kids. now apply fpv_fkids.
  - intro Hd. destruct (dtr_inv r Hd) as [C4 HKd].
    apply step2; [exact K1| |exact C3|exact C4].
    rewrite Forall_forall in *. intros x Hx. apply K2; [exact Hx|now apply HKd].
Qed.
End Api2.

(* ================================================================== *)
(* 7. the theorems                                                     *)
(* ================================================================== *)
Lemma stacks_nth2 env : stacks_ok' env -> forall n, SP2 (nth n (be_stacks env) []).
Proof.
  intros [H1 H2]. unfold stacks_ok in H1.
  assert (G : Forall SP2 (be_stacks env)).
  { revert H2. induction H1 as [|x l Hx Hl IH]; intro H2; [constructor|].
    inversion H2 as [|? ? Tx Tl]; subst. constructor; [|now apply IH].
    split; [exact Hx|]. unfold stack_q. unfold stack_ok in Hx.
    clear - Hx Tx. induction Hx as [|f r Hf Hr IHr]; [constructor|].
    inversion Tx as [|? ? [T1 T2] Tr]; subst. constructor; [now apply frame_q_of|now apply IHr]. }
  clear H1 H2. induction G as [|x l Hx Hl IH]; intros [|n]; cbn [nth];
    try (split; constructor; fail); [exact Hx|apply IH].
Qed.

(* every string stored in, and every head printed by, a built error is tidy;
   its stacks are marker-free *)
Theorem api_tidy_all env r s e s' :
  strs_ok' r = true -> stacks_ok' env -> build env r s = (Some e, s') -> hd_ok e /\ stk_ok e.
Proof.
  intros S K E. unfold strs_ok' in S. apply andb_true_iff in S as [S1 S2].
  pose proof (proj1 (build_both env (stacks_nth2 env K) r (conj S1 S2)) s) as G.
  rewrite E in G. cbn [fst GO] in G. destruct G as [A B]. split; [exact A|].
  unfold stk_ok. revert B. apply stkP_impl. intros st [C _]. exact C.
Qed.

(* ---- Goal 1: %v / %s ---- *)
Theorem api_short_wf_all env r s e s' :
  strs_ok' r = true -> stacks_ok' env -> build env r s = (Some e, s') -> sh_ok e.
Proof. intros S K E. apply hd_sh. exact (proj1 (api_tidy_all env r s e s' S K E)). Qed.

Corollary api_short_rendering_wf_all env r s e s' :
  strs_ok' r = true -> stacks_ok' env -> build env r s = (Some e, s') ->
  wf_red (fmt_red_short e) = true.
Proof. intros S K E. apply red_short_wf. exact (api_short_wf_all env r s e s' S K E). Qed.

(* ---- Goal 2: %+v ---- *)
Theorem api_verbose_wf_all env r s e s' :
  strs_ok' r = true -> stacks_ok' env -> build env r s = (Some e, s') -> vb_ok e /\ glue_top e.
Proof.
  intros S K E. destruct (api_tidy_all env r s e s' S K E) as [A B]. now apply hd_vb.
Qed.

Corollary api_verbose_rendering_wf_all env r s e s' :
  strs_ok' r = true -> stacks_ok' env -> build env r s = (Some e, s') ->
  wf_red (fmt_red_verbose e) = true.
Proof.
  intros S K E. destruct (api_verbose_wf_all env r s e s' S K E) as [V G]. now apply red_verbose_wf.
Qed.

Corollary api_short_lines_wf_all env r s e s' :
  strs_ok' r = true -> stacks_ok' env -> build env r s = (Some e, s') ->
  Forall (fun l => wf_red l = true) (split_on nl (fmt_red_short e)).
Proof. intros S K E. apply wf_red_lines. exact (api_short_rendering_wf_all env r s e s' S K E). Qed.

Corollary api_verbose_lines_wf_all env r s e s' :
  strs_ok' r = true -> stacks_ok' env -> build env r s = (Some e, s') ->
  Forall (fun l => wf_red l = true) (split_on nl (fmt_red_verbose e)).
Proof. intros S K E. apply wf_red_lines. exact (api_verbose_rendering_wf_all env r s e s' S K E). Qed.

(* the %v rendering of a built error is a valid raw piece; so is its %+v rendering
   when the recipe is detail-tidy: both can be spliced anywhere *)
Corollary api_verbose_rendering_raw env r s e s' :
  strs_ok' r = true -> dtr r = true -> stacks_ok' env -> build env r s = (Some e, s') ->
  rok (final_verbose (sem e) true) /\ tidy (final_verbose (sem e) true).
Proof.
  intros S D K E. unfold strs_ok' in S. apply andb_true_iff in S as [S1 S2].
  pose proof (build_both env (stacks_nth2 env K) r (conj S1 S2)) as [G1 G2].
  specialize (G1 s). specialize (G2 D s). rewrite E in G1, G2. cbn [fst GO GD] in G1, G2.
  destruct (q_verbose e true (proj1 G1) G2 (gd2_q e G1)) as [A B]. split; [now apply B|exact A].
Qed.

(* ---- the new condition contains the fragment of ApiWf ---- *)
Lemma fkids_fmt_all (P : recipe -> bool) f :
  Forall (fun x => P x = true) (fkids f) -> fmt_all P f = true.
Proof.
  induction f as [|p f IH]; [reflexivity|]. destruct p; cbn [fmt_all fkids]; try exact IH.
  intro H. inversion H; subst. apply andb_true_iff. split; [assumption|now apply IH].
Qed.

Lemma all_nodes_intro chk r :
  chk r = true -> Forall (fun x => all_nodes chk x = true) (kids r) -> all_nodes chk r = true.
Proof.
  intros H K.
  assert (L : forall rs, Forall (fun x => all_nodes chk x = true) rs -> forallb (all_nodes chk) rs = true).
  { intros rs E. apply forallb_forall. now apply Forall_forall. }
  destruct r; cbn [all_nodes kids] in *; rewrite H; cbn [andb];
    try reflexivity;
    try (now apply fkids_fmt_all);
    try (now apply L);
    try (exact (Forall_inv K));
    try (apply andb_true_iff; split; [exact (Forall_inv K)|];
         first [apply fkids_fmt_all; exact (Forall_inv_tail K) | exact (Forall_inv (Forall_inv_tail K))]).
Qed.

Lemma all_nodes_mono c1 c2 : (forall r, c1 r = true -> c2 r = true) ->
  forall r, all_nodes c1 r = true -> all_nodes c2 r = true.
Proof.
  intro Hc. induction r as [r IH] using recipe_kids_ind. intro H.
  destruct (all_nodes_kids c1 r H) as [A B]. apply all_nodes_intro; [now apply Hc|].
  rewrite Forall_forall in *. intros x Hx. apply IH; [exact Hx|now apply B].
Qed.

Lemma noplus_pvb f : fmt_noplus f = true -> fmt_pvb f = true.
Proof.
  unfold fmt_noplus, fmt_pvb. induction f as [|p f IH]; [reflexivity|]. cbn [forallb]. intro H.
  apply andb_true_iff in H as [H1 H2]. rewrite (IH H2), andb_true_r.
  destruct p; try reflexivity. destruct v; try reflexivity. discriminate H1.
Qed.

Theorem fragment_strs_ok' r : in_fragment r = true -> strs_ok r = true -> strs_ok' r = true.
Proof.
  intros F S. unfold strs_ok'. rewrite S. cbn [andb]. unfold pv_ok.
  revert F. unfold in_fragment, no_plusv. apply all_nodes_mono.
  intros x Hx. unfold chk_pv. destruct x; cbn [chk_np msgfmt] in *; try reflexivity; now apply noplus_pvb.
Qed.

(* ================================================================== *)
(* 8. examples, and what is not known to be necessary                  *)
(* ================================================================== *)
Lemma ex_env_ok' : stacks_ok' ex_env.
Proof.
  split; [exact (proj2 (proj2 ex_recipe_ok))|].
  unfold ex_env. cbn [be_stacks].
  repeat (constructor; try (split; vm_compute; reflexivity)).
Qed.

(* the recipe ApiWf left out: errors.Newf("%+v", errors.New("a")) *)
Example plusv_recipe_ok : strs_ok' plusv_recipe = true /\ in_fragment plusv_recipe = false.
Proof. split; vm_compute; reflexivity. Qed.

(* %+v arguments in the MIDDLE of message formats, nested twice; the arguments carry
   hints, details, an issue link, tags, telemetry keys, a domain, a mark, safe
   details, a secondary error and a barrier, with multi-line texts and non-ASCII
   (tidy) bytes *)
Definition ex_plus_arg : recipe :=
  RMark
    (RSafeDetails
      (RTags
        (RIssueLink
          (RHint
            (RWrapf (RNew ([105; 226; 120] ++ [nl] ++ [121]))
                    [FLit (lit "in "); FErr VPlusV (RSecondary (RHandled (RNew [97; nl; 98]))
                                                               (RDetail (RStdNew [98; 226; 130; 172]) [226; 130; 172; nl; 100]));
                     FLit (lit " <- "); FStr VS (m_start ++ [120] ++ m_end)])
            ([104; 226; 130; nl; nl; 105]))
          (lit "http://x/1") [226; 148; 128])
        [(lit "k", TVStr [226; 130; 172]); (lit "n", TVInt 7)])
      [FLit (lit "sd "); FStr VS [226; 130; 172]; FSafeInt VD 3])
    (RDomain (RTelemetry (RStdNew (lit "ref" ++ [nl] ++ lit "x")) [lit "key"; [226; 130; 172]]) (lit "dom")).

Definition ex_plus_recipe : recipe :=
  RHandled
    (RWrapf
      (RNewf [FLit (lit "top "); FErr VPlusV ex_plus_arg; FLit (lit " | "); FErr VV (RNew [226; 130; nl; 98]);
              FSafeStr VS [128; 185]])
      [FLit (lit "outer=("); FErr VPlusV (RJoin [RNew [97]; ex_plus_arg]); FLit (lit ")"); FInt VD 42]).

Example ex_plus_recipe_ok :
  strs_ok' ex_plus_recipe = true /\ in_fragment ex_plus_recipe = false.
Proof. split; vm_compute; reflexivity. Qed.

Example ex_plus_recipe_wf :
  exists e s', build ex_env ex_plus_recipe bs_init = (Some e, s') /\
    sh_ok e /\ vb_ok e /\ glue_top e /\
    wf_red (fmt_red_short e) = true /\ wf_red (fmt_red_verbose e) = true /\
    Forall (fun l => wf_red l = true) (split_on nl (fmt_red_verbose e)).
Proof.
  destruct ex_plus_recipe_ok as (S & _). pose proof ex_env_ok' as K.
  destruct (build ex_env ex_plus_recipe bs_init) as [[e|] s'] eqn:E; [|vm_compute in E; discriminate].
  exists e, s'. split; [reflexivity|].
  split; [exact (api_short_wf_all _ _ _ _ _ S K E)|].
  destruct (api_verbose_wf_all _ _ _ _ _ S K E) as [V G]. split; [exact V|]. split; [exact G|].
  split; [exact (api_short_rendering_wf_all _ _ _ _ _ S K E)|].
  split; [exact (api_verbose_rendering_wf_all _ _ _ _ _ S K E)|exact (api_verbose_lines_wf_all _ _ _ _ _ S K E)].
Qed.

(* the same through the network INSIDE a %+v argument: the argument is encoded and
   decoded by a process that knows neither withHint nor leafError nor withSecondaryError
   (opaque stand-ins that print their wire details), then by one that knows everything *)
Definition ex_plus_transfer_recipe : recipe :=
  RNewf [FLit (lit "rpc: "); FErr VPlusV (RTransfer ex_plus_arg [mkproc [k_withHint; k_leafError; k_withSecondary]; all_knowing]);
         FLit (lit " ; "); FErr VPlusV (RTransfer (RULeaf ULSafeDet (lit "u") 3 [[226; 130; 172]; lit "x"]) [mkproc []])].

Example ex_plus_transfer_recipe_wf :
  strs_ok' ex_plus_transfer_recipe = true /\
  exists e s', build ex_env ex_plus_transfer_recipe bs_init = (Some e, s') /\
    wf_red (fmt_red_short e) = true /\ wf_red (fmt_red_verbose e) = true.
Proof.
  assert (S : strs_ok' ex_plus_transfer_recipe = true) by (vm_compute; reflexivity).
  split; [exact S|]. pose proof ex_env_ok' as K.
  destruct (build ex_env ex_plus_transfer_recipe bs_init) as [[e|] s'] eqn:E; [|vm_compute in E; discriminate].
  exists e, s'. split; [reflexivity|].
  split; [exact (api_short_rendering_wf_all _ _ _ _ _ S K E)|exact (api_verbose_rendering_wf_all _ _ _ _ _ S K E)].
Qed.

(* ---- the strengthenings are what the invariant needs; no witness of necessity ---- *)
(* frames without marker runes but NOT tidy (a truncated marker prefix at the end of
   a function name / of a file name), hints, details and an issue link with
   truncated prefixes before newlines inside %+v arguments of a message format (one
   of them through a network transfer): [strs_ok'] and [stacks_ok'] fail, [strs_ok]
   and [stacks_ok] hold, and the renderings are nevertheless well-formed *)
Definition untidy_env : benv :=
  mkbenv [[mkframe 1 [102; 226] (lit "f.go" ++ [226; 128]) 1]; [mkframe 2 [103; 226; 128] [226] 2];
          [mkframe 3 [103; 226; 128] [226] 2]; [mkframe 4 [103; 226; 128] [226] 2]].

Definition hostile_hint : recipe := RHint (RStdNew []) [226; nl; 98].
Definition hostile_details : recipe :=
  RIssueLink (RDetail (RHint (RNew [97]) [226; 128; nl; 185; nl; 226]) [226; 128]) [226; nl; 128; 185] [226; 128].

Definition untidy_recipe : recipe :=
  RWrapf (RNewf [FLit [nl]; FErr VPlusV hostile_details; FErr VPlusV hostile_hint; FSafeStr VS [128; 185; 97]])
         [FErr VV (RNewf [FErr VPlusV (RTransfer hostile_hint [mkproc [k_withHint; k_leafError]])]);
          FStr VS [128; 186; 97]].

Example untidy_still_wf :
  strs_ok untidy_recipe = true /\ strs_ok' untidy_recipe = false /\
  stacks_ok untidy_env /\ ~ stacks_ok' untidy_env /\
  exists e s', build untidy_env untidy_recipe bs_init = (Some e, s') /\
    wf_red (fmt_red_short e) = true /\ wf_red (fmt_red_verbose e) = true.
Proof.
  split; [vm_compute; reflexivity|]. split; [vm_compute; reflexivity|].
  split; [unfold stacks_ok, untidy_env; cbn [be_stacks];
          repeat (constructor; try (split; vm_compute; reflexivity))|].
  split.
  - intros [_ H]. unfold untidy_env in H. cbn [be_stacks] in H.
    inversion H as [|? ? H1 _]. inversion H1 as [|? ? [T _] _]. vm_compute in T. discriminate.
  - eexists. eexists. split; [vm_compute; reflexivity|]. split; vm_compute; reflexivity.
Qed.

(* ================================================================== *)
(* Summary                                                             *)
(* ==================================================================

   PROVED (no axiom), for every environment, recipe and builder state:

   api_short_wf_all            strs_ok' r -> stacks_ok' env -> build env r s = (Some e, s') -> sh_ok e
   api_short_rendering_wf_all    ... -> wf_red (fmt_red_short e) = true          (+ _lines_wf_all)
   api_verbose_wf_all          strs_ok' r -> stacks_ok' env -> build ... -> vb_ok e /\ glue_top e
   api_verbose_rendering_wf_all  ... -> wf_red (fmt_red_verbose e) = true        (+ _lines_wf_all)
   api_tidy_all                  ... -> hd_ok e /\ stk_ok e   (the invariant of ApiWf holds for the built error)
   api_verbose_rendering_raw   the %+v rendering of a detail-tidy recipe is tidy and a valid raw piece
   fragment_strs_ok'           in_fragment r -> strs_ok r -> strs_ok' r   (the fragment of ApiWf is contained)

   There is NO [in_fragment] / [no_plusv] hypothesis and no structural restriction: error
   arguments may be printed with %+v anywhere in Newf / AssertionFailedf / Wrapf /
   WithMessagef / HandledWithMessagef / NewAssertionErrorWithWrappedErrf / fmt.Errorf, in
   any position, nested to any depth, with RTransfer nodes (arbitrary processes, opaque
   stand-ins included) below, inside and above the %+v arguments.

   - [strs_ok' r] = [strs_ok r && pv_ok r] (decidable; a condition on STRINGS only).
     [pv_ok r]: at every node that builds a message, every error argument y printed with
     %+v is "detail-tidy" ([dtr y]): every string of y that is printed behind p.Detail(),
     or reported as a safe detail, is tidy ([tidyb], the condition [strs_ok] already puts
     on message strings): hints, details, issue links (url and detail), telemetry keys,
     domains, tag keys and string values, the url / detail of UnimplementedError, the
     literals and string arguments of the formats of WithHintf / WithDetailf /
     WithSafeDetails, and the payload strings (SafeDetails) of the harness types.
     These strings become part of a stored MESSAGE through the %+v rendering (the safe
     details: through the wire details an opaque stand-in prints after a network hop).
     Error arguments printed with %v / %s / %w, and %+v arguments of WithHintf /
     WithDetailf / WithSafeDetails outside a %+v argument of a message, are unconstrained
     as in ApiWf.
   - [stacks_ok' env]: [stacks_ok env] (no marker rune in a frame) AND the function and file
     names of the frames are tidy (stack traces are written raw into the %+v rendering,
     which becomes part of a message).  This is STRONGER than the [stacks_ok env] of the
     intended statement.  [stacks_ok] itself is needed already for [sh_ok]
     (ApiWf.api_short_plusv_needs_stacks).

   Method: the invariant of ApiWf ("every stored string is tidy and a valid raw piece")
   is extended to the %+v rendering: sections 1-2 follow [Qs] through the engine in BOTH
   modes (buffer, head buffer, heads, details, stack traces, formatEntries), section 3
   gives  hd_ok e -> dt_ok e -> stkP stack_q e -> Qs red (final_verbose (sem e) red),  so that a
   %+v argument is a tidy valid raw piece like any other and the proof of ApiWf goes
   through ([build_both]); section 4b carries [dt_ok] through encode / decode ([edt]: type
   names, reportable payloads = SafeDetails() of every node and of whole chains, payload
   strings).  New facts on strings: strconv.Quote never leaves a truncated marker prefix
   ([go_quote_tidy], for ARBITRARY bytes), Redact().StripMarkers() keeps tidy strings tidy
   ([redact_strip_tidy]).

   NO COUNTER-EXAMPLE was found; in particular none for the two strengthenings (tidy
   detail strings inside %+v arguments, tidy frames): they are what the invariant needs.
   [untidy_still_wf] is a recipe / environment that violates both (and satisfies
   [strs_ok], [stacks_ok]) whose renderings are well-formed.

   LEFT UNPROVED: the statement with [strs_ok] and [stacks_ok] alone, i.e. %+v arguments
   of message formats that (a) carry non-tidy hints / details / links / keys / domains /
   tags / harness payloads, or (b) carry stack traces whose frame names end with a
   truncated marker prefix (or have one before ':' / a newline).  There the stored message
   is not tidy (e.g. a line "<E2>" of an escaped hint), and an invariant weaker than
   "tidy" (first and last non-empty lines clean, inner lines only closed) would have to
   be carried through the redact printer and through Error() texts cut by extractPrefix. *)
