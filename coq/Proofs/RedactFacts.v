(* Facts about the model of cockroachdb/redact (C03, C06, C12): what Redact()
   hides, what a printed argument looks like.  The byte-level statements below
   are for strings without the byte E2 (no marker can start inside them); the
   general hostile-byte case is covered by the correspondence stream. *)
From Errv Require Import Base.Str Redact.Markers Redact.Buffer Proofs.StrFacts.
From Coq Require Import Lia.

Definition no_e2 (s : str) : bool := forallb (fun b => negb (b =? 226)) s.
Definition no_nl (s : str) : bool := forallb (fun b => negb (b =? nl)) s.
Definition ascii (s : str) : bool := forallb (fun b => b <? 128) s.

Lemma ascii_no_e2 s : ascii s = true -> no_e2 s = true.
Proof.
  unfold ascii, no_e2. rewrite !forallb_forall. intros H b Hb. specialize (H b Hb).
  apply N.ltb_lt in H. apply negb_true_iff. apply N.eqb_neq. lia.
Qed.

(* ---- tokenisation ---- *)
Lemma tokenize_cons_plain a t : (a =? 226) = false -> tokenize (a :: t) = TB a :: tokenize t.
Proof. intro H. cbn [tokenize]. rewrite H. destruct t as [|b [|c r]]; reflexivity. Qed.

Lemma tokenize_plain_app s r : no_e2 s = true -> tokenize (s ++ r) = List.map TB s ++ tokenize r.
Proof.
  induction s as [|a s IH]; cbn [no_e2 forallb]; intro H; [reflexivity|].
  apply andb_true_iff in H as [H1 H2]. apply negb_true_iff in H1.
  change ((a :: s) ++ r) with (a :: (s ++ r)). rewrite tokenize_cons_plain by assumption.
  cbn. now rewrite IH.
Qed.

Lemma tokenize_start r : tokenize (m_start ++ r) = TOpen :: tokenize r.
Proof. reflexivity. Qed.
Lemma tokenize_end r : tokenize (m_end ++ r) = TClose :: tokenize r.
Proof. reflexivity. Qed.

Lemma untok_app a b : untok (a ++ b) = untok a ++ untok b.
Proof. unfold untok. apply flat_map_app. Qed.

Lemma untok_TB s : untok (List.map TB s) = s.
Proof. unfold untok. induction s as [|a s IH]; cbn; [reflexivity|]. now rewrite IH. Qed.

(* ---- Redact(): everything between an opening and its closing marker disappears ---- *)
Lemma redact_toks_region bs rest p :
  redact_toks (List.map TB bs ++ TClose :: rest) (Some p) =
  TOpen :: TB 195 :: TB 151 :: TClose :: redact_toks rest None.
Proof.
  revert p; induction bs as [|b bs IH]; intro p; cbn; [reflexivity|]. apply IH.
Qed.

Lemma redact_region bs rest :
  no_e2 bs = true ->
  redact (m_start ++ bs ++ m_end ++ rest) = m_redacted ++ redact rest.
Proof.
  intro H. unfold redact. rewrite tokenize_start, tokenize_plain_app by assumption.
  rewrite tokenize_end. cbn [redact_toks]. rewrite redact_toks_region.
  reflexivity.
Qed.

(* text outside markers is kept by Redact() *)
Lemma redact_toks_plain bs rest :
  redact_toks (List.map TB bs ++ rest) None = List.map TB bs ++ redact_toks rest None.
Proof. induction bs as [|b bs IH]; cbn; [reflexivity|]. now rewrite IH. Qed.

Lemma redact_plain s rest : no_e2 s = true -> redact (s ++ rest) = s ++ redact rest.
Proof.
  intro H. unfold redact. rewrite tokenize_plain_app by assumption.
  rewrite redact_toks_plain, untok_app, untok_TB. reflexivity.
Qed.

Lemma redact_nil : redact [] = [].
Proof. reflexivity. Qed.

Lemma strip_plain s rest : no_e2 s = true -> strip_markers (s ++ rest) = s ++ strip_markers rest.
Proof.
  intro H. unfold strip_markers. rewrite tokenize_plain_app by assumption.
  rewrite filter_app, untok_app. f_equal.
  clear H. unfold untok. induction s as [|a s IH]; cbn; [reflexivity|]. now rewrite IH.
Qed.

Lemma strip_start r : strip_markers (m_start ++ r) = strip_markers r.
Proof. reflexivity. Qed.
Lemma strip_end r : strip_markers (m_end ++ r) = strip_markers r.
Proof. reflexivity. Qed.

(* ---- the escaping loop on strings without E2 and without newline: a copy ---- *)
Lemma escape_loop_copy s acc fuel brk :
  no_e2 s = true -> no_nl s = true -> (List.length s <= fuel)%nat ->
  escape_loop fuel s acc brk = rev s ++ acc.
Proof.
  revert acc fuel; induction s as [|a s IH]; intros acc fuel H1 H2 Hf.
  - destruct fuel; reflexivity.
  - destruct fuel as [|f]; [cbn in Hf; lia|].
    cbn in H1, H2. apply andb_true_iff in H1 as [Ha H1]. apply andb_true_iff in H2 as [Hn H2].
    apply negb_true_iff in Ha, Hn.
    cbn [escape_loop]. rewrite Hn, andb_false_r.
    assert (Hstep : escape_loop f s (a :: acc) brk = rev (a :: s) ++ acc).
    { rewrite IH; [|assumption|assumption|cbn in Hf; lia]. cbn. now rewrite <- app_assoc. }
    destruct s as [|b [|c r]]; try exact Hstep.
    rewrite Ha. cbn [andb]. exact Hstep.
Qed.

Lemma last_rune_ascii r : ascii r = true -> last_rune_invalid_rev r = false.
Proof.
  destruct r as [|b0 r1]; [reflexivity|]. cbn. intro H. apply andb_true_iff in H as [H _]. now rewrite H.
Qed.

Lemma ascii_app a b : ascii (a ++ b) = ascii a && ascii b.
Proof. unfold ascii. apply forallb_app. Qed.
Lemma ascii_rev a : ascii (rev a) = ascii a.
Proof.
  unfold ascii. induction a as [|x a IH]; cbn; [reflexivity|].
  rewrite forallb_app. cbn. rewrite IH. now rewrite andb_true_r, andb_comm.
Qed.


(* an ASCII argument without newline, printed as an unsafe value, is the
   argument between markers *)
Lemma rev_nonempty_ascii s : s <> [] -> ascii s = true -> exists b r, rev s = b :: r /\ (b <? 128) = true.
Proof.
  intros Hne Ha. destruct (rev s) as [|b r] eqn:E.
  - exfalso. apply Hne. apply (f_equal (@rev N)) in E. now rewrite rev_involutive in E.
  - exists b, r. split; [reflexivity|]. assert (Hb : ascii (b :: r) = true) by (rewrite <- E, ascii_rev; assumption).
    cbn in Hb. now apply andb_true_iff in Hb as [Hb _].
Qed.
Lemma sprint_unsafe_ascii s :
  s <> [] -> ascii s = true -> no_nl s = true ->
  sprint_pieces [PUnsafe s] = m_start ++ s ++ m_end.
Proof.
  intros Hne Ha Hn. assert (He := ascii_no_e2 s Ha).
  destruct (rev_nonempty_ascii s Hne Ha) as [b0 [r1 [Er Hb]]].
  unfold sprint_pieces, print_pieces. cbn [fold_left].
  change (set_mode buf_empty SafeEscaped) with (mkbuf [] [] SafeEscaped false).
  unfold print_piece. cbn [bmode].
  change (set_mode (mkbuf [] [] SafeEscaped false) UnsafeEscaped) with (mkbuf [] [] UnsafeEscaped false).
  change (buf_write (mkbuf [] [] UnsafeEscaped false) s) with (mkbuf m_start s UnsafeEscaped true).
  unfold set_mode. cbn [bmode omode_eqb bopen]. unfold escape_to_end. cbn [bvalid bpend bmode bopen].
  unfold escape_from. rewrite ?frev_eq. rewrite escape_loop_copy by (try assumption; lia).
  assert (Hl : last_rune_invalid_rev (rev s ++ rev m_start) = false).
  { rewrite Er. cbn [app last_rune_invalid_rev]. now rewrite Hb. }
  rewrite Hl. rewrite <- rev_app_distr, rev_involutive.
  unfold end_redactable, whole. cbn [bvalid bpend bmode bopen]. rewrite app_nil_r.
  assert (Hnone : drop_suffix m_start (m_start ++ s) = None).
  { unfold drop_suffix. rewrite ?frev_eq. rewrite rev_app_distr, Er. change (rev m_start) with [185;128;226].
    cbn [app drop_prefix]. destruct (N.eqb 185 b0) eqn:E1; [apply N.eqb_eq in E1; apply N.ltb_lt in Hb; lia|reflexivity]. }
  rewrite Hnone.
  destruct (m_start ++ s) eqn:E0; [discriminate|]. rewrite <- E0. clear E0.
  unfold validate_all, whole. cbn [bvalid bpend bmode bopen]. rewrite app_nil_r.
  unfold buf_take, buf_finalize. cbn [bmode bopen]. unfold escape_to_end, escape_from. rewrite ?frev_eq. cbn [bvalid bpend bmode bopen].
  cbn [List.length escape_loop rev app].
  replace (last_rune_invalid_rev (rev ((m_start ++ s) ++ m_end))) with false
    by (rewrite rev_app_distr; reflexivity).
  rewrite rev_involutive. unfold whole. cbn [bvalid bpend]. now rewrite app_nil_r, <- app_assoc.
Qed.


(* ... and Redact() hides it entirely *)
Lemma redact_unsafe_ascii s :
  s <> [] -> ascii s = true -> no_nl s = true ->
  redact (sprint_pieces [PUnsafe s]) = m_redacted.
Proof.
  intros H1 H2 H3. rewrite sprint_unsafe_ascii by assumption.
  replace (m_start ++ s ++ m_end) with (m_start ++ s ++ m_end ++ []) by now rewrite app_nil_r.
  rewrite redact_region by now apply ascii_no_e2. now rewrite redact_nil, app_nil_r.
Qed.

(* without newline breaking (safe mode) newlines are copied too *)
Lemma escape_loop_copy_nobrk s acc fuel :
  no_e2 s = true -> (List.length s <= fuel)%nat ->
  escape_loop fuel s acc false = rev s ++ acc.
Proof.
  revert acc fuel; induction s as [|a s IH]; intros acc fuel H1 Hf.
  - destruct fuel; reflexivity.
  - destruct fuel as [|f]; [cbn in Hf; lia|].
    cbn in H1. apply andb_true_iff in H1 as [Ha H1]. apply negb_true_iff in Ha.
    cbn [escape_loop andb].
    assert (Hstep : escape_loop f s (a :: acc) false = rev (a :: s) ++ acc).
    { rewrite IH; [|assumption|cbn in Hf; lia]. cbn. now rewrite <- app_assoc. }
    destruct s as [|b [|c r]]; try exact Hstep.
    rewrite Ha. cbn [andb]. exact Hstep.
Qed.

(* an ASCII argument printed as a safe value (redact.Safe, a constant format
   string) is the argument itself, outside any marker, and Redact() keeps it *)
Lemma sprint_safe_ascii s : ascii s = true -> sprint_pieces [PSafe s] = s.
Proof.
  intro Ha. assert (He := ascii_no_e2 s Ha).
  unfold sprint_pieces, print_pieces. cbn [fold_left].
  change (set_mode buf_empty SafeEscaped) with (mkbuf [] [] SafeEscaped false).
  unfold print_piece. cbn [bmode].
  change (set_mode (mkbuf [] [] SafeEscaped false) SafeEscaped) with (mkbuf [] [] SafeEscaped false).
  change (buf_write (mkbuf [] [] SafeEscaped false) s) with (mkbuf [] s SafeEscaped false).
  change (set_mode (mkbuf [] s SafeEscaped false) SafeEscaped) with (mkbuf [] s SafeEscaped false).
  unfold buf_take, buf_finalize. cbn [bmode bopen]. unfold escape_to_end, escape_from. rewrite ?frev_eq. cbn [bvalid bpend bmode bopen].
  rewrite escape_loop_copy_nobrk by (try assumption; lia).
  cbn [rev app]. rewrite !app_nil_r.
  rewrite last_rune_ascii by now rewrite ascii_rev.
  rewrite rev_involutive. unfold whole. cbn [bvalid bpend]. now rewrite app_nil_r.
Qed.

Lemma redact_safe_ascii s : ascii s = true -> redact (sprint_pieces [PSafe s]) = s.
Proof.
  intro Ha. rewrite sprint_safe_ascii by assumption.
  replace s with (s ++ []) at 1 by now rewrite app_nil_r.
  rewrite redact_plain by now apply ascii_no_e2. now rewrite redact_nil, app_nil_r.
Qed.

(* stripping the markers of a printed unsafe ASCII argument gives the argument back *)
Lemma strip_unsafe_ascii s :
  s <> [] -> ascii s = true -> no_nl s = true -> strip_markers (sprint_pieces [PUnsafe s]) = s.
Proof.
  intros H1 H2 H3. rewrite sprint_unsafe_ascii by assumption.
  rewrite strip_start. replace (s ++ m_end) with (s ++ m_end ++ []) by now rewrite app_nil_r.
  rewrite strip_plain by now apply ascii_no_e2. rewrite strip_end. cbn. now rewrite app_nil_r.
Qed.

(* markers balanced, never nested, closed at every newline and at the end *)
Fixpoint wf_toks (l : list tok) (open : bool) : bool :=
  match l with
  | [] => negb open
  | TOpen :: r => negb open && wf_toks r true
  | TClose :: r => open && wf_toks r false
  | TB b :: r => (if b =? nl then negb open else true) && wf_toks r open
  end.
Definition wf_red (s : str) : bool := wf_toks (tokenize s) false.

Lemma wf_toks_plain bs rest o :
  no_nl bs = true -> wf_toks (List.map TB bs ++ rest) o = wf_toks rest o.
Proof.
  induction bs as [|b bs IH]; cbn [no_nl forallb]; intro H; [reflexivity|].
  apply andb_true_iff in H as [H1 H2]. apply negb_true_iff in H1.
  cbn. rewrite H1. cbn. now apply IH.
Qed.

Lemma wf_unsafe_ascii s :
  s <> [] -> ascii s = true -> no_nl s = true -> wf_red (sprint_pieces [PUnsafe s]) = true.
Proof.
  intros H1 H2 H3. rewrite sprint_unsafe_ascii by assumption. unfold wf_red.
  rewrite tokenize_start. replace (s ++ m_end) with (s ++ m_end ++ []) by now rewrite app_nil_r.
  rewrite tokenize_plain_app by now apply ascii_no_e2. rewrite tokenize_end.
  cbn [wf_toks negb andb]. rewrite wf_toks_plain by assumption. reflexivity.
Qed.
