(* Erasing object identities.  Decoded errors get fresh identities, and a
   context layer decoded from a message without redacted tags recomputes them on
   demand ([WContext tags None]); [erase] forgets both differences.  Everything
   the library renders, encodes or reports is independent of them
   (Proofs/EraseFacts.v), so two errors with the same [erase] are
   indistinguishable except by pointer comparison. *)
From Errv Require Import Base.Str Redact.Markers Redact.Buffer Model.Err Model.Sem Model.Details.

Fixpoint erase (e : err) : err :=
  match e with
  | Leaf _ k => Leaf 1%positive k
  | Wrap _ (WContext tags None) c => Wrap 1%positive (WContext tags (Some (redact_tags tags))) (erase c)
  | Wrap _ w c => Wrap 1%positive w (erase c)
  | Second _ c s => Second 1%positive (erase c) (erase s)
  | Barrier _ m h => Barrier 1%positive m (erase h)
  | Multi _ k cs => Multi 1%positive k (List.map erase cs)
  | OLeaf _ m d cs => OLeaf 1%positive m d (List.map erase cs)
  | OWrap _ p d mt c => OWrap 1%positive p d mt (erase c)
  end.
