(* The runner evaluates Is / IsAny with the marks of the visible nodes computed
   once; these lemmas show it computes Marks.is_ / is_any. *)
From Errv Require Import Base.Str Model.Err Model.Sem Model.Marks Model.Report Model.Run.

Lemma existsb_flat_map {A B} (f : B -> bool) (g : A -> list B) l :
  existsb f (flat_map g l) = existsb (fun x => existsb f (g x)) l.
Proof.
  induction l as [|x l IH]; cbn; [reflexivity|].
  now rewrite existsb_app, IH.
Qed.

Lemma existsb_ext' {A} (f g : A -> bool) l :
  (forall x, In x l -> f x = g x) -> existsb f l = existsb g l.
Proof.
  induction l as [|x l IH]; cbn; intros H; [reflexivity|].
  rewrite (H x) by now left. f_equal. apply IH. intros y Hy. apply H. now right.
Qed.

Definition err_ind' (P : err -> Prop)
  (HL : forall i k, P (Leaf i k))
  (HW : forall i w c, P c -> P (Wrap i w c))
  (HS : forall i c s, P c -> P s -> P (Second i c s))
  (HB : forall i m x, P x -> P (Barrier i m x))
  (HM : forall i k cs, Forall P cs -> P (Multi i k cs))
  (HOL : forall i m d cs, Forall P cs -> P (OLeaf i m d cs))
  (HOW : forall i p d mt c, P c -> P (OWrap i p d mt c)) : forall e, P e :=
  fix F (e : err) : P e :=
    match e with
    | Leaf i k => HL i k
    | Wrap i w c => HW i w c (F c)
    | Second i c s => HS i c s (F c) (F s)
    | Barrier i m x => HB i m x (F x)
    | Multi i k cs =>
      HM i k cs ((fix G (l : list err) : Forall P l :=
                    match l with [] => Forall_nil _ | x :: r => Forall_cons _ (F x) (G r) end) cs)
    | OLeaf i m d cs =>
      HOL i m d cs ((fix G (l : list err) : Forall P l :=
                       match l with [] => Forall_nil _ | x :: r => Forall_cons _ (F x) (G r) end) cs)
    | OWrap i p d mt c => HOW i p d mt c (F c)
    end.

Lemma existsb_map' {A B} (f : B -> bool) (g : A -> B) l :
  existsb f (List.map g l) = existsb (fun x => f (g x)) l.
Proof. induction l as [|x l IH]; cbn; [reflexivity|]. now rewrite IH. Qed.

Lemma is_visit e r :
  is_ e r = existsb (fun c => own_match c r || mark_match c r) (visit_all e).
Proof.
  induction e using err_ind'; cbn [is_ visit_all existsb]; try rewrite orb_false_r; try reflexivity;
    try (rewrite IHe; reflexivity); try (rewrite IHe1; reflexivity).
  - rewrite existsb_flat_map. f_equal.
    induction H as [|x l Hx Hl IH]; cbn; [reflexivity|]. now rewrite Hx, IH.
  - rewrite existsb_flat_map. f_equal.
    induction H as [|x l Hx Hl IH]; cbn; [reflexivity|]. now rewrite Hx, IH.
Qed.

Lemma is_fast_correct e r : is_fast (with_marks e) (r, get_mark r) = is_ e r.
Proof.
  rewrite is_visit. unfold is_fast, with_marks.
  induction (visit_all e) as [|c l IH]; cbn; [reflexivity|]. now rewrite IH.
Qed.

Lemma is_opt_fast_correct oe r :
  is_opt_fast (match oe with Some e => Some (with_marks e) | None => None end) (ref_marked r) = is_opt oe r.
Proof.
  destruct oe as [e|], r as [x|]; cbn; try reflexivity. apply is_fast_correct.
Qed.

Lemma is_any_visit e refs :
  is_any e refs =
  existsb (fun c => existsb (fun r => own_match c r || mark_match c r) refs) (visit_all e).
Proof.
  induction e using err_ind'; cbn [is_any visit_all existsb]; try rewrite orb_false_r; try reflexivity;
    try (rewrite IHe; reflexivity); try (rewrite IHe1; reflexivity).
  - rewrite existsb_flat_map. f_equal.
    induction H as [|x l Hx Hl IH]; cbn; [reflexivity|]. now rewrite Hx, IH.
  - rewrite existsb_flat_map. f_equal.
    induction H as [|x l Hx Hl IH]; cbn; [reflexivity|]. now rewrite Hx, IH.
Qed.

Lemma somes_map_ref_marked rs :
  somes (List.map ref_marked rs) = List.map (fun x => (x, get_mark x)) (somes rs).
Proof.
  induction rs as [|[x|] rs IH]; cbn [somes List.map ref_marked]; [reflexivity| |assumption].
  now rewrite IH.
Qed.

Lemma is_any_opt_fast_correct oe rs :
  is_any_opt_fast (match oe with Some e => Some (with_marks e) | None => None end) (List.map ref_marked rs)
  = is_any_opt oe rs.
Proof.
  destruct oe as [e|]; cbn.
  - rewrite is_any_visit, somes_map_ref_marked. unfold with_marks.
    rewrite existsb_map'. apply existsb_ext'. intros c _.
    rewrite existsb_map'. apply existsb_ext'. intros x _. reflexivity.
  - induction rs as [|[x|] rs IH]; cbn; try reflexivity; assumption.
Qed.
