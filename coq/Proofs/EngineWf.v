(* C06 at the level of the formatting engine: the redactable renderings
   (redact.Sprint(err) = [fmt_red_short], redact.Sprintf("%+v", err) =
   [fmt_red_verbose]) of the model are well-formed ([wf_red]: markers balanced,
   never nested, closed at every newline and at the end; [wf_red_lines]: hence
   balanced within every line), for ARBITRARY bytes in every string position.

   Proved (no axiom):
   - [red_short_wf]   : sh_ok e -> wf_red (fmt_red_short e) = true.
       [sh_ok e]: the redactable strings STORED in the nodes that %v visits
       (withPrefix / withNewMessage / leafError / barrier message) are well-formed.
       Everything else (messages, hints, tags, safe details, opaque payloads, type
       names, ...) is arbitrary.
   - [red_verbose_wf] : vb_ok e -> glue_top e -> wf_red (fmt_red_verbose e) = true.
       [vb_ok e]: the same for every node (hidden ones included), stack frames
       without marker runes, [glue_top] for every secondary / hidden error;
       [glue_top e] (decidable, [glue_ns]): in the %+v run of e, every redactable
       entry has  wf_red (head ++ details).
   - both results are [cln] strings (valid nested RedactableStrings).

   FALSE as unconditional statements (witnesses in section 7; (b) and (c) were
   reproduced byte for byte on the Go implementation in /repo):
   (a) [red_short_needs_hyp]   a stored redactable string that is not well-formed;
   (b) [red_verbose_false]     %+v of errors.New("\xe2\x80\n\xb9\na"): state.Write cuts the
       message at the newline, printEntry glues head E2 80 and details B9 back
       together: an opening marker that is never closed (the glue condition);
   (c) [red_short_false_built] %v of errors.Newf("%v%s", errors.New("\xe2\n"), Safe("\x80\xb9a")):
       [sh_ok] is not an invariant of construction through the public API;
   (d) [red_verbose_needs_stack_ok] stack frames are written raw.  *)
From Errv Require Import Base.Str Redact.Markers Redact.Buffer Model.Err Model.Sem Model.Build
     Proofs.StrFacts Proofs.RedactFacts Proofs.RedactWf Proofs.FastIs Proofs.EngineFacts.
From Coq Require Import Lia.

(* ------------------------------------------------------------------ *)
(* 1. the automaton of RedactWf without its "dirty" flag               *)
(* ------------------------------------------------------------------ *)
Definition q2 := (bool * pk)%type.

Definition step2 (s : option q2) (x : N) : option q2 :=
  match s with
  | None => None
  | Some (o, k) =>
    if x =? 226 then Some (o, K1)
    else match k with
    | K2 =>
      if x =? 185 then (if o then None else Some (true, K0))
      else if x =? 186 then (if o then Some (false, K0) else None)
      else if (x =? nl) && o then None else Some (o, K0)
    | K1 =>
      if x =? 128 then Some (o, K2)
      else if (x =? nl) && o then None else Some (o, K0)
    | K0 => if (x =? nl) && o then None else Some (o, K0)
    end
  end.

Definition run2 (s : str) (st : option q2) : option q2 := fold_left step2 s st.

Definition erd (r : option ast) : option q2 :=
  match r with Some (o, k, _) => Some (o, k) | None => None end.

Lemma step_erd r x : erd (step true r x) = step2 (erd r) x.
Proof.
  destruct r as [[[o k] d]|]; [|reflexivity]. cbn [erd step step2].
  destruct (x =? 226); [reflexivity|].
  destruct k.
  - destruct ((x =? nl) && o); reflexivity.
  - destruct (x =? 128); [reflexivity|]. destruct ((x =? nl) && o); reflexivity.
  - destruct (x =? 185); [destruct o; reflexivity|].
    destruct (x =? 186); [destruct o; reflexivity|].
    destruct ((x =? nl) && o); reflexivity.
Qed.

Lemma run_erd s : forall r, erd (run true s r) = run2 s (erd r).
Proof.
  induction s as [|x s IH]; intro r; [reflexivity|].
  rewrite run_cons. cbn [run2 fold_left]. rewrite IH, step_erd. reflexivity.
Qed.

Lemma run2_app a b st : run2 (a ++ b) st = run2 b (run2 a st).
Proof. unfold run2. apply fold_left_app. Qed.

Lemma run2_cons x s st : run2 (x :: s) st = run2 s (step2 st x).
Proof. reflexivity. Qed.

Lemma run2_None s : run2 s None = None.
Proof. induction s as [|x s IH]; [reflexivity|exact IH]. Qed.

Definition c0 : option q2 := Some (false, K0).

(* closed: no open marker at the end; clean: moreover no dangling E2 / E2 80 *)
Definition cls (s : str) : Prop := exists k, run2 s c0 = Some (false, k).
Definition cln (s : str) : Prop := run2 s c0 = c0.

Lemma cln_cls s : cln s -> cls s.
Proof. intro H. exists K0. exact H. Qed.

Lemma cls_nil : cls [].
Proof. exists K0. reflexivity. Qed.
Lemma cln_nil : cln [].
Proof. reflexivity. Qed.

Lemma sst_run2 s : erd (sst true s) = run2 s c0.
Proof. unfold sst. rewrite run_erd. reflexivity. Qed.

Lemma cls_wf s : cls s -> wf_red s = true.
Proof.
  intros [k H]. rewrite <- sst_run2 in H.
  destruct (sst true s) as [[[o k'] d]|] eqn:E; [|discriminate].
  cbn [erd] in H. injection H as -> ->. exact (sst_wf s _ _ E).
Qed.

Lemma wf_sst s : wf_red s = true -> exists k d, sst true s = Some (false, k, d).
Proof.
  intro H. unfold wf_red in H. destruct (corr true s false false) as [C _].
  rewrite <- C in H by reflexivity. change (acc_st (sst true s) = true) in H.
  destruct (sst true s) as [[[o k] d]|]; [|discriminate].
  destruct o; [discriminate|]. eauto.
Qed.

Lemma wf_cls s : wf_red s = true -> cls s.
Proof.
  intro H. destruct (wf_sst s H) as [k [d E]]. exists k.
  rewrite <- sst_run2, E. reflexivity.
Qed.

Lemma raw_ok_cln s : raw_ok s -> cln s.
Proof. intro H. unfold cln. rewrite <- sst_run2, H. reflexivity. Qed.

(* bytes that reset the marker matcher whatever its state *)
Definition plainb (x : N) : bool := (x <? 128).

Lemma step2_plain o k x : plainb x = true -> (x =? nl) && o = false ->
  step2 (Some (o, k)) x = Some (o, K0).
Proof.
  unfold plainb. intros H Hn. apply N.ltb_lt in H. cbn [step2].
  assert (E1 : (x =? 226) = false) by (apply N.eqb_neq; lia).
  assert (E2 : (x =? 128) = false) by (apply N.eqb_neq; lia).
  assert (E3 : (x =? 185) = false) by (apply N.eqb_neq; lia).
  assert (E4 : (x =? 186) = false) by (apply N.eqb_neq; lia).
  rewrite E1. destruct k; rewrite ?E2, ?E3, ?E4, Hn; reflexivity.
Qed.

(* ASCII text (newlines included) outside a marker *)
Lemma run2_ascii s : forall k, ascii s = true -> s <> [] -> run2 s (Some (false, k)) = c0.
Proof.
  induction s as [|x s IH]; intros k Ha Hne; [congruence|].
  cbn [ascii forallb] in Ha. apply andb_true_iff in Ha as [Hx Hs].
  rewrite run2_cons, step2_plain; [|exact Hx|apply andb_false_r].
  destruct s as [|y s']; [reflexivity|]. apply IH; [exact Hs|discriminate].
Qed.

Lemma run2_ascii' s k : ascii s = true -> exists k', run2 s (Some (false, k)) = Some (false, k').
Proof.
  intro Ha. destruct s as [|x s]; [exists k; reflexivity|].
  exists K0. apply run2_ascii; [exact Ha|discriminate].
Qed.

(* appending to a closed string something that starts after a reset *)
Lemma cls_app_cln a b : cln a -> cls b -> cls (a ++ b).
Proof. intros Ha [k Hb]. exists k. rewrite run2_app, Ha. exact Hb. Qed.

Lemma cln_app a b : cln a -> cln b -> cln (a ++ b).
Proof. intros Ha Hb. unfold cln. rewrite run2_app, Ha. exact Hb. Qed.

Lemma cls_sep a sep b : cls a -> ascii sep = true -> sep <> [] -> cls b -> cls (a ++ sep ++ b).
Proof.
  intros [k Ha] Hs Hne [k' Hb]. exists k'. rewrite !run2_app, Ha, run2_ascii by assumption. exact Hb.
Qed.

Lemma cln_ascii s : ascii s = true -> cln s.
Proof.
  intro H. destruct s as [|x s]; [reflexivity|]. apply run2_ascii; [exact H|discriminate].
Qed.

(* ------------------------------------------------------------------ *)
(* 2. the printer: a nested redactable string in LAST position only    *)
(*    needs to be well-formed                                          *)
(* ------------------------------------------------------------------ *)
Lemma sprint_last_raw pre r :
  pieces_ok pre -> cls r -> cln (sprint_pieces (pre ++ [PRaw r])).
Proof.
  intros Hpre Hr. apply cls_wf, wf_sst in Hr. destruct Hr as [k [d Hr]].
  unfold cln. rewrite <- sst_run2.
  unfold sprint_pieces, print_pieces. rewrite fold_left_app. cbn [fold_left].
  assert (H0 : Inv true (set_mode buf_empty SafeEscaped)) by (repeat split).
  pose proof (print_pieces_inv true pre _ H0 (pieces_ok_piece_ok _ Hpre)) as Hb.
  set (b := fold_left print_piece pre (set_mode buf_empty SafeEscaped)) in *. clearbody b.
  rewrite (print_raw_eq true b r Hb).
  destruct Hb as [Hm [Ho Hv]].
  pose proof (escape_from_inv true false (bvalid b) (bpend b) (ff_imp true) Hv) as HE.
  set (E := escape_from (bvalid b) (bpend b) false) in *. clearbody E.
  assert (HV : sst true (E ++ r) = Some (false, k, d)).
  { unfold sst in *. rewrite run_app, HE. exact Hr. }
  set (V := E ++ r) in *. clearbody V.
  unfold buf_take, buf_finalize. cbn [bmode bopen]. unfold escape_to_end. cbn [bmode bopen bvalid bpend].
  unfold whole. cbn [bvalid bpend]. rewrite app_nil_r.
  unfold escape_from. rewrite ?frev_eq. cbn [List.length escape_loop rev app].
  destruct (last_rune_invalid_rev (rev V)) eqn:EL.
  - cbn [rev]. rewrite rev_involutive. unfold sst. rewrite run_app. fold (sst true V). rewrite HV.
    destruct k; reflexivity.
  - rewrite rev_involutive. rewrite HV.
    assert (HR : rs true (rev V) = Some (false, k, d)) by (unfold rs; now rewrite rev_involutive).
    destruct k; [reflexivity| |].
    + apply top_K1 in HR as [r' Er]. rewrite (hist_invalid K1 (rev V)) in EL; [discriminate| |discriminate].
      rewrite Er. reflexivity.
    + apply top_K2 in HR as [r' Er]. rewrite (hist_invalid K2 (rev V)) in EL; [discriminate| |discriminate].
      rewrite Er. reflexivity.
Qed.

(* what the engine passes to one Print / Printf call: every nested redactable
   string is an output of the printer ([raw_ok]), except the last argument, which
   only has to be well-formed *)
Definition tail_ok (p : piece) : Prop :=
  match p with PRaw r => cls r | _ => True end.

Definition okps (ps : list piece) : Prop :=
  pieces_ok (removelast ps) /\ tail_ok (last ps (PLit [])).

Lemma sprint_cln ps : okps ps -> cln (sprint_pieces ps).
Proof.
  intros [H1 H2]. destruct ps as [|p0 ps0]; [apply raw_ok_cln, sprint_raw_ok; constructor|].
  rewrite (app_removelast_last (PLit [])) by discriminate.
  set (pre := removelast (p0 :: ps0)) in *. set (p := last (p0 :: ps0) (PLit [])) in *.
  clearbody pre p. destruct p as [s|s|s|r]; try (solve [apply raw_ok_cln, sprint_raw_ok;
    apply Forall_app; split; [exact H1|repeat constructor; exact I]]).
  now apply sprint_last_raw.
Qed.

(* ------------------------------------------------------------------ *)
(* 3. engine state invariant                                           *)
(* ------------------------------------------------------------------ *)
Definition frame_ok (f : frame) : Prop :=
  has_markers (fr_fn f) = false /\ has_markers (fr_file f) = false.
Definition stack_ok (s : stack) : Prop := Forall frame_ok s.

(* [wd] = the engine runs with details (%+v) *)
Definition EI (wd : bool) (e : fentry) : Prop :=
  (fe_red e = true -> cls (fe_head e) /\ cls (fe_details e)) /\
  (wd = true -> (forall stk, fe_stack e = Some stk -> stack_ok stk) /\ ascii (fe_ty e) = true).

Definition hb_ok (wd : bool) (h : str) : Prop := if wd then cls h else h = [].

Record SI (wd : bool) (st : fstate) : Prop := mkSI {
  si_wd : fs_wantDetail st = wd;
  si_ent : Forall (EI wd) (fs_entries st);
  si_hb : hb_ok wd (fs_headbuf st);
  si_buf : cls (fs_buf st);
  si_ne : fs_notEmpty st = false -> fs_buf st = [];
  si_nn : fs_needNewline st = 0%nat -> cln (fs_buf st) }.

Definition J (wd : bool) (st : fstate) (chunk : str) (p : q2) : Prop :=
  fs_wantDetail st = wd /\
  Forall (EI wd) (fs_entries st) /\
  hb_ok wd (fs_headbuf st) /\
  (fs_notEmpty st = false -> fs_buf st = [] /\ chunk = []) /\
  (fs_needNewline st <> 0%nat -> chunk <> [] -> fs_buf st = []) /\
  (chunk = [] -> p = (false, K0)) /\
  ( run2 (fs_buf st ++ rev chunk) c0 = Some p
    \/ (chunk = [] /\ cls (fs_buf st) /\ fs_needNewline st <> 0%nat) ).

Lemma ascii_rep_str n s : ascii s = true -> ascii (rep_str n s) = true.
Proof.
  intro H. induction n as [|n IH]; [reflexivity|]. cbn [rep_str]. now rewrite ascii_app, H, IH.
Qed.

Lemma fill_ok (wdt : bool) n :
  let fill := if wdt then rep_str n detail_sep_m1 ++ detail_sep else [nl] in
  forall k, run2 fill (Some (false, k)) = c0.
Proof.
  cbv zeta. intro k. apply run2_ascii.
  - destruct wdt; [|reflexivity]. rewrite ascii_app, ascii_rep_str; reflexivity.
  - destruct wdt; [|discriminate]. intro E. apply app_eq_nil in E as [_ E]. discriminate.
Qed.

Lemma step2_nl p q : step2 (Some p) nl = Some q -> fst p = false /\ q = (false, K0).
Proof.
  destruct p as [o k]. cbn [step2]. change (nl =? 226) with false. cbv iota.
  destruct k, o; cbn; intro H; try discriminate; injection H as <-; split; reflexivity.
Qed.

Ltac fsimpl :=
  cbn [set_buf set_entries set_last set_notEmpty set_needNewline switch_over
       fs_redout fs_plus fs_entries fs_buf fs_headbuf fs_last fs_hasDetail fs_wantDetail
       fs_notEmpty fs_needNewline] in *.

Lemma write_loop_J wd b : forall st chunk p,
  J wd st chunk p -> run2 b (Some p) = c0 -> SI wd (write_loop b st chunk).
Proof.
  induction b as [|c r IH]; intros st chunk p HJ Hrun.
  - cbn [run2 fold_left] in Hrun. injection Hrun as ->.
    destruct HJ as (Hwd & Hent & Hhb & Hne & Hnc & Hcp & Hd).
    cbn [write_loop]. destruct st as [ro pl es bf hb ls hd wdt ne nn]. fsimpl.
    constructor; fsimpl; try assumption.
    + destruct Hd as [Hd|(Hc & Hb & _)]; [exists K0; exact Hd|]. subst chunk. cbn [rev]. now rewrite app_nil_r.
    + intro E. destruct (Hne E) as [-> ->]. reflexivity.
    + intro E. destruct Hd as [Hd|(_ & _ & Hn)]; [exact Hd|congruence].
  - rewrite run2_cons in Hrun.
    destruct (step2 (Some p) c) as [p'|] eqn:Ep; [|rewrite run2_None in Hrun; discriminate].
    destruct HJ as (Hwd & Hent & Hhb & Hne & Hnc & Hcp & Hd).
    cbn [write_loop]. destruct (c =? nl) eqn:Ec.
    + apply N.eqb_eq in Ec. subst c. apply step2_nl in Ep as [Ho ->].
      destruct p as [o k]. cbn [fst] in Ho. subst o.
      assert (Hcl : cls (fs_buf st ++ rev chunk)).
      { destruct Hd as [Hd|(Hc & Hb & _)]; [exists k; exact Hd|]. subst chunk. cbn [rev]. now rewrite app_nil_r. }
      apply (IH _ _ (false, K0)); [|exact Hrun].
      destruct st as [ro pl es bf hb ls hd wdt ne nn]. fsimpl. subst wdt.
      destruct wd; [destruct hd|]; fsimpl; unfold J; fsimpl;
        (split; [reflexivity|]); (split; [assumption|]).
      * split; [assumption|]. split; [intro E; destruct (Hne E) as [-> ->]; now split|].
        split; [congruence|]. split; [reflexivity|]. right. repeat split; [exact Hcl|discriminate].
      * split; [exact Hcl|]. split; [now split|].
        split; [congruence|]. split; [reflexivity|]. right. repeat split; [exact cls_nil|discriminate].
      * split; [assumption|]. split; [intro E; destruct (Hne E) as [-> ->]; now split|].
        split; [congruence|]. split; [reflexivity|]. right. repeat split; [exact Hcl|discriminate].
    + destruct st as [ro pl es bf hb ls hd wdt ne nn]. fsimpl. subst wdt.
      destruct ((negb (Nat.eqb nn 0)) && ne) eqn:Ef.
      * apply andb_true_iff in Ef as [Ef1 Ef2]. apply negb_true_iff, Nat.eqb_neq in Ef1. subst ne.
        apply (IH _ _ p'); [|exact Hrun]. unfold J. fsimpl.
        split; [reflexivity|]. split; [assumption|]. split; [assumption|].
        split; [discriminate|]. split; [congruence|]. split; [discriminate|].
        left. cbn [rev]. rewrite !app_assoc, run2_app. cbn [run2 fold_left]. rewrite <- Ep. f_equal.
        rewrite <- app_assoc, !run2_app.
        destruct chunk as [|c1 ch].
        -- rewrite (Hcp eq_refl). cbn [rev].
           assert (Hb : cls bf).
           { destruct Hd as [Hd|(_ & Hb & _)]; [|exact Hb]. rewrite (Hcp eq_refl) in Hd.
             cbn [rev] in Hd. rewrite app_nil_r in Hd. exists K0. exact Hd. }
           destruct Hb as [kb Hb]. rewrite Hb. rewrite fill_ok. reflexivity.
        -- assert (Eb : bf = []) by (apply Hnc; [exact Ef1|discriminate]).
           destruct Hd as [Hd|(Hc & _)]; [|discriminate]. subst bf. cbn [app] in Hd.
           change (run2 [] c0) with (Some (false, K0)). rewrite fill_ok. exact Hd.
      * apply (IH _ _ p'); [|exact Hrun]. unfold J. fsimpl.
        assert (Hnf : nn <> 0%nat -> ne = false).
        { intro Hn. apply andb_false_iff in Ef as [Ef|Ef]; [|exact Ef].
          apply negb_false_iff, Nat.eqb_eq in Ef. congruence. }
        split; [reflexivity|]. split; [assumption|]. split; [assumption|].
        split; [discriminate|]. split; [intros Hn _; now apply Hne, Hnf|]. split; [discriminate|].
        left. cbn [rev]. rewrite app_assoc, run2_app. cbn [run2 fold_left]. rewrite <- Ep. f_equal.
        destruct Hd as [Hd|(Hc & Hb & Hn)]; [exact Hd|].
        subst chunk. destruct (Hne (Hnf Hn)) as [-> _]. rewrite (Hcp eq_refl). reflexivity.
Qed.

Lemma st_write_SI wd st w : SI wd st -> cln w -> SI wd (st_write st w).
Proof.
  intros [Hwd Hent Hhb Hb Hne Hnn] Hw. destruct w as [|c r]; [constructor; assumption|].
  unfold st_write. apply (write_loop_J wd _ _ _ (false, K0)); [|exact Hw].
  repeat split; try assumption; try reflexivity.
  - now apply Hne.
  - intros _ E. congruence.
  - cbn [rev]. rewrite app_nil_r. destruct (fs_needNewline st) eqn:En.
    + left. now apply Hnn.
    + right. repeat split; [exact Hb|discriminate].
Qed.

Lemma sp_print_SI wd st ps : SI wd st -> okps ps -> SI wd (sp_print st ps).
Proof. intros H Hp. unfold sp_print. apply st_write_SI; [exact H|now apply sprint_cln]. Qed.

(* ---- piece lists the engine prints ---- *)
Ltac okps_simple :=
  unfold okps; cbn [removelast last]; split; [repeat constructor|try exact I].

Lemma okps_raw_last pre r : pieces_ok pre -> cls r -> okps (pre ++ [PRaw r]).
Proof.
  intros H1 H2. unfold okps. rewrite removelast_last, last_last. split; assumption.
Qed.

Lemma okps_one p : tail_ok p -> okps [p].
Proof. intro H. split; [constructor|exact H]. Qed.

(* ---- state.detail / if p.Detail() ---- *)
Lemma st_detail_SI wd st : SI wd st -> SI wd (fst (st_detail st)) /\ snd (st_detail st) = wd.
Proof.
  intros [Hwd Hent Hhb Hb Hne Hnn]. unfold st_detail.
  destruct st as [ro pl es bf hb ls hd wdt ne nn]. fsimpl. subst wdt.
  destruct wd; cbn [negb fst snd]; [|split; [constructor; fsimpl; assumption || reflexivity|reflexivity]].
  split; [|reflexivity].
  destruct ne, hd; fsimpl; constructor; fsimpl; try assumption; try reflexivity;
    try (intros; exact cls_nil); try (intros; exact cln_nil); try discriminate.
Qed.

Lemma if_detail_SI wd st k :
  SI wd st -> (wd = true -> forall s, SI wd s -> SI wd (k s)) -> SI wd (if_detail st k).
Proof.
  intros H Hk. unfold if_detail. destruct (st_detail_SI wd st H) as [H1 H2].
  destruct (st_detail st) as [st1 d]. cbn [fst snd] in H1, H2. subst d.
  destruct wd; [apply Hk; [reflexivity|exact H1]|exact H1].
Qed.

Lemma tag_redactable_cls kv : cls (tag_redactable kv).
Proof.
  apply cln_cls, raw_ok_cln. unfold tag_redactable. apply sprint_raw_ok.
  destruct kv as [k v]. unfold tag_piece_list. destruct v; repeat constructor.
Qed.

Lemma print_tags_SI wd tags : forall st first, SI wd st -> SI wd (print_tags st tags first).
Proof.
  induction tags as [|kv r IH]; intros st first H; cbn [print_tags]; [exact H|].
  apply IH. apply sp_print_SI; [|apply okps_one, tag_redactable_cls].
  destruct first; [exact H|]. apply sp_print_SI; [exact H|okps_simple].
Qed.

Lemma print_safe_details_SI wd ds : forall st comma, SI wd st -> SI wd (print_safe_details st ds comma).
Proof.
  induction ds as [|d r IH]; intros st comma H; cbn [print_safe_details]; [exact H|].
  apply IH. apply sp_print_SI; [exact H|okps_simple].
Qed.

Lemma opaque_details_SI wd kind d st : SI wd st -> SI wd (opaque_details kind d st).
Proof.
  intro H. unfold opaque_details. cbv zeta.
  assert (H2 : SI wd (sp_print (sp_print st [PLit (nl :: lit kind)])
                               [PLit (nl :: lit "type name: "); PSafe (dt_orig d)])).
  { apply sp_print_SI; [apply sp_print_SI; [exact H|okps_simple]|okps_simple]. }
  set (st2 := sp_print (sp_print st [PLit (nl :: lit kind)]) _) in *. clearbody st2.
  assert (H3 : forall l (acc : N * fstate), SI wd (snd acc) ->
     SI wd (snd (fold_left
      (fun (acc : N * fstate) (r : str) =>
         (fst acc + 1,
          sp_print (snd acc) [PLit (nl :: lit "reportable "); PSafe (dec_of_N (fst acc));
                              PLit ([colon; nl]); PSafe r])) l acc))).
  { induction l as [|x l IHl]; intros acc Ha; cbn [fold_left]; [exact Ha|].
    apply IHl. cbn [snd]. apply sp_print_SI; [exact Ha|okps_simple]. }
  specialize (H3 (dt_rep d) (0, st2) H2).
  destruct (dt_full d); [apply sp_print_SI; [exact H3|okps_simple]|exact H3].
Qed.

(* ---- result of the per-type part ---- *)
Definition BP (wd : bool) (st0 : fstate) (r : body_res) : Prop :=
  if br_red r then SI wd (br_st r) else fs_entries (br_st r) = fs_entries st0.

Definition wfield_ok (w : wlayer) : Prop :=
  match w with WPrefix rp | WNewMsg rp => wf_red rp = true | _ => True end.

Lemma wrap_body_BP wd w st : SI wd st -> wfield_ok w ->
  match wrap_body w st with
  | Some (st1, nn, red) => BP wd st (mkbody st1 red nn false)
  | None => True
  end.
Proof.
  intros H Hw. pose proof (wrap_body_se w st) as HSE.
  destruct w; cbn [wrap_body wfield_ok] in *; try exact I; unfold BP; cbn [br_red br_st];
    try exact HSE.
  - (* WStack *) apply if_detail_SI; [exact H|]. intros _ s Hs. apply sp_print_SI; [exact Hs|okps_simple].
  - (* WPrefix *) apply sp_print_SI; [exact H|]. apply okps_one. now apply wf_cls.
  - (* WNewMsg *) apply sp_print_SI; [exact H|]. apply okps_one. now apply wf_cls.
  - (* WIssueLink *) apply if_detail_SI; [exact H|]. intros _ s Hs.
    assert (H1 : SI wd (match url with [] => s | _ => sp_print s [PLit (lit "issue: "); PSafe url] end)).
    { destruct url; [exact Hs|]. apply sp_print_SI; [exact Hs|okps_simple]. }
    destruct det; [exact H1|]. apply sp_print_SI; [exact H1|okps_simple].
  - (* WTelemetry *) apply if_detail_SI; [exact H|]. intros _ s Hs. apply sp_print_SI; [exact Hs|okps_simple].
  - (* WDomain *) apply if_detail_SI; [exact H|]. intros _ s Hs. apply sp_print_SI; [exact Hs|okps_simple].
  - (* WContext *)
    destruct (st_detail_SI wd st H) as [H1 H2].
    destruct (st_detail st) as [st1 d]. cbn [fst snd] in H1, H2.
    match goal with |- context [if ?x then _ else _] => destruct x end; [|exact H1].
    apply sp_print_SI; [|okps_simple]. apply print_tags_SI. apply sp_print_SI; [exact H1|okps_simple].
  - (* WAssert *) apply if_detail_SI; [exact H|]. intros _ s Hs. apply sp_print_SI; [exact Hs|okps_simple].
  - (* WMark *) apply if_detail_SI; [exact H|]. intros _ s Hs. cbv zeta.
    apply sp_print_SI; [apply sp_print_SI; [exact Hs|okps_simple]|okps_simple].
  - (* WSafeDetails *) apply if_detail_SI; [exact H|]. intros _ s Hs. cbv zeta.
    match goal with |- context [if ?x then _ else _] => destruct x end.
    + now apply print_safe_details_SI.
    + apply print_safe_details_SI. apply sp_print_SI; [exact Hs|okps_simple].
  - (* WHTTP *) apply if_detail_SI; [exact H|]. intros _ s Hs. apply sp_print_SI; [exact Hs|okps_simple].
  - (* WGrpc *) apply if_detail_SI; [exact H|]. intros _ s Hs. apply sp_print_SI; [exact Hs|okps_simple].
Qed.

Lemma default_body_BP wd e text sent il hm ct st :
  SI wd st -> BP wd st (default_body e text sent il hm ct st).
Proof.
  intro H. pose proof (default_body_se e text sent il hm ct st) as HSE. revert HSE.
  unfold default_body.
  destruct (il && sent); [intros _; unfold BP; cbn [br_red br_st]; apply sp_print_SI; [exact H|okps_simple]|].
  destruct (format_simple st text ct) as [st1 el] eqn:EF.
  assert (HS : forall ps b1 b2, okps ps -> BP wd st (mkbody (sp_print st ps) true b1 b2)).
  { intros ps b1 b2 Hp. unfold BP. cbn [br_red br_st]. now apply sp_print_SI. }
  destruct e as [i k|i w c| | | | |]; try (intro HSE; exact HSE).
  - destruct k as [| | | | | | | | | |?|u ? ? ?]; try (intro HSE; exact HSE); try (intros _; apply HS; okps_simple).
    destruct u; try (intro HSE; exact HSE); intros _; apply HS; okps_simple.
  - destruct w as [| | | | | | | | | | | | | | | | | | | |op net src addr|];
      try (intro HSE; exact HSE); try (intros _; apply HS; okps_simple).
    intros _. cbv zeta. unfold BP. cbn [br_red br_st].
    assert (H1 : SI wd (sp_print st [PSafe op])) by (apply sp_print_SI; [exact H|okps_simple]).
    assert (H2 : SI wd (match net with [] => sp_print st [PSafe op]
                        | _ => sp_print (sp_print st [PSafe op]) [PLit [sp]; PSafe net] end)).
    { destruct net; [exact H1|]. apply sp_print_SI; [exact H1|okps_simple]. }
    set (s2 := match net with [] => _ | _ => _ end) in *. clearbody s2.
    assert (H3 : SI wd (match src with [] => s2 | _ => sp_print s2 [PLit [sp]; PUnsafe src] end)).
    { destruct src; [exact H2|]. apply sp_print_SI; [exact H2|okps_simple]. }
    set (s3 := match src with [] => s2 | _ => _ end) in *.
    destruct addr; [exact H3|].
    apply sp_print_SI; [|okps_simple].
    destruct src; [exact H3|]. apply sp_print_SI; [exact H3|okps_simple].
Qed.

(* ---- collectEntry ---- *)
Lemma collect_entry_stack st ty br w d : fe_stack (collect_entry st ty br w d) = None.
Proof.
  unfold collect_entry.
  destruct (fs_wantDetail st); [destruct (fs_hasDetail st)|];
    destruct br; try destruct (fs_redout st); reflexivity.
Qed.

Lemma collect_entry_nonred st ty w d : fe_red (collect_entry st ty false w d) = false.
Proof.
  unfold collect_entry.
  destruct (fs_wantDetail st); [destruct (fs_hasDetail st)|]; reflexivity.
Qed.

Lemma collect_entry_ty st ty br w d : fe_ty (collect_entry st ty br w d) = ty.
Proof.
  unfold collect_entry.
  destruct (fs_wantDetail st); [destruct (fs_hasDetail st)|];
    destruct br; try destruct (fs_redout st); reflexivity.
Qed.

Lemma collect_entry_EI wd st ty br w d :
  (wd = true -> ascii ty = true) ->
  (br = true -> SI wd st) -> EI wd (collect_entry st ty br w d).
Proof.
  intros Hty H. split; [|intros Hw; split; [intros stk E; rewrite collect_entry_stack in E; discriminate
                                   |rewrite collect_entry_ty; now apply Hty]].
  destruct br; [|rewrite collect_entry_nonred; discriminate].
  destruct (H eq_refl) as [Hwd Hent Hhb Hb Hne Hnn].
  unfold collect_entry. rewrite Hwd. destruct wd; cbn [hb_ok] in Hhb.
  - destruct (fs_hasDetail st), (fs_redout st); cbn [fe_red fe_head fe_details];
      try discriminate; intros _; split; try assumption; exact cls_nil.
  - rewrite Hhb. change (last_byte []) with (@None N). cbv iota. cbn [app].
    destruct (fs_redout st); cbn [fe_red fe_head fe_details]; try discriminate.
    intros _. split; [assumption|exact cls_nil].
Qed.

(* ---- elision flags do not matter ---- *)
Lemma mark_first_EI wd n : forall es, Forall (EI wd) es -> Forall (EI wd) (mark_first n es).
Proof.
  induction n as [|n IH]; intros [|e r] H; cbn [mark_first]; try exact H.
  inversion H as [|? ? He Hr]; subst. constructor; [exact He|now apply IH].
Qed.

Lemma Forall_firstn' {A} (P : A -> Prop) n : forall l, Forall P l -> Forall P (firstn n l).
Proof.
  induction n as [|n IH]; intros [|x l] H; cbn [firstn]; try constructor.
  - now inversion H.
  - apply IH. now inversion H.
Qed.

Lemma elide_shared_ok prev new : stack_ok new -> stack_ok (fst (elide_shared prev new)).
Proof.
  intro H. unfold elide_shared. destruct prev; [exact H|]. destruct new; [exact H|].
  cbv zeta. cbn [fst]. unfold stack_ok. now apply Forall_firstn'.
Qed.

(* ---- the skeleton of formatRecursive ---- *)
Definition Pre (wd : bool) (st : fstate) : Prop :=
  fs_buf st = [] /\ Forall (EI wd) (fs_entries st).

Definition NodeOK (wd : bool) (ns : nsem) : Prop :=
  forall o wdp depth st, Pre wd st -> Pre wd (fst (ns_fmt ns o wd wdp depth st)).

Lemma fold_multi_Pre wd depth multi : Forall (NodeOK wd) multi ->
  forall acc, Pre wd (fst acc) ->
  Pre wd (fst (fold_left
      (fun (acc : fstate * nat) (k : nsem) =>
         let '(s', m) := ns_fmt k false wd true (S depth) (fst acc) in (s', (snd acc + m)%nat))
      multi acc)).
Proof.
  induction 1 as [|k l Hk Hl IH]; intros acc Ha; cbn [fold_left]; [exact Ha|].
  apply IH. specialize (Hk false true (S depth) (fst acc) Ha).
  destruct (ns_fmt k false wd true (S depth) (fst acc)) as [s' m]. exact Hk.
Qed.

Lemma format_node_ok wd ty single multi own body :
  match single with Some sc => NodeOK wd sc | None => True end ->
  Forall (NodeOK wd) multi ->
  (wd = true -> ascii ty = true /\ forall stk, own = Some stk -> stack_ok stk) ->
  (forall o st, SI wd st -> BP wd st (body o st)) ->
  forall o wdp depth st, Pre wd st ->
    Pre wd (fst (format_node ty single multi own body o wd wdp depth st)).
Proof.
  intros Hs Hm Hown Hb o wdp depth st HP. unfold format_node.
  assert (H1 : Pre wd (fst (match single with
                            | Some sc => ns_fmt sc false wd wdp (S depth) st
                            | None => (st, 0%nat) end))).
  { destruct single as [sc|]; [now apply Hs|exact HP]. }
  destruct (match single with Some sc => ns_fmt sc false wd wdp (S depth) st | None => (st, 0%nat) end)
    as [st1 n1]. cbn [fst] in H1.
  pose proof (fold_multi_Pre wd depth multi Hm (st1, n1) H1) as H2.
  destruct (fold_left _ multi (st1, n1)) as [st2 n2]. cbn [fst] in H2.
  destruct H2 as [Hbuf Hent]. cbv zeta.
  match goal with |- context [body o ?s3] => set (st3 := s3) end.
  assert (H3 : SI wd st3).
  { subst st3. constructor; fsimpl; try assumption; try reflexivity.
    - destruct wd; [exact cls_nil|reflexivity].
    - rewrite Hbuf. exact cls_nil.
    - intros _. exact Hbuf.
    - intros _. rewrite Hbuf. exact cln_nil. }
  pose proof (Hb o st3 H3) as HB.
  assert (E3 : fs_entries st3 = fs_entries st2) by reflexivity.
  destruct (body o st3) as [bst bred bel bseen]. unfold BP in HB. cbn [br_st br_elide br_red br_seen] in *.
  assert (Hent_b : Forall (EI wd) (fs_entries bst)).
  { destruct bred; [exact (si_ent _ _ HB)|rewrite HB, E3; exact Hent]. }
  set (st4 := if bel then elide_short bst n2 else bst).
  assert (Hent4 : Forall (EI wd) (fs_entries st4)).
  { subst st4. destruct bel; [|exact Hent_b]. unfold elide_short. fsimpl. now apply mark_first_EI. }
  assert (He0 : EI wd (collect_entry st4 ty bred wdp depth)).
  { apply collect_entry_EI; [intro Hw; exact (proj1 (Hown Hw))|]. intros ->. subst st4. destruct bel; [|exact HB].
    destruct HB as [Hwd He Hhb Hbb Hne Hnn]. unfold elide_short.
    constructor; fsimpl; try assumption; try (now apply mark_first_EI). }
  set (e0 := collect_entry st4 ty bred wdp depth) in *.
  destruct bseen.
  - cbn [fst]. split; fsimpl; [reflexivity|]. constructor; assumption.
  - destruct own as [stk|].
    + pose proof (fun Hw => elide_shared_ok (fs_last st4) stk (proj2 (Hown Hw) stk eq_refl)) as HE.
      destruct (elide_shared (fs_last st4) stk) as [s' el]. cbn [fst] in *.
      split; fsimpl; [reflexivity|]. constructor; [|assumption].
      destruct He0 as [A B]. split; cbn [fe_red fe_head fe_details fe_stack fe_ty]; [exact A|].
      intros Hw. split; [|exact (proj2 (B Hw))]. intros stk' E. injection E as <-. now apply HE.
    + cbn [fst]. split; fsimpl; [reflexivity|]. constructor; assumption.
Qed.

(* ------------------------------------------------------------------ *)
(* 4. final assembly                                                   *)
(* ------------------------------------------------------------------ *)
(* closed from any closed state *)
Definition rcl (s : str) : Prop := forall k, exists k', run2 s (Some (false, k)) = Some (false, k').

Lemma rcl_nil : rcl [].
Proof. intro k. exists k. reflexivity. Qed.
Lemma rcl_app a b : rcl a -> rcl b -> rcl (a ++ b).
Proof. intros Ha Hb k. destruct (Ha k) as [k1 E1]. rewrite run2_app, E1. apply Hb. Qed.
Lemma rcl_ascii s : ascii s = true -> rcl s.
Proof. intros H k. now apply run2_ascii'. Qed.
Lemma rcl_cls s : rcl s -> cls s.
Proof. intro H. exact (H K0). Qed.
Lemma cls_rcl a b : cls a -> rcl b -> cls (a ++ b).
Proof. intros [k Ha] Hb. unfold cls. rewrite run2_app, Ha. apply Hb. Qed.
Lemma rcl_nl t : cls t -> rcl (nl :: t).
Proof.
  intros Ht k. rewrite run2_cons, step2_plain; [exact Ht|reflexivity|reflexivity].
Qed.
Lemma rcl_sp t : cls t -> rcl (sp :: t).
Proof.
  intros Ht k. rewrite run2_cons, step2_plain; [exact Ht|reflexivity|reflexivity].
Qed.
Lemma rcl_cln_cls a b : ascii a = true -> a <> [] -> cls b -> rcl (a ++ b).
Proof. intros Ha Hne Hb k. rewrite run2_app, run2_ascii by assumption. exact Hb. Qed.

Lemma escape_bytes_cln s : cln (escape_bytes s).
Proof.
  apply raw_ok_cln. unfold raw_ok, escape_bytes.
  pose proof (escape_from_inv true true m_start s (fun _ => eq_refl) eq_refl) as H.
  unfold sst in *. rewrite run_app, H. reflexivity.
Qed.

Lemma out_bytes_cls wd e :
  EI wd e -> cls (out_bytes true e (fe_head e)) /\ cls (out_bytes true e (fe_details e)).
Proof.
  intros [H _]. unfold out_bytes. cbn [negb orb]. destruct (fe_red e).
  - now apply H.
  - split; apply cln_cls, escape_bytes_cln.
Qed.

Lemma single_line_cls wd es : forall acc, Forall (EI wd) es -> cls acc -> cls (single_line true es acc).
Proof.
  induction es as [|e r IH]; intros acc Hes Hacc; cbn [single_line]; [exact Hacc|].
  inversion Hes as [|? ? He Hr]; subst.
  destruct (fe_elide e); [now apply IH|].
  destruct (fe_head e) as [|c h] eqn:Eh; [now apply IH|].
  apply IH; [exact Hr|]. destruct (out_bytes_cls wd e He) as [Ho _]. rewrite Eh in Ho.
  destruct acc as [|a acc']; [exact Ho|].
  rewrite <- app_assoc. apply cls_sep; [exact Hacc|reflexivity|discriminate|exact Ho].
Qed.

Lemma final_short_cls ns plus : NodeOK false ns -> cls (final_short ns true plus).
Proof.
  intro H. unfold final_short.
  assert (HP : Pre false (st_init true plus)) by (split; [reflexivity|constructor]).
  specialize (H true false 0%nat _ HP).
  destruct (ns_fmt ns true false false 0%nat (st_init true plus)) as [st n]. cbn [fst] in H.
  apply (single_line_cls false); [exact (proj2 H)|exact cls_nil].
Qed.

(* ---- stack traces ---- *)
Lemma replace_nl_run2 s : forall q, run2 (replace_nl s detail_sep) q = run2 s q.
Proof.
  induction s as [|c r IH]; intro q; [reflexivity|]. cbn [replace_nl].
  destruct (c =? nl) eqn:E.
  - apply N.eqb_eq in E. subst c. rewrite run2_app, IH, run2_cons. f_equal.
    destruct q as [[o k]|]; [|reflexivity].
    destruct o.
    + transitivity (@None q2); [|destruct k; reflexivity]. destruct k; reflexivity.
    + destruct k; reflexivity.
  - rewrite !run2_cons. apply IH.
Qed.

Lemma no_markers_wf_toks l : existsb is_marker l = false -> wf_toks l false = true.
Proof.
  induction l as [|t l IH]; [reflexivity|]. cbn [existsb]. intro H.
  apply orb_false_iff in H as [H1 H2]. destruct t; try discriminate.
  cbn [wf_toks]. rewrite IH by exact H2. destruct (b =? nl); reflexivity.
Qed.

Lemma no_markers_cls s : has_markers s = false -> cls s.
Proof. intro H. apply wf_cls. unfold wf_red. now apply no_markers_wf_toks. Qed.

Lemma dec_digits_ascii fuel : forall n acc, ascii acc = true -> ascii (dec_digits fuel n acc) = true.
Proof.
  induction fuel as [|f IH]; intros n acc H; cbn [dec_digits]; [exact H|].
  assert (Hd : ascii ((48 + n mod 10) :: acc) = true).
  { cbn [ascii forallb]. rewrite andb_true_iff. split; [|exact H]. apply N.ltb_lt.
    pose proof (N.mod_upper_bound n 10). lia. }
  destruct (N.eqb (n / 10) 0); [exact Hd|]. now apply IH.
Qed.

Lemma dec_of_N_ascii n : ascii (dec_of_N n) = true.
Proof. unfold dec_of_N. now apply dec_digits_ascii. Qed.

Lemma print_stack_rcl stk : stack_ok stk -> rcl (print_stack stk).
Proof.
  induction 1 as [|f r [Hf1 Hf2] Hr IH]; [exact rcl_nil|].
  unfold print_stack. cbn [flat_map]. fold (print_stack r).
  change (nl :: print_frame f ++ print_stack r) with ((nl :: print_frame f) ++ print_stack r).
  apply rcl_app; [|exact IH]. apply rcl_nl. unfold print_frame.
  apply cls_sep; [now apply no_markers_cls|reflexivity|discriminate|].
  apply cls_sep; [now apply no_markers_cls|reflexivity|discriminate|].
  apply cln_cls, cln_ascii, dec_of_N_ascii.
Qed.

(* ---- printEntry ---- *)
Definition entry_glue (e : fentry) : bool :=
  negb (fe_red e) || wf_red (fe_head e ++ fe_details e).

Lemma opt_sp_cls (b : bool) x : cls x -> cls ((if b then [] else [sp]) ++ x).
Proof. intro H. destruct b; [exact H|]. apply rcl_cls, rcl_sp, H. Qed.

Lemma print_entry_cls e : EI true e -> entry_glue e = true -> cls (print_entry true e).
Proof.
  intros He Hg. unfold print_entry. cbv zeta.
  assert (Hhd : cls (match fe_head e with
                     | [] => []
                     | c :: _ => (if c =? nl then [] else [sp]) ++ out_bytes true e (fe_head e)
                     end ++
                     match fe_details e with
                     | [] => []
                     | c :: _ =>
                       (match fe_head e with
                        | [] => if c =? nl then [] else [sp]
                        | _ => []
                        end) ++ out_bytes true e (fe_details e)
                     end)).
  { unfold out_bytes. cbn [negb orb]. unfold entry_glue in Hg. destruct (fe_red e) eqn:Er.
    - cbn [negb orb] in Hg. apply wf_cls in Hg.
      destruct (fe_head e) as [|c h]; destruct (fe_details e) as [|c' d'].
      + exact cls_nil.
      + cbn [app] in *. now apply opt_sp_cls.
      + rewrite app_nil_r in *. now apply opt_sp_cls.
      + change ([] ++ c' :: d') with (c' :: d'). rewrite <- app_assoc. now apply opt_sp_cls.
    - assert (Hx : forall x, cls (escape_bytes x)) by (intro; apply cln_cls, escape_bytes_cln).
      assert (Hy : forall (b : bool) x, cln ((if b then [] else [sp]) ++ escape_bytes x)).
      { intros b x. destruct b; [apply escape_bytes_cln|]. apply cln_app; [reflexivity|apply escape_bytes_cln]. }
      destruct (fe_head e) as [|c h]; destruct (fe_details e) as [|c' d'].
      + exact cls_nil.
      + cbn [app]. apply cln_cls, Hy.
      + rewrite app_nil_r. apply cln_cls, Hy.
      + apply cls_app_cln; [apply Hy|]. cbn [app]. apply Hx. }
  rewrite app_assoc. apply cls_rcl; [exact Hhd|].
  destruct (fe_stack e) as [stk|] eqn:Es; [|exact rcl_nil].
  destruct He as [_ He]. destruct (He eq_refl) as [Hst _]. specialize (Hst stk Es).
  apply rcl_nl. apply cls_app_cln; [reflexivity|].
  apply cls_rcl.
  - destruct (print_stack_rcl stk Hst K0) as [k' E]. exists k'. rewrite replace_nl_run2. exact E.
  - destruct (fe_elided e); [apply rcl_ascii; reflexivity|exact rcl_nil].
Qed.

Lemma indent_for_cln d : cln (indent_for d).
Proof.
  destruct d as [|[|k]]; try exact cln_nil. cbn [indent_for].
  apply cln_app; [apply cln_ascii, ascii_rep_str; reflexivity|reflexivity].
Qed.

Definition EG (e : fentry) : Prop := EI true e /\ entry_glue e = true.

Lemma wraps_lines_rcl es : forall j, Forall EG es -> rcl (wraps_lines true es j).
Proof.
  induction es as [|e r IH]; intros j H; cbn [wraps_lines]; [exact rcl_nil|].
  inversion H as [|? ? [He Hg] Hr]; subst.
  apply rcl_nl. apply cls_app_cln; [apply indent_for_cln|].
  apply cls_app_cln; [reflexivity|]. apply cls_app_cln; [apply cln_ascii, dec_of_N_ascii|].
  apply cls_app_cln; [reflexivity|]. apply cls_rcl; [now apply print_entry_cls|now apply IH].
Qed.

Lemma types_line_rcl es : forall j, Forall EG es -> rcl (types_line es j).
Proof.
  induction es as [|e r IH]; intros j H; cbn [types_line]; [exact rcl_nil|].
  inversion H as [|? ? [[_ He] Hg] Hr]; subst.
  apply rcl_app; [apply rcl_ascii; reflexivity|].
  apply rcl_app; [apply rcl_ascii, dec_of_N_ascii|].
  apply rcl_app; [apply rcl_ascii; reflexivity|].
  apply rcl_app; [apply rcl_ascii; exact (proj2 (He eq_refl))|now apply IH].
Qed.

Lemma format_entries_cls es : Forall EG es -> cls (format_entries true es).
Proof.
  intro H. unfold format_entries. destruct es as [|e r]; [exact cls_nil|].
  assert (HEI : Forall (EI true) (e :: r)).
  { apply Forall_forall. intros x Hx. rewrite Forall_forall in H. exact (proj1 (H x Hx)). }
  apply cls_rcl; [apply (single_line_cls true); [exact HEI|exact cls_nil]|].
  inversion H as [|? ? [He Hg] Hr]; subst.
  apply rcl_nl. apply cls_app_cln; [reflexivity|].
  apply cls_rcl; [now apply print_entry_cls|].
  apply rcl_app; [now apply wraps_lines_rcl|].
  apply rcl_nl. apply cls_app_cln; [reflexivity|]. apply rcl_cls. now apply types_line_rcl.
Qed.

(* the entries of the %+v run of a node, and the glue condition on them *)
Definition verbose_entries_of (ns : nsem) : list fentry :=
  fs_entries (fst (ns_fmt ns true true false 0%nat (st_init true true))).

Definition glue_ns (ns : nsem) : bool := forallb entry_glue (verbose_entries_of ns).

Lemma final_verbose_cls ns : NodeOK true ns -> glue_ns ns = true -> cls (final_verbose ns true).
Proof.
  intros H Hg. unfold final_verbose. unfold glue_ns, verbose_entries_of in Hg.
  assert (HP : Pre true (st_init true true)) by (split; [reflexivity|constructor]).
  specialize (H true false 0%nat _ HP).
  destruct (ns_fmt ns true true false 0%nat (st_init true true)) as [st n]. cbn [fst] in *.
  apply format_entries_cls. destruct H as [_ H].
  rewrite forallb_forall in Hg. apply Forall_forall. intros x Hx. split.
  - rewrite Forall_forall in H. now apply H.
  - now apply Hg.
Qed.

Lemma nested_v_ok ns : NodeOK false ns -> tail_ok (nested_v ns).
Proof.
  intro H. unfold nested_v. destruct (ns_safemsg ns); [exact I|]. cbn [tail_ok]. now apply final_short_cls.
Qed.

Lemma nested_plus_v_ok ns : NodeOK true ns -> glue_ns ns = true -> tail_ok (nested_plus_v ns).
Proof.
  intros H Hg. unfold nested_plus_v. destruct (ns_safemsg ns); [exact I|]. cbn [tail_ok].
  now apply final_verbose_cls.
Qed.

(* ------------------------------------------------------------------ *)
(* 5. every node kind                                                  *)
(* ------------------------------------------------------------------ *)
Lemma go_type_ascii e : ascii (go_type_string e) = true.
Proof.
  destruct e as [i k|i w c|i c s|i m x|i k cs|i m d cs|i p d mt c]; unfold go_type_string; cbn [go_ty].
  - destruct k as [| | | | | | | | | | |u ? ? ?]; try reflexivity. destruct u; reflexivity.
  - destruct w as [| | | | | | | | | | | | | | | | | | | | |u ? ?]; try reflexivity. destruct u; reflexivity.
  - reflexivity.
  - reflexivity.
  - destruct k; reflexivity.
  - destruct cs; reflexivity.
  - reflexivity.
Qed.

Lemma nodeok_intro wd ty single multi own body :
  match single with Some sc => NodeOK wd sc | None => True end ->
  Forall (NodeOK wd) multi ->
  (wd = true -> ascii ty = true /\ forall stk, own = Some stk -> stack_ok stk) ->
  (forall o st, SI wd st -> BP wd st (body o st)) ->
  forall o wdp depth st, Pre wd st ->
    Pre wd (fst (format_node ty single multi own body o wd wdp depth st)).
Proof. exact (format_node_ok wd ty single multi own body). Qed.

Ltac fs_bp :=
  match goal with
  | |- context [format_simple ?s ?t ?c] =>
    let HF := fresh "HF" in
    pose proof (format_simple_se s t c) as HF;
    destruct (format_simple s t c); unfold BP; cbn [br_red br_st]; exact HF
  end.

Lemma leaf_node wd i k :
  match k with LLeafError rm => wf_red rm = true | _ => True end ->
  (wd = true -> forall stk, leaf_stack k = Some stk -> stack_ok stk) ->
  NodeOK wd (sem (Leaf i k)).
Proof.
  intros Hk Hstk. unfold NodeOK. cbn [sem ns_fmt].
  apply nodeok_intro; [exact I|constructor|intro Hw; split; [apply go_type_ascii|now apply Hstk]|].
  intros o st H.
  destruct k as [| |m stk| | |rm|m url det| | | | |]; try apply default_body_BP; try exact H.
  - (* LPkgFund *)
    destruct (negb o).
    + unfold BP. cbn [br_red br_st]. fsimpl. apply fundamental_format_se.
    + fs_bp.
  - (* LLeafError *)
    unfold body_safe, BP. cbn [br_red br_st]. apply sp_print_SI; [exact H|]. apply okps_one. now apply wf_cls.
  - (* LUnimpl *)
    unfold body_safe, BP. cbn [br_red br_st].
    apply if_detail_SI; [apply sp_print_SI; [exact H|okps_simple]|]. intros _ s Hs.
    assert (H1 : SI wd (sp_print s [PLit (lit "unimplemented")])) by (apply sp_print_SI; [exact Hs|okps_simple]).
    assert (H2 : SI wd (match url with [] => sp_print s [PLit (lit "unimplemented")]
                        | _ => sp_print (sp_print s [PLit (lit "unimplemented")])
                                        [PLit (nl :: lit "issue: "); PSafe url] end)).
    { destruct url; [exact H1|]. apply sp_print_SI; [exact H1|okps_simple]. }
    destruct det; [exact H2|]. apply sp_print_SI; [exact H2|okps_simple].
Qed.

Definition wstack_ok (w : wlayer) : Prop :=
  match w with WStack stk | WPkgStack stk => stack_ok stk | _ => True end.

Lemma wrap_node wd i w c :
  wfield_ok w -> (wd = true -> wstack_ok w) ->
  NodeOK wd (sem c) -> NodeOK wd (sem (Wrap i w c)).
Proof.
  intros Hw Hstk Hc. unfold NodeOK. cbn [sem ns_fmt].
  apply nodeok_intro; [exact Hc|constructor| |].
  - intro E. split; [apply go_type_ascii|]. intros stk Es. specialize (Hstk E).
    destruct w; try discriminate; cbn [wrap_stack] in Es; injection Es as <-; exact Hstk.
  - intros o st H. pose proof (wrap_body_BP wd w st H Hw) as HW.
    destruct (wrap_body w st) as [[[st1 nn] red]|]; [exact HW|].
    destruct w; try (apply default_body_BP; exact H); fs_bp.
Qed.

Lemma second_node wd i c s :
  NodeOK wd (sem c) -> (wd = true -> tail_ok (nested_plus_v (sem s))) ->
  NodeOK wd (sem (Second i c s)).
Proof.
  intros Hc Hs. unfold NodeOK. cbn [sem ns_fmt].
  apply nodeok_intro; [exact Hc|constructor|intro E; split; [reflexivity|discriminate]|].
  intros o st H. unfold body_safe, BP. cbn [br_red br_st].
  apply if_detail_SI; [exact H|]. intros E s' Hs'. apply sp_print_SI; [exact Hs'|].
  split; [repeat constructor|exact (Hs E)].
Qed.

Lemma barrier_node wd i smsg m :
  wf_red smsg = true -> (wd = true -> tail_ok (nested_plus_v (sem m))) ->
  NodeOK wd (sem (Barrier i smsg m)).
Proof.
  intros Hm Hs. unfold NodeOK. cbn [sem ns_fmt].
  apply nodeok_intro; [exact I|constructor|intro E; split; [reflexivity|discriminate]|].
  intros o st H. unfold body_safe, BP. cbn [br_red br_st].
  apply if_detail_SI; [apply sp_print_SI; [exact H|apply okps_one; now apply wf_cls]|].
  intros E s' Hs'. apply sp_print_SI; [exact Hs'|].
  split; [repeat constructor|exact (Hs E)].
Qed.

Lemma Forall_map' {A B} (P : B -> Prop) (f : A -> B) l : Forall (fun x => P (f x)) l -> Forall P (List.map f l).
Proof. induction 1; cbn [List.map]; constructor; assumption. Qed.

Lemma multi_node wd i k cs :
  Forall (fun c => NodeOK wd (sem c)) cs ->
  (k = MJoin -> Forall (fun c => tail_ok (nested_v (sem c))) cs) ->
  NodeOK wd (sem (Multi i k cs)).
Proof.
  intros Hcs Hj. apply Forall_map' in Hcs. unfold NodeOK. destruct k; cbn [sem ns_fmt].
  - apply nodeok_intro; [exact I|exact Hcs|intro E; split; [reflexivity|discriminate]|].
    intros o st H. unfold body_safe, BP. cbn [br_red br_st].
    specialize (Hj eq_refl). apply (Forall_map' (fun sc => tail_ok (nested_v sc)) sem) in Hj. revert Hj.
    generalize (List.map sem cs). intros scs Hj.
    assert (G : forall (acc : bool * fstate), SI wd (snd acc) ->
       SI wd (snd (fold_left
          (fun (acc : bool * fstate) (sc : nsem) =>
             let s0 := if fst acc then snd acc else sp_print (snd acc) [PUnsafe [nl]] in
             (false, sp_print s0 [nested_v sc])) scs acc))).
    { induction Hj as [|sc l Hsc Hl IH]; intros acc Ha; cbn [fold_left]; [exact Ha|].
      apply IH. cbv zeta. cbn [snd]. apply sp_print_SI; [|now apply okps_one].
      destruct (fst acc); [exact Ha|]. apply sp_print_SI; [exact Ha|okps_simple]. }
    exact (G (true, st) H).
  - apply nodeok_intro; [exact I|exact Hcs|intro E; split; [reflexivity|discriminate]|].
    intros o st H. now apply default_body_BP.
  - apply nodeok_intro; [exact I|exact Hcs|intro E; split; [reflexivity|discriminate]|].
    intros o st H. now apply default_body_BP.
Qed.

Lemma oleaf_node wd i msg d cs :
  Forall (fun c => NodeOK wd (sem c)) cs -> NodeOK wd (sem (OLeaf i msg d cs)).
Proof.
  intros Hcs. apply Forall_map' in Hcs. unfold NodeOK. cbn [sem ns_fmt].
  apply nodeok_intro; [exact I|exact Hcs|intro E; split; [apply go_type_ascii|discriminate]|].
  intros o st H. unfold body_safe, BP. cbn [br_red br_st].
  apply if_detail_SI; [apply sp_print_SI; [exact H|okps_simple]|].
  intros _ s Hs. now apply opaque_details_SI.
Qed.

Lemma owrap_node wd i pfx d mt c :
  NodeOK wd (sem c) -> NodeOK wd (sem (OWrap i pfx d mt c)).
Proof.
  intros Hc. unfold NodeOK. cbn [sem ns_fmt].
  apply nodeok_intro; [exact Hc|constructor|intro E; split; [reflexivity|discriminate]|].
  intros o st H. unfold body_safe, BP. cbn [br_red br_st].
  apply if_detail_SI; [|intros _ s Hs; now apply opaque_details_SI].
  destruct pfx; [exact H|]. apply sp_print_SI; [exact H|okps_simple].
Qed.

(* ------------------------------------------------------------------ *)
(* 6. hypotheses on the error value, and the theorems                  *)
(* ------------------------------------------------------------------ *)
Definition allP (P : err -> Prop) (l : list err) : Prop :=
  fold_right (fun x acc => P x /\ acc) True l.

Lemma allP_Forall P l : allP P l <-> Forall P l.
Proof.
  induction l as [|x l IH]; cbn [allP fold_right]; split; intro H.
  - constructor.
  - exact I.
  - constructor; [exact (proj1 H)|apply IH, (proj2 H)].
  - inversion H; subst. split; [assumption|]. now apply IH.
Qed.

(* %v / %s: the redactable strings stored in the nodes the short rendering
   visits (causes and multi-causes; not the secondary error of
   WithSecondaryError, not the error hidden behind a barrier) are well-formed *)
Fixpoint sh_ok (e : err) : Prop :=
  match e with
  | Leaf _ k => match k with LLeafError rm => wf_red rm = true | _ => True end
  | Wrap _ w c => wfield_ok w /\ sh_ok c
  | Second _ c _ => sh_ok c
  | Barrier _ smsg _ => wf_red smsg = true
  | Multi _ _ cs => allP sh_ok cs
  | OLeaf _ _ _ cs => allP sh_ok cs
  | OWrap _ _ _ _ c => sh_ok c
  end.

(* the glue condition on the entries of the %+v run of [e] *)
Definition glue_top (e : err) : Prop := glue_ns (sem e) = true.

(* %+v: the same for EVERY node (hidden ones are rendered too), stack frames
   without marker runes, and the glue condition for the nested %+v renderings *)
Fixpoint vb_ok (e : err) : Prop :=
  match e with
  | Leaf _ k => match k with
                | LLeafError rm => wf_red rm = true
                | LPkgFund _ stk => stack_ok stk
                | _ => True
                end
  | Wrap _ w c => wfield_ok w /\ wstack_ok w /\ vb_ok c
  | Second _ c s => vb_ok c /\ vb_ok s /\ glue_top s
  | Barrier _ smsg m => wf_red smsg = true /\ vb_ok m /\ glue_top m
  | Multi _ _ cs => allP vb_ok cs
  | OLeaf _ _ _ cs => allP vb_ok cs
  | OWrap _ _ _ _ c => vb_ok c
  end.

Lemma Forall_impl' {A} (P Q : A -> Prop) l : Forall (fun x => P x -> Q x) l -> Forall P l -> Forall Q l.
Proof.
  induction 1 as [|x l Hx Hl IH]; intro H; [constructor|].
  inversion H; subst. constructor; [now apply Hx|now apply IH].
Qed.

Lemma vb_sh e : vb_ok e -> sh_ok e.
Proof.
  induction e using err_ind'; cbn [vb_ok sh_ok].
  - destruct k; trivial.
  - intros (A & _ & C). split; [exact A|now apply IHe].
  - intros (A & _). now apply IHe1.
  - intros (A & _). exact A.
  - rewrite !allP_Forall. now apply Forall_impl'.
  - rewrite !allP_Forall. now apply Forall_impl'.
  - exact IHe.
Qed.

Lemma short_node_ok e : sh_ok e -> NodeOK false (sem e).
Proof.
  induction e using err_ind'; cbn [sh_ok].
  - intro Hk. apply leaf_node; [exact Hk|discriminate].
  - intros [A B]. apply wrap_node; [exact A|discriminate|now apply IHe].
  - intro A. apply second_node; [now apply IHe1|discriminate].
  - intro A. apply barrier_node; [exact A|discriminate].
  - rewrite allP_Forall. intro A. pose proof (Forall_impl' _ _ _ H A) as HN.
    apply multi_node; [exact HN|]. intros _. revert HN. apply Forall_impl.
    intros c Hc. now apply nested_v_ok.
  - rewrite allP_Forall. intro A. apply oleaf_node. exact (Forall_impl' _ _ _ H A).
  - intro A. apply owrap_node. now apply IHe.
Qed.

Lemma verbose_node_ok e : vb_ok e -> NodeOK true (sem e).
Proof.
  induction e using err_ind'; cbn [vb_ok].
  - intro Hk. apply leaf_node.
    + destruct k; trivial.
    + intros _ stk E. destruct k; try discriminate. cbn [leaf_stack] in E. injection E as <-. exact Hk.
  - intros (A & B & C). apply wrap_node; [exact A|intros _; exact B|now apply IHe].
  - intros (A & B & C). apply second_node; [now apply IHe1|]. intros _.
    apply nested_plus_v_ok; [now apply IHe2|exact C].
  - intros (A & B & C). apply barrier_node; [exact A|]. intros _.
    apply nested_plus_v_ok; [now apply IHe|exact C].
  - rewrite allP_Forall. intro A. pose proof (Forall_impl' _ _ _ H A) as HN.
    apply multi_node; [exact HN|]. intros _. revert A. apply Forall_impl.
    intros c Hc. apply nested_v_ok, short_node_ok, vb_sh, Hc.
  - rewrite allP_Forall. intro A. apply oleaf_node. exact (Forall_impl' _ _ _ H A).
  - intro A. apply owrap_node. now apply IHe.
Qed.

(* ---- the renderings as a caller sees them ---- *)

(* redact.Sprint(err), redact.Sprintf("%v" / "%s", err) *)
Theorem red_short_raw_ok e : sh_ok e -> cln (fmt_red_short e).
Proof.
  intro H. unfold fmt_red_short. apply sprint_cln, okps_one, nested_v_ok, short_node_ok, H.
Qed.

Theorem red_short_wf e : sh_ok e -> wf_red (fmt_red_short e) = true.
Proof. intro H. apply cls_wf, cln_cls, red_short_raw_ok, H. Qed.

(* redact.Sprintf("%+v", err) *)
Theorem red_verbose_raw_ok e : vb_ok e -> glue_top e -> cln (fmt_red_verbose e).
Proof.
  intros H G. unfold fmt_red_verbose.
  apply sprint_cln, okps_one, nested_plus_v_ok; [now apply verbose_node_ok|exact G].
Qed.

Theorem red_verbose_wf e : vb_ok e -> glue_top e -> wf_red (fmt_red_verbose e) = true.
Proof. intros H G. apply cls_wf, cln_cls, red_verbose_raw_ok; assumption. Qed.

(* ------------------------------------------------------------------ *)
(* 7. what is FALSE: witnesses                                         *)
(* ------------------------------------------------------------------ *)

(* (a) without any hypothesis on the stored redactable strings the statement is
   false already for %v: a leafError whose message is a lone opening marker
   (such a value can come from the wire: the decoder does not validate) *)
Example red_short_needs_hyp :
  let e := Leaf 1%positive (LLeafError m_start) in
  wf_red (fmt_red_short e) = false /\ wf_red (fmt_red_verbose e) = false.
Proof. vm_compute. split; reflexivity. Qed.

(* (b) %+v is FALSE even for errors built through the public API whose stored
   strings are outputs of the printer: errors.New("\xe2\x80\n\xb9\na").  The
   message is a "safe" constant; state.Write cuts it at the first newline into
   head = E2 80 and details = B9 "\n  |\n  | a"; printEntry writes head and
   details back to back, which assembles the opening marker E2 80 B9, never
   closed before the newline that follows.  The %v rendering of the same error
   is well-formed. *)
Definition bad_new_msg : str := [226; 128; 10; 185; 10; 97].

Example red_verbose_false :
  exists e, fst (build (mkbenv []) (RNew bad_new_msg) bs_init) = Some e /\
            vb_ok e /\ sh_ok e /\
            wf_red (fmt_red_short e) = true /\
            wf_red (fmt_red_verbose e) = false /\
            glue_ns (sem e) = false.
Proof.
  eexists. split; [vm_compute; reflexivity|].
  split; [cbn [vb_ok wfield_ok wstack_ok]; repeat split; try (now constructor)|].
  split; [cbn [sh_ok wfield_ok]; repeat split|].
  vm_compute. repeat split.
Qed.

(* the same without the stack layer, to show the three strings *)
Example red_verbose_false_text :
  let e := Leaf 1%positive (LLeafError bad_new_msg) in
  raw_ok bad_new_msg /\
  sprint_pieces [PSafe bad_new_msg] = bad_new_msg /\
  fmt_red_verbose e =
    [226; 128; nl] ++ lit "(1) " ++ m_start ++ [nl] ++ lit "  |" ++ [nl] ++ lit "  | a" ++ [nl] ++
    lit "Error types: (1) *errutil.leafError".
Proof. vm_compute. repeat split. Qed.

(* (c) %v is false for some errors built through the public API, because the
   hypothesis [sh_ok] is not an invariant of construction:
   errors.Newf("%v%s", errors.New("\xe2\n"), redact.Safe("\x80\xb9a")).
   The %v rendering of the inner error is the single byte E2 (the engine drops the
   trailing newline), it is spliced as a RedactableString in front of the safe
   argument, and the stored message of the outer leafError is E2 80 B9 "a". *)
Example red_short_false_built :
  exists e, fst (build (mkbenv [])
                   (RNewf [FErr VV (RNew [226; nl]); FSafeStr VS [128; 185; 97]]) bs_init) = Some e /\
            fmt_red_short e = m_start ++ [97] /\
            wf_red (fmt_red_short e) = false.
Proof. eexists. split; [vm_compute; reflexivity|]. vm_compute. split; reflexivity. Qed.

(* (d) stack frames are written raw into the redactable %+v output: a marker rune
   in a function name or a file path breaks it *)
Example red_verbose_needs_stack_ok :
  let e := Wrap 2%positive (WStack [mkframe 0 m_start (lit "f.go") 1]) (Leaf 1%positive (LErrString [97])) in
  sh_ok e /\ wf_red (fmt_red_verbose e) = false.
Proof. split; [cbn; tauto|vm_compute; reflexivity]. Qed.

(* ------------------------------------------------------------------ *)
(* 8. "balanced within every line" is part of [wf_red]                 *)
(* ------------------------------------------------------------------ *)
Lemma lines_closed s : forall o k k',
  run2 s (Some (o, k)) = Some (false, k') ->
  exists l ls, split_on nl s = l :: ls /\
               (exists k2, run2 l (Some (o, k)) = Some (false, k2)) /\ Forall cls ls.
Proof.
  induction s as [|x r IH]; intros o k k' H.
  - exists [], []. split; [reflexivity|]. split; [|constructor]. exists k'. exact H.
  - rewrite run2_cons in H. cbn [split_on].
    destruct (step2 (Some (o, k)) x) as [[o2 k2]|] eqn:Es; [|rewrite run2_None in H; discriminate].
    destruct (x =? nl) eqn:En.
    + apply N.eqb_eq in En. subst x. apply step2_nl in Es as [Ho Eq]. cbn [fst] in Ho. subst o.
      injection Eq as -> ->. destruct (IH _ _ _ H) as (l & ls & E & Hl & Hls).
      exists [], (l :: ls). split; [now rewrite E|]. split; [exists k; reflexivity|].
      constructor; [exact Hl|exact Hls].
    + destruct (IH _ _ _ H) as (l & ls & E & [k3 Hl] & Hls). rewrite E.
      exists (x :: l), ls. split; [reflexivity|]. split; [|exact Hls].
      exists k3. rewrite run2_cons, Es. exact Hl.
Qed.

Theorem wf_red_lines s :
  wf_red s = true -> Forall (fun l => wf_red l = true) (split_on nl s).
Proof.
  intro H. apply wf_cls in H. destruct H as [k H].
  destruct (lines_closed s false K0 k H) as (l & ls & E & Hl & Hls). rewrite E.
  constructor; [apply cls_wf; exact Hl|]. revert Hls. apply Forall_impl. intros a. apply cls_wf.
Qed.

Corollary red_short_lines_wf e :
  sh_ok e -> Forall (fun l => wf_red l = true) (split_on nl (fmt_red_short e)).
Proof. intro H. now apply wf_red_lines, red_short_wf. Qed.

Corollary red_verbose_lines_wf e :
  vb_ok e -> glue_top e -> Forall (fun l => wf_red l = true) (split_on nl (fmt_red_verbose e)).
Proof. intros H G. now apply wf_red_lines, red_verbose_wf. Qed.

(* the hypotheses are decidable by evaluation on a concrete error: hostile
   strings in unsafe positions, a secondary error, a barrier *)
Example red_verbose_wf_example :
  let hidden := Leaf 2%positive (LErrString (m_start ++ [nl] ++ m_start)) in
  let sec := Barrier 3%positive (sprint_pieces [PUnsafe (m_end ++ [226; 128])]) hidden in
  let e := Wrap 5%positive (WPrefix (sprint_pieces [PUnsafe [226; 128; 185; nl; 97]; PLit (lit " x")]))
             (Second 4%positive (Leaf 1%positive (LLeafError (sprint_pieces [PSafe [97; nl; 98; 226]]))) sec) in
  wf_red (fmt_red_verbose e) = true /\ wf_red (fmt_red_short e) = true.
Proof.
  cbv zeta. split.
  - apply red_verbose_wf.
    + cbn [vb_ok wfield_ok wstack_ok]. repeat split; vm_compute; reflexivity.
    + vm_compute. reflexivity.
  - apply red_short_wf. cbn [sh_ok wfield_ok]. repeat split; vm_compute; reflexivity.
Qed.
