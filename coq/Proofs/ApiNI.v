(* C03 "unsafe strings never reach PII-free outputs", stated on the INPUT of the public API.

   Proofs/EngineNI.v and Proofs/DetailsNI.v prove non-interference for pairs of error VALUES related
   by [ueq] / [ueq'] / [ueq''].  Here the same for pairs of CONSTRUCTOR EXPRESSIONS (recipes of
   Model/Build.v):

     [req r1 r2]        the two recipes apply the same constructors in the same places; every string
                        that enters through a safe channel is equal (what Build.v turns into PLit /
                        PSafe: format literals, redact.Safe arguments, the messages of errors.New /
                        Wrap / WithMessage, and telemetry keys, domains, issue links, tag keys and
                        safe tag values, codes, errno numbers, sentinels, the kinds of the harness
                        types and their safe payloads, the op / net / syscall fields of the os
                        errors); every string that enters through an unsafe channel (PUnsafe
                        arguments, messages of stdlib / pkg-errors / gRPC / harness errors, hints,
                        details, string tag values, paths, HandledWithMessage messages, ...) may
                        differ provided the two have the same length classes of lines ([srel], i.e.
                        [sh3] of EngineNI.v); integers printed as unsafe arguments are unconstrained
                        in messages and tags.

     [api_ueq]          req r1 r2 -> build env r1 s = (Some e1, s1) -> build env r2 s = (Some e2, s2)
                        -> ueq e1 e2 /\ s1 = s2                       (no other hypothesis)
     [api_ueq'']        ... -> ueq'' e1 e2 /\ sh_ok e1 /\ sh_ok e2 /\ s1 = s2
     [api_nil_iff]      the two calls return nil together (and leave the same state)
     [api_ni_short]     ... -> redact (fmt_red_short e1) = redact (fmt_red_short e2)
                        for ARBITRARY bytes in every string (no [in_fragment] / [strs_ok] needed)
     [req_in_fragment]  req r1 r2 -> in_fragment r1 = true /\ in_fragment r2 = true
     [api_ni_verbose]   the same for %+v under strs_ok r1, strs_ok r2 and stacks_ok env
     [api_ni_details], [api_ni_report], [api_ni_encode]
                        GetAllSafeDetails, the Sentry report, the reportable part of the encoding
     [req_refl]         ni_frag r = true -> req r r
     [req_frag]         req r1 r2 -> ni_frag r1 = true /\ ni_frag r2 = true
                        i.e. the domain of [req] is exactly the boolean fragment [ni_frag] (section 7)

   The domain of [req] (= [ni_frag]):
     - no RTransfer, no stdlib errors.Join (RStdJoin), no *ut.WFull wrapper (RUWrap UWFull);
     - in the format calls that compute a redactable MESSAGE (Newf, AssertionFailedf, Wrapf,
       WithMessagef, HandledWithMessagef, NewAssertionErrorWithWrappedErrf, WithSafeDetails) an error
       argument occurs in LAST position only and not with %+v ([fmt_lastarg] of ApiWf.v);
     - no error argument in the format calls that compute a PLAIN string (fmt.Errorf, WithHintf,
       WithDetailf); there the integer arguments must have the same number-of-digits class.
   Section 8 gives, for each exclusion that is a real dependency on unsafe content, two recipes that
   differ only in unsafe strings of the same line classes and whose redacted renderings differ
   ([api_ni_false_*]), and explains what is left ([transfer_outside_ueq]; error arguments in the
   middle of a message: unproved, no counter-example found). *)
From Coq Require Import Lia List Bool.
From Errv Require Import Base.Str Redact.Markers Redact.Buffer Model.Err Model.Sem Model.Details Model.Marks
     Model.Codec Model.Access Model.Report Model.Build
     Proofs.StrFacts Proofs.FastIs Proofs.RedactFacts Proofs.RedactWf Proofs.EngineFacts Proofs.EngineWf
     Proofs.EngineNI Proofs.HiddenNI Proofs.HiddenVisible Proofs.SpecText Proofs.DetailsNI Proofs.ApiWf.
Import ListNotations.

(* ================================================================== *)
(* 1. line classes of strings                                          *)
(* ================================================================== *)
Lemma is_empty_lc f : is_empty f = Nat.eqb (lc f) 0.
Proof. destruct f as [|? [|? ?]]; reflexivity. Qed.

Lemma shape_sh3 s : shape s = List.map (fun n => Nat.eqb n 0) (sh3 s).
Proof.
  unfold shape, sh3. rewrite map_map. apply map_ext. intro f. apply is_empty_lc.
Qed.

Lemma sh3_shape a b : sh3 a = sh3 b -> shape a = shape b.
Proof. intro H. now rewrite !shape_sh3, H. Qed.

Definition up (n : nat) : nat := match n with O => 1 | _ => 2 end%nat.
Definition addc (e f : nat) : nat :=
  match e with O => f | S O => match f with O => 1 | _ => 2 end | _ => 2 end%nat.

Lemma sh3_nil : sh3 [] = [0%nat].
Proof. reflexivity. Qed.

Lemma sh3_cons_nl s : sh3 (nl :: s) = 0%nat :: sh3 s.
Proof. reflexivity. Qed.

Lemma sh3_ne s : exists e r, sh3 s = e :: r.
Proof. unfold sh3. destruct (split_on_cons nl s) as [l [ls ->]]. cbn. eauto. Qed.

Lemma sh3_cons x s : (x =? nl) = false ->
  sh3 (x :: s) = match sh3 s with e :: r => up e :: r | [] => [1%nat] end.
Proof.
  intro E. unfold sh3. cbn [split_on]. rewrite E. destruct (split_on_cons nl s) as [l [ls ->]].
  cbn [List.map]. f_equal. destruct l as [|? [|? ?]]; reflexivity.
Qed.

Fixpoint scat3 (sa sb : list nat) : list nat :=
  match sa with
  | [] => sb
  | e :: ra =>
    match ra with
    | [] => match sb with [] => [e] | f :: r => addc e f :: r end
    | _ => e :: scat3 ra sb
    end
  end.

Lemma sh3_app a b : sh3 (a ++ b) = scat3 (sh3 a) (sh3 b).
Proof.
  induction a as [|x a IH].
  - cbn [app]. rewrite sh3_nil. destruct (sh3_ne b) as [f [r ->]]. reflexivity.
  - cbn [app]. destruct (x =? nl) eqn:E.
    + apply N.eqb_eq in E. subst x. rewrite !sh3_cons_nl, IH.
      destruct (sh3_ne a) as [e [r ->]]. reflexivity.
    + rewrite !sh3_cons, IH by exact E.
      destruct (sh3_ne a) as [e [r ->]]. destruct (sh3_ne b) as [f [r' ->]].
      destruct r as [|e2 r2]; [|reflexivity]. cbn [scat3]. f_equal.
      destruct e as [|[|e]]; destruct f as [|[|f]]; reflexivity.
Qed.

Lemma sh3_app_congr a1 a2 b1 b2 : sh3 a1 = sh3 a2 -> sh3 b1 = sh3 b2 -> sh3 (a1 ++ b1) = sh3 (a2 ++ b2).
Proof. intros Ha Hb. now rewrite !sh3_app, Ha, Hb. Qed.

Lemma sh3_pre p b1 b2 : sh3 b1 = sh3 b2 -> sh3 (p ++ b1) = sh3 (p ++ b2).
Proof. intro H. now apply sh3_app_congr. Qed.

(* ================================================================== *)
(* 2. strconv.Quote never produces a line break                        *)
(* ================================================================== *)
Definition his (k : nat) (s : str) : Prop := Forall (fun b => (128 <=? b) = true) (firstn k s).

Lemma no_nl_cons x s : (x =? nl) = false -> no_nl s = true -> no_nl (x :: s) = true.
Proof. intros E H. unfold no_nl in *. cbn [forallb]. now rewrite E, H. Qed.

Lemma hi_not_nl b : (128 <=? b) = true -> (b =? nl) = false.
Proof. intro H. apply N.leb_le in H. apply N.eqb_neq. unfold nl. lia. Qed.

Lemma hex_digit_nl n : (hex_digit n =? nl) = false.
Proof. unfold hex_digit. apply N.eqb_neq. unfold nl. destruct (n <? 10); lia. Qed.

Lemma hex_esc_no_nl b : no_nl (hex_esc b) = true.
Proof.
  unfold hex_esc. apply no_nl_cons; [reflexivity|]. apply no_nl_cons; [reflexivity|].
  apply no_nl_cons; [apply hex_digit_nl|]. apply no_nl_cons; [apply hex_digit_nl|reflexivity].
Qed.

Lemma quote_byte_no_nl b : no_nl (quote_byte b) = true.
Proof.
  unfold quote_byte.
  repeat match goal with |- context [if ?c then _ else _] => destruct c eqn:? end;
    try reflexivity; try apply hex_esc_no_nl.
  apply no_nl_cons; [|reflexivity]. assumption.
Qed.

Lemma is_cont_hi c : is_cont c = true -> (128 <=? c) = true.
Proof. unfold is_cont. intro H. now apply andb_true_iff in H. Qed.

Lemma quote_bytes_no_nl s : forall k, his k s -> no_nl (quote_bytes s k) = true.
Proof.
  induction s as [|b r IH]; intros k H; [reflexivity|].
  destruct k as [|k].
  - cbn [quote_bytes]. destruct (b <? 128) eqn:Eb.
    + unfold no_nl. rewrite forallb_app. fold (no_nl (quote_byte b)). fold (no_nl (quote_bytes r 0)).
      rewrite quote_byte_no_nl, IH; [reflexivity|constructor].
    + assert (Hb : (b =? nl) = false).
      { apply N.ltb_ge in Eb. apply N.eqb_neq. unfold nl. lia. }
      assert (HX : no_nl (hex_esc b ++ quote_bytes r 0) = true).
      { unfold no_nl. rewrite forallb_app. fold (no_nl (hex_esc b)). fold (no_nl (quote_bytes r 0)).
        rewrite hex_esc_no_nl, IH; [reflexivity|constructor]. }
      destruct r as [|c1 r1]; [apply hex_esc_no_nl|].
      destruct (valid2 b c1) eqn:V2.
      { apply no_nl_cons; [exact Hb|]. apply IH. unfold his. cbn [firstn].
        constructor; [|constructor]. unfold valid2 in V2. apply andb_true_iff in V2 as [_ V2].
        now apply is_cont_hi. }
      destruct r1 as [|c2 r2]; [exact HX|].
      destruct (valid3 b c1 c2) eqn:V3.
      { apply no_nl_cons; [exact Hb|]. apply IH. unfold his. cbn [firstn].
        unfold valid3 in V3. apply andb_true_iff in V3 as [V3a V3b].
        assert (C1 : is_cont c1 = true).
        { repeat (apply orb_true_iff in V3b as [V3b|V3b]);
            repeat (apply andb_true_iff in V3b as [? V3b]); try assumption;
            unfold is_cont, in_rng in *; repeat (match goal with H : _ && _ = true |- _ => apply andb_true_iff in H as [? ?] end);
            apply andb_true_iff; split;
            repeat match goal with H : (_ <=? _) = true |- _ => apply N.leb_le in H
                                 | H : (_ <? _) = true |- _ => apply N.ltb_lt in H end;
            first [apply N.leb_le | apply N.ltb_lt]; lia. }
        constructor; [now apply is_cont_hi|]. constructor; [now apply is_cont_hi|constructor]. }
      destruct r2 as [|c3 r3]; [exact HX|].
      destruct (valid4 b c1 c2 c3) eqn:V4; [|exact HX].
      apply no_nl_cons; [exact Hb|]. apply IH. unfold his. cbn [firstn].
      unfold valid4 in V4. apply andb_true_iff in V4 as [V4a V4b]. apply andb_true_iff in V4a as [V4a V4c].
      assert (C1 : is_cont c1 = true).
      { repeat (apply orb_true_iff in V4b as [V4b|V4b]);
          repeat (apply andb_true_iff in V4b as [? V4b]); try assumption;
          unfold is_cont, in_rng in *; repeat (match goal with H : _ && _ = true |- _ => apply andb_true_iff in H as [? ?] end);
          apply andb_true_iff; split;
          repeat match goal with H : (_ <=? _) = true |- _ => apply N.leb_le in H
                               | H : (_ <? _) = true |- _ => apply N.ltb_lt in H end;
          first [apply N.leb_le | apply N.ltb_lt]; lia. }
      constructor; [now apply is_cont_hi|]. constructor; [now apply is_cont_hi|].
      constructor; [now apply is_cont_hi|constructor].
  - cbn [quote_bytes]. unfold his in H. cbn [firstn] in H. inversion H; subst.
    apply no_nl_cons; [now apply hi_not_nl|]. now apply IH.
Qed.

Lemma shape_go_quote s : shape (go_quote s) = [false].
Proof.
  assert (H : no_nl (go_quote s) = true).
  { unfold go_quote. apply no_nl_cons; [reflexivity|]. unfold no_nl. rewrite forallb_app.
    fold (no_nl (quote_bytes s 0)). rewrite quote_bytes_no_nl by constructor. reflexivity. }
  rewrite shape_no_nl by exact H. reflexivity.
Qed.

(* ================================================================== *)
(* 3. the relation on recipes                                          *)
(* ================================================================== *)
(* unsafe strings: same length classes of lines *)
Definition srel (m1 m2 : str) : Prop := sh3 m1 = sh3 m2.

(* unsafe strings that become the whole text of an *errors.errorString (stdlib errors.New,
   fmt.Errorf without %w): the special-case printer of the library prints such a leaf as SAFE when
   its text is the text of one of the os / context sentinels ([sentinel_text_is_kept] in
   EngineNI.v), so both or none are such a text, and then they are equal *)
Definition sent_text (m : str) : bool := lsent 1%positive (LErrString m).
Definition srel_sent (m1 m2 : str) : Prop :=
  sent_text m1 = sent_text m2 /\ (if sent_text m1 then m1 = m2 else srel m1 m2).

Definition tvreq (v1 v2 : tagval) : Prop :=
  match v1, v2 with
  | TVNil, TVNil => True
  | TVStr a, TVStr b => srel a b
  | TVInt _, TVInt _ => True
  | TVSafe a, TVSafe b => a = b
  | _, _ => False
  end.
Definition treq (kv1 kv2 : str * tagval) : Prop := fst kv1 = fst kv2 /\ tvreq (snd kv1) (snd kv2).

Definition ulreq (u : uleaf) (m1 m2 : str) (x1 x2 : list str) : Prop :=
  match u with
  | ULSafeMsg => m1 = m2
  | ULSafeDet => srel m1 m2 /\ x1 = x2
  | _ => srel m1 m2
  end.

(* the text of a format call without error arguments *)
Fixpoint fplain (f : list fpiece) : str :=
  match f with
  | [] => []
  | p :: rest =>
    match p with
    | FLit l => l ++ fplain rest
    | FStr _ x | FSafeStr _ x => x ++ fplain rest
    | FInt _ z | FSafeInt _ z => dec_of_Z z ++ fplain rest
    | FErr _ _ => fplain rest
    | FXStr _ | FXSafeStr _ | FXInt _ => lit "%!(EXTRA " ++ snd (extras_go (p :: rest) true)
    end
  end.

(* [req r1 r2]: the same constructor expression up to the content of the strings that enter through
   an unsafe channel.  [preq pl]: arguments of a format call; [pl = true] when the call computes a
   plain string (fmt.Errorf, WithHintf, WithDetailf: the result is written by the engine itself, so
   the length classes of the digits of an integer matter, and error arguments are not covered),
   [pl = false] when it computes a redactable message.
   A format call that computes a message may have an error argument in last position only, not
   with %+v ([fmt_lastarg]). *)
Fixpoint req (r1 r2 : recipe) {struct r1} : Prop :=
  match r1, r2 with
  | RNil, RNil => True
  | RSentinel n1, RSentinel n2 => n1 = n2
  | RStdNew m1, RStdNew m2 => srel_sent m1 m2
  | RNew m1, RNew m2 => m1 = m2
  | RNewf f1, RNewf f2 => all2 (preq false) f1 f2 /\ fmt_lastarg f1 = true
  | RPkgNew m1, RPkgNew m2 => srel m1 m2
  | RErrno n1, RErrno n2 => n1 = n2
  | RUnimpl u1 d1 m1, RUnimpl u2 d2 m2 => u1 = u2 /\ d1 = d2 /\ srel m1 m2
  | RAssertf f1, RAssertf f2 => all2 (preq false) f1 f2 /\ fmt_lastarg f1 = true
  | RGrpcStatus c1 m1, RGrpcStatus c2 m2 => c1 = c2 /\ srel m1 m2
  | RGogoStatus c1 m1, RGogoStatus c2 m2 => c1 = c2 /\ srel m1 m2
  | RTestError, RTestError => True
  | RULeaf u1 m1 _ x1, RULeaf u2 m2 _ x2 => u1 = u2 /\ ulreq u1 m1 m2 x1 x2
  | RWrap a1 m1, RWrap a2 m2 => req a1 a2 /\ m1 = m2
  | RWrapf a1 f1, RWrapf a2 f2 => req a1 a2 /\ all2 (preq false) f1 f2 /\ fmt_lastarg f1 = true
  | RWithMessage a1 m1, RWithMessage a2 m2 => req a1 a2 /\ m1 = m2
  | RWithMessagef a1 f1, RWithMessagef a2 f2 => req a1 a2 /\ all2 (preq false) f1 f2 /\ fmt_lastarg f1 = true
  | RWithStack a1, RWithStack a2 => req a1 a2
  | RHint a1 h1, RHint a2 h2 => req a1 a2 /\ srel h1 h2
  | RHintf a1 f1, RHintf a2 f2 => req a1 a2 /\ all2 (preq true) f1 f2
  | RDetailf a1 f1, RDetailf a2 f2 => req a1 a2 /\ all2 (preq true) f1 f2
  | RDetail a1 h1, RDetail a2 h2 => req a1 a2 /\ srel h1 h2
  | RIssueLink a1 u1 d1, RIssueLink a2 u2 d2 => req a1 a2 /\ u1 = u2 /\ d1 = d2
  | RTelemetry a1 k1, RTelemetry a2 k2 => req a1 a2 /\ k1 = k2
  | RDomain a1 d1, RDomain a2 d2 => req a1 a2 /\ d1 = d2
  | RTags a1 t1, RTags a2 t2 => req a1 a2 /\ all2 treq t1 t2
  | RAssert a1, RAssert a2 => req a1 a2
  | RMark a1 x1, RMark a2 x2 => req a1 a2 /\ req x1 x2
  | RSafeDetails a1 f1, RSafeDetails a2 f2 => req a1 a2 /\ all2 (preq false) f1 f2 /\ fmt_lastarg f1 = true
  | RHTTP a1 c1, RHTTP a2 c2 => req a1 a2 /\ c1 = c2
  | RGrpc a1 c1, RGrpc a2 c2 => req a1 a2 /\ c1 = c2
  | RSecondary a1 x1, RSecondary a2 x2 => req a1 a2 /\ req x1 x2
  | RCombine a1 x1, RCombine a2 x2 => req a1 a2 /\ req x1 x2
  | RHandled a1, RHandled a2 => req a1 a2
  | RHandledMsg a1 m1, RHandledMsg a2 m2 => req a1 a2 /\ srel m1 m2
  | RHandledMsgf a1 f1, RHandledMsgf a2 f2 => req a1 a2 /\ all2 (preq false) f1 f2 /\ fmt_lastarg f1 = true
  | RHandledInDomain a1 d1, RHandledInDomain a2 d2 => req a1 a2 /\ d1 = d2
  | RHandledInDomainMsg a1 d1 m1, RHandledInDomainMsg a2 d2 m2 => req a1 a2 /\ d1 = d2 /\ srel m1 m2
  | RHandleAssert a1, RHandleAssert a2 => req a1 a2
  | RNewAssertWrapped a1 f1, RNewAssertWrapped a2 f2 =>
    req a1 a2 /\ all2 (preq false) f1 f2 /\ fmt_lastarg f1 = true
  | RJoin rs1, RJoin rs2 => all2 req rs1 rs2
  | RFmtErrorf f1, RFmtErrorf f2 => all2 (preq true) f1 f2 /\ srel_sent (fplain f1) (fplain f2)
  | RPkgMsg a1 m1, RPkgMsg a2 m2 => req a1 a2 /\ srel m1 m2
  | RPkgStack a1, RPkgStack a2 => req a1 a2
  | RPathError a1 o1 p1, RPathError a2 o2 p2 => req a1 a2 /\ o1 = o2 /\ srel p1 p2
  | RLinkError a1 o1 p1 q1, RLinkError a2 o2 p2 q2 => req a1 a2 /\ o1 = o2 /\ srel p1 p2 /\ srel q1 q2
  | RSyscallError a1 c1, RSyscallError a2 c2 => req a1 a2 /\ c1 = c2
  | ROpError a1 o1 n1 p1 q1, ROpError a2 o2 n2 p2 q2 =>
    req a1 a2 /\ o1 = o2 /\ n1 = n2 /\ srel p1 p2 /\ srel q1 q2
  | RForeignErrno n1, RForeignErrno n2 => n1 = n2
  | RUWrap u1 a1 m1 x1, RUWrap u2 a2 m2 x2 =>
    u1 = u2 /\ u1 <> UWFull /\ req a1 a2 /\ srel m1 m2 /\ (u1 = UWSafeDet -> x1 = x2)
  (* not covered: RStdJoin, RTransfer *)
  | _, _ => False
  end
with preq (pl : bool) (p1 p2 : fpiece) {struct p1} : Prop :=
  match p1, p2 with
  | FLit a, FLit b => a = b
  | FStr v1 a, FStr v2 b => v1 = v2 /\ srel a b
  | FSafeStr v1 a, FSafeStr v2 b => v1 = v2 /\ a = b
  | FInt v1 a, FInt v2 b => v1 = v2 /\ (pl = true -> srel (dec_of_Z a) (dec_of_Z b))
  | FSafeInt v1 a, FSafeInt v2 b => v1 = v2 /\ a = b
  | FErr v1 x1, FErr v2 x2 => v1 = v2 /\ pl = false /\ req x1 x2
  | FXStr a, FXStr b => srel a b
  | FXSafeStr a, FXSafeStr b => a = b
  | FXInt a, FXInt b => pl = true -> srel (dec_of_Z a) (dec_of_Z b)
  | _, _ => False
  end.

(* ================================================================== *)
(* 4. the invariant on pairs of built errors                           *)
(* ================================================================== *)
(* the positions of [sdx] and [encx] (DetailsNI.v) together *)
Definition lxx (k1 k2 : leafk) : Prop := lx k1 k2 /\ lx3 k1 k2.
Definition wxx (w1 w2 : wlayer) : Prop := wx w1 w2 /\ wx3 w1 w2.
Definition xx : err -> err -> Prop := nodes2 lxx wxx.

Lemma all2_imp_F {A} (P Q : A -> A -> Prop) l1 :
  Forall (fun a => forall b, P a b -> Q a b) l1 -> forall l2, all2 P l1 l2 -> all2 Q l1 l2.
Proof.
  induction 1 as [|x r Hx _ IH]; intros [|y s] H; simpl in *; try contradiction; [exact I|].
  split; [apply Hx, H|apply IH, H].
Qed.

Lemma nodes2_mono (L L' : leafk -> leafk -> Prop) (W W' : wlayer -> wlayer -> Prop) :
  (forall a b, L a b -> L' a b) -> (forall a b, W a b -> W' a b) ->
  forall e1 e2, nodes2 L W e1 e2 -> nodes2 L' W' e1 e2.
Proof.
  intros HL HW. induction e1 using err_ind'; intros e2 Hn; destruct e2; cbn [nodes2] in *; try exact I.
  - now apply HL.
  - split; [apply HW, Hn|apply IHe1, Hn].
  - split; [apply IHe1_1, Hn|apply IHe1_2, Hn].
  - now apply IHe1.
  - revert Hn. now apply all2_imp_F.
  - revert Hn. now apply all2_imp_F.
  - now apply IHe1.
Qed.

Lemma xx_sdx e1 e2 : xx e1 e2 -> sdx e1 e2.
Proof. apply nodes2_mono; intros a b H; apply H. Qed.
Lemma xx_encx e1 e2 : xx e1 e2 -> encx e1 e2.
Proof. apply nodes2_mono; intros a b H; apply H. Qed.

(* what every pair of errors built from related recipes satisfies *)
Definition G (e1 e2 : err) : Prop := ueq e1 e2 /\ xx e1 e2 /\ sh_ok e1 /\ sh_ok e2.

Lemma G_ueq'' e1 e2 : G e1 e2 -> ueq'' e1 e2.
Proof. intros (A & B & _). split; [split; [exact A|now apply xx_sdx]|now apply xx_encx]. Qed.

Lemma G_SRel e1 e2 : G e1 e2 -> SRel e1 e2.
Proof. intros (A & _ & C & D). now apply ueq_short. Qed.

(* wrapper layers *)
Definition WR (w1 w2 : wlayer) : Prop :=
  wrel w1 w2 /\ wxx w1 w2 /\ wfield_ok w1 /\ wfield_ok w2 /\
  (fsw w1 = true -> forall i1 i2 c1 c2,
     xrel (error_text (Wrap i1 w1 c1)) (error_text c1) (error_text (Wrap i2 w2 c2)) (error_text c2)).

Lemma G_wrap i1 i2 w1 w2 c1 c2 : WR w1 w2 -> G c1 c2 -> G (Wrap i1 w1 c1) (Wrap i2 w2 c2).
Proof.
  intros (A & B & C & D & E) (U & X & S1 & S2).
  refine (conj (conj A (conj U _)) (conj (conj B X) (conj (conj C S1) (conj D S2)))).
  intro F. now apply E.
Qed.

Lemma G_second i1 i2 c1 c2 s1 s2 : G c1 c2 -> G s1 s2 -> G (Second i1 c1 s1) (Second i2 c2 s2).
Proof.
  intros (U & X & S1 & S2) (U' & X' & _ & _).
  exact (conj (conj U U') (conj (conj X X') (conj S1 S2))).
Qed.

Lemma PR_wf ps1 ps2 : PR ps1 ps2 ->
  wf_red (sprint_pieces ps1) = true /\ wf_red (sprint_pieces ps2) = true /\
  redact (sprint_pieces ps1) = redact (sprint_pieces ps2).
Proof.
  intro H. destruct (sprint_PR _ _ H) as (A & B & C).
  split; [now apply cls_wf, cln_cls|]. split; [now apply cls_wf, cln_cls|exact C].
Qed.

Lemma G_barrier i1 i2 ps1 ps2 h1 h2 : PR ps1 ps2 -> G h1 h2 ->
  G (Barrier i1 (sprint_pieces ps1) h1) (Barrier i2 (sprint_pieces ps2) h2).
Proof.
  intros HP (U & X & _ & _). destruct (PR_wf _ _ HP) as (A & B & C).
  exact (conj (conj C U) (conj X (conj A B))).
Qed.

Lemma G_leaf i1 i2 k1 k2 : lrel k1 k2 -> lxx k1 k2 ->
  match k1 with LLeafError rm => wf_red rm = true | _ => True end ->
  match k2 with LLeafError rm => wf_red rm = true | _ => True end ->
  G (Leaf i1 k1) (Leaf i2 k2).
Proof. intros A B C D. exact (conj A (conj B (conj C D))). Qed.

Lemma G_PR pre1 pre2 e1 e2 : Forall2 prel0 pre1 pre2 -> G e1 e2 ->
  PR (pre1 ++ [nested_v (sem e1)]) (pre2 ++ [nested_v (sem e2)]).
Proof.
  intros Hpre HG. destruct (G_SRel _ _ HG) as [H E]. unfold nested_v. rewrite <- E.
  destruct (ns_safemsg (sem e1)).
  - apply PR_plain. apply Forall2_app; [exact Hpre|]. constructor; [reflexivity|constructor].
  - destruct (final_short_rel _ _ false H) as (C1 & C2 & R). now apply PR_raw.
Qed.

Lemma G_PR1 e1 e2 : G e1 e2 -> PR [nested_v (sem e1)] [nested_v (sem e2)].
Proof. intro H. exact (G_PR [] [] e1 e2 (Forall2_nil _) H). Qed.

(* leaves that are never one of the sentinels of the special-case printer *)
Ltac not_sent :=
  unfold lsent; cbn [own_sentinel orb]; unfold mark_is_sentinel; apply existsb_false;
  unfold sentinel_marks; repeat constructor; cbn [fst snd]; apply andb_false_intro2; reflexivity.

Lemma lsent_grpc c m : lsent 1%positive (LGrpcStatus c m) = false.
Proof. not_sent. Qed.
Lemma lsent_gogo c m : lsent 1%positive (LGogoStatus c m) = false.
Proof. not_sent. Qed.
Lemma lsent_user u m t x : lsent 1%positive (LUser u m t x) = false.
Proof. destruct u; not_sent. Qed.

(* the type marks of related errors are equal *)
Lemma lrel_leaf_ty' k1 k2 : lrel k1 k2 -> leaf_ty k1 = leaf_ty k2.
Proof. destruct k1, k2; cbn [lrel]; try contradiction; try reflexivity. now intros [<- _]. Qed.

Lemma wrel_tmark i1 i2 w1 w2 c1 c2 : wrel w1 w2 -> own_tmark (Wrap i1 w1 c1) = own_tmark (Wrap i2 w2 c2).
Proof.
  destruct w1, w2; cbn [wrel]; try contradiction; try reflexivity; intro H.
  - now subst.
  - now subst.
Qed.

Lemma ueq_tmarks e1 : forall e2, ueq e1 e2 -> ns_tmarks (sem e1) = ns_tmarks (sem e2).
Proof.
  induction e1 using err_ind'; intros e2 Hu; destruct e2; cbn [ueq] in Hu; try contradiction.
  - cbn [sem ns_tmarks]. unfold own_tmark, tmark_of, go_full_name. cbn [go_ty own_ext].
    now rewrite (lrel_leaf_ty' _ _ Hu).
  - destruct Hu as (Hw & Hc & _). cbn [sem ns_tmarks]. f_equal; [now apply wrel_tmark|now apply IHe1].
  - destruct Hu as (Hc & _). cbn [sem ns_tmarks]. f_equal. now apply IHe1_1.
  - reflexivity.
  - destruct Hu as (Hk & _ & _). rewrite !multi_tmarks_eq.
    destruct k, k0; cbn [mkrel] in Hk; try contradiction; reflexivity.
  - destruct Hu as (_ & <- & Hcs). cbn [sem ns_tmarks]. reflexivity.
  - destruct Hu as (_ & <- & _ & Hc). cbn [sem ns_tmarks]. f_equal. now apply IHe1.
Qed.

Lemma G_mark x1 x2 : G x1 x2 -> wrel (WMark (get_mark x1)) (WMark (get_mark x2)).
Proof.
  intros (U & _).
  assert (D : wrel (WMark (mkem (error_text x1) (ns_tmarks (sem x1))))
                   (WMark (mkem (error_text x2) (ns_tmarks (sem x2))))).
  { cbn [wrel em_types em_msg]. split; [now apply ueq_tmarks|now rewrite !shape_go_quote]. }
  destruct x1 as [| i1 w1 c1 | | | | |], x2 as [| i2 w2 c2 | | | | |]; cbn [ueq] in U; try contradiction;
    try exact D.
  destruct U as (Hw & _ & _).
  destruct w1, w2; cbn [wrel] in Hw; try contradiction; try exact D.
  cbn [get_mark]. exact Hw.
Qed.

(* ================================================================== *)
(* 5. the builder on two related recipes                               *)
(* ================================================================== *)
Section Api2.
Variable env : benv.

Definition GOpt (o1 o2 : option err) : Prop :=
  match o1, o2 with Some e1, Some e2 => G e1 e2 | None, None => True | _, _ => False end.
Definition RO (x1 x2 : option err * bstate) : Prop := GOpt (fst x1) (fst x2) /\ snd x1 = snd x2.
Definition RE (x1 x2 : err * bstate) : Prop := G (fst x1) (fst x2) /\ snd x1 = snd x2.

Lemma WR_simple w1 w2 : wrel w1 w2 -> wxx w1 w2 -> wfield_ok w1 -> wfield_ok w2 -> fsw w1 = false -> WR w1 w2.
Proof. intros A B C D E. refine (conj A (conj B (conj C (conj D _)))). rewrite E. discriminate. Qed.

Lemma mk_wrap_RE w1 w2 e1 e2 s : WR w1 w2 -> G e1 e2 -> RE (mk_wrap w1 e1 s) (mk_wrap w2 e2 s).
Proof. intros. unfold mk_wrap, fresh_oid. split; cbn [fst snd]; [now apply G_wrap|reflexivity]. Qed.

Lemma with_stack_RE e1 e2 s : G e1 e2 -> RE (with_stack env e1 s) (with_stack env e2 s).
Proof.
  intro H. unfold with_stack, fresh_stack. apply mk_wrap_RE; [|exact H].
  apply WR_simple; [reflexivity|split; exact I|exact I|exact I|reflexivity].
Qed.

Lemma RE_some x1 x2 : RE x1 x2 -> RO (some_ x1) (some_ x2).
Proof. intros [A B]. split; [exact A|exact B]. Qed.

Lemma on_RO r1 r2 s k1 k2 :
  RO (build env r1 s) (build env r2 s) ->
  (forall e1 e2 s', G e1 e2 -> RE (k1 e1 s') (k2 e2 s')) ->
  RO (on_ env r1 s k1) (on_ env r2 s k2).
Proof.
  intros [H E] Hk. unfold on_. destruct (build env r1 s) as [o1 s1], (build env r2 s) as [o2 s2].
  cbn [fst snd] in *. subst s2. destruct o1, o2; cbn [GOpt] in H; try contradiction.
  - now apply RE_some, Hk.
  - split; [exact I|reflexivity].
Qed.

Lemma on_f_RO r1 r2 f1 f2 s k1 k2 (Q : built_fmt -> built_fmt -> Prop) :
  RO (build env r1 s) (build env r2 s) ->
  (forall s', Q (fst (bfmt env f1 bf_empty s')) (fst (bfmt env f2 bf_empty s')) /\
              snd (bfmt env f1 bf_empty s') = snd (bfmt env f2 bf_empty s')) ->
  (forall e1 e2 b1 b2 s', G e1 e2 -> Q b1 b2 -> RE (k1 e1 b1 s') (k2 e2 b2 s')) ->
  RO (on_f_ env r1 f1 s k1) (on_f_ env r2 f2 s k2).
Proof.
  intros [H E] HQ Hk. unfold on_f_. destruct (build env r1 s) as [o1 s1], (build env r2 s) as [o2 s2].
  cbn [fst snd] in *. subst s2. destruct (HQ s1) as [B Es].
  destruct (bfmt env f1 bf_empty s1) as [b1 t1], (bfmt env f2 bf_empty s1) as [b2 t2].
  cbn [fst snd] in *. subst t2. destruct o1, o2; cbn [GOpt] in H; try contradiction.
  - now apply RE_some, Hk.
  - split; [exact I|reflexivity].
Qed.

Lemma handled_RE e1 e2 s : G e1 e2 -> RE (handled_ e1 s) (handled_ e2 s).
Proof.
  intro H. unfold handled_, fresh_oid. split; cbn [fst snd]; [|reflexivity].
  apply G_barrier; [now apply G_PR1|exact H].
Qed.

Lemma add_sec_RE es1 es2 : Forall2 G es1 es2 -> forall e1 e2 s, G e1 e2 ->
  RE (add_sec es1 e1 s) (add_sec es2 e2 s).
Proof.
  induction 1 as [|x1 x2 l1 l2 Hx _ IH]; intros e1 e2 s He; cbn [add_sec].
  - split; [exact He|reflexivity].
  - unfold fresh_oid. apply IH. now apply G_second.
Qed.

Lemma G_join i1 i2 es1 es2 : Forall2 G es1 es2 -> G (Multi i1 MJoin es1) (Multi i2 MJoin es2).
Proof.
  intro H. unfold G. cbn [ueq xx nodes2 sh_ok mkrel].
  assert (A : all2 ueq es1 es2 /\ all2 (nodes2 lxx wxx) es1 es2 /\ allP sh_ok es1 /\ allP sh_ok es2).
  { induction H as [|x y l1 l2 (U & X & S1 & S2) _ (IH1 & IH2 & IH3 & IH4)]; simpl; [tauto|].
    repeat split; assumption. }
  destruct A as (A1 & A2 & A3 & A4).
  refine (conj (conj I (conj A1 _)) (conj A2 (conj A3 A4))). congruence.
Qed.

Lemma lrel_str_refl m : lrel (LErrString m) (LErrString m).
Proof. cbn [lrel]. unfold frel. split; [reflexivity|]. destruct (lsent 1%positive (LErrString m)); reflexivity. Qed.

Lemma sentinel_RO n s : RO (sentinel n, s) (sentinel n, s).
Proof.
  split; [|reflexivity]. cbn [fst].
  destruct n as [|p]; [apply G_leaf; [apply lrel_str_refl|split; exact I|exact I|exact I]|].
  do 4 (try destruct p as [p|p|]); try exact I;
    (apply G_leaf; [first [apply lrel_str_refl|exact I]|split; exact I|exact I|exact I]).
Qed.

(* ---- format calls ---- *)
Definition Qr (x : recipe) : Prop := forall r2 s, req x r2 -> RO (build env x s) (build env r2 s).

Record BA (pl : bool) (b1 b2 : built_fmt) : Prop := mkBA {
  ba_ps : Forall2 prel0 (bf_pieces b1) (bf_pieces b2);
  ba_pl : pl = true -> sh3 (bf_plain b1) = sh3 (bf_plain b2);
  ba_w1 : bf_wrapped b1 = []; ba_w2 : bf_wrapped b2 = [];
  ba_e1 : bf_errs b1 = []; ba_e2 : bf_errs b2 = [];
  ba_n1 : bf_nw b1 = 0%nat; ba_n2 : bf_nw b2 = 0%nat }.

Record BFR (pl : bool) (b1 b2 : built_fmt) : Prop := mkBFR {
  fr_ps : PR (bf_pieces b1) (bf_pieces b2);
  fr_pl : pl = true -> sh3 (bf_plain b1) = sh3 (bf_plain b2) /\ bf_nw b1 = 0%nat;
  fr_w : Forall2 G (bf_wrapped b1) (bf_wrapped b2);
  fr_e : Forall2 G (bf_errs b1) (bf_errs b2);
  fr_n : bf_nw b1 = bf_nw b2 }.

Lemma BA_empty pl : BA pl bf_empty bf_empty.
Proof. constructor; cbn; try reflexivity. constructor. Qed.

Lemma BA_BFR pl b1 b2 : BA pl b1 b2 -> BFR pl b1 b2.
Proof.
  intros [H1 H2 H3 H4 H5 H6 H7 H8]. constructor.
  - now apply PR_plain.
  - intro E. split; [now apply H2|exact H7].
  - rewrite H3, H4. constructor.
  - rewrite H5, H6. constructor.
  - now rewrite H7, H8.
Qed.

Lemma BA_add pl b1 b2 p1 p2 l1 l2 : BA pl b1 b2 -> prel0 p1 p2 -> (pl = true -> sh3 l1 = sh3 l2) ->
  BA pl (bf_add b1 p1 l1) (bf_add b2 p2 l2).
Proof.
  intros [H1 H2 H3 H4 H5 H6 H7 H8] Hp Hl.
  constructor; cbn [bf_add bf_pieces bf_plain bf_wrapped bf_errs bf_nw]; try assumption.
  - apply Forall2_app; [exact H1|]. constructor; [exact Hp|constructor].
  - intro E. apply sh3_app_congr; [now apply H2|now apply Hl].
Qed.

Lemma extras_one_rel pl q1 q2 : preq pl q1 q2 ->
  Forall2 prel0 (fst (extras_one q1)) (fst (extras_one q2)) /\
  (pl = true -> sh3 (snd (extras_one q1)) = sh3 (snd (extras_one q2))).
Proof.
  destruct q1, q2; cbn [preq]; try contradiction; intro H; cbn [extras_one fst snd];
    try (split; [constructor|reflexivity]).
  - split; [|intros _; now apply sh3_pre].
    constructor; [reflexivity|]. constructor; [|constructor]. cbn [prel0]. now apply sh3_shape.
  - subst. split; [|reflexivity]. repeat constructor.
  - split; [|intro E; apply sh3_pre; now apply H].
    constructor; [reflexivity|]. constructor; [|constructor]. cbn [prel0]. now rewrite !shape_dec_of_Z.
Qed.

Lemma extras_go_rel pl l1 : forall l2 first, all2 (preq pl) l1 l2 ->
  Forall2 prel0 (fst (extras_go l1 first)) (fst (extras_go l2 first)) /\
  (pl = true -> sh3 (snd (extras_go l1 first)) = sh3 (snd (extras_go l2 first))).
Proof.
  induction l1 as [|q1 l1 IH]; intros [|q2 l2] first H; simpl in H; try contradiction.
  - cbn [extras_go fst snd]. split; [repeat constructor|reflexivity].
  - destruct H as [Hq Hl]. cbn [extras_go].
    destruct (extras_one_rel pl q1 q2 Hq) as [A1 A2]. destruct (IH l2 false Hl) as [B1 B2].
    destruct (extras_one q1) as [ps1 pl1], (extras_one q2) as [ps2 pl2].
    destruct (extras_go l1 false) as [rs1 rl1], (extras_go l2 false) as [rs2 rl2]. cbn [fst snd] in *.
    split.
    + apply Forall2_app; [destruct first; repeat constructor|]. now apply Forall2_app.
    + intro E. apply sh3_pre. apply sh3_app_congr; [now apply A2|now apply B2].
Qed.

Lemma bfmt_rel pl f1 : forall f2, all2 (preq pl) f1 f2 -> (pl = false -> fmt_lastarg f1 = true) ->
  Forall Qr (fkids f1) ->
  forall acc1 acc2 s, BA pl acc1 acc2 ->
    BFR pl (fst (bfmt env f1 acc1 s)) (fst (bfmt env f2 acc2 s)) /\
    snd (bfmt env f1 acc1 s) = snd (bfmt env f2 acc2 s).
Proof.
  induction f1 as [|p1 f1 IH]; intros [|p2 f2] Hf Hl HK acc1 acc2 s Hb; pose proof Hf as Hf0;
    simpl in Hf; try contradiction.
  - split; [now apply BA_BFR|reflexivity].
  - destruct Hf as [Hp Hf].
    assert (Hl' : plain_piece p1 = true -> pl = false -> fmt_lastarg f1 = true).
    { intros Hpp E. eapply la_tail; [exact Hpp|now apply Hl]. }
    destruct p1, p2; cbn [preq] in Hp; try contradiction; cbn [fkids] in HK.
    + (* FLit *) subst. cbn [bfmt]. apply IH; try assumption; [exact (Hl' eq_refl)|].
      apply BA_add; [exact Hb|reflexivity|reflexivity].
    + (* FStr *) destruct Hp as [<- Hs]. cbn [bfmt]. apply IH; try assumption; [exact (Hl' eq_refl)|].
      apply BA_add; [exact Hb|cbn [prel0]; now apply sh3_shape|intros _; exact Hs].
    + (* FSafeStr *) destruct Hp as [<- <-]. cbn [bfmt]. apply IH; try assumption; [exact (Hl' eq_refl)|].
      apply BA_add; [exact Hb|reflexivity|reflexivity].
    + (* FInt *) destruct Hp as [<- Hs]. cbn [bfmt]. apply IH; try assumption; [exact (Hl' eq_refl)|].
      apply BA_add; [exact Hb|cbn [prel0]; now rewrite !shape_dec_of_Z|exact Hs].
    + (* FSafeInt *) destruct Hp as [<- <-]. cbn [bfmt]. apply IH; try assumption; [exact (Hl' eq_refl)|].
      apply BA_add; [exact Hb|reflexivity|reflexivity].
    + (* FErr *) destruct Hp as (<- & -> & Hx).
      destruct (la_err _ _ _ (Hl eq_refl)) as [-> Hv]. destruct f2; [|contradiction].
      inversion HK as [|? ? Px _]; subst. specialize (Px _ s Hx). cbn [bfmt].
      destruct (build env r s) as [o1 s1], (build env r0 s) as [o2 s2].
      destruct Px as [Go Es]; cbn [fst snd] in *; subst s2.
      destruct Hb as [H1 H2 H3 H4 H5 H6 H7 H8].
      destruct o1 as [e1|], o2 as [e2|]; cbn [GOpt] in Go; try contradiction; cbv zeta; cbn [bfmt fst snd].
      * split; [|reflexivity]. constructor; cbn [bf_pieces bf_plain bf_wrapped bf_errs bf_nw].
        -- destruct v; try (now apply G_PR). exfalso. now apply Hv.
        -- discriminate.
        -- rewrite H3, H4. destruct v; first [apply Forall2_nil|apply Forall2_cons; [exact Go|apply Forall2_nil]].
        -- rewrite H5, H6. apply Forall2_cons; [exact Go|apply Forall2_nil].
        -- now rewrite H7, H8.
      * split; [|reflexivity]. constructor; cbn [bf_add bf_pieces bf_plain bf_wrapped bf_errs bf_nw].
        -- apply PR_plain. apply Forall2_app; [exact H1|]. constructor; [reflexivity|constructor].
        -- discriminate.
        -- rewrite H3, H4. constructor.
        -- rewrite H5, H6. constructor.
        -- now rewrite H7, H8.
    + (* FXStr *) cbn [bfmt]. cbv zeta. cbn [fst snd]. split; [|reflexivity].
      destruct (extras_go_rel pl _ _ true Hf0) as [A B]. destruct Hb as [H1 H2 H3 H4 H5 H6 H7 H8].
      constructor; cbn [bf_pieces bf_plain bf_wrapped bf_errs bf_nw].
      * apply PR_plain. apply Forall2_app; [exact H1|]. constructor; [reflexivity|exact A].
      * intro E. split; [|exact H7]. apply sh3_app_congr; [now apply H2|]. apply sh3_pre. now apply B.
      * rewrite H3, H4. constructor.
      * rewrite H5, H6. constructor.
      * now rewrite H7, H8.
    + (* FXSafeStr *) cbn [bfmt]. cbv zeta. cbn [fst snd]. split; [|reflexivity].
      destruct (extras_go_rel pl _ _ true Hf0) as [A B]. destruct Hb as [H1 H2 H3 H4 H5 H6 H7 H8].
      constructor; cbn [bf_pieces bf_plain bf_wrapped bf_errs bf_nw].
      * apply PR_plain. apply Forall2_app; [exact H1|]. constructor; [reflexivity|exact A].
      * intro E. split; [|exact H7]. apply sh3_app_congr; [now apply H2|]. apply sh3_pre. now apply B.
      * rewrite H3, H4. constructor.
      * rewrite H5, H6. constructor.
      * now rewrite H7, H8.
    + (* FXInt *) cbn [bfmt]. cbv zeta. cbn [fst snd]. split; [|reflexivity].
      destruct (extras_go_rel pl _ _ true Hf0) as [A B]. destruct Hb as [H1 H2 H3 H4 H5 H6 H7 H8].
      constructor; cbn [bf_pieces bf_plain bf_wrapped bf_errs bf_nw].
      * apply PR_plain. apply Forall2_app; [exact H1|]. constructor; [reflexivity|exact A].
      * intro E. split; [|exact H7]. apply sh3_app_congr; [now apply H2|]. apply sh3_pre. now apply B.
      * rewrite H3, H4. constructor.
      * rewrite H5, H6. constructor.
      * now rewrite H7, H8.
Qed.

Lemma newf_RE f1 f2 s :
  (forall s', BFR false (fst (bfmt env f1 bf_empty s')) (fst (bfmt env f2 bf_empty s')) /\
              snd (bfmt env f1 bf_empty s') = snd (bfmt env f2 bf_empty s')) ->
  RE (newf_ env f1 s) (newf_ env f2 s).
Proof.
  intro HB. unfold newf_. destruct (HB s) as [B Es].
  destruct (bfmt env f1 bf_empty s) as [b1 s1], (bfmt env f2 bf_empty s) as [b2 s2].
  cbn [fst snd] in *. subst s2.
  destruct (PR_wf _ _ (fr_ps _ _ _ B)) as (W1 & W2 & R).
  set (m1 := sprint_pieces (bf_pieces b1)) in *. set (m2 := sprint_pieces (bf_pieces b2)) in *.
  assert (H0 : RE (match bf_wrapped b1 with w :: _ => mk_wrap (WNewMsg m1) w s1 | [] => mk_leaf (LLeafError m1) s1 end)
                  (match bf_wrapped b2 with w :: _ => mk_wrap (WNewMsg m2) w s1 | [] => mk_leaf (LLeafError m2) s1 end)).
  { destruct (fr_w _ _ _ B) as [|w1 w2 ws1 ws2 Hw _].
    - unfold mk_leaf, fresh_oid. split; [|reflexivity]. cbn [fst].
      apply G_leaf; [exact R|split; exact I|exact W1|exact W2].
    - apply mk_wrap_RE; [|exact Hw].
      apply WR_simple; [exact R|split; exact I|exact W1|exact W2|reflexivity]. }
  destruct (match bf_wrapped b1 with w :: _ => mk_wrap (WNewMsg m1) w s1 | [] => mk_leaf (LLeafError m1) s1 end) as [e01 t1].
  destruct (match bf_wrapped b2 with w :: _ => mk_wrap (WNewMsg m2) w s1 | [] => mk_leaf (LLeafError m2) s1 end) as [e02 t2].
  destruct H0 as [G0 Et]; cbn [fst snd] in *; subst t2.
  pose proof (add_sec_RE _ _ (fr_e _ _ _ B) e01 e02 t1 G0) as [G1 Eu].
  destruct (add_sec (bf_errs b1) e01 t1) as [e11 u1], (add_sec (bf_errs b2) e02 t1) as [e12 u2].
  cbn [fst snd] in *. subst u2. now apply with_stack_RE.
Qed.

Lemma WR_prefix ps1 ps2 : PR ps1 ps2 -> WR (WPrefix (sprint_pieces ps1)) (WPrefix (sprint_pieces ps2)).
Proof.
  intro H. destruct (PR_wf _ _ H) as (W1 & W2 & R).
  apply WR_simple; [exact R|split; exact I|exact W1|exact W2|reflexivity].
Qed.

Lemma wrapf_RE e1 e2 f1 f2 b1 b2 s : is_fmt_empty f1 = is_fmt_empty f2 -> G e1 e2 -> BFR false b1 b2 ->
  RE (wrapf_ env e1 f1 b1 s) (wrapf_ env e2 f2 b2 s).
Proof.
  intros Ef He B. unfold wrapf_. rewrite <- Ef.
  assert (H0 : RE (if is_fmt_empty f1 then (e1, s) else mk_wrap (WPrefix (sprint_pieces (bf_pieces b1))) e1 s)
                  (if is_fmt_empty f1 then (e2, s) else mk_wrap (WPrefix (sprint_pieces (bf_pieces b2))) e2 s)).
  { destruct (is_fmt_empty f1); [split; [exact He|reflexivity]|].
    apply mk_wrap_RE; [|exact He]. apply WR_prefix, (fr_ps _ _ _ B). }
  destruct (if is_fmt_empty f1 then (e1, s) else mk_wrap (WPrefix (sprint_pieces (bf_pieces b1))) e1 s) as [e01 t1].
  destruct (if is_fmt_empty f1 then (e2, s) else mk_wrap (WPrefix (sprint_pieces (bf_pieces b2))) e2 s) as [e02 t2].
  destruct H0 as [G0 Et]; cbn [fst snd] in *; subst t2.
  pose proof (add_sec_RE _ _ (fr_e _ _ _ B) e01 e02 t1 G0) as [G1 Eu].
  destruct (add_sec (bf_errs b1) e01 t1) as [e11 u1], (add_sec (bf_errs b2) e02 t1) as [e12 u2].
  cbn [fst snd] in *. subst u2. now apply with_stack_RE.
Qed.

Lemma is_fmt_empty_rel pl f1 : forall f2, all2 (preq pl) f1 f2 -> is_fmt_empty f1 = is_fmt_empty f2.
Proof.
  induction f1 as [|p1 f1 IH]; intros [|p2 f2] H; simpl in H; try contradiction; [reflexivity|].
  destruct H as [Hp Hf]. unfold is_fmt_empty in *. cbn [forallb]. rewrite (IH f2 Hf).
  destruct p1, p2; cbn [preq] in Hp; try contradiction; try reflexivity. now subst.
Qed.

Lemma preq_true_plain f1 : forall f2, all2 (preq true) f1 f2 ->
  forallb plain_piece f1 = true /\ forallb plain_piece f2 = true.
Proof.
  induction f1 as [|p1 f1 IH]; intros [|p2 f2] H; simpl in H; try contradiction; [split; reflexivity|].
  destruct H as [Hp Hf]. destruct (IH f2 Hf) as [A B]. cbn [forallb]. rewrite A, B.
  destruct p1, p2; cbn [preq] in Hp; try contradiction; try (split; reflexivity).
  destruct Hp as (_ & Hp & _). discriminate.
Qed.

Lemma bfmt_plain f : forallb plain_piece f = true ->
  forall acc s, bf_plain (fst (bfmt env f acc s)) = bf_plain acc ++ fplain f.
Proof.
  induction f as [|p f IH]; intros H acc s; [cbn [bfmt fst fplain]; now rewrite app_nil_r|].
  cbn [forallb] in H. apply andb_true_iff in H as [Hp H].
  destruct p; try discriminate Hp; cbn [bfmt fplain];
    try (rewrite IH by exact H; cbn [bf_add bf_plain]; now rewrite app_assoc);
    cbv zeta; cbn [fst bf_plain]; reflexivity.
Qed.

Lemma blist_rel rs1 : forall rs2 s, all2 req rs1 rs2 -> Forall Qr rs1 ->
  Forall2 G (fst (blist env rs1 s)) (fst (blist env rs2 s)) /\
  snd (blist env rs1 s) = snd (blist env rs2 s).
Proof.
  induction rs1 as [|x1 rs1 IH]; intros [|x2 rs2] s H HK; simpl in H; try contradiction.
  - split; [constructor|reflexivity].
  - destruct H as [Hx Hr]. inversion HK as [|? ? Px HK']; subst. cbn [blist].
    destruct (Px _ s Hx) as [Go Es].
    destruct (build env x1 s) as [o1 s1], (build env x2 s) as [o2 s2]. cbn [fst snd] in *. subst s2.
    destruct (IH rs2 s1 Hr HK') as [A B].
    destruct (blist env rs1 s1) as [es1 t1], (blist env rs2 s1) as [es2 t2]. cbn [fst snd] in *. subst t2.
    split; [|reflexivity].
    destruct o1, o2; cbn [GOpt] in Go; try contradiction; [constructor; assumption|exact A].
Qed.

(* context tags *)
Lemma tvreq_rel v1 v2 : tvreq v1 v2 -> tagv_rel v1 v2.
Proof.
  destruct v1, v2; cbn [tvreq tagv_rel]; try contradiction; try (intro H; exact H).
  - apply sh3_shape.
  - intros _. apply tagv_rel_int.
Qed.

Lemma tag_add_rel k v1 v2 l1 l2 : Forall2 tag_rel l1 l2 -> tagv_rel v1 v2 ->
  Forall2 tag_rel (tag_add k v1 l1) (tag_add k v2 l2).
Proof.
  intros H Hv. induction H as [|[k1 x1] [k2 x2] l1 l2 [Hk Hx] Hl IH]; cbn [tag_add].
  - constructor; [split; [reflexivity|exact Hv]|constructor].
  - cbn [fst snd] in Hk, Hx. subst k2. destruct (str_eqb k k1).
    + constructor; [split; [reflexivity|exact Hv]|exact Hl].
    + constructor; [split; [reflexivity|exact Hx]|exact IH].
Qed.

Lemma tags_of_rel t1 : forall t2, all2 treq t1 t2 -> Forall2 tag_rel (tags_of t1) (tags_of t2).
Proof.
  unfold tags_of.
  assert (H : forall t2 a1 a2, all2 treq t1 t2 -> Forall2 tag_rel a1 a2 ->
            Forall2 tag_rel (fold_left (fun acc kv => tag_add (fst kv) (snd kv) acc) t1 a1)
                            (fold_left (fun acc kv => tag_add (fst kv) (snd kv) acc) t2 a2)).
  { induction t1 as [|kv1 t1 IH]; intros [|kv2 t2] a1 a2 H Ha; simpl in H; try contradiction; [exact Ha|].
    destruct H as [[Hk Hv] Ht]. cbn [fold_left]. apply IH; [exact Ht|]. rewrite Hk.
    apply tag_add_rel; [exact Ha|now apply tvreq_rel]. }
  intros t2 Ht. apply H; [exact Ht|constructor].
Qed.

Lemma frel_refl k : frel k k.
Proof. unfold frel. split; [reflexivity|]. destruct (lsent 1%positive k); reflexivity. Qed.

Lemma leaf_RO k1 k2 s : lrel k1 k2 -> lxx k1 k2 ->
  match k1 with LLeafError rm => wf_red rm = true | _ => True end ->
  match k2 with LLeafError rm => wf_red rm = true | _ => True end ->
  RO (some_ (mk_leaf k1 s)) (some_ (mk_leaf k2 s)).
Proof.
  intros A B C D. apply RE_some. unfold mk_leaf, fresh_oid. split; [|reflexivity]. cbn [fst].
  now apply G_leaf.
Qed.

Lemma RO_nil s : RO (None, s) (None, s).
Proof. split; [exact I|reflexivity]. Qed.

Lemma build_rel : forall r1, Qr r1.
Proof.
  induction r1 as [r1 IH] using recipe_kids_ind. intros r2 s Hr.
  destruct r1; destruct r2; cbn [req] in Hr; try contradiction; cbn [kids] in IH.
  - (* RNil *) apply RO_nil.
  - (* RSentinel *) subst n0. exact (sentinel_RO n s).
  - (* RStdNew *)
    change (RO (some_ (mk_leaf (LErrString msg) s)) (some_ (mk_leaf (LErrString msg0) s))).
    apply leaf_RO; [exact Hr|split; exact I|exact I|exact I].
  - (* RNew *) subst msg0.
    change (build env (RNew msg) s) with
      (let '(e, s1) := mk_leaf (LLeafError (sprint_pieces [PSafe msg])) s in some_ (with_stack env e s1)).
    unfold mk_leaf, fresh_oid. apply RE_some, with_stack_RE.
    assert (HP : PR [PSafe msg] [PSafe msg]) by (apply PR_plain; repeat constructor).
    destruct (PR_wf _ _ HP) as (W & _ & _).
    apply G_leaf; [reflexivity|split; exact I|exact W|exact W].
  - (* RNewf *) destruct Hr as [Hf Hl]. rewrite !build_newf. apply RE_some, newf_RE.
    intro s'. apply bfmt_rel; [exact Hf|intros _; exact Hl|exact IH|apply BA_empty].
  - (* RPkgNew *)
    change (RO (some_ (mk_leaf (LPkgFund msg (nth (bs_stk s) (be_stacks env) [])) (mkbs (bs_oid s) (S (bs_stk s)))))
               (some_ (mk_leaf (LPkgFund msg0 (nth (bs_stk s) (be_stacks env) [])) (mkbs (bs_oid s) (S (bs_stk s)))))).
    apply leaf_RO; [split; [exact Hr|reflexivity]|split; exact I|exact I|exact I].
  - (* RErrno *) subst n0.
    change (RO (some_ (mk_leaf (LErrno n) s)) (some_ (mk_leaf (LErrno n) s))).
    apply leaf_RO; [reflexivity|split; exact I|exact I|exact I].
  - (* RUnimpl *) destruct Hr as (<- & <- & Hm).
    change (RO (some_ (mk_leaf (LUnimpl msg url det) s)) (some_ (mk_leaf (LUnimpl msg0 url det) s))).
    apply leaf_RO; [|split; exact I|exact I|exact I].
    split; [now apply sh3_shape|split; reflexivity].
  - (* RAssertf *) destruct Hr as [Hf Hl]. rewrite !build_assertf.
    assert (HN : RE (newf_ env f s) (newf_ env f0 s)).
    { apply newf_RE. intro s'. apply bfmt_rel; [exact Hf|intros _; exact Hl|exact IH|apply BA_empty]. }
    destruct (newf_ env f s) as [e1 t1], (newf_ env f0 s) as [e2 t2].
    destruct HN as [Gn En]; cbn [fst snd] in *; subst t2.
    apply RE_some, mk_wrap_RE; [|exact Gn].
    apply WR_simple; [exact I|split; exact I|exact I|exact I|reflexivity].
  - (* RGrpcStatus *) destruct Hr as [<- Hm].
    change (RO (if code =? 0 then (@None err, s) else some_ (mk_leaf (LGrpcStatus code msg) s))
               (if code =? 0 then (@None err, s) else some_ (mk_leaf (LGrpcStatus code msg0) s))).
    destruct (code =? 0); [apply RO_nil|].
    apply leaf_RO; [|split; exact I|exact I|exact I].
    apply frel_plain; [apply lsent_grpc|apply lsent_grpc|].
    cbn [leaf_text]. unfold grpc_status_text. do 3 apply sh3_pre. exact Hm.
  - (* RGogoStatus *) destruct Hr as [<- Hm].
    change (RO (if code =? 0 then (@None err, s) else some_ (mk_leaf (LGogoStatus code msg) s))
               (if code =? 0 then (@None err, s) else some_ (mk_leaf (LGogoStatus code msg0) s))).
    destruct (code =? 0); [apply RO_nil|].
    apply leaf_RO; [|split; exact I|exact I|exact I].
    apply frel_plain; [apply lsent_gogo|apply lsent_gogo|].
    cbn [leaf_text]. unfold grpc_status_text. do 3 apply sh3_pre. exact Hm.
  - (* RTestError *)
    change (RO (some_ (mk_leaf LTestError s)) (some_ (mk_leaf LTestError s))).
    apply leaf_RO; [exact I|split; exact I|exact I|exact I].
  - (* RULeaf *) destruct Hr as [<- Hu].
    change (RO (some_ (mk_leaf (LUser u msg tagn xs) s)) (some_ (mk_leaf (LUser u msg0 tagn0 xs0) s))).
    apply leaf_RO; [| |exact I|exact I].
    + cbn [lrel]. split; [reflexivity|].
      destruct u; cbn [ulreq] in Hu; try exact Hu;
        (apply frel_plain; [apply lsent_user|apply lsent_user|first [exact Hu|exact (proj1 Hu)]]).
    + destruct u; cbn [ulreq] in Hu; split; try exact I. exact (proj2 Hu).
  - (* RWrap *) destruct Hr as [Ha <-]. rewrite !build_wrap.
    apply on_RO; [exact (Forall_inv IH _ s Ha)|]. intros e1 e2 s' He.
    destruct msg as [|x msg]; [now apply with_stack_RE|].
    unfold mk_wrap, fresh_oid. apply with_stack_RE, G_wrap; [|exact He].
    apply WR_prefix, PR_plain. repeat constructor.
  - (* RWrapf *) destruct Hr as (Ha & Hf & Hl). rewrite !build_wrapf.
    apply (on_f_RO _ _ _ _ _ _ _ (BFR false)); [exact (Forall_inv IH _ s Ha)| |].
    + intro s'. apply bfmt_rel; [exact Hf|intros _; exact Hl|exact (Forall_inv_tail IH)|apply BA_empty].
    + intros e1 e2 b1 b2 s' He Hb. apply wrapf_RE; [exact (is_fmt_empty_rel _ _ _ Hf)|exact He|exact Hb].
  - (* RWithMessage *) destruct Hr as [Ha <-].
    change (RO (on_ env r1 s (mk_wrap (WPrefix (sprint_pieces [PSafe msg]))))
               (on_ env r2 s (mk_wrap (WPrefix (sprint_pieces [PSafe msg]))))).
    apply on_RO; [exact (Forall_inv IH _ s Ha)|]. intros e1 e2 s' He.
    apply mk_wrap_RE; [|exact He]. apply WR_prefix, PR_plain. repeat constructor.
  - (* RWithMessagef *) destruct Hr as (Ha & Hf & Hl). rewrite !build_withmessagef.
    apply (on_f_RO _ _ _ _ _ _ _ (BFR false)); [exact (Forall_inv IH _ s Ha)| |].
    + intro s'. apply bfmt_rel; [exact Hf|intros _; exact Hl|exact (Forall_inv_tail IH)|apply BA_empty].
    + intros e1 e2 b1 b2 s' He Hb. apply mk_wrap_RE; [|exact He]. apply WR_prefix, (fr_ps _ _ _ Hb).
  - (* RWithStack *)
    change (RO (on_ env r1 s (with_stack env)) (on_ env r2 s (with_stack env))).
    apply on_RO; [exact (Forall_inv IH _ s Hr)|]. intros e1 e2 s' He. now apply with_stack_RE.
  - (* RHint *) destruct Hr as [Ha Hh].
    change (RO (on_ env r1 s (mk_wrap (WHint h))) (on_ env r2 s (mk_wrap (WHint h0)))).
    apply on_RO; [exact (Forall_inv IH _ s Ha)|]. intros e1 e2 s' He. apply mk_wrap_RE; [|exact He].
    apply WR_simple; [exact Hh|split; exact I|exact I|exact I|reflexivity].
  - (* RHintf *) destruct Hr as (Ha & Hf). rewrite !build_hintf.
    apply (on_f_RO _ _ _ _ _ _ _ (BFR true)); [exact (Forall_inv IH _ s Ha)| |].
    + intro s'. apply bfmt_rel; [exact Hf|discriminate|exact (Forall_inv_tail IH)|apply BA_empty].
    + intros e1 e2 b1 b2 s' He Hb. apply mk_wrap_RE; [|exact He].
      apply WR_simple; [exact (proj1 (fr_pl _ _ _ Hb eq_refl))|split; exact I|exact I|exact I|reflexivity].
  - (* RDetailf *) destruct Hr as (Ha & Hf). rewrite !build_detailf.
    apply (on_f_RO _ _ _ _ _ _ _ (BFR true)); [exact (Forall_inv IH _ s Ha)| |].
    + intro s'. apply bfmt_rel; [exact Hf|discriminate|exact (Forall_inv_tail IH)|apply BA_empty].
    + intros e1 e2 b1 b2 s' He Hb. apply mk_wrap_RE; [|exact He].
      apply WR_simple; [exact (proj1 (fr_pl _ _ _ Hb eq_refl))|split; exact I|exact I|exact I|reflexivity].
  - (* RDetail *) destruct Hr as [Ha Hh].
    change (RO (on_ env r1 s (mk_wrap (WDetail d))) (on_ env r2 s (mk_wrap (WDetail d0)))).
    apply on_RO; [exact (Forall_inv IH _ s Ha)|]. intros e1 e2 s' He. apply mk_wrap_RE; [|exact He].
    apply WR_simple; [exact Hh|split; exact I|exact I|exact I|reflexivity].
  - (* RIssueLink *) destruct Hr as (Ha & <- & <-).
    change (RO (on_ env r1 s (mk_wrap (WIssueLink url det))) (on_ env r2 s (mk_wrap (WIssueLink url det)))).
    apply on_RO; [exact (Forall_inv IH _ s Ha)|]. intros e1 e2 s' He. apply mk_wrap_RE; [|exact He].
    apply WR_simple; [split; reflexivity|split; exact I|exact I|exact I|reflexivity].
  - (* RTelemetry *) destruct Hr as (Ha & <-).
    change (RO (on_ env r1 s (mk_wrap (WTelemetry keys))) (on_ env r2 s (mk_wrap (WTelemetry keys)))).
    apply on_RO; [exact (Forall_inv IH _ s Ha)|]. intros e1 e2 s' He. apply mk_wrap_RE; [|exact He].
    apply WR_simple; [reflexivity|split; exact I|exact I|exact I|reflexivity].
  - (* RDomain *) destruct Hr as (Ha & <-).
    change (RO (on_ env r1 s (mk_wrap (WDomain d))) (on_ env r2 s (mk_wrap (WDomain d)))).
    apply on_RO; [exact (Forall_inv IH _ s Ha)|]. intros e1 e2 s' He. apply mk_wrap_RE; [|exact He].
    apply WR_simple; [reflexivity|split; exact I|exact I|exact I|reflexivity].
  - (* RTags *) destruct Hr as (Ha & Ht).
    change (RO (on_ env r1 s (fun e s1 => match tags with [] => (e, s1)
                                          | _ => mk_wrap (WContext (tags_of tags) None) e s1 end))
               (on_ env r2 s (fun e s1 => match tags0 with [] => (e, s1)
                                          | _ => mk_wrap (WContext (tags_of tags0) None) e s1 end))).
    apply on_RO; [exact (Forall_inv IH _ s Ha)|]. intros e1 e2 s' He.
    pose proof (tags_of_rel _ _ Ht) as HT.
    destruct tags as [|kv1 t1], tags0 as [|kv2 t2]; simpl in Ht; try contradiction.
    + split; [exact He|reflexivity].
    + apply mk_wrap_RE; [|exact He].
      apply WR_simple; [exact HT|split; [reflexivity|exact I]|exact I|exact I|reflexivity].
  - (* RAssert *)
    change (RO (on_ env r1 s (mk_wrap WAssert)) (on_ env r2 s (mk_wrap WAssert))).
    apply on_RO; [exact (Forall_inv IH _ s Hr)|]. intros e1 e2 s' He. apply mk_wrap_RE; [|exact He].
    apply WR_simple; [exact I|split; exact I|exact I|exact I|reflexivity].
  - (* RMark *) destruct Hr as [Ha Hx]. rewrite !build_mark.
    destruct (Forall_inv IH _ s Ha) as [Go Es].
    destruct (build env r1_1 s) as [o1 s1], (build env r2_1 s) as [o2 s2]. cbn [fst snd] in *. subst s2.
    destruct (Forall_inv (Forall_inv_tail IH) _ s1 Hx) as [Gx Ex].
    destruct (build env r1_2 s1) as [x1 t1], (build env r2_2 s1) as [x2 t2]. cbn [fst snd] in *. subst t2.
    destruct o1 as [e1|], o2 as [e2|]; cbn [GOpt] in Go; try contradiction; [|apply RO_nil].
    destruct x1 as [y1|], x2 as [y2|]; cbn [GOpt] in Gx; try contradiction.
    + apply RE_some, mk_wrap_RE; [|exact Go].
      apply WR_simple; [now apply G_mark|split; exact I|exact I|exact I|reflexivity].
    + split; [exact Go|reflexivity].
  - (* RSafeDetails *) destruct Hr as (Ha & Hf & Hl). rewrite !build_safedetails.
    apply (on_f_RO _ _ _ _ _ _ _ (BFR false)); [exact (Forall_inv IH _ s Ha)| |].
    + intro s'. apply bfmt_rel; [exact Hf|intros _; exact Hl|exact (Forall_inv_tail IH)|apply BA_empty].
    + intros e1 e2 b1 b2 s' He Hb. rewrite <- (is_fmt_empty_rel _ _ _ Hf).
      destruct (is_fmt_empty f); [split; [exact He|reflexivity]|].
      apply mk_wrap_RE; [|exact He]. destruct (PR_wf _ _ (fr_ps _ _ _ Hb)) as (_ & _ & R).
      apply WR_simple; [|split; exact I|exact I|exact I|reflexivity].
      cbn [wrel]. unfold redact_strip. now rewrite R.
  - (* RHTTP *) destruct Hr as (Ha & <-).
    change (RO (on_ env r1 s (mk_wrap (WHTTP code))) (on_ env r2 s (mk_wrap (WHTTP code)))).
    apply on_RO; [exact (Forall_inv IH _ s Ha)|]. intros e1 e2 s' He. apply mk_wrap_RE; [|exact He].
    apply WR_simple; [apply wrel_http|split; [exact I|reflexivity]|exact I|exact I|reflexivity].
  - (* RGrpc *) destruct Hr as (Ha & <-).
    change (RO (on_ env r1 s (mk_wrap (WGrpc code))) (on_ env r2 s (mk_wrap (WGrpc code)))).
    apply on_RO; [exact (Forall_inv IH _ s Ha)|]. intros e1 e2 s' He. apply mk_wrap_RE; [|exact He].
    apply WR_simple; [reflexivity|split; exact I|exact I|exact I|reflexivity].
  - (* RSecondary *) destruct Hr as [Ha Hx]. rewrite !build_secondary.
    destruct (Forall_inv IH _ s Ha) as [Go Es].
    destruct (build env r1_1 s) as [o1 s1], (build env r2_1 s) as [o2 s2]. cbn [fst snd] in *. subst s2.
    destruct (Forall_inv (Forall_inv_tail IH) _ s1 Hx) as [Gx Ex].
    destruct (build env r1_2 s1) as [x1 t1], (build env r2_2 s1) as [x2 t2]. cbn [fst snd] in *. subst t2.
    destruct o1 as [e1|], o2 as [e2|]; cbn [GOpt] in Go; try contradiction;
      destruct x1 as [y1|], x2 as [y2|]; cbn [GOpt] in Gx; try contradiction;
      try apply RO_nil; try (split; [exact Go|reflexivity]).
    unfold fresh_oid. split; [|reflexivity]. cbn [fst GOpt]. now apply G_second.
  - (* RCombine *) destruct Hr as [Ha Hx]. rewrite !build_combine.
    destruct (Forall_inv IH _ s Ha) as [Go Es].
    destruct (build env r1_1 s) as [o1 s1], (build env r2_1 s) as [o2 s2]. cbn [fst snd] in *. subst s2.
    destruct (Forall_inv (Forall_inv_tail IH) _ s1 Hx) as [Gx Ex].
    destruct (build env r1_2 s1) as [x1 t1], (build env r2_2 s1) as [x2 t2]. cbn [fst snd] in *. subst t2.
    destruct o1 as [e1|], o2 as [e2|]; cbn [GOpt] in Go; try contradiction;
      destruct x1 as [y1|], x2 as [y2|]; cbn [GOpt] in Gx; try contradiction;
      try apply RO_nil; try (split; [exact Go|reflexivity]); try (split; [exact Gx|reflexivity]).
    unfold fresh_oid. split; [|reflexivity]. cbn [fst GOpt]. now apply G_second.
  - (* RHandled *)
    change (RO (on_ env r1 s handled_) (on_ env r2 s handled_)).
    apply on_RO; [exact (Forall_inv IH _ s Hr)|]. intros e1 e2 s' He. now apply handled_RE.
  - (* RHandledMsg *) destruct Hr as [Ha Hm].
    change (RO (on_ env r1 s (fun e s1 => let '(i, s2) := fresh_oid s1 in
                                         (Barrier i (sprint_pieces [PUnsafe msg]) e, s2)))
               (on_ env r2 s (fun e s1 => let '(i, s2) := fresh_oid s1 in
                                         (Barrier i (sprint_pieces [PUnsafe msg0]) e, s2)))).
    apply on_RO; [exact (Forall_inv IH _ s Ha)|]. intros e1 e2 s' He. unfold fresh_oid.
    split; [|reflexivity]. cbn [fst]. apply G_barrier; [|exact He].
    apply PR_plain. constructor; [cbn [prel0]; now apply sh3_shape|constructor].
  - (* RHandledMsgf *) destruct Hr as (Ha & Hf & Hl). rewrite !build_handledmsgf.
    apply (on_f_RO _ _ _ _ _ _ _ (BFR false)); [exact (Forall_inv IH _ s Ha)| |].
    + intro s'. apply bfmt_rel; [exact Hf|intros _; exact Hl|exact (Forall_inv_tail IH)|apply BA_empty].
    + intros e1 e2 b1 b2 s' He Hb. unfold fresh_oid. split; [|reflexivity]. cbn [fst].
      apply G_barrier; [exact (fr_ps _ _ _ Hb)|exact He].
  - (* RHandledInDomain *) destruct Hr as (Ha & <-).
    change (RO (on_ env r1 s (fun e s1 => let '(b, s2) := handled_ e s1 in mk_wrap (WDomain d) b s2))
               (on_ env r2 s (fun e s1 => let '(b, s2) := handled_ e s1 in mk_wrap (WDomain d) b s2))).
    apply on_RO; [exact (Forall_inv IH _ s Ha)|]. intros e1 e2 s' He.
    destruct (handled_RE e1 e2 s' He) as [Gh Eh].
    destruct (handled_ e1 s') as [b1 t1], (handled_ e2 s') as [b2 t2]. cbn [fst snd] in *. subst t2.
    apply mk_wrap_RE; [|exact Gh].
    apply WR_simple; [reflexivity|split; exact I|exact I|exact I|reflexivity].
  - (* RHandledInDomainMsg *) destruct Hr as (Ha & <- & Hm).
    change (RO (on_ env r1 s (fun e s1 => let '(i, s2) := fresh_oid s1 in
                                 mk_wrap (WDomain d) (Barrier i (sprint_pieces [PUnsafe msg]) e) s2))
               (on_ env r2 s (fun e s1 => let '(i, s2) := fresh_oid s1 in
                                 mk_wrap (WDomain d) (Barrier i (sprint_pieces [PUnsafe msg0]) e) s2))).
    apply on_RO; [exact (Forall_inv IH _ s Ha)|]. intros e1 e2 s' He. unfold fresh_oid.
    apply mk_wrap_RE; [apply WR_simple; [reflexivity|split; exact I|exact I|exact I|reflexivity]|].
    apply G_barrier; [|exact He].
    apply PR_plain. constructor; [cbn [prel0]; now apply sh3_shape|constructor].
  - (* RHandleAssert *)
    change (RO (on_ env r1 s (fun e s1 => let '(b, s2) := handled_ e s1 in
                                 let '(w, s3) := with_stack env b s2 in mk_wrap WAssert w s3))
               (on_ env r2 s (fun e s1 => let '(b, s2) := handled_ e s1 in
                                 let '(w, s3) := with_stack env b s2 in mk_wrap WAssert w s3))).
    apply on_RO; [exact (Forall_inv IH _ s Hr)|]. intros e1 e2 s' He.
    destruct (handled_RE e1 e2 s' He) as [Gh Eh].
    destruct (handled_ e1 s') as [b1 t1], (handled_ e2 s') as [b2 t2]. cbn [fst snd] in *. subst t2.
    destruct (with_stack_RE b1 b2 t1 Gh) as [Gw Ew].
    destruct (with_stack env b1 t1) as [w1 u1], (with_stack env b2 t1) as [w2 u2]. cbn [fst snd] in *. subst u2.
    apply mk_wrap_RE; [|exact Gw].
    apply WR_simple; [exact I|split; exact I|exact I|exact I|reflexivity].
  - (* RNewAssertWrapped *) destruct Hr as (Ha & Hf & Hl). rewrite !build_newassertwrapped.
    apply (on_f_RO _ _ _ _ _ _ _ (BFR false)); [exact (Forall_inv IH _ s Ha)| |].
    + intro s'. apply bfmt_rel; [exact Hf|intros _; exact Hl|exact (Forall_inv_tail IH)|apply BA_empty].
    + intros e1 e2 c1 c2 s' He Hb.
      destruct (handled_RE e1 e2 s' He) as [Gh Eh].
      destruct (handled_ e1 s') as [b1 t1], (handled_ e2 s') as [b2 t2]. cbn [fst snd] in *. subst t2.
      destruct (wrapf_RE b1 b2 f f0 c1 c2 t1 (is_fmt_empty_rel _ _ _ Hf) Gh Hb) as [Gw Ew].
      destruct (wrapf_ env b1 f c1 t1) as [w1 u1], (wrapf_ env b2 f0 c2 t1) as [w2 u2].
      cbn [fst snd] in *. subst u2.
      apply mk_wrap_RE; [|exact Gw].
      apply WR_simple; [exact I|split; exact I|exact I|exact I|reflexivity].
  - (* RJoin *) rewrite !build_join.
    destruct (blist_rel _ _ s Hr IH) as [A B].
    destruct (blist env rs s) as [es1 t1], (blist env rs0 s) as [es2 t2]. cbn [fst snd] in *. subst t2.
    destruct A as [|x1 x2 l1 l2 Hx Hl]; [apply RO_nil|].
    unfold fresh_oid. apply RE_some, with_stack_RE, G_join. now constructor.
  - (* RFmtErrorf *) destruct Hr as [Hf Hs]. rewrite !build_fmterrorf.
    destruct (bfmt_rel true f f0 Hf ltac:(discriminate) IH bf_empty bf_empty s (BA_empty true)) as [B Es].
    destruct (preq_true_plain _ _ Hf) as [P1 P2].
    pose proof (bfmt_plain f P1 bf_empty s) as Q1. pose proof (bfmt_plain f0 P2 bf_empty s) as Q2.
    destruct (bfmt env f bf_empty s) as [b1 s1], (bfmt env f0 bf_empty s) as [b2 s2].
    cbn [fst snd bf_empty bf_plain app] in *. subst s2.
    destruct (fr_pl _ _ _ B eq_refl) as [_ N1]. pose proof (fr_n _ _ _ B) as N2. rewrite N1 in N2.
    rewrite N1, <- N2. unfold fresh_oid. split; [|reflexivity]. cbn [fst GOpt].
    rewrite Q1, Q2. apply G_leaf; [exact Hs|split; exact I|exact I|exact I].
  - (* RPkgMsg *) destruct Hr as [Ha Hm].
    change (RO (on_ env r1 s (mk_wrap (WPkgMsg msg))) (on_ env r2 s (mk_wrap (WPkgMsg msg0)))).
    apply on_RO; [exact (Forall_inv IH _ s Ha)|]. intros e1 e2 s' He. apply mk_wrap_RE; [|exact He].
    refine (conj I (conj (conj I I) (conj I (conj I _)))). intros _ i1 i2 c1 c2. now apply xrel_pkgmsg.
  - (* RPkgStack *)
    change (RO (on_ env r1 s (fun e s1 => let '(st, s2) := fresh_stack env s1 in mk_wrap (WPkgStack st) e s2))
               (on_ env r2 s (fun e s1 => let '(st, s2) := fresh_stack env s1 in mk_wrap (WPkgStack st) e s2))).
    apply on_RO; [exact (Forall_inv IH _ s Hr)|]. intros e1 e2 s' He. unfold fresh_stack.
    apply mk_wrap_RE; [|exact He].
    refine (conj eq_refl (conj (conj I I) (conj I (conj I _)))). intros _ i1 i2 c1 c2. apply xrel_pkgstack.
  - (* RPathError *) destruct Hr as (Ha & <- & Hp).
    change (RO (on_ env r1 s (mk_wrap (WPathError op path))) (on_ env r2 s (mk_wrap (WPathError op path0)))).
    apply on_RO; [exact (Forall_inv IH _ s Ha)|]. intros e1 e2 s' He. apply mk_wrap_RE; [|exact He].
    apply WR_simple; [split; [reflexivity|now apply sh3_shape]|split; exact I|exact I|exact I|reflexivity].
  - (* RLinkError *) destruct Hr as (Ha & <- & Hp & Hq).
    change (RO (on_ env r1 s (mk_wrap (WLinkError op old new))) (on_ env r2 s (mk_wrap (WLinkError op old0 new0)))).
    apply on_RO; [exact (Forall_inv IH _ s Ha)|]. intros e1 e2 s' He. apply mk_wrap_RE; [|exact He].
    apply WR_simple; [|split; exact I|exact I|exact I|reflexivity].
    split; [reflexivity|split; now apply sh3_shape].
  - (* RSyscallError *) destruct Hr as (Ha & <-).
    change (RO (on_ env r1 s (mk_wrap (WSyscallError sc))) (on_ env r2 s (mk_wrap (WSyscallError sc)))).
    apply on_RO; [exact (Forall_inv IH _ s Ha)|]. intros e1 e2 s' He. apply mk_wrap_RE; [|exact He].
    apply WR_simple; [reflexivity|split; exact I|exact I|exact I|reflexivity].
  - (* ROpError *) destruct Hr as (Ha & <- & <- & Hp & Hq).
    change (RO (on_ env r1 s (mk_wrap (WOpError op net src addr))) (on_ env r2 s (mk_wrap (WOpError op net src0 addr0)))).
    apply on_RO; [exact (Forall_inv IH _ s Ha)|]. intros e1 e2 s' He. apply mk_wrap_RE; [|exact He].
    apply WR_simple; [|split; exact I|exact I|exact I|reflexivity].
    split; [reflexivity|split; [reflexivity|split; now apply sh3_shape]].
  - (* RForeignErrno *) subst n0.
    apply RE_some. split; [|reflexivity]. cbn [fst mk_leaf fresh_oid].
    apply G_leaf; [apply frel_refl|split; [exact I|reflexivity]|exact I|exact I].
  - (* RUWrap *) destruct Hr as (<- & Hu & Ha & Hm & Hx).
    change (RO (on_ env r1 s (mk_wrap (WUser u msg xs))) (on_ env r2 s (mk_wrap (WUser u msg0 xs0)))).
    apply on_RO; [exact (Forall_inv IH _ s Ha)|]. intros e1 e2 s' He. apply mk_wrap_RE; [|exact He].
    refine (conj eq_refl (conj (conj _ I) (conj I (conj I _)))).
    + destruct u; try exact I. now apply Hx.
    + intros _ i1 i2 c1 c2. now apply xrel_user.
Qed.
End Api2.

(* ================================================================== *)
(* 5b. related recipes are in the fragment of ApiWf.v                  *)
(* ================================================================== *)
Definition NP (x : recipe) : Prop := forall r2, req x r2 -> no_plusv x = true /\ no_plusv r2 = true.

Lemma fmt_noplus_rel pl f1 : forall f2, all2 (preq pl) f1 f2 -> (pl = false -> fmt_lastarg f1 = true) ->
  Forall NP (fkids f1) ->
  (fmt_noplus f1 = true /\ fmt_all no_plusv f1 = true) /\ (fmt_noplus f2 = true /\ fmt_all no_plusv f2 = true).
Proof.
  induction f1 as [|p1 f1 IH]; intros [|p2 f2] Hf Hl HK; simpl in Hf; try contradiction.
  - repeat split.
  - destruct Hf as [Hp Hf].
    assert (Hl' : plain_piece p1 = true -> pl = false -> fmt_lastarg f1 = true).
    { intros Hpp E. eapply la_tail; [exact Hpp|now apply Hl]. }
    destruct p1, p2; cbn [preq] in Hp; try contradiction; cbn [fkids] in HK;
      try (destruct (IH f2 Hf (Hl' eq_refl) HK) as [[A1 A2] [B1 B2]];
           unfold fmt_noplus in *; cbn [forallb fmt_all andb]; repeat split; assumption).
    destruct Hp as (<- & -> & Hx). destruct (la_err _ _ _ (Hl eq_refl)) as [-> Hv].
    destruct f2; [|contradiction]. destruct (Forall_inv HK _ Hx) as [N1 N2].
    unfold fmt_noplus. cbn [forallb fmt_all]. rewrite N1, N2.
    destruct v; try (repeat split; reflexivity). exfalso. now apply Hv.
Qed.

Lemma blist_noplus rs1 : forall rs2, all2 req rs1 rs2 -> Forall NP rs1 ->
  forallb no_plusv rs1 = true /\ forallb no_plusv rs2 = true.
Proof.
  induction rs1 as [|x1 rs1 IH]; intros [|x2 rs2] H HK; simpl in H; try contradiction; [split; reflexivity|].
  destruct H as [Hx Hr]. destruct (Forall_inv HK _ Hx) as [N1 N2].
  destruct (IH rs2 Hr (Forall_inv_tail HK)) as [A B]. cbn [forallb]. now rewrite N1, N2, A, B.
Qed.

Lemma req_noplus : forall r1, NP r1.
Proof.
  induction r1 as [r1 IH] using recipe_kids_ind. intros r2 Hr.
  destruct r1; destruct r2; cbn [req] in Hr; try contradiction; cbn [kids] in IH;
    unfold no_plusv; cbn [all_nodes chk_np andb]; fold no_plusv;
    repeat match goal with H : _ /\ _ |- _ => destruct H end;
    try (split; reflexivity).
  (* one sub-recipe *)
  all: try (match goal with Ha : req ?a ?b |- no_plusv ?a = true /\ no_plusv ?b = true =>
              exact (Forall_inv IH _ Ha) end).
  (* two sub-recipes *)
  all: try (match goal with
            | Ha : req ?a ?b, Hx : req ?x ?y |- no_plusv ?a && no_plusv ?x = true /\ _ =>
              destruct (Forall_inv IH _ Ha) as [N1 N2];
              destruct (Forall_inv (Forall_inv_tail IH) _ Hx) as [N3 N4];
              rewrite N1, N2, N3, N4; split; reflexivity
            end).
  (* a format call alone *)
  all: try (match goal with
            | Hf : all2 (preq false) ?f ?g, Hl : fmt_lastarg ?f = true |- fmt_noplus ?f && _ = true /\ _ =>
              destruct (fmt_noplus_rel false f g Hf (fun _ => Hl) IH) as [[A1 A2] [B1 B2]];
              rewrite A1, A2, B1, B2; split; reflexivity
            | Hf : all2 (preq true) ?f ?g |- fmt_noplus ?f && _ = true /\ _ =>
              destruct (fmt_noplus_rel true f g Hf ltac:(discriminate) IH) as [[A1 A2] [B1 B2]];
              rewrite A1, A2, B1, B2; split; reflexivity
            end).
  (* a sub-recipe and a format call *)
  all: try (match goal with
            | Ha : req ?a ?b, Hf : all2 (preq false) ?f ?g, Hl : fmt_lastarg ?f = true |- _ =>
              destruct (Forall_inv IH _ Ha) as [N1 N2];
              destruct (fmt_noplus_rel false f g Hf (fun _ => Hl) (Forall_inv_tail IH)) as [[A1 A2] [B1 B2]];
              rewrite ?N1, ?N2, ?A1, ?A2, ?B1, ?B2; split; reflexivity
            | Ha : req ?a ?b, Hf : all2 (preq true) ?f ?g |- _ =>
              destruct (Forall_inv IH _ Ha) as [N1 N2];
              destruct (fmt_noplus_rel true f g Hf ltac:(discriminate) (Forall_inv_tail IH)) as [[A1 A2] [B1 B2]];
              rewrite ?N1, ?N2, ?A1, ?A2, ?B1, ?B2; split; reflexivity
            end).
  (* RJoin *)
  all: try (match goal with Hr : all2 req ?a ?b |- _ => exact (blist_noplus a b Hr IH) end).
Qed.

Theorem req_in_fragment r1 r2 : req r1 r2 -> in_fragment r1 = true /\ in_fragment r2 = true.
Proof. exact (req_noplus r1 r2). Qed.

(* ================================================================== *)
(* 6. the theorems                                                     *)
(* ================================================================== *)
Theorem api_rel env r1 r2 s : req r1 r2 -> RO (build env r1 s) (build env r2 s).
Proof. intro H. exact (build_rel env r1 r2 s H). Qed.

(* the two calls return nil together, and consume the same identities and stack traces *)
Theorem api_nil_iff env r1 r2 s : req r1 r2 ->
  (fst (build env r1 s) = None <-> fst (build env r2 s) = None) /\
  snd (build env r1 s) = snd (build env r2 s).
Proof.
  intro H. destruct (api_rel env r1 r2 s H) as [Go Es]. split; [|exact Es].
  destruct (fst (build env r1 s)), (fst (build env r2 s)); cbn [GOpt] in Go; try contradiction;
    split; intro E; try discriminate E; reflexivity.
Qed.

Theorem api_G env r1 r2 s e1 e2 s1 s2 : req r1 r2 ->
  build env r1 s = (Some e1, s1) -> build env r2 s = (Some e2, s2) -> G e1 e2 /\ s1 = s2.
Proof.
  intros H E1 E2. destruct (api_rel env r1 r2 s H) as [Go Es]. rewrite E1, E2 in *. exact (conj Go Es).
Qed.

(* the statement of the task *)
Theorem api_ueq env r1 r2 s e1 e2 s1 s2 : req r1 r2 ->
  build env r1 s = (Some e1, s1) -> build env r2 s = (Some e2, s2) -> ueq e1 e2 /\ s1 = s2.
Proof. intros H E1 E2. destruct (api_G env r1 r2 s e1 e2 s1 s2 H E1 E2) as [(U & _) Es]. now split. Qed.

(* with the positions of DetailsNI.v, and the well-formedness the %v theorem needs: for every
   string, no condition on the bytes *)
Theorem api_ueq'' env r1 r2 s e1 e2 s1 s2 : req r1 r2 ->
  build env r1 s = (Some e1, s1) -> build env r2 s = (Some e2, s2) ->
  ueq'' e1 e2 /\ sh_ok e1 /\ sh_ok e2 /\ s1 = s2.
Proof.
  intros H E1 E2. destruct (api_G env r1 r2 s e1 e2 s1 s2 H E1 E2) as [HG Es].
  split; [now apply G_ueq''|]. destruct HG as (_ & _ & S1 & S2). now repeat split.
Qed.

Corollary api_ueq' env r1 r2 s e1 e2 s1 s2 : req r1 r2 ->
  build env r1 s = (Some e1, s1) -> build env r2 s = (Some e2, s2) -> ueq' e1 e2.
Proof. intros H E1 E2. exact (proj1 (proj1 (api_ueq'' env r1 r2 s e1 e2 s1 s2 H E1 E2))). Qed.

(* redact.Sprint(err).Redact(): NO hypothesis on the strings (the conditions [in_fragment] and
   [strs_ok] of the task are not needed: [req] confines error arguments to the last position) *)
Corollary api_ni_short env r1 r2 s e1 e2 s1 s2 : req r1 r2 ->
  build env r1 s = (Some e1, s1) -> build env r2 s = (Some e2, s2) ->
  redact (fmt_red_short e1) = redact (fmt_red_short e2).
Proof.
  intros H E1 E2. destruct (api_G env r1 r2 s e1 e2 s1 s2 H E1 E2) as [(U & _ & S1 & S2) _].
  now apply ni_short.
Qed.

(* redact.Sprintf("%+v", err).Redact(); [in_fragment] follows from [req] *)
Corollary api_ni_verbose env r1 r2 s e1 e2 s1 s2 : req r1 r2 ->
  strs_ok r1 = true -> strs_ok r2 = true -> stacks_ok env ->
  build env r1 s = (Some e1, s1) -> build env r2 s = (Some e2, s2) ->
  redact (fmt_red_verbose e1) = redact (fmt_red_verbose e2).
Proof.
  intros H T1 T2 K E1 E2. destruct (req_in_fragment r1 r2 H) as [F1 F2].
  destruct (api_ueq env r1 r2 s e1 e2 s1 s2 H E1 E2) as [U _].
  destruct (api_verbose_wf env r1 s e1 s1 F1 T1 K E1) as [V1 G1].
  destruct (api_verbose_wf env r2 s e2 s2 F2 T2 K E2) as [V2 G2].
  now apply ni_verbose.
Qed.

(* errbase.GetAllSafeDetails(err) *)
Corollary api_ni_details env r1 r2 s e1 e2 s1 s2 : req r1 r2 ->
  strs_ok r1 = true -> strs_ok r2 = true -> stacks_ok env ->
  build env r1 s = (Some e1, s1) -> build env r2 s = (Some e2, s2) ->
  get_all_safe_details e1 = get_all_safe_details e2.
Proof.
  intros H T1 T2 K E1 E2. destruct (req_in_fragment r1 r2 H) as [F1 F2].
  pose proof (api_ueq' env r1 r2 s e1 e2 s1 s2 H E1 E2) as U.
  destruct (api_verbose_wf env r1 s e1 s1 F1 T1 K E1) as [V1 G1].
  destruct (api_verbose_wf env r2 s e2 s2 F2 T2 K E2) as [V2 G2].
  now apply ni_all_safe_details.
Qed.

(* report.BuildSentryReport(err) *)
Corollary api_ni_report env r1 r2 s e1 e2 s1 s2 : req r1 r2 ->
  strs_ok r1 = true -> strs_ok r2 = true -> stacks_ok env ->
  build env r1 s = (Some e1, s1) -> build env r2 s = (Some e2, s2) ->
  build_report e1 = build_report e2.
Proof.
  intros H T1 T2 K E1 E2. destruct (req_in_fragment r1 r2 H) as [F1 F2].
  pose proof (api_ueq' env r1 r2 s e1 e2 s1 s2 H E1 E2) as U.
  destruct (api_verbose_wf env r1 s e1 s1 F1 T1 K E1) as [V1 G1].
  destruct (api_verbose_wf env r2 s e2 s2 F2 T2 K E2) as [V2 G2].
  now apply ni_report.
Qed.

(* errbase.EncodeError(err): the reportable part of every node of the wire message *)
Corollary api_ni_encode env r1 r2 s e1 e2 s1 s2 : req r1 r2 ->
  strs_ok r1 = true -> strs_ok r2 = true -> stacks_ok env ->
  build env r1 s = (Some e1, s1) -> build env r2 s = (Some e2, s2) ->
  enc_safe (encode e1) = enc_safe (encode e2).
Proof.
  intros H T1 T2 K E1 E2. destruct (req_in_fragment r1 r2 H) as [F1 F2].
  pose proof (proj1 (api_ueq'' env r1 r2 s e1 e2 s1 s2 H E1 E2)) as U.
  destruct (api_verbose_wf env r1 s e1 s1 F1 T1 K E1) as [V1 G1].
  destruct (api_verbose_wf env r2 s e2 s2 F2 T2 K E2) as [V2 G2].
  now apply ni_encode.
Qed.

(* ================================================================== *)
(* 7. the fragment, as a boolean function                              *)
(* ================================================================== *)
(* [req] relates a recipe to itself exactly when [ni_frag] holds: no RTransfer, no stdlib
   errors.Join, no *ut.WFull wrapper; in the format calls that compute a message (Newf / Errorf,
   AssertionFailedf, Wrapf, WithMessagef, HandledWithMessagef, NewAssertionErrorWithWrappedErrf,
   WithSafeDetails) an error argument only in last position and not with %+v; no error argument
   in the format calls that compute a plain string (fmt.Errorf, WithHintf, WithDetailf). *)
Definition chk_ni (r : recipe) : bool :=
  match r with
  | RStdJoin _ | RTransfer _ _ => false
  | RUWrap UWFull _ _ _ => false
  | RNewf f | RAssertf f | RWrapf _ f | RWithMessagef _ f | RHandledMsgf _ f | RNewAssertWrapped _ f
  | RSafeDetails _ f => fmt_lastarg f
  | RFmtErrorf f | RHintf _ f | RDetailf _ f => forallb plain_piece f
  | _ => true
  end.
Definition ni_frag : recipe -> bool := all_nodes chk_ni.

Lemma srel_sent_refl m : srel_sent m m.
Proof. split; [reflexivity|]. destruct (sent_text m); reflexivity. Qed.

Lemma preq_refl pl f : Forall (fun x => req x x) (fkids f) -> (pl = true -> forallb plain_piece f = true) ->
  all2 (preq pl) f f.
Proof.
  induction f as [|p f IH]; intros HK Hp; simpl; [exact I|].
  assert (Hp' : pl = true -> forallb plain_piece f = true).
  { intro E. specialize (Hp E). cbn [forallb] in Hp. now apply andb_true_iff in Hp. }
  destruct p; cbn [fkids] in HK; (split; [cbn [preq]|apply IH; [|exact Hp']]);
    try exact HK; try reflexivity; try (split; reflexivity); try (intros _; reflexivity).
  - destruct pl; [specialize (Hp eq_refl); discriminate Hp|].
    split; [reflexivity|split; [reflexivity|exact (Forall_inv HK)]].
  - exact (Forall_inv_tail HK).
Qed.

Lemma all2_refl {A} (P : A -> A -> Prop) l : Forall (fun x => P x x) l -> all2 P l l.
Proof. induction 1; simpl; [exact I|now split]. Qed.

Lemma treq_refl t : all2 treq t t.
Proof.
  apply all2_refl. apply Forall_forall. intros [k v] _. split; [reflexivity|].
  destruct v; cbn; reflexivity || exact I.
Qed.

Theorem req_refl : forall r, ni_frag r = true -> req r r.
Proof.
  induction r as [r IH] using recipe_kids_ind. intro H.
  destruct (all_nodes_kids _ r H) as [C K].
  assert (HK : Forall (fun x => req x x) (kids r)).
  { rewrite Forall_forall in *. intros x Hx. apply IH; [exact Hx|now apply K]. }
  clear IH K H.
  destruct r; cbn [kids chk_ni] in *; cbn [req]; try discriminate C;
    try exact I; try reflexivity; try apply srel_sent_refl;
    try (repeat split; try reflexivity; try exact (Forall_inv HK); try exact (Forall_inv (Forall_inv_tail HK)); fail).
  - (* RNewf *) split; [apply preq_refl; [exact HK|discriminate]|exact C].
  - (* RAssertf *) split; [apply preq_refl; [exact HK|discriminate]|exact C].
  - (* RULeaf *) split; [reflexivity|]. destruct u; cbn [ulreq]; try reflexivity. split; reflexivity.
  - (* RWrapf *) split; [exact (Forall_inv HK)|]. split; [apply preq_refl; [exact (Forall_inv_tail HK)|discriminate]|exact C].
  - (* RWithMessagef *) split; [exact (Forall_inv HK)|]. split; [apply preq_refl; [exact (Forall_inv_tail HK)|discriminate]|exact C].
  - (* RHintf *) split; [exact (Forall_inv HK)|]. apply preq_refl; [exact (Forall_inv_tail HK)|intros _; exact C].
  - (* RDetailf *) split; [exact (Forall_inv HK)|]. apply preq_refl; [exact (Forall_inv_tail HK)|intros _; exact C].
  - (* RTags *) split; [exact (Forall_inv HK)|apply treq_refl].
  - (* RSafeDetails *) split; [exact (Forall_inv HK)|]. split; [apply preq_refl; [exact (Forall_inv_tail HK)|discriminate]|exact C].
  - (* RHandledMsgf *) split; [exact (Forall_inv HK)|]. split; [apply preq_refl; [exact (Forall_inv_tail HK)|discriminate]|exact C].
  - (* RNewAssertWrapped *) split; [exact (Forall_inv HK)|]. split; [apply preq_refl; [exact (Forall_inv_tail HK)|discriminate]|exact C].
  - (* RJoin *) now apply all2_refl.
  - (* RFmtErrorf *) split; [apply preq_refl; [exact HK|intros _; exact C]|apply srel_sent_refl].
  - (* RUWrap *) split; [reflexivity|]. split; [intros ->; discriminate C|].
    split; [exact (Forall_inv HK)|]. split; [reflexivity|intros _; reflexivity].
Qed.

(* conversely, [req] only relates recipes of the fragment *)
Definition NF (x : recipe) : Prop := forall r2, req x r2 -> ni_frag x = true /\ ni_frag r2 = true.

Lemma fmt_frag_rel pl f1 : forall f2, all2 (preq pl) f1 f2 -> (pl = false -> fmt_lastarg f1 = true) ->
  Forall NF (fkids f1) ->
  fmt_all ni_frag f1 = true /\ fmt_all ni_frag f2 = true /\ (pl = false -> fmt_lastarg f2 = true) /\
  (pl = true -> forallb plain_piece f1 = true /\ forallb plain_piece f2 = true).
Proof.
  induction f1 as [|p1 f1 IH]; intros [|p2 f2] Hf Hl HK; pose proof Hf as Hf0; simpl in Hf; try contradiction.
  - repeat split.
  - destruct Hf as [Hp Hf].
    assert (Hl' : plain_piece p1 = true -> pl = false -> fmt_lastarg f1 = true).
    { intros Hpp E. eapply la_tail; [exact Hpp|now apply Hl]. }
    assert (Hne : match f1, f2 with [], [] => True | _ :: _, _ :: _ => True | _, _ => False end).
    { destruct f1, f2; simpl in Hf; try contradiction; exact I. }
    destruct p1, p2; cbn [preq] in Hp; try contradiction; cbn [fkids] in HK;
      try (destruct (IH f2 Hf (Hl' eq_refl) HK) as (A1 & A2 & A3 & A4);
           cbn [fmt_all forallb plain_piece andb];
           split; [exact A1|]; split; [exact A2|]; split; [|exact A4];
           intro E; specialize (A3 E); destruct f1, f2; try contradiction; [reflexivity|];
           cbn [fmt_lastarg plain_piece andb] in *; exact A3).
    destruct Hp as (<- & -> & Hx). destruct (la_err _ _ _ (Hl eq_refl)) as [-> Hv].
    destruct f2; [|contradiction]. destruct (Forall_inv HK _ Hx) as [N1 N2].
    cbn [fmt_all]. rewrite N1, N2. split; [reflexivity|]. split; [reflexivity|]. split; [|discriminate].
    intros _. destruct v; try reflexivity. exfalso. now apply Hv.
Qed.

Lemma blist_frag rs1 : forall rs2, all2 req rs1 rs2 -> Forall NF rs1 ->
  forallb ni_frag rs1 = true /\ forallb ni_frag rs2 = true.
Proof.
  induction rs1 as [|x1 rs1 IH]; intros [|x2 rs2] H HK; simpl in H; try contradiction; [split; reflexivity|].
  destruct H as [Hx Hr]. destruct (Forall_inv HK _ Hx) as [N1 N2].
  destruct (IH rs2 Hr (Forall_inv_tail HK)) as [A B]. cbn [forallb]. now rewrite N1, N2, A, B.
Qed.

Theorem req_frag : forall r1 r2, req r1 r2 -> ni_frag r1 = true /\ ni_frag r2 = true.
Proof.
  induction r1 as [r1 IH] using recipe_kids_ind. intros r2 Hr.
  destruct r1; destruct r2; cbn [req] in Hr; try contradiction; cbn [kids] in IH;
    unfold ni_frag; cbn [all_nodes chk_ni andb]; fold ni_frag;
    repeat match goal with H : _ /\ _ |- _ => destruct H end;
    try (split; reflexivity).
  all: try (match goal with Ha : req ?a ?b |- ni_frag ?a = true /\ ni_frag ?b = true =>
              exact (Forall_inv IH _ Ha) end).
  all: try (match goal with
            | Ha : req ?a ?b, Hx : req ?x ?y |- ni_frag ?a && ni_frag ?x = true /\ _ =>
              destruct (Forall_inv IH _ Ha) as [N1 N2];
              destruct (Forall_inv (Forall_inv_tail IH) _ Hx) as [N3 N4];
              rewrite N1, N2, N3, N4; split; reflexivity
            end).
  all: try (match goal with
            | Hf : all2 (preq false) ?f ?g, Hl : fmt_lastarg ?f = true |- fmt_lastarg ?f && _ = true /\ _ =>
              destruct (fmt_frag_rel false f g Hf (fun _ => Hl) IH) as (A1 & A2 & A3 & _);
              rewrite Hl, (A3 eq_refl), A1, A2; split; reflexivity
            | Hf : all2 (preq true) ?f ?g |- forallb plain_piece ?f && _ = true /\ _ =>
              destruct (fmt_frag_rel true f g Hf ltac:(discriminate) IH) as (A1 & A2 & _ & A4);
              destruct (A4 eq_refl) as [P1 P2]; rewrite P1, P2, A1, A2; split; reflexivity
            end).
  all: try (match goal with
            | Ha : req ?a ?b, Hf : all2 (preq false) ?f ?g, Hl : fmt_lastarg ?f = true |- _ =>
              destruct (Forall_inv IH _ Ha) as [N1 N2];
              destruct (fmt_frag_rel false f g Hf (fun _ => Hl) (Forall_inv_tail IH)) as (A1 & A2 & A3 & _);
              rewrite Hl, (A3 eq_refl), N1, N2, A1, A2; split; reflexivity
            | Ha : req ?a ?b, Hf : all2 (preq true) ?f ?g |- _ =>
              destruct (Forall_inv IH _ Ha) as [N1 N2];
              destruct (fmt_frag_rel true f g Hf ltac:(discriminate) (Forall_inv_tail IH)) as (A1 & A2 & _ & A4);
              destruct (A4 eq_refl) as [P1 P2]; rewrite P1, P2, N1, N2, A1, A2; split; reflexivity
            end).
  all: try (match goal with Hr : all2 req ?a ?b |- _ => exact (blist_frag a b Hr IH) end).
  (* RUWrap *)
  subst u0. match goal with Ha : req ?a ?b |- _ => destruct (Forall_inv IH _ Ha) as [N1 N2] end.
  rewrite N1, N2. destruct u; try (split; reflexivity). congruence.
Qed.

(* ================================================================== *)
(* 8. what is FALSE, and an example                                    *)
(* ================================================================== *)
Definition built (r : recipe) : option err := fst (build (mkbenv []) r bs_init).
Definition red_short (r : recipe) : str :=
  match built r with Some e => redact (fmt_red_short e) | None => [] end.
Definition red_verbose (r : recipe) : str :=
  match built r with Some e => redact (fmt_red_verbose e) | None => [] end.

(* (a) [srel] alone is not enough for the message of stdlib errors.New (nor for the text of a
   fmt.Errorf without %w): by design the special-case printer keeps the text of an
   *errors.errorString that reads like one of the os / context sentinels.  Hence [srel_sent]. *)
Example api_ni_false_sentinel_text :
  srel (lit "context canceled") (lit "context cancelex") /\
  red_short (RStdNew (lit "context canceled")) = lit "context canceled" /\
  red_short (RStdNew (lit "context cancelex")) = m_redacted.
Proof. vm_compute. repeat split. Qed.

(* (b) a foreign wrapper whose Error() does not end with the text of its cause (the type *ut.WFull:
   Error() is its message alone): extractPrefix compares the two unsafe texts, and the redacted rendering
   shows whether the message of the wrapper ends with ": " + the text of the cause.  Not in [req]. *)
Example api_ni_false_wfull :
  srel (lit "p: x") (lit "p: y") /\
  red_short (RUWrap UWFull (RStdNew (lit "x")) (lit "p: x") []) = m_redacted ++ lit ": " ++ m_redacted /\
  red_short (RUWrap UWFull (RStdNew (lit "x")) (lit "p: y") []) = m_redacted.
Proof. vm_compute. repeat split. Qed.

(* (c) an integer argument of WithHintf / WithDetailf / fmt.Errorf: the hint is a plain string that
   the engine writes itself, so a line of one digit and a line of two digits are told apart
   (the finding [ni_verbose_false_hint] of EngineNI.v, reached through the API).  Hence the
   clause on [FInt] in [preq true]. *)
Example api_ni_false_hint_digits :
  red_verbose (RHintf (RStdNew (lit "m")) [FLit [nl]; FInt VD 5]) <>
  red_verbose (RHintf (RStdNew (lit "m")) [FLit [nl]; FInt VD 55]).
Proof. vm_compute. discriminate. Qed.

(* (d) stdlib errors.Join (and every construct that writes the Error() TEXT of a built error raw:
   fmt.Errorf / WithHintf / WithDetailf with an error argument): the text of
   errors.Newf("%s", "‹") is "?" (the marker rune is escaped into one byte), the text of
   errors.Newf("%s", "ab") is "ab"; the two arguments have the same line classes, the two texts
   do not, and state.Write glues a one-byte line to what precedes.  So [srel] on the arguments is
   not preserved by Error(), and [req] does not cover these constructs. *)
Example api_ni_false_stdjoin :
  srel m_start (lit "ab") /\
  red_short (RStdJoin [RStdNew []; RNewf [FStr VS m_start]]) = m_redacted /\
  red_short (RStdJoin [RStdNew []; RNewf [FStr VS (lit "ab")]]) = nl :: m_redacted.
Proof. vm_compute. repeat split. Qed.

(* (e) RTransfer is not covered, and [ueq] is the wrong relation for it: a process that has no decoder
   for a type keeps the whole wire details of the node, full payload included, in the opaque
   stand-in, and [ueq] asks the details of two opaque nodes to be EQUAL although the renderings only
   print their safe part.  Here a hint crosses a process that does not know withHint: the two
   results are not related by [ueq], yet their redacted renderings coincide. *)
Definition tr_hint (h : str) : recipe := RTransfer (RHint (RStdNew (lit "m")) h) [mkproc [k_withHint]].

Example transfer_outside_ueq e1 e2 :
  built (tr_hint (lit "ab")) = Some e1 -> built (tr_hint (lit "cd")) = Some e2 ->
  srel (lit "ab") (lit "cd") /\ ~ ueq e1 e2 /\
  redact (fmt_red_short e1) = redact (fmt_red_short e2) /\
  redact (fmt_red_verbose e1) = redact (fmt_red_verbose e2).
Proof.
  intros E1 E2. vm_compute in E1, E2. injection E1 as <-. injection E2 as <-.
  split; [reflexivity|]. split; [|split; vm_compute; reflexivity].
  intro H. cbn [ueq] in H. destruct H as (_ & Hd & _). discriminate Hd.
Qed.

(* ---- two related constructor expressions: a Wrapf with unsafe %s arguments, an integer and an
   error argument in last position (which becomes a secondary error), a barrier with a message, a
   hint, context tags, a domain, an explicit secondary error with a pkg/errors layer ---- *)
Definition ni_mk (user path : str) (n : Z) (cause hint tagv sec pm : str) : recipe :=
  RSecondary
    (RHint
      (RTags
        (RDomain
          (RWrapf (RHandledMsg (RNew (lit "base failure")) path)
                  [FLit (lit "user "); FStr VS user; FLit (lit " (uid "); FInt VD n; FLit (lit ") failed: ");
                   FErr VV (RStdNew cause)])
          (lit "storage"))
        [(lit "node", TVSafe (lit "n1")); (lit "tenant", TVStr tagv); (lit "shard", TVInt n)])
      hint)
    (RPkgMsg (RWithStack (RStdNew sec)) pm).

Definition ni_r1 : recipe :=
  ni_mk (lit "alice") (lit "/home/alice/.ssh/id_rsa") 7 (lit "disk /dev/sda1 full")
        (lit "try" ++ [nl] ++ lit "again") (lit "acme") (lit "secondary one") (lit "while cleaning").
Definition ni_r2 : recipe :=
  ni_mk (lit "bob!!") (lit "/root/x") 31337 (lit "no space left on /dev/nvme0n1p2")
        (lit "abc" ++ [nl] ++ lit "zzzzzzzz") (lit "globex corp") (lit "other") (lit "pm").

Example ni_ex_req : req ni_r1 ni_r2.
Proof.
  unfold ni_r1, ni_r2, ni_mk. simpl.
  repeat match goal with |- _ /\ _ => split end;
    try reflexivity; try exact I; try (vm_compute; reflexivity); try discriminate.
  all: split; try reflexivity; try exact I; vm_compute; reflexivity.
Qed.

Example ni_ex_frag : ni_frag ni_r1 = true /\ ni_frag ni_r2 = true.
Proof. split; vm_compute; reflexivity. Qed.

Example ni_ex_hyps : strs_ok ni_r1 = true /\ strs_ok ni_r2 = true /\ stacks_ok ex_env.
Proof.
  split; [vm_compute; reflexivity|]. split; [vm_compute; reflexivity|].
  exact (proj2 (proj2 ex_recipe_ok)).
Qed.

Example ni_ex_ni :
  exists e1 e2 s',
    build ex_env ni_r1 bs_init = (Some e1, s') /\ build ex_env ni_r2 bs_init = (Some e2, s') /\
    redact (fmt_red_short e1) = redact (fmt_red_short e2) /\
    redact (fmt_red_verbose e1) = redact (fmt_red_verbose e2) /\
    get_all_safe_details e1 = get_all_safe_details e2 /\
    build_report e1 = build_report e2 /\
    enc_safe (encode e1) = enc_safe (encode e2).
Proof.
  destruct ni_ex_hyps as (T1 & T2 & K).
  destruct (build ex_env ni_r1 bs_init) as [[e1|] s1] eqn:E1; [|vm_compute in E1; discriminate].
  destruct (build ex_env ni_r2 bs_init) as [[e2|] s2] eqn:E2; [|vm_compute in E2; discriminate].
  destruct (api_ueq _ _ _ _ _ _ _ _ ni_ex_req E1 E2) as [_ <-].
  exists e1, e2, s1. split; [reflexivity|]. split; [reflexivity|].
  split; [exact (api_ni_short _ _ _ _ _ _ _ _ ni_ex_req E1 E2)|].
  split; [exact (api_ni_verbose _ _ _ _ _ _ _ _ ni_ex_req T1 T2 K E1 E2)|].
  split; [exact (api_ni_details _ _ _ _ _ _ _ _ ni_ex_req T1 T2 K E1 E2)|].
  split; [exact (api_ni_report _ _ _ _ _ _ _ _ ni_ex_req T1 T2 K E1 E2)|].
  exact (api_ni_encode _ _ _ _ _ _ _ _ ni_ex_req T1 T2 K E1 E2).
Qed.

(* the two errors do differ in what they print before Redact() *)
Example ni_ex_differ e1 e2 s1 s2 :
  build ex_env ni_r1 bs_init = (Some e1, s1) -> build ex_env ni_r2 bs_init = (Some e2, s2) ->
  fmt_red_short e1 <> fmt_red_short e2.
Proof.
  intros E1 E2. vm_compute in E1, E2. injection E1 as <- <-. injection E2 as <- <-.
  vm_compute. discriminate.
Qed.
