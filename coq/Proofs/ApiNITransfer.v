(* C03 on the input of the public API, extended to network transfers (RTransfer).

   [ueqT]   : [ueq] of EngineNI.v with the details of the opaque nodes RELATED ([detV]: type names,
              reportable payload, presence of a full payload) instead of EQUAL.
   See the summary at the end of the file for what is proved and what is refuted. *)
From Coq Require Import Lia List Bool.
From Errv Require Import Base.Str Redact.Markers Redact.Buffer Model.Err Model.Sem Model.Details Model.Marks
     Model.Codec Model.Access Model.Report Model.Build
     Proofs.StrFacts Proofs.FastIs Proofs.RedactFacts Proofs.RedactWf Proofs.EngineFacts Proofs.EngineWf
     Proofs.EngineNI Proofs.HiddenNI Proofs.HiddenVisible Proofs.SpecText Proofs.DetailsNI Proofs.ApiWf
     Proofs.ApiNI Proofs.HopIdem.
Import ListNotations.

(* ================================================================== *)
(* 1. the relation                                                     *)
(* ================================================================== *)
Definition osome {A} (o : option A) : bool := match o with Some _ => true | None => false end.

(* what the engine reads of the details of an opaque node: the type names, the reportable payload,
   the type URL of the full payload when there is one (the same for related payloads: [plT_url]) *)
Definition detV (d1 d2 : details) : Prop :=
  dt_orig d1 = dt_orig d2 /\ dt_fam d1 = dt_fam d2 /\ dt_ext d1 = dt_ext d2 /\ dt_rep d1 = dt_rep d2 /\
  match dt_full d1, dt_full d2 with
  | Some p1, Some p2 => any_url p1 = any_url p2
  | None, None => True
  | _, _ => False
  end.

Lemma detV_refl d : detV d d.
Proof. unfold detV. repeat split. destruct (dt_full d); reflexivity. Qed.

Fixpoint ueqT (e1 e2 : err) {struct e1} : Prop :=
  match e1, e2 with
  | Leaf _ k1, Leaf _ k2 => lrel k1 k2
  | Wrap _ w1 c1, Wrap _ w2 c2 =>
    wrel w1 w2 /\ ueqT c1 c2 /\
    (fsw w1 = true -> xrel (error_text e1) (error_text c1) (error_text e2) (error_text c2))
  | Second _ c1 s1, Second _ c2 s2 => ueqT c1 c2 /\ ueqT s1 s2
  | Barrier _ m1 h1, Barrier _ m2 h2 => redact m1 = redact m2 /\ ueqT h1 h2
  | Multi _ k1 cs1, Multi _ k2 cs2 =>
    mkrel k1 k2 /\ all2 ueqT cs1 cs2 /\ (k1 <> MJoin -> mrel e1 e2)
  | OLeaf _ m1 d1 cs1, OLeaf _ m2 d2 cs2 => shape m1 = shape m2 /\ detV d1 d2 /\ all2 ueqT cs1 cs2
  | OWrap _ p1 d1 t1 c1, OWrap _ p2 d2 t2 c2 =>
    shape p1 = shape p2 /\ detV d1 d2 /\ is_full_msg t1 = is_full_msg t2 /\ ueqT c1 c2
  | _, _ => False
  end.

(* (1) *)
Theorem ueq_ueqT e1 : forall e2, ueq e1 e2 -> ueqT e1 e2.
Proof.
  induction e1 using err_ind'; intros e2 Hu; destruct e2; cbn [ueq] in Hu; try contradiction; cbn [ueqT].
  - exact Hu.
  - destruct Hu as (A & B & C). split; [exact A|]. split; [now apply IHe1|exact C].
  - destruct Hu as (A & B). split; [now apply IHe1_1|now apply IHe1_2].
  - destruct Hu as (A & B). split; [exact A|now apply IHe1].
  - destruct Hu as (A & B & C). split; [exact A|]. split; [|exact C].
    revert B. now apply all2_imp_F.
  - destruct Hu as (A & <- & C). split; [exact A|]. split; [apply detV_refl|].
    revert C. now apply all2_imp_F.
  - destruct Hu as (A & <- & B & C). split; [exact A|]. split; [apply detV_refl|]. split; [exact B|now apply IHe1].
Qed.

(* ================================================================== *)
(* 2. (3) the engine theorems for [ueqT]                               *)
(* ================================================================== *)
Lemma opaque_details_WS_T kind d1 d2 st1 st2 : detV d1 d2 -> WS true st1 st2 ->
  WS true (opaque_details kind d1 st1) (opaque_details kind d2 st2).
Proof.
  intros (Ho & _ & _ & Hr & Hf) H. unfold opaque_details. cbv zeta. rewrite <- Ho, <- Hr.
  assert (H2 : WS true (sp_print (sp_print st1 [PLit (nl :: lit kind)])
                               [PLit (nl :: lit "type name: "); PSafe (dt_orig d1)])
                       (sp_print (sp_print st2 [PLit (nl :: lit kind)])
                               [PLit (nl :: lit "type name: "); PSafe (dt_orig d1)])).
  { sp_same_tac. sp_same_tac. exact H. }
  set (a1 := sp_print (sp_print st1 [PLit (nl :: lit kind)]) _) in *.
  set (a2 := sp_print (sp_print st2 [PLit (nl :: lit kind)]) _) in *. clearbody a1 a2.
  assert (H3 : forall l (n : N) b1 b2, WS true b1 b2 ->
     WS true (snd (fold_left
      (fun (acc : N * fstate) (r : str) =>
         (fst acc + 1,
          sp_print (snd acc) [PLit (nl :: lit "reportable "); PSafe (dec_of_N (fst acc));
                              PLit ([colon; nl]); PSafe r])) l (n, b1)))
             (snd (fold_left
      (fun (acc : N * fstate) (r : str) =>
         (fst acc + 1,
          sp_print (snd acc) [PLit (nl :: lit "reportable "); PSafe (dec_of_N (fst acc));
                              PLit ([colon; nl]); PSafe r])) l (n, b2)))).
  { induction l as [|x l IHl]; intros n b1 b2 Hb; cbn [fold_left]; [exact Hb|].
    cbn [fst snd]. apply IHl. sp_same_tac. exact Hb. }
  specialize (H3 (dt_rep d1) 0 a1 a2 H2).
  destruct (dt_full d1) as [q1|], (dt_full d2) as [q2|]; try contradiction; [|exact H3].
  rewrite <- Hf. sp_same_tac. exact H3.
Qed.

Lemma oleaf_node_rel_T wd i1 i2 m1 m2 d1 d2 cs1 cs2 :
  shape m1 = shape m2 -> detV d1 d2 ->
  Forall2 (fun c1 c2 => NodeRel wd (sem c1) (sem c2)) cs1 cs2 ->
  NodeRel wd (sem (OLeaf i1 m1 d1 cs1)) (sem (OLeaf i2 m2 d2 cs2)).
Proof.
  intros Hm Hd Hcs.
  assert (Ety : go_type_string (OLeaf i1 m1 d1 cs1) = go_type_string (OLeaf i2 m2 d2 cs2)).
  { destruct Hcs; reflexivity. }
  apply Forall2_map' in Hcs. unfold NodeRel. cbn [sem ns_fmt]. rewrite Ety.
  apply format_node_rel; [exact I|exact Hcs|]. intros o st1 st2 H _. unfold body_safe. cbv zeta. brr_split.
  apply if_detail_WS; [apply sp_print_WS; [apply H|pr_plain]|].
  intros a1 a2 Ha. now apply opaque_details_WS_T.
Qed.

Lemma owrap_node_rel_T wd i1 i2 p1 p2 d1 d2 t1 t2 c1 c2 :
  shape p1 = shape p2 -> detV d1 d2 -> is_full_msg t1 = is_full_msg t2 ->
  NodeRel wd (sem c1) (sem c2) ->
  NodeRel wd (sem (OWrap i1 p1 d1 t1 c1)) (sem (OWrap i2 p2 d2 t2 c2)).
Proof.
  intros Hp Hd Ht Hc. unfold NodeRel. cbn [sem ns_fmt]. rewrite Ht.
  apply format_node_rel; [exact Hc|constructor|]. intros o st1 st2 H _. unfold body_safe. cbv zeta. brr_split.
  apply if_detail_WS; [|intros a1 a2 Ha; now apply opaque_details_WS_T].
  pose proof (shape_is_empty _ _ Hp) as Ee.
  destruct p1, p2; try discriminate Ee; [apply H|]. apply sp_print_WS; [apply H|pr_plain].
Qed.

Lemma ueqT_short e1 : forall e2, ueqT e1 e2 -> sh_ok e1 -> sh_ok e2 -> SRel e1 e2.
Proof.
  induction e1 using err_ind'; intros e2 Hu O1 O2; destruct e2; cbn [ueqT] in Hu; try contradiction;
    cbn [sh_ok] in O1, O2.
  - split; [now apply leaf_node_rel|now apply lrel_safemsg].
  - destruct Hu as (Hw & Hc & HX). destruct O1 as [W1 O1]. destruct O2 as [W2 O2].
    split; [|reflexivity]. apply wrap_node_rel; try assumption. exact (proj1 (IHe1 _ Hc O1 O2)).
  - destruct Hu as (Hc & Hs). split; [|reflexivity].
    apply second_node_rel; [exact (proj1 (IHe1_1 _ Hc O1 O2))|discriminate].
  - destruct Hu as (Hm & Hh). split; [|reflexivity].
    apply barrier_node_rel; try assumption. discriminate.
  - destruct Hu as (Hk & Hcs & Hm). rewrite allP_Forall in O1, O2.
    pose proof (Forall_all2 ueqT SRel sh_ok cs H cs0 Hcs O1 O2) as HR.
    split; [|destruct k, k0; cbn [mkrel] in Hk; try contradiction; reflexivity].
    apply multi_node_rel; try assumption.
    + revert HR. apply Forall2_imp. intros a b Hab. exact (proj1 Hab).
    + intros _. revert HR. apply Forall2_imp. intros a b Hab. now apply SRel_PR.
  - destruct Hu as (Hm & Hd & Hcs). rewrite allP_Forall in O1, O2.
    pose proof (Forall_all2 ueqT SRel sh_ok cs H cs0 Hcs O1 O2) as HR.
    split; [|reflexivity]. apply oleaf_node_rel_T; [exact Hm|exact Hd|].
    revert HR. apply Forall2_imp. intros a b Hab. exact (proj1 Hab).
  - destruct Hu as (Hp & Hd & Ht & Hc). split; [|reflexivity].
    apply owrap_node_rel_T; try assumption. exact (proj1 (IHe1 _ Hc O1 O2)).
Qed.

(* (3), %v *)
Theorem ni_short_T e1 e2 : ueqT e1 e2 -> sh_ok e1 -> sh_ok e2 ->
  redact (fmt_red_short e1) = redact (fmt_red_short e2).
Proof.
  intros Hu O1 O2. unfold fmt_red_short.
  exact (proj2 (proj2 (sprint_PR _ _ (SRel_PR _ _ (ueqT_short e1 e2 Hu O1 O2))))).
Qed.

Lemma ueqT_verbose e1 : forall e2, ueqT e1 e2 -> vb_ok e1 -> vb_ok e2 -> VRel e1 e2.
Proof.
  induction e1 using err_ind'; intros e2 Hu O1 O2; destruct e2; cbn [ueqT] in Hu; try contradiction;
    cbn [vb_ok] in O1, O2.
  - split; [|now apply lrel_safemsg].
    apply leaf_node_rel; [exact Hu|destruct k; trivial|destruct k0; trivial].
  - destruct Hu as (Hw & Hc & HX). destruct O1 as (W1 & S1 & O1). destruct O2 as (W2 & S2 & O2).
    split; [|reflexivity]. apply wrap_node_rel; try assumption. exact (proj1 (IHe1 _ Hc O1 O2)).
  - destruct Hu as (Hc & Hs). destruct O1 as (O1 & P1 & G1). destruct O2 as (O2 & P2 & G2).
    split; [|reflexivity]. apply second_node_rel; [exact (proj1 (IHe1_1 _ Hc O1 O2))|]. intros _.
    apply (VRel_PR [PLit sec_lit]); try assumption; [repeat constructor|]. now apply IHe1_2.
  - destruct Hu as (Hm & Hh). destruct O1 as (W1 & P1 & G1). destruct O2 as (W2 & P2 & G2).
    split; [|reflexivity]. apply barrier_node_rel; try assumption. intros _.
    apply (VRel_PR [PLit bar_lit]); try assumption; [repeat constructor|]. now apply IHe1.
  - destruct Hu as (Hk & Hcs & Hm). rewrite allP_Forall in O1, O2.
    pose proof (Forall_all2 ueqT VRel vb_ok cs H cs0 Hcs O1 O2) as HR.
    assert (HS : Forall2 SRel cs cs0).
    { apply (Forall_all2 ueqT SRel vb_ok cs); try assumption.
      apply Forall_forall. intros c _ c2 Hc V1 V2. apply ueqT_short; [exact Hc|now apply vb_sh|now apply vb_sh]. }
    split; [|destruct k, k0; cbn [mkrel] in Hk; try contradiction; reflexivity].
    apply multi_node_rel; try assumption.
    + revert HR. apply Forall2_imp. intros a b Hab. exact (proj1 Hab).
    + intros _. revert HS. apply Forall2_imp. intros a b Hab. now apply SRel_PR.
  - destruct Hu as (Hm & Hd & Hcs). rewrite allP_Forall in O1, O2.
    pose proof (Forall_all2 ueqT VRel vb_ok cs H cs0 Hcs O1 O2) as HR.
    split; [|reflexivity]. apply oleaf_node_rel_T; [exact Hm|exact Hd|].
    revert HR. apply Forall2_imp. intros a b Hab. exact (proj1 Hab).
  - destruct Hu as (Hp & Hd & Ht & Hc). split; [|reflexivity].
    apply owrap_node_rel_T; try assumption. exact (proj1 (IHe1 _ Hc O1 O2)).
Qed.

(* (3), %+v *)
Theorem ni_verbose_T e1 e2 : ueqT e1 e2 -> vb_ok e1 -> vb_ok e2 -> glue_top e1 -> glue_top e2 ->
  redact (fmt_red_verbose e1) = redact (fmt_red_verbose e2).
Proof.
  intros Hu O1 O2 G1 G2. unfold fmt_red_verbose.
  exact (proj2 (proj2 (sprint_PR _ _ (VRel_PR [] e1 e2 (Forall_nil _) (ueqT_verbose e1 e2 Hu O1 O2) O1 O2 G1 G2)))).
Qed.

(* ================================================================== *)
(* 3. (2) as stated is FALSE: no relation containing [ueq] is closed   *)
(*    under hops and sufficient for the engine theorem                 *)
(* ================================================================== *)
(* An opaque leaf keeps the family name of the type it stands for.  [ueq] (hence any relation that
   contains it) relates two opaque leaves of family *errors.errorString whose messages have the same
   [shape] -- enough for an opaque leaf, whose message is printed as an unsafe ARGUMENT -- but a
   process that knows errorString turns them back into errorString leaves, whose message the engine
   WRITES itself ([sh3] needed: [ni_short_false_shape] of EngineNI.v). *)
Definition cx_d : details := mkdet (lit "errors/*errors.errorString") k_errorString [] [] None.
Definition cx1 : err := OLeaf 1%positive [nl; 97] cx_d [].
Definition cx2 : err := OLeaf 1%positive [nl; 98; 99] cx_d [].

Example cx_ueq : ueq cx1 cx2 /\ sh_ok cx1 /\ sh_ok cx2.
Proof. cbn [cx1 cx2 ueq sh_ok allP all2]. repeat split. Qed.

Example cx_hop :
  fst (hop all_knowing cx1 100%positive) = Leaf 100%positive (LErrString [nl; 97]) /\
  fst (hop all_knowing cx2 100%positive) = Leaf 100%positive (LErrString [nl; 98; 99]) /\
  redact (fmt_red_short (fst (hop all_knowing cx1 100%positive))) = m_redacted /\
  redact (fmt_red_short (fst (hop all_knowing cx2 100%positive))) = nl :: m_redacted.
Proof. vm_compute. repeat split. Qed.

Theorem no_hop_closed_relation_above_ueq :
  ~ exists R : err -> err -> Prop,
      (forall e1 e2, ueq e1 e2 -> R e1 e2) /\
      (forall p e1 e2 n, R e1 e2 -> R (fst (hop p e1 n)) (fst (hop p e2 n))) /\
      (forall e1 e2, R e1 e2 -> sh_ok e1 -> sh_ok e2 -> redact (fmt_red_short e1) = redact (fmt_red_short e2)).
Proof.
  intros (R & H1 & H2 & H3). destruct cx_ueq as (U & _ & _).
  pose proof (H2 all_knowing _ _ 100%positive (H1 _ _ U)) as HR.
  destruct cx_hop as (E1 & E2 & F1 & F2).
  specialize (H3 _ _ HR). rewrite F1, F2 in H3. rewrite E1, E2 in H3.
  specialize (H3 I I). vm_compute in H3. discriminate H3.
Qed.

(* in particular [ueqT] itself is not preserved by a hop *)
Corollary ueqT_not_hop_closed :
  ~ (forall p e1 e2 n, ueqT e1 e2 -> ueqT (fst (hop p e1 n)) (fst (hop p e2 n))).
Proof.
  intro H. apply no_hop_closed_relation_above_ueq. exists ueqT.
  split; [intros e1 e2; apply ueq_ueqT|]. split; [exact H|]. intros e1 e2. apply ni_short_T.
Qed.

(* Even the invariant [G] of ApiNI.v (ueq + the positions of [sdx] / [encx] + sh_ok), on errors WITHOUT
   opaque nodes, is not enough: an *errbase.OpaqueErrno carries its errno payload, which [ueq] / [G]
   leave free (the engine prints the stored message only); when the payload claims the platform of the
   receiving process the decoder rebuilds a syscall.Errno from the NUMBER.  (Not reachable from related
   recipes: RForeignErrno takes equal numbers and foreign platforms.) *)
Definition ce_pl (n : Z) : errno_pl := mkerrno n this_arch false false false false false.
Definition ce (n : Z) : err := Leaf 1%positive (LOpaqueErrno (lit "m") (ce_pl n)).

Example ce_G : G (ce 1) (ce 2).
Proof.
  unfold G, ce. split; [|split; [|split; exact I]].
  - cbn [ueq lrel]. unfold frel. split; vm_compute; reflexivity.
  - unfold xx. cbn [nodes2]. split; reflexivity.
Qed.

Example ce_hop :
  redact (fmt_red_short (fst (hop all_knowing (ce 1) 100%positive))) <>
  redact (fmt_red_short (fst (hop all_knowing (ce 2) 100%positive))).
Proof. vm_compute. discriminate. Qed.

(* ================================================================== *)
(* 4. the relation on wire messages, and the decoding half of (2)      *)
(* ================================================================== *)
(* The differences [req] allows, on the wire.  What a string of a wire node is used for depends on the
   family name of the node (it selects the decoder), so the relation on messages and payloads is
   indexed by the family: always the same line shape (an opaque node prints its message as an unsafe
   argument), and per family what the decoder of that family does with the string. *)
Definition msgT (fam m1 m2 : str) : Prop :=
  shape m1 = shape m2 /\
  (str_eqb fam k_errorString = true -> frel (LErrString m1) (LErrString m2)) /\
  (str_eqb fam k_barrier = true -> redact m1 = redact m2) /\
  (str_eqb fam k_errno || str_eqb fam k_opaqueErrno = true -> m1 = m2) /\
  (str_eqb fam k_pkgMsg = true -> sh3 m1 = sh3 m2) /\
  (str_eqb fam k_syscallError = true -> m1 = m2).

Definition tagT (kv1 kv2 : str * str) : Prop := fst kv1 = fst kv2 /\ shape (snd kv1) = shape (snd kv2).

Fixpoint encT (x1 x2 : enc) {struct x1} : Prop :=
  match x1, x2 with
  | ELeaf m1 d1 cs1, ELeaf m2 d2 cs2 => msgT (dt_fam d1) m1 m2 /\ detT d1 d2 /\ all2 encT cs1 cs2
  | EWrap c1 m1 d1 t1, EWrap c2 m2 d2 t2 =>
    encT c1 c2 /\ msgT (dt_fam d1) m1 m2 /\ detT d1 d2 /\ is_full_msg t1 = is_full_msg t2
  | _, _ => False
  end
with detT (d1 d2 : details) {struct d1} : Prop :=
  match d1, d2 with
  | mkdet o1 f1 x1 r1 p1, mkdet o2 f2 x2 r2 p2 =>
    o1 = o2 /\ f1 = f2 /\ x1 = x2 /\ r1 = r2 /\
    match p1, p2 with
    | Some a, Some b => plT f1 a b
    | None, None => True
    | _, _ => False
    end
  end
with plT (fam : str) (p1 p2 : payload) {struct p1} : Prop :=
  match p1, p2 with
  | PlString a, PlString b =>
    (str_eqb fam k_withHint = true -> sh3 a = sh3 b) /\
    (str_eqb fam k_withDetail = true -> sh3 a = sh3 b) /\
    (str_eqb fam k_leafError = true -> redact a = redact b) /\
    (str_eqb fam k_withPrefix = true -> redact a = redact b) /\
    (str_eqb fam k_withNewMessage = true -> redact a = redact b)
  | PlStrings l1, PlStrings l2 =>
    match l1, l2 with
    | a1 :: r1, a2 :: r2 => a1 = a2 /\ all2 (fun a b : str => shape a = shape b) r1 r2
    | [], [] => True
    | _, _ => False
    end
  | PlTags l1, PlTags l2 => all2 tagT l1 l2
  | PlMark _ t1, PlMark _ t2 => t1 = t2
  | PlErrno a, PlErrno b => a = b
  | PlEnc a, PlEnc b => encT a b
  | PlHTTP a, PlHTTP b => a = b
  | PlGrpc a, PlGrpc b => a = b
  | PlStatus c1 m1, PlStatus c2 m2 => c1 = c2 /\ sh3 m1 = sh3 m2
  | PlTestError, PlTestError => True
  | PlOther u1 _, PlOther u2 _ => u1 = u2
  | _, _ => False
  end.

Lemma plT_url fam p1 p2 : plT fam p1 p2 -> any_url p1 = any_url p2.
Proof. destruct p1, p2; cbn [plT]; try contradiction; try reflexivity. intro H. exact H. Qed.

Lemma detT_detV d1 d2 : detT d1 d2 -> detV d1 d2.
Proof.
  destruct d1 as [o1 f1 x1 r1 p1], d2 as [o2 f2 x2 r2 p2]. cbn [detT]. intros (-> & -> & -> & -> & H).
  unfold detV. cbn [dt_orig dt_fam dt_ext dt_rep dt_full]. repeat split.
  destruct p1, p2; try contradiction; [|exact I]. exact (plT_url _ _ _ H).
Qed.

(* the decoder, with its local definitions named *)
Definition dopaque (p : proc) (msg : str) (d : details) (cs : list enc) (n : positive) : err * positive :=
  let '(es, n1) := decode_list (decode p) cs n in
  let '(i, n2) := fresh n1 in (OLeaf i msg d es, n2).
Definition dleaf (k : leafk) (n : positive) : err * positive := let '(i, n1) := fresh n in (Leaf i k, n1).

Lemma decode_leaf_eq p msg o fam e rep pl cs n :
  decode p (ELeaf msg (mkdet o fam e rep pl) cs) n =
  let d := mkdet o fam e rep pl in
  let opaque := dopaque p msg d cs in
  let leaf := dleaf in
    if mem_str fam leaf_decoder_keys && knows p fam then
      if str_eqb fam k_errorString then leaf (LErrString msg) n
      else if str_eqb fam k_deadline then (Leaf 10%positive LDeadline, n)
      else if str_eqb fam k_leafError then
        match pl with Some (PlString m) => leaf (LLeafError m) n | _ => opaque n end
      else if str_eqb fam k_barrier then
        match pl with
        | Some (PlEnc m) =>
          let '(em, n1) := decode p m n in let '(i, n2) := fresh n1 in (Barrier i msg em, n2)
        | _ => opaque n
        end
      else if str_eqb fam k_barrierPrev then
        match pl with
        | Some (PlEnc m) =>
          let '(em, n1) := decode p m n in let '(i, n2) := fresh n1 in
          (Barrier i (sprint_pieces [PUnsafe msg]) em, n2)
        | _ => opaque n
        end
      else if str_eqb fam k_unimpl then leaf (LUnimpl msg (nth_str 0 rep) (nth_str 1 rep)) n
      else if str_eqb fam k_errno || str_eqb fam k_opaqueErrno then
        match pl with
        | Some (PlErrno pe) =>
          if str_eqb (en_arch pe) this_arch then leaf (LErrno (en_errno pe)) n
          else leaf (LOpaqueErrno msg pe) n
        | _ => opaque n
        end
      else if str_eqb fam k_grpcStatus then
        match pl with
        | Some (PlStatus c m) => if c =? 0 then opaque n else leaf (LGrpcStatus c m) n
        | _ => opaque n
        end
      else if str_eqb fam k_gogoStatus then
        match pl with
        | Some (PlStatus c m) => if c =? 0 then opaque n else leaf (LGogoStatus c m) n
        | _ => opaque n
        end
      else opaque n
    else if mem_str fam multi_decoder_keys && knows p fam then
      let '(es, n1) := decode_list (decode p) cs n in
      match es with
      | [] => let '(i, n2) := fresh n1 in (OLeaf i msg d [], n2)
      | _ => let '(i, n2) := fresh n1 in (Multi i MJoin es, n2)
      end
    else
      match pl with
      | Some PlTestError => leaf LTestError n
      | _ => opaque n
      end.
Proof. reflexivity. Qed.

Lemma decode_wrap_eq p c msg o fam e rep pl mt n :
  decode p (EWrap c msg (mkdet o fam e rep pl) mt) n =
  let d := mkdet o fam e rep pl in
    let '(ec, n0) := decode p c n in
    let '(i, n1) := fresh n0 in
    let opaque := (OWrap i msg d mt ec, n1) in
    let wrap w := (Wrap i w ec, n1) in
    if mem_str fam wrap_decoder_keys && knows p fam then
      if str_eqb fam k_withPrefix then
        match pl with Some (PlString m) => wrap (WPrefix m) | _ => opaque end
      else if str_eqb fam k_withNewMessage then
        match pl with Some (PlString m) => wrap (WNewMsg m) | _ => opaque end
      else if str_eqb fam k_withHint then
        match pl with Some (PlString m) => wrap (WHint m) | _ => opaque end
      else if str_eqb fam k_withDetail then
        match pl with Some (PlString m) => wrap (WDetail m) | _ => opaque end
      else if str_eqb fam k_withIssueLink then wrap (WIssueLink (nth_str 0 rep) (nth_str 1 rep))
      else if str_eqb fam k_withTelemetry then wrap (WTelemetry rep)
      else if str_eqb fam k_withDomain then
        match rep with d0 :: _ => wrap (WDomain d0) | [] => opaque end
      else if str_eqb fam k_withContext then
        match pl with
        | Some (PlTags tags) =>
          match tags, rep with
          | [], [] => opaque
          | _, _ => wrap (WContext (tags_of (List.map (fun kv => (fst kv, TVStr (snd kv))) tags))
                                   (match rep with [] => None | _ => Some rep end))
          end
        | _ => opaque
        end
      else if str_eqb fam k_withAssert then wrap WAssert
      else if str_eqb fam k_withMark then
        match pl with Some (PlMark m (t :: tys)) => wrap (WMark (mkem m (t :: tys))) | _ => opaque end
      else if str_eqb fam k_withSafeDetails then wrap (WSafeDetails rep)
      else if str_eqb fam k_withSecondary then
        match pl with
        | Some (PlEnc s) =>
          let '(es, n2) := decode p s n1 in (Second i ec es, n2)
        | _ => opaque
        end
      else if str_eqb fam k_withHTTP then
        match pl with Some (PlHTTP code) => wrap (WHTTP (Z.of_N code)) | _ => opaque end
      else if str_eqb fam k_withGrpc then
        match pl with Some (PlGrpc code) => wrap (WGrpc code) | _ => opaque end
      else if str_eqb fam k_pkgMsg then wrap (WPkgMsg msg)
      else if str_eqb fam k_pathError then
        match pl with
        | Some (PlStrings (op :: path :: _)) => wrap (WPathError op path)
        | _ => opaque
        end
      else if str_eqb fam k_linkError then
        match pl with
        | Some (PlStrings (op :: old :: new :: _)) => wrap (WLinkError op old new)
        | _ => opaque
        end
      else if str_eqb fam k_syscallError then wrap (WSyscallError msg)
      else opaque
    else opaque.
Proof. reflexivity. Qed.

Lemma tags_fold_T l1 : forall l2 a1 a2, all2 tagT l1 l2 -> Forall2 tag_rel a1 a2 ->
  Forall2 tag_rel
    (fold_left (fun acc (kv : str * tagval) => tag_add (fst kv) (snd kv) acc)
               (List.map (fun kv : str * str => (fst kv, TVStr (snd kv))) l1) a1)
    (fold_left (fun acc (kv : str * tagval) => tag_add (fst kv) (snd kv) acc)
               (List.map (fun kv : str * str => (fst kv, TVStr (snd kv))) l2) a2).
Proof.
  induction l1 as [|x r IH]; intros [|y s] a1 a2 H Ha; simpl in H; try contradiction;
    cbn [List.map fold_left]; [exact Ha|].
  destruct H as [[Hk Hv] Hr]. apply IH; [exact Hr|]. cbn [fst snd]. rewrite Hk.
  apply tag_add_rel; [exact Ha|exact Hv].
Qed.

Lemma tags_T l1 l2 : all2 tagT l1 l2 ->
  Forall2 tag_rel (tags_of (List.map (fun kv : str * str => (fst kv, TVStr (snd kv))) l1))
                  (tags_of (List.map (fun kv : str * str => (fst kv, TVStr (snd kv))) l2)).
Proof. intro H. unfold tags_of. apply tags_fold_T; [exact H|constructor]. Qed.

Lemma frel_grpc_T c m1 m2 : sh3 m1 = sh3 m2 -> frel (LGrpcStatus c m1) (LGrpcStatus c m2).
Proof.
  intro H. unfold frel. rewrite !lsent_grpc. split; [reflexivity|]. cbn [leaf_text]. unfold grpc_status_text.
  now repeat apply sh3_pre.
Qed.
Lemma frel_gogo_T c m1 m2 : sh3 m1 = sh3 m2 -> frel (LGogoStatus c m1) (LGogoStatus c m2).
Proof.
  intro H. unfold frel. rewrite !lsent_gogo. split; [reflexivity|]. cbn [leaf_text]. unfold grpc_status_text.
  now repeat apply sh3_pre.
Qed.

Lemma unsafe_redact_T m1 m2 : shape m1 = shape m2 ->
  redact (sprint_pieces [PUnsafe m1]) = redact (sprint_pieces [PUnsafe m2]).
Proof.
  intro H. refine (proj2 (proj2 (sprint_PR _ _ _))). apply PR_plain. constructor; [exact H|constructor].
Qed.

Definition DT (p : proc) (x1 : enc) : Prop :=
  forall x2, encT x1 x2 -> forall n1 n2, ueqT (fst (decode p x1 n1)) (fst (decode p x2 n2)).

Lemma decode_list_T p cs1 : Forall (DT p) cs1 ->
  forall cs2, all2 encT cs1 cs2 -> forall n1 n2,
  all2 ueqT (fst (decode_list (decode p) cs1 n1)) (fst (decode_list (decode p) cs2 n2)).
Proof.
  induction 1 as [|x r Hx _ IH]; intros [|y s] H n1 n2; simpl in H; try contradiction; [exact I|].
  destruct H as [Hxy Hrs].
  change (decode_list (decode p) (x :: r) n1) with
    (let '(e, k) := decode p x n1 in let '(es, j) := decode_list (decode p) r k in (e :: es, j)).
  change (decode_list (decode p) (y :: s) n2) with
    (let '(e, k) := decode p y n2 in let '(es, j) := decode_list (decode p) s k in (e :: es, j)).
  specialize (Hx y Hxy n1 n2).
  destruct (decode p x n1) as [e1 k1], (decode p y n2) as [e2 k2]. specialize (IH s Hrs k1 k2).
  destruct (decode_list (decode p) r k1) as [es1 j1], (decode_list (decode p) s k2) as [es2 j2].
  cbn [fst] in *. split; assumption.
Qed.

Lemma dopaque_T p m1 m2 d1 d2 cs1 cs2 n1 n2 : shape m1 = shape m2 -> detV d1 d2 ->
  (forall k1 k2, all2 ueqT (fst (decode_list (decode p) cs1 k1)) (fst (decode_list (decode p) cs2 k2))) ->
  ueqT (fst (dopaque p m1 d1 cs1 n1)) (fst (dopaque p m2 d2 cs2 n2)).
Proof.
  intros Hm Hd Hc. unfold dopaque, fresh. specialize (Hc n1 n2).
  destruct (decode_list (decode p) cs1 n1) as [es1 j1], (decode_list (decode p) cs2 n2) as [es2 j2].
  cbn [fst ueqT] in *. auto.
Qed.

Ltac casc :=
  repeat match goal with
         | |- context [if ?b then _ else _] => let E := fresh "E" in destruct b eqn:E
         end.
Ltac conjs := repeat match goal with H : _ /\ _ |- _ => destruct H end.

Lemma decode_leaf_T p msg o f e r pl cs :
  Forall (DT p) cs -> pl_P (DT p) pl -> DT p (ELeaf msg (mkdet o f e r pl) cs).
Proof.
  intros Hcs Hpl x2 HT n1 n2. destruct x2 as [m2 [o2 f2 e2 r2 pl2] cs2|]; [|contradiction].
  cbn [encT detT dt_fam] in HT. destruct HT as (HM & (-> & -> & -> & -> & HP) & HC).
  rewrite !decode_leaf_eq. cbv zeta.
  pose proof (decode_list_T p cs Hcs cs2 HC) as HL.
  assert (HO : forall k1 k2, ueqT (fst (dopaque p msg (mkdet o2 f2 e2 r2 pl) cs k1))
                                  (fst (dopaque p m2 (mkdet o2 f2 e2 r2 pl2) cs2 k2))).
  { intros k1 k2. apply dopaque_T; [apply HM| |exact HL]. apply detT_detV. cbn [detT]. repeat split. exact HP. }
  destruct HM as (M0 & M1 & M2 & M3 & M4 & M5).
  assert (HJ : ueqT (fst (let '(es, k) := decode_list (decode p) cs n1 in
                          match es with
                          | [] => let '(i, j) := fresh k in (OLeaf i msg (mkdet o2 f2 e2 r2 pl) [], j)
                          | _ => let '(i, j) := fresh k in (Multi i MJoin es, j)
                          end))
                    (fst (let '(es, k) := decode_list (decode p) cs2 n2 in
                          match es with
                          | [] => let '(i, j) := fresh k in (OLeaf i m2 (mkdet o2 f2 e2 r2 pl2) [], j)
                          | _ => let '(i, j) := fresh k in (Multi i MJoin es, j)
                          end))).
  { specialize (HL n1 n2). unfold fresh.
    destruct (decode_list (decode p) cs n1) as [es1 j1], (decode_list (decode p) cs2 n2) as [es2 j2].
    cbn [fst] in HL. destruct es1, es2; simpl in HL; try contradiction; cbn [fst ueqT].
    - split; [exact M0|]. split; [|exact I]. apply detT_detV. cbn [detT]. repeat split. exact HP.
    - split; [exact I|]. split; [exact HL|]. intro F. now elim F. }
  destruct pl as [q1|], pl2 as [q2|]; try contradiction;
    [destruct q1, q2; cbn [plT] in HP; try contradiction|]; cbn [pl_P] in Hpl; conjs; subst;
    casc; cbv beta iota; try apply HO; try exact HJ;
    cbn [dleaf fresh fst ueqT lrel]; try exact I; try reflexivity; auto.
  - rewrite (M3 eq_refl). apply frel_refl.
  - specialize (Hpl _ HP n1 n2). destruct (decode p e n1) as [a1 j1], (decode p e0 n2) as [a2 j2].
    cbn [fst ueqT] in *. split; auto.
  - specialize (Hpl _ HP n1 n2). destruct (decode p e n1) as [a1 j1], (decode p e0 n2) as [a2 j2].
    cbn [fst ueqT] in *. split; [now apply unsafe_redact_T|exact Hpl].
  - now apply frel_grpc_T.
  - now apply frel_gogo_T.
Qed.

Lemma decode_wrap_T p c msg o f e r pl mt :
  DT p c -> pl_P (DT p) pl -> DT p (EWrap c msg (mkdet o f e r pl) mt).
Proof.
  intros Hc Hpl x2 HT n1 n2. destruct x2 as [|c2 m2 [o2 f2 e2 r2 pl2] mt2]; [contradiction|].
  cbn [encT detT dt_fam] in HT. destruct HT as (HC & HM & (-> & -> & -> & -> & HP) & Ht).
  rewrite !decode_wrap_eq. cbv zeta.
  specialize (Hc c2 HC n1 n2).
  destruct (decode p c n1) as [ec1 k1], (decode p c2 n2) as [ec2 k2]. cbn [fst] in Hc. unfold fresh.
  cbv beta iota.
  assert (HO : forall j1 j2 : positive, ueqT (fst (OWrap k1 msg (mkdet o2 f2 e2 r2 pl) mt ec1, j1))
                                  (fst (OWrap k2 m2 (mkdet o2 f2 e2 r2 pl2) mt2 ec2, j2))).
  { intros j1 j2. cbn [fst ueqT]. split; [apply HM|].
    split; [apply detT_detV; cbn [detT]; repeat split; exact HP|]. split; assumption. }
  destruct HM as (M0 & M1 & M2 & M3 & M4 & M5).
  destruct pl as [q1|], pl2 as [q2|]; try contradiction;
    [destruct q1, q2; cbn [plT] in HP; try contradiction|]; cbn [pl_P] in Hpl; conjs; subst;
    casc; cbv beta iota; try apply HO.
  all: repeat match goal with
              | |- context [match ?l with [] => _ | _ :: _ => _ end] => is_var l; destruct l
              end.
  all: try (simpl in HP; try contradiction; conjs; subst).
  all: cbv beta iota; try apply HO.
  all: try (match goal with
            | |- context [decode ?q ?a (Pos.succ ?x)] =>
              match goal with
              | |- context [decode ?q ?b (Pos.succ ?y)] =>
                (tryif constr_eq x y then fail else idtac);
                specialize (Hpl b HP (Pos.succ x) (Pos.succ y));
                destruct (decode q a (Pos.succ x)) as [a1 j1], (decode q b (Pos.succ y)) as [a2 j2];
                cbn [fst ueqT] in *; split; assumption
              end
            end).
  all: cbn [fst ueqT wrel fsw em_types em_msg].
  all: try (split;
            [|split; [exact Hc|first [let F := fresh in intro F; discriminate F
                                     |intros _; apply xrel_pkgmsg; auto]]]).
  all: try exact I.
  all: try (apply tags_T; assumption).
  all: try (split; [reflexivity|now rewrite !shape_go_quote]).
  all: try (auto; fail).
  all: try (repeat split; auto; fail).
  all: apply tags_T; simpl; split; assumption.
Qed.

(* decode p maps the relation on wire messages back to [ueqT], for EVERY process p (whatever the set
   of types it knows) and whatever the counters *)
Theorem decode_T p : forall x1 x2, encT x1 x2 ->
  forall n1 n2, ueqT (fst (decode p x1 n1)) (fst (decode p x2 n2)).
Proof.
  apply (enc_ind2 (DT p)).
  - intros msg o f e r pl cs Hcs Hpl. now apply decode_leaf_T.
  - intros c msg o f e r pl mt Hc Hpl. now apply decode_wrap_T.
Qed.

(* (2), conditionally: a hop preserves [ueqT] whenever the two ENCODINGS are related *)
Corollary hop_T p e1 e2 n1 n2 : encT (encode e1) (encode e2) ->
  ueqT (fst (hop p e1 n1)) (fst (hop p e2 n2)).
Proof. intro H. unfold hop. now apply decode_T. Qed.


(* ================================================================== *)
(* 5. instances                                                        *)
(* ================================================================== *)
Ltac encT_tac :=
  vm_compute;
  repeat first [ split | intro ]; try discriminate; try reflexivity; try exact I.

(* the example [transfer_outside_ueq] of ApiNI.v, now for EVERY receiving process and both renderings
   of the relation: the two hints differ, the errors after the hop are related by [ueqT] *)
Definition hint_e (h : str) : err := Wrap 2%positive (WHint h) (Leaf 1%positive (LErrString (lit "m"))).

Example hint_encT : encT (encode (hint_e (lit "ab"))) (encode (hint_e (lit "cd"))).
Proof. encT_tac. Qed.

Example hint_hop_any_process p n1 n2 :
  ueqT (fst (hop p (hint_e (lit "ab")) n1)) (fst (hop p (hint_e (lit "cd")) n2)).
Proof. apply hop_T. exact hint_encT. Qed.

(* at the process of [transfer_outside_ueq] (no decoder for withHint) the results are outside [ueq]
   and inside [ueqT], and the engine theorems apply *)
Example hint_hop_outside :
  let p := mkproc [k_withHint] in
  let r1 := fst (hop p (hint_e (lit "ab")) 100%positive) in
  let r2 := fst (hop p (hint_e (lit "cd")) 100%positive) in
  ~ ueq r1 r2 /\ ueqT r1 r2 /\
  redact (fmt_red_short r1) = redact (fmt_red_short r2) /\
  redact (fmt_red_verbose r1) = redact (fmt_red_verbose r2).
Proof.
  cbv zeta. pose proof (hint_hop_any_process (mkproc [k_withHint]) 100%positive 100%positive) as U.
  split; [|split; [exact U|split]].
  - vm_compute. intros (_ & H & _). discriminate H.
  - apply ni_short_T; [exact U| |]; vm_compute; tauto.
  - apply ni_verbose_T; [exact U| | | |]; vm_compute; tauto.
Qed.

(* the two related constructor expressions [ni_r1] / [ni_r2] of ApiNI.v (Wrapf with unsafe arguments,
   barrier with a message, hint, context tags, domain, secondary error with a pkg/errors layer):
   their encodings are related, hence after a hop through ANY process the results are related *)
Example ni_ex_encT e1 e2 s1 s2 :
  build ex_env ni_r1 bs_init = (Some e1, s1) -> build ex_env ni_r2 bs_init = (Some e2, s2) ->
  encT (encode e1) (encode e2).
Proof.
  intros E1 E2. vm_compute in E1, E2. injection E1 as <- <-. injection E2 as <- <-. encT_tac.
Qed.

Example ni_ex_hop_any_process p e1 e2 s1 s2 n1 n2 :
  build ex_env ni_r1 bs_init = (Some e1, s1) -> build ex_env ni_r2 bs_init = (Some e2, s2) ->
  ueqT (fst (hop p e1 n1)) (fst (hop p e2 n2)).
Proof. intros E1 E2. apply hop_T. exact (ni_ex_encT _ _ _ _ E1 E2). Qed.

(* ---- search for a leak by evaluation: the pair [ni_r1] / [ni_r2] ([req]-related, ApiNI.v) transferred
   through the same processes; the redacted %v and %+v renderings are compared after the transfer.
   Processes tried: each process that lacks exactly one decoder, the same followed by an all-knowing
   process, the process that knows nothing (alone, then followed by other hops).  No difference. ---- *)
Definition all_keys : list str := leaf_decoder_keys ++ multi_decoder_keys ++ wrap_decoder_keys.
Definition red_after (r : recipe) (ps : list proc) : str * str :=
  match fst (build ex_env (RTransfer r ps) bs_init) with
  | Some e => (redact (fmt_red_short e), redact (fmt_red_verbose e))
  | None => ([], [])
  end.
Definition same_after (r1 r2 : recipe) (ps : list proc) : bool :=
  str_eqb (fst (red_after r1 ps)) (fst (red_after r2 ps)) &&
  str_eqb (snd (red_after r1 ps)) (snd (red_after r2 ps)).

Example no_leak_found_by_evaluation :
  forallb (fun k => same_after ni_r1 ni_r2 [mkproc [k]]) all_keys = true /\
  forallb (fun k => same_after ni_r1 ni_r2 [mkproc [k]; all_knowing]) all_keys = true /\
  same_after ni_r1 ni_r2 [mkproc all_keys] = true /\
  same_after ni_r1 ni_r2 [mkproc all_keys; all_knowing] = true /\
  same_after ni_r1 ni_r2 [mkproc all_keys; all_knowing; mkproc [k_errorString]] = true.
Proof.
  split; [vm_compute; reflexivity|]. split; [vm_compute; reflexivity|]. split; [vm_compute; reflexivity|].
  split; vm_compute; reflexivity.
Qed.

(* ================================================================== *)
(* SUMMARY                                                             *)
(* ================================================================== *)
(* PROVED
   (1) [ueq_ueqT]      ueq e1 e2 -> ueqT e1 e2.
   (3) [ni_short_T]    ueqT e1 e2 -> sh_ok e1 -> sh_ok e2 -> redact (fmt_red_short e1) = redact (fmt_red_short e2)
       [ni_verbose_T]  ueqT e1 e2 -> vb_ok e1 -> vb_ok e2 -> glue_top e1 -> glue_top e2 ->
                       redact (fmt_red_verbose e1) = redact (fmt_red_verbose e2)
       (the engine reads, of the details of an opaque node, only [detV]: type names, reportable
       payload, type URL of the full payload).
   (2) decoding half, for EVERY process and whatever the counters:
       [decode_T]      encT x1 x2 -> ueqT (fst (decode p x1 n1)) (fst (decode p x2 n2))
       [hop_T]         encT (encode e1) (encode e2) -> ueqT (fst (hop p e1 n1)) (fst (hop p e2 n2))
       where [encT] / [detT] / [plT] / [msgT] relate wire messages up to the differences [req] allows,
       indexed by the family name of each node (it selects the decoder that will read the strings).
   REFUTED
   (2) as stated: [no_hop_closed_relation_above_ueq], [ueqT_not_hop_closed]: NO relation that contains
       [ueq] is both preserved by hops and sufficient for the %v theorem.  Witness: [cx1] / [cx2], two
       opaque leaves of family errors/*errors.errorString with messages "\na" / "\nbc" (same [shape],
       different [sh3]); through [all_knowing] they become errorString leaves whose redacted %v
       renderings are "‹×›" and "\n‹×›".  The opaque message must be related per family, as [msgT] does.
       Also [ce_G] / [ce_hop]: the invariant [G] of ApiNI.v on opaque-free errors is not hop-closed
       either (errno payload of an *errbase.OpaqueErrno claiming the local platform).
       Neither witness is reachable from [req]-related recipes.
   NOT PROVED
   - the encoding half of (2): ueqT-like invariant on e1 e2 -> encT (encode e1) (encode e2).  It needs an
     invariant stronger than [ueqT] (messages of opaque nodes related by [msgT], payloads by [plT],
     equal errno payloads, HTTP codes, ...) AND the equality of the safe details of every layer for that
     invariant (DetailsNI.v redone for related instead of equal opaque details; the reportable payload
     of a barrier contains the redacted %+v rendering of the hidden error), AND the line shape of the
     Error() text of related errors (message of the generic encoder).  Checked by evaluation on
     instances only: [hint_encT], [ni_ex_encT] (hence [ni_ex_hop_any_process]).
   - (4) api_ni_short_T / api_ni_verbose_T for recipes with RTransfer: depends on the encoding half and
     on sh_ok / vb_ok / glue_top of decoded errors.  No counter-example found: [no_leak_found_by_evaluation]. *)
