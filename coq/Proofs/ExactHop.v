(* The FIRST network hop between processes that know the types rebuilds an error
   exactly (up to object identities), for every error made only of kinds that
   have exact decoders, whatever the strings. *)
From Coq Require Import Lia List Bool.
From Errv Require Import Base.Str Redact.Markers Redact.Buffer Model.Err Model.Sem Model.Details Model.Marks
     Model.Codec Model.Access Model.Report Proofs.StrFacts Proofs.FastIs Proofs.CodecFacts Proofs.RoundTrip
     Proofs.EraseDef Proofs.EraseFacts Proofs.HopIdem.
Import ListNotations.

(* ---- kinds the registered decoders rebuild exactly ---- *)
Definition exact_leaf (k : leafk) : bool :=
  match k with
  | LErrString _ | LDeadline | LLeafError _ | LUnimpl _ _ _ | LErrno _ | LTestError => true
  | LGrpcStatus c _ | LGogoStatus c _ => negb (c =? 0)
  (* an errno forwarded from another platform comes back as the same *errbase.OpaqueErrno;
     one that carries the platform of the decoding process is turned back into a
     syscall.Errno: a different value (witness in [exact_conditions_needed_errno]) *)
  | LOpaqueErrno _ pe => negb (str_eqb (en_arch pe) this_arch)
  | _ => false
  end.

(* a tag buffer the context decoder rebuilds as is: string values only (the wire
   carries ValueStr() of every value), and no key twice (logtags.Buffer.Add
   replaces in place) *)
Definition str_val (v : tagval) : bool := match v with TVStr _ => true | _ => false end.
Definition canon_tags (tags : list (str * tagval)) : bool :=
  forallb (fun kv => str_val (snd kv)) tags && nodup_keys (List.map fst tags).

Definition exact_layer (w : wlayer) : bool :=
  match w with
  | WPrefix _ | WNewMsg _ | WHint _ | WDetail _ | WIssueLink _ _ | WTelemetry _ | WDomain _ | WAssert
  | WSafeDetails _ | WGrpc _ | WPkgMsg _ | WPathError _ _ | WLinkError _ _ _ | WSyscallError _ => true
  | WMark m => match em_types m with [] => false | _ => true end
  | WHTTP code => (0 <=? code)%Z
  | WContext tags red =>
    canon_tags tags &&
    match red with
    | Some (_ :: _) => true
    | Some [] => false
    | None => match tags with [] => false | _ => true end
    end
  | _ => false
  end.

Fixpoint exact_tree (e : err) : bool :=
  match e with
  | Leaf _ k => exact_leaf k
  | Wrap _ w c => exact_layer w && exact_tree c
  | Second _ c s => exact_tree c && exact_tree s
  | Barrier _ _ h => exact_tree h
  | Multi _ MJoin cs => match cs with [] => false | _ => forallb exact_tree cs end
  | _ => false
  end.

(* ---- canonical tag buffers are fixed points of encode-then-decode ---- *)
Lemma canon_tags_fix tags :
  canon_tags tags = true ->
  tags_of (List.map (fun kv : str * str => (fst kv, TVStr (snd kv)))
                    (List.map (fun kv : str * tagval => (fst kv, tag_value_str (snd kv))) tags)) = tags.
Proof.
  intro H. unfold canon_tags in H. apply andb_true_iff in H as [Hv Hk].
  rewrite map_map. cbn [fst snd].
  assert (Hid : List.map (fun x : str * tagval => (fst x, TVStr (tag_value_str (snd x)))) tags = tags).
  { clear Hk. induction tags as [|[k v] l IH]; [reflexivity|].
    cbn [forallb snd] in Hv. apply andb_true_iff in Hv as [Hv1 Hv2].
    cbn [List.map fst snd]. rewrite (IH Hv2).
    destruct v; try discriminate. reflexivity. }
  rewrite Hid. unfold tags_of. rewrite fold_tag_add_fresh; [reflexivity|]. exact Hk.
Qed.

Lemma canon_tags_nonempty_pl (tags : list (str * tagval)) :
  tags <> [] -> List.map (fun kv : str * tagval => (fst kv, tag_value_str (snd kv))) tags <> [].
Proof. destruct tags; [congruence|discriminate]. Qed.

Lemma K_all k : knows all_knowing k = true.
Proof. reflexivity. Qed.

(* ---- the theorem ---- *)
Lemma exact_wrap i w c :
  exact_layer w = true -> stable all_knowing c -> stable all_knowing (Wrap i w c).
Proof.
  intros Hw Hc. destruct w; try discriminate Hw.
  - now apply st_withPrefix.
  - now apply st_withNewMessage.
  - now apply st_withHint.
  - now apply st_withDetail.
  - now apply st_withIssueLink.
  - now apply st_withTelemetry.
  - now apply st_withDomain.
  - (* WContext *)
    cbn [exact_layer] in Hw. apply andb_true_iff in Hw as [Hcan Hred].
    pose proof (canon_tags_fix tags Hcan) as Hfix.
    destruct redacted as [[|r0 rr]|]; [discriminate Hred| |].
    + pose proof (st_withContext_some all_knowing i
                    (List.map (fun kv : str * tagval => (fst kv, tag_value_str (snd kv))) tags)
                    r0 rr c) as L.
      cbv zeta in L. rewrite Hfix in L. apply L; [reflexivity|exact Hc].
    + pose proof (st_withContext_none all_knowing i
                    (List.map (fun kv : str * tagval => (fst kv, tag_value_str (snd kv))) tags) c) as L.
      cbv zeta in L. rewrite Hfix in L. apply L; [|reflexivity|exact Hc].
      apply canon_tags_nonempty_pl. destruct tags; [discriminate Hred|discriminate].
  - now apply st_withAssert.
  - (* WMark *)
    destruct m as [msg tys]. cbn [exact_layer em_types] in Hw.
    destruct tys as [|t tys]; [discriminate Hw|]. now apply st_withMark.
  - now apply st_withSafeDetails.
  - (* WHTTP *)
    cbn [exact_layer] in Hw. apply Z.leb_le in Hw.
    rewrite <- (Z2N.id code Hw). now apply st_withHTTP.
  - now apply st_withGrpc.
  - now apply st_pkgMsg.
  - now apply st_pathError.
  - now apply st_linkError.
  - now apply st_syscallError.
Qed.

Lemma exact_leaf_stable i k : exact_leaf k = true -> stable all_knowing (Leaf i k).
Proof.
  intro H. destruct k; try discriminate H.
  - now apply st_errorString.
  - now apply st_deadline.
  - now apply st_errno.
  - cbn [exact_leaf] in H. apply negb_true_iff in H. now apply st_opaqueErrno.
  - now apply st_leafError.
  - now apply st_unimpl.
  - cbn [exact_leaf] in H. apply negb_true_iff, N.eqb_neq in H. now apply st_grpcStatus.
  - cbn [exact_leaf] in H. apply negb_true_iff, N.eqb_neq in H. now apply st_gogoStatus.
  - apply st_testError.
Qed.

Theorem exact_hop e : exact_tree e = true -> stable all_knowing e.
Proof.
  induction e as [i k|i w c IH|i c s IHc IHs|i m h IH|i k cs IH|i m d cs IH|i p d mt c IH] using err_ind';
    intro H.
  - now apply exact_leaf_stable.
  - cbn [exact_tree] in H. apply andb_true_iff in H as [Hw Hc]. apply exact_wrap; [exact Hw|now apply IH].
  - cbn [exact_tree] in H. apply andb_true_iff in H as [Hc Hs].
    apply st_secondary; [reflexivity|now apply IHc|now apply IHs].
  - cbn [exact_tree] in H. apply st_barrier; [reflexivity|now apply IH].
  - destruct k; try discriminate H. destruct cs as [|c0 cs]; [discriminate H|].
    change (forallb exact_tree (c0 :: cs) = true) in H.
    apply st_join; [reflexivity|discriminate|].
    eapply forallb_Forall_impl; [exact IH|exact H].
  - discriminate H.
  - discriminate H.
Qed.

(* The side conditions of [exact_leaf] / [exact_layer] are all needed: each layer
   below, put on an exact leaf, comes back different (even up to [erase]). *)
Definition inexact (e : err) : Prop := erase (fst (hop all_knowing e 200%positive)) <> erase e.
Definition x_leaf : err := Leaf 100%positive (LErrString (lit "x")).
Definition x_on (w : wlayer) : err := Wrap 101%positive w x_leaf.

Lemma exact_conditions_needed :
  (* a non-string tag value comes back as its string *)
  inexact (x_on (WContext [(lit "k", TVInt 3)] None)) /\
  (* a key present twice is merged *)
  inexact (x_on (WContext [(lit "k", TVStr (lit "v")); (lit "k", TVStr (lit "w"))] None)) /\
  (* an empty list of redacted tags is recomputed from the tags *)
  inexact (x_on (WContext [(lit "k", TVStr (lit "v"))] (Some []))) /\
  (* no tag at all: the decoder has nothing to rebuild, opaque wrapper *)
  inexact (x_on (WContext [] None)) /\
  (* negative HTTP code: the wire field is unsigned *)
  inexact (x_on (WHTTP (-1)%Z)) /\
  (* a mark without types is malformed *)
  inexact (x_on (WMark (mkem (lit "m") []))) /\
  (* status code OK is not an error *)
  inexact (Leaf 100%positive (LGrpcStatus 0 (lit "m"))) /\
  inexact (Leaf 100%positive (LGogoStatus 0 (lit "m"))) /\
  (* Join() of nothing *)
  inexact (Multi 100%positive MJoin []).
Proof. unfold inexact. repeat split; vm_compute; discriminate. Qed.

(* an *errbase.OpaqueErrno that carries the platform of the receiver becomes a syscall.Errno;
   *net.OpError has no decoder: opaque wrapper *)
Lemma exact_conditions_needed_errno :
  inexact (Leaf 100%positive (LOpaqueErrno (lit "boom") (mkerrno 1%Z this_arch false false false false false))) /\
  inexact (x_on (WOpError (lit "dial") (lit "tcp") [] (lit "1.2.3.4:80"))).
Proof. unfold inexact. split; vm_compute; discriminate. Qed.

(* unfolded *)
Corollary exact_hop_erase e n :
  exact_tree e = true -> erase (fst (hop all_knowing e n)) = erase e.
Proof. intro H. exact (exact_hop e H n). Qed.

(* ---- corollaries: everything observable ---- *)
Corollary exact_hop_text e n :
  exact_tree e = true -> error_text (fst (hop all_knowing e n)) = error_text e.
Proof.
  intro H. rewrite <- (error_text_erase (fst (hop all_knowing e n))), (exact_hop_erase e n H).
  apply error_text_erase.
Qed.

(* every rendering: %v, %+v, redactable forms *)
Corollary exact_hop_sem e n : exact_tree e = true -> sem (fst (hop all_knowing e n)) = sem e.
Proof. intro H. apply same_erase_sem. now apply exact_hop_erase. Qed.

(* no drift already at the first hop *)
Corollary exact_hop_encode e n : exact_tree e = true -> encode (fst (hop all_knowing e n)) = encode e.
Proof. intro H. apply same_erase_encode. now apply exact_hop_erase. Qed.

Corollary exact_hop_details e n :
  exact_tree e = true -> get_safe_details (fst (hop all_knowing e n)) = get_safe_details e.
Proof. intro H. apply same_erase_safe_details. now apply exact_hop_erase. Qed.

(* any number of hops *)
Lemma exact_transfer_gen k : forall e0 e n,
  exact_tree e0 = true -> erase e = erase e0 ->
  erase (fst (transfer (List.repeat all_knowing k) e n)) = erase e0.
Proof.
  induction k as [|k IH]; intros e0 e n H0 He; cbn [List.repeat transfer].
  - exact He.
  - destruct (hop all_knowing e n) as [e1 n1] eqn:E.
    apply IH; [exact H0|].
    assert (E1 : e1 = fst (hop all_knowing e n)) by now rewrite E.
    rewrite E1. unfold hop. rewrite (same_erase_encode e e0 He). exact (exact_hop e0 H0 n).
Qed.

Corollary exact_transfer e k n :
  exact_tree e = true -> erase (fst (transfer (List.repeat all_knowing k) e n)) = erase e.
Proof. intro H. now apply exact_transfer_gen. Qed.

(* ---- the visible cause tree keeps its shape ---- *)
Lemma err_shape_erase e : err_shape (erase e) = err_shape e.
Proof.
  induction e as [i k|i w c IH|i c s IHc IHs|i m h IH|i k cs IH|i m d cs IH|i p d mt c IH] using err_ind'.
  - reflexivity.
  - destruct w; try (cbn [erase err_shape]; now rewrite IH).
    destruct redacted; cbn [erase err_shape]; now rewrite IH.
  - cbn [erase err_shape]. now rewrite IHc.
  - reflexivity.
  - apply map_erase_ext in IH. cbn [erase]. destruct cs as [|c0 cs]; [reflexivity|].
    change (SMulti (List.map err_shape (List.map erase (c0 :: cs))) = SMulti (List.map err_shape (c0 :: cs))).
    now rewrite IH.
  - apply map_erase_ext in IH. cbn [erase]. destruct cs as [|c0 cs]; [reflexivity|].
    change (SMulti (List.map err_shape (List.map erase (c0 :: cs))) = SMulti (List.map err_shape (c0 :: cs))).
    now rewrite IH.
  - cbn [erase err_shape]. now rewrite IH.
Qed.

Corollary exact_hop_shape e n :
  exact_tree e = true -> err_shape (fst (hop all_knowing e n)) = err_shape e.
Proof.
  intro H. rewrite <- (err_shape_erase (fst (hop all_knowing e n))), (exact_hop_erase e n H).
  apply err_shape_erase.
Qed.

(* ---- the accessors of Model/Access.v do not see object identities ---- *)

(* induction along the single-cause chain *)
Lemma err_chain_ind (P : err -> Prop) :
  (forall e, (forall c, unwrap_once e = Some c -> P c) -> P e) -> forall e, P e.
Proof.
  intros HP e.
  induction e as [i k|i w c IH|i c s IHc IHs|i m h IH|i k cs|i m d cs|i p d mt c IH];
    apply HP; cbn [unwrap_once]; intros c' Hc'; try discriminate Hc'; injection Hc' as <-; assumption.
Qed.

Lemma unwrap_once_erase e : unwrap_once (erase e) = option_map erase (unwrap_once e).
Proof.
  destruct e as [i k|i w c|i c s|i m h|i k cs|i m d cs|i p d mt c]; try reflexivity.
  destruct w; try reflexivity. destruct redacted; reflexivity.
Qed.

Lemma chain_step e :
  chain e = e :: match unwrap_once e with Some c => chain c | None => [] end.
Proof. destruct e; reflexivity. Qed.

Lemma chain_erase e : chain (erase e) = List.map erase (chain e).
Proof.
  induction e as [e IH] using err_chain_ind.
  rewrite (chain_step (erase e)), (chain_step e), unwrap_once_erase.
  destruct (unwrap_once e) as [c|] eqn:U; cbn [option_map List.map]; [|reflexivity].
  now rewrite (IH c eq_refl).
Qed.

Lemma flat_map_chain_erase {B} (f : err -> list B) :
  (forall x, f (erase x) = f x) -> forall e, flat_map f (chain (erase e)) = flat_map f (chain e).
Proof.
  intros Hf e. rewrite chain_erase.
  induction (chain e) as [|x l IH]; cbn [List.map flat_map]; [reflexivity|]. now rewrite Hf, IH.
Qed.

Lemma existsb_chain_erase (f : err -> bool) :
  (forall x, f (erase x) = f x) -> forall e, existsb f (chain (erase e)) = existsb f (chain e).
Proof.
  intros Hf e. rewrite chain_erase.
  induction (chain e) as [|x l IH]; cbn [List.map existsb]; [reflexivity|]. now rewrite Hf, IH.
Qed.

Lemma if_step {A} (pred : err -> option A) e :
  if_ pred e = match pred e with
               | Some v => Some v
               | None => match unwrap_once e with Some c => if_ pred c | None => None end
               end.
Proof. destruct e; reflexivity. Qed.

Lemma if_erase {A} (pred : err -> option A) :
  (forall x, pred (erase x) = pred x) -> forall e, if_ pred (erase e) = if_ pred e.
Proof.
  intros Hp e. induction e as [e IH] using err_chain_ind.
  rewrite (if_step pred (erase e)), (if_step pred e), Hp, unwrap_once_erase.
  destruct (pred e); [reflexivity|].
  destruct (unwrap_once e) as [c|] eqn:U; cbn [option_map]; [|reflexivity].
  exact (IH c eq_refl).
Qed.

Ltac node_cases x :=
  let w := fresh "w" in let r := fresh "r" in
  destruct x as [? ?|? w ?|? ? ?|? ? ?|? ? ?|? ? ? ?|? ? ? ? ?]; try reflexivity;
  destruct w as [?|?|?|?|?|? ?|?|?|? r| |?|?|?|?|?|?|?|? ?|? ? ?|?|? ? ? ?|? ? ?]; try reflexivity;
  destruct r; reflexivity.

(* hints *)
Lemma hint_of_erase x : hint_of (erase x) = hint_of x.
Proof. node_cases x. Qed.

Lemma all_hints_step e acc :
  all_hints_internal e acc =
  let acc1 := match unwrap_once e with Some c => all_hints_internal c acc | None => acc end in
  let hint := match hint_of e with Some h => h | None => [] end in
  match hint with
  | [] => acc1
  | _ => let '(hints, seen) := acc1 in
         if mem_str hint seen then acc1 else (hints ++ [hint], hint :: seen)
  end.
Proof. destruct e; reflexivity. Qed.

Lemma all_hints_internal_erase e : forall acc, all_hints_internal (erase e) acc = all_hints_internal e acc.
Proof.
  induction e as [e IH] using err_chain_ind. intro acc.
  rewrite (all_hints_step (erase e)), (all_hints_step e), hint_of_erase, unwrap_once_erase.
  destruct (unwrap_once e) as [c|] eqn:U; cbn [option_map]; [|reflexivity].
  now rewrite (IH c eq_refl).
Qed.

Lemma get_all_hints_erase e : get_all_hints (erase e) = get_all_hints e.
Proof. unfold get_all_hints. now rewrite all_hints_internal_erase. Qed.

Lemma flatten_hints_erase e : flatten_hints (erase e) = flatten_hints e.
Proof. unfold flatten_hints. now rewrite get_all_hints_erase. Qed.

(* details *)
Lemma detail_of_erase x : detail_of (erase x) = detail_of x.
Proof. node_cases x. Qed.

Lemma all_details_step e acc :
  all_details_internal e acc =
  let acc1 := match unwrap_once e with Some c => all_details_internal c acc | None => acc end in
  match detail_of e with
  | Some d => match d with [] => acc1 | _ => acc1 ++ [d] end
  | None => acc1
  end.
Proof. destruct e; reflexivity. Qed.

Lemma all_details_internal_erase e :
  forall acc, all_details_internal (erase e) acc = all_details_internal e acc.
Proof.
  induction e as [e IH] using err_chain_ind. intro acc.
  rewrite (all_details_step (erase e)), (all_details_step e), detail_of_erase, unwrap_once_erase.
  destruct (unwrap_once e) as [c|] eqn:U; cbn [option_map]; [|reflexivity].
  now rewrite (IH c eq_refl).
Qed.

Lemma get_all_details_erase e : get_all_details (erase e) = get_all_details e.
Proof. unfold get_all_details. apply all_details_internal_erase. Qed.

Lemma flatten_details_erase e : flatten_details (erase e) = flatten_details e.
Proof. unfold flatten_details. now rewrite get_all_details_erase. Qed.

(* issue links *)
Lemma issue_link_of_erase x : issue_link_of (erase x) = issue_link_of x.
Proof. node_cases x. Qed.

Lemma get_all_issue_links_erase e : get_all_issue_links (erase e) = get_all_issue_links e.
Proof.
  unfold get_all_issue_links. apply flat_map_chain_erase. intro x. now rewrite issue_link_of_erase.
Qed.

(* telemetry keys *)
Lemma telemetry_keys_raw_erase e : telemetry_keys_raw (erase e) = telemetry_keys_raw e.
Proof. unfold telemetry_keys_raw. apply flat_map_chain_erase. intro x. node_cases x. Qed.

Lemma get_telemetry_keys_erase e : get_telemetry_keys (erase e) = get_telemetry_keys e.
Proof. unfold get_telemetry_keys. now rewrite telemetry_keys_raw_erase. Qed.

(* domain *)
Lemma get_domain_erase e : get_domain (erase e) = get_domain e.
Proof. unfold get_domain. rewrite if_erase; [reflexivity|]. intro x. node_cases x. Qed.

(* context tags *)
Lemma get_context_tags_erase e : get_context_tags (erase e) = get_context_tags e.
Proof. unfold get_context_tags. apply flat_map_chain_erase. intro x. node_cases x. Qed.

(* flags *)
Lemma has_assertion_failure_erase e : has_assertion_failure (erase e) = has_assertion_failure e.
Proof. unfold has_assertion_failure. apply existsb_chain_erase. intro x. node_cases x. Qed.

Lemma is_assertion_failure_erase e : is_assertion_failure (erase e) = is_assertion_failure e.
Proof. unfold is_assertion_failure. node_cases e. Qed.

Lemma has_issue_link_erase e : has_issue_link (erase e) = has_issue_link e.
Proof. unfold has_issue_link. apply existsb_chain_erase. intro x. node_cases x. Qed.

Lemma unwrap_all_step e :
  unwrap_all e = match unwrap_once e with Some c => unwrap_all c | None => e end.
Proof. destruct e; reflexivity. Qed.

Lemma unwrap_all_erase e : unwrap_all (erase e) = erase (unwrap_all e).
Proof.
  induction e as [e IH] using err_chain_ind.
  rewrite (unwrap_all_step (erase e)), (unwrap_all_step e), unwrap_once_erase.
  destruct (unwrap_once e) as [c|] eqn:U; cbn [option_map]; [|reflexivity].
  exact (IH c eq_refl).
Qed.

Lemma has_unimplemented_erase e : has_unimplemented (erase e) = has_unimplemented e.
Proof.
  unfold has_unimplemented. rewrite unwrap_all_erase.
  generalize (unwrap_all e) as x. intro x. node_cases x.
Qed.

(* codes *)
Lemma get_http_code_erase e dflt : get_http_code (erase e) dflt = get_http_code e dflt.
Proof. unfold get_http_code. rewrite if_erase; [reflexivity|]. intro x. node_cases x. Qed.

Lemma get_grpc_code_erase e : get_grpc_code (erase e) = get_grpc_code e.
Proof. unfold get_grpc_code. rewrite if_erase; [reflexivity|]. intro x. node_cases x. Qed.

(* os.IsTimeout over the chain *)
Lemma underlying_erase x : underlying (erase x) = erase (underlying x).
Proof. node_cases x. Qed.

Lemma timeout_method_erase e : timeout_method (erase e) = timeout_method e.
Proof.
  induction e as [i k|i w c IH|i c s IHc IHs|i m h IH|i k cs|i m d cs|i p d mt c IH]; try reflexivity.
  destruct w; try reflexivity; try (cbn [erase timeout_method]; exact IH).
  destruct redacted; reflexivity.
Qed.

Lemma node_timeout_erase x : node_timeout (erase x) = node_timeout x.
Proof. unfold node_timeout. now rewrite underlying_erase, timeout_method_erase. Qed.

Lemma is_timeout_erase e : is_timeout (erase e) = is_timeout e.
Proof. unfold is_timeout. apply existsb_chain_erase. exact node_timeout_erase. Qed.

(* The oserror predicates IsPermission / IsExist / IsNotExist compare against the
   os sentinels by identity: they are NOT functions of [erase e] and are not
   covered here. *)
Lemma is_permission_sees_identity :
  let e := Leaf oid_permission (LErrString (lit "x")) in
  is_permission e = true /\ is_permission (erase e) = false.
Proof. split; vm_compute; reflexivity. Qed.

(* ---- what the first hop preserves, accessor by accessor ---- *)
Lemma exact_hop_obs {A} (f : err -> A) :
  (forall x, f (erase x) = f x) ->
  forall e n, exact_tree e = true -> f (fst (hop all_knowing e n)) = f e.
Proof.
  intros Hf e n H. rewrite <- (Hf (fst (hop all_knowing e n))), (exact_hop_erase e n H). apply Hf.
Qed.

Corollary exact_hop_hints e n :
  exact_tree e = true -> get_all_hints (fst (hop all_knowing e n)) = get_all_hints e.
Proof. apply exact_hop_obs. exact get_all_hints_erase. Qed.

Corollary exact_hop_flatten_hints e n :
  exact_tree e = true -> flatten_hints (fst (hop all_knowing e n)) = flatten_hints e.
Proof. apply exact_hop_obs. exact flatten_hints_erase. Qed.

Corollary exact_hop_all_details e n :
  exact_tree e = true -> get_all_details (fst (hop all_knowing e n)) = get_all_details e.
Proof. apply exact_hop_obs. exact get_all_details_erase. Qed.

Corollary exact_hop_flatten_details e n :
  exact_tree e = true -> flatten_details (fst (hop all_knowing e n)) = flatten_details e.
Proof. apply exact_hop_obs. exact flatten_details_erase. Qed.

Corollary exact_hop_issue_links e n :
  exact_tree e = true -> get_all_issue_links (fst (hop all_knowing e n)) = get_all_issue_links e.
Proof. apply exact_hop_obs. exact get_all_issue_links_erase. Qed.

Corollary exact_hop_telemetry_keys e n :
  exact_tree e = true -> get_telemetry_keys (fst (hop all_knowing e n)) = get_telemetry_keys e.
Proof. apply exact_hop_obs. exact get_telemetry_keys_erase. Qed.

Corollary exact_hop_domain e n :
  exact_tree e = true -> get_domain (fst (hop all_knowing e n)) = get_domain e.
Proof. apply exact_hop_obs. exact get_domain_erase. Qed.

Corollary exact_hop_context_tags e n :
  exact_tree e = true -> get_context_tags (fst (hop all_knowing e n)) = get_context_tags e.
Proof. apply exact_hop_obs. exact get_context_tags_erase. Qed.

Corollary exact_hop_has_assertion_failure e n :
  exact_tree e = true -> has_assertion_failure (fst (hop all_knowing e n)) = has_assertion_failure e.
Proof. apply exact_hop_obs. exact has_assertion_failure_erase. Qed.

Corollary exact_hop_is_assertion_failure e n :
  exact_tree e = true -> is_assertion_failure (fst (hop all_knowing e n)) = is_assertion_failure e.
Proof. apply exact_hop_obs. exact is_assertion_failure_erase. Qed.

Corollary exact_hop_has_issue_link e n :
  exact_tree e = true -> has_issue_link (fst (hop all_knowing e n)) = has_issue_link e.
Proof. apply exact_hop_obs. exact has_issue_link_erase. Qed.

Corollary exact_hop_has_unimplemented e n :
  exact_tree e = true -> has_unimplemented (fst (hop all_knowing e n)) = has_unimplemented e.
Proof. apply exact_hop_obs. exact has_unimplemented_erase. Qed.

Corollary exact_hop_http_code e n dflt :
  exact_tree e = true -> get_http_code (fst (hop all_knowing e n)) dflt = get_http_code e dflt.
Proof. apply (exact_hop_obs (fun x => get_http_code x dflt)). intro x. apply get_http_code_erase. Qed.

Corollary exact_hop_grpc_code e n :
  exact_tree e = true -> get_grpc_code (fst (hop all_knowing e n)) = get_grpc_code e.
Proof. apply exact_hop_obs. exact get_grpc_code_erase. Qed.

Corollary exact_hop_is_timeout e n :
  exact_tree e = true -> is_timeout (fst (hop all_knowing e n)) = is_timeout e.
Proof. apply exact_hop_obs. exact is_timeout_erase. Qed.

(* all of them at once *)
Theorem exact_hop_accessors e n :
  exact_tree e = true ->
  let e' := fst (hop all_knowing e n) in
  get_all_hints e' = get_all_hints e /\
  get_all_details e' = get_all_details e /\
  get_all_issue_links e' = get_all_issue_links e /\
  get_telemetry_keys e' = get_telemetry_keys e /\
  get_domain e' = get_domain e /\
  get_context_tags e' = get_context_tags e /\
  has_assertion_failure e' = has_assertion_failure e /\
  is_assertion_failure e' = is_assertion_failure e /\
  has_issue_link e' = has_issue_link e /\
  has_unimplemented e' = has_unimplemented e /\
  (forall dflt, get_http_code e' dflt = get_http_code e dflt) /\
  get_grpc_code e' = get_grpc_code e /\
  is_timeout e' = is_timeout e.
Proof.
  intros H e'. unfold e'.
  repeat split; intros;
    first [ now apply exact_hop_hints | now apply exact_hop_all_details | now apply exact_hop_issue_links
          | now apply exact_hop_telemetry_keys | now apply exact_hop_domain | now apply exact_hop_context_tags
          | now apply exact_hop_has_assertion_failure | now apply exact_hop_is_assertion_failure
          | now apply exact_hop_has_issue_link | now apply exact_hop_has_unimplemented
          | now apply exact_hop_http_code | now apply exact_hop_grpc_code | now apply exact_hop_is_timeout ].
Qed.
