(* C01 (main clause): one network hop between processes that know the types
   keeps the shape of the visible cause tree and the Error() text of every
   node, for ALL kinds of nodes, including those that come back as the opaque
   stand-ins. *)
From Coq Require Import Lia List Bool.
From Errv Require Import Base.Str Redact.Markers Redact.Buffer Model.Err Model.Sem Model.Details Model.Marks
     Model.Codec Proofs.StrFacts Proofs.FastIs Proofs.CodecFacts Proofs.RoundTrip Proofs.RedactFacts
     Proofs.EraseDef Proofs.EraseFacts Proofs.HopIdem Proofs.ExactHop Proofs.ShortText.
Import ListNotations.

(* ================================================================== *)
(* 1. what one hop does to each kind of node                            *)
(* ================================================================== *)
Notation hopk := (hop all_knowing).

(* an opaque leaf / wrapper whose stored details make every knowing process
   decode it as the same opaque type again *)
Definition leaf_stays (d : details) (cs : list err) : bool :=
  let 'mkdet _ fam _ _ pl := d in
  (negb (mem_str fam leaf_decoder_keys) && negb (mem_str fam multi_decoder_keys) &&
   match pl with Some PlTestError => false | _ => true end)
  || (str_eqb fam k_join && match cs with [] => true | _ => false end).

Definition wrap_stays (d : details) : bool :=
  let 'mkdet _ fam _ rep pl := d in
  negb (mem_str fam wrap_decoder_keys)
  || (str_eqb fam k_withContext && match pl, rep with Some (PlTags []), [] => true | _, _ => false end)
  || (str_eqb fam k_withMark && match pl with Some (PlMark _ []) => true | _ => false end).

Lemma decode_leaf_stays msg d xs cs n :
  leaf_stays d cs = true -> (cs = [] -> xs = []) ->
  decode all_knowing (ELeaf msg d xs) n =
  (let '(es, n1) := decode_list (decode all_knowing) xs n in (OLeaf n1 msg d es, Pos.succ n1)).
Proof.
  destruct d as [o fam ext rep pl]. unfold leaf_stays. intros H Hx.
  apply orb_true_iff in H as [H|H].
  - apply andb_true_iff in H as [H H3]. apply andb_true_iff in H as [H1 H2].
    apply negb_true_iff in H1. apply negb_true_iff in H2.
    cbn [decode]. rewrite H1, H2. cbn [andb].
    destruct pl as [[]|]; try discriminate H3; reflexivity.
  - apply andb_true_iff in H as [H1 H2]. apply str_eqb_eq in H1. subst fam.
    destruct cs; [|discriminate H2]. rewrite (Hx eq_refl). reflexivity.
Qed.

Lemma decode_wrap_stays x msg d mt n :
  wrap_stays d = true ->
  decode all_knowing (EWrap x msg d mt) n =
  (let '(ec, n0) := decode all_knowing x n in (OWrap n0 msg d mt ec, Pos.succ n0)).
Proof.
  destruct d as [o fam ext rep pl]. unfold wrap_stays. intro H.
  apply orb_true_iff in H as [H|H]; [apply orb_true_iff in H as [H|H]|].
  - apply negb_true_iff in H. cbn [decode]. rewrite H. cbn [andb].
    destruct (decode all_knowing x n) as [ec n0]. reflexivity.
  - apply andb_true_iff in H as [H1 H2]. apply str_eqb_eq in H1. subst fam.
    destruct pl as [[]|]; try discriminate H2. destruct l; [|discriminate H2].
    destruct rep; [|discriminate H2].
    cbn [decode]. destruct (decode all_knowing x n) as [ec n0]. reflexivity.
  - apply andb_true_iff in H as [H1 H2]. apply str_eqb_eq in H1. subst fam.
    destruct pl as [[]|]; try discriminate H2. destruct tys; [|discriminate H2].
    cbn [decode]. destruct (decode all_knowing x n) as [ec n0]. reflexivity.
Qed.

(* ---- leaves ---- *)
Definition leaf_opq (k : leafk) : bool :=
  match k with
  | LPkgFund _ _ | LFmtWrapNil _ | LUser _ _ _ _ => true
  | _ => false
  end.

Lemma hop_leaf_exact i k n : exact_leaf k = true -> exists j, fst (hopk (Leaf i k) n) = Leaf j k.
Proof.
  intro H. destruct k; try discriminate H; try (eexists; reflexivity).
  - cbn [exact_leaf] in H. apply negb_true_iff in H. eexists. unfold hop. enc_step.
    fam_is (Leaf i (LOpaqueErrno msg p)) k_opaqueErrno. rewrite H. reflexivity.
  - cbn [exact_leaf] in H. apply negb_true_iff in H. eexists. unfold hop. enc_step.
    fam_is (Leaf i (LGrpcStatus code msg)) k_grpcStatus. rewrite H. reflexivity.
  - cbn [exact_leaf] in H. apply negb_true_iff in H. eexists. unfold hop. enc_step.
    fam_is (Leaf i (LGogoStatus code msg)) k_gogoStatus. rewrite H. reflexivity.
Qed.

(* a forwarded errno that carries the platform of the decoding process is turned
   back into a syscall.Errno (whatever message it stored) *)
Lemma hop_leaf_errno_back i msg pe n :
  str_eqb (en_arch pe) this_arch = true ->
  exists j, fst (hopk (Leaf i (LOpaqueErrno msg pe)) n) = Leaf j (LErrno (en_errno pe)).
Proof.
  intro H. eexists. unfold hop. enc_step.
  fam_is (Leaf i (LOpaqueErrno msg pe)) k_opaqueErrno. rewrite H. reflexivity.
Qed.

Lemma hop_leaf_opq i k n :
  leaf_opq k = true ->
  exists j d, fst (hopk (Leaf i k) n) = OLeaf j (leaf_text k) d [] /\ leaf_stays d [] = true.
Proof.
  intro H. destruct k as [| | | | | | | | | | |u m t xs]; try discriminate H;
    try (do 2 eexists; split; reflexivity).
Qed.

(* ---- wrappers ---- *)
(* rebuilt as the same layer *)
Definition wexact (w : wlayer) : bool :=
  match w with
  | WPrefix _ | WNewMsg _ | WHint _ | WDetail _ | WIssueLink _ _ | WTelemetry _ | WDomain _ | WAssert
  | WSafeDetails _ | WGrpc _ | WPkgMsg _ | WPathError _ _ | WLinkError _ _ _ | WSyscallError _ => true
  | _ => false
  end.

(* layers that print nothing in Error() *)
Definition transp (w : wlayer) : bool :=
  match w with
  | WStack _ | WHint _ | WDetail _ | WIssueLink _ _ | WTelemetry _ | WDomain _ | WContext _ _ | WAssert
  | WMark _ | WSafeDetails _ | WHTTP _ | WGrpc _ => true
  | _ => false
  end.

Lemma hop_wrap_exact i w c n :
  wexact w = true -> exists j, fst (hopk (Wrap i w c) n) = Wrap j w (fst (hopk c n)).
Proof.
  intro H. exists (snd (hopk c n)). unfold hop.
  destruct w; try discriminate H; cbn [encode];
    try (change (error_text (Wrap i (WPkgMsg msg) c)) with (msg ++ colon_sp ++ error_text c);
         rewrite extract_prefix_colon);
    rewrite ?extract_prefix_same; unfold mk_details; cbn [type_details decode];
    destruct (decode all_knowing (encode c) n) as [ec n0]; reflexivity.
Qed.

(* a layer that prints nothing comes back as such a layer, or as an opaque
   wrapper with an empty prefix *)
Lemma hop_wrap_transp i w c n :
  transp w = true \/ (exists st, w = WPkgStack st) ->
  (exists j w', transp w' = true /\ fst (hopk (Wrap i w c) n) = Wrap j w' (fst (hopk c n))) \/
  (exists j d, wrap_stays d = true /\ fst (hopk (Wrap i w c) n) = OWrap j [] d 0 (fst (hopk c n))).
Proof.
  intro H.
  assert (Hex : wexact w = true -> transp w = true ->
                exists j w', transp w' = true /\ fst (hopk (Wrap i w c) n) = Wrap j w' (fst (hopk c n))).
  { intros H1 H2. destruct (hop_wrap_exact i w c n H1) as [j Hj]. exists j, w. now split. }
  destruct H as [H|[st ->]].
  - destruct w; try discriminate H; try (left; apply Hex; reflexivity).
    + (* WStack *) right. unfold hop. cbn [encode]. rewrite extract_prefix_same.
      unfold mk_details; cbn [type_details decode].
      destruct (decode all_knowing (encode c) n) as [ec n0]. do 2 eexists. split; [|reflexivity]. reflexivity.
    + (* WContext *) unfold hop. cbn [encode]. unfold mk_details; cbn [type_details decode].
      destruct (decode all_knowing (encode c) n) as [ec n0].
      destruct tags as [|t tags].
      * destruct (sd_or_nil (Wrap i (WContext [] redacted) c)) as [|r0 rr] eqn:Esd.
        -- right. do 2 eexists. split; [|cbn [List.map]; reflexivity]. reflexivity.
        -- left. do 2 eexists. split; [|cbn [List.map]; reflexivity]. reflexivity.
      * left. do 2 eexists. split; [|reflexivity]. reflexivity.
    + (* WMark *) unfold hop. cbn [encode]. unfold mk_details; cbn [type_details decode].
      destruct (decode all_knowing (encode c) n) as [ec n0].
      destruct m as [mm [|t tys]].
      * right. do 2 eexists. split; [|reflexivity]. reflexivity.
      * left. do 2 eexists. split; [|reflexivity]. reflexivity.
    + (* WHTTP *) left. unfold hop. cbn [encode]. unfold mk_details; cbn [type_details decode].
      destruct (decode all_knowing (encode c) n) as [ec n0].
      do 2 eexists. split; [|reflexivity]. reflexivity.
  - right. unfold hop. cbn [encode]. unfold mk_details; cbn [type_details decode].
    destruct (decode all_knowing (encode c) n) as [ec n0]. do 2 eexists. split; [|reflexivity]. reflexivity.
Qed.

(* wrappers without decoder that print something: generic opaque wrapper *)
Definition wgeneric (w : wlayer) : bool :=
  match w with WFmtWrap _ | WUser _ _ _ | WOpError _ _ _ _ => true | _ => false end.

Lemma hop_wrap_generic i w c n :
  wgeneric w = true ->
  exists j d, wrap_stays d = true /\
    fst (hopk (Wrap i w c) n) =
    OWrap j (fst (extract_prefix (error_text (Wrap i w c)) (error_text c))) d
          (snd (extract_prefix (error_text (Wrap i w c)) (error_text c))) (fst (hopk c n)).
Proof.
  intro H. unfold hop. destruct w as [| | | | | | | | | | | | | |m| | | | | |op net src addr|u m xs]; try discriminate H; cbn [encode].
  - destruct (extract_prefix _ _) as [p mt]. unfold mk_details; cbn [type_details decode fst snd].
    destruct (decode all_knowing (encode c) n) as [ec n0]. do 2 eexists. split; [|reflexivity]. reflexivity.
  - destruct (extract_prefix _ _) as [p mt]. unfold mk_details; cbn [type_details decode fst snd].
    destruct (decode all_knowing (encode c) n) as [ec n0]. do 2 eexists. split; [|reflexivity]. reflexivity.
  - destruct (extract_prefix _ _) as [p mt]. unfold mk_details; cbn [type_details decode fst snd].
    destruct (decode all_knowing (encode c) n) as [ec n0]. do 2 eexists. split; [|reflexivity]. reflexivity.
Qed.

Lemma hop_second i c s n : exists j s', fst (hopk (Second i c s) n) = Second j (fst (hopk c n)) s'.
Proof.
  unfold hop. enc_step. destruct (decode all_knowing (encode c) n) as [ec n0].
  fam_is (Second i c s) k_withSecondary.
  change (exists j s', fst (let '(es, n2) := decode all_knowing (encode s) (Pos.succ n0) in (Second n0 ec es, n2))
                       = Second j ec s').
  destruct (decode all_knowing (encode s) (Pos.succ n0)) as [es n2]. now exists n0, es.
Qed.

Lemma hop_barrier i m h n : exists j h', fst (hopk (Barrier i m h) n) = Barrier j m h'.
Proof.
  unfold hop. enc_step. destruct (decode all_knowing (encode h) n) as [eh n0].
  fam_is (Barrier i m h) k_barrier. now exists n0, eh.
Qed.

Lemma hop_owrap i pfx d mt c n :
  wrap_stays d = true -> exists j, fst (hopk (OWrap i pfx d mt c) n) = OWrap j pfx d mt (fst (hopk c n)).
Proof.
  intro H. unfold hop. rewrite encode_opaque_wrapper, (decode_wrap_stays _ _ _ _ _ H).
  destruct (decode all_knowing (encode c) n) as [ec n0]. now exists n0.
Qed.

Definition hop_list (cs : list err) (n : positive) : list err :=
  fst (decode_list (decode all_knowing) (List.map encode cs) n).

Lemma hop_oleaf i msg d cs n :
  leaf_stays d cs = true -> exists j, fst (hopk (OLeaf i msg d cs) n) = OLeaf j msg d (hop_list cs n).
Proof.
  intro H. unfold hop, hop_list. rewrite encode_opaque_leaf, (decode_leaf_stays _ _ _ cs _ H).
  - destruct (decode_list (decode all_knowing) (List.map encode cs) n) as [es n1]. now exists n1.
  - intros ->. reflexivity.
Qed.

(* stdlib joins and fmt.Errorf with several %w: no decoder, opaque leaf with causes *)
Lemma hop_multi_opq i k cs n :
  k <> MJoin ->
  exists j d, leaf_stays d (hop_list cs n) = true /\
    fst (hopk (Multi i k cs) n) = OLeaf j (error_text (Multi i k cs)) d (hop_list cs n).
Proof.
  intro H. unfold hop, hop_list. destruct k; [congruence| |]; cbn [encode]; unfold mk_details; cbn [type_details decode].
  - destruct (decode_list (decode all_knowing) (List.map encode cs) n) as [es n1].
    do 2 eexists. split; [|reflexivity]. reflexivity.
  - destruct (decode_list (decode all_knowing) (List.map encode cs) n) as [es n1].
    do 2 eexists. split; [|reflexivity]. reflexivity.
Qed.

(* ================================================================== *)
(* 2. the tree of Error() texts over the visible cause tree             *)
(* ================================================================== *)
Inductive ttree :=
| TLeaf (t : str)
| TWrap (t : str) (c : ttree)              (* single cause *)
| TMulti (t : str) (cs : list ttree).      (* branches *)

Definition tnode (t : str) (kids : list ttree) : ttree :=
  match kids with [] => TLeaf t | _ => TMulti t kids end.

Fixpoint text_tree (e : err) : ttree :=
  match e with
  | Wrap _ _ c | Second _ c _ | OWrap _ _ _ _ c => TWrap (error_text e) (text_tree c)
  | Multi _ _ cs | OLeaf _ _ _ cs => tnode (error_text e) (List.map text_tree cs)
  | _ => TLeaf (error_text e)
  end.

Definition tt_text (t : ttree) : str :=
  match t with TLeaf s | TWrap s _ | TMulti s _ => s end.

Fixpoint tt_shape (t : ttree) : shape :=
  match t with
  | TLeaf _ => SLeaf
  | TWrap _ c => SWrap (tt_shape c)
  | TMulti _ cs => SMulti (List.map tt_shape cs)
  end.

Lemma tt_text_tree e : tt_text (text_tree e) = error_text e.
Proof. destruct e as [| | | |? ? cs|? ? ? cs|]; try reflexivity; destruct cs; reflexivity. Qed.

Lemma tt_shape_tree e : tt_shape (text_tree e) = err_shape e.
Proof.
  induction e as [i k|i w c IH|i c s IHc IHs|i m h IH|i k cs IH|i m d cs IH|i p d mt c IH] using err_ind';
    try reflexivity; try (cbn [text_tree tt_shape err_shape]; now rewrite ?IH, ?IHc).
  - assert (Hm : List.map tt_shape (List.map text_tree cs) = List.map err_shape cs).
    { induction IH as [|x l Hx Hl IHl]; cbn [List.map]; [reflexivity|]. now rewrite Hx, IHl. }
    destruct cs as [|c0 cs]; [reflexivity|].
    change (SMulti (List.map tt_shape (List.map text_tree (c0 :: cs))) = SMulti (List.map err_shape (c0 :: cs))).
    now rewrite Hm.
  - assert (Hm : List.map tt_shape (List.map text_tree cs) = List.map err_shape cs).
    { induction IH as [|x l Hx Hl IHl]; cbn [List.map]; [reflexivity|]. now rewrite Hx, IHl. }
    destruct cs as [|c0 cs]; [reflexivity|].
    change (SMulti (List.map tt_shape (List.map text_tree (c0 :: cs))) = SMulti (List.map err_shape (c0 :: cs))).
    now rewrite Hm.
Qed.

Lemma text_tree_erase e : text_tree (erase e) = text_tree e.
Proof.
  induction e as [i k|i w c IH|i c s IHc IHs|i m h IH|i k cs IH|i m d cs IH|i p d mt c IH] using err_ind'.
  - reflexivity.
  - assert (E : text_tree (erase (Wrap i w c)) = TWrap (error_text (erase (Wrap i w c))) (text_tree (erase c))).
    { destruct w; try reflexivity. destruct redacted; reflexivity. }
    rewrite E, error_text_erase, IH. reflexivity.
  - change (TWrap (error_text (erase (Second i c s))) (text_tree (erase c)) = TWrap (error_text (Second i c s)) (text_tree c)).
    now rewrite error_text_erase, IHc.
  - reflexivity.
  - apply map_erase_ext in IH.
    change (tnode (error_text (erase (Multi i k cs))) (List.map text_tree (List.map erase cs))
            = tnode (error_text (Multi i k cs)) (List.map text_tree cs)).
    now rewrite error_text_erase, IH.
  - apply map_erase_ext in IH.
    change (tnode (error_text (erase (OLeaf i m d cs))) (List.map text_tree (List.map erase cs))
            = tnode (error_text (OLeaf i m d cs)) (List.map text_tree cs)).
    now rewrite error_text_erase, IH.
  - change (TWrap (error_text (erase (OWrap i p d mt c))) (text_tree (erase c)) = TWrap (error_text (OWrap i p d mt c)) (text_tree c)).
    now rewrite error_text_erase, IH.
Qed.

(* ================================================================== *)
(* 3. the predicate                                                     *)
(* ================================================================== *)
(* [opt s b]: the condition [b] is required in strict mode only.  A node is in
   strict mode ([s = true]) when some ancestor prints it through the
   formatting engine (withPrefix and opaque wrappers print their cause with
   %v / %s): there its printed strings must be plain in the sense of
   [plain_tree].  In non-strict mode only what the hop itself needs is asked. *)
Definition opt (s b : bool) : bool := negb s || b.

Fixpoint tok (s : bool) (e : err) {struct e} : bool :=
  match e with
  | Leaf i k =>
    match k with
    | LPkgFund m _ | LFmtWrapNil m | LUser _ m _ _ => opt s (unsafe_ok m)
    (* a forwarded errno: from a foreign platform it comes back as the same value (any
       message); with the platform of the decoding process it comes back as the
       syscall.Errno, whose text is the table's, not the stored message *)
    | LOpaqueErrno m pe =>
      (negb (str_eqb (en_arch pe) this_arch) || str_eqb m (errno_text (en_errno pe))) && opt s (plain_tree e)
    | LGrpcStatus c _ | LGogoStatus c _ => negb (c =? 0) && opt s (plain_tree e)
    | _ => opt s (plain_tree e)
    end
  | Wrap i w c =>
    let t := error_text e in
    let ct := error_text c in
    match w with
    | WPrefix rp => match rp with [] => tok s c | _ => opt s (raw_msg_ok rp) && tok true c end
    | WNewMsg rm => opt s (raw_msg_ok rm) && tok false c
    | WStack _ | WHint _ | WDetail _ | WIssueLink _ _ | WTelemetry _ | WDomain _ | WContext _ _
    | WAssert | WMark _ | WSafeDetails _ | WHTTP _ | WGrpc _ => tok s c
    | WPkgStack _ => opt s (no_nl ct) && tok s c
    | WPkgMsg m => opt s (no_nl t && nonempty m) && tok s c
    | WFmtWrap _ | WUser _ _ _ =>
      opt s (no_nl t) &&
      (let '(p, mt) := extract_prefix t ct in
       if mt =? 1 then opt s (unsafe_ok t) && tok false c
       else match p with
            | [] => str_eqb t ct && tok s c
            | _ => opt s (unsafe_ok p) && tok true c
            end)
    (* *net.OpError: no encoder/decoder, the generic path as for the two above; what
       strict mode asks is the plainness of the head (at most one of src, addr) *)
    | WOpError op net src addr =>
      opt s (operror_ok op net src addr) &&
      (let '(p, mt) := extract_prefix t ct in
       if mt =? 1 then opt s (unsafe_ok t) && tok false c
       else match p with
            | [] => str_eqb t ct && tok s c
            | _ => opt s (unsafe_ok p) && tok true c
            end)
    | WSyscallError sc => opt s (unsafe_ok sc) && tok s c
    | WPathError op path => opt s (ascii op && no_nl op && unsafe_ok path) && tok s c
    | WLinkError op old new => opt s (ascii op && no_nl op && unsafe_ok old && unsafe_ok new) && tok s c
    end
  | Second i c _ => tok s c
  | Barrier i smsg _ => opt s (raw_msg_ok smsg)
  | Multi i k cs =>
    match k with
    | MJoin => exact_tree e && opt s (plain_tree e)
    | MStdJoin => opt s (plain_tree e && unsafe_ok (error_text e)) && forallb (tok false) cs
    | MFmtWraps msg => opt s (unsafe_ok msg) && forallb (tok false) cs
    end
  | OLeaf i msg d cs => leaf_stays d cs && opt s (unsafe_ok msg) && forallb (tok false) cs
  | OWrap i pfx d mt c =>
    wrap_stays d &&
    (if is_full_msg mt then opt s (unsafe_ok pfx) && tok false c
     else match pfx with
          | [] => tok s c
          | _ => opt s (unsafe_ok pfx) && tok true c
          end)
  end.

Definition text_ok (e : err) : bool := tok false e.

Lemma unsafe_direct m b : unsafe_ok m = true -> direct_ok m b = true.
Proof.
  intro H. destruct (unsafe_ok_parts m H) as (H1 & H2 & H3). unfold direct_ok.
  rewrite H2, H3. destruct m; [contradiction|reflexivity].
Qed.

Lemma unsafe_nonempty m : unsafe_ok m = true -> nonempty m = true.
Proof. intro H. apply unsafe_ok_parts in H as (H & _). destruct m; [contradiction|reflexivity]. Qed.

Lemma unsafe_no_nl m : unsafe_ok m = true -> no_nl m = true.
Proof. intro H. now apply unsafe_ok_parts in H. Qed.

(* strict mode implies plainness *)
Lemma tok_plain e : tok true e = true -> plain_tree e = true.
Proof.
  induction e as [i k|i w c IH|i c s IHc IHs|i m h IH|i k cs IH|i m d cs IH|i p d mt c IH] using err_ind';
    intro H.
  - destruct k as [| |m stk| |m pe| |m url det|c m|c m| |m|u m t xs]; cbn [tok opt negb orb] in H; try exact H.
    + cbn [plain_tree plain_leaf]. now rewrite (unsafe_nonempty m H), (unsafe_no_nl m H).
    + now apply andb_true_iff in H as [_ H].
    + now apply andb_true_iff in H as [_ H].
    + now apply andb_true_iff in H as [_ H].
    + cbn [plain_tree plain_leaf leaf_text]. now apply unsafe_direct.
    + cbn [plain_tree plain_leaf leaf_text]. destruct u; now apply unsafe_direct.
  - assert (Hsimple : forall t ct,
              no_nl t = true ->
              (let '(p, mt) := extract_prefix t ct in
               if mt =? 1 then nonempty t = true
               else (nonempty p || str_eqb t ct) = true /\ tok true c = true) ->
              simple_ok t ct (plain_tree c) = true).
    { intros t ct Hn Hs. unfold simple_ok. rewrite Hn. cbn [andb].
      destruct (extract_prefix t ct) as [p mt]. destruct (mt =? 1); [exact Hs|].
      destruct Hs as [Hs Hc]. now rewrite Hs, (IH Hc). }
    destruct w; cbn [tok opt negb orb] in H; cbn [plain_tree]; try (now apply IH).
    + (* WPrefix *) destruct rp as [|x rp]; [now rewrite (IH H)|].
      apply andb_true_iff in H as [H1 H2]. now rewrite H1, (IH H2), orb_true_r.
    + (* WNewMsg *) now apply andb_true_iff in H as [H _].
    + (* WFmtWrap *) apply andb_true_iff in H as [Hn H].
      apply (Hsimple (error_text (Wrap i (WFmtWrap msg) c)) (error_text c)); [exact Hn|].
      destruct (extract_prefix _ _) as [p mt]. destruct (mt =? 1).
      * apply andb_true_iff in H as [H _]. now apply unsafe_nonempty.
      * destruct p as [|x p]; apply andb_true_iff in H as [H1 H2].
        -- split; [|exact H2]. now rewrite H1, orb_true_r.
        -- split; [reflexivity|exact H2].
    + (* WPkgMsg *) apply andb_true_iff in H as [H Hc]. apply andb_true_iff in H as [Hn Hm].
      apply (Hsimple (msg ++ colon_sp ++ error_text c) (error_text c)); [exact Hn|].
      rewrite extract_prefix_colon. cbn [N.eqb]. split; [now rewrite Hm|exact Hc].
    + (* WPkgStack *) apply andb_true_iff in H as [Hn Hc].
      apply (Hsimple (error_text c) (error_text c)); [exact Hn|].
      rewrite extract_prefix_same. cbn [N.eqb]. split; [|exact Hc]. now rewrite str_eqb_refl, orb_true_r.
    + (* WPathError *) apply andb_true_iff in H as [H Hc]. now rewrite H, (IH Hc).
    + (* WLinkError *) apply andb_true_iff in H as [H Hc]. now rewrite H, (IH Hc).
    + (* WSyscallError *) apply andb_true_iff in H as [H Hc]. now rewrite H, (IH Hc).
    + (* WOpError *) apply andb_true_iff in H as [Hok H]. rewrite Hok. cbn [andb].
      change (error_text (Wrap i (WOpError op net src addr) c))
        with (operror_head op net src addr ++ colon_sp ++ error_text c) in H.
      rewrite extract_prefix_colon in H. cbn [N.eqb] in H.
      destruct (operror_ok_parts _ _ _ _ Hok) as (_ & _ & _ & _ & _ & _ & _ & Hne).
      destruct (operror_head op net src addr) as [|x hd]; [congruence|].
      apply andb_true_iff in H as [_ H]. now apply IH.
    + (* WUser *) apply andb_true_iff in H as [Hn H].
      apply (Hsimple (error_text (Wrap i (WUser u msg xs) c)) (error_text c)); [exact Hn|].
      destruct (extract_prefix _ _) as [p mt]. destruct (mt =? 1).
      * apply andb_true_iff in H as [H _]. now apply unsafe_nonempty.
      * destruct p as [|x p]; apply andb_true_iff in H as [H1 H2].
        -- split; [|exact H2]. now rewrite H1, orb_true_r.
        -- split; [reflexivity|exact H2].
  - cbn [tok] in H. cbn [plain_tree]. now apply IHc.
  - exact H.
  - destruct k; cbn [tok opt negb orb] in H.
    + now apply andb_true_iff in H as [_ H].
    + apply andb_true_iff in H as [H _]. now apply andb_true_iff in H as [H _].
    + apply andb_true_iff in H as [H _]. cbn [plain_tree]. now apply unsafe_direct.
  - cbn [tok opt negb orb] in H. apply andb_true_iff in H as [H _]. now apply andb_true_iff in H as [_ H].
  - cbn [tok opt negb orb] in H. apply andb_true_iff in H as [_ H]. cbn [plain_tree].
    destruct (is_full_msg mt).
    + now apply andb_true_iff in H as [H _].
    + destruct p as [|x p]; [now rewrite (IH H)|].
      apply andb_true_iff in H as [H1 H2]. now rewrite H1, (IH H2), orb_true_r.
Qed.

(* ================================================================== *)
(* 4. texts of the nodes that print their cause through the engine      *)
(* ================================================================== *)
Lemma cause_v_tok c :
  tok true c = true ->
  (if lib_format c then final_short (sem c) false false else ns_text (sem c)) = ns_text (sem c).
Proof. intro H. apply cause_v_eq, plain_short_ok, tok_plain, H. Qed.

Lemma text_prefix i rp c :
  tok true c = true ->
  error_text (Wrap i (WPrefix rp) c) =
  match rp with [] => error_text c | _ => strip_markers rp ++ colon_sp ++ error_text c end.
Proof.
  intro H. unfold error_text. cbn [sem ns_text wrap_text]. rewrite (cause_v_tok c H). reflexivity.
Qed.

Lemma text_owrap i pfx d mt c :
  is_full_msg mt = false -> (pfx <> [] -> tok true c = true) ->
  error_text (OWrap i pfx d mt c) =
  match pfx with [] => error_text c | _ => pfx ++ colon_sp ++ error_text c end.
Proof.
  intros Hf H. unfold error_text. cbn [sem ns_text]. rewrite Hf.
  destruct pfx as [|x pfx]; [reflexivity|]. rewrite (cause_v_tok c); [reflexivity|]. apply H. discriminate.
Qed.

Lemma text_owrap_full i pfx d mt c : is_full_msg mt = true -> error_text (OWrap i pfx d mt c) = pfx.
Proof. intro Hf. unfold error_text. cbn [sem ns_text]. now rewrite Hf. Qed.

Lemma tok_leaf_oid s i j k : tok s (Leaf j k) = tok s (Leaf i k).
Proof. destruct k; reflexivity. Qed.

Lemma tok_transp s j w c : transp w = true -> tok s (Wrap j w c) = tok s c.
Proof. destruct w; intro H; try discriminate H; reflexivity. Qed.

Lemma text_transp j w c : transp w = true -> error_text (Wrap j w c) = error_text c.
Proof. destruct w; intro H; try discriminate H; reflexivity. Qed.

(* ---- exact trees and erase ---- *)
Lemma exact_tree_erase e : exact_tree (erase e) = exact_tree e.
Proof.
  induction e as [i k|i w c IH|i c s IHc IHs|i m h IH|i k cs IH|i m d cs IH|i p d mt c IH] using err_ind';
    try reflexivity.
  - destruct w; try (cbn [erase exact_tree]; now rewrite IH).
    destruct redacted as [r|]; [cbn [erase exact_tree]; now rewrite IH|].
    cbn [erase exact_tree]. rewrite IH. f_equal. cbn [exact_layer]. f_equal. destruct tags; reflexivity.
  - cbn [erase exact_tree]. now rewrite IHc, IHs.
  - cbn [erase exact_tree]. exact IH.
  - destruct k; try reflexivity. cbn [erase exact_tree].
    assert (Hm : forallb exact_tree (List.map erase cs) = forallb exact_tree cs).
    { induction IH as [|x l Hx Hl IHl]; cbn [List.map forallb]; [reflexivity|]. now rewrite Hx, IHl. }
    destruct cs as [|c0 cs]; [reflexivity|]. exact Hm.
Qed.

(* ================================================================== *)
(* 5. one hop                                                           *)
(* ================================================================== *)
Definition good (s : bool) (e e' : err) : Prop := text_tree e' = text_tree e /\ tok s e' = true.

Lemma good_text s e e' : good s e e' -> error_text e' = error_text e.
Proof. intros [H _]. rewrite <- (tt_text_tree e'), H. apply tt_text_tree. Qed.

Lemma tt_wrap i w c : text_tree (Wrap i w c) = TWrap (error_text (Wrap i w c)) (text_tree c).
Proof. reflexivity. Qed.
Lemma tt_owrap i p d mt c : text_tree (OWrap i p d mt c) = TWrap (error_text (OWrap i p d mt c)) (text_tree c).
Proof. reflexivity. Qed.
Lemma tt_second i c s : text_tree (Second i c s) = TWrap (error_text c) (text_tree c).
Proof. reflexivity. Qed.
Lemma tt_multi i k cs : text_tree (Multi i k cs) = tnode (error_text (Multi i k cs)) (List.map text_tree cs).
Proof. reflexivity. Qed.
Lemma tt_oleaf i m d cs : text_tree (OLeaf i m d cs) = tnode m (List.map text_tree cs).
Proof. reflexivity. Qed.

Lemma hop_list_good cs :
  Forall (fun c => forall s n, tok s c = true -> good s c (fst (hopk c n))) cs ->
  forallb (tok false) cs = true ->
  forall n, List.map text_tree (hop_list cs n) = List.map text_tree cs /\
            forallb (tok false) (hop_list cs n) = true.
Proof.
  induction 1 as [|c l Hc Hl IH]; intros Hok n.
  - split; reflexivity.
  - cbn [forallb] in Hok. apply andb_true_iff in Hok as [H1 H2].
    specialize (Hc false n H1). unfold hop in Hc. unfold hop_list. cbn [List.map decode_list].
    destruct (decode all_knowing (encode c) n) as [e1 n1]. cbn [fst] in Hc.
    specialize (IH H2 n1). unfold hop_list in IH.
    destruct (decode_list (decode all_knowing) (List.map encode l) n1) as [es n2]. cbn [fst] in *.
    destruct Hc as [Hc1 Hc2]. destruct IH as [IH1 IH2]. cbn [List.map forallb]. now rewrite Hc1, IH1, Hc2, IH2.
Qed.

Lemma leaf_stays_same d cs es : (cs = [] -> es = []) -> leaf_stays d cs = true -> leaf_stays d es = true.
Proof.
  destruct d as [o fam ext rep pl]. unfold leaf_stays. intros Hl H.
  apply orb_true_iff in H as [H|H]; [now rewrite H|].
  apply andb_true_iff in H as [H1 H2]. destruct cs; [|discriminate H2]. rewrite (Hl eq_refl), H1.
  apply orb_true_r.
Qed.

Lemma map_nil_inv {A B} (f : A -> B) l l' : List.map f l' = List.map f l -> l = [] -> l' = [].
Proof. intros H ->. destruct l'; [reflexivity|discriminate H]. Qed.

(* Error() of every layer but withPrefix is a function of the cause's Error() *)
Lemma text_wrap_cong i j w c c' :
  (forall rp, w <> WPrefix rp) -> error_text c' = error_text c ->
  error_text (Wrap j w c') = error_text (Wrap i w c).
Proof.
  intros Hw H. unfold error_text in *. cbn [sem ns_text].
  destruct w; cbn [wrap_text]; try congruence.
  - exfalso. now apply (Hw rp).
  - destruct u; congruence.
Qed.

(* what comes back from a layer that prints nothing *)
Lemma transp_good s e c c' e' :
  text_tree e = TWrap (error_text c) (text_tree c) ->
  good s c c' ->
  ((exists j w', transp w' = true /\ e' = Wrap j w' c') \/
   (exists j d, wrap_stays d = true /\ e' = OWrap j [] d 0 c')) ->
  good s e e'.
Proof.
  intros He G Hr. pose proof (good_text _ _ _ G) as Ht. destruct G as [T1 T2].
  destruct Hr as [(j & w' & Hw' & ->)|(j & d & Hd & ->)]; split.
  - rewrite tt_wrap, (text_transp j w' c' Hw'), He, Ht, T1. reflexivity.
  - now rewrite (tok_transp s j w' c' Hw').
  - rewrite tt_owrap, He, T1. f_equal. exact Ht.
  - cbn [tok is_full_msg N.eqb]. now rewrite Hd, T2.
Qed.

(* what comes back from a wrapper encoded by the generic path *)
Lemma generic_good s e c c' j d p mt :
  text_tree e = TWrap (error_text e) (text_tree c) ->
  extract_prefix (error_text e) (error_text c) = (p, mt) ->
  wrap_stays d = true ->
  (forall s', tok s' c = true -> good s' c c') ->
  (if mt =? 1 then opt s (unsafe_ok (error_text e)) && tok false c
   else match p with
        | [] => str_eqb (error_text e) (error_text c) && tok s c
        | _ => opt s (unsafe_ok p) && tok true c
        end) = true ->
  good s e (OWrap j p d mt c').
Proof.
  intros He E Hd IH H.
  destruct (extract_prefix_spec _ _ _ _ E) as [[-> ->]|[(-> & -> & Ht)|(-> & Hp & Ht)]].
  - cbn [N.eqb Pos.eqb] in H. apply andb_true_iff in H as [H1 H2].
    destruct (IH false H2) as [T1 T2]. split.
    + rewrite tt_owrap, He, T1. reflexivity.
    + cbn [tok is_full_msg N.eqb Pos.eqb]. now rewrite Hd, H1, T2.
  - cbn [N.eqb] in H. apply andb_true_iff in H as [H1 H2]. apply str_eqb_eq in H1.
    pose proof (good_text _ _ _ (IH s H2)) as Hc. destruct (IH s H2) as [T1 T2]. split.
    + rewrite tt_owrap, He, T1. f_equal. rewrite H1. exact Hc.
    + cbn [tok is_full_msg N.eqb]. now rewrite Hd, T2.
  - cbn [N.eqb] in H. destruct p as [|x p]; [contradiction|].
    apply andb_true_iff in H as [H1 H2].
    pose proof (good_text _ _ _ (IH true H2)) as Hc. destruct (IH true H2) as [T1 T2]. split.
    + rewrite tt_owrap, He, T1. f_equal.
      rewrite (text_owrap j (x :: p) d 0 c' eq_refl (fun _ => T2)), Hc. now rewrite Ht.
    + cbn [tok is_full_msg N.eqb]. now rewrite Hd, H1, T2.
Qed.

Lemma hop_join i cs n :
  cs <> [] -> exists j, fst (hopk (Multi i MJoin cs) n) = Multi j MJoin (hop_list cs n) /\ hop_list cs n <> [].
Proof.
  intro Hne. unfold hop, hop_list. enc_step. fam_is (Multi i MJoin cs) k_join.
  change (mem_str k_join leaf_decoder_keys && knows all_knowing k_join) with false.
  change (mem_str k_join multi_decoder_keys && knows all_knowing k_join) with true. cbv iota.
  assert (Hne' : List.map encode cs <> []) by (destruct cs; [congruence|discriminate]).
  pose proof (decode_list_nonempty all_knowing (List.map encode cs) n Hne') as Hn.
  destruct (decode_list (decode all_knowing) (List.map encode cs) n) as [es n1]. cbn [fst] in *.
  destruct es as [|e0 es]; [congruence|]. exists n1. split; [reflexivity|discriminate].
Qed.

Lemma tok_hop e : forall s n, tok s e = true -> good s e (fst (hopk e n)).
Proof.
  induction e as [i k|i w c IH|i c s2 IHc IHs|i m h IH|i k cs IH|i m d cs IH|i p d mt c IH] using err_ind';
    intros s n H.
  - (* Leaf *)
    destruct (leaf_opq k) eqn:Eo.
    + destruct (hop_leaf_opq i k n Eo) as (j & d & -> & Hd). split; [reflexivity|].
      cbn [tok forallb]. rewrite Hd, andb_true_r. cbn [andb].
      destruct k; try discriminate Eo; exact H.
    + destruct (exact_leaf k) eqn:Hex.
      * destruct (hop_leaf_exact i k n Hex) as [j ->]. split; [reflexivity|].
        now rewrite (tok_leaf_oid s i j k).
      * destruct k; try discriminate Eo; try discriminate Hex; cbn [exact_leaf] in Hex; cbn [tok] in H.
        -- (* forwarded errno of this platform: back to syscall.Errno *)
           rewrite Hex in H. cbn [orb] in H. apply andb_true_iff in H as [Hm _].
           apply str_eqb_eq in Hm. subst msg. apply negb_false_iff in Hex.
           destruct (hop_leaf_errno_back i (errno_text (en_errno p)) p n Hex) as [j ->].
           split; [reflexivity|]. cbn [tok]. rewrite plain_errno. destruct s; reflexivity.
        -- apply andb_true_iff in H as [H _]. congruence.
        -- apply andb_true_iff in H as [H _]. congruence.
  - (* Wrap *)
    set (c' := fst (hopk c n)).
    assert (IH' : forall s', tok s' c = true -> good s' c c') by (intros s' Hs'; exact (IH s' n Hs')).
    destruct (transp w) eqn:Ht.
    { rewrite (tok_transp s i w c Ht) in H.
      apply (transp_good s (Wrap i w c) c c').
      - rewrite tt_wrap, (text_transp i w c Ht). reflexivity.
      - now apply IH'.
      - destruct (hop_wrap_transp i w c n (or_introl Ht)) as [(j & w' & Hw' & Hr)|(j & d & Hd & Hr)];
          [left; now exists j, w'|right; now exists j, d]. }
    (* the layers with a concatenating Error(): rebuilt as such *)
    assert (Hcat : forall cond,
               wexact w = true -> (forall rp, w <> WPrefix rp) ->
               tok s c = true ->
               (forall j, tok s (Wrap j w c') = cond && tok s c') -> cond = true ->
               good s (Wrap i w c) (fst (hopk (Wrap i w c) n))).
    { intros cond Hx Hnp Hc Htok Hcond.
      destruct (hop_wrap_exact i w c n Hx) as [j ->]. fold c'.
      pose proof (good_text _ _ _ (IH' s Hc)) as Htx. destruct (IH' s Hc) as [T1 T2]. split.
      - rewrite !tt_wrap, T1. f_equal. now apply text_wrap_cong.
      - now rewrite Htok, Hcond, T2. }
    destruct w; try discriminate Ht; cbn [tok] in H.
    + (* WPrefix *)
      destruct (hop_wrap_exact i (WPrefix rp) c n eq_refl) as [j ->]. fold c'.
      destruct rp as [|x rp].
      * pose proof (good_text _ _ _ (IH' s H)) as Htx. destruct (IH' s H) as [T1 T2]. split; [|exact T2].
        rewrite !tt_wrap, T1. f_equal. exact Htx.
      * apply andb_true_iff in H as [H1 H2].
        pose proof (good_text _ _ _ (IH' true H2)) as Htx. destruct (IH' true H2) as [T1 T2]. split.
        -- rewrite !tt_wrap, T1. f_equal. now rewrite (text_prefix j _ c' T2), (text_prefix i _ c H2), Htx.
        -- cbn [tok]. now rewrite H1, T2.
    + (* WNewMsg *)
      destruct (hop_wrap_exact i (WNewMsg rm) c n eq_refl) as [j ->]. fold c'.
      apply andb_true_iff in H as [H1 H2]. destruct (IH' false H2) as [T1 T2]. split.
      * rewrite !tt_wrap, T1. reflexivity.
      * cbn [tok]. now rewrite H1, T2.
    + (* WFmtWrap *)
      apply andb_true_iff in H as [_ H].
      destruct (hop_wrap_generic i (WFmtWrap msg) c n eq_refl) as (j & d & Hd & ->). fold c'.
      destruct (extract_prefix (error_text (Wrap i (WFmtWrap msg) c)) (error_text c)) as [p mt] eqn:E.
      cbn [fst snd]. now apply (generic_good s (Wrap i (WFmtWrap msg) c) c c' j d p mt).
    + (* WPkgMsg *)
      apply andb_true_iff in H as [H1 H2].
      apply (Hcat (opt s (no_nl (msg ++ colon_sp ++ error_text c) && nonempty msg)));
        [reflexivity|discriminate|exact H2| |exact H1].
      intro j. cbn [tok].
      change (error_text (Wrap j (WPkgMsg msg) c')) with (msg ++ colon_sp ++ error_text c').
      now rewrite (good_text _ _ _ (IH' s H2)).
    + (* WPkgStack *)
      apply andb_true_iff in H as [_ H].
      apply (transp_good s (Wrap i (WPkgStack st) c) c c'); [reflexivity|now apply IH'|].
      destruct (hop_wrap_transp i (WPkgStack st) c n (or_intror (ex_intro _ st eq_refl)))
        as [(j & w' & Hw' & Hr)|(j & d & Hd & Hr)]; [left; now exists j, w'|right; now exists j, d].
    + (* WPathError *)
      apply andb_true_iff in H as [H1 H2].
      apply (Hcat (opt s (ascii op && no_nl op && unsafe_ok path)));
        [reflexivity|discriminate|exact H2|reflexivity|exact H1].
    + (* WLinkError *)
      apply andb_true_iff in H as [H1 H2].
      apply (Hcat (opt s (ascii op && no_nl op && unsafe_ok old && unsafe_ok new)));
        [reflexivity|discriminate|exact H2|reflexivity|exact H1].
    + (* WSyscallError *)
      apply andb_true_iff in H as [H1 H2].
      apply (Hcat (opt s (unsafe_ok sc))); [reflexivity|discriminate|exact H2|reflexivity|exact H1].
    + (* WOpError *)
      apply andb_true_iff in H as [_ H].
      destruct (hop_wrap_generic i (WOpError op net src addr) c n eq_refl) as (j & d & Hd & ->). fold c'.
      destruct (extract_prefix (error_text (Wrap i (WOpError op net src addr) c)) (error_text c)) as [p mt] eqn:E.
      cbn [fst snd]. now apply (generic_good s (Wrap i (WOpError op net src addr) c) c c' j d p mt).
    + (* WUser *)
      apply andb_true_iff in H as [_ H].
      destruct (hop_wrap_generic i (WUser u msg xs) c n eq_refl) as (j & d & Hd & ->). fold c'.
      destruct (extract_prefix (error_text (Wrap i (WUser u msg xs) c)) (error_text c)) as [p mt] eqn:E.
      cbn [fst snd]. now apply (generic_good s (Wrap i (WUser u msg xs) c) c c' j d p mt).
  - (* Second *)
    cbn [tok] in H. destruct (hop_second i c s2 n) as (j & s' & ->).
    pose proof (good_text _ _ _ (IHc s n H)) as Htx. destruct (IHc s n H) as [T1 T2]. split; [|exact T2].
    now rewrite !tt_second, T1, Htx.
  - (* Barrier *)
    destruct (hop_barrier i m h n) as (j & h' & ->). split; [reflexivity|exact H].
  - (* Multi *)
    destruct k.
    + (* join: the children are exact trees *)
      cbn [tok] in H. apply andb_true_iff in H as [Hx Hp].
      pose proof (exact_hop_erase _ n Hx) as Her.
      assert (Hne : cs <> []) by (destruct cs; [discriminate Hx|discriminate]).
      destruct (hop_join i cs n Hne) as (j & Hj & _). rewrite Hj in Her |- *.
      set (es := hop_list cs n) in *.
      split.
      * now rewrite <- text_tree_erase, Her, text_tree_erase.
      * assert (Hx' : exact_tree (Multi j MJoin es) = true)
          by now rewrite <- exact_tree_erase, Her, exact_tree_erase.
        pose proof (same_erase_sem _ _ Her) as Hsem.
        assert (Hpl : plain_tree (Multi j MJoin es) = plain_tree (Multi i MJoin cs)).
        { cbn [plain_tree]. unfold error_text. now rewrite Hsem. }
        cbn [tok]. now rewrite Hx', Hpl, Hp.
    + (* errors.Join *)
      cbn [tok] in H. apply andb_true_iff in H as [H1 H2].
      destruct (hop_multi_opq i MStdJoin cs n ltac:(discriminate)) as (j & d & Hd & ->).
      destruct (hop_list_good cs IH H2 n) as [L1 L2]. split.
      * now rewrite tt_oleaf, tt_multi, L1.
      * cbn [tok]. rewrite Hd, L2, andb_true_r. cbn [andb].
        destruct s; [|reflexivity]. cbn [opt negb orb] in *. now apply andb_true_iff in H1 as [_ H1].
    + (* fmt.Errorf with several %w *)
      cbn [tok] in H. apply andb_true_iff in H as [H1 H2].
      destruct (hop_multi_opq i (MFmtWraps msg) cs n ltac:(discriminate)) as (j & d & Hd & ->).
      destruct (hop_list_good cs IH H2 n) as [L1 L2]. split.
      * now rewrite tt_oleaf, tt_multi, L1.
      * cbn [tok]. rewrite Hd, L2, andb_true_r. cbn [andb]. exact H1.
  - (* OLeaf *)
    cbn [tok] in H. apply andb_true_iff in H as [H H3]. apply andb_true_iff in H as [H1 H2].
    destruct (hop_oleaf i m d cs n H1) as [j ->].
    destruct (hop_list_good cs IH H3 n) as [L1 L2]. split.
    + now rewrite !tt_oleaf, L1.
    + cbn [tok]. rewrite (leaf_stays_same d cs _ (map_nil_inv _ _ _ L1) H1), H2, L2. reflexivity.
  - (* OWrap *)
    cbn [tok] in H. apply andb_true_iff in H as [Hd H].
    destruct (hop_owrap i p d mt c n Hd) as [j ->]. set (c' := fst (hopk c n)).
    destruct (is_full_msg mt) eqn:Ef.
    + apply andb_true_iff in H as [H1 H2]. destruct (IH false n H2) as [T1 T2]. fold c' in T1, T2. split.
      * now rewrite !tt_owrap, T1, !text_owrap_full.
      * cbn [tok]. now rewrite Hd, Ef, H1, T2.
    + destruct p as [|x p].
      * pose proof (good_text _ _ _ (IH s n H)) as Htx. destruct (IH s n H) as [T1 T2].
        fold c' in Htx, T1, T2. split.
        -- rewrite !tt_owrap, T1. f_equal. rewrite !text_owrap by (assumption || congruence). exact Htx.
        -- cbn [tok]. now rewrite Hd, Ef, T2.
      * apply andb_true_iff in H as [H1 H2].
        pose proof (good_text _ _ _ (IH true n H2)) as Htx. destruct (IH true n H2) as [T1 T2].
        fold c' in Htx, T1, T2. split.
        -- rewrite !tt_owrap, T1. f_equal. rewrite !text_owrap by (assumption || (intros _; assumption)).
           now rewrite Htx.
        -- cbn [tok]. now rewrite Hd, Ef, H1, T2.
Qed.

(* ================================================================== *)
(* 6. the theorems                                                      *)
(* ================================================================== *)
(* general form: in either mode, the hop keeps the tree of texts and the predicate *)
Theorem tok_hop_tree s e n :
  tok s e = true ->
  text_tree (fst (hop all_knowing e n)) = text_tree e /\ tok s (fst (hop all_knowing e n)) = true.
Proof. intro H. exact (tok_hop e s n H). Qed.

Theorem text_tree_hop e n : text_ok e = true -> text_tree (fst (hop all_knowing e n)) = text_tree e.
Proof. intro H. exact (proj1 (tok_hop e false n H)). Qed.

Theorem text_hop e n :
  text_ok e = true ->
  let e' := fst (hop all_knowing e n) in
  error_text e' = error_text e /\ err_shape e' = err_shape e /\ text_ok e' = true.
Proof.
  intros H e'. pose proof (tok_hop e false n H) as G. fold e' in G. split; [|split].
  - exact (good_text _ _ _ G).
  - rewrite <- !tt_shape_tree. now rewrite (proj1 G).
  - exact (proj2 G).
Qed.

Lemma text_transfer_gen k : forall e n,
  text_ok e = true ->
  text_tree (fst (transfer (List.repeat all_knowing k) e n)) = text_tree e /\
  text_ok (fst (transfer (List.repeat all_knowing k) e n)) = true.
Proof.
  induction k as [|k IH]; intros e n H; cbn [List.repeat transfer].
  - split; [reflexivity|exact H].
  - pose proof (tok_hop e false n H) as [G1 G2].
    destruct (hop all_knowing e n) as [e1 n1]. cbn [fst] in G1, G2.
    destruct (IH e1 n1 G2) as [T1 T2]. split; [now rewrite T1|exact T2].
Qed.

Corollary text_tree_transfer e k n :
  text_ok e = true -> text_tree (fst (transfer (List.repeat all_knowing k) e n)) = text_tree e.
Proof. intro H. exact (proj1 (text_transfer_gen k e n H)). Qed.

Corollary text_transfer e k n :
  text_ok e = true ->
  let e' := fst (transfer (List.repeat all_knowing k) e n) in
  error_text e' = error_text e /\ err_shape e' = err_shape e /\ text_ok e' = true.
Proof.
  intros H e'. destruct (text_transfer_gen k e n H) as [T1 T2]. fold e' in T1, T2. split; [|split].
  - now rewrite <- (tt_text_tree e'), T1, tt_text_tree.
  - now rewrite <- !tt_shape_tree, T1.
  - exact T2.
Qed.

(* the text at the root and the shape are read off the tree of texts *)
Lemma text_tree_root e : tt_text (text_tree e) = error_text e.
Proof. apply tt_text_tree. Qed.
Lemma text_tree_shape e : tt_shape (text_tree e) = err_shape e.
Proof. apply tt_shape_tree. Qed.

(* strict mode is stronger than non-strict mode *)
Lemma tok_mono e : tok true e = true -> tok false e = true.
Proof.
  induction e as [i k|i w c IH|i c s IHc IHs|i m h IH|i k cs IH|i m d cs IH|i p d mt c IH] using err_ind';
    intro H.
  - destruct k; try reflexivity; cbn [tok] in H |- *; apply andb_true_iff in H as [H _]; now rewrite H.
  - destruct w; cbn [tok opt negb orb andb] in H |- *; try (now apply IH);
      try (apply andb_true_iff in H as [_ H]; now apply IH).
    + destruct rp; [now apply IH|]. now apply andb_true_iff in H as [_ H].
    + now apply andb_true_iff in H as [_ H].
    + apply andb_true_iff in H as [_ H]. destruct (extract_prefix _ _) as [p mt]. destruct (mt =? 1).
      * now apply andb_true_iff in H as [_ H].
      * destruct p; apply andb_true_iff in H as [H1 H2]; [now rewrite H1, (IH H2)|exact H2].
    + apply andb_true_iff in H as [_ H]. destruct (extract_prefix _ _) as [p mt]. destruct (mt =? 1).
      * now apply andb_true_iff in H as [_ H].
      * destruct p; apply andb_true_iff in H as [H1 H2]; [now rewrite H1, (IH H2)|exact H2].
    + apply andb_true_iff in H as [_ H]. destruct (extract_prefix _ _) as [p mt]. destruct (mt =? 1).
      * now apply andb_true_iff in H as [_ H].
      * destruct p; apply andb_true_iff in H as [H1 H2]; [now rewrite H1, (IH H2)|exact H2].
  - cbn [tok] in H |- *. now apply IHc.
  - reflexivity.
  - destruct k; cbn [tok opt negb orb andb] in H |- *.
    + apply andb_true_iff in H as [H _]. now rewrite H.
    + now apply andb_true_iff in H as [_ H].
    + now apply andb_true_iff in H as [_ H].
  - cbn [tok opt negb orb andb] in H |- *. apply andb_true_iff in H as [H H3].
    apply andb_true_iff in H as [H1 _]. now rewrite H1, H3.
  - cbn [tok opt negb orb andb] in H |- *. apply andb_true_iff in H as [Hd H]. rewrite Hd. cbn [andb].
    destruct (is_full_msg mt).
    + now apply andb_true_iff in H as [_ H].
    + destruct p; [now apply IH|]. now apply andb_true_iff in H as [_ H].
Qed.

(* ================================================================== *)
(* 7. the conditions that are not about plain strings are needed        *)
(* ================================================================== *)
Definition text_changes (e : err) : Prop :=
  text_ok e = false /\ error_text (fst (hop all_knowing e 200%positive)) <> error_text e.

Definition u_leaf (m : str) : err := Leaf 100%positive (LUser ULPlain m 0%Z []).

Lemma text_ok_conditions_needed :
  (* the gRPC code OK is not an error: the status comes back as an opaque leaf showing the bare message *)
  text_changes (Leaf 100%positive (LGrpcStatus 0 (lit "m"))) /\
  text_changes (Leaf 100%positive (LGogoStatus 0 (lit "m"))) /\
  (* extractPrefix takes ": " in front of the cause's text for an empty prefix *)
  text_changes (Wrap 101%positive (WFmtWrap (lit ": x")) (u_leaf (lit "x"))) /\
  (* strict mode: a redaction marker in the message of a type that comes back as
     an opaque leaf is escaped when a withPrefix above prints its cause with %v *)
  text_changes (Wrap 101%positive (WPrefix (lit "p")) (u_leaf [226; 128; 185; 120])).
Proof. unfold text_changes. repeat split; vm_compute; try reflexivity; discriminate. Qed.

(* the clauses added for the forwarded errno and for *net.OpError *)
Definition errno_here (m : str) (n : Z) : err :=
  Leaf 100%positive (LOpaqueErrno m (mkerrno n this_arch true false false false false)).

Lemma text_ok_conditions_needed_errno_operror :
  (* a forwarded errno carrying the platform of the decoding process comes back as the
     syscall.Errno: Error() becomes the table's text, not the stored message *)
  text_changes (errno_here (lit "eperm") 1%Z) /\
  error_text (fst (hop all_knowing (errno_here (lit "eperm") 1%Z) 200%positive)) = lit "operation not permitted" /\
  (* ... with the table's text as message nothing changes, and from a foreign platform any message is kept *)
  text_ok (errno_here (lit "operation not permitted") 1%Z) = true /\
  text_ok (Leaf 100%positive (LOpaqueErrno (lit "eperm") (mkerrno 1%Z (lit "plan9:mips") true false false false false))) = true /\
  (* a *net.OpError with an entirely empty head prints ": " ++ cause: extractPrefix drops it *)
  text_changes (Wrap 101%positive (WOpError [] [] [] []) (u_leaf (lit "x"))) /\
  (* strict mode: below a withPrefix and a layer with a Format method (here withStack), Source and
     Addr together are printed "src -> addr" by the engine while Error() says "src->addr"; the hop
     stores Error() as the opaque prefix, so the text of the withPrefix node changes *)
  tok true (Wrap 101%positive (WOpError (lit "dial") (lit "tcp") (lit "a") (lit "b")) (u_leaf (lit "x"))) = false /\
  text_ok (Wrap 101%positive (WOpError (lit "dial") (lit "tcp") (lit "a") (lit "b")) (u_leaf (lit "x"))) = true /\
  text_changes (Wrap 103%positive (WPrefix (lit "p")) (Wrap 102%positive (WStack [])
                  (Wrap 101%positive (WOpError (lit "dial") (lit "tcp") (lit "a") (lit "b")) (u_leaf (lit "x"))))).
Proof. unfold text_changes. repeat split; vm_compute; try reflexivity; discriminate. Qed.

(* ================================================================== *)
(* 8. the predicate is not vacuous: every kind without decoder occurs   *)
(* ================================================================== *)
Definition xP : oid := 100%positive.
Definition text_ok_samples : list err :=
  [ (* withStack over fmt.Errorf("ctx: %w") over a user leaf *)
    Wrap xP (WStack []) (Wrap xP (WFmtWrap (lit "ctx: boom")) (u_leaf (lit "boom")));
    (* errors.Join of a sentinel-like leaf and a user wrapper over a pkg/errors leaf *)
    Multi xP MStdJoin [Leaf xP (LErrString (lit "a"));
                       Wrap xP (WUser UWUnwrap (lit "u") []) (Leaf xP (LPkgFund (lit "b") []))];
    (* withPrefix over pkg/errors withStack over fmt.Errorf("%w", nil) *)
    Wrap xP (WPrefix (lit "p")) (Wrap xP (WPkgStack []) (Leaf xP (LFmtWrapNil (lit "x"))));
    (* fmt.Errorf with two %w *)
    Multi xP (MFmtWraps (lit "a b")) [u_leaf (lit "a"); Leaf xP (LErrString (lit "b"))];
    (* withPrefix over the library's join of exactly-decodable causes *)
    Wrap xP (WPrefix (lit "p"))
         (Multi xP MJoin [Leaf xP (LErrString (lit "a")); Wrap xP (WHint (lit "h")) (Leaf xP (LLeafError (lit "b")))]);
    (* not below a node that prints its cause with %v: any bytes (non-ASCII, markers, newline) *)
    Wrap xP (WStack []) (u_leaf [195; 169; 226; 128; 185; 10]);
    (* a wrapper whose Error() elides the cause, pkg/errors WithMessage, a foreign errno *)
    Wrap xP (WUser UWFull (lit "full") [])
         (Wrap xP (WPkgMsg (lit "m"))
               (Leaf xP (LOpaqueErrno (lit "eperm") (mkerrno 1%Z (lit "plan9") true false false false false))));
    (* hidden parts are unconstrained *)
    Second xP (Wrap xP (WPathError (lit "open") (lit "/x")) (Leaf xP (LErrno 2%Z))) (u_leaf []);
    Barrier xP (lit "b") (u_leaf []);
    (* annotation layers whose decoder falls back to the opaque wrapper *)
    Wrap xP (WContext [] None) (Wrap xP (WMark (mkem (lit "m") [])) (Wrap xP (WHTTP (-1)%Z) (Leaf xP LDeadline)));
    (* withPrefix over *net.OpError (one of Source / Addr) over a forwarded errno of this platform
       that stores the table's text *)
    Wrap xP (WPrefix (lit "p"))
         (Wrap xP (WOpError (lit "dial") (lit "tcp") [] (lit "10.0.0.1:80"))
               (Leaf xP (LOpaqueErrno (lit "connection timed out")
                                      (mkerrno 110%Z this_arch false false false false true))));
    (* not in strict mode: *net.OpError with both Source and Addr *)
    Wrap xP (WStack []) (Wrap xP (WOpError (lit "read") (lit "udp") (lit "a:1") (lit "b:2")) (u_leaf (lit "x"))) ].

Lemma text_ok_samples_ok : forallb text_ok text_ok_samples = true.
Proof. vm_compute. reflexivity. Qed.
