(* Facts about the constructors (C10, C13, C07). *)
From Errv Require Import Base.Str Redact.Markers Redact.Buffer Model.Err Model.Sem Model.Details Model.Marks
     Model.Codec Model.Access Model.Build Proofs.StrFacts.

(* ---- annotation-only layers are transparent ---- *)
Definition annotation (w : wlayer) : bool :=
  match w with
  | WStack _ | WHint _ | WDetail _ | WIssueLink _ _ | WTelemetry _ | WDomain _ | WContext _ _
  | WAssert | WMark _ | WSafeDetails _ | WHTTP _ | WGrpc _ => true
  | _ => false
  end.

Lemma annotation_text i w c : annotation w = true -> error_text (Wrap i w c) = error_text c.
Proof. destruct w; intro H; try discriminate; reflexivity. Qed.

Lemma secondary_text i c s : error_text (Second i c s) = error_text c.
Proof. reflexivity. Qed.

Lemma annotation_root i w c : unwrap_all (Wrap i w c) = unwrap_all c.
Proof. reflexivity. Qed.

Lemma secondary_root i c s : unwrap_all (Second i c s) = unwrap_all c.
Proof. reflexivity. Qed.

(* every Is / As match of the wrapped error is kept *)
Lemma annotation_is i w c r : is_ c r = true -> is_ (Wrap i w c) r = true.
Proof. intro H; cbn [is_]. rewrite H. now rewrite orb_true_r. Qed.

Lemma annotation_as i w c t n :
  annotation w = true ->
  as_ c t = Some n -> assignable (Wrap i w c) t = false -> as_ (Wrap i w c) t = Some n.
Proof. intros Hw H Ha. destruct w; try discriminate; cbn [as_ as_method]; rewrite Ha; exact H. Qed.

(* ---- message wrappers ---- *)
(* what fmt's %v prints for the cause: its Format method when it has one (the
   library's types: the formatting engine), its Error() otherwise *)
Definition cause_v (c : err) : str := if lib_format c then fmt_plain_short c else error_text c.

Lemma prefix_text i rp c :
  error_text (Wrap i (WPrefix rp) c) =
  match rp with [] => error_text c | _ => strip_markers rp ++ lit ": " ++ cause_v c end.
Proof. reflexivity. Qed.

Lemma newmsg_text i rm c : error_text (Wrap i (WNewMsg rm) c) = strip_markers rm.
Proof. reflexivity. Qed.

Lemma barrier_text i smsg m : error_text (Barrier i smsg m) = strip_markers smsg.
Proof. reflexivity. Qed.

Lemma stdjoin_text i cs :
  error_text (Multi i MStdJoin cs) = join [nl] (List.map error_text cs).
Proof. unfold error_text. cbn [sem ns_text]. now rewrite map_map. Qed.

(* ---- nil stays nil ---- *)
Section Nil.
Variable env : benv.

Definition builds_nil (r : recipe) : Prop := forall s, fst (build env r s) = None.

Lemma nil_nil : builds_nil RNil.
Proof. intro s; reflexivity. Qed.

Ltac on_nil H :=
  let s := fresh "s" in let o := fresh "o" in let s1 := fresh "s1" in
  intro s; cbn [build]; specialize (H s); destruct (build env _ s) as [o s1]; cbn in H; subst o; reflexivity.
Ltac on_f_nil H :=
  let s := fresh "s" in let o := fresh "o" in let s1 := fresh "s1" in
  intro s; cbn [build]; specialize (H s); destruct (build env _ s) as [o s1]; cbn in H; subst o;
  match goal with |- fst (let '(_, _) := ?X in _) = _ => destruct X end; reflexivity.

Lemma wrap_nil r m : builds_nil r -> builds_nil (RWrap r m).
Proof. intro H. on_nil H. Qed.
Lemma withmessage_nil r m : builds_nil r -> builds_nil (RWithMessage r m).
Proof. intro H. on_nil H. Qed.
Lemma withstack_nil r : builds_nil r -> builds_nil (RWithStack r).
Proof. intro H. on_nil H. Qed.
Lemma hint_nil r h : builds_nil r -> builds_nil (RHint r h).
Proof. intro H. on_nil H. Qed.
Lemma detail_nil r h : builds_nil r -> builds_nil (RDetail r h).
Proof. intro H. on_nil H. Qed.
Lemma issuelink_nil r u d : builds_nil r -> builds_nil (RIssueLink r u d).
Proof. intro H. on_nil H. Qed.
Lemma telemetry_nil r k : builds_nil r -> builds_nil (RTelemetry r k).
Proof. intro H. on_nil H. Qed.
Lemma domain_nil r d : builds_nil r -> builds_nil (RDomain r d).
Proof. intro H. on_nil H. Qed.
Lemma tags_nil r t : builds_nil r -> builds_nil (RTags r t).
Proof. intro H. on_nil H. Qed.
Lemma assert_nil r : builds_nil r -> builds_nil (RAssert r).
Proof. intro H. on_nil H. Qed.
Lemma http_nil r c : builds_nil r -> builds_nil (RHTTP r c).
Proof. intro H. on_nil H. Qed.
Lemma grpc_nil r c : builds_nil r -> builds_nil (RGrpc r c).
Proof. intro H. on_nil H. Qed.
Lemma handled_nil r : builds_nil r -> builds_nil (RHandled r).
Proof. intro H. on_nil H. Qed.
Lemma handledmsg_nil r m : builds_nil r -> builds_nil (RHandledMsg r m).
Proof. intro H. on_nil H. Qed.
Lemma handledindomain_nil r d : builds_nil r -> builds_nil (RHandledInDomain r d).
Proof. intro H. on_nil H. Qed.
Lemma handledindomainmsg_nil r d m : builds_nil r -> builds_nil (RHandledInDomainMsg r d m).
Proof. intro H. on_nil H. Qed.
Lemma handleassert_nil r : builds_nil r -> builds_nil (RHandleAssert r).
Proof. intro H. on_nil H. Qed.
Lemma pkgmsg_nil r m : builds_nil r -> builds_nil (RPkgMsg r m).
Proof. intro H. on_nil H. Qed.
Lemma pkgstack_nil r : builds_nil r -> builds_nil (RPkgStack r).
Proof. intro H. on_nil H. Qed.
Lemma transfer_nil r ps : builds_nil r -> builds_nil (RTransfer r ps).
Proof. intro H. on_nil H. Qed.

Lemma wrapf_nil r f : builds_nil r -> builds_nil (RWrapf r f).
Proof. intro H. on_f_nil H. Qed.
Lemma withmessagef_nil r f : builds_nil r -> builds_nil (RWithMessagef r f).
Proof. intro H. on_f_nil H. Qed.
Lemma safedetails_nil r f : builds_nil r -> builds_nil (RSafeDetails r f).
Proof. intro H. on_f_nil H. Qed.
Lemma handledmsgf_nil r f : builds_nil r -> builds_nil (RHandledMsgf r f).
Proof. intro H. on_f_nil H. Qed.
Lemma newassertwrapped_nil r f : builds_nil r -> builds_nil (RNewAssertWrapped r f).
Proof. intro H. on_f_nil H. Qed.

Lemma mark_nil r x : builds_nil r -> builds_nil (RMark r x).
Proof.
  intros H s. cbn [build]. specialize (H s). destruct (build env r s) as [o s1]; cbn in H; subst o.
  destruct (build env x s1); reflexivity.
Qed.

(* WithSecondaryError(nil, x) = nil ; WithSecondaryError(e, nil) = e *)
Lemma secondary_nil_left r x : builds_nil r -> builds_nil (RSecondary r x).
Proof.
  intros H s. cbn [build]. specialize (H s). destruct (build env r s) as [o s1]; cbn in H; subst o.
  destruct (build env x s1) as [[a|] s2]; reflexivity.
Qed.

Lemma secondary_nil_right r x s :
  (forall s', fst (build env x s') = None) ->
  fst (build env (RSecondary r x) s) = fst (build env r s).
Proof.
  intros H. cbn [build]. destruct (build env r s) as [o s1].
  specialize (H s1). destruct (build env x s1) as [ox s2]; cbn in H; subst ox.
  destruct o; reflexivity.
Qed.

(* CombineErrors(nil, x) = x ; CombineErrors(e, nil) = e *)
Lemma combine_nil_left r x s :
  (forall s', fst (build env r s') = None) ->
  fst (build env (RCombine r x) s) = fst (build env x (snd (build env r s))).
Proof.
  intros H. cbn [build]. specialize (H s). destruct (build env r s) as [o s1]; cbn in H; subst o. cbn.
  destruct (build env x s1); reflexivity.
Qed.

Lemma combine_nil_right r x s :
  (forall s', fst (build env x s') = None) ->
  fst (build env (RCombine r x) s) = fst (build env r s).
Proof.
  intros H. cbn [build]. destruct (build env r s) as [o s1].
  specialize (H s1). destruct (build env x s1) as [ox s2]; cbn in H; subst ox.
  destruct o; reflexivity.
Qed.

(* leaf constructors never return nil *)
Lemma new_nonnil m s : fst (build env (RNew m) s) <> None.
Proof. cbn [build]. unfold mk_leaf, with_stack, mk_wrap, fresh_oid, fresh_stack. cbn. discriminate. Qed.
Lemma stdnew_nonnil m s : fst (build env (RStdNew m) s) <> None.
Proof. cbn. discriminate. Qed.
Lemma unimpl_nonnil u d m s : fst (build env (RUnimpl u d m) s) <> None.
Proof. cbn. discriminate. Qed.
End Nil.
