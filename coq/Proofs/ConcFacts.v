(* C18: read-only threads are schedule-independent (facts about Model/Conc.v). *)
From Coq Require Import List ZArith Bool Lia.
From Errv Require Import Model.Conc.
Import ListNotations.

Local Notation allro := (forallb (fun tp : thread * Z => read_only (fst tp))).

(* ---------- single steps ---------- *)

Lemma step_ro h p a : is_write a = false -> step h p a = (h, snd (step h p a)).
Proof. destruct a; simpl; intros H; try reflexivity; discriminate. Qed.

Lemma read_only_cons a t :
  read_only (a :: t) = true -> is_write a = false /\ read_only t = true.
Proof.
  unfold read_only; simpl. intros H. apply andb_true_iff in H. destruct H as [H1 H2].
  split; [now apply negb_true_iff in H1 | exact H2].
Qed.

Lemma read_only_app d r :
  read_only (d ++ r) = true -> read_only d = true /\ read_only r = true.
Proof. unfold read_only. rewrite forallb_app. apply andb_true_iff. Qed.

(* a read-only thread never changes the heap *)
Lemma solo_heap h p t : read_only t = true -> fst (run_solo h p t) = h.
Proof.
  revert p. induction t as [|a t IH]; intros p H; [reflexivity|].
  apply read_only_cons in H. destruct H as [Ha Ht].
  cbn [run_solo]. rewrite (step_ro h p a Ha). apply IH, Ht.
Qed.

Lemma run_solo_app h p d r :
  run_solo h p (d ++ r) = run_solo (fst (run_solo h p d)) (snd (run_solo h p d)) r.
Proof.
  revert h p. induction d as [|a d IH]; intros h p; [reflexivity|].
  cbn [app run_solo]. destruct (step h p a) as [h' p']. apply IH.
Qed.

Lemma run_solo_snoc_ro h p d a :
  read_only d = true -> is_write a = false ->
  snd (run_solo h p (d ++ [a])) = snd (step h (snd (run_solo h p d)) a).
Proof.
  intros Hd Ha. rewrite run_solo_app, (solo_heap h p d Hd).
  cbn [run_solo]. rewrite (step_ro _ _ a Ha). reflexivity.
Qed.

(* ---------- nth_upd ---------- *)

Lemma nth_upd_same {A} (l : list A) i f x :
  nth_error l i = Some x -> nth_error (nth_upd l i f) i = Some (f x).
Proof.
  revert i. induction l as [|y l IH]; intros [|i] H; simpl in *; try discriminate.
  - now inversion H.
  - now apply IH.
Qed.

Lemma nth_upd_other {A} (l : list A) i j f :
  i <> j -> nth_error (nth_upd l i f) j = nth_error l j.
Proof.
  revert i j. induction l as [|y l IH]; intros [|i] [|j] H; simpl; try reflexivity.
  - congruence.
  - apply IH. congruence.
Qed.

Lemma nth_upd_length {A} (l : list A) i f : List.length (nth_upd l i f) = List.length l.
Proof.
  revert i. induction l as [|y l IH]; intros [|i]; simpl; try reflexivity.
  now rewrite IH.
Qed.

Lemma forallb_nth_upd_const {A} (P : A -> bool) l i y :
  forallb P l = true -> P y = true -> forallb P (nth_upd l i (fun _ => y)) = true.
Proof.
  revert i. induction l as [|x l IH]; intros [|i] Hl Hy; simpl in *; try reflexivity.
  - apply andb_true_iff in Hl. destruct Hl as [_ Hl]. now rewrite Hy, Hl.
  - apply andb_true_iff in Hl. destruct Hl as [Hx Hl]. rewrite Hx. simpl. now apply IH.
Qed.

Lemma allro_nth s i t p :
  allro s = true -> nth_error s i = Some (t, p) -> read_only t = true.
Proof.
  intros Hs Hn. apply nth_error_In in Hn.
  rewrite forallb_forall in Hs. exact (Hs _ Hn).
Qed.

(* ---------- one system step ---------- *)

Lemma sys_step_ro h s i :
  allro s = true ->
  sys_step h s i = (h, snd (sys_step h s i)) /\ allro (snd (sys_step h s i)) = true.
Proof.
  intros Hs. unfold sys_step.
  destruct (nth_error s i) as [[[|a rest] p]|] eqn:En; try (split; [reflexivity|exact Hs]).
  pose proof (allro_nth _ _ _ _ Hs En) as Hro.
  apply read_only_cons in Hro. destruct Hro as [Ha Hrest].
  rewrite (step_ro h p a Ha). cbn [snd]. split; [reflexivity|].
  apply forallb_nth_upd_const; [exact Hs|exact Hrest].
Qed.

(* if every thread of the system is read-only, the heap is unchanged under every schedule *)
Lemma sched_ro h s sched :
  allro s = true ->
  run_sched h s sched = (h, snd (run_sched h s sched)) /\ allro (snd (run_sched h s sched)) = true.
Proof.
  revert s. induction sched as [|i r IH]; intros s Hs; [split; [reflexivity|exact Hs]|].
  cbn [run_sched]. destruct (sys_step_ro h s i Hs) as [E Hs'].
  rewrite E. apply IH, Hs'.
Qed.

Theorem sched_heap h s sched :
  forallb (fun tp => read_only (fst tp)) s = true -> fst (run_sched h s sched) = h.
Proof. intros Hs. destruct (sched_ro h s sched Hs) as [E _]. rewrite E. reflexivity. Qed.

(* ---------- the invariant relating the current system to the original one ---------- *)

Definition inv (h : heap) (s s' : sys) : Prop :=
  forall i t p, nth_error s i = Some (t, p) ->
    exists done rest p', t = done ++ rest /\ nth_error s' i = Some (rest, p') /\
                         p' = snd (run_solo h p done).

Lemma inv_refl h s : inv h s s.
Proof. intros i t p H. exists [], t, p. repeat split; [exact H]. Qed.

Lemma inv_step h s s' j :
  allro s = true -> allro s' = true -> inv h s s' -> inv h s (snd (sys_step h s' j)).
Proof.
  intros Hs Hs' Hinv. unfold sys_step.
  destruct (nth_error s' j) as [[[|a rest] q]|] eqn:En; try exact Hinv.
  pose proof (allro_nth _ _ _ _ Hs' En) as Hro.
  apply read_only_cons in Hro. destruct Hro as [Ha _].
  rewrite (step_ro h q a Ha). cbn [snd].
  intros i t p Hi. destruct (Hinv i t p Hi) as (d & r & p' & Et & En' & Ep).
  destruct (Nat.eq_dec j i) as [->|Hne].
  - rewrite En in En'.
    assert (Er : r = a :: rest) by congruence.
    assert (H1 : q = snd (run_solo h p d)) by congruence.
    subst r. clear En' Ep p'.
    exists (d ++ [a]), rest, (snd (step h q a)). split; [|split].
    + rewrite <- app_assoc. exact Et.
    + apply (nth_upd_same s' i (fun _ => (rest, snd (step h q a))) _ En).
    + pose proof (allro_nth _ _ _ _ Hs Hi) as Hrt. rewrite Et in Hrt.
      apply read_only_app in Hrt. destruct Hrt as [Hd _].
      rewrite (run_solo_snoc_ro h p d a Hd Ha), <- H1. reflexivity.
  - exists d, r, p'. split; [exact Et|split; [|exact Ep]].
    rewrite nth_upd_other by exact Hne. exact En'.
Qed.

Lemma inv_sched h s sched : forall s',
  allro s = true -> allro s' = true -> inv h s s' -> inv h s (snd (run_sched h s' sched)).
Proof.
  induction sched as [|j r IH]; intros s' Hs Hs' Hinv; [exact Hinv|].
  cbn [run_sched]. destruct (sys_step_ro h s' j Hs') as [E Hs''].
  rewrite E. apply IH; [exact Hs|exact Hs''|]. apply inv_step; assumption.
Qed.

(* at any point of any schedule thread i has executed a prefix of its actions and its
   private state is the solo result of that prefix *)
Theorem sched_prefix h s sched i t p :
  forallb (fun tp => read_only (fst tp)) s = true ->
  nth_error s i = Some (t, p) ->
  exists done rest p', t = done ++ rest /\ nth_error (snd (run_sched h s sched)) i = Some (rest, p') /\
                       p' = snd (run_solo h p done).
Proof.
  intros Hs Hi. exact (inv_sched h s sched s Hs Hs (inv_refl h s) i t p Hi).
Qed.

(* every finished thread holds exactly the result of running it alone on the initial heap *)
Theorem sched_deterministic h s sched i t p :
  forallb (fun tp => read_only (fst tp)) s = true ->
  nth_error s i = Some (t, p) ->
  forall p', nth_error (snd (run_sched h s sched)) i = Some ([], p') ->
  p' = snd (run_solo h p t).
Proof.
  intros Hs Hi p' Hfin.
  destruct (sched_prefix h s sched i t p Hs Hi) as (d & r & q & Et & En & Eq).
  rewrite Hfin in En. inversion En; subst r q.
  rewrite app_nil_r in Et. subst d. reflexivity.
Qed.

(* no two conflicting accesses exist: no thread writes *)
Lemma writes_of_ro t : read_only t = true -> writes_of t = [].
Proof.
  induction t as [|a t IH]; intros H; [reflexivity|].
  apply read_only_cons in H. destruct H as [Ha Ht].
  unfold writes_of in *. cbn [flat_map]. rewrite (IH Ht).
  destruct a; try reflexivity; discriminate.
Qed.

Theorem no_conflicts (s : sys) :
  forallb (fun tp => read_only (fst tp)) s = true -> flat_map (fun tp => writes_of (fst tp)) s = [].
Proof.
  induction s as [|[t p] s IH]; intros H; [reflexivity|].
  cbn [forallb] in H. apply andb_true_iff in H. destruct H as [Ht Hs].
  cbn [flat_map fst] in *. rewrite (writes_of_ro t Ht), (IH Hs). reflexivity.
Qed.

(* the hypothesis is what matters: a writer can make another thread's result
   schedule-dependent *)
Example writer_breaks_determinism :
  exists h s sched1 sched2 p1 p2,
    nth_error (snd (run_sched h s sched1)) 0 = Some ([], p1) /\
    nth_error (snd (run_sched h s sched2)) 0 = Some ([], p2) /\ p1 <> p2.
Proof.
  exists (fun _ => 0%Z),
         [([ARead 0 (fun _ v => v)], 0%Z); ([AWrite 0 (fun _ => 1%Z)], 0%Z)],
         [0%nat], [1%nat; 0%nat], 0%Z, 1%Z.
  split; [reflexivity|split; [reflexivity|discriminate]].
Qed.
